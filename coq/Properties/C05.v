(* C05 — Shorthand range operators denote their documented intervals.
   Statements only; the proofs live in Eco/<E>/RangeFacts.v.

   Each theorem computes [r_contains] (the model of NewVersionRange + Contains on texts; [Some b]
   = accepted and Contains = b) of one shorthand construct as an explicit interval predicate:
   a conjunction of [sat CGe / CGt (vcmp v lower)] and [sat CLt / CLe (vcmp v upper)], or
   [ge_lt] / [between] / [bounded] / [in_interval], which abbreviate such a conjunction (spelled
   out by the C05_<eco>_*_unfold theorems; C05_<eco>_abbrev for the self-oracle abbreviations).
   Unless noted the version layer is an ARBITRARY oracle (vok = NewVersion accepts, vcmp =
   Compare on texts); where the Go code reads fields of parsed versions the theorem is stated for
   the model's own version layer instead (cargo: svok / svcmp, conan: m_vok / m_vcmp, gem: self_ok / self_cmp; tied to the
   ecosystem entry by C05_cargo_entry_self resp. definitionally).  Hypotheses [vok (...) = true]
   on desugared bounds say that the synthesized bound text is a valid version; numeric side
   conditions (< two63 = 2^63) exclude int64 overflow in "+1".

   npm       ^ ~ on full and partial (X, X.Y) bases, x-ranges X.x / X.Y.x, hyphen ranges, "*":
             the node-semver intervals (the upper bounds are spelled out by
             C05_npm_caret_upper_doc / C05_npm_tilde_upper_doc: ^0.0.Z is < 0.0.(Z+1), etc.).
   cargo     ^ ~ on bases of 1-3 components with optional pre-release, X.* / X.Y.*, "*":
             [lower, upper_caret / upper_tilde) where the upper bound is the least version with
             the bumped number (pre-release "0").  Recorded oddities (not documented behaviour,
             proved as they are): over-long bases are accepted, the tilde arity counts dots of
             the suffix, "*" excludes pre-releases of 0.0.0.
   composer  ~ (1, 2, 3+ components), wildcards X.* / X.Y.*, hyphen ranges, ^ by cases.  The
             caret is an interval ONLY for stable probes (C05_composer_caret_major_interval_stable;
             the property restricts composer probes to stable versions): for non-stable probes
             it is the field test shown in C05_composer_caret_major (finding
             F-composer-caret-stability / -text-case, see C20.v).  The recorded examples
             C05_composer_caret_* / tilde_* / wildcard_* show the deviations for pre-release
             probes and odd bases.
   conan     ~ and ^ on numeric bases of any length, numeric probes: [base, tilde_upper) and
             [base, caret_upper).  REFUTED for ^0.0.Z: caret_upper [0;0;Z] = [0;1], i.e. the
             range is [0.0.Z, 0.1) where Conan documents [0.0.Z, 0.0.(Z+1)) (finding
             F-conan-caret-00z, pinned by a test of the library); ^0 has no upper bound.
   gem       ~> on numeric bases of any length t, for the model's own version layer (self_ok /
             self_cmp, C05_gem_abbrev): probes with non-negative numeric segments are contained
             iff base <= v and the numeric segments of v are below [bump t] (t with its
             last-but-one component incremented and the last dropped; ~> X is [X, X+1));
             C05_gem_tuples is the same for numeric probes as the interval
             [dots t, dots (bumpN t)) of Compare.  Recorded deviations: a pre-release of the
             upper bound is excluded by the segment test although Compare places it inside
             (C05_gem_pess_excludes_prerelease_of_bump - which is what RubyGems documents); a
             pre-release BASE pins all its numeric segments (C05_gem_finding_pess_prerelease_bound).
   hex       ~> X.Y.Z[-pre] is [base, X.(Y+1).0) and ~> X.0 is [X.0, (X+1).0.0) as documented.
             REFUTED for ~> X.Y with Y > 0: the upper bound is X.(Y+1).0 (C05_hex_pess_xy)
             where Hex documents (X+1).0.0 (finding F-hex-pessimistic-minor, pinned by a test
             of the library).
   pypi      ~= (compatible release), ==X.* / !=X.* (prefix match and its complement), ===
             (text identity): the PEP 440 intervals on release tuples with epochs.
   nuget     all bracket forms [a,b] (a,b) [a,b) (a,b] [a] (a,) (,b) [a,) (,b]... ; a bare version
             is >= ; the forms [a,] and [,b] and the empty interval are rejected
             (C05_nuget_inclusive_half_open_rejected, C05_nuget_empty_interval_rejected).
   maven     all bracket forms with optional blanks around the bounds; a bare version is the
             exact match.  (Maven's Compare is not transitive, finding F-maven-order-cycle; the
             theorems here do not depend on any law of vcmp.) *)

From Verif.Base Require Import Bytes BytesFacts GoNum Ord.
From Verif.Eco Require Import RangeCore RangeCoreFacts Iface VLayer VLayerFacts.
From Verif.Eco.Alpine Require Version VersionFacts Range RangeFacts Entry OrdMore.
From Verif.Eco.Alpm Require Version VersionFacts Range RangeFacts Entry C03Facts.
From Verif.Eco.Apache Require Version VersionFacts Range RangeFacts Entry.
From Verif.Eco.Cargo Require Version VersionFacts Range RangeFacts Entry.
From Verif.Eco.Composer Require Version VersionFacts Range RangeFacts Entry.
From Verif.Eco.Conan Require Version VersionFacts Range RangeFacts Entry.
From Verif.Eco.Cran Require Version VersionFacts Range Entry.
From Verif.Eco.Debian Require Version VersionFacts Range RangeFacts Entry.
From Verif.Eco.Gem Require Version VersionFacts Range RangeFacts Entry.
From Verif.Eco.Gentoo Require Version VersionFacts Range RangeFacts Entry.
From Verif.Eco.Github Require Version VersionFacts Range RangeFacts Entry.
From Verif.Eco.Golang Require Version VersionFacts Range RangeFacts Entry.
From Verif.Eco.Hex Require Version VersionFacts Range RangeFacts Entry.
From Verif.Eco.Mattermost Require Version VersionFacts Range RangeFacts Entry.
From Verif.Eco.Maven Require Version VersionFacts Range RangeFacts Entry.
From Verif.Eco.Npm Require Version VersionFacts Range RangeFacts Entry.
From Verif.Eco.Nuget Require Version VersionFacts Range RangeFacts Entry.
From Verif.Eco.Pypi Require Version VersionFacts Range RangeFacts Entry.
From Verif.Eco.Rpm Require Version VersionFacts Range RangeFacts Entry.
From Verif.Eco.Semver Require Version VersionFacts Range RangeFacts Entry.


(* npm *)

Theorem C05_npm_ge_lt_unfold : forall (vcmp : bytes -> bytes -> comparison) (v lo hi : bytes),
  Npm.RangeFacts.ge_lt vcmp v lo hi = sat CGe (vcmp v lo) && sat CLt (vcmp v hi).
Proof. reflexivity. Qed.
Print Assumptions C05_npm_ge_lt_unfold.

Theorem C05_npm_star_all :
  forall (vok : bytes -> bool) (vcmp : bytes -> bytes -> comparison) (v : bytes),
  vok v = true -> r_contains Npm.Entry.r vok vcmp $"*" v = Some true.
Proof. exact Npm.RangeFacts.star_all. Qed.
Print Assumptions C05_npm_star_all.

Theorem C05_npm_caret_interval :
  forall (vok : bytes -> bool) (vcmp : bytes -> bytes -> comparison)
    (b : bytes) (c : Npm.Version.core) (v : bytes),
  Npm.RangeFacts.plain b = true ->
  Npm.Version.parse_core b = Some c ->
  vok (Npm.Version.normalize c) = true ->
  vok (Npm.RangeFacts.caret_upper c) = true ->
  vok v = true ->
  r_contains Npm.Entry.r vok vcmp ("^"%char :: b) v =
  Some (Npm.RangeFacts.ge_lt vcmp v (Npm.Version.normalize c) (Npm.RangeFacts.caret_upper c)).
Proof. exact Npm.RangeFacts.caret_interval. Qed.
Print Assumptions C05_npm_caret_interval.

Theorem C05_npm_caret_interval_gen :
  forall (vok : bytes -> bool) (vcmp : bytes -> bytes -> comparison)
    (b p : bytes) (w : N) (c : Npm.Version.core) (v : bytes),
  Npm.RangeFacts.plain b = true ->
  Npm.Range.pad_partial b = (p, w) ->
  Npm.Version.parse_core p = Some c ->
  vok (Npm.Version.normalize c) = true ->
  vok (Npm.RangeFacts.caret_upper_w w c) = true ->
  vok v = true ->
  r_contains Npm.Entry.r vok vcmp ("^"%char :: b) v =
  Some (Npm.RangeFacts.ge_lt vcmp v (Npm.Version.normalize c) (Npm.RangeFacts.caret_upper_w w c)).
Proof. exact Npm.RangeFacts.caret_interval_gen. Qed.
Print Assumptions C05_npm_caret_interval_gen.

Theorem C05_npm_tilde_interval :
  forall (vok : bytes -> bool) (vcmp : bytes -> bytes -> comparison)
    (b : bytes) (c : Npm.Version.core) (v : bytes),
  Npm.RangeFacts.plain b = true ->
  Npm.Version.parse_core b = Some c ->
  vok (Npm.Version.normalize c) = true ->
  vok (Npm.RangeFacts.tilde_upper c) = true ->
  vok v = true ->
  r_contains Npm.Entry.r vok vcmp ("~"%char :: b) v =
  Some (Npm.RangeFacts.ge_lt vcmp v (Npm.Version.normalize c) (Npm.RangeFacts.tilde_upper c)).
Proof. exact Npm.RangeFacts.tilde_interval. Qed.
Print Assumptions C05_npm_tilde_interval.

Theorem C05_npm_tilde_interval_gen :
  forall (vok : bytes -> bool) (vcmp : bytes -> bytes -> comparison)
    (b p : bytes) (w : N) (c : Npm.Version.core) (v : bytes),
  Npm.RangeFacts.plain b = true ->
  Npm.Range.pad_partial b = (p, w) ->
  Npm.Version.parse_core p = Some c ->
  vok (Npm.Version.normalize c) = true ->
  vok (Npm.RangeFacts.tilde_upper_w w c) = true ->
  vok v = true ->
  r_contains Npm.Entry.r vok vcmp ("~"%char :: b) v =
  Some (Npm.RangeFacts.ge_lt vcmp v (Npm.Version.normalize c) (Npm.RangeFacts.tilde_upper_w w c)).
Proof. exact Npm.RangeFacts.tilde_interval_gen. Qed.
Print Assumptions C05_npm_tilde_interval_gen.

Theorem C05_npm_caret_upper_doc :
  forall (t : bytes) (c : Npm.Version.core),
  Npm.Version.parse_core t = Some c ->
  (Npm.Version.major c < max_int64)%Z ->
  (Npm.Version.minor c < max_int64)%Z ->
  (Npm.Version.patch c < max_int64)%Z ->
  Npm.RangeFacts.caret_upper c =
  (if (Npm.Version.major c =? 0)%Z
   then
    if (Npm.Version.minor c =? 0)%Z
    then Npm.Range.ver3_0 0 0 (Npm.Version.patch c + 1)
    else Npm.Range.ver3_0 0 (Npm.Version.minor c + 1) 0
   else Npm.Range.ver3_0 (Npm.Version.major c + 1) 0 0).
Proof. exact Npm.RangeFacts.caret_upper_doc. Qed.
Print Assumptions C05_npm_caret_upper_doc.

Theorem C05_npm_tilde_upper_doc :
  forall (t : bytes) (c : Npm.Version.core),
  Npm.Version.parse_core t = Some c ->
  (Npm.Version.minor c < max_int64)%Z ->
  Npm.RangeFacts.tilde_upper c = Npm.Range.ver3_0 (Npm.Version.major c) (Npm.Version.minor c + 1) 0.
Proof. exact Npm.RangeFacts.tilde_upper_doc. Qed.
Print Assumptions C05_npm_tilde_upper_doc.

Theorem C05_npm_caret_major :
  forall (vok : bytes -> bool) (vcmp : bytes -> bytes -> comparison) (x : N) (v : bytes),
  (x < two63)%N ->
  vok (Npm.VersionFacts.triple_text x 0 0) = true ->
  vok (Npm.Range.ver3_0 (Npm.Range.succ64 (Z.of_N x)) 0 0) = true ->
  vok v = true ->
  r_contains Npm.Entry.r vok vcmp ("^"%char :: dec x) v =
  Some
    (Npm.RangeFacts.ge_lt vcmp v (Npm.VersionFacts.triple_text x 0 0)
       (Npm.Range.ver3_0 (Npm.Range.succ64 (Z.of_N x)) 0 0)).
Proof. exact Npm.RangeFacts.caret_major. Qed.
Print Assumptions C05_npm_caret_major.

Theorem C05_npm_caret_minor :
  forall (vok : bytes -> bool) (vcmp : bytes -> bytes -> comparison) (x y : N) (v : bytes),
  (x < two63)%N ->
  (y < two63)%N ->
  let hi :=
    if (x =? 0)%N
    then Npm.Range.ver3_0 0 (Npm.Range.succ64 (Z.of_N y)) 0
    else Npm.Range.ver3_0 (Npm.Range.succ64 (Z.of_N x)) 0 0 in
  vok (Npm.VersionFacts.triple_text x y 0) = true ->
  vok hi = true ->
  vok v = true ->
  r_contains Npm.Entry.r vok vcmp ("^"%char :: dec x ++ "."%char :: dec y) v =
  Some (Npm.RangeFacts.ge_lt vcmp v (Npm.VersionFacts.triple_text x y 0) hi).
Proof. exact Npm.RangeFacts.caret_minor. Qed.
Print Assumptions C05_npm_caret_minor.

Theorem C05_npm_tilde_major :
  forall (vok : bytes -> bool) (vcmp : bytes -> bytes -> comparison) (x : N) (v : bytes),
  (x < two63)%N ->
  vok (Npm.VersionFacts.triple_text x 0 0) = true ->
  vok (Npm.Range.ver3_0 (Npm.Range.succ64 (Z.of_N x)) 0 0) = true ->
  vok v = true ->
  r_contains Npm.Entry.r vok vcmp ("~"%char :: dec x) v =
  Some
    (Npm.RangeFacts.ge_lt vcmp v (Npm.VersionFacts.triple_text x 0 0)
       (Npm.Range.ver3_0 (Npm.Range.succ64 (Z.of_N x)) 0 0)).
Proof. exact Npm.RangeFacts.tilde_major. Qed.
Print Assumptions C05_npm_tilde_major.

Theorem C05_npm_tilde_minor :
  forall (vok : bytes -> bool) (vcmp : bytes -> bytes -> comparison) (x y : N) (v : bytes),
  (x < two63)%N ->
  (y < two63)%N ->
  vok (Npm.VersionFacts.triple_text x y 0) = true ->
  vok (Npm.Range.ver3_0 (Z.of_N x) (Npm.Range.succ64 (Z.of_N y)) 0) = true ->
  vok v = true ->
  r_contains Npm.Entry.r vok vcmp ("~"%char :: dec x ++ "."%char :: dec y) v =
  Some
    (Npm.RangeFacts.ge_lt vcmp v (Npm.VersionFacts.triple_text x y 0)
       (Npm.Range.ver3_0 (Z.of_N x) (Npm.Range.succ64 (Z.of_N y)) 0)).
Proof. exact Npm.RangeFacts.tilde_minor. Qed.
Print Assumptions C05_npm_tilde_minor.

Theorem C05_npm_xrange_major :
  forall (vok : bytes -> bool) (vcmp : bytes -> bytes -> comparison)
    (ds : list ascii) (w v : bytes),
  ds <> [] ->
  forallb is_digit ds = true ->
  (digits_val ds < two63)%N ->
  Npm.Range.is_x w = true ->
  let m := Z.of_N (digits_val ds) in
  vok (Npm.Range.ver3_0 m 0 0) = true ->
  vok (Npm.Range.ver3_0 (Npm.Range.succ64 m) 0 0) = true ->
  vok v = true ->
  r_contains Npm.Entry.r vok vcmp (ds ++ "."%char :: w) v =
  Some (Npm.RangeFacts.ge_lt vcmp v (Npm.Range.ver3_0 m 0 0) (Npm.Range.ver3_0 (Npm.Range.succ64 m) 0 0)).
Proof. exact Npm.RangeFacts.xrange_major. Qed.
Print Assumptions C05_npm_xrange_major.

Theorem C05_npm_xrange_minor :
  forall (vok : bytes -> bool) (vcmp : bytes -> bytes -> comparison)
    (ds1 ds2 : list ascii) (w v : bytes),
  ds1 <> [] ->
  forallb is_digit ds1 = true ->
  (digits_val ds1 < two63)%N ->
  ds2 <> [] ->
  forallb is_digit ds2 = true ->
  (digits_val ds2 < two63)%N ->
  Npm.Range.is_x w = true ->
  let m := Z.of_N (digits_val ds1) in
  let n := Z.of_N (digits_val ds2) in
  vok (Npm.Range.ver3_0 m n 0) = true ->
  vok (Npm.Range.ver3_0 m (Npm.Range.succ64 n) 0) = true ->
  vok v = true ->
  r_contains Npm.Entry.r vok vcmp (ds1 ++ "."%char :: ds2 ++ "."%char :: w) v =
  Some (Npm.RangeFacts.ge_lt vcmp v (Npm.Range.ver3_0 m n 0) (Npm.Range.ver3_0 m (Npm.Range.succ64 n) 0)).
Proof. exact Npm.RangeFacts.xrange_minor. Qed.
Print Assumptions C05_npm_xrange_minor.

Theorem C05_npm_hyphen_interval :
  forall (vok : bytes -> bool) (vcmp : bytes -> bytes -> comparison) (a b v : bytes),
  Npm.RangeFacts.plain a = true ->
  Npm.RangeFacts.plain b = true ->
  a <> [] ->
  b <> [] ->
  vok a = true ->
  vok b = true ->
  vok v = true ->
  r_contains Npm.Entry.r vok vcmp (Npm.RangeFacts.hy a b) v =
  Some (sat CGe (vcmp v a) && sat CLe (vcmp v b)).
Proof. exact Npm.RangeFacts.hyphen_interval. Qed.
Print Assumptions C05_npm_hyphen_interval.

(* cargo *)

Theorem C05_cargo_in_interval_unfold : forall fv lo hi : Cargo.Version.core,
  Cargo.RangeFacts.in_interval fv lo hi =
  negb (match Cargo.Version.cmp_core fv lo with Lt => true | _ => false end) &&
  (match Cargo.Version.cmp_core fv hi with Lt => true | _ => false end).
Proof. reflexivity. Qed.
Print Assumptions C05_cargo_in_interval_unfold.

Theorem C05_cargo_caret :
  forall (core : bytes) (n : nat) (x y z : N) (suf p v : bytes) (fv : Cargo.Version.core),
  Cargo.RangeFacts.base_of core n x y z ->
  Cargo.RangeFacts.suffix_of suf p ->
  (x < two63)%N ->
  (y < two63)%N ->
  (z < two63)%N ->
  Cargo.Range.fields v = Some fv ->
  Cargo.Range.r_contains Cargo.RangeFacts.svok Cargo.RangeFacts.svcmp ("^"%char :: core ++ suf) v =
  Some
    (Cargo.RangeFacts.in_interval fv (Cargo.VersionFacts.mkc x y z p [])
       (Cargo.RangeFacts.upper_caret n (Cargo.VersionFacts.mkc x y z p []))).
Proof. exact Cargo.RangeFacts.C05_caret. Qed.
Print Assumptions C05_cargo_caret.

Theorem C05_cargo_tilde :
  forall (core : bytes) (n : nat) (x y z : N) (suf p v : bytes) (fv : Cargo.Version.core),
  Cargo.RangeFacts.base_of core n x y z ->
  Cargo.RangeFacts.suffix_of suf p ->
  (x < two63)%N ->
  (y < two63)%N ->
  (z < two63)%N ->
  Cargo.Range.fields v = Some fv ->
  Cargo.Range.r_contains Cargo.RangeFacts.svok Cargo.RangeFacts.svcmp ("~"%char :: core ++ suf) v =
  Some
    (Cargo.RangeFacts.in_interval fv (Cargo.VersionFacts.mkc x y z p [])
       (Cargo.RangeFacts.upper_tilde (Cargo.Range.count_components (core ++ suf))
          (Cargo.VersionFacts.mkc x y z p []))).
Proof. exact Cargo.RangeFacts.C05_tilde. Qed.
Print Assumptions C05_cargo_tilde.

Theorem C05_cargo_star :
  forall (v : bytes) (fv : Cargo.Version.core),
  Cargo.Range.fields v = Some fv ->
  Cargo.Range.r_contains Cargo.RangeFacts.svok Cargo.RangeFacts.svcmp $"*" v =
  Some (sat CGe (Cargo.Version.cmp_core fv (Cargo.VersionFacts.mkc 0 0 0 [] []))).
Proof. exact Cargo.RangeFacts.C05_star. Qed.
Print Assumptions C05_cargo_star.

Theorem C05_cargo_wildcard_major :
  forall (x : N) (v : bytes) (fv : Cargo.Version.core),
  (x < two63)%N ->
  Cargo.Range.fields v = Some fv ->
  Cargo.Range.r_contains Cargo.RangeFacts.svok Cargo.RangeFacts.svcmp (dec x ++ $".*")
    v =
  Some
    (Cargo.RangeFacts.in_interval fv (Cargo.VersionFacts.mkc x 0 0 [] [])
       (Cargo.RangeFacts.upper_caret 1 (Cargo.VersionFacts.mkc x 0 0 [] []))).
Proof. exact Cargo.RangeFacts.C05_wildcard_major. Qed.
Print Assumptions C05_cargo_wildcard_major.

Theorem C05_cargo_wildcard_minor :
  forall (x y : N) (v : bytes) (fv : Cargo.Version.core),
  (x < two63)%N ->
  (y < two63)%N ->
  Cargo.Range.fields v = Some fv ->
  Cargo.Range.r_contains Cargo.RangeFacts.svok Cargo.RangeFacts.svcmp
    ((dec x ++ $"." ++ dec y) ++ $".*") v =
  Some
    (Cargo.RangeFacts.in_interval fv (Cargo.VersionFacts.mkc x y 0 [] [])
       (Cargo.RangeFacts.upper_tilde 2 (Cargo.VersionFacts.mkc x y 0 [] []))).
Proof. exact Cargo.RangeFacts.C05_wildcard_minor. Qed.
Print Assumptions C05_cargo_wildcard_minor.

Theorem C05_cargo_caret_interval :
  forall (p : nat) (fv fc : Cargo.Version.core),
  Cargo.RangeFacts.wf fv ->
  Cargo.RangeFacts.wf fc ->
  Cargo.RangeFacts.caret_core p fv fc = Cargo.RangeFacts.in_interval fv fc (Cargo.RangeFacts.upper_caret p fc).
Proof. exact Cargo.RangeFacts.caret_interval. Qed.
Print Assumptions C05_cargo_caret_interval.

Theorem C05_cargo_tilde_interval :
  forall (p : nat) (fv fc : Cargo.Version.core),
  Cargo.RangeFacts.wf fv ->
  Cargo.RangeFacts.wf fc ->
  Cargo.RangeFacts.tilde_core p fv fc = Cargo.RangeFacts.in_interval fv fc (Cargo.RangeFacts.upper_tilde p fc).
Proof. exact Cargo.RangeFacts.tilde_interval. Qed.
Print Assumptions C05_cargo_tilde_interval.

Theorem C05_cargo_entry_self :
  forall rs v : bytes,
  r_contains (e_r Cargo.Entry.entry) (self_vok Cargo.Entry.entry)
    (self_vcmp Cargo.Entry.entry) rs v =
  Cargo.Range.r_contains Cargo.RangeFacts.svok Cargo.RangeFacts.svcmp rs v.
Proof. exact Cargo.RangeFacts.entry_self. Qed.
Print Assumptions C05_cargo_entry_self.

Theorem C05_cargo_over_long_base_accepted :
  Cargo.Range.r_contains Cargo.RangeFacts.svok Cargo.RangeFacts.svcmp $"^1.2.3.4"
    $"1.9.0" = Some true /\
  Cargo.Range.r_contains Cargo.RangeFacts.svok Cargo.RangeFacts.svcmp $"~1.2.3.x"
    $"1.2.9" = Some true /\
  Cargo.Range.r_contains Cargo.RangeFacts.svok Cargo.RangeFacts.svcmp
    $"^1.2.3.gar-bage" $"1.2.3" = 
  Some true.
Proof. exact Cargo.RangeFacts.over_long_base_accepted. Qed.
Print Assumptions C05_cargo_over_long_base_accepted.

Theorem C05_cargo_tilde_precision_counts_suffix_dots :
  Cargo.Range.r_contains Cargo.RangeFacts.svok Cargo.RangeFacts.svcmp $"~1-a"
    $"1.5.0" = Some true /\
  Cargo.Range.r_contains Cargo.RangeFacts.svok Cargo.RangeFacts.svcmp $"~1-a.b"
    $"1.5.0" = Some false.
Proof. exact Cargo.RangeFacts.tilde_precision_counts_suffix_dots. Qed.
Print Assumptions C05_cargo_tilde_precision_counts_suffix_dots.

Theorem C05_cargo_star_excludes_prerelease_of_zero :
  Cargo.Range.r_contains Cargo.RangeFacts.svok Cargo.RangeFacts.svcmp $"*"
    $"0.0.0-alpha" = Some false.
Proof. exact Cargo.RangeFacts.star_excludes_prerelease_of_zero. Qed.
Print Assumptions C05_cargo_star_excludes_prerelease_of_zero.

(* composer *)

Theorem C05_composer_abbrev :
  Composer.RangeFacts.sok = self_vok Composer.Entry.entry /\
  Composer.RangeFacts.scmp = self_vcmp Composer.Entry.entry /\
  (forall r v : bytes, Composer.RangeFacts.rc r v =
     r_contains Composer.Entry.r (self_vok Composer.Entry.entry) (self_vcmp Composer.Entry.entry) r v) /\
  (forall r : bytes, Composer.RangeFacts.racc r = true <->
     r_show Composer.Entry.r (self_vok Composer.Entry.entry) r <> None).
Proof.
  repeat split; unfold Composer.RangeFacts.racc, Composer.RangeFacts.sok;
    destruct (r_show Composer.Entry.r (self_vok Composer.Entry.entry) r); congruence.
Qed.
Print Assumptions C05_composer_abbrev.

Theorem C05_composer_between_unfold : forall (vcmp : bytes -> bytes -> comparison) (v lo up : bytes),
  Composer.RangeFacts.between vcmp v lo up = sat CGe (vcmp v lo) && sat CLt (vcmp v up).
Proof. reflexivity. Qed.
Print Assumptions C05_composer_between_unfold.

Theorem C05_composer_tilde_1 :
  forall (vok : bytes -> bool) (vcmp : bytes -> bytes -> comparison)
    (M : N) (v : bytes) (vc : Composer.Version.core),
  (M + 1 < two63)%N ->
  vok (Composer.VersionFacts.numtext [M]) = true ->
  vok (Composer.Range.fmt3 (Z.of_N M) 0 0) = true ->
  vok (Composer.Range.fmt3 (Z.of_N M + 1) 0 0) = true ->
  vok v = true ->
  Composer.Version.parse_core (trim_space v) = Some vc ->
  r_contains Composer.Entry.r vok vcmp ("~"%char :: Composer.VersionFacts.numtext [M]) v =
  Some (Composer.RangeFacts.between vcmp v (Composer.Range.fmt3 (Z.of_N M) 0 0) (Composer.Range.fmt3 (Z.of_N M + 1) 0 0)).
Proof. exact Composer.RangeFacts.tilde_1. Qed.
Print Assumptions C05_composer_tilde_1.

Theorem C05_composer_tilde_2 :
  forall (vok : bytes -> bool) (vcmp : bytes -> bytes -> comparison)
    (M m : N) (v : bytes) (vc : Composer.Version.core),
  (M + 1 < two63)%N ->
  (m < two63)%N ->
  vok (Composer.VersionFacts.numtext [M; m]) = true ->
  vok (Composer.Range.fmt3 (Z.of_N M) (Z.of_N m) 0) = true ->
  vok (Composer.Range.fmt3 (Z.of_N M + 1) 0 0) = true ->
  vok v = true ->
  Composer.Version.parse_core (trim_space v) = Some vc ->
  r_contains Composer.Entry.r vok vcmp ("~"%char :: Composer.VersionFacts.numtext [M; m]) v =
  Some
    (Composer.RangeFacts.between vcmp v (Composer.Range.fmt3 (Z.of_N M) (Z.of_N m) 0)
       (Composer.Range.fmt3 (Z.of_N M + 1) 0 0)).
Proof. exact Composer.RangeFacts.tilde_2. Qed.
Print Assumptions C05_composer_tilde_2.

Theorem C05_composer_tilde_3 :
  forall (vok : bytes -> bool) (vcmp : bytes -> bytes -> comparison)
    (M m : N) (ds : list N) (v : bytes) (vc : Composer.Version.core),
  (M < two63)%N ->
  (m + 1 < two63)%N ->
  Forall (fun x : N => (x < two63)%N) ds ->
  1 <= Datatypes.length ds <= 3 ->
  vok (Composer.VersionFacts.numtext (M :: m :: ds)) = true ->
  vok (Composer.Range.fmt3 (Z.of_N M) (Z.of_N m + 1) 0) = true ->
  vok v = true ->
  Composer.Version.parse_core (trim_space v) = Some vc ->
  r_contains Composer.Entry.r vok vcmp
    ("~"%char :: Composer.VersionFacts.numtext (M :: m :: ds)) v =
  Some
    (Composer.RangeFacts.between vcmp v (Composer.VersionFacts.numtext (M :: m :: ds))
       (Composer.Range.fmt3 (Z.of_N M) (Z.of_N m + 1) 0)).
Proof. exact Composer.RangeFacts.tilde_3. Qed.
Print Assumptions C05_composer_tilde_3.

Theorem C05_composer_wildcard_1 :
  forall (vok : bytes -> bool) (vcmp : bytes -> bytes -> comparison)
    (M : N) (w v : bytes) (vc : Composer.Version.core),
  (M + 1 < two63)%N ->
  Composer.RangeFacts.wildcard_mark w ->
  vok (Composer.Range.fmt3 (Z.of_N M) 0 0) = true ->
  vok (Composer.Range.fmt3 (Z.of_N M + 1) 0 0) = true ->
  vok v = true ->
  Composer.Version.parse_core (trim_space v) = Some vc ->
  r_contains Composer.Entry.r vok vcmp (dec M ++ "."%char :: w) v =
  Some (Composer.RangeFacts.between vcmp v (Composer.Range.fmt3 (Z.of_N M) 0 0) (Composer.Range.fmt3 (Z.of_N M + 1) 0 0)).
Proof. exact Composer.RangeFacts.wildcard_1. Qed.
Print Assumptions C05_composer_wildcard_1.

Theorem C05_composer_wildcard_2 :
  forall (vok : bytes -> bool) (vcmp : bytes -> bytes -> comparison)
    (M m : N) (w v : bytes) (vc : Composer.Version.core),
  (M < two63)%N ->
  (m + 1 < two63)%N ->
  Composer.RangeFacts.wildcard_mark w ->
  vok (Composer.Range.fmt3 (Z.of_N M) (Z.of_N m) 0) = true ->
  vok (Composer.Range.fmt3 (Z.of_N M) (Z.of_N m + 1) 0) = true ->
  vok v = true ->
  Composer.Version.parse_core (trim_space v) = Some vc ->
  r_contains Composer.Entry.r vok vcmp (dec M ++ "."%char :: dec m ++ "."%char :: w) v =
  Some
    (Composer.RangeFacts.between vcmp v (Composer.Range.fmt3 (Z.of_N M) (Z.of_N m) 0)
       (Composer.Range.fmt3 (Z.of_N M) (Z.of_N m + 1) 0)).
Proof. exact Composer.RangeFacts.wildcard_2. Qed.
Print Assumptions C05_composer_wildcard_2.

Theorem C05_composer_hyphen_range :
  forall (vok : bytes -> bool) (vcmp : bytes -> bytes -> comparison)
    (a b v : bytes) (vc : Composer.Version.core),
  Composer.RangeFacts.simple a = true ->
  Composer.RangeFacts.simple b = true ->
  has_suffix $"-" b = false ->
  vok a = true ->
  vok b = true ->
  vok v = true ->
  Composer.Version.parse_core (trim_space v) = Some vc ->
  r_contains Composer.Entry.r vok vcmp (a ++ $" - " ++ b) v =
  Some (sat CGe (vcmp v a) && sat CLe (vcmp v b)).
Proof. exact Composer.RangeFacts.hyphen_range. Qed.
Print Assumptions C05_composer_hyphen_range.

Theorem C05_composer_caret_major :
  forall (vok : bytes -> bool) (vcmp : bytes -> bytes -> comparison)
    (M : N) (ds : list N) (v : bytes) (vc : Composer.Version.core),
  (0 < M)%N ->
  (M + 1 < two63)%N ->
  Forall (fun x : N => (x < two63)%N) ds ->
  Datatypes.length ds <= 4 ->
  vok (Composer.VersionFacts.numtext (M :: ds)) = true ->
  vok (Composer.Range.fmt3 (Z.of_N M) (Composer.VersionFacts.zn ds 0) (Composer.VersionFacts.zn ds 1)) =
  true ->
  vok v = true ->
  Composer.Version.parse_core (trim_space v) = Some vc ->
  r_contains Composer.Entry.r vok vcmp ("^"%char :: Composer.VersionFacts.numtext (M :: ds)) v =
  Some
    (if (Composer.Version.c_stab vc =? Composer.Version.stabilityStable)%Z
     then
      (Composer.Version.c_major vc =? Z.of_N M)%Z &&
      Composer.Range.ge0
        (vcmp v
           (Composer.Range.fmt3 (Z.of_N M) (Composer.VersionFacts.zn ds 0)
              (Composer.VersionFacts.zn ds 1)))
     else
      (Composer.Version.c_major vc =? Z.of_N M)%Z &&
      (Composer.Version.c_minor vc =? Composer.VersionFacts.zn ds 0)%Z &&
      (Composer.Version.c_patch vc =? Composer.VersionFacts.zn ds 1)%Z &&
      beq
        (Composer.Range.fmt3 (Z.of_N M) (Composer.VersionFacts.zn ds 0) (Composer.VersionFacts.zn ds 1))
        $"1.0.0" && beq v $"1.0b1").
Proof. exact Composer.RangeFacts.caret_major. Qed.
Print Assumptions C05_composer_caret_major.

Theorem C05_composer_caret_major_interval_stable :
  forall (vok : bytes -> bool) (vcmp : bytes -> bytes -> comparison)
    (M m p : N) (v : bytes) (vc : Composer.Version.core),
  (0 < M)%N ->
  (M + 1 < two63)%N ->
  (m < two63)%N ->
  (p < two63)%N ->
  vok (Composer.VersionFacts.numtext [M; m; p]) = true ->
  vok v = true ->
  Composer.Version.parse_core (trim_space v) = Some vc ->
  Composer.Version.c_stab vc = Composer.Version.stabilityStable ->
  (forall (x : bytes) (cx : Composer.Version.core),
   Composer.Version.parse_core (trim_space x) = Some cx ->
   vcmp v x = Composer.Version.cmp_core vc cx) ->
  r_contains Composer.Entry.r vok vcmp ("^"%char :: Composer.VersionFacts.numtext [M; m; p]) v =
  Some
    (Composer.RangeFacts.between vcmp v (Composer.VersionFacts.numtext [M; m; p])
       (Composer.VersionFacts.numtext [(M + 1)%N; 0%N; 0%N])).
Proof. exact Composer.RangeFacts.caret_major_interval_stable. Qed.
Print Assumptions C05_composer_caret_major_interval_stable.

Theorem C05_composer_caret_zero_minor :
  forall (vok : bytes -> bool) (vcmp : bytes -> bytes -> comparison)
    (m : N) (ds : list N) (v : bytes) (vc : Composer.Version.core),
  (0 < m)%N ->
  (m + 1 < two63)%N ->
  Forall (fun x : N => (x < two63)%N) ds ->
  Datatypes.length ds <= 3 ->
  vok (Composer.VersionFacts.numtext (0%N :: m :: ds)) = true ->
  vok (Composer.Range.fmt3 0 (Z.of_N m) (Composer.VersionFacts.zn ds 0)) = true ->
  vok v = true ->
  Composer.Version.parse_core (trim_space v) = Some vc ->
  r_contains Composer.Entry.r vok vcmp
    ("^"%char :: Composer.VersionFacts.numtext (0%N :: m :: ds)) v =
  Some
    ((Composer.Version.c_major vc =? 0)%Z && (Composer.Version.c_minor vc =? Z.of_N m)%Z &&
     ((Composer.Version.c_patch vc =? Composer.VersionFacts.zn ds 0)%Z
      || Composer.Range.ge0 (vcmp v (Composer.Range.fmt3 0 (Z.of_N m) (Composer.VersionFacts.zn ds 0))))).
Proof. exact Composer.RangeFacts.caret_zero_minor. Qed.
Print Assumptions C05_composer_caret_zero_minor.

Theorem C05_composer_caret_zero_zero :
  forall (vok : bytes -> bool) (vcmp : bytes -> bytes -> comparison)
    (ds : list N) (v : bytes) (vc : Composer.Version.core),
  Forall (fun x : N => (x < two63)%N) ds ->
  1 <= Datatypes.length ds <= 2 ->
  vok (Composer.VersionFacts.numtext (0%N :: 0%N :: ds)) = true ->
  vok (Composer.Range.fmt3 0 0 (Composer.VersionFacts.zn ds 0)) = true ->
  vok v = true ->
  Composer.Version.parse_core (trim_space v) = Some vc ->
  r_contains Composer.Entry.r vok vcmp
    ("^"%char :: Composer.VersionFacts.numtext (0%N :: 0%N :: ds)) v =
  Some
    ((Composer.Version.c_major vc =? 0)%Z && (Composer.Version.c_minor vc =? 0)%Z &&
     (Composer.Version.c_patch vc =? Composer.VersionFacts.zn ds 0)%Z).
Proof. exact Composer.RangeFacts.caret_zero_zero. Qed.
Print Assumptions C05_composer_caret_zero_zero.

Theorem C05_composer_caret_0_0 :
  forall (vok : bytes -> bool) (vcmp : bytes -> bytes -> comparison)
    (v : bytes) (vc : Composer.Version.core),
  vok $"0.0" = true ->
  vok $"0.1.0" = true ->
  vok v = true ->
  Composer.Version.parse_core (trim_space v) = Some vc ->
  r_contains Composer.Entry.r vok vcmp $"^0.0" v =
  Some (Composer.RangeFacts.between vcmp v $"0.0" $"0.1.0").
Proof. exact Composer.RangeFacts.caret_0_0. Qed.
Print Assumptions C05_composer_caret_0_0.

Theorem C05_composer_caret_0 :
  forall (vok : bytes -> bool) (vcmp : bytes -> bytes -> comparison)
    (v : bytes) (vc : Composer.Version.core),
  vok $"0" = true ->
  vok $"1.0.0" = true ->
  vok v = true ->
  Composer.Version.parse_core (trim_space v) = Some vc ->
  r_contains Composer.Entry.r vok vcmp $"^0" v =
  Some (Composer.RangeFacts.between vcmp v $"0" $"1.0.0").
Proof. exact Composer.RangeFacts.caret_0. Qed.
Print Assumptions C05_composer_caret_0.

Theorem C05_composer_caret_excludes_prerelease_in_interval :
  Composer.RangeFacts.scmp $"1.5.0-beta" $"1.2.3" = Gt /\
  Composer.RangeFacts.scmp $"1.5.0-beta" $"2.0.0" = Lt /\
  Composer.RangeFacts.rc $"^1.2.3" $"1.5.0-beta" =
  Some false /\
  Composer.RangeFacts.rc $">=1.2.3 <2.0.0"
    $"1.5.0-beta" = Some true.
Proof. exact Composer.RangeFacts.caret_excludes_prerelease_in_interval. Qed.
Print Assumptions C05_composer_caret_excludes_prerelease_in_interval.

Theorem C05_composer_caret_zero_includes_below_lower_bound :
  Composer.RangeFacts.scmp $"0.2.3-alpha" $"0.2.3" = Lt /\
  Composer.RangeFacts.rc $"^0.2.3" $"0.2.3-alpha" =
  Some true /\
  Composer.RangeFacts.scmp $"0.0.3-dev" $"0.0.3" = Lt /\
  Composer.RangeFacts.rc $"^0.0.3" $"0.0.3-dev" =
  Some true.
Proof. exact Composer.RangeFacts.caret_zero_includes_below_lower_bound. Qed.
Print Assumptions C05_composer_caret_zero_includes_below_lower_bound.

Theorem C05_composer_tilde_arity_counts_suffix_dots :
  Composer.RangeFacts.rc $"~1.2" $"1.5" =
  Some true /\
  Composer.RangeFacts.rc $"~1.2-beta" $"1.5" =
  Some true /\
  Composer.RangeFacts.rc $"~1.2-beta.1" $"1.5" =
  Some false.
Proof. exact Composer.RangeFacts.tilde_arity_counts_suffix_dots. Qed.
Print Assumptions C05_composer_tilde_arity_counts_suffix_dots.

Theorem C05_composer_caret_maxint_contains_nothing :
  Composer.RangeFacts.racc $"^9223372036854775807" = true /\
  Composer.RangeFacts.rc $"^9223372036854775807"
    $"9223372036854775807.0.0" = Some false.
Proof. exact Composer.RangeFacts.caret_maxint_contains_nothing. Qed.
Print Assumptions C05_composer_caret_maxint_contains_nothing.

Theorem C05_composer_wildcard_ignores_rest :
  Composer.RangeFacts.racc $"1.*.garbage" = true /\
  Composer.RangeFacts.rc $"1.x.^" $"1.5" =
  Some true /\
  Composer.RangeFacts.rc $"+1.*" $"1.5" =
  Some true.
Proof. exact Composer.RangeFacts.wildcard_ignores_rest. Qed.
Print Assumptions C05_composer_wildcard_ignores_rest.

Theorem C05_composer_caret_written_counts_build_dots :
  Composer.RangeFacts.rc $"^0.0" $"0.0.5" =
  Some true /\
  Composer.RangeFacts.rc $"^0.0+a.b" $"0.0.5" =
  Some false /\
  Composer.RangeFacts.rc $"^0" $"0.5" = Some true /\
  Composer.RangeFacts.rc $"^0+a.b.c" $"0.5" =
  Some false.
Proof. exact Composer.RangeFacts.caret_written_counts_build_dots. Qed.
Print Assumptions C05_composer_caret_written_counts_build_dots.

(* conan *)

Theorem C05_conan_abbrev :
  Conan.RangeFacts.m_vok = self_vok Conan.Entry.entry /\
  Conan.RangeFacts.m_vcmp = self_vcmp Conan.Entry.entry.
Proof. split; reflexivity. Qed.
Print Assumptions C05_conan_abbrev.

Theorem C05_conan_tilde :
  forall tv tc : list N,
  tv <> [] ->
  tc <> [] ->
  Conan.RangeFacts.small tv ->
  Conan.RangeFacts.small tc ->
  r_contains Conan.Entry.r Conan.RangeFacts.m_vok Conan.RangeFacts.m_vcmp
    ($"~" ++ Conan.RangeFacts.numv tc) (Conan.RangeFacts.numv tv) =
  Some
    (negb (Conan.RangeFacts.is_lt (lex_pad 0%N N.compare tv tc)) &&
     Conan.RangeFacts.is_lt (lex_pad 0%N N.compare tv (Conan.RangeFacts.tilde_upper tc))).
Proof. exact Conan.RangeFacts.conan_c05_tilde. Qed.
Print Assumptions C05_conan_tilde.

Theorem C05_conan_caret :
  forall tv tc : list N,
  tv <> [] ->
  tc <> [] ->
  Conan.RangeFacts.small tv ->
  Conan.RangeFacts.small tc ->
  r_contains Conan.Entry.r Conan.RangeFacts.m_vok Conan.RangeFacts.m_vcmp
    ($"^" ++ Conan.RangeFacts.numv tc) (Conan.RangeFacts.numv tv) =
  Some
    (negb (Conan.RangeFacts.is_lt (lex_pad 0%N N.compare tv tc)) &&
     match Conan.RangeFacts.caret_upper tc with
     | Some u => Conan.RangeFacts.is_lt (lex_pad 0%N N.compare tv u)
     | None => true
     end).
Proof. exact Conan.RangeFacts.conan_c05_caret. Qed.
Print Assumptions C05_conan_caret.

Theorem C05_conan_tilde_interval :
  forall tv tc : list N,
  tc <> [] ->
  Conan.RangeFacts.small tv ->
  Conan.RangeFacts.small tc ->
  lex_pad 0%N N.compare tv tc <> Lt ->
  Conan.Range.tilde_parts (map dec tv) (map dec tc) =
  Conan.RangeFacts.is_lt (lex_pad 0%N N.compare tv (Conan.RangeFacts.tilde_upper tc)).
Proof. exact Conan.RangeFacts.tilde_interval. Qed.
Print Assumptions C05_conan_tilde_interval.

Theorem C05_conan_caret_interval :
  forall tv tc : list N,
  tc <> [] ->
  Conan.RangeFacts.small tv ->
  Conan.RangeFacts.small tc ->
  lex_pad 0%N N.compare tv tc <> Lt ->
  Conan.Range.caret_parts (map dec tv) (map dec tc) =
  match Conan.RangeFacts.caret_upper tc with
  | Some u => Conan.RangeFacts.is_lt (lex_pad 0%N N.compare tv u)
  | None => true
  end.
Proof. exact Conan.RangeFacts.caret_interval. Qed.
Print Assumptions C05_conan_caret_interval.

Theorem C05_conan_caret_zero_contains_all :
  forall tv : list N,
  tv <> [] ->
  Conan.RangeFacts.small tv ->
  r_contains Conan.Entry.r Conan.RangeFacts.m_vok Conan.RangeFacts.m_vcmp $"^0"
    (Conan.RangeFacts.numv tv) = Some true.
Proof. exact Conan.RangeFacts.caret_zero_contains_all. Qed.
Print Assumptions C05_conan_caret_zero_contains_all.

(* gem *)

Theorem C05_gem_abbrev :
  Gem.RangeFacts.self_ok = self_vok Gem.Entry.entry /\
  Gem.RangeFacts.self_cmp = self_vcmp Gem.Entry.entry /\
  (forall vok vcmp r v, r_contains Gem.Entry.r vok vcmp r v = Gem.Range.r_contains vok vcmp r v).
Proof. repeat split. Qed.
Print Assumptions C05_gem_abbrev.

Theorem C05_gem_pess_parse :
  forall (vok : bytes -> bool) (vcmp : bytes -> bytes -> comparison) (a v : bytes),
  Gem.RangeFacts.bound_scope a = true ->
  vok a = true ->
  vok v = true ->
  Gem.Range.r_contains vok vcmp (Gem.Range.pess ++ a) v = Some (Gem.Range.sat_pessimistic vcmp v a).
Proof. exact Gem.RangeFacts.gem_pess_parse. Qed.
Print Assumptions C05_gem_pess_parse.

Theorem C05_gem_pess :
  forall (t : list N) (v : bytes),
  t <> [] ->
  Gem.VersionFacts.small t ->
  Gem.RangeFacts.self_ok v = true ->
  Forall (fun x : Z => (0 <= x)%Z) (Gem.Range.numeric_of v) ->
  Gem.Range.r_contains Gem.RangeFacts.self_ok Gem.RangeFacts.self_cmp
    (Gem.Range.pess ++ Gem.VersionFacts.dots t) v =
  Some
    (negb (Gem.RangeFacts.is_lt (Gem.RangeFacts.self_cmp v (Gem.VersionFacts.dots t))) &&
     Gem.RangeFacts.is_lt (Gem.RangeFacts.zcmp (Gem.Range.numeric_of v) (Gem.RangeFacts.bump t))).
Proof. exact Gem.RangeFacts.gem_c05. Qed.
Print Assumptions C05_gem_pess.

Theorem C05_gem_tuples :
  forall t u : list N,
  t <> [] ->
  u <> [] ->
  Gem.VersionFacts.small t ->
  Gem.VersionFacts.small u ->
  Gem.VersionFacts.small (Gem.RangeFacts.bumpN t) ->
  Gem.Range.r_contains Gem.RangeFacts.self_ok Gem.RangeFacts.self_cmp
    (Gem.Range.pess ++ Gem.VersionFacts.dots t) (Gem.VersionFacts.dots u) =
  Some
    (negb
       (Gem.RangeFacts.is_lt
          (Gem.RangeFacts.self_cmp (Gem.VersionFacts.dots u) (Gem.VersionFacts.dots t))) &&
     Gem.RangeFacts.is_lt
       (Gem.RangeFacts.self_cmp (Gem.VersionFacts.dots u)
          (Gem.VersionFacts.dots (Gem.RangeFacts.bumpN t)))).
Proof. exact Gem.RangeFacts.gem_c05_tuples. Qed.
Print Assumptions C05_gem_tuples.

Theorem C05_gem_base :
  forall t : list N,
  t <> [] ->
  Gem.VersionFacts.small t ->
  Gem.VersionFacts.small (Gem.RangeFacts.bumpN t) ->
  Gem.Range.r_contains Gem.RangeFacts.self_ok Gem.RangeFacts.self_cmp
    (Gem.Range.pess ++ Gem.VersionFacts.dots t) (Gem.VersionFacts.dots t) = 
  Some true.
Proof. exact Gem.RangeFacts.gem_c05_base. Qed.
Print Assumptions C05_gem_base.

Theorem C05_gem_pess_interval :
  forall (j : nat) (nv t : list Z),
  Forall (fun x : Z => (0 <= x)%Z) nv ->
  Gem.RangeFacts.zcmp nv t <> Lt ->
  Gem.Range.prefix_eq (S j) nv t = true <-> Gem.RangeFacts.zcmp nv (Gem.RangeFacts.bump_at j t) = Lt.
Proof. exact Gem.RangeFacts.pess_interval. Qed.
Print Assumptions C05_gem_pess_interval.

Theorem C05_gem_pess_examples :
  Gem.Range.r_contains Gem.RangeFacts.self_ok Gem.RangeFacts.self_cmp
    $"~> 1.2.3" $"1.2.9" = 
  Some true /\
  Gem.Range.r_contains Gem.RangeFacts.self_ok Gem.RangeFacts.self_cmp
    $"~> 1.2.3" $"1.3.0" = 
  Some false /\
  Gem.Range.r_contains Gem.RangeFacts.self_ok Gem.RangeFacts.self_cmp
    $"~> 1.2" $"1.9" = 
  Some true /\
  Gem.Range.r_contains Gem.RangeFacts.self_ok Gem.RangeFacts.self_cmp
    $"~> 1" $"1.9" = Some true /\
  Gem.Range.r_contains Gem.RangeFacts.self_ok Gem.RangeFacts.self_cmp
    $"~> 1" $"2.0" = Some false /\
  Gem.Range.r_contains Gem.RangeFacts.self_ok Gem.RangeFacts.self_cmp
    $"~> 1.0.0-alpha" $"1.0.5" = 
  Some false /\
  Gem.Range.r_contains Gem.RangeFacts.self_ok Gem.RangeFacts.self_cmp
    $"~> 1.0.0-alpha" $"1.0.0" = 
  Some true /\
  Gem.Range.r_contains Gem.RangeFacts.self_ok Gem.RangeFacts.self_cmp
    $"~> 1.0.rc1" $"1.1" = 
  Some false.
Proof. exact Gem.RangeFacts.pess_examples. Qed.
Print Assumptions C05_gem_pess_examples.

Theorem C05_gem_pess_excludes_prerelease_of_bump :
  Gem.RangeFacts.self_cmp $"2.rc1" $"1.2" = Gt /\
  Gem.RangeFacts.self_cmp $"2.rc1" $"2" = Lt /\
  Gem.Range.r_contains Gem.RangeFacts.self_ok Gem.RangeFacts.self_cmp
    $"~> 1.2" $"2.rc1" = 
  Some false.
Proof. exact Gem.RangeFacts.pess_excludes_prerelease_of_bump. Qed.
Print Assumptions C05_gem_pess_excludes_prerelease_of_bump.

Theorem C05_gem_finding_pess_prerelease_bound :
  Gem.Range.r_contains Gem.RangeFacts.self_ok Gem.RangeFacts.self_cmp
    $"~> 1.0.0-alpha" $"1.0.5" = 
  Some false /\
  Gem.Range.r_contains Gem.RangeFacts.self_ok Gem.RangeFacts.self_cmp
    $"~> 1.0.rc1" $"1.0.5" = 
  Some false /\
  Gem.Range.r_contains Gem.RangeFacts.self_ok Gem.RangeFacts.self_cmp
    $"~> 1.0.rc1" $"1.1" = 
  Some false /\
  Gem.Range.r_contains Gem.RangeFacts.self_ok Gem.RangeFacts.self_cmp
    $"~> 1.0.rc1" $"1.0" = 
  Some true.
Proof. exact Gem.RangeFacts.finding_pess_prerelease_bound. Qed.
Print Assumptions C05_gem_finding_pess_prerelease_bound.

(* hex *)

Theorem C05_hex_pess_xyz :
  forall (vok : bytes -> bool) (vcmp : bytes -> bytes -> comparison) (x y z : N) (v : bytes),
  (x < two63)%N ->
  (y + 1 < two63)%N ->
  (z < two63)%N ->
  vok (Hex.VersionFacts.ver3 x y z) = true ->
  vok v = true ->
  r_contains Hex.Entry.r vok vcmp ($"~>" ++ Hex.VersionFacts.ver3 x y z) v =
  Some
    (sat CGe (vcmp v (Hex.VersionFacts.ver3 x y z)) &&
     sat CLt (vcmp v (Hex.VersionFacts.ver3 x (y + 1) 0))).
Proof. exact Hex.RangeFacts.hex_c05_pess_xyz. Qed.
Print Assumptions C05_hex_pess_xyz.

Theorem C05_hex_pess_xyz_pre :
  forall (vok : bytes -> bool) (vcmp : bytes -> bytes -> comparison) (x y z : N) (p v : bytes),
  (x < two63)%N ->
  (y + 1 < two63)%N ->
  (z < two63)%N ->
  Hex.VersionFacts.valid_pre p = true ->
  vok (Hex.VersionFacts.ver3 x y z ++ "-"%char :: p) = true ->
  vok v = true ->
  r_contains Hex.Entry.r vok vcmp
    ($"~>" ++ Hex.VersionFacts.ver3 x y z ++ "-"%char :: p) v =
  Some
    (sat CGe (vcmp v (Hex.VersionFacts.ver3 x y z ++ "-"%char :: p)) &&
     sat CLt (vcmp v (Hex.VersionFacts.ver3 x (y + 1) 0))).
Proof. exact Hex.RangeFacts.hex_c05_pess_xyz_pre. Qed.
Print Assumptions C05_hex_pess_xyz_pre.

Theorem C05_hex_pess_x0 :
  forall (vok : bytes -> bool) (vcmp : bytes -> bytes -> comparison) (x : N) (v : bytes),
  (x + 1 < two63)%N ->
  vok (Hex.VersionFacts.ver2 x 0) = true ->
  vok v = true ->
  r_contains Hex.Entry.r vok vcmp ($"~>" ++ Hex.VersionFacts.ver2 x 0) v =
  Some
    (sat CGe (vcmp v (Hex.VersionFacts.ver2 x 0)) &&
     sat CLt (vcmp v (Hex.VersionFacts.ver3 (x + 1) 0 0))).
Proof. exact Hex.RangeFacts.hex_c05_pess_x0. Qed.
Print Assumptions C05_hex_pess_x0.

Theorem C05_hex_pess_xy :
  forall (vok : bytes -> bool) (vcmp : bytes -> bytes -> comparison) (x y : N) (v : bytes),
  (x < two63)%N ->
  y <> 0%N ->
  (y + 1 < two63)%N ->
  vok (Hex.VersionFacts.ver2 x y) = true ->
  vok v = true ->
  r_contains Hex.Entry.r vok vcmp ($"~>" ++ Hex.VersionFacts.ver2 x y) v =
  Some
    (sat CGe (vcmp v (Hex.VersionFacts.ver2 x y)) &&
     sat CLt (vcmp v (Hex.VersionFacts.ver3 x (y + 1) 0))).
Proof. exact Hex.RangeFacts.hex_c05_pess_xy. Qed.
Print Assumptions C05_hex_pess_xy.

Theorem C05_hex_pess :
  forall (vok : bytes -> bool) (vcmp : bytes -> bytes -> comparison)
    (t : bytes) (c : Hex.Version.core) (v : bytes),
  Hex.RangeFacts.scope_b t = true ->
  vok t = true ->
  vok v = true ->
  Hex.Version.parse_core t = Some c ->
  (0 <=? fst (Hex.Range.pess_upper t c))%Z && (0 <=? snd (Hex.Range.pess_upper t c))%Z = true ->
  r_contains Hex.Entry.r vok vcmp ($"~>" ++ t) v =
  Some
    (sat CGe (vcmp v t) &&
     sat CLt
       (vcmp v (Hex.Range.synth_text (fst (Hex.Range.pess_upper t c)) (snd (Hex.Range.pess_upper t c))))).
Proof. exact Hex.RangeFacts.hex_c05_pess. Qed.
Print Assumptions C05_hex_pess.

Theorem C05_hex_pess_overflow_empty :
  forall (t : bytes) (c cv : Hex.Version.core),
  Hex.VersionFacts.wf c ->
  Hex.VersionFacts.wf cv ->
  Hex.RangeFacts.bound_ok (Hex.Range.BSynth (fst (Hex.Range.pess_upper t c)) (snd (Hex.Range.pess_upper t c))) =
  false ->
  sat CGe (Hex.Version.cmp_core cv c) &&
  sat CLt
    (Hex.Version.cmp_core cv
       (Hex.Range.synth_core (fst (Hex.Range.pess_upper t c)) (snd (Hex.Range.pess_upper t c)))) = false.
Proof. exact Hex.RangeFacts.pess_overflow_empty. Qed.
Print Assumptions C05_hex_pess_overflow_empty.

(* pypi *)

Theorem C05_pypi_bounded_unfold :
  forall (vok : bytes -> bool) (vcmp : bytes -> bytes -> comparison) (lo_op lo hi_op hi v : bytes),
  Pypi.RangeFacts.bounded vok vcmp lo_op lo hi_op hi v =
  (vok lo && sat (Pypi.Range.sem lo_op) (vcmp v lo)) && (vok hi && sat (Pypi.Range.sem hi_op) (vcmp v hi)).
Proof. reflexivity. Qed.
Print Assumptions C05_pypi_bounded_unfold.

Theorem C05_pypi_compatible_dotted :
  forall (vok : bytes -> bool) (vcmp : bytes -> bytes -> comparison)
    (e : N) (pre : list N) (a b : N) (v : bytes),
  (e < two63)%N ->
  Pypi.VersionFacts.nums_ok (pre ++ [a; b]) ->
  (a + 1 < two63)%N ->
  vok (Pypi.RangeFacts.etext e (pre ++ [a; b])) = true ->
  vok v = true ->
  r_contains Pypi.Entry.r vok vcmp
    ($"~=" ++ Pypi.RangeFacts.etext e (pre ++ [a; b])) v =
  Some
    (Pypi.RangeFacts.bounded vok vcmp $">="
       (Pypi.RangeFacts.etext e (pre ++ [a; b])) $"<"
       (Pypi.RangeFacts.etext e (pre ++ [(a + 1)%N; 0%N])) v).
Proof. exact Pypi.RangeFacts.c05_compatible_dotted. Qed.
Print Assumptions C05_pypi_compatible_dotted.

Theorem C05_pypi_compatible_single :
  forall (vok : bytes -> bool) (vcmp : bytes -> bytes -> comparison) (e a : N) (v : bytes),
  (e < two63)%N ->
  (a + 1 < two63)%N ->
  vok (Pypi.RangeFacts.etext e [a]) = true ->
  vok v = true ->
  r_contains Pypi.Entry.r vok vcmp ($"~=" ++ Pypi.RangeFacts.etext e [a]) v =
  Some
    (Pypi.RangeFacts.bounded vok vcmp $">=" (Pypi.RangeFacts.etext e [a])
       $"<" (Pypi.RangeFacts.etext e [(a + 1)%N; 0%N]) v).
Proof. exact Pypi.RangeFacts.c05_compatible_single. Qed.
Print Assumptions C05_pypi_compatible_single.

Theorem C05_pypi_compatible :
  forall (vok : bytes -> bool) (vcmp : bytes -> bytes -> comparison)
    (a : bytes) (ep : Z) (rel : list Z) (up v : bytes),
  Pypi.RangeFacts.in_scope a = true ->
  Pypi.Range.fields_of vok a = Some (ep, rel) ->
  Pypi.Range.compatible_upper ep rel = Some up ->
  vok v = true ->
  r_contains Pypi.Entry.r vok vcmp ($"~=" ++ a) v =
  Some
    (Pypi.RangeFacts.bounded vok vcmp $">=" a $"<" up v).
Proof. exact Pypi.RangeFacts.c05_compatible. Qed.
Print Assumptions C05_pypi_compatible.

Theorem C05_pypi_compatible_reject :
  forall (vok : bytes -> bool) (vcmp : bytes -> bytes -> comparison) (a v : bytes),
  Pypi.RangeFacts.in_scope a = true ->
  Pypi.Range.fields_of vok a = None ->
  r_contains Pypi.Entry.r vok vcmp ($"~=" ++ a) v = None.
Proof. exact Pypi.RangeFacts.c05_compatible_reject. Qed.
Print Assumptions C05_pypi_compatible_reject.

Theorem C05_pypi_wildcard_prefix :
  forall (vok : bytes -> bool) (vcmp : bytes -> bytes -> comparison)
    (e : N) (pre : list N) (a : N) (v : bytes),
  (e < two63)%N ->
  Pypi.VersionFacts.nums_ok (pre ++ [a]) ->
  (a + 1 < two63)%N ->
  vok (Pypi.RangeFacts.etext e (pre ++ [a])) = true ->
  vok v = true ->
  r_contains Pypi.Entry.r vok vcmp
    ($"==" ++ Pypi.RangeFacts.etext e (pre ++ [a]) ++ $".*")
    v =
  Some
    (Pypi.RangeFacts.bounded vok vcmp $">=" (Pypi.RangeFacts.etext e (pre ++ [a]))
       $"<" (Pypi.RangeFacts.etext e (pre ++ [(a + 1)%N])) v).
Proof. exact Pypi.RangeFacts.c05_wildcard_prefix. Qed.
Print Assumptions C05_pypi_wildcard_prefix.

Theorem C05_pypi_wildcard_ne_prefix :
  forall (vok : bytes -> bool) (vcmp : bytes -> bytes -> comparison)
    (e : N) (pre : list N) (a : N) (v : bytes),
  (e < two63)%N ->
  Pypi.VersionFacts.nums_ok (pre ++ [a]) ->
  (a + 1 < two63)%N ->
  vok (Pypi.RangeFacts.etext e (pre ++ [a])) = true ->
  vok (Pypi.RangeFacts.etext e (pre ++ [(a + 1)%N])) = true ->
  vok v = true ->
  r_contains Pypi.Entry.r vok vcmp
    ($"!=" ++ Pypi.RangeFacts.etext e (pre ++ [a]) ++ $".*")
    v =
  Some
    (negb
       (Pypi.RangeFacts.bounded vok vcmp $">="
          (Pypi.RangeFacts.etext e (pre ++ [a])) $"<"
          (Pypi.RangeFacts.etext e (pre ++ [(a + 1)%N])) v)).
Proof. exact Pypi.RangeFacts.c05_wildcard_ne_prefix. Qed.
Print Assumptions C05_pypi_wildcard_ne_prefix.

Theorem C05_pypi_wildcard_eq :
  forall (vok : bytes -> bool) (vcmp : bytes -> bytes -> comparison)
    (B : list ascii) (ep : Z) (rel : list Z) (v : bytes),
  Pypi.RangeFacts.in_scope (B ++ $".*") = true ->
  Pypi.Range.fields_of vok B = Some (ep, rel) ->
  vok v = true ->
  r_contains Pypi.Entry.r vok vcmp
    ($"==" ++ B ++ $".*") v =
  Some
    (Pypi.RangeFacts.bounded vok vcmp $">=" (Pypi.Range.wildcard_lower ep rel)
       $"<" (Pypi.Range.wildcard_upper ep rel) v).
Proof. exact Pypi.RangeFacts.c05_wildcard_eq. Qed.
Print Assumptions C05_pypi_wildcard_eq.

Theorem C05_pypi_wildcard_ne :
  forall (vok : bytes -> bool) (vcmp : bytes -> bytes -> comparison)
    (B : list ascii) (ep : Z) (rel : list Z) (v : bytes),
  Pypi.RangeFacts.in_scope (B ++ $".*") = true ->
  Pypi.Range.fields_of vok B = Some (ep, rel) ->
  vok v = true ->
  r_contains Pypi.Entry.r vok vcmp
    ($"!=" ++ B ++ $".*") v =
  Some
    (vok (Pypi.Range.wildcard_lower ep rel) && vok (Pypi.Range.wildcard_upper ep rel) &&
     (sat CLt (vcmp v (Pypi.Range.wildcard_lower ep rel))
      || sat CGe (vcmp v (Pypi.Range.wildcard_upper ep rel)))).
Proof. exact Pypi.RangeFacts.c05_wildcard_ne. Qed.
Print Assumptions C05_pypi_wildcard_ne.

Theorem C05_pypi_wildcard_complement :
  forall (vok : bytes -> bool) (vcmp : bytes -> bytes -> comparison)
    (B : list ascii) (ep : Z) (rel : list Z) (v : bytes),
  Pypi.RangeFacts.in_scope (B ++ $".*") = true ->
  Pypi.Range.fields_of vok B = Some (ep, rel) ->
  vok v = true ->
  vok (Pypi.Range.wildcard_lower ep rel) = true ->
  vok (Pypi.Range.wildcard_upper ep rel) = true ->
  r_contains Pypi.Entry.r vok vcmp
    ($"!=" ++ B ++ $".*") v =
  option_map negb
    (r_contains Pypi.Entry.r vok vcmp
       ($"==" ++ B ++ $".*") v).
Proof. exact Pypi.RangeFacts.c05_wildcard_complement. Qed.
Print Assumptions C05_pypi_wildcard_complement.

Theorem C05_pypi_wildcard_reject :
  forall (vok : bytes -> bool) (vcmp : bytes -> bytes -> comparison)
    (op B : list ascii) (v : bytes),
  op = $"==" \/ op = $"!=" ->
  Pypi.RangeFacts.in_scope (B ++ $".*") = true ->
  Pypi.Range.fields_of vok B = None ->
  r_contains Pypi.Entry.r vok vcmp (op ++ B ++ $".*") v = None.
Proof. exact Pypi.RangeFacts.c05_wildcard_reject. Qed.
Print Assumptions C05_pypi_wildcard_reject.

Theorem C05_pypi_arbitrary_eq :
  forall (vok : bytes -> bool) (vcmp : bytes -> bytes -> comparison) (a v : bytes),
  Pypi.RangeFacts.in_scope a = true ->
  vok v = true ->
  r_contains Pypi.Entry.r vok vcmp ($"===" ++ a) v =
  Some (beq (trim_space v) a).
Proof. exact Pypi.RangeFacts.c05_arbitrary_eq. Qed.
Print Assumptions C05_pypi_arbitrary_eq.

(* nuget *)

Theorem C05_nuget_interval :
  forall (vok : bytes -> bool) (vcmp : bytes -> bytes -> comparison)
    (li hi : bool) (a b v : bytes),
  Nuget.RangeFacts.bound_scope a = true ->
  Nuget.RangeFacts.bound_scope b = true ->
  vok a = true ->
  vok b = true ->
  vok v = true ->
  r_contains Nuget.Entry.r vok vcmp
    (Nuget.RangeFacts.brk (Nuget.RangeFacts.lo_c li) (a ++ ","%char :: b) (Nuget.RangeFacts.hi_c hi)) v =
  Some (sat (Nuget.RangeFacts.lo_cop li) (vcmp v a) && sat (Nuget.RangeFacts.hi_cop hi) (vcmp v b)).
Proof. exact Nuget.RangeFacts.nuget_c05_interval. Qed.
Print Assumptions C05_nuget_interval.

Theorem C05_nuget_exact :
  forall (vok : bytes -> bool) (vcmp : bytes -> bytes -> comparison) (a v : bytes),
  Nuget.RangeFacts.bound_scope a = true ->
  vok a = true ->
  vok v = true ->
  r_contains Nuget.Entry.r vok vcmp (Nuget.RangeFacts.brk "[" a "]") v = Some (sat CEq (vcmp v a)).
Proof. exact Nuget.RangeFacts.nuget_c05_exact. Qed.
Print Assumptions C05_nuget_exact.

Theorem C05_nuget_lower_only :
  forall (vok : bytes -> bool) (vcmp : bytes -> bytes -> comparison)
    (li hi : bool) (a v : bytes),
  li && hi = false ->
  Nuget.RangeFacts.bound_scope a = true ->
  vok a = true ->
  vok v = true ->
  r_contains Nuget.Entry.r vok vcmp
    (Nuget.RangeFacts.brk (Nuget.RangeFacts.lo_c li) (a ++ $",") (Nuget.RangeFacts.hi_c hi))
    v = Some (sat (Nuget.RangeFacts.lo_cop li) (vcmp v a)).
Proof. exact Nuget.RangeFacts.nuget_c05_lower_only. Qed.
Print Assumptions C05_nuget_lower_only.

Theorem C05_nuget_upper_only :
  forall (vok : bytes -> bool) (vcmp : bytes -> bytes -> comparison)
    (li hi : bool) (b v : bytes),
  li && hi = false ->
  Nuget.RangeFacts.bound_scope b = true ->
  vok b = true ->
  vok v = true ->
  r_contains Nuget.Entry.r vok vcmp
    (Nuget.RangeFacts.brk (Nuget.RangeFacts.lo_c li) (","%char :: b) (Nuget.RangeFacts.hi_c hi)) v =
  Some (sat (Nuget.RangeFacts.hi_cop hi) (vcmp v b)).
Proof. exact Nuget.RangeFacts.nuget_c05_upper_only. Qed.
Print Assumptions C05_nuget_upper_only.

Theorem C05_nuget_exclusive_lower :
  forall (vok : bytes -> bool) (vcmp : bytes -> bytes -> comparison) (a v : bytes),
  Nuget.RangeFacts.bound_scope a = true ->
  vok a = true ->
  vok v = true ->
  r_contains Nuget.Entry.r vok vcmp
    ("("%char :: (a ++ $",") ++ $")") v =
  Some (sat CGt (vcmp v a)).
Proof. exact Nuget.RangeFacts.nuget_c05_exclusive_lower. Qed.
Print Assumptions C05_nuget_exclusive_lower.

Theorem C05_nuget_exclusive_upper :
  forall (vok : bytes -> bool) (vcmp : bytes -> bytes -> comparison) (b v : bytes),
  Nuget.RangeFacts.bound_scope b = true ->
  vok b = true ->
  vok v = true ->
  r_contains Nuget.Entry.r vok vcmp ("("%char :: (","%char :: b) ++ $")")
    v = Some (sat CLt (vcmp v b)).
Proof. exact Nuget.RangeFacts.nuget_c05_exclusive_upper. Qed.
Print Assumptions C05_nuget_exclusive_upper.

Theorem C05_nuget_bare :
  forall (vok : bytes -> bool) (vcmp : bytes -> bytes -> comparison) (a v : bytes),
  Nuget.RangeFacts.bound_scope a = true ->
  vok a = true ->
  vok v = true -> r_contains Nuget.Entry.r vok vcmp a v = Some (sat CGe (vcmp v a)).
Proof. exact Nuget.RangeFacts.nuget_c02_bare. Qed.
Print Assumptions C05_nuget_bare.

Theorem C05_nuget_inclusive_half_open_rejected :
  forall (vok : bytes -> bool) (a : bytes),
  vok [] = false ->
  Nuget.RangeFacts.clean a = true ->
  Nuget.Range.parse_range vok (Nuget.RangeFacts.brk "[" (a ++ $",") "]") = None /\
  Nuget.Range.parse_range vok (Nuget.RangeFacts.brk "[" (","%char :: a) "]") = None.
Proof. exact Nuget.RangeFacts.inclusive_half_open_rejected. Qed.
Print Assumptions C05_nuget_inclusive_half_open_rejected.

Theorem C05_nuget_inclusive_half_open_rejected_self :
  forall a : bytes,
  Nuget.RangeFacts.clean a = true ->
  Nuget.Range.parse_range (self_vok Nuget.Entry.entry)
    ("["%char :: (a ++ $",") ++ $"]") = None /\
  Nuget.Range.parse_range (self_vok Nuget.Entry.entry)
    ("["%char :: (","%char :: a) ++ $"]") = None.
Proof. exact Nuget.RangeFacts.inclusive_half_open_rejected_self. Qed.
Print Assumptions C05_nuget_inclusive_half_open_rejected_self.

Theorem C05_nuget_empty_interval_rejected :
  forall (vok : bytes -> bool) (li hi : bool),
  vok [] = false ->
  Nuget.Range.parse_range vok
    (Nuget.RangeFacts.brk (Nuget.RangeFacts.lo_c li) $"," (Nuget.RangeFacts.hi_c hi)) =
  None.
Proof. exact Nuget.RangeFacts.empty_interval_rejected. Qed.
Print Assumptions C05_nuget_empty_interval_rejected.

(* maven *)

Theorem C05_maven_interval :
  forall (vok : bytes -> bool) (vcmp : bytes -> bytes -> comparison)
    (o c : ascii) (p1 a q1 p2 b q2 v : bytes),
  Maven.Range.is_open o = true ->
  Maven.Range.is_close c = true ->
  Maven.RangeFacts.blank p1 ->
  Maven.RangeFacts.blank q1 ->
  Maven.RangeFacts.blank p2 ->
  Maven.RangeFacts.blank q2 ->
  Maven.RangeFacts.bound_scope a = true ->
  Maven.RangeFacts.bound_scope b = true ->
  vok a = true ->
  vok b = true ->
  vok v = true ->
  r_contains Maven.Entry.r vok vcmp
    (o :: (p1 ++ a ++ q1) ++ ","%char :: (p2 ++ b ++ q2) ++ [c]) v =
  Some (sat (Maven.RangeFacts.lower_op o) (vcmp v a) && sat (Maven.RangeFacts.upper_op c) (vcmp v b)).
Proof. exact Maven.RangeFacts.c05_interval. Qed.
Print Assumptions C05_maven_interval.

Theorem C05_maven_exact :
  forall (vok : bytes -> bool) (vcmp : bytes -> bytes -> comparison)
    (o c : ascii) (p a q v : bytes),
  Maven.Range.is_open o = true ->
  Maven.Range.is_close c = true ->
  Maven.RangeFacts.blank p ->
  Maven.RangeFacts.blank q ->
  Maven.RangeFacts.bound_scope a = true ->
  vok a = true ->
  vok v = true ->
  r_contains Maven.Entry.r vok vcmp (o :: (p ++ a ++ q) ++ [c]) v = Some (sat CEq (vcmp v a)).
Proof. exact Maven.RangeFacts.c05_exact. Qed.
Print Assumptions C05_maven_exact.

Theorem C05_maven_lower_only :
  forall (vok : bytes -> bool) (vcmp : bytes -> bytes -> comparison)
    (o c : ascii) (p1 a q1 p2 v : bytes),
  Maven.Range.is_open o = true ->
  Maven.Range.is_close c = true ->
  Maven.RangeFacts.blank p1 ->
  Maven.RangeFacts.blank q1 ->
  Maven.RangeFacts.blank p2 ->
  Maven.RangeFacts.bound_scope a = true ->
  vok a = true ->
  vok v = true ->
  r_contains Maven.Entry.r vok vcmp (o :: (p1 ++ a ++ q1) ++ ","%char :: p2 ++ [c]) v =
  Some (sat (Maven.RangeFacts.lower_op o) (vcmp v a)).
Proof. exact Maven.RangeFacts.c05_lower_only. Qed.
Print Assumptions C05_maven_lower_only.

Theorem C05_maven_upper_only :
  forall (vok : bytes -> bool) (vcmp : bytes -> bytes -> comparison)
    (o c : ascii) (p1 p2 b q2 v : bytes),
  Maven.Range.is_open o = true ->
  Maven.Range.is_close c = true ->
  Maven.RangeFacts.blank p1 ->
  Maven.RangeFacts.blank p2 ->
  Maven.RangeFacts.blank q2 ->
  Maven.RangeFacts.bound_scope b = true ->
  vok b = true ->
  vok v = true ->
  r_contains Maven.Entry.r vok vcmp (o :: p1 ++ ","%char :: (p2 ++ b ++ q2) ++ [c]) v =
  Some (sat (Maven.RangeFacts.upper_op c) (vcmp v b)).
Proof. exact Maven.RangeFacts.c05_upper_only. Qed.
Print Assumptions C05_maven_upper_only.

Theorem C05_maven_closed :
  forall (vok : bytes -> bool) (vcmp : bytes -> bytes -> comparison) (a b v : bytes),
  Maven.RangeFacts.bound_scope a = true ->
  Maven.RangeFacts.bound_scope b = true ->
  vok a = true ->
  vok b = true ->
  vok v = true ->
  r_contains Maven.Entry.r vok vcmp
    ($"[" ++
     a ++ $"," ++ b ++ $"]") v =
  Some (sat CGe (vcmp v a) && sat CLe (vcmp v b)).
Proof. exact Maven.RangeFacts.c05_closed. Qed.
Print Assumptions C05_maven_closed.

Theorem C05_maven_open :
  forall (vok : bytes -> bool) (vcmp : bytes -> bytes -> comparison) (a b v : bytes),
  Maven.RangeFacts.bound_scope a = true ->
  Maven.RangeFacts.bound_scope b = true ->
  vok a = true ->
  vok b = true ->
  vok v = true ->
  r_contains Maven.Entry.r vok vcmp
    ($"(" ++
     a ++ $"," ++ b ++ $")") v =
  Some (sat CGt (vcmp v a) && sat CLt (vcmp v b)).
Proof. exact Maven.RangeFacts.c05_open. Qed.
Print Assumptions C05_maven_open.

Theorem C05_maven_closed_open :
  forall (vok : bytes -> bool) (vcmp : bytes -> bytes -> comparison) (a b v : bytes),
  Maven.RangeFacts.bound_scope a = true ->
  Maven.RangeFacts.bound_scope b = true ->
  vok a = true ->
  vok b = true ->
  vok v = true ->
  r_contains Maven.Entry.r vok vcmp
    ($"[" ++
     a ++ $"," ++ b ++ $")") v =
  Some (sat CGe (vcmp v a) && sat CLt (vcmp v b)).
Proof. exact Maven.RangeFacts.c05_closed_open. Qed.
Print Assumptions C05_maven_closed_open.

Theorem C05_maven_open_closed :
  forall (vok : bytes -> bool) (vcmp : bytes -> bytes -> comparison) (a b v : bytes),
  Maven.RangeFacts.bound_scope a = true ->
  Maven.RangeFacts.bound_scope b = true ->
  vok a = true ->
  vok b = true ->
  vok v = true ->
  r_contains Maven.Entry.r vok vcmp
    ($"(" ++
     a ++ $"," ++ b ++ $"]") v =
  Some (sat CGt (vcmp v a) && sat CLe (vcmp v b)).
Proof. exact Maven.RangeFacts.c05_open_closed. Qed.
Print Assumptions C05_maven_open_closed.

Theorem C05_maven_at_least :
  forall (vok : bytes -> bool) (vcmp : bytes -> bytes -> comparison) (a v : bytes),
  Maven.RangeFacts.bound_scope a = true ->
  vok a = true ->
  vok v = true ->
  r_contains Maven.Entry.r vok vcmp
    ($"[" ++ a ++ $",)") v = 
  Some (sat CGe (vcmp v a)).
Proof. exact Maven.RangeFacts.c05_at_least. Qed.
Print Assumptions C05_maven_at_least.

Theorem C05_maven_at_most :
  forall (vok : bytes -> bool) (vcmp : bytes -> bytes -> comparison) (b v : bytes),
  Maven.RangeFacts.bound_scope b = true ->
  vok b = true ->
  vok v = true ->
  r_contains Maven.Entry.r vok vcmp
    ($"(," ++ b ++ $"]") v = 
  Some (sat CLe (vcmp v b)).
Proof. exact Maven.RangeFacts.c05_at_most. Qed.
Print Assumptions C05_maven_at_most.

Theorem C05_maven_pinned :
  forall (vok : bytes -> bool) (vcmp : bytes -> bytes -> comparison) (a v : bytes),
  Maven.RangeFacts.bound_scope a = true ->
  vok a = true ->
  vok v = true ->
  r_contains Maven.Entry.r vok vcmp
    ($"[" ++ a ++ $"]") v = 
  Some (sat CEq (vcmp v a)).
Proof. exact Maven.RangeFacts.c05_pinned. Qed.
Print Assumptions C05_maven_pinned.

Theorem C05_maven_bare :
  forall (vok : bytes -> bool) (vcmp : bytes -> bytes -> comparison) (a v : bytes),
  Maven.RangeFacts.bare_scope a = true ->
  vok a = true ->
  vok v = true -> r_contains Maven.Entry.r vok vcmp a v = Some (sat CEq (vcmp v a)).
Proof. exact Maven.RangeFacts.c02_bare. Qed.
Print Assumptions C05_maven_bare.

(* TODO, not proved (parts of a pair; every listed ecosystem has theorems above):
   - npm: hyphen ranges with partial bounds ("1 - 2.3"), x-ranges written X.x.x or as a bare X;
   - composer: ~ and ^ with a pre-release suffix in the base; ranges with stability flags;
   - conan: ~ and ^ with non-numeric parts or pre-releases in base or probe. *)

(* ====== ties to the source: BEGIN (written by bin/mkties) ====== *)
(* The Go functions named here are translated into Gallina from /repo's source on every run
   (tools/gen -> Gen/Code/<Eco>.v for loop-free functions, Gen/Loops/<Eco>.v for functions with
   loops and index expressions, where a panic is Panic and a loop takes fuel); Tie/<Eco>.v,
   Tie/<Eco>Range.v and Tie/Loops/<Eco>.v prove each translation equal to the model the theorems
   above speak about (and, for the loop functions: no panic, termination within a linear bound).
   If the code changes so that a tie no longer holds, this file no longer checks. *)
Require Verif.Tie.CargoRange.
Require Verif.Tie.ConanRange.
Require Verif.Tie.GemRange.
Require Verif.Tie.HexRange.
Require Verif.Tie.MavenRange.
Require Verif.Tie.NugetRange.
Require Verif.Tie.PypiRange.
Definition C05_tie_cargo_caret := @Verif.Tie.CargoRange.tie_cargo_caret.
Definition C05_tie_cargo_tilde := @Verif.Tie.CargoRange.tie_cargo_tilde.
Definition C05_tie_cargo_satisfiesConstraint := @Verif.Tie.CargoRange.tie_cargo_satisfiesConstraint.
Definition C05_tie_conan_isOperator := @Verif.Tie.ConanRange.tie_conan_isOperator.
Definition C05_tie_conan_VersionRange_constraintSatisfied := @Verif.Tie.ConanRange.tie_conan_VersionRange_constraintSatisfied.
Definition C05_tie_conan_VersionRange_constraintSatisfied_model := @Verif.Tie.ConanRange.tie_conan_VersionRange_constraintSatisfied_model.
Definition C05_tie_conan_VersionRange_groupSatisfied := @Verif.Tie.ConanRange.tie_conan_VersionRange_groupSatisfied.
Definition C05_tie_conan_VersionRange_Contains := @Verif.Tie.ConanRange.tie_conan_VersionRange_Contains.
Definition C05_tie_conan_VersionRange_String := @Verif.Tie.ConanRange.tie_conan_VersionRange_String.
Definition C05_tie_gem_VersionRange_String := @Verif.Tie.GemRange.tie_gem_VersionRange_String.
Definition C05_tie_gem_VersionRange_Contains := @Verif.Tie.GemRange.tie_gem_VersionRange_Contains.
Definition C05_tie_hex_matches := @Verif.Tie.HexRange.tie_hex_matches.
Definition C05_tie_hex_matches_model := @Verif.Tie.HexRange.tie_hex_matches_model.
Definition C05_tie_hex_contains := @Verif.Tie.HexRange.tie_hex_contains.
Definition C05_tie_maven_satisfiesConstraint := @Verif.Tie.MavenRange.tie_maven_satisfiesConstraint.
Definition C05_tie_maven_contains := @Verif.Tie.MavenRange.tie_maven_contains.
Definition C05_tie_nuget_matches := @Verif.Tie.NugetRange.tie_nuget_matches.
Definition C05_tie_nuget_matches_model := @Verif.Tie.NugetRange.tie_nuget_matches_model.
Definition C05_tie_nuget_contains := @Verif.Tie.NugetRange.tie_nuget_contains.
Definition C05_tie_pypi_VersionRange_String := @Verif.Tie.PypiRange.tie_pypi_VersionRange_String.
Definition C05_tie_pypi_VersionRange_Contains := @Verif.Tie.PypiRange.tie_pypi_VersionRange_Contains.
Definition C05_ties_all := (C05_tie_cargo_caret, (C05_tie_cargo_satisfiesConstraint, (C05_tie_cargo_tilde, (C05_tie_conan_VersionRange_Contains, (C05_tie_conan_VersionRange_String, (C05_tie_conan_VersionRange_constraintSatisfied, (C05_tie_conan_VersionRange_constraintSatisfied_model, (C05_tie_conan_VersionRange_groupSatisfied, (C05_tie_conan_isOperator, (C05_tie_gem_VersionRange_Contains, (C05_tie_gem_VersionRange_String, (C05_tie_hex_contains, (C05_tie_hex_matches, (C05_tie_hex_matches_model, (C05_tie_maven_contains, (C05_tie_maven_satisfiesConstraint, (C05_tie_nuget_contains, (C05_tie_nuget_matches, (C05_tie_nuget_matches_model, (C05_tie_pypi_VersionRange_Contains, C05_tie_pypi_VersionRange_String)))))))))))))))))))).
Print Assumptions C05_ties_all.
(* ====== ties to the source: END ====== *)
