(* C06 — Every entry point is total: no panic, no hang, value xor error.          PARTIAL.

   What the property asks and what a theorem about the MODEL can say.
   The model's entry points are Gallina functions; Gallina functions are total and terminate by
   construction, so "never panics, always terminates" is true of the model for free and says
   nothing about the Go code.  Absence of panics (index out of range, nil dereference),
   termination and the quadratic time bound of the Go RUNTIME are NOT theorems here: they are
   covered by the exhaustive short-string runs, the long-input runs and the fuzzing of the
   check (harness check C06), which also compare every result with the model — so an input on
   which Go panics or hangs is an input on which it visibly disagrees with a total model.

   What IS stated here, because it is informative:
   (a) Fuel.  Where a model function (or a reference order in Spec/) loops over its input it is
       written with a fuel argument, and the caller passes a bound computed from the input
       length.  For each of them: the bound suffices — the result is the same for every larger
       fuel, i.e. the out-of-fuel branch (which would be the model's analogue of "gave up") is
       never taken.  All fuel bounds are linear in the input length.
   (b) Value xor error.  In the model "value xor error" is the type [option]: [v_show V s] is
       either [None] (error) or [Some text]; that disjunction is trivial and not stated.  What
       is not trivial is that the operations agree on WHERE they are defined: Compare is defined
       exactly on pairs of accepted texts, String() exactly on accepted texts, and Contains
       exactly on (accepted range, accepted version) — for all twenty ecosystems.
   (c) VERS.  The result type [vres] has three values; [VErr] is not [VTrue], so an error is
       never "true".  This is trivial in the model (said so below); its content is in the
       correspondence between [vres] and Go's (bool, error) pair, which the check compares.
   (d) CLI.  Every outcome is a result line with exit status 0 or a diagnostic with exit
       status 1; a VERS error becomes a diagnostic. *)
From Coq Require Import List NArith ZArith Bool.
From Verif.Base Require Import Bytes GoNum.
From Verif.Vers Require Import Model.
From Verif.Eco Require Import VLayer Iface RangeCore All.
From Verif.Cli Require Import Model Facts.
From Verif.Gen Require Import Registry.
From Verif Require Import Top.
From Verif.Properties.Support Require Import C06Support.
From Verif.Eco.Rpm Require VersionFacts DecFacts.
From Verif.Eco.Debian Require VersionFacts.
From Verif.Spec Require Dpkg DpkgFacts GemVersion GemVersionFacts Rpm RpmFacts Pep440.
From Verif.Eco.Alpine Require Version Range Entry.
From Verif.Eco.Alpm Require Version Range Entry.
From Verif.Eco.Apache Require Version Range Entry.
From Verif.Eco.Cargo Require Version Range Entry.
From Verif.Eco.Composer Require Version Range Entry.
From Verif.Eco.Conan Require Version Range Entry.
From Verif.Eco.Cran Require Version Range Entry.
From Verif.Eco.Debian Require Version Range Entry.
From Verif.Eco.Gem Require Version Range Entry.
From Verif.Eco.Gentoo Require Version Range Entry.
From Verif.Eco.Github Require Version Range Entry.
From Verif.Eco.Golang Require Version Range Entry.
From Verif.Eco.Hex Require Version Range Entry.
From Verif.Eco.Mattermost Require Version Range Entry.
From Verif.Eco.Maven Require Version Range Entry.
From Verif.Eco.Npm Require Version Range Entry.
From Verif.Eco.Nuget Require Version Range Entry.
From Verif.Eco.Pypi Require Version Range Entry.
From Verif.Eco.Rpm Require Version Range Entry.
From Verif.Eco.Semver Require Version Range Entry.
Import ListNotations.

(* ====================================================================== *)
(* (a) the fuel of every fuelled scanner suffices                          *)
(* ====================================================================== *)

(* --- the library model --- *)

(* rpm: [segments s := segments_fuel (length s) s] *)
Theorem C06_fuel_rpm_segments : forall (f1 f2 : nat) (s : bytes),
  (length s <= f1)%nat -> (length s <= f2)%nat ->
  Rpm.Version.segments_fuel f1 s = Rpm.Version.segments_fuel f2 s.
Proof. exact Rpm.VersionFacts.segments_fuel_indep. Qed.
Print Assumptions C06_fuel_rpm_segments.

(* debian: [tokens s := tokens_fuel (S (length s)) s] *)
Theorem C06_fuel_debian_tokens : forall (k k' : nat) (s : bytes),
  (length s < k)%nat -> (length s < k')%nat ->
  Debian.Version.tokens_fuel k s = Debian.Version.tokens_fuel k' s.
Proof. exact Debian.VersionFacts.tokens_fuel_enough. Qed.
Print Assumptions C06_fuel_debian_tokens.

(* strings.Split with a non-empty separator: [split_sub sep s := split_sub_fuel (S (length s)) sep s] *)
Theorem C06_fuel_split_sub : forall sep : bytes, sep <> [] ->
  forall (f1 f2 : nat) (s : bytes),
    (length s < f1)%nat -> (length s < f2)%nat ->
    split_sub_fuel f1 sep s = split_sub_fuel f2 sep s.
Proof. exact split_sub_fuel_indep. Qed.
Print Assumptions C06_fuel_split_sub.

(* decimal printing: [dec n := dec_fuel (S (N.size_nat n)) n []] prints n exactly — had the fuel
   run out, the digits would denote a proper suffix of n *)
Theorem C06_fuel_dec : forall n : N,
  dec n <> [] /\ all_digits (dec n) = true /\ digits_val (dec n) = n.
Proof. exact Rpm.DecFacts.dec_spec. Qed.
Print Assumptions C06_fuel_dec.

(* --- the reference orders of Spec/ --- *)

Theorem C06_fuel_dpkg_tokens : forall (k k' : nat) (s : bytes),
  (length s < k)%nat -> (length s < k')%nat ->
  Dpkg.tokens_fuel k s = Dpkg.tokens_fuel k' s.
Proof. exact DpkgFacts.tokens_fuel_enough. Qed.
Print Assumptions C06_fuel_dpkg_tokens.

(* dpkg's character-stepping loop, with any sufficient fuel, is the token formulation *)
Theorem C06_fuel_dpkg_verrevcmp_loop : forall (fuel : nat) (a b : bytes),
  (length a + length b < fuel)%nat -> Dpkg.verrevcmp_loop_fuel fuel a b = Dpkg.verrevcmp a b.
Proof. exact DpkgFacts.verrevcmp_loop_fuel_spec. Qed.
Print Assumptions C06_fuel_dpkg_verrevcmp_loop.

Theorem C06_fuel_gem_scan : forall (f1 f2 : nat) (s : bytes),
  (length s < f1)%nat -> (length s < f2)%nat ->
  GemVersion.gem_scan_fuel f1 s = GemVersion.gem_scan_fuel f2 s.
Proof. exact GemVersionFacts.gem_scan_fuel_enough. Qed.
Print Assumptions C06_fuel_gem_scan.

(* rpmvercmp: the out-of-fuel branch is unreachable *)
Theorem C06_fuel_rpmvercmp : forall (k : nat) (a b : bytes),
  (length a + length b < k)%nat -> Spec.Rpm.vercmp_fuel k a b = Spec.Rpm.rpmvercmp a b.
Proof. exact RpmFacts.vercmp_fuel_enough. Qed.
Print Assumptions C06_fuel_rpmvercmp.

Theorem C06_fuel_pep440_scan_release : forall (f1 f2 : nat) (s : bytes),
  (length s < f1)%nat -> (length s < f2)%nat ->
  Pep440.scan_release f1 s = Pep440.scan_release f2 s.
Proof. exact scan_release_fuel_indep. Qed.
Print Assumptions C06_fuel_pep440_scan_release.

(* ====================================================================== *)
(* (b) parse, compare, String and Contains are defined on the same domain   *)
(* ====================================================================== *)

(* all twenty at once: every member of the list of ecosystem models *)
Theorem C06_compare_domain_all : forall e : eco, In e ecosystems ->
  forall a b : bytes,
    v_cmp (e_v e) a b <> None <-> (v_show (e_v e) a <> None /\ v_show (e_v e) b <> None).
Proof.
  intros e H. cbn [ecosystems In] in H.
  repeat (destruct H as [<-|H]; [intros a b; apply mk_vops_domain|]). contradiction.
Qed.
Print Assumptions C06_compare_domain_all.

(* acceptance looks at the text only up to surrounding white space *)
Theorem C06_accept_domain : forall (C : Type) (parse_core : bytes -> option C)
    (cmp_core : C -> C -> comparison) (raw_orig : bool) (s : bytes),
  v_show (mk_vops parse_core cmp_core raw_orig) s <> None <-> parse_core (trim_space s) <> None.
Proof. exact mk_vops_show_iff. Qed.
Print Assumptions C06_accept_domain.

(* the generic fact behind the instances *)
Theorem C06_compare_domain_mk_vops : forall (C : Type) (parse_core : bytes -> option C)
    (cmp_core : C -> C -> comparison) (raw_orig : bool) (a b : bytes),
  v_cmp (mk_vops parse_core cmp_core raw_orig) a b <> None <->
  (v_show (mk_vops parse_core cmp_core raw_orig) a <> None /\
   v_show (mk_vops parse_core cmp_core raw_orig) b <> None).
Proof. exact mk_vops_domain. Qed.
Print Assumptions C06_compare_domain_mk_vops.

(* per ecosystem, on the value level: Compare of two parsed versions is a [comparison]
   (-1, 0 or 1), defined as soon as both NewVersion calls succeed *)

Theorem C06_alpine : forall a b : bytes,
  v_cmp Alpine.Entry.v a b <> None <-> (v_show Alpine.Entry.v a <> None /\ v_show Alpine.Entry.v b <> None).
Proof. exact (mk_vops_domain _ Alpine.Version.parse_core Alpine.Version.cmp_core Alpine.Version.raw_orig). Qed.
Print Assumptions C06_alpine.

Theorem C06_alpm : forall a b : bytes,
  v_cmp Alpm.Entry.v a b <> None <-> (v_show Alpm.Entry.v a <> None /\ v_show Alpm.Entry.v b <> None).
Proof. exact (mk_vops_domain _ Alpm.Version.parse_core Alpm.Version.cmp_core Alpm.Version.raw_orig). Qed.
Print Assumptions C06_alpm.

Theorem C06_apache : forall a b : bytes,
  v_cmp Apache.Entry.v a b <> None <-> (v_show Apache.Entry.v a <> None /\ v_show Apache.Entry.v b <> None).
Proof. exact (mk_vops_domain _ Apache.Version.parse_core Apache.Version.cmp_core Apache.Version.raw_orig). Qed.
Print Assumptions C06_apache.

Theorem C06_cargo : forall a b : bytes,
  v_cmp Cargo.Entry.v a b <> None <-> (v_show Cargo.Entry.v a <> None /\ v_show Cargo.Entry.v b <> None).
Proof. exact (mk_vops_domain _ Cargo.Version.parse_core Cargo.Version.cmp_core Cargo.Version.raw_orig). Qed.
Print Assumptions C06_cargo.

Theorem C06_composer : forall a b : bytes,
  v_cmp Composer.Entry.v a b <> None <-> (v_show Composer.Entry.v a <> None /\ v_show Composer.Entry.v b <> None).
Proof. exact (mk_vops_domain _ Composer.Version.parse_core Composer.Version.cmp_core Composer.Version.raw_orig). Qed.
Print Assumptions C06_composer.

Theorem C06_conan : forall a b : bytes,
  v_cmp Conan.Entry.v a b <> None <-> (v_show Conan.Entry.v a <> None /\ v_show Conan.Entry.v b <> None).
Proof. exact (mk_vops_domain _ Conan.Version.parse_core Conan.Version.cmp_core Conan.Version.raw_orig). Qed.
Print Assumptions C06_conan.

Theorem C06_cran : forall a b : bytes,
  v_cmp Cran.Entry.v a b <> None <-> (v_show Cran.Entry.v a <> None /\ v_show Cran.Entry.v b <> None).
Proof. exact (mk_vops_domain _ Cran.Version.parse_core Cran.Version.cmp_core Cran.Version.raw_orig). Qed.
Print Assumptions C06_cran.

Theorem C06_debian : forall a b : bytes,
  v_cmp Debian.Entry.v a b <> None <-> (v_show Debian.Entry.v a <> None /\ v_show Debian.Entry.v b <> None).
Proof. exact (mk_vops_domain _ Debian.Version.parse_core Debian.Version.cmp_core Debian.Version.raw_orig). Qed.
Print Assumptions C06_debian.

Theorem C06_gem : forall a b : bytes,
  v_cmp Gem.Entry.v a b <> None <-> (v_show Gem.Entry.v a <> None /\ v_show Gem.Entry.v b <> None).
Proof. exact (mk_vops_domain _ Gem.Version.parse_core Gem.Version.cmp_core Gem.Version.raw_orig). Qed.
Print Assumptions C06_gem.

Theorem C06_gentoo : forall a b : bytes,
  v_cmp Gentoo.Entry.v a b <> None <-> (v_show Gentoo.Entry.v a <> None /\ v_show Gentoo.Entry.v b <> None).
Proof. exact (mk_vops_domain _ Gentoo.Version.parse_core Gentoo.Version.cmp_core Gentoo.Version.raw_orig). Qed.
Print Assumptions C06_gentoo.

Theorem C06_github : forall a b : bytes,
  v_cmp Github.Entry.v a b <> None <-> (v_show Github.Entry.v a <> None /\ v_show Github.Entry.v b <> None).
Proof. exact (mk_vops_domain _ Github.Version.parse_core Github.Version.cmp_core Github.Version.raw_orig). Qed.
Print Assumptions C06_github.

Theorem C06_golang : forall a b : bytes,
  v_cmp Golang.Entry.v a b <> None <-> (v_show Golang.Entry.v a <> None /\ v_show Golang.Entry.v b <> None).
Proof. exact (mk_vops_domain _ Golang.Version.parse_core Golang.Version.cmp_core Golang.Version.raw_orig). Qed.
Print Assumptions C06_golang.

Theorem C06_hex : forall a b : bytes,
  v_cmp Hex.Entry.v a b <> None <-> (v_show Hex.Entry.v a <> None /\ v_show Hex.Entry.v b <> None).
Proof. exact (mk_vops_domain _ Hex.Version.parse_core Hex.Version.cmp_core Hex.Version.raw_orig). Qed.
Print Assumptions C06_hex.

Theorem C06_mattermost : forall a b : bytes,
  v_cmp Mattermost.Entry.v a b <> None <-> (v_show Mattermost.Entry.v a <> None /\ v_show Mattermost.Entry.v b <> None).
Proof. exact (mk_vops_domain _ Mattermost.Version.parse_core Mattermost.Version.cmp_core Mattermost.Version.raw_orig). Qed.
Print Assumptions C06_mattermost.

Theorem C06_maven : forall a b : bytes,
  v_cmp Maven.Entry.v a b <> None <-> (v_show Maven.Entry.v a <> None /\ v_show Maven.Entry.v b <> None).
Proof. exact (mk_vops_domain _ Maven.Version.parse_core Maven.Version.cmp_core Maven.Version.raw_orig). Qed.
Print Assumptions C06_maven.

Theorem C06_npm : forall a b : bytes,
  v_cmp Npm.Entry.v a b <> None <-> (v_show Npm.Entry.v a <> None /\ v_show Npm.Entry.v b <> None).
Proof. exact (mk_vops_domain _ Npm.Version.parse_core Npm.Version.cmp_core Npm.Version.raw_orig). Qed.
Print Assumptions C06_npm.

Theorem C06_nuget : forall a b : bytes,
  v_cmp Nuget.Entry.v a b <> None <-> (v_show Nuget.Entry.v a <> None /\ v_show Nuget.Entry.v b <> None).
Proof. exact (mk_vops_domain _ Nuget.Version.parse_core Nuget.Version.cmp_core Nuget.Version.raw_orig). Qed.
Print Assumptions C06_nuget.

Theorem C06_pypi : forall a b : bytes,
  v_cmp Pypi.Entry.v a b <> None <-> (v_show Pypi.Entry.v a <> None /\ v_show Pypi.Entry.v b <> None).
Proof. exact (mk_vops_domain _ Pypi.Version.parse_core Pypi.Version.cmp_core Pypi.Version.raw_orig). Qed.
Print Assumptions C06_pypi.

Theorem C06_rpm : forall a b : bytes,
  v_cmp Rpm.Entry.v a b <> None <-> (v_show Rpm.Entry.v a <> None /\ v_show Rpm.Entry.v b <> None).
Proof. exact (mk_vops_domain _ Rpm.Version.parse_core Rpm.Version.cmp_core Rpm.Version.raw_orig). Qed.
Print Assumptions C06_rpm.

Theorem C06_semver : forall a b : bytes,
  v_cmp Semver.Entry.v a b <> None <-> (v_show Semver.Entry.v a <> None /\ v_show Semver.Entry.v b <> None).
Proof. exact (mk_vops_domain _ Semver.Version.parse_core Semver.Version.cmp_core Semver.Version.raw_orig). Qed.
Print Assumptions C06_semver.

(* range layer: Contains is defined exactly on an accepted range and an accepted version.
   [vok], [vcmp] are the version-layer oracles (see Eco/Iface.v); any oracles. *)
Ltac range_domain :=
  intros vok vcmp r v;
  cbv beta delta [e_r r_show r_contains mk_simple_rops option_map
                  Alpine.Entry.entry Alpine.Entry.r Alpm.Entry.entry Alpm.Entry.r
                  Apache.Entry.entry Apache.Entry.r Cargo.Entry.entry Cargo.Entry.r
                  Cargo.Range.r_show Cargo.Range.r_contains
                  Conan.Entry.entry Conan.Entry.r Cran.Entry.entry Cran.Entry.r
                  Debian.Entry.entry Debian.Entry.r Gem.Entry.entry Gem.Entry.r
                  Gem.Range.r_show Gem.Range.r_contains
                  Gentoo.Entry.entry Gentoo.Entry.r Github.Entry.entry Github.Entry.r
                  Golang.Entry.entry Golang.Entry.r Hex.Entry.entry Hex.Entry.r
                  Mattermost.Entry.entry Mattermost.Entry.r Maven.Entry.entry Maven.Entry.r
                  Npm.Entry.entry Npm.Entry.r Nuget.Entry.entry Nuget.Entry.r
                  Pypi.Entry.entry Pypi.Entry.r Rpm.Entry.entry Rpm.Entry.r
                  Semver.Entry.entry Semver.Entry.r] iota;
  match goal with
  | |- context [match ?p with Some _ => _ | None => _ end] => destruct p
  end;
  destruct (vok v); split; intros H; try (destruct H as [H1 H2]); try split; congruence.

Theorem C06_range_alpine :
  forall (vok : bytes -> bool) (vcmp : bytes -> bytes -> comparison) (r v : bytes),
    r_contains (e_r Alpine.Entry.entry) vok vcmp r v <> None <->
    (r_show (e_r Alpine.Entry.entry) vok r <> None /\ vok v = true).
Proof. range_domain. Qed.
Print Assumptions C06_range_alpine.

Theorem C06_range_alpm :
  forall (vok : bytes -> bool) (vcmp : bytes -> bytes -> comparison) (r v : bytes),
    r_contains (e_r Alpm.Entry.entry) vok vcmp r v <> None <->
    (r_show (e_r Alpm.Entry.entry) vok r <> None /\ vok v = true).
Proof. range_domain. Qed.
Print Assumptions C06_range_alpm.

Theorem C06_range_apache :
  forall (vok : bytes -> bool) (vcmp : bytes -> bytes -> comparison) (r v : bytes),
    r_contains (e_r Apache.Entry.entry) vok vcmp r v <> None <->
    (r_show (e_r Apache.Entry.entry) vok r <> None /\ vok v = true).
Proof. range_domain. Qed.
Print Assumptions C06_range_apache.

Theorem C06_range_cargo :
  forall (vok : bytes -> bool) (vcmp : bytes -> bytes -> comparison) (r v : bytes),
    r_contains (e_r Cargo.Entry.entry) vok vcmp r v <> None <->
    (r_show (e_r Cargo.Entry.entry) vok r <> None /\ vok v = true).
Proof. range_domain. Qed.
Print Assumptions C06_range_cargo.

Theorem C06_range_conan :
  forall (vok : bytes -> bool) (vcmp : bytes -> bytes -> comparison) (r v : bytes),
    r_contains (e_r Conan.Entry.entry) vok vcmp r v <> None <->
    (r_show (e_r Conan.Entry.entry) vok r <> None /\ vok v = true).
Proof. range_domain. Qed.
Print Assumptions C06_range_conan.

Theorem C06_range_cran :
  forall (vok : bytes -> bool) (vcmp : bytes -> bytes -> comparison) (r v : bytes),
    r_contains (e_r Cran.Entry.entry) vok vcmp r v <> None <->
    (r_show (e_r Cran.Entry.entry) vok r <> None /\ vok v = true).
Proof. range_domain. Qed.
Print Assumptions C06_range_cran.

Theorem C06_range_debian :
  forall (vok : bytes -> bool) (vcmp : bytes -> bytes -> comparison) (r v : bytes),
    r_contains (e_r Debian.Entry.entry) vok vcmp r v <> None <->
    (r_show (e_r Debian.Entry.entry) vok r <> None /\ vok v = true).
Proof. range_domain. Qed.
Print Assumptions C06_range_debian.

Theorem C06_range_gem :
  forall (vok : bytes -> bool) (vcmp : bytes -> bytes -> comparison) (r v : bytes),
    r_contains (e_r Gem.Entry.entry) vok vcmp r v <> None <->
    (r_show (e_r Gem.Entry.entry) vok r <> None /\ vok v = true).
Proof. range_domain. Qed.
Print Assumptions C06_range_gem.

Theorem C06_range_gentoo :
  forall (vok : bytes -> bool) (vcmp : bytes -> bytes -> comparison) (r v : bytes),
    r_contains (e_r Gentoo.Entry.entry) vok vcmp r v <> None <->
    (r_show (e_r Gentoo.Entry.entry) vok r <> None /\ vok v = true).
Proof. range_domain. Qed.
Print Assumptions C06_range_gentoo.

Theorem C06_range_github :
  forall (vok : bytes -> bool) (vcmp : bytes -> bytes -> comparison) (r v : bytes),
    r_contains (e_r Github.Entry.entry) vok vcmp r v <> None <->
    (r_show (e_r Github.Entry.entry) vok r <> None /\ vok v = true).
Proof. range_domain. Qed.
Print Assumptions C06_range_github.

Theorem C06_range_golang :
  forall (vok : bytes -> bool) (vcmp : bytes -> bytes -> comparison) (r v : bytes),
    r_contains (e_r Golang.Entry.entry) vok vcmp r v <> None <->
    (r_show (e_r Golang.Entry.entry) vok r <> None /\ vok v = true).
Proof. range_domain. Qed.
Print Assumptions C06_range_golang.

Theorem C06_range_hex :
  forall (vok : bytes -> bool) (vcmp : bytes -> bytes -> comparison) (r v : bytes),
    r_contains (e_r Hex.Entry.entry) vok vcmp r v <> None <->
    (r_show (e_r Hex.Entry.entry) vok r <> None /\ vok v = true).
Proof. range_domain. Qed.
Print Assumptions C06_range_hex.

Theorem C06_range_mattermost :
  forall (vok : bytes -> bool) (vcmp : bytes -> bytes -> comparison) (r v : bytes),
    r_contains (e_r Mattermost.Entry.entry) vok vcmp r v <> None <->
    (r_show (e_r Mattermost.Entry.entry) vok r <> None /\ vok v = true).
Proof. range_domain. Qed.
Print Assumptions C06_range_mattermost.

Theorem C06_range_maven :
  forall (vok : bytes -> bool) (vcmp : bytes -> bytes -> comparison) (r v : bytes),
    r_contains (e_r Maven.Entry.entry) vok vcmp r v <> None <->
    (r_show (e_r Maven.Entry.entry) vok r <> None /\ vok v = true).
Proof. range_domain. Qed.
Print Assumptions C06_range_maven.

Theorem C06_range_npm :
  forall (vok : bytes -> bool) (vcmp : bytes -> bytes -> comparison) (r v : bytes),
    r_contains (e_r Npm.Entry.entry) vok vcmp r v <> None <->
    (r_show (e_r Npm.Entry.entry) vok r <> None /\ vok v = true).
Proof. range_domain. Qed.
Print Assumptions C06_range_npm.

Theorem C06_range_nuget :
  forall (vok : bytes -> bool) (vcmp : bytes -> bytes -> comparison) (r v : bytes),
    r_contains (e_r Nuget.Entry.entry) vok vcmp r v <> None <->
    (r_show (e_r Nuget.Entry.entry) vok r <> None /\ vok v = true).
Proof. range_domain. Qed.
Print Assumptions C06_range_nuget.

Theorem C06_range_pypi :
  forall (vok : bytes -> bool) (vcmp : bytes -> bytes -> comparison) (r v : bytes),
    r_contains (e_r Pypi.Entry.entry) vok vcmp r v <> None <->
    (r_show (e_r Pypi.Entry.entry) vok r <> None /\ vok v = true).
Proof. range_domain. Qed.
Print Assumptions C06_range_pypi.

Theorem C06_range_rpm :
  forall (vok : bytes -> bool) (vcmp : bytes -> bytes -> comparison) (r v : bytes),
    r_contains (e_r Rpm.Entry.entry) vok vcmp r v <> None <->
    (r_show (e_r Rpm.Entry.entry) vok r <> None /\ vok v = true).
Proof. range_domain. Qed.
Print Assumptions C06_range_rpm.

Theorem C06_range_semver :
  forall (vok : bytes -> bool) (vcmp : bytes -> bytes -> comparison) (r v : bytes),
    r_contains (e_r Semver.Entry.entry) vok vcmp r v <> None <->
    (r_show (e_r Semver.Entry.entry) vok r <> None /\ vok v = true).
Proof. range_domain. Qed.
Print Assumptions C06_range_semver.

(* composer's Contains reads the fields of the version itself, so the statement is for the
   model's own version layer as the oracle (the end-to-end configuration) *)
Theorem C06_range_composer : forall r v : bytes,
  let e := Composer.Entry.entry in
  r_contains (e_r e) (self_vok e) (self_vcmp e) r v <> None <->
  (r_show (e_r e) (self_vok e) r <> None /\ self_vok e v = true).
Proof.
  intros r v e. subst e.
  assert (K : self_vok Composer.Entry.entry v =
              match Composer.Version.parse_core (trim_space v) with Some _ => true | None => false end).
  { unfold self_vok. cbn [e_v Composer.Entry.entry Composer.Entry.v mk_vops v_show].
    unfold VLayer.parse. destruct (Composer.Version.parse_core (trim_space v)); reflexivity. }
  set (ok := self_vok Composer.Entry.entry) in *. clearbody ok.
  set (cm := self_vcmp Composer.Entry.entry). clearbody cm.
  cbn [e_r Composer.Entry.entry Composer.Entry.r r_show r_contains].
  unfold option_map, Composer.Range.contains.
  destruct (Composer.Range.parse_range ok r) as [rg|]; rewrite K;
    destruct (Composer.Version.parse_core (trim_space v));
    split; intros H; try (destruct H as [H1 H2]); try split; congruence.
Qed.
Print Assumptions C06_range_composer.

(* ====================================================================== *)
(* (c) VERS: an error is never "true"                                      *)
(* ====================================================================== *)

(* trivial in the model: [vres] is a three-valued type and its constructors are distinct *)
Theorem C06_vers_error_is_not_true :
  forall (table : list scheme) (styles : list (bytes * native_style)) (ops : bytes -> scheme_ops)
         (range version : bytes),
    vers_contains table styles ops range version = VErr ->
    vers_contains table styles ops range version <> VTrue.
Proof. intros table styles ops range version H. rewrite H. discriminate. Qed.
Print Assumptions C06_vers_error_is_not_true.

Theorem C06_vers_three_outcomes : forall r v : bytes,
  model_vers r v = VTrue \/ model_vers r v = VFalse \/ model_vers r v = VErr.
Proof. intros r v. destruct (model_vers r v); auto. Qed.
Print Assumptions C06_vers_three_outcomes.

(* and the CLI never prints a result for a VERS error: it fails with a diagnostic *)
Theorem C06_cli_vers_error_fails :
  forall (lib : bytes -> lib_ops) (vers : bytes -> bytes -> vres) (r v : bytes),
    vers r v = VErr ->
    run cli_specs cli_registry lib vers [$"vers"; $"contains"; r; v] =
    Fail $"Error running command 'vers contains': ".
Proof.
  intros lib vers r v H.
  eapply eq_trans; [exact (cli_vers_contains lib vers r v)|]. rewrite H. reflexivity.
Qed.
Print Assumptions C06_cli_vers_error_fails.

(* ====================================================================== *)
(* (d) CLI: every outcome is Ok (exit 0) or Fail (exit 1)                  *)
(* ====================================================================== *)

Theorem C06_cli_outcomes :
  forall (lib : bytes -> lib_ops) (vers : bytes -> bytes -> vres) (args : list bytes),
    ((exists line, run cli_specs cli_registry lib vers args = Ok line) \/
     (exists p, run cli_specs cli_registry lib vers args = Fail p)) /\
    (exit_code (run cli_specs cli_registry lib vers args) = 0%Z \/
     exit_code (run cli_specs cli_registry lib vers args) = 1%Z) /\
    (forall p, run cli_specs cli_registry lib vers args = Fail p ->
               exit_code (run cli_specs cli_registry lib vers args) = 1%Z) /\
    (forall line, run cli_specs cli_registry lib vers args = Ok line ->
               exit_code (run cli_specs cli_registry lib vers args) = 0%Z).
Proof.
  intros lib vers args. split; [|split; [exact (exit_code_cases lib vers args)|split]].
  - destruct (run cli_specs cli_registry lib vers args); [left|right]; eexists; reflexivity.
  - intros p ->. reflexivity.
  - intros line ->. reflexivity.
Qed.
Print Assumptions C06_cli_outcomes.

(* ====== ties to the source: BEGIN (written by bin/mkties) ====== *)
(* The Go functions named here are translated into Gallina from /repo's source on every run
   (tools/gen -> Gen/Code/<Eco>.v for loop-free functions, Gen/Loops/<Eco>.v for functions with
   loops and index expressions, where a panic is Panic and a loop takes fuel); Tie/<Eco>.v,
   Tie/<Eco>Range.v and Tie/Loops/<Eco>.v prove each translation equal to the model the theorems
   above speak about (and, for the loop functions: no panic, termination within a linear bound).
   If the code changes so that a tie no longer holds, this file no longer checks. *)
Require Verif.Tie.Loops.Alpine.
Require Verif.Tie.Loops.Alpm.
Require Verif.Tie.Loops.Cargo.
Require Verif.Tie.Loops.Conan.
Require Verif.Tie.Loops.ConanRange.
Require Verif.Tie.Loops.Cran.
Require Verif.Tie.Loops.Debian.
Require Verif.Tie.Loops.Gem.
Require Verif.Tie.Loops.Golang.
Require Verif.Tie.Loops.Hex.
Require Verif.Tie.Loops.Maven.
Require Verif.Tie.Loops.Npm.
Require Verif.Tie.Loops.Nuget.
Require Verif.Tie.Loops.Pypi.
Require Verif.Tie.Loops.Rpm.
Require Verif.Tie.Loops.Semver.
Require Verif.Tie.Parse.AlpineRange.
Require Verif.Tie.Parse.Alpm.
Require Verif.Tie.Parse.AlpmRange.
Require Verif.Tie.Parse.Apache.
Require Verif.Tie.Parse.ApacheRange.
Require Verif.Tie.Parse.Cargo.
Require Verif.Tie.Parse.CargoRange.
Require Verif.Tie.Parse.ComposerRange.
Require Verif.Tie.Parse.Conan.
Require Verif.Tie.Parse.ConanRange.
Require Verif.Tie.Parse.CranRange.
Require Verif.Tie.Parse.Debian.
Require Verif.Tie.Parse.DebianRange.
Require Verif.Tie.Parse.DebianRangeClosed.
Require Verif.Tie.Parse.Gem.
Require Verif.Tie.Parse.GemRange.
Require Verif.Tie.Parse.Gentoo.
Require Verif.Tie.Parse.GentooRange.
Require Verif.Tie.Parse.GentooRangeClosed.
Require Verif.Tie.Parse.Github.
Require Verif.Tie.Parse.GithubRange.
Require Verif.Tie.Parse.GolangRange.
Require Verif.Tie.Parse.Hex.
Require Verif.Tie.Parse.HexRange.
Require Verif.Tie.Parse.Mattermost.
Require Verif.Tie.Parse.MattermostRange.
Require Verif.Tie.Parse.Maven.
Require Verif.Tie.Parse.MavenRange.
Require Verif.Tie.Parse.Npm.
Require Verif.Tie.Parse.NpmRangeClosed.
Require Verif.Tie.Parse.Nuget.
Require Verif.Tie.Parse.NugetRangeClosed.
Require Verif.Tie.Parse.PypiRange.
Require Verif.Tie.Parse.Rpm.
Require Verif.Tie.Parse.RpmRange.
Require Verif.Tie.Parse.RpmRangeClosed.
Require Verif.Tie.Parse.Semver.
Require Verif.Tie.Parse.SemverRange.
Require Verif.Tie.Vers.Code.
Require Verif.Tie.Vers.Constraints.
Require Verif.Tie.Vers.CoreAlternating.
Require Verif.Tie.Vers.CoreContains.
Require Verif.Tie.Vers.CoreDispatch.
Require Verif.Tie.Vers.CoreGroup.
Require Verif.Tie.Vers.CoreGroupLen.
Require Verif.Tie.Vers.CoreGroupTie.
Require Verif.Tie.Vers.CoreNormalize.
Require Verif.Tie.Vers.CoreToRanges.
Require Verif.Tie.Vers.Printers.
Require Verif.Tie.Vers.Pypi.
Require Verif.Tie.Vers.Texts.
Require Verif.Tie.Vers.Valid.
Require Verif.Tie.Cli.Run.
Require Verif.Tie.Cli.RunInst.
Require Verif.Tie.Cli.Spec.
Require Verif.Tie.E2E.Alpine.
Require Verif.Tie.E2E.Alpm.
Require Verif.Tie.E2E.Apache.
Require Verif.Tie.E2E.Cargo.
Require Verif.Tie.E2E.Composer.
Require Verif.Tie.E2E.Conan.
Require Verif.Tie.E2E.Cran.
Require Verif.Tie.E2E.Debian.
Require Verif.Tie.E2E.Gem.
Require Verif.Tie.E2E.Gentoo.
Require Verif.Tie.E2E.Github.
Require Verif.Tie.E2E.Golang.
Require Verif.Tie.E2E.Hex.
Require Verif.Tie.E2E.Mattermost.
Require Verif.Tie.E2E.Maven.
Require Verif.Tie.E2E.Npm.
Require Verif.Tie.E2E.NpmRange.
Require Verif.Tie.E2E.Nuget.
Require Verif.Tie.E2E.Pypi.
Require Verif.Tie.E2E.Rpm.
Require Verif.Tie.E2E.Semver.
Require Verif.Tie.E2E.VersAlpine.
Require Verif.Tie.E2E.VersCargo.
Require Verif.Tie.E2E.VersDeb.
Require Verif.Tie.E2E.VersGem.
Require Verif.Tie.E2E.VersGeneric.
Require Verif.Tie.E2E.VersGolang.
Require Verif.Tie.E2E.VersMaven.
Require Verif.Tie.E2E.VersNpm.
Require Verif.Tie.E2E.VersNuget.
Require Verif.Tie.E2E.VersPypi.
Require Verif.Tie.E2E.VersRpm.
Require Verif.Tie.Extra.Alpm.
Require Verif.Tie.Extra.Npm.
Definition C06_tie_loops_alpine_hasLeadingZero_no_panic := @Verif.Tie.Loops.Alpine.loops_alpine_hasLeadingZero_no_panic.
Definition C06_tie_loops_alpine_compareNumericArraysNumeric_no_panic := @Verif.Tie.Loops.Alpine.loops_alpine_compareNumericArraysNumeric_no_panic.
Definition C06_tie_loops_alpine_compareSuffixArrays_no_panic := @Verif.Tie.Loops.Alpine.loops_alpine_compareSuffixArrays_no_panic.
Definition C06_tie_loops_alpm_isAlphaSegment_no_panic := @Verif.Tie.Loops.Alpm.loops_alpm_isAlphaSegment_no_panic.
Definition C06_tie_loops_alpm_compareSegments_no_panic := @Verif.Tie.Loops.Alpm.loops_alpm_compareSegments_no_panic.
Definition C06_tie_loops_alpm_compareSegmentBySegment_no_panic := @Verif.Tie.Loops.Alpm.loops_alpm_compareSegmentBySegment_no_panic.
Definition C06_tie_loops_cargo_comparePrereleaseIdentifiers_no_panic := @Verif.Tie.Loops.Cargo.loops_cargo_comparePrereleaseIdentifiers_no_panic.
Definition C06_tie_loops_conan_naturalCompare_no_panic := @Verif.Tie.Loops.Conan.loops_conan_naturalCompare_no_panic.
Definition C06_tie_loops_conan_compareVersionParts_no_panic := @Verif.Tie.Loops.Conan.loops_conan_compareVersionParts_no_panic.
Definition C06_tie_loops_conan_comparePrerelease_no_panic := @Verif.Tie.Loops.Conan.loops_conan_comparePrerelease_no_panic.
Definition C06_tie_loops_conan_tildeMatch_no_panic := @Verif.Tie.Loops.ConanRange.loops_conan_tildeMatch_no_panic.
Definition C06_tie_loops_conan_caretMatch_no_panic := @Verif.Tie.Loops.ConanRange.loops_conan_caretMatch_no_panic.
Definition C06_tie_loops_cran_compare_no_panic := @Verif.Tie.Loops.Cran.loops_cran_compare_no_panic.
Definition C06_tie_loops_debian_no_panic := @Verif.Tie.Loops.Debian.loops_debian_no_panic.
Definition C06_tie_loops_gem_removeTrailingZeros_no_panic := @Verif.Tie.Loops.Gem.loops_gem_removeTrailingZeros_no_panic.
Definition C06_tie_loops_gem_split_no_panic := @Verif.Tie.Loops.Gem.loops_gem_split_no_panic.
Definition C06_tie_loops_gem_compareSegmentArrays_no_panic := @Verif.Tie.Loops.Gem.loops_gem_compareSegmentArrays_no_panic.
Definition C06_tie_loops_gem_compare_no_panic := @Verif.Tie.Loops.Gem.loops_gem_compare_no_panic.
Definition C06_tie_loops_golang_comparePrerelease_no_panic := @Verif.Tie.Loops.Golang.loops_golang_comparePrerelease_no_panic.
Definition C06_tie_loops_hex_comparePreRelease_no_panic := @Verif.Tie.Loops.Hex.loops_hex_comparePreRelease_no_panic.
Definition C06_tie_loops_maven_trimTrailingNulls_no_panic := @Verif.Tie.Loops.Maven.loops_maven_trimTrailingNulls_no_panic.
Definition C06_tie_loops_npm_comparePrerelease_no_panic := @Verif.Tie.Loops.Npm.loops_npm_comparePrerelease_no_panic.
Definition C06_tie_loops_nuget_comparePrerelease_no_panic := @Verif.Tie.Loops.Nuget.loops_nuget_comparePrerelease_no_panic.
Definition C06_tie_loops_pypi_compareReleaseVersions_no_panic := @Verif.Tie.Loops.Pypi.loops_pypi_compareReleaseVersions_no_panic.
Definition C06_tie_loops_rpm_compareRPMVersionString_no_panic := @Verif.Tie.Loops.Rpm.loops_rpm_compareRPMVersionString_no_panic.
Definition C06_tie_loops_semver_comparePrerelease_no_panic := @Verif.Tie.Loops.Semver.loops_semver_comparePrerelease_no_panic.
Definition C06_tie_parse_alpine_parseConstraint := @Verif.Tie.Parse.AlpineRange.tie_parse_alpine_parseConstraint.
Definition C06_tie_parse_alpine_parseConstraints := @Verif.Tie.Parse.AlpineRange.tie_parse_alpine_parseConstraints.
Definition C06_tie_parse_alpine_newversionrange := @Verif.Tie.Parse.AlpineRange.tie_parse_alpine_newversionrange.
Definition C06_tie_newversion_alpm_no_panic := @Verif.Tie.Parse.Alpm.newversion_alpm_no_panic.
Definition C06_tie_parse_alpm_newversion := @Verif.Tie.Parse.Alpm.tie_parse_alpm_newversion.
Definition C06_tie_parse_alpm_parseConstraint := @Verif.Tie.Parse.AlpmRange.tie_parse_alpm_parseConstraint.
Definition C06_tie_parse_alpm_parseConstraints := @Verif.Tie.Parse.AlpmRange.tie_parse_alpm_parseConstraints.
Definition C06_tie_parse_alpm_newversionrange := @Verif.Tie.Parse.AlpmRange.tie_parse_alpm_newversionrange.
Definition C06_tie_parse_alpm_newversionrange_model := @Verif.Tie.Parse.AlpmRange.tie_parse_alpm_newversionrange_model.
Definition C06_tie_newversion_apache_no_panic := @Verif.Tie.Parse.Apache.newversion_apache_no_panic.
Definition C06_tie_parse_apache_newversion := @Verif.Tie.Parse.Apache.tie_parse_apache_newversion.
Definition C06_tie_parse_apache_parseConstraint := @Verif.Tie.Parse.ApacheRange.tie_parse_apache_parseConstraint.
Definition C06_tie_parse_apache_parseConstraints := @Verif.Tie.Parse.ApacheRange.tie_parse_apache_parseConstraints.
Definition C06_tie_parse_apache_newversionrange := @Verif.Tie.Parse.ApacheRange.tie_parse_apache_newversionrange.
Definition C06_tie_newversion_cargo_no_panic := @Verif.Tie.Parse.Cargo.newversion_cargo_no_panic.
Definition C06_tie_parse_cargo_newversion := @Verif.Tie.Parse.Cargo.tie_parse_cargo_newversion.
Definition C06_tie_parse_cargo_parseConstraint := @Verif.Tie.Parse.CargoRange.tie_parse_cargo_parseConstraint.
Definition C06_tie_parse_cargo_parseConstraints := @Verif.Tie.Parse.CargoRange.tie_parse_cargo_parseConstraints.
Definition C06_tie_parse_cargo_newversionrange_nv := @Verif.Tie.Parse.CargoRange.tie_parse_cargo_newversionrange_nv.
Definition C06_tie_parse_cargo_newversionrange := @Verif.Tie.Parse.CargoRange.tie_parse_cargo_newversionrange.
Definition C06_tie_parse_composer_parseHyphenRange := @Verif.Tie.Parse.ComposerRange.tie_parse_composer_parseHyphenRange.
Definition C06_tie_parse_composer_space := @Verif.Tie.Parse.ComposerRange.tie_parse_composer_space.
Definition C06_tie_parse_composer_parseRange := @Verif.Tie.Parse.ComposerRange.tie_parse_composer_parseRange.
Definition C06_tie_parse_composer_parseRangeGroups := @Verif.Tie.Parse.ComposerRange.tie_parse_composer_parseRangeGroups.
Definition C06_tie_parse_composer_newversionrange := @Verif.Tie.Parse.ComposerRange.tie_parse_composer_newversionrange.
Definition C06_tie_newversion_conan_no_panic := @Verif.Tie.Parse.Conan.newversion_conan_no_panic.
Definition C06_tie_newversion_matched := @Verif.Tie.Parse.Conan.newversion_matched.
Definition C06_tie_newversion_unmatched := @Verif.Tie.Parse.Conan.newversion_unmatched.
Definition C06_tie_parse_conan_newversion := @Verif.Tie.Parse.Conan.tie_parse_conan_newversion.
Definition C06_tie_parse_conan_newversionrange := @Verif.Tie.Parse.ConanRange.tie_parse_conan_newversionrange.
Definition C06_tie_parse_cran_parseConstraint := @Verif.Tie.Parse.CranRange.tie_parse_cran_parseConstraint.
Definition C06_tie_parse_cran_parseConstraints := @Verif.Tie.Parse.CranRange.tie_parse_cran_parseConstraints.
Definition C06_tie_parse_cran_newversionrange := @Verif.Tie.Parse.CranRange.tie_parse_cran_newversionrange.
Definition C06_tie_newversion_debian_no_panic := @Verif.Tie.Parse.Debian.newversion_debian_no_panic.
Definition C06_tie_parse_debian_newversion := @Verif.Tie.Parse.Debian.tie_parse_debian_newversion.
Definition C06_tie_parse_debian_parseConstraint := @Verif.Tie.Parse.DebianRange.tie_parse_debian_parseConstraint.
Definition C06_tie_parse_debian_parseConstraints := @Verif.Tie.Parse.DebianRange.tie_parse_debian_parseConstraints.
Definition C06_tie_parse_debian_newversionrange := @Verif.Tie.Parse.DebianRange.tie_parse_debian_newversionrange.
Definition C06_tie_newversionrange_debian_no_panic_closed := @Verif.Tie.Parse.DebianRangeClosed.newversionrange_debian_no_panic_closed.
Definition C06_tie_parse_debian_newversionrange_closed := @Verif.Tie.Parse.DebianRangeClosed.tie_parse_debian_newversionrange_closed.
Definition C06_tie_newversion_gem_no_panic := @Verif.Tie.Parse.Gem.newversion_gem_no_panic.
Definition C06_tie_parse_gem_parseSegments := @Verif.Tie.Parse.Gem.tie_parse_gem_parseSegments.
Definition C06_tie_parse_gem_newversion := @Verif.Tie.Parse.Gem.tie_parse_gem_newversion.
Definition C06_tie_parse_gem_parseConstraint := @Verif.Tie.Parse.GemRange.tie_parse_gem_parseConstraint.
Definition C06_tie_parse_gem_parseConstraints := @Verif.Tie.Parse.GemRange.tie_parse_gem_parseConstraints.
Definition C06_tie_parse_gem_newversionrange_core := @Verif.Tie.Parse.GemRange.tie_parse_gem_newversionrange_core.
Definition C06_tie_parse_gem_newversionrange := @Verif.Tie.Parse.GemRange.tie_parse_gem_newversionrange.
Definition C06_tie_newversion_gentoo_no_panic := @Verif.Tie.Parse.Gentoo.newversion_gentoo_no_panic.
Definition C06_tie_parse_gentoo_newversion := @Verif.Tie.Parse.Gentoo.tie_parse_gentoo_newversion.
Definition C06_tie_parse_gentoo_parseSingleConstraint := @Verif.Tie.Parse.GentooRange.tie_parse_gentoo_parseSingleConstraint.
Definition C06_tie_parse_gentoo_parseRange := @Verif.Tie.Parse.GentooRange.tie_parse_gentoo_parseRange.
Definition C06_tie_parse_gentoo_newversionrange := @Verif.Tie.Parse.GentooRange.tie_parse_gentoo_newversionrange.
Definition C06_tie_newversionrange_gentoo_no_panic_closed := @Verif.Tie.Parse.GentooRangeClosed.newversionrange_gentoo_no_panic_closed.
Definition C06_tie_parse_gentoo_newversionrange_closed := @Verif.Tie.Parse.GentooRangeClosed.tie_parse_gentoo_newversionrange_closed.
Definition C06_tie_newversion_github_no_panic := @Verif.Tie.Parse.Github.newversion_github_no_panic.
Definition C06_tie_parse_github_newversion := @Verif.Tie.Parse.Github.tie_parse_github_newversion.
Definition C06_tie_parse_github_parseConstraint := @Verif.Tie.Parse.GithubRange.tie_parse_github_parseConstraint.
Definition C06_tie_parse_github_parseConstraints := @Verif.Tie.Parse.GithubRange.tie_parse_github_parseConstraints.
Definition C06_tie_parse_github_newversionrange := @Verif.Tie.Parse.GithubRange.tie_parse_github_newversionrange.
Definition C06_tie_parse_github_newversionrange_model := @Verif.Tie.Parse.GithubRange.tie_parse_github_newversionrange_model.
Definition C06_tie_parse_golang_parseSingleGoConstraint := @Verif.Tie.Parse.GolangRange.tie_parse_golang_parseSingleGoConstraint.
Definition C06_tie_parse_golang_parseGoRange := @Verif.Tie.Parse.GolangRange.tie_parse_golang_parseGoRange.
Definition C06_tie_parse_golang_newversionrange := @Verif.Tie.Parse.GolangRange.tie_parse_golang_newversionrange.
Definition C06_tie_newversion_hex_no_panic := @Verif.Tie.Parse.Hex.newversion_hex_no_panic.
Definition C06_tie_parse_hex_parseConstraint := @Verif.Tie.Parse.HexRange.tie_parse_hex_parseConstraint.
Definition C06_tie_parse_hex_parseConstraints := @Verif.Tie.Parse.HexRange.tie_parse_hex_parseConstraints.
Definition C06_tie_parse_hex_newversionrange := @Verif.Tie.Parse.HexRange.tie_parse_hex_newversionrange.
Definition C06_tie_newversion_mattermost_no_panic := @Verif.Tie.Parse.Mattermost.newversion_mattermost_no_panic.
Definition C06_tie_parse_mattermost_parseConstraint := @Verif.Tie.Parse.MattermostRange.tie_parse_mattermost_parseConstraint.
Definition C06_tie_parse_mattermost_parseConstraints := @Verif.Tie.Parse.MattermostRange.tie_parse_mattermost_parseConstraints.
Definition C06_tie_parse_mattermost_newversionrange := @Verif.Tie.Parse.MattermostRange.tie_parse_mattermost_newversionrange.
Definition C06_tie_newversion_maven_no_panic := @Verif.Tie.Parse.Maven.newversion_maven_no_panic.
Definition C06_tie_parse_maven_isValidMavenVersion := @Verif.Tie.Parse.Maven.tie_parse_maven_isValidMavenVersion.
Definition C06_tie_parse_maven_newversion := @Verif.Tie.Parse.Maven.tie_parse_maven_newversion.
Definition C06_tie_parse_maven_newversionrange := @Verif.Tie.Parse.MavenRange.tie_parse_maven_newversionrange.
Definition C06_tie_newversion_npm_no_panic := @Verif.Tie.Parse.Npm.newversion_npm_no_panic.
Definition C06_tie_parse_npm_newversion := @Verif.Tie.Parse.Npm.tie_parse_npm_newversion.
Definition C06_tie_newversionrange_npm_no_panic_closed := @Verif.Tie.Parse.NpmRangeClosed.newversionrange_npm_no_panic_closed.
Definition C06_tie_newversion_nuget_no_panic := @Verif.Tie.Parse.Nuget.newversion_nuget_no_panic.
Definition C06_tie_parse_nuget_newversion := @Verif.Tie.Parse.Nuget.tie_parse_nuget_newversion.
Definition C06_tie_newversionrange_nuget_no_panic_closed := @Verif.Tie.Parse.NugetRangeClosed.newversionrange_nuget_no_panic_closed.
Definition C06_tie_parse_pypi_parseSingleConstraint := @Verif.Tie.Parse.PypiRange.tie_parse_pypi_parseSingleConstraint.
Definition C06_tie_parse_pypi_newversionrange := @Verif.Tie.Parse.PypiRange.tie_parse_pypi_newversionrange.
Definition C06_tie_newversion_rpm_no_panic := @Verif.Tie.Parse.Rpm.newversion_rpm_no_panic.
Definition C06_tie_parse_rpm_newversion := @Verif.Tie.Parse.Rpm.tie_parse_rpm_newversion.
Definition C06_tie_parse_rpm_parseConstraint := @Verif.Tie.Parse.RpmRange.tie_parse_rpm_parseConstraint.
Definition C06_tie_parse_rpm_parseConstraints := @Verif.Tie.Parse.RpmRange.tie_parse_rpm_parseConstraints.
Definition C06_tie_parse_rpm_newversionrange := @Verif.Tie.Parse.RpmRange.tie_parse_rpm_newversionrange.
Definition C06_tie_newversionrange_rpm_no_panic_closed := @Verif.Tie.Parse.RpmRangeClosed.newversionrange_rpm_no_panic_closed.
Definition C06_tie_parse_rpm_newversionrange_closed := @Verif.Tie.Parse.RpmRangeClosed.tie_parse_rpm_newversionrange_closed.
Definition C06_tie_newversion_semver_no_panic := @Verif.Tie.Parse.Semver.newversion_semver_no_panic.
Definition C06_tie_parse_semver_newversion := @Verif.Tie.Parse.Semver.tie_parse_semver_newversion.
Definition C06_tie_parse_semver_comma := @Verif.Tie.Parse.SemverRange.tie_parse_semver_comma.
Definition C06_tie_parse_semver_space := @Verif.Tie.Parse.SemverRange.tie_parse_semver_space.
Definition C06_tie_parse_semver_newversionrange := @Verif.Tie.Parse.SemverRange.tie_parse_semver_newversionrange.
Definition C06_tie_shouldMergeConstraints_tie := @Verif.Tie.Vers.Code.shouldMergeConstraints_tie.
Definition C06_tie_ensureVPrefix_tie := @Verif.Tie.Vers.Code.ensureVPrefix_tie.
Definition C06_tie_parseConstraint_tie := @Verif.Tie.Vers.Constraints.parseConstraint_tie.
Definition C06_tie_parseConstraint_finished := @Verif.Tie.Vers.Constraints.parseConstraint_finished.
Definition C06_tie_parseConstraints_tie := @Verif.Tie.Vers.Constraints.parseConstraints_tie.
Definition C06_tie_parseConstraints_finished := @Verif.Tie.Vers.Constraints.parseConstraints_finished.
Definition C06_tie_parseConstraints_normalize := @Verif.Tie.Vers.Constraints.parseConstraints_normalize.
Definition C06_tie_alternatingIntervals_no_panic := @Verif.Tie.Vers.CoreAlternating.alternatingIntervals_no_panic.
Definition C06_tie_alternatingIntervals_total := @Verif.Tie.Vers.CoreAlternating.alternatingIntervals_total.
Definition C06_tie_printers_len := @Verif.Tie.Vers.CoreContains.printers_len.
Definition C06_tie_printers_len' := @Verif.Tie.Vers.CoreContains.printers_len'.
Definition C06_tie_contains_tie := @Verif.Tie.Vers.CoreContains.contains_tie.
Definition C06_tie_toRanges_no_panic := @Verif.Tie.Vers.CoreContains.toRanges_no_panic.
Definition C06_tie_contains_no_panic := @Verif.Tie.Vers.CoreContains.contains_no_panic.
Definition C06_tie_isPyPIPrerelease_tie := @Verif.Tie.Vers.CoreDispatch.isPyPIPrerelease_tie.
Definition C06_tie_pypiContains_tie := @Verif.Tie.Vers.CoreDispatch.pypiContains_tie.
Definition C06_tie_Contains_tie := @Verif.Tie.Vers.CoreDispatch.Contains_tie.
Definition C06_tie_Contains_no_panic := @Verif.Tie.Vers.CoreDispatch.Contains_no_panic.
Definition C06_tie_groupConstraintsIntoIntervals_no_panic := @Verif.Tie.Vers.CoreGroup.groupConstraintsIntoIntervals_no_panic.
Definition C06_tie_groupConstraintsIntoIntervals_total := @Verif.Tie.Vers.CoreGroup.groupConstraintsIntoIntervals_total.
Definition C06_tie_ensures_finished := @Verif.Tie.Vers.CoreGroupLen.ensures_finished.
Definition C06_tie_alternatingIntervals_tie := @Verif.Tie.Vers.CoreGroupTie.alternatingIntervals_tie.
Definition C06_tie_alternatingIntervals_tie_finished := @Verif.Tie.Vers.CoreGroupTie.alternatingIntervals_tie_finished.
Definition C06_tie_groupConstraintsIntoIntervals_tie := @Verif.Tie.Vers.CoreGroupTie.groupConstraintsIntoIntervals_tie.
Definition C06_tie_groupConstraintsIntoIntervals_tie_finished := @Verif.Tie.Vers.CoreGroupTie.groupConstraintsIntoIntervals_tie_finished.
Definition C06_tie_normalizeConstraints_no_panic := @Verif.Tie.Vers.CoreNormalize.normalizeConstraints_no_panic.
Definition C06_tie_collect_tie := @Verif.Tie.Vers.CoreNormalize.collect_tie.
Definition C06_tie_ccmp_le_total := @Verif.Tie.Vers.CoreNormalize.ccmp_le_total.
Definition C06_tie_normalize_go_tie := @Verif.Tie.Vers.CoreNormalize.normalize_go_tie.
Definition C06_tie_normalizeConstraints_tie := @Verif.Tie.Vers.CoreNormalize.normalizeConstraints_tie.
Definition C06_tie_toRanges_tie := @Verif.Tie.Vers.CoreToRanges.toRanges_tie.
Definition C06_tie_toRanges_normalize := @Verif.Tie.Vers.CoreToRanges.toRanges_normalize.
Definition C06_tie_alpine_printer_tie := @Verif.Tie.Vers.Printers.alpine_printer_tie.
Definition C06_tie_cargo_printer_tie := @Verif.Tie.Vers.Printers.cargo_printer_tie.
Definition C06_tie_debian_printer_tie := @Verif.Tie.Vers.Printers.debian_printer_tie.
Definition C06_tie_gem_printer_tie := @Verif.Tie.Vers.Printers.gem_printer_tie.
Definition C06_tie_golang_printer_tie := @Verif.Tie.Vers.Printers.golang_printer_tie.
Definition C06_tie_maven_printer_tie := @Verif.Tie.Vers.Printers.maven_printer_tie.
Definition C06_tie_npm_printer_tie := @Verif.Tie.Vers.Printers.npm_printer_tie.
Definition C06_tie_nuget_printer_tie := @Verif.Tie.Vers.Printers.nuget_printer_tie.
Definition C06_tie_pypi_printer_tie := @Verif.Tie.Vers.Printers.pypi_printer_tie.
Definition C06_tie_rpm_printer_tie := @Verif.Tie.Vers.Printers.rpm_printer_tie.
Definition C06_tie_semver_printer_tie := @Verif.Tie.Vers.Printers.semver_printer_tie.
Definition C06_tie_printers_keys := @Verif.Tie.Vers.Printers.printers_keys.
Definition C06_tie_printers_match_style_table := @Verif.Tie.Vers.Printers.printers_match_style_table.
Definition C06_tie_printers_on_model_interval := @Verif.Tie.Vers.Printers.printers_on_model_interval.
Definition C06_tie_containsPrereleaseMarkers_tie := @Verif.Tie.Vers.Pypi.containsPrereleaseMarkers_tie.
Definition C06_tie_containsPrereleaseMarkers_finished := @Verif.Tie.Vers.Pypi.containsPrereleaseMarkers_finished.
Definition C06_tie_constraintsIncludePrerelease_finished := @Verif.Tie.Vers.Pypi.constraintsIncludePrerelease_finished.
Definition C06_tie_constraintsIncludePrerelease_tie := @Verif.Tie.Vers.Pypi.constraintsIncludePrerelease_tie.
Definition C06_tie_printers_texts := @Verif.Tie.Vers.Texts.printers_texts.
Definition C06_tie_printers_texts_normalize := @Verif.Tie.Vers.Texts.printers_texts_normalize.
Definition C06_tie_valid_tie := @Verif.Tie.Vers.Valid.valid_tie.
Definition C06_tie_valid_finished := @Verif.Tie.Vers.Valid.valid_finished.
Definition C06_tie_scheme_tie := @Verif.Tie.Vers.Valid.scheme_tie.
Definition C06_tie_scheme_finished := @Verif.Tie.Vers.Valid.scheme_finished.
Definition C06_tie_run_src_no_panic := @Verif.Tie.Cli.Run.run_src_no_panic.
Definition C06_tie_run_no_panic := @Verif.Tie.Cli.RunInst.run_no_panic.
Definition C06_tie_compare_no_panic := @Verif.Tie.Cli.Spec.compare_no_panic.
Definition C06_tie_sort_no_panic := @Verif.Tie.Cli.Spec.sort_no_panic.
Definition C06_tie_runEcosystem_no_panic := @Verif.Tie.Cli.Spec.runEcosystem_no_panic.
Definition C06_tie_versContains_no_panic := @Verif.Tie.Cli.Spec.versContains_no_panic.
Definition C06_tie_runVers_no_panic := @Verif.Tie.Cli.Spec.runVers_no_panic.
Definition C06_tie_alpine_lib_ties_on := @Verif.Tie.E2E.Alpine.alpine_lib_ties_on.
Definition C06_tie_alpine_lib_ties := @Verif.Tie.E2E.Alpine.alpine_lib_ties.
Definition C06_tie_alpine_name_ok := @Verif.Tie.E2E.Alpine.alpine_name_ok.
Definition C06_tie_alpine_runEcosystem_e2e := @Verif.Tie.E2E.Alpine.alpine_runEcosystem_e2e.
Definition C06_tie_alpine_cli_e2e := @Verif.Tie.E2E.Alpine.alpine_cli_e2e.
Definition C06_tie_alpine_cli_e2e_exit := @Verif.Tie.E2E.Alpine.alpine_cli_e2e_exit.
Definition C06_tie_alpm_lib_ties_on := @Verif.Tie.E2E.Alpm.alpm_lib_ties_on.
Definition C06_tie_alpm_lib_ties := @Verif.Tie.E2E.Alpm.alpm_lib_ties.
Definition C06_tie_alpm_name_ok := @Verif.Tie.E2E.Alpm.alpm_name_ok.
Definition C06_tie_alpm_runEcosystem_e2e := @Verif.Tie.E2E.Alpm.alpm_runEcosystem_e2e.
Definition C06_tie_alpm_cli_e2e := @Verif.Tie.E2E.Alpm.alpm_cli_e2e.
Definition C06_tie_alpm_cli_e2e_exit := @Verif.Tie.E2E.Alpm.alpm_cli_e2e_exit.
Definition C06_tie_apache_lib_ties_on := @Verif.Tie.E2E.Apache.apache_lib_ties_on.
Definition C06_tie_apache_lib_ties := @Verif.Tie.E2E.Apache.apache_lib_ties.
Definition C06_tie_apache_name_ok := @Verif.Tie.E2E.Apache.apache_name_ok.
Definition C06_tie_apache_runEcosystem_e2e := @Verif.Tie.E2E.Apache.apache_runEcosystem_e2e.
Definition C06_tie_apache_cli_e2e := @Verif.Tie.E2E.Apache.apache_cli_e2e.
Definition C06_tie_apache_cli_e2e_exit := @Verif.Tie.E2E.Apache.apache_cli_e2e_exit.
Definition C06_tie_cargo_lib_ties_on := @Verif.Tie.E2E.Cargo.cargo_lib_ties_on.
Definition C06_tie_cargo_lib_ties := @Verif.Tie.E2E.Cargo.cargo_lib_ties.
Definition C06_tie_cargo_name_ok := @Verif.Tie.E2E.Cargo.cargo_name_ok.
Definition C06_tie_cargo_runEcosystem_e2e := @Verif.Tie.E2E.Cargo.cargo_runEcosystem_e2e.
Definition C06_tie_cargo_cli_e2e := @Verif.Tie.E2E.Cargo.cargo_cli_e2e.
Definition C06_tie_cargo_cli_e2e_exit := @Verif.Tie.E2E.Cargo.cargo_cli_e2e_exit.
Definition C06_tie_composer_name_ok := @Verif.Tie.E2E.Composer.composer_name_ok.
Definition C06_tie_composer_lib_ties_on := @Verif.Tie.E2E.Composer.composer_lib_ties_on.
Definition C06_tie_composer_lib_ties := @Verif.Tie.E2E.Composer.composer_lib_ties.
Definition C06_tie_composer_runEcosystem_e2e := @Verif.Tie.E2E.Composer.composer_runEcosystem_e2e.
Definition C06_tie_composer_cli_e2e := @Verif.Tie.E2E.Composer.composer_cli_e2e.
Definition C06_tie_composer_cli_e2e_exit := @Verif.Tie.E2E.Composer.composer_cli_e2e_exit.
Definition C06_tie_conan_lib_ties_on := @Verif.Tie.E2E.Conan.conan_lib_ties_on.
Definition C06_tie_conan_lib_ties := @Verif.Tie.E2E.Conan.conan_lib_ties.
Definition C06_tie_conan_name_ok := @Verif.Tie.E2E.Conan.conan_name_ok.
Definition C06_tie_conan_runEcosystem_e2e := @Verif.Tie.E2E.Conan.conan_runEcosystem_e2e.
Definition C06_tie_conan_cli_e2e := @Verif.Tie.E2E.Conan.conan_cli_e2e.
Definition C06_tie_conan_cli_e2e_exit := @Verif.Tie.E2E.Conan.conan_cli_e2e_exit.
Definition C06_tie_cran_lib_ties_on := @Verif.Tie.E2E.Cran.cran_lib_ties_on.
Definition C06_tie_cran_lib_ties := @Verif.Tie.E2E.Cran.cran_lib_ties.
Definition C06_tie_cran_name_ok := @Verif.Tie.E2E.Cran.cran_name_ok.
Definition C06_tie_cran_runEcosystem_e2e := @Verif.Tie.E2E.Cran.cran_runEcosystem_e2e.
Definition C06_tie_cran_cli_e2e := @Verif.Tie.E2E.Cran.cran_cli_e2e.
Definition C06_tie_cran_cli_e2e_exit := @Verif.Tie.E2E.Cran.cran_cli_e2e_exit.
Definition C06_tie_debian_lib_ties_on := @Verif.Tie.E2E.Debian.debian_lib_ties_on.
Definition C06_tie_debian_lib_ties := @Verif.Tie.E2E.Debian.debian_lib_ties.
Definition C06_tie_debian_name_ok := @Verif.Tie.E2E.Debian.debian_name_ok.
Definition C06_tie_debian_runEcosystem_e2e := @Verif.Tie.E2E.Debian.debian_runEcosystem_e2e.
Definition C06_tie_debian_cli_e2e := @Verif.Tie.E2E.Debian.debian_cli_e2e.
Definition C06_tie_debian_cli_e2e_exit := @Verif.Tie.E2E.Debian.debian_cli_e2e_exit.
Definition C06_tie_gem_lib_ties_on := @Verif.Tie.E2E.Gem.gem_lib_ties_on.
Definition C06_tie_gem_lib_ties := @Verif.Tie.E2E.Gem.gem_lib_ties.
Definition C06_tie_gem_name_ok := @Verif.Tie.E2E.Gem.gem_name_ok.
Definition C06_tie_gem_runEcosystem_e2e := @Verif.Tie.E2E.Gem.gem_runEcosystem_e2e.
Definition C06_tie_gem_cli_e2e := @Verif.Tie.E2E.Gem.gem_cli_e2e.
Definition C06_tie_gem_cli_e2e_exit := @Verif.Tie.E2E.Gem.gem_cli_e2e_exit.
Definition C06_tie_gem_lib_ties_on_short_false := @Verif.Tie.E2E.Gem.gem_lib_ties_on_short_false.
Definition C06_tie_gentoo_compare := @Verif.Tie.E2E.Gentoo.tie_gentoo_compare.
Definition C06_tie_gentoo_lib_ties_on := @Verif.Tie.E2E.Gentoo.gentoo_lib_ties_on.
Definition C06_tie_gentoo_lib_ties := @Verif.Tie.E2E.Gentoo.gentoo_lib_ties.
Definition C06_tie_gentoo_name_ok := @Verif.Tie.E2E.Gentoo.gentoo_name_ok.
Definition C06_tie_gentoo_runEcosystem_e2e := @Verif.Tie.E2E.Gentoo.gentoo_runEcosystem_e2e.
Definition C06_tie_gentoo_cli_e2e := @Verif.Tie.E2E.Gentoo.gentoo_cli_e2e.
Definition C06_tie_gentoo_cli_e2e_exit := @Verif.Tie.E2E.Gentoo.gentoo_cli_e2e_exit.
Definition C06_tie_github_lib_ties_on := @Verif.Tie.E2E.Github.github_lib_ties_on.
Definition C06_tie_github_lib_ties := @Verif.Tie.E2E.Github.github_lib_ties.
Definition C06_tie_github_name_ok := @Verif.Tie.E2E.Github.github_name_ok.
Definition C06_tie_github_runEcosystem_e2e := @Verif.Tie.E2E.Github.github_runEcosystem_e2e.
Definition C06_tie_github_cli_e2e := @Verif.Tie.E2E.Github.github_cli_e2e.
Definition C06_tie_github_cli_e2e_exit := @Verif.Tie.E2E.Github.github_cli_e2e_exit.
Definition C06_tie_lazy_lib_ties_on := @Verif.Tie.E2E.Golang.lazy_lib_ties_on.
Definition C06_tie_golang_lib_ties_on := @Verif.Tie.E2E.Golang.golang_lib_ties_on.
Definition C06_tie_golang_lib_ties := @Verif.Tie.E2E.Golang.golang_lib_ties.
Definition C06_tie_golang_name_ok := @Verif.Tie.E2E.Golang.golang_name_ok.
Definition C06_tie_golang_runEcosystem_e2e := @Verif.Tie.E2E.Golang.golang_runEcosystem_e2e.
Definition C06_tie_golang_cli_e2e := @Verif.Tie.E2E.Golang.golang_cli_e2e.
Definition C06_tie_golang_cli_e2e_exit := @Verif.Tie.E2E.Golang.golang_cli_e2e_exit.
Definition C06_tie_hex_lib_ties_on := @Verif.Tie.E2E.Hex.hex_lib_ties_on.
Definition C06_tie_hex_lib_ties := @Verif.Tie.E2E.Hex.hex_lib_ties.
Definition C06_tie_hex_name_ok := @Verif.Tie.E2E.Hex.hex_name_ok.
Definition C06_tie_hex_runEcosystem_e2e := @Verif.Tie.E2E.Hex.hex_runEcosystem_e2e.
Definition C06_tie_hex_cli_e2e := @Verif.Tie.E2E.Hex.hex_cli_e2e.
Definition C06_tie_hex_cli_e2e_exit := @Verif.Tie.E2E.Hex.hex_cli_e2e_exit.
Definition C06_tie_mattermost_lib_ties_on := @Verif.Tie.E2E.Mattermost.mattermost_lib_ties_on.
Definition C06_tie_mattermost_lib_ties := @Verif.Tie.E2E.Mattermost.mattermost_lib_ties.
Definition C06_tie_mattermost_name_ok := @Verif.Tie.E2E.Mattermost.mattermost_name_ok.
Definition C06_tie_mattermost_runEcosystem_e2e := @Verif.Tie.E2E.Mattermost.mattermost_runEcosystem_e2e.
Definition C06_tie_mattermost_cli_e2e := @Verif.Tie.E2E.Mattermost.mattermost_cli_e2e.
Definition C06_tie_mattermost_cli_e2e_exit := @Verif.Tie.E2E.Mattermost.mattermost_cli_e2e_exit.
Definition C06_tie_maven_lib_ties_on := @Verif.Tie.E2E.Maven.maven_lib_ties_on.
Definition C06_tie_maven_lib_ties := @Verif.Tie.E2E.Maven.maven_lib_ties.
Definition C06_tie_maven_name_ok := @Verif.Tie.E2E.Maven.maven_name_ok.
Definition C06_tie_maven_runEcosystem_e2e := @Verif.Tie.E2E.Maven.maven_runEcosystem_e2e.
Definition C06_tie_maven_cli_e2e := @Verif.Tie.E2E.Maven.maven_cli_e2e.
Definition C06_tie_maven_cli_e2e_exit := @Verif.Tie.E2E.Maven.maven_cli_e2e_exit.
Definition C06_tie_npm_name_ok := @Verif.Tie.E2E.Npm.npm_name_ok.
Definition C06_tie_npm_version_lib_ties_on := @Verif.Tie.E2E.Npm.npm_version_lib_ties_on.
Definition C06_tie_npm_compare_sort_e2e := @Verif.Tie.E2E.Npm.npm_compare_sort_e2e.
Definition C06_tie_npm_lib_ties_on := @Verif.Tie.E2E.NpmRange.npm_lib_ties_on.
Definition C06_tie_npm_lib_ties := @Verif.Tie.E2E.NpmRange.npm_lib_ties.
Definition C06_tie_npm_runEcosystem_e2e := @Verif.Tie.E2E.NpmRange.npm_runEcosystem_e2e.
Definition C06_tie_npm_cli_e2e := @Verif.Tie.E2E.NpmRange.npm_cli_e2e.
Definition C06_tie_npm_cli_e2e_exit := @Verif.Tie.E2E.NpmRange.npm_cli_e2e_exit.
Definition C06_tie_nuget_lib_ties_on := @Verif.Tie.E2E.Nuget.nuget_lib_ties_on.
Definition C06_tie_nuget_lib_ties := @Verif.Tie.E2E.Nuget.nuget_lib_ties.
Definition C06_tie_nuget_name_ok := @Verif.Tie.E2E.Nuget.nuget_name_ok.
Definition C06_tie_nuget_runEcosystem_e2e := @Verif.Tie.E2E.Nuget.nuget_runEcosystem_e2e.
Definition C06_tie_nuget_cli_e2e := @Verif.Tie.E2E.Nuget.nuget_cli_e2e.
Definition C06_tie_nuget_cli_e2e_exit := @Verif.Tie.E2E.Nuget.nuget_cli_e2e_exit.
Definition C06_tie_pypi_lib_ties_on := @Verif.Tie.E2E.Pypi.pypi_lib_ties_on.
Definition C06_tie_pypi_lib_ties := @Verif.Tie.E2E.Pypi.pypi_lib_ties.
Definition C06_tie_pypi_name_ok := @Verif.Tie.E2E.Pypi.pypi_name_ok.
Definition C06_tie_pypi_runEcosystem_e2e := @Verif.Tie.E2E.Pypi.pypi_runEcosystem_e2e.
Definition C06_tie_pypi_cli_e2e := @Verif.Tie.E2E.Pypi.pypi_cli_e2e.
Definition C06_tie_pypi_cli_e2e_exit := @Verif.Tie.E2E.Pypi.pypi_cli_e2e_exit.
Definition C06_tie_rpm_lib_ties_on := @Verif.Tie.E2E.Rpm.rpm_lib_ties_on.
Definition C06_tie_rpm_lib_ties := @Verif.Tie.E2E.Rpm.rpm_lib_ties.
Definition C06_tie_rpm_name_ok := @Verif.Tie.E2E.Rpm.rpm_name_ok.
Definition C06_tie_rpm_runEcosystem_e2e := @Verif.Tie.E2E.Rpm.rpm_runEcosystem_e2e.
Definition C06_tie_rpm_cli_e2e := @Verif.Tie.E2E.Rpm.rpm_cli_e2e.
Definition C06_tie_rpm_cli_e2e_exit := @Verif.Tie.E2E.Rpm.rpm_cli_e2e_exit.
Definition C06_tie_semver_name_ok := @Verif.Tie.E2E.Semver.semver_name_ok.
Definition C06_tie_semver_version_lib_ties_on := @Verif.Tie.E2E.Semver.semver_version_lib_ties_on.
Definition C06_tie_semver_compare_sort_e2e := @Verif.Tie.E2E.Semver.semver_compare_sort_e2e.
Definition C06_tie_semver_lib_ties_on := @Verif.Tie.E2E.Semver.semver_lib_ties_on.
Definition C06_tie_semver_lib_ties := @Verif.Tie.E2E.Semver.semver_lib_ties.
Definition C06_tie_semver_runEcosystem_e2e := @Verif.Tie.E2E.Semver.semver_runEcosystem_e2e.
Definition C06_tie_semver_cli_e2e := @Verif.Tie.E2E.Semver.semver_cli_e2e.
Definition C06_tie_semver_cli_e2e_exit := @Verif.Tie.E2E.Semver.semver_cli_e2e_exit.
Definition C06_tie_alpine_contains_e2e := @Verif.Tie.E2E.VersAlpine.alpine_contains_e2e.
Definition C06_tie_alpineContains_e2e := @Verif.Tie.E2E.VersAlpine.alpineContains_e2e.
Definition C06_tie_vers_alpine_e2e := @Verif.Tie.E2E.VersAlpine.vers_alpine_e2e.
Definition C06_tie_cargo_contains_e2e := @Verif.Tie.E2E.VersCargo.cargo_contains_e2e.
Definition C06_tie_cargoContains_e2e := @Verif.Tie.E2E.VersCargo.cargoContains_e2e.
Definition C06_tie_vers_cargo_e2e := @Verif.Tie.E2E.VersCargo.vers_cargo_e2e.
Definition C06_tie_debian_contains_e2e := @Verif.Tie.E2E.VersDeb.debian_contains_e2e.
Definition C06_tie_debianContains_e2e := @Verif.Tie.E2E.VersDeb.debianContains_e2e.
Definition C06_tie_vers_deb_e2e := @Verif.Tie.E2E.VersDeb.vers_deb_e2e.
Definition C06_tie_gem_contains_e2e := @Verif.Tie.E2E.VersGem.gem_contains_e2e.
Definition C06_tie_gemContains_e2e := @Verif.Tie.E2E.VersGem.gemContains_e2e.
Definition C06_tie_vers_gem_e2e := @Verif.Tie.E2E.VersGem.vers_gem_e2e.
Definition C06_tie_semver_contains_e2e := @Verif.Tie.E2E.VersGeneric.semver_contains_e2e.
Definition C06_tie_semverContains_e2e := @Verif.Tie.E2E.VersGeneric.semverContains_e2e.
Definition C06_tie_vers_generic_e2e := @Verif.Tie.E2E.VersGeneric.vers_generic_e2e.
Definition C06_tie_golang_contains_e2e := @Verif.Tie.E2E.VersGolang.golang_contains_e2e.
Definition C06_tie_golangContains_e2e := @Verif.Tie.E2E.VersGolang.golangContains_e2e.
Definition C06_tie_vers_golang_e2e := @Verif.Tie.E2E.VersGolang.vers_golang_e2e.
Definition C06_tie_maven_contains_e2e := @Verif.Tie.E2E.VersMaven.maven_contains_e2e.
Definition C06_tie_mavenContains_e2e := @Verif.Tie.E2E.VersMaven.mavenContains_e2e.
Definition C06_tie_vers_maven_e2e := @Verif.Tie.E2E.VersMaven.vers_maven_e2e.
Definition C06_tie_npm_contains_e2e := @Verif.Tie.E2E.VersNpm.npm_contains_e2e.
Definition C06_tie_npmContains_e2e := @Verif.Tie.E2E.VersNpm.npmContains_e2e.
Definition C06_tie_vers_npm_e2e := @Verif.Tie.E2E.VersNpm.vers_npm_e2e.
Definition C06_tie_nuget_contains_e2e := @Verif.Tie.E2E.VersNuget.nuget_contains_e2e.
Definition C06_tie_nugetContains_e2e := @Verif.Tie.E2E.VersNuget.nugetContains_e2e.
Definition C06_tie_vers_nuget_e2e := @Verif.Tie.E2E.VersNuget.vers_nuget_e2e.
Definition C06_tie_pypi_contains_e2e := @Verif.Tie.E2E.VersPypi.pypi_contains_e2e.
Definition C06_tie_pypiContains_e2e := @Verif.Tie.E2E.VersPypi.pypiContains_e2e.
Definition C06_tie_vers_pypi_e2e := @Verif.Tie.E2E.VersPypi.vers_pypi_e2e.
Definition C06_tie_rpm_contains_e2e := @Verif.Tie.E2E.VersRpm.rpm_contains_e2e.
Definition C06_tie_rpmContains_e2e := @Verif.Tie.E2E.VersRpm.rpmContains_e2e.
Definition C06_tie_vers_rpm_e2e := @Verif.Tie.E2E.VersRpm.vers_rpm_e2e.
Definition C06_tie_compareALMPVersionString_alpm_no_panic := @Verif.Tie.Extra.Alpm.compareALMPVersionString_alpm_no_panic.
Definition C06_tie_parse_npm_padPartial := @Verif.Tie.Extra.Npm.tie_parse_npm_padPartial.
Definition C06_tie_parse_npm_parseCaretRange := @Verif.Tie.Extra.Npm.tie_parse_npm_parseCaretRange.
Definition C06_tie_parse_npm_parseTildeRange := @Verif.Tie.Extra.Npm.tie_parse_npm_parseTildeRange.
Definition C06_tie_parseCaretRange_npm_no_panic := @Verif.Tie.Extra.Npm.parseCaretRange_npm_no_panic.
Definition C06_tie_parseTildeRange_npm_no_panic := @Verif.Tie.Extra.Npm.parseTildeRange_npm_no_panic.
Definition C06_ties_all := (C06_tie_Contains_no_panic, (C06_tie_Contains_tie, (C06_tie_alpineContains_e2e, (C06_tie_alpine_cli_e2e, (C06_tie_alpine_cli_e2e_exit, (C06_tie_alpine_contains_e2e, (C06_tie_alpine_lib_ties, (C06_tie_alpine_lib_ties_on, (C06_tie_alpine_name_ok, (C06_tie_alpine_printer_tie, (C06_tie_alpine_runEcosystem_e2e, (C06_tie_alpm_cli_e2e, (C06_tie_alpm_cli_e2e_exit, (C06_tie_alpm_lib_ties, (C06_tie_alpm_lib_ties_on, (C06_tie_alpm_name_ok, (C06_tie_alpm_runEcosystem_e2e, (C06_tie_alternatingIntervals_no_panic, (C06_tie_alternatingIntervals_tie, (C06_tie_alternatingIntervals_tie_finished, (C06_tie_alternatingIntervals_total, (C06_tie_apache_cli_e2e, (C06_tie_apache_cli_e2e_exit, (C06_tie_apache_lib_ties, (C06_tie_apache_lib_ties_on, (C06_tie_apache_name_ok, (C06_tie_apache_runEcosystem_e2e, (C06_tie_cargoContains_e2e, (C06_tie_cargo_cli_e2e, (C06_tie_cargo_cli_e2e_exit, (C06_tie_cargo_contains_e2e, (C06_tie_cargo_lib_ties, (C06_tie_cargo_lib_ties_on, (C06_tie_cargo_name_ok, (C06_tie_cargo_printer_tie, (C06_tie_cargo_runEcosystem_e2e, (C06_tie_ccmp_le_total, (C06_tie_collect_tie, (C06_tie_compareALMPVersionString_alpm_no_panic, (C06_tie_compare_no_panic, (C06_tie_composer_cli_e2e, (C06_tie_composer_cli_e2e_exit, (C06_tie_composer_lib_ties, (C06_tie_composer_lib_ties_on, (C06_tie_composer_name_ok, (C06_tie_composer_runEcosystem_e2e, (C06_tie_conan_cli_e2e, (C06_tie_conan_cli_e2e_exit, (C06_tie_conan_lib_ties, (C06_tie_conan_lib_ties_on, (C06_tie_conan_name_ok, (C06_tie_conan_runEcosystem_e2e, (C06_tie_constraintsIncludePrerelease_finished, (C06_tie_constraintsIncludePrerelease_tie, (C06_tie_containsPrereleaseMarkers_finished, (C06_tie_containsPrereleaseMarkers_tie, (C06_tie_contains_no_panic, (C06_tie_contains_tie, (C06_tie_cran_cli_e2e, (C06_tie_cran_cli_e2e_exit, (C06_tie_cran_lib_ties, (C06_tie_cran_lib_ties_on, (C06_tie_cran_name_ok, (C06_tie_cran_runEcosystem_e2e, (C06_tie_debianContains_e2e, (C06_tie_debian_cli_e2e, (C06_tie_debian_cli_e2e_exit, (C06_tie_debian_contains_e2e, (C06_tie_debian_lib_ties, (C06_tie_debian_lib_ties_on, (C06_tie_debian_name_ok, (C06_tie_debian_printer_tie, (C06_tie_debian_runEcosystem_e2e, (C06_tie_ensureVPrefix_tie, (C06_tie_ensures_finished, (C06_tie_gemContains_e2e, (C06_tie_gem_cli_e2e, (C06_tie_gem_cli_e2e_exit, (C06_tie_gem_contains_e2e, (C06_tie_gem_lib_ties, (C06_tie_gem_lib_ties_on, (C06_tie_gem_lib_ties_on_short_false, (C06_tie_gem_name_ok, (C06_tie_gem_printer_tie, (C06_tie_gem_runEcosystem_e2e, (C06_tie_gentoo_cli_e2e, (C06_tie_gentoo_cli_e2e_exit, (C06_tie_gentoo_compare, (C06_tie_gentoo_lib_ties, (C06_tie_gentoo_lib_ties_on, (C06_tie_gentoo_name_ok, (C06_tie_gentoo_runEcosystem_e2e, (C06_tie_github_cli_e2e, (C06_tie_github_cli_e2e_exit, (C06_tie_github_lib_ties, (C06_tie_github_lib_ties_on, (C06_tie_github_name_ok, (C06_tie_github_runEcosystem_e2e, (C06_tie_golangContains_e2e, (C06_tie_golang_cli_e2e, (C06_tie_golang_cli_e2e_exit, (C06_tie_golang_contains_e2e, (C06_tie_golang_lib_ties, (C06_tie_golang_lib_ties_on, (C06_tie_golang_name_ok, (C06_tie_golang_printer_tie, (C06_tie_golang_runEcosystem_e2e, (C06_tie_groupConstraintsIntoIntervals_no_panic, (C06_tie_groupConstraintsIntoIntervals_tie, (C06_tie_groupConstraintsIntoIntervals_tie_finished, (C06_tie_groupConstraintsIntoIntervals_total, (C06_tie_hex_cli_e2e, (C06_tie_hex_cli_e2e_exit, (C06_tie_hex_lib_ties, (C06_tie_hex_lib_ties_on, (C06_tie_hex_name_ok, (C06_tie_hex_runEcosystem_e2e, (C06_tie_isPyPIPrerelease_tie, (C06_tie_lazy_lib_ties_on, (C06_tie_loops_alpine_compareNumericArraysNumeric_no_panic, (C06_tie_loops_alpine_compareSuffixArrays_no_panic, (C06_tie_loops_alpine_hasLeadingZero_no_panic, (C06_tie_loops_alpm_compareSegmentBySegment_no_panic, (C06_tie_loops_alpm_compareSegments_no_panic, (C06_tie_loops_alpm_isAlphaSegment_no_panic, (C06_tie_loops_cargo_comparePrereleaseIdentifiers_no_panic, (C06_tie_loops_conan_caretMatch_no_panic, (C06_tie_loops_conan_comparePrerelease_no_panic, (C06_tie_loops_conan_compareVersionParts_no_panic, (C06_tie_loops_conan_naturalCompare_no_panic, (C06_tie_loops_conan_tildeMatch_no_panic, (C06_tie_loops_cran_compare_no_panic, (C06_tie_loops_debian_no_panic, (C06_tie_loops_gem_compareSegmentArrays_no_panic, (C06_tie_loops_gem_compare_no_panic, (C06_tie_loops_gem_removeTrailingZeros_no_panic, (C06_tie_loops_gem_split_no_panic, (C06_tie_loops_golang_comparePrerelease_no_panic, (C06_tie_loops_hex_comparePreRelease_no_panic, (C06_tie_loops_maven_trimTrailingNulls_no_panic, (C06_tie_loops_npm_comparePrerelease_no_panic, (C06_tie_loops_nuget_comparePrerelease_no_panic, (C06_tie_loops_pypi_compareReleaseVersions_no_panic, (C06_tie_loops_rpm_compareRPMVersionString_no_panic, (C06_tie_loops_semver_comparePrerelease_no_panic, (C06_tie_mattermost_cli_e2e, (C06_tie_mattermost_cli_e2e_exit, (C06_tie_mattermost_lib_ties, (C06_tie_mattermost_lib_ties_on, (C06_tie_mattermost_name_ok, (C06_tie_mattermost_runEcosystem_e2e, (C06_tie_mavenContains_e2e, (C06_tie_maven_cli_e2e, (C06_tie_maven_cli_e2e_exit, (C06_tie_maven_contains_e2e, (C06_tie_maven_lib_ties, (C06_tie_maven_lib_ties_on, (C06_tie_maven_name_ok, (C06_tie_maven_printer_tie, (C06_tie_maven_runEcosystem_e2e, (C06_tie_newversion_alpm_no_panic, (C06_tie_newversion_apache_no_panic, (C06_tie_newversion_cargo_no_panic, (C06_tie_newversion_conan_no_panic, (C06_tie_newversion_debian_no_panic, (C06_tie_newversion_gem_no_panic, (C06_tie_newversion_gentoo_no_panic, (C06_tie_newversion_github_no_panic, (C06_tie_newversion_hex_no_panic, (C06_tie_newversion_matched, (C06_tie_newversion_mattermost_no_panic, (C06_tie_newversion_maven_no_panic, (C06_tie_newversion_npm_no_panic, (C06_tie_newversion_nuget_no_panic, (C06_tie_newversion_rpm_no_panic, (C06_tie_newversion_semver_no_panic, (C06_tie_newversion_unmatched, (C06_tie_newversionrange_debian_no_panic_closed, (C06_tie_newversionrange_gentoo_no_panic_closed, (C06_tie_newversionrange_npm_no_panic_closed, (C06_tie_newversionrange_nuget_no_panic_closed, (C06_tie_newversionrange_rpm_no_panic_closed, (C06_tie_normalizeConstraints_no_panic, (C06_tie_normalizeConstraints_tie, (C06_tie_normalize_go_tie, (C06_tie_npmContains_e2e, (C06_tie_npm_cli_e2e, (C06_tie_npm_cli_e2e_exit, (C06_tie_npm_compare_sort_e2e, (C06_tie_npm_contains_e2e, (C06_tie_npm_lib_ties, (C06_tie_npm_lib_ties_on, (C06_tie_npm_name_ok, (C06_tie_npm_printer_tie, (C06_tie_npm_runEcosystem_e2e, (C06_tie_npm_version_lib_ties_on, (C06_tie_nugetContains_e2e, (C06_tie_nuget_cli_e2e, (C06_tie_nuget_cli_e2e_exit, (C06_tie_nuget_contains_e2e, (C06_tie_nuget_lib_ties, (C06_tie_nuget_lib_ties_on, (C06_tie_nuget_name_ok, (C06_tie_nuget_printer_tie, (C06_tie_nuget_runEcosystem_e2e, (C06_tie_parseCaretRange_npm_no_panic, (C06_tie_parseConstraint_finished, (C06_tie_parseConstraint_tie, (C06_tie_parseConstraints_finished, (C06_tie_parseConstraints_normalize, (C06_tie_parseConstraints_tie, (C06_tie_parseTildeRange_npm_no_panic, (C06_tie_parse_alpine_newversionrange, (C06_tie_parse_alpine_parseConstraint, (C06_tie_parse_alpine_parseConstraints, (C06_tie_parse_alpm_newversion, (C06_tie_parse_alpm_newversionrange, (C06_tie_parse_alpm_newversionrange_model, (C06_tie_parse_alpm_parseConstraint, (C06_tie_parse_alpm_parseConstraints, (C06_tie_parse_apache_newversion, (C06_tie_parse_apache_newversionrange, (C06_tie_parse_apache_parseConstraint, (C06_tie_parse_apache_parseConstraints, (C06_tie_parse_cargo_newversion, (C06_tie_parse_cargo_newversionrange, (C06_tie_parse_cargo_newversionrange_nv, (C06_tie_parse_cargo_parseConstraint, (C06_tie_parse_cargo_parseConstraints, (C06_tie_parse_composer_newversionrange, (C06_tie_parse_composer_parseHyphenRange, (C06_tie_parse_composer_parseRange, (C06_tie_parse_composer_parseRangeGroups, (C06_tie_parse_composer_space, (C06_tie_parse_conan_newversion, (C06_tie_parse_conan_newversionrange, (C06_tie_parse_cran_newversionrange, (C06_tie_parse_cran_parseConstraint, (C06_tie_parse_cran_parseConstraints, (C06_tie_parse_debian_newversion, (C06_tie_parse_debian_newversionrange, (C06_tie_parse_debian_newversionrange_closed, (C06_tie_parse_debian_parseConstraint, (C06_tie_parse_debian_parseConstraints, (C06_tie_parse_gem_newversion, (C06_tie_parse_gem_newversionrange, (C06_tie_parse_gem_newversionrange_core, (C06_tie_parse_gem_parseConstraint, (C06_tie_parse_gem_parseConstraints, (C06_tie_parse_gem_parseSegments, (C06_tie_parse_gentoo_newversion, (C06_tie_parse_gentoo_newversionrange, (C06_tie_parse_gentoo_newversionrange_closed, (C06_tie_parse_gentoo_parseRange, (C06_tie_parse_gentoo_parseSingleConstraint, (C06_tie_parse_github_newversion, (C06_tie_parse_github_newversionrange, (C06_tie_parse_github_newversionrange_model, (C06_tie_parse_github_parseConstraint, (C06_tie_parse_github_parseConstraints, (C06_tie_parse_golang_newversionrange, (C06_tie_parse_golang_parseGoRange, (C06_tie_parse_golang_parseSingleGoConstraint, (C06_tie_parse_hex_newversionrange, (C06_tie_parse_hex_parseConstraint, (C06_tie_parse_hex_parseConstraints, (C06_tie_parse_mattermost_newversionrange, (C06_tie_parse_mattermost_parseConstraint, (C06_tie_parse_mattermost_parseConstraints, (C06_tie_parse_maven_isValidMavenVersion, (C06_tie_parse_maven_newversion, (C06_tie_parse_maven_newversionrange, (C06_tie_parse_npm_newversion, (C06_tie_parse_npm_padPartial, (C06_tie_parse_npm_parseCaretRange, (C06_tie_parse_npm_parseTildeRange, (C06_tie_parse_nuget_newversion, (C06_tie_parse_pypi_newversionrange, (C06_tie_parse_pypi_parseSingleConstraint, (C06_tie_parse_rpm_newversion, (C06_tie_parse_rpm_newversionrange, (C06_tie_parse_rpm_newversionrange_closed, (C06_tie_parse_rpm_parseConstraint, (C06_tie_parse_rpm_parseConstraints, (C06_tie_parse_semver_comma, (C06_tie_parse_semver_newversion, (C06_tie_parse_semver_newversionrange, (C06_tie_parse_semver_space, (C06_tie_printers_keys, (C06_tie_printers_len, (C06_tie_printers_len', (C06_tie_printers_match_style_table, (C06_tie_printers_on_model_interval, (C06_tie_printers_texts, (C06_tie_printers_texts_normalize, (C06_tie_pypiContains_e2e, (C06_tie_pypiContains_tie, (C06_tie_pypi_cli_e2e, (C06_tie_pypi_cli_e2e_exit, (C06_tie_pypi_contains_e2e, (C06_tie_pypi_lib_ties, (C06_tie_pypi_lib_ties_on, (C06_tie_pypi_name_ok, (C06_tie_pypi_printer_tie, (C06_tie_pypi_runEcosystem_e2e, (C06_tie_rpmContains_e2e, (C06_tie_rpm_cli_e2e, (C06_tie_rpm_cli_e2e_exit, (C06_tie_rpm_contains_e2e, (C06_tie_rpm_lib_ties, (C06_tie_rpm_lib_ties_on, (C06_tie_rpm_name_ok, (C06_tie_rpm_printer_tie, (C06_tie_rpm_runEcosystem_e2e, (C06_tie_runEcosystem_no_panic, (C06_tie_runVers_no_panic, (C06_tie_run_no_panic, (C06_tie_run_src_no_panic, (C06_tie_scheme_finished, (C06_tie_scheme_tie, (C06_tie_semverContains_e2e, (C06_tie_semver_cli_e2e, (C06_tie_semver_cli_e2e_exit, (C06_tie_semver_compare_sort_e2e, (C06_tie_semver_contains_e2e, (C06_tie_semver_lib_ties, (C06_tie_semver_lib_ties_on, (C06_tie_semver_name_ok, (C06_tie_semver_printer_tie, (C06_tie_semver_runEcosystem_e2e, (C06_tie_semver_version_lib_ties_on, (C06_tie_shouldMergeConstraints_tie, (C06_tie_sort_no_panic, (C06_tie_toRanges_no_panic, (C06_tie_toRanges_normalize, (C06_tie_toRanges_tie, (C06_tie_valid_finished, (C06_tie_valid_tie, (C06_tie_versContains_no_panic, (C06_tie_vers_alpine_e2e, (C06_tie_vers_cargo_e2e, (C06_tie_vers_deb_e2e, (C06_tie_vers_gem_e2e, (C06_tie_vers_generic_e2e, (C06_tie_vers_golang_e2e, (C06_tie_vers_maven_e2e, (C06_tie_vers_npm_e2e, (C06_tie_vers_nuget_e2e, (C06_tie_vers_pypi_e2e, C06_tie_vers_rpm_e2e))))))))))))))))))))))))))))))))))))))))))))))))))))))))))))))))))))))))))))))))))))))))))))))))))))))))))))))))))))))))))))))))))))))))))))))))))))))))))))))))))))))))))))))))))))))))))))))))))))))))))))))))))))))))))))))))))))))))))))))))))))))))))))))))))))))))))))))))))))))))))))))))))))))))))))))))))))))))))))))))))))))))))))))))))))))))))))).
Print Assumptions C06_ties_all.
(* ====== ties to the source: END ====== *)
