(* C07 — Sorting returns the same versions in non-decreasing order.
   Statements only; the proofs live in Base/Sorting.v (order theory), Cli/Facts.v (the CLI
   sort command), Eco/<E>/VersionFacts.v (C01: Compare is a total preorder) and
   Properties/Support/C07Support.v, CliModel.v (repackaging, no new mathematics).

   [isort cmp] (Vers/Model.v) is the model's sort: a stable insertion sort, which is what
   slices.SortFunc does on at most 12 elements.  Beyond that Go uses an UNSTABLE pdqsort, so
   the exact output order inside a class of Compare-equal versions is not determined by the
   input.  The property is therefore stated so that it does not depend on the algorithm:
     (1) the output of the model's sort is a permutation of the input (same multiset);
     (2) every adjacent output pair x, y has  cmp x y <> Gt  (non-decreasing);
     (3) for every reordering l' of the input, the two outputs are equal position by position
         up to Compare-equality (same sequence of equivalence classes);
     (4) EVERY list [out] that is a permutation of the input and non-decreasing — in particular
         the output of any correct sorting algorithm, stable or not — is equal position by
         position, up to Compare-equality, to the model's output.
   (1) needs no law; (2)-(4) need the C01 laws, which is why they are the place where those laws
   become user-visible.

   Part A: for every three-way comparison that is a total preorder (on a subset).
   Part B: the twenty ecosystems' Compare on parsed values.  Sixteen: all lists.  alpine,
           gentoo: all lists of PARSED values.  alpm: lists within one class of pkgrel
           presence.  maven: Compare is not transitive (C01_maven_refuted), so sorting is only
           claimed on the two classes where it is a total preorder; C07_maven_refuted restates
           the cycle a < b < c < a of three accepted versions, for which "sorted" has no
           algorithm-independent meaning.
   Part C: the CLI command `univers <name> sort v1 ... vn` for ANY library: the line printed
           is the quoted, space-joined String() forms of the model's sort of the arguments,
           on one line; an invalid argument makes the command Fail with a diagnostic naming
           the FIRST invalid argument and no result line.
   Part D: the same end to end for [Top.model_cli], whose library is the ecosystem models:
           the total-preorder hypothesis of Part C is discharged for 18 ecosystems on version
           TEXTS (C07_texts_<eco>), and the complete statement is instantiated for semver,
           debian, pypi and alpine. *)
From Coq Require Import List NArith ZArith Permutation Sorted.
From Verif.Base Require Import Bytes GoNum Ord Sorting.
From Verif.Vers Require Import Model.
From Verif.Eco Require Import VLayer Iface All.
From Verif.Cli Require Import Model Facts.
From Verif.Gen Require Import Registry.
From Verif Require Import Top.
From Verif.Properties.Support Require Import C07Support CliModel.
From Verif.Eco.Alpine Require OrdMore.
From Verif.Eco.Alpine Require Version VersionFacts Entry.
From Verif.Eco.Alpm Require Version VersionFacts Entry.
From Verif.Eco.Apache Require Version VersionFacts Entry.
From Verif.Eco.Cargo Require Version VersionFacts Entry.
From Verif.Eco.Composer Require Version VersionFacts Entry.
From Verif.Eco.Conan Require Version VersionFacts Entry.
From Verif.Eco.Cran Require Version VersionFacts Entry.
From Verif.Eco.Debian Require Version VersionFacts Entry.
From Verif.Eco.Gem Require Version VersionFacts Entry.
From Verif.Eco.Gentoo Require Version VersionFacts Entry.
From Verif.Eco.Github Require Version VersionFacts Entry.
From Verif.Eco.Golang Require Version VersionFacts Entry.
From Verif.Eco.Hex Require Version VersionFacts Entry.
From Verif.Eco.Mattermost Require Version VersionFacts Entry.
From Verif.Eco.Maven Require Version VersionFacts Entry.
From Verif.Eco.Npm Require Version VersionFacts Entry.
From Verif.Eco.Nuget Require Version VersionFacts Entry.
From Verif.Eco.Pypi Require Version VersionFacts Entry.
From Verif.Eco.Rpm Require Version VersionFacts Entry.
From Verif.Eco.Semver Require Version VersionFacts Entry.
Import ListNotations.
Local Open Scope N_scope.

(* ====================================================================== *)
(* Part A: any total preorder                                              *)
(* ====================================================================== *)

(* (1) the multiset is preserved — for ANY comparison function, lawful or not *)
Theorem C07_multiset : forall (A : Type) (cmp : A -> A -> comparison) (l : list A),
  Permutation (isort cmp l) l /\ length (isort cmp l) = length l /\
  (forall x, In x (isort cmp l) <-> In x l).
Proof.
  intros A cmp l. split; [apply isort_perm|]. split; [apply isort_length|]. intros x. apply isort_in.
Qed.
Print Assumptions C07_multiset.

(* (1)-(4) for a total preorder *)
Theorem C07_total_preorder : forall (A : Type) (cmp : A -> A -> comparison),
  TotalPreorder cmp ->
  forall l : list A,
    Permutation (isort cmp l) l /\
    Sorted (fun x y => cmp x y <> Gt) (isort cmp l) /\
    (forall l', Permutation l l' ->
       Forall2 (fun x y => cmp x y = Eq) (isort cmp l) (isort cmp l')) /\
    (forall out, Permutation out l -> Sorted (fun x y => cmp x y <> Gt) out ->
       Forall2 (fun x y => cmp x y = Eq) out (isort cmp l)).
Proof. exact sort_spec. Qed.
Print Assumptions C07_total_preorder.

(* the same when the laws hold on a subset P only and every element is in P *)
Theorem C07_total_preorder_on : forall (A : Type) (P : A -> Prop) (cmp : A -> A -> comparison),
  TotalPreorderOn P cmp ->
  forall l : list A, Forall P l ->
    Permutation (isort cmp l) l /\
    Sorted (fun x y => cmp x y <> Gt) (isort cmp l) /\
    (forall l', Permutation l l' ->
       Forall2 (fun x y => cmp x y = Eq) (isort cmp l) (isort cmp l')) /\
    (forall out, Permutation out l -> Sorted (fun x y => cmp x y <> Gt) out ->
       Forall2 (fun x y => cmp x y = Eq) out (isort cmp l)).
Proof. exact sort_spec_on. Qed.
Print Assumptions C07_total_preorder_on.

(* the heart of (3) and (4), with no reference to any sorting algorithm: two non-decreasing
   arrangements of the same multiset agree class by class *)
Theorem C07_sorted_arrangement_unique : forall (A : Type) (cmp : A -> A -> comparison),
  TotalPreorder cmp ->
  forall l1 l2 : list A,
    Permutation l1 l2 ->
    Sorted (fun x y => cmp x y <> Gt) l1 -> Sorted (fun x y => cmp x y <> Gt) l2 ->
    Forall2 (fun x y => cmp x y = Eq) l1 l2.
Proof. exact sorted_perm_classes_unique_adj. Qed.
Print Assumptions C07_sorted_arrangement_unique.

Theorem C07_sorted_arrangement_unique_on : forall (A : Type) (P : A -> Prop) (cmp : A -> A -> comparison),
  TotalPreorderOn P cmp ->
  forall l1 l2 : list A,
    Forall P l1 -> Permutation l1 l2 ->
    Sorted (fun x y => cmp x y <> Gt) l1 -> Sorted (fun x y => cmp x y <> Gt) l2 ->
    Forall2 (fun x y => cmp x y = Eq) l1 l2.
Proof. exact sorted_perm_classes_unique_adj_on. Qed.
Print Assumptions C07_sorted_arrangement_unique_on.

(* adjacent-pair order implies order between ANY earlier and later output element *)
Theorem C07_sorted_all_pairs : forall (A : Type) (cmp : A -> A -> comparison),
  TotalPreorder cmp ->
  forall l : list A, StronglySorted (fun x y => cmp x y <> Gt) (isort cmp l).
Proof. exact isort_strongly_sorted. Qed.
Print Assumptions C07_sorted_all_pairs.

(* ====================================================================== *)
(* Part B: the twenty ecosystems, Compare on parsed values                 *)
(* ====================================================================== *)

Theorem C07_apache : forall l : list Apache.Version.ver,
  Permutation (isort Apache.Version.cmp l) l /\
  Sorted (fun x y => Apache.Version.cmp x y <> Gt) (isort Apache.Version.cmp l) /\
  (forall l', Permutation l l' ->
     Forall2 (fun x y => Apache.Version.cmp x y = Eq) (isort Apache.Version.cmp l) (isort Apache.Version.cmp l')) /\
  (forall out, Permutation out l -> Sorted (fun x y => Apache.Version.cmp x y <> Gt) out ->
     Forall2 (fun x y => Apache.Version.cmp x y = Eq) out (isort Apache.Version.cmp l)).
Proof. exact (sort_spec _ _ Apache.VersionFacts.cmp_tp). Qed.
Print Assumptions C07_apache.

Theorem C07_cargo : forall l : list Cargo.Version.ver,
  Permutation (isort Cargo.Version.cmp l) l /\
  Sorted (fun x y => Cargo.Version.cmp x y <> Gt) (isort Cargo.Version.cmp l) /\
  (forall l', Permutation l l' ->
     Forall2 (fun x y => Cargo.Version.cmp x y = Eq) (isort Cargo.Version.cmp l) (isort Cargo.Version.cmp l')) /\
  (forall out, Permutation out l -> Sorted (fun x y => Cargo.Version.cmp x y <> Gt) out ->
     Forall2 (fun x y => Cargo.Version.cmp x y = Eq) out (isort Cargo.Version.cmp l)).
Proof. exact (sort_spec _ _ Cargo.VersionFacts.cmp_tp). Qed.
Print Assumptions C07_cargo.

Theorem C07_composer : forall l : list Composer.Version.ver,
  Permutation (isort Composer.Version.cmp l) l /\
  Sorted (fun x y => Composer.Version.cmp x y <> Gt) (isort Composer.Version.cmp l) /\
  (forall l', Permutation l l' ->
     Forall2 (fun x y => Composer.Version.cmp x y = Eq) (isort Composer.Version.cmp l) (isort Composer.Version.cmp l')) /\
  (forall out, Permutation out l -> Sorted (fun x y => Composer.Version.cmp x y <> Gt) out ->
     Forall2 (fun x y => Composer.Version.cmp x y = Eq) out (isort Composer.Version.cmp l)).
Proof. exact (sort_spec _ _ Composer.VersionFacts.cmp_tp). Qed.
Print Assumptions C07_composer.

Theorem C07_conan : forall l : list Conan.Version.ver,
  Permutation (isort Conan.Version.cmp l) l /\
  Sorted (fun x y => Conan.Version.cmp x y <> Gt) (isort Conan.Version.cmp l) /\
  (forall l', Permutation l l' ->
     Forall2 (fun x y => Conan.Version.cmp x y = Eq) (isort Conan.Version.cmp l) (isort Conan.Version.cmp l')) /\
  (forall out, Permutation out l -> Sorted (fun x y => Conan.Version.cmp x y <> Gt) out ->
     Forall2 (fun x y => Conan.Version.cmp x y = Eq) out (isort Conan.Version.cmp l)).
Proof. exact (sort_spec _ _ Conan.VersionFacts.cmp_tp). Qed.
Print Assumptions C07_conan.

Theorem C07_cran : forall l : list Cran.Version.ver,
  Permutation (isort Cran.Version.cmp l) l /\
  Sorted (fun x y => Cran.Version.cmp x y <> Gt) (isort Cran.Version.cmp l) /\
  (forall l', Permutation l l' ->
     Forall2 (fun x y => Cran.Version.cmp x y = Eq) (isort Cran.Version.cmp l) (isort Cran.Version.cmp l')) /\
  (forall out, Permutation out l -> Sorted (fun x y => Cran.Version.cmp x y <> Gt) out ->
     Forall2 (fun x y => Cran.Version.cmp x y = Eq) out (isort Cran.Version.cmp l)).
Proof. exact (sort_spec _ _ Cran.VersionFacts.cmp_tp). Qed.
Print Assumptions C07_cran.

Theorem C07_debian : forall l : list Debian.Version.ver,
  Permutation (isort Debian.Version.cmp l) l /\
  Sorted (fun x y => Debian.Version.cmp x y <> Gt) (isort Debian.Version.cmp l) /\
  (forall l', Permutation l l' ->
     Forall2 (fun x y => Debian.Version.cmp x y = Eq) (isort Debian.Version.cmp l) (isort Debian.Version.cmp l')) /\
  (forall out, Permutation out l -> Sorted (fun x y => Debian.Version.cmp x y <> Gt) out ->
     Forall2 (fun x y => Debian.Version.cmp x y = Eq) out (isort Debian.Version.cmp l)).
Proof. exact (sort_spec _ _ Debian.VersionFacts.cmp_tp). Qed.
Print Assumptions C07_debian.

Theorem C07_gem : forall l : list Gem.Version.ver,
  Permutation (isort Gem.Version.cmp l) l /\
  Sorted (fun x y => Gem.Version.cmp x y <> Gt) (isort Gem.Version.cmp l) /\
  (forall l', Permutation l l' ->
     Forall2 (fun x y => Gem.Version.cmp x y = Eq) (isort Gem.Version.cmp l) (isort Gem.Version.cmp l')) /\
  (forall out, Permutation out l -> Sorted (fun x y => Gem.Version.cmp x y <> Gt) out ->
     Forall2 (fun x y => Gem.Version.cmp x y = Eq) out (isort Gem.Version.cmp l)).
Proof. exact (sort_spec _ _ Gem.VersionFacts.cmp_tp). Qed.
Print Assumptions C07_gem.

Theorem C07_github : forall l : list Github.Version.ver,
  Permutation (isort Github.Version.cmp l) l /\
  Sorted (fun x y => Github.Version.cmp x y <> Gt) (isort Github.Version.cmp l) /\
  (forall l', Permutation l l' ->
     Forall2 (fun x y => Github.Version.cmp x y = Eq) (isort Github.Version.cmp l) (isort Github.Version.cmp l')) /\
  (forall out, Permutation out l -> Sorted (fun x y => Github.Version.cmp x y <> Gt) out ->
     Forall2 (fun x y => Github.Version.cmp x y = Eq) out (isort Github.Version.cmp l)).
Proof. exact (sort_spec _ _ Github.VersionFacts.cmp_tp). Qed.
Print Assumptions C07_github.

Theorem C07_golang : forall l : list Golang.Version.ver,
  Permutation (isort Golang.Version.cmp l) l /\
  Sorted (fun x y => Golang.Version.cmp x y <> Gt) (isort Golang.Version.cmp l) /\
  (forall l', Permutation l l' ->
     Forall2 (fun x y => Golang.Version.cmp x y = Eq) (isort Golang.Version.cmp l) (isort Golang.Version.cmp l')) /\
  (forall out, Permutation out l -> Sorted (fun x y => Golang.Version.cmp x y <> Gt) out ->
     Forall2 (fun x y => Golang.Version.cmp x y = Eq) out (isort Golang.Version.cmp l)).
Proof. exact (sort_spec _ _ Golang.VersionFacts.cmp_tp). Qed.
Print Assumptions C07_golang.

Theorem C07_hex : forall l : list Hex.Version.ver,
  Permutation (isort Hex.Version.cmp l) l /\
  Sorted (fun x y => Hex.Version.cmp x y <> Gt) (isort Hex.Version.cmp l) /\
  (forall l', Permutation l l' ->
     Forall2 (fun x y => Hex.Version.cmp x y = Eq) (isort Hex.Version.cmp l) (isort Hex.Version.cmp l')) /\
  (forall out, Permutation out l -> Sorted (fun x y => Hex.Version.cmp x y <> Gt) out ->
     Forall2 (fun x y => Hex.Version.cmp x y = Eq) out (isort Hex.Version.cmp l)).
Proof. exact (sort_spec _ _ Hex.VersionFacts.cmp_tp). Qed.
Print Assumptions C07_hex.

Theorem C07_mattermost : forall l : list Mattermost.Version.ver,
  Permutation (isort Mattermost.Version.cmp l) l /\
  Sorted (fun x y => Mattermost.Version.cmp x y <> Gt) (isort Mattermost.Version.cmp l) /\
  (forall l', Permutation l l' ->
     Forall2 (fun x y => Mattermost.Version.cmp x y = Eq) (isort Mattermost.Version.cmp l) (isort Mattermost.Version.cmp l')) /\
  (forall out, Permutation out l -> Sorted (fun x y => Mattermost.Version.cmp x y <> Gt) out ->
     Forall2 (fun x y => Mattermost.Version.cmp x y = Eq) out (isort Mattermost.Version.cmp l)).
Proof. exact (sort_spec _ _ Mattermost.VersionFacts.cmp_tp). Qed.
Print Assumptions C07_mattermost.

Theorem C07_npm : forall l : list Npm.Version.ver,
  Permutation (isort Npm.Version.cmp l) l /\
  Sorted (fun x y => Npm.Version.cmp x y <> Gt) (isort Npm.Version.cmp l) /\
  (forall l', Permutation l l' ->
     Forall2 (fun x y => Npm.Version.cmp x y = Eq) (isort Npm.Version.cmp l) (isort Npm.Version.cmp l')) /\
  (forall out, Permutation out l -> Sorted (fun x y => Npm.Version.cmp x y <> Gt) out ->
     Forall2 (fun x y => Npm.Version.cmp x y = Eq) out (isort Npm.Version.cmp l)).
Proof. exact (sort_spec _ _ Npm.VersionFacts.cmp_tp). Qed.
Print Assumptions C07_npm.

Theorem C07_nuget : forall l : list Nuget.Version.ver,
  Permutation (isort Nuget.Version.cmp l) l /\
  Sorted (fun x y => Nuget.Version.cmp x y <> Gt) (isort Nuget.Version.cmp l) /\
  (forall l', Permutation l l' ->
     Forall2 (fun x y => Nuget.Version.cmp x y = Eq) (isort Nuget.Version.cmp l) (isort Nuget.Version.cmp l')) /\
  (forall out, Permutation out l -> Sorted (fun x y => Nuget.Version.cmp x y <> Gt) out ->
     Forall2 (fun x y => Nuget.Version.cmp x y = Eq) out (isort Nuget.Version.cmp l)).
Proof. exact (sort_spec _ _ Nuget.VersionFacts.cmp_tp). Qed.
Print Assumptions C07_nuget.

Theorem C07_pypi : forall l : list Pypi.Version.ver,
  Permutation (isort Pypi.Version.cmp l) l /\
  Sorted (fun x y => Pypi.Version.cmp x y <> Gt) (isort Pypi.Version.cmp l) /\
  (forall l', Permutation l l' ->
     Forall2 (fun x y => Pypi.Version.cmp x y = Eq) (isort Pypi.Version.cmp l) (isort Pypi.Version.cmp l')) /\
  (forall out, Permutation out l -> Sorted (fun x y => Pypi.Version.cmp x y <> Gt) out ->
     Forall2 (fun x y => Pypi.Version.cmp x y = Eq) out (isort Pypi.Version.cmp l)).
Proof. exact (sort_spec _ _ Pypi.VersionFacts.cmp_tp). Qed.
Print Assumptions C07_pypi.

Theorem C07_rpm : forall l : list Rpm.Version.ver,
  Permutation (isort Rpm.Version.cmp l) l /\
  Sorted (fun x y => Rpm.Version.cmp x y <> Gt) (isort Rpm.Version.cmp l) /\
  (forall l', Permutation l l' ->
     Forall2 (fun x y => Rpm.Version.cmp x y = Eq) (isort Rpm.Version.cmp l) (isort Rpm.Version.cmp l')) /\
  (forall out, Permutation out l -> Sorted (fun x y => Rpm.Version.cmp x y <> Gt) out ->
     Forall2 (fun x y => Rpm.Version.cmp x y = Eq) out (isort Rpm.Version.cmp l)).
Proof. exact (sort_spec _ _ Rpm.VersionFacts.cmp_tp). Qed.
Print Assumptions C07_rpm.

Theorem C07_semver : forall l : list Semver.Version.ver,
  Permutation (isort Semver.Version.cmp l) l /\
  Sorted (fun x y => Semver.Version.cmp x y <> Gt) (isort Semver.Version.cmp l) /\
  (forall l', Permutation l l' ->
     Forall2 (fun x y => Semver.Version.cmp x y = Eq) (isort Semver.Version.cmp l) (isort Semver.Version.cmp l')) /\
  (forall out, Permutation out l -> Sorted (fun x y => Semver.Version.cmp x y <> Gt) out ->
     Forall2 (fun x y => Semver.Version.cmp x y = Eq) out (isort Semver.Version.cmp l)).
Proof. exact (sort_spec _ _ Semver.VersionFacts.cmp_tp). Qed.
Print Assumptions C07_semver.

(* alpine: every list of ACCEPTED versions *)
Theorem C07_alpine : forall l : list Alpine.Version.ver,
  Forall (fun v => exists s, Alpine.Version.parse s = Some v) l ->
  Permutation (isort Alpine.Version.cmp l) l /\
  Sorted (fun x y => Alpine.Version.cmp x y <> Gt) (isort Alpine.Version.cmp l) /\
  (forall l', Permutation l l' ->
     Forall2 (fun x y => Alpine.Version.cmp x y = Eq) (isort Alpine.Version.cmp l) (isort Alpine.Version.cmp l')) /\
  (forall out, Permutation out l -> Sorted (fun x y => Alpine.Version.cmp x y <> Gt) out ->
     Forall2 (fun x y => Alpine.Version.cmp x y = Eq) out (isort Alpine.Version.cmp l)).
Proof.
  apply sort_spec_on.
  apply (TPO_weaken _ Alpine.VersionFacts.wf_ver _ _); [|exact Alpine.VersionFacts.cmp_tp].
  intros v [s H]. exact (Alpine.VersionFacts.parse_wf s v H).
Qed.
Print Assumptions C07_alpine.

(* gentoo: every list of ACCEPTED versions *)
Theorem C07_gentoo : forall l : list Gentoo.Version.ver,
  Forall (fun v => exists s, Gentoo.Version.parse s = Some v) l ->
  Permutation (isort Gentoo.Version.cmp l) l /\
  Sorted (fun x y => Gentoo.Version.cmp x y <> Gt) (isort Gentoo.Version.cmp l) /\
  (forall l', Permutation l l' ->
     Forall2 (fun x y => Gentoo.Version.cmp x y = Eq) (isort Gentoo.Version.cmp l) (isort Gentoo.Version.cmp l')) /\
  (forall out, Permutation out l -> Sorted (fun x y => Gentoo.Version.cmp x y <> Gt) out ->
     Forall2 (fun x y => Gentoo.Version.cmp x y = Eq) out (isort Gentoo.Version.cmp l)).
Proof.
  apply sort_spec_on.
  apply (TPO_weaken _ Gentoo.VersionFacts.wf_ver _ _); [|exact Gentoo.VersionFacts.cmp_tp].
  intros v [s H]. exact (Gentoo.VersionFacts.parse_wf s v H).
Qed.
Print Assumptions C07_gentoo.

(* alpm: lists whose members agree on the presence of a pkgrel (C01's sole exclusion) *)
Theorem C07_alpm : forall (has_pkgrel : bool) (l : list Alpm.Version.ver),
  Forall (fun v => Alpm.Version.c_has_pkgrel (v_core v) = has_pkgrel) l ->
  Permutation (isort Alpm.Version.cmp l) l /\
  Sorted (fun x y => Alpm.Version.cmp x y <> Gt) (isort Alpm.Version.cmp l) /\
  (forall l', Permutation l l' ->
     Forall2 (fun x y => Alpm.Version.cmp x y = Eq) (isort Alpm.Version.cmp l) (isort Alpm.Version.cmp l')) /\
  (forall out, Permutation out l -> Sorted (fun x y => Alpm.Version.cmp x y <> Gt) out ->
     Forall2 (fun x y => Alpm.Version.cmp x y = Eq) out (isort Alpm.Version.cmp l)).
Proof. intros b. exact (sort_spec_on _ _ _ (Alpm.VersionFacts.cmp_tp b)). Qed.
Print Assumptions C07_alpm.

(* maven: on the two classes where Compare is a total preorder *)
Theorem C07_maven_no_unknown_qualifier : forall l : list Maven.Version.ver,
  Forall (fun v => Maven.VersionFacts.no_unknown (v_core v) = true) l ->
  Permutation (isort Maven.Version.cmp l) l /\
  Sorted (fun x y => Maven.Version.cmp x y <> Gt) (isort Maven.Version.cmp l) /\
  (forall l', Permutation l l' ->
     Forall2 (fun x y => Maven.Version.cmp x y = Eq) (isort Maven.Version.cmp l) (isort Maven.Version.cmp l')) /\
  (forall out, Permutation out l -> Sorted (fun x y => Maven.Version.cmp x y <> Gt) out ->
     Forall2 (fun x y => Maven.Version.cmp x y = Eq) out (isort Maven.Version.cmp l)).
Proof. exact (sort_spec_on _ _ _ Maven.VersionFacts.cmp_tpo). Qed.
Print Assumptions C07_maven_no_unknown_qualifier.

Theorem C07_maven_no_release_word_or_sp : forall l : list Maven.Version.ver,
  Forall (fun v => Maven.VersionFacts.no_release_sp (v_core v) = true) l ->
  Permutation (isort Maven.Version.cmp l) l /\
  Sorted (fun x y => Maven.Version.cmp x y <> Gt) (isort Maven.Version.cmp l) /\
  (forall l', Permutation l l' ->
     Forall2 (fun x y => Maven.Version.cmp x y = Eq) (isort Maven.Version.cmp l) (isort Maven.Version.cmp l')) /\
  (forall out, Permutation out l -> Sorted (fun x y => Maven.Version.cmp x y <> Gt) out ->
     Forall2 (fun x y => Maven.Version.cmp x y = Eq) out (isort Maven.Version.cmp l)).
Proof. exact (sort_spec_on _ _ _ Maven.VersionFacts.cmp_tpo_B). Qed.
Print Assumptions C07_maven_no_release_word_or_sp.

(* maven in general: the cycle of finding F-maven-order-cycle, a < b < c < a. *)
Theorem C07_maven_refuted :
  exists a b c va vb vc,
    a = $"1-foo" /\ b = $"1-5" /\ c = $"1-sp" /\
    Maven.Version.parse a = Some va /\ Maven.Version.parse b = Some vb /\ Maven.Version.parse c = Some vc /\
    Maven.Version.cmp va vb = Lt /\ Maven.Version.cmp vb vc = Lt /\ Maven.Version.cmp va vc = Gt.
Proof. exact Maven.VersionFacts.cmp_not_transitive. Qed.
Print Assumptions C07_maven_refuted.

(* ====================================================================== *)
(* Part C: the CLI sort command, for any library                           *)
(* ====================================================================== *)

(* success: the line is the quoted String() forms of the sorted arguments, space separated;
   the name dispatches to the ecosystem of that very name *)
Theorem C07_cli_sort_ok :
  forall (lib : bytes -> lib_ops) (vers : bytes -> bytes -> vres) (name eco : bytes) (args : list bytes),
    lookup name cli_registry = Some eco ->
    args <> [] -> Forall (fun a => l_vok (lib eco) a = true) args ->
    eco = name /\
    run cli_specs cli_registry lib vers (name :: $"sort" :: args) =
    Ok (join $" " (map (fun a => quote (l_vshow (lib eco) a)) (isort (l_vcmp (lib eco)) args))).
Proof. exact cli_sort_ok. Qed.
Print Assumptions C07_cli_sort_ok.

(* an invalid argument: Fail (exit 1, no result line) naming the FIRST invalid argument *)
Theorem C07_cli_sort_invalid :
  forall (lib : bytes -> lib_ops) (vers : bytes -> bytes -> vres) (name eco : bytes)
         (pre : list bytes) (bad : bytes) (post : list bytes),
    lookup name cli_registry = Some eco ->
    Forall (fun a => l_vok (lib eco) a = true) pre -> l_vok (lib eco) bad = false ->
    run cli_specs cli_registry lib vers (name :: $"sort" :: pre ++ bad :: post) =
    Fail ($"Error running command '" ++ $"sort" ++ $"': invalid " ++ $"version" ++ $" '" ++ bad ++ $"': ").
Proof. exact cli_sort_invalid. Qed.
Print Assumptions C07_cli_sort_invalid.

(* whenever not all arguments are valid the command fails, and the argument named is invalid *)
Theorem C07_cli_sort_some_invalid_fails :
  forall (lib : bytes -> lib_ops) (vers : bytes -> bytes -> vres) (name eco : bytes) (args : list bytes),
    lookup name cli_registry = Some eco ->
    ~ Forall (fun a => l_vok (lib eco) a = true) args ->
    exists bad, In bad args /\ l_vok (lib eco) bad = false /\
      run cli_specs cli_registry lib vers (name :: $"sort" :: args) =
      Fail ($"Error running command '" ++ $"sort" ++ $"': invalid " ++ $"version" ++ $" '" ++ bad ++ $"': ").
Proof. exact cli_sort_some_invalid_fails. Qed.
Print Assumptions C07_cli_sort_some_invalid_fails.

Theorem C07_cli_sort_no_arguments :
  forall (lib : bytes -> lib_ops) (vers : bytes -> bytes -> vres) (name eco : bytes),
    lookup name cli_registry = Some eco ->
    run cli_specs cli_registry lib vers [name; $"sort"] =
    Fail $"Error running command 'sort': sort requires at least 1 version argument".
Proof. exact cli_sort_arity. Qed.
Print Assumptions C07_cli_sort_no_arguments.

(* the whole property for the CLI *)
Theorem C07_cli_sort_correct :
  forall (lib : bytes -> lib_ops) (vers : bytes -> bytes -> vres) (name eco : bytes) (args : list bytes),
    lookup name cli_registry = Some eco ->
    args <> [] -> Forall (fun a => l_vok (lib eco) a = true) args ->
    let L := lib eco in
    let line := fun out : list bytes => join $" " (map (fun a => quote (l_vshow L a)) out) in
    let out := isort (l_vcmp L) args in
    run cli_specs cli_registry lib vers (name :: $"sort" :: args) = Ok (line out) /\
    Forall (fun c => code c <> 10) (line out) /\
    Permutation out args /\ length out = length args /\
    (TotalPreorderOn (fun a => l_vok L a = true) (l_vcmp L) ->
       Sorted (fun x y => l_vcmp L x y <> Gt) out /\
       (forall args', Permutation args args' ->
          run cli_specs cli_registry lib vers (name :: $"sort" :: args') = Ok (line (isort (l_vcmp L) args')) /\
          Forall2 (fun x y => l_vcmp L x y = Eq) out (isort (l_vcmp L) args')) /\
       (forall out', Permutation out' args -> Sorted (fun x y => l_vcmp L x y <> Gt) out' ->
          Forall2 (fun x y => l_vcmp L x y = Eq) out' out)).
Proof. exact cli_sort_correct. Qed.
Print Assumptions C07_cli_sort_correct.

(* ====================================================================== *)
(* Part D: end to end, the library being the ecosystem models              *)
(* ====================================================================== *)

(* generic: for a registered name whose model's Compare is a total preorder on accepted texts *)
Theorem C07_model_cli_sort :
  forall (name : bytes) (e : eco) (args : list bytes),
    lookup name cli_registry = Some name ->
    find_eco name ecosystems = Some e ->
    TotalPreorderOn (fun s => self_vok e s = true) (self_vcmp e) ->
    args <> [] -> Forall (fun a => self_vok e a = true) args ->
    let line := fun out : list bytes =>
      join $" " (map (fun a => quote (match v_show (e_v e) a with Some t => t | None => [] end)) out) in
    let out := isort (self_vcmp e) args in
    model_cli (name :: $"sort" :: args) = Ok (line out) /\
    Forall (fun c => code c <> 10) (line out) /\
    Permutation out args /\ length out = length args /\
    Sorted (fun x y => self_vcmp e x y <> Gt) out /\
    (forall args', Permutation args args' ->
       model_cli (name :: $"sort" :: args') = Ok (line (isort (self_vcmp e) args')) /\
       Forall2 (fun x y => self_vcmp e x y = Eq) out (isort (self_vcmp e) args')) /\
    (forall out', Permutation out' args -> Sorted (fun x y => self_vcmp e x y <> Gt) out' ->
       Forall2 (fun x y => self_vcmp e x y = Eq) out' out).
Proof.
  intros name e args Hl He T Hne Hok.
  pose proof (cli_sort_correct model_lib model_vers name name args Hl Hne) as H.
  rewrite (model_lib_of name e He) in H. cbn [l_vok l_vcmp l_vshow] in H.
  specialize (H Hok). cbv zeta in H.
  destruct H as (H1 & H2 & H3 & H4 & H5). specialize (H5 T). destruct H5 as (H5 & H6 & H7).
  unfold model_cli. repeat split; try assumption.
  - apply H6; assumption.
  - apply H6; assumption.
Qed.
Print Assumptions C07_model_cli_sort.

(* the three hypotheses of C07_model_cli_sort, per ecosystem *)

Theorem C07_texts_alpine :
  lookup $"alpine" cli_registry = Some $"alpine" /\
  find_eco $"alpine" ecosystems = Some Alpine.Entry.entry /\
  TotalPreorderOn (fun s => self_vok Alpine.Entry.entry s = true) (self_vcmp Alpine.Entry.entry).
Proof.
  split; [reflexivity|]. split; [reflexivity|].
  exact (self_tpo _ _ _ _ Alpine.VersionFacts.wf_ver Alpine.Entry.entry eq_refl Alpine.VersionFacts.parse_wf Alpine.VersionFacts.cmp_tp).
Qed.
Print Assumptions C07_texts_alpine.

Theorem C07_texts_apache :
  lookup $"apache" cli_registry = Some $"apache" /\
  find_eco $"apache" ecosystems = Some Apache.Entry.entry /\
  TotalPreorderOn (fun s => self_vok Apache.Entry.entry s = true) (self_vcmp Apache.Entry.entry).
Proof.
  split; [reflexivity|]. split; [reflexivity|].
  exact (self_tp _ _ _ _ Apache.Entry.entry eq_refl Apache.VersionFacts.cmp_tp).
Qed.
Print Assumptions C07_texts_apache.

Theorem C07_texts_cargo :
  lookup $"cargo" cli_registry = Some $"cargo" /\
  find_eco $"cargo" ecosystems = Some Cargo.Entry.entry /\
  TotalPreorderOn (fun s => self_vok Cargo.Entry.entry s = true) (self_vcmp Cargo.Entry.entry).
Proof.
  split; [reflexivity|]. split; [reflexivity|].
  exact (self_tp _ _ _ _ Cargo.Entry.entry eq_refl Cargo.VersionFacts.cmp_tp).
Qed.
Print Assumptions C07_texts_cargo.

Theorem C07_texts_composer :
  lookup $"composer" cli_registry = Some $"composer" /\
  find_eco $"composer" ecosystems = Some Composer.Entry.entry /\
  TotalPreorderOn (fun s => self_vok Composer.Entry.entry s = true) (self_vcmp Composer.Entry.entry).
Proof.
  split; [reflexivity|]. split; [reflexivity|].
  exact (self_tp _ _ _ _ Composer.Entry.entry eq_refl Composer.VersionFacts.cmp_tp).
Qed.
Print Assumptions C07_texts_composer.

Theorem C07_texts_conan :
  lookup $"conan" cli_registry = Some $"conan" /\
  find_eco $"conan" ecosystems = Some Conan.Entry.entry /\
  TotalPreorderOn (fun s => self_vok Conan.Entry.entry s = true) (self_vcmp Conan.Entry.entry).
Proof.
  split; [reflexivity|]. split; [reflexivity|].
  exact (self_tp _ _ _ _ Conan.Entry.entry eq_refl Conan.VersionFacts.cmp_tp).
Qed.
Print Assumptions C07_texts_conan.

Theorem C07_texts_cran :
  lookup $"cran" cli_registry = Some $"cran" /\
  find_eco $"cran" ecosystems = Some Cran.Entry.entry /\
  TotalPreorderOn (fun s => self_vok Cran.Entry.entry s = true) (self_vcmp Cran.Entry.entry).
Proof.
  split; [reflexivity|]. split; [reflexivity|].
  exact (self_tp _ _ _ _ Cran.Entry.entry eq_refl Cran.VersionFacts.cmp_tp).
Qed.
Print Assumptions C07_texts_cran.

Theorem C07_texts_debian :
  lookup $"debian" cli_registry = Some $"debian" /\
  find_eco $"debian" ecosystems = Some Debian.Entry.entry /\
  TotalPreorderOn (fun s => self_vok Debian.Entry.entry s = true) (self_vcmp Debian.Entry.entry).
Proof.
  split; [reflexivity|]. split; [reflexivity|].
  exact (self_tp _ _ _ _ Debian.Entry.entry eq_refl Debian.VersionFacts.cmp_tp).
Qed.
Print Assumptions C07_texts_debian.

Theorem C07_texts_gem :
  lookup $"gem" cli_registry = Some $"gem" /\
  find_eco $"gem" ecosystems = Some Gem.Entry.entry /\
  TotalPreorderOn (fun s => self_vok Gem.Entry.entry s = true) (self_vcmp Gem.Entry.entry).
Proof.
  split; [reflexivity|]. split; [reflexivity|].
  exact (self_tp _ _ _ _ Gem.Entry.entry eq_refl Gem.VersionFacts.cmp_tp).
Qed.
Print Assumptions C07_texts_gem.

Theorem C07_texts_gentoo :
  lookup $"gentoo" cli_registry = Some $"gentoo" /\
  find_eco $"gentoo" ecosystems = Some Gentoo.Entry.entry /\
  TotalPreorderOn (fun s => self_vok Gentoo.Entry.entry s = true) (self_vcmp Gentoo.Entry.entry).
Proof.
  split; [reflexivity|]. split; [reflexivity|].
  exact (self_tpo _ _ _ _ Gentoo.VersionFacts.wf_ver Gentoo.Entry.entry eq_refl Gentoo.VersionFacts.parse_wf Gentoo.VersionFacts.cmp_tp).
Qed.
Print Assumptions C07_texts_gentoo.

Theorem C07_texts_github :
  lookup $"github" cli_registry = Some $"github" /\
  find_eco $"github" ecosystems = Some Github.Entry.entry /\
  TotalPreorderOn (fun s => self_vok Github.Entry.entry s = true) (self_vcmp Github.Entry.entry).
Proof.
  split; [reflexivity|]. split; [reflexivity|].
  exact (self_tp _ _ _ _ Github.Entry.entry eq_refl Github.VersionFacts.cmp_tp).
Qed.
Print Assumptions C07_texts_github.

Theorem C07_texts_golang :
  lookup $"golang" cli_registry = Some $"golang" /\
  find_eco $"golang" ecosystems = Some Golang.Entry.entry /\
  TotalPreorderOn (fun s => self_vok Golang.Entry.entry s = true) (self_vcmp Golang.Entry.entry).
Proof.
  split; [reflexivity|]. split; [reflexivity|].
  exact (self_tp _ _ _ _ Golang.Entry.entry eq_refl Golang.VersionFacts.cmp_tp).
Qed.
Print Assumptions C07_texts_golang.

Theorem C07_texts_hex :
  lookup $"hex" cli_registry = Some $"hex" /\
  find_eco $"hex" ecosystems = Some Hex.Entry.entry /\
  TotalPreorderOn (fun s => self_vok Hex.Entry.entry s = true) (self_vcmp Hex.Entry.entry).
Proof.
  split; [reflexivity|]. split; [reflexivity|].
  exact (self_tp _ _ _ _ Hex.Entry.entry eq_refl Hex.VersionFacts.cmp_tp).
Qed.
Print Assumptions C07_texts_hex.

Theorem C07_texts_mattermost :
  lookup $"mattermost" cli_registry = Some $"mattermost" /\
  find_eco $"mattermost" ecosystems = Some Mattermost.Entry.entry /\
  TotalPreorderOn (fun s => self_vok Mattermost.Entry.entry s = true) (self_vcmp Mattermost.Entry.entry).
Proof.
  split; [reflexivity|]. split; [reflexivity|].
  exact (self_tp _ _ _ _ Mattermost.Entry.entry eq_refl Mattermost.VersionFacts.cmp_tp).
Qed.
Print Assumptions C07_texts_mattermost.

Theorem C07_texts_npm :
  lookup $"npm" cli_registry = Some $"npm" /\
  find_eco $"npm" ecosystems = Some Npm.Entry.entry /\
  TotalPreorderOn (fun s => self_vok Npm.Entry.entry s = true) (self_vcmp Npm.Entry.entry).
Proof.
  split; [reflexivity|]. split; [reflexivity|].
  exact (self_tp _ _ _ _ Npm.Entry.entry eq_refl Npm.VersionFacts.cmp_tp).
Qed.
Print Assumptions C07_texts_npm.

Theorem C07_texts_nuget :
  lookup $"nuget" cli_registry = Some $"nuget" /\
  find_eco $"nuget" ecosystems = Some Nuget.Entry.entry /\
  TotalPreorderOn (fun s => self_vok Nuget.Entry.entry s = true) (self_vcmp Nuget.Entry.entry).
Proof.
  split; [reflexivity|]. split; [reflexivity|].
  exact (self_tp _ _ _ _ Nuget.Entry.entry eq_refl Nuget.VersionFacts.cmp_tp).
Qed.
Print Assumptions C07_texts_nuget.

Theorem C07_texts_pypi :
  lookup $"pypi" cli_registry = Some $"pypi" /\
  find_eco $"pypi" ecosystems = Some Pypi.Entry.entry /\
  TotalPreorderOn (fun s => self_vok Pypi.Entry.entry s = true) (self_vcmp Pypi.Entry.entry).
Proof.
  split; [reflexivity|]. split; [reflexivity|].
  exact (self_tp _ _ _ _ Pypi.Entry.entry eq_refl Pypi.VersionFacts.cmp_tp).
Qed.
Print Assumptions C07_texts_pypi.

Theorem C07_texts_rpm :
  lookup $"rpm" cli_registry = Some $"rpm" /\
  find_eco $"rpm" ecosystems = Some Rpm.Entry.entry /\
  TotalPreorderOn (fun s => self_vok Rpm.Entry.entry s = true) (self_vcmp Rpm.Entry.entry).
Proof.
  split; [reflexivity|]. split; [reflexivity|].
  exact (self_tp _ _ _ _ Rpm.Entry.entry eq_refl Rpm.VersionFacts.cmp_tp).
Qed.
Print Assumptions C07_texts_rpm.

Theorem C07_texts_semver :
  lookup $"semver" cli_registry = Some $"semver" /\
  find_eco $"semver" ecosystems = Some Semver.Entry.entry /\
  TotalPreorderOn (fun s => self_vok Semver.Entry.entry s = true) (self_vcmp Semver.Entry.entry).
Proof.
  split; [reflexivity|]. split; [reflexivity|].
  exact (self_tp _ _ _ _ Semver.Entry.entry eq_refl Semver.VersionFacts.cmp_tp).
Qed.
Print Assumptions C07_texts_semver.

(* alpm and maven are registered and modelled as well; their Compare is not a total preorder on
   all accepted texts (C01), so only Part C's unconditional half applies to them *)
Theorem C07_texts_alpm_maven_registered :
  lookup $"alpm" cli_registry = Some $"alpm" /\ find_eco $"alpm" ecosystems = Some Alpm.Entry.entry /\
  lookup $"maven" cli_registry = Some $"maven" /\ find_eco $"maven" ecosystems = Some Maven.Entry.entry.
Proof. repeat split; reflexivity. Qed.
Print Assumptions C07_texts_alpm_maven_registered.

(* the complete statement, instantiated *)

Theorem C07_model_cli_sort_semver :
  forall args : list bytes,
    args <> [] -> Forall (fun a => self_vok Semver.Entry.entry a = true) args ->
    let line := fun out : list bytes =>
      join $" " (map (fun a => quote (match v_show Semver.Entry.v a with Some t => t | None => [] end)) out) in
    let out := isort (self_vcmp Semver.Entry.entry) args in
    model_cli ($"semver" :: $"sort" :: args) = Ok (line out) /\
    Forall (fun c => code c <> 10) (line out) /\
    Permutation out args /\ length out = length args /\
    Sorted (fun x y => self_vcmp Semver.Entry.entry x y <> Gt) out /\
    (forall args', Permutation args args' ->
       model_cli ($"semver" :: $"sort" :: args') = Ok (line (isort (self_vcmp Semver.Entry.entry) args')) /\
       Forall2 (fun x y => self_vcmp Semver.Entry.entry x y = Eq) out (isort (self_vcmp Semver.Entry.entry) args')) /\
    (forall out', Permutation out' args -> Sorted (fun x y => self_vcmp Semver.Entry.entry x y <> Gt) out' ->
       Forall2 (fun x y => self_vcmp Semver.Entry.entry x y = Eq) out' out).
Proof.
  destruct C07_texts_semver as (Hl & He & T).
  intros args. exact (C07_model_cli_sort $"semver" Semver.Entry.entry args Hl He T).
Qed.
Print Assumptions C07_model_cli_sort_semver.

Theorem C07_model_cli_sort_debian :
  forall args : list bytes,
    args <> [] -> Forall (fun a => self_vok Debian.Entry.entry a = true) args ->
    let line := fun out : list bytes =>
      join $" " (map (fun a => quote (match v_show Debian.Entry.v a with Some t => t | None => [] end)) out) in
    let out := isort (self_vcmp Debian.Entry.entry) args in
    model_cli ($"debian" :: $"sort" :: args) = Ok (line out) /\
    Forall (fun c => code c <> 10) (line out) /\
    Permutation out args /\ length out = length args /\
    Sorted (fun x y => self_vcmp Debian.Entry.entry x y <> Gt) out /\
    (forall args', Permutation args args' ->
       model_cli ($"debian" :: $"sort" :: args') = Ok (line (isort (self_vcmp Debian.Entry.entry) args')) /\
       Forall2 (fun x y => self_vcmp Debian.Entry.entry x y = Eq) out (isort (self_vcmp Debian.Entry.entry) args')) /\
    (forall out', Permutation out' args -> Sorted (fun x y => self_vcmp Debian.Entry.entry x y <> Gt) out' ->
       Forall2 (fun x y => self_vcmp Debian.Entry.entry x y = Eq) out' out).
Proof.
  destruct C07_texts_debian as (Hl & He & T).
  intros args. exact (C07_model_cli_sort $"debian" Debian.Entry.entry args Hl He T).
Qed.
Print Assumptions C07_model_cli_sort_debian.

Theorem C07_model_cli_sort_pypi :
  forall args : list bytes,
    args <> [] -> Forall (fun a => self_vok Pypi.Entry.entry a = true) args ->
    let line := fun out : list bytes =>
      join $" " (map (fun a => quote (match v_show Pypi.Entry.v a with Some t => t | None => [] end)) out) in
    let out := isort (self_vcmp Pypi.Entry.entry) args in
    model_cli ($"pypi" :: $"sort" :: args) = Ok (line out) /\
    Forall (fun c => code c <> 10) (line out) /\
    Permutation out args /\ length out = length args /\
    Sorted (fun x y => self_vcmp Pypi.Entry.entry x y <> Gt) out /\
    (forall args', Permutation args args' ->
       model_cli ($"pypi" :: $"sort" :: args') = Ok (line (isort (self_vcmp Pypi.Entry.entry) args')) /\
       Forall2 (fun x y => self_vcmp Pypi.Entry.entry x y = Eq) out (isort (self_vcmp Pypi.Entry.entry) args')) /\
    (forall out', Permutation out' args -> Sorted (fun x y => self_vcmp Pypi.Entry.entry x y <> Gt) out' ->
       Forall2 (fun x y => self_vcmp Pypi.Entry.entry x y = Eq) out' out).
Proof.
  destruct C07_texts_pypi as (Hl & He & T).
  intros args. exact (C07_model_cli_sort $"pypi" Pypi.Entry.entry args Hl He T).
Qed.
Print Assumptions C07_model_cli_sort_pypi.

Theorem C07_model_cli_sort_alpine :
  forall args : list bytes,
    args <> [] -> Forall (fun a => self_vok Alpine.Entry.entry a = true) args ->
    let line := fun out : list bytes =>
      join $" " (map (fun a => quote (match v_show Alpine.Entry.v a with Some t => t | None => [] end)) out) in
    let out := isort (self_vcmp Alpine.Entry.entry) args in
    model_cli ($"alpine" :: $"sort" :: args) = Ok (line out) /\
    Forall (fun c => code c <> 10) (line out) /\
    Permutation out args /\ length out = length args /\
    Sorted (fun x y => self_vcmp Alpine.Entry.entry x y <> Gt) out /\
    (forall args', Permutation args args' ->
       model_cli ($"alpine" :: $"sort" :: args') = Ok (line (isort (self_vcmp Alpine.Entry.entry) args')) /\
       Forall2 (fun x y => self_vcmp Alpine.Entry.entry x y = Eq) out (isort (self_vcmp Alpine.Entry.entry) args')) /\
    (forall out', Permutation out' args -> Sorted (fun x y => self_vcmp Alpine.Entry.entry x y <> Gt) out' ->
       Forall2 (fun x y => self_vcmp Alpine.Entry.entry x y = Eq) out' out).
Proof.
  destruct C07_texts_alpine as (Hl & He & T).
  intros args. exact (C07_model_cli_sort $"alpine" Alpine.Entry.entry args Hl He T).
Qed.
Print Assumptions C07_model_cli_sort_alpine.

(* an invalid argument, end to end *)
Theorem C07_model_cli_sort_invalid :
  forall (name : bytes) (e : eco) (pre : list bytes) (bad : bytes) (post : list bytes),
    lookup name cli_registry = Some name ->
    find_eco name ecosystems = Some e ->
    Forall (fun a => self_vok e a = true) pre -> self_vok e bad = false ->
    model_cli (name :: $"sort" :: pre ++ bad :: post) =
    Fail ($"Error running command '" ++ $"sort" ++ $"': invalid " ++ $"version" ++ $" '" ++ bad ++ $"': ").
Proof.
  intros name e pre bad post Hl He Hp Hb.
  pose proof (cli_sort_invalid model_lib model_vers name name pre bad post Hl) as H.
  rewrite (model_lib_of name e He) in H. exact (H Hp Hb).
Qed.
Print Assumptions C07_model_cli_sort_invalid.

(* ====== ties to the source: BEGIN (written by bin/mkties) ====== *)
(* The Go functions named here are translated into Gallina from /repo's source on every run
   (tools/gen -> Gen/Code/<Eco>.v for loop-free functions, Gen/Loops/<Eco>.v for functions with
   loops and index expressions, where a panic is Panic and a loop takes fuel); Tie/<Eco>.v,
   Tie/<Eco>Range.v and Tie/Loops/<Eco>.v prove each translation equal to the model the theorems
   above speak about (and, for the loop functions: no panic, termination within a linear bound).
   If the code changes so that a tie no longer holds, this file no longer checks. *)
Require Verif.Tie.Alpine.
Require Verif.Tie.Alpm.
Require Verif.Tie.Apache.
Require Verif.Tie.Cargo.
Require Verif.Tie.Composer.
Require Verif.Tie.Conan.
Require Verif.Tie.Cran.
Require Verif.Tie.Debian.
Require Verif.Tie.Gem.
Require Verif.Tie.Gentoo.
Require Verif.Tie.Github.
Require Verif.Tie.Golang.
Require Verif.Tie.Hex.
Require Verif.Tie.Mattermost.
Require Verif.Tie.Npm.
Require Verif.Tie.Nuget.
Require Verif.Tie.Pypi.
Require Verif.Tie.Rpm.
Require Verif.Tie.Semver.
Require Verif.Tie.Cli.Spec.
Require Verif.Tie.Cli.Ties.
Definition C07_tie_alpine_compareInt := @Verif.Tie.Alpine.tie_alpine_compareInt.
Definition C07_tie_alpine_Version_String := @Verif.Tie.Alpine.tie_alpine_Version_String.
Definition C07_tie_alpine_compareLetters := @Verif.Tie.Alpine.tie_alpine_compareLetters.
Definition C07_tie_alpm_string := @Verif.Tie.Alpm.tie_alpm_string.
Definition C07_tie_alpm_compare := @Verif.Tie.Alpm.tie_alpm_compare.
Definition C07_tie_apache_compareInt := @Verif.Tie.Apache.tie_apache_compareInt.
Definition C07_tie_apache_getQualifierPrecedence := @Verif.Tie.Apache.tie_apache_getQualifierPrecedence.
Definition C07_tie_apache_compare := @Verif.Tie.Apache.tie_apache_compare.
Definition C07_tie_apache_string := @Verif.Tie.Apache.tie_apache_string.
Definition C07_tie_cargo_compareInt := @Verif.Tie.Cargo.tie_cargo_compareInt.
Definition C07_tie_cargo_string := @Verif.Tie.Cargo.tie_cargo_string.
Definition C07_tie_cargo_compare := @Verif.Tie.Cargo.tie_cargo_compare.
Definition C07_tie_composer_compareInt := @Verif.Tie.Composer.tie_composer_compareInt.
Definition C07_tie_composer_compare := @Verif.Tie.Composer.tie_composer_compare.
Definition C07_tie_composer_string := @Verif.Tie.Composer.tie_composer_string.
Definition C07_tie_conan_compareInt := @Verif.Tie.Conan.tie_conan_compareInt.
Definition C07_tie_conan_Version_String := @Verif.Tie.Conan.tie_conan_Version_String.
Definition C07_tie_conan_Version_Compare := @Verif.Tie.Conan.tie_conan_Version_Compare.
Definition C07_tie_cran_compareInt := @Verif.Tie.Cran.tie_cran_compareInt.
Definition C07_tie_cran_string := @Verif.Tie.Cran.tie_cran_string.
Definition C07_tie_debian_string := @Verif.Tie.Debian.tie_debian_string.
Definition C07_tie_debian_compare := @Verif.Tie.Debian.tie_debian_compare.
Definition C07_tie_gem_compareInt := @Verif.Tie.Gem.tie_gem_compareInt.
Definition C07_tie_gem_Version_String := @Verif.Tie.Gem.tie_gem_Version_String.
Definition C07_tie_gem_compareSegments := @Verif.Tie.Gem.tie_gem_compareSegments.
Definition C07_tie_gentoo_compareInt := @Verif.Tie.Gentoo.tie_gentoo_compareInt.
Definition C07_tie_gentoo_string := @Verif.Tie.Gentoo.tie_gentoo_string.
Definition C07_tie_github_compareInt := @Verif.Tie.Github.tie_github_compareInt.
Definition C07_tie_github_getQualifierPrecedence := @Verif.Tie.Github.tie_github_getQualifierPrecedence.
Definition C07_tie_github_compareQualifiers := @Verif.Tie.Github.tie_github_compareQualifiers.
Definition C07_tie_github_compare := @Verif.Tie.Github.tie_github_compare.
Definition C07_tie_github_string := @Verif.Tie.Github.tie_github_string.
Definition C07_tie_golang_compareInt := @Verif.Tie.Golang.tie_golang_compareInt.
Definition C07_tie_golang_Version_String := @Verif.Tie.Golang.tie_golang_Version_String.
Definition C07_tie_golang_Version_Compare := @Verif.Tie.Golang.tie_golang_Version_Compare.
Definition C07_tie_hex_compareInt := @Verif.Tie.Hex.tie_hex_compareInt.
Definition C07_tie_hex_string := @Verif.Tie.Hex.tie_hex_string.
Definition C07_tie_hex_compare := @Verif.Tie.Hex.tie_hex_compare.
Definition C07_tie_mattermost_compareInt := @Verif.Tie.Mattermost.tie_mattermost_compareInt.
Definition C07_tie_mattermost_getQualifierPrecedence := @Verif.Tie.Mattermost.tie_mattermost_getQualifierPrecedence.
Definition C07_tie_mattermost_compare := @Verif.Tie.Mattermost.tie_mattermost_compare.
Definition C07_tie_mattermost_string := @Verif.Tie.Mattermost.tie_mattermost_string.
Definition C07_tie_npm_compareInt := @Verif.Tie.Npm.tie_npm_compareInt.
Definition C07_tie_npm_string := @Verif.Tie.Npm.tie_npm_string.
Definition C07_tie_npm_compare := @Verif.Tie.Npm.tie_npm_compare.
Definition C07_tie_nuget_compareInt := @Verif.Tie.Nuget.tie_nuget_compareInt.
Definition C07_tie_nuget_string := @Verif.Tie.Nuget.tie_nuget_string.
Definition C07_tie_nuget_compare := @Verif.Tie.Nuget.tie_nuget_compare.
Definition C07_tie_pypi_compareInt := @Verif.Tie.Pypi.tie_pypi_compareInt.
Definition C07_tie_pypi_Version_String := @Verif.Tie.Pypi.tie_pypi_Version_String.
Definition C07_tie_pypi_normalizePrereleaseType := @Verif.Tie.Pypi.tie_pypi_normalizePrereleaseType.
Definition C07_tie_pypi_comparePrereleases := @Verif.Tie.Pypi.tie_pypi_comparePrereleases.
Definition C07_tie_pypi_comparePostReleases := @Verif.Tie.Pypi.tie_pypi_comparePostReleases.
Definition C07_tie_pypi_compareDevReleases := @Verif.Tie.Pypi.tie_pypi_compareDevReleases.
Definition C07_tie_pypi_Version_Compare := @Verif.Tie.Pypi.tie_pypi_Version_Compare.
Definition C07_tie_rpm_string := @Verif.Tie.Rpm.tie_rpm_string.
Definition C07_tie_rpm_compare := @Verif.Tie.Rpm.tie_rpm_compare.
Definition C07_tie_semver_compareInt := @Verif.Tie.Semver.tie_semver_compareInt.
Definition C07_tie_semver_string := @Verif.Tie.Semver.tie_semver_string.
Definition C07_tie_semver_compare := @Verif.Tie.Semver.tie_semver_compare.
Definition C07_tie_sort_eq := @Verif.Tie.Cli.Spec.sort_eq.
Definition C07_tie_sort_no_panic := @Verif.Tie.Cli.Spec.sort_no_panic.
Definition C07_tie_sort_tie_none := @Verif.Tie.Cli.Ties.sort_tie_none.
Definition C07_tie_sort_tie_upto := @Verif.Tie.Cli.Ties.sort_tie_upto.
Definition C07_tie_sort_tie := @Verif.Tie.Cli.Ties.sort_tie.
Definition C07_tie_sort_generated_tie := @Verif.Tie.Cli.Ties.sort_generated_tie.
Definition C07_ties_all := (C07_tie_alpine_Version_String, (C07_tie_alpine_compareInt, (C07_tie_alpine_compareLetters, (C07_tie_alpm_compare, (C07_tie_alpm_string, (C07_tie_apache_compare, (C07_tie_apache_compareInt, (C07_tie_apache_getQualifierPrecedence, (C07_tie_apache_string, (C07_tie_cargo_compare, (C07_tie_cargo_compareInt, (C07_tie_cargo_string, (C07_tie_composer_compare, (C07_tie_composer_compareInt, (C07_tie_composer_string, (C07_tie_conan_Version_Compare, (C07_tie_conan_Version_String, (C07_tie_conan_compareInt, (C07_tie_cran_compareInt, (C07_tie_cran_string, (C07_tie_debian_compare, (C07_tie_debian_string, (C07_tie_gem_Version_String, (C07_tie_gem_compareInt, (C07_tie_gem_compareSegments, (C07_tie_gentoo_compareInt, (C07_tie_gentoo_string, (C07_tie_github_compare, (C07_tie_github_compareInt, (C07_tie_github_compareQualifiers, (C07_tie_github_getQualifierPrecedence, (C07_tie_github_string, (C07_tie_golang_Version_Compare, (C07_tie_golang_Version_String, (C07_tie_golang_compareInt, (C07_tie_hex_compare, (C07_tie_hex_compareInt, (C07_tie_hex_string, (C07_tie_mattermost_compare, (C07_tie_mattermost_compareInt, (C07_tie_mattermost_getQualifierPrecedence, (C07_tie_mattermost_string, (C07_tie_npm_compare, (C07_tie_npm_compareInt, (C07_tie_npm_string, (C07_tie_nuget_compare, (C07_tie_nuget_compareInt, (C07_tie_nuget_string, (C07_tie_pypi_Version_Compare, (C07_tie_pypi_Version_String, (C07_tie_pypi_compareDevReleases, (C07_tie_pypi_compareInt, (C07_tie_pypi_comparePostReleases, (C07_tie_pypi_comparePrereleases, (C07_tie_pypi_normalizePrereleaseType, (C07_tie_rpm_compare, (C07_tie_rpm_string, (C07_tie_semver_compare, (C07_tie_semver_compareInt, (C07_tie_semver_string, (C07_tie_sort_eq, (C07_tie_sort_generated_tie, (C07_tie_sort_no_panic, (C07_tie_sort_tie, (C07_tie_sort_tie_none, C07_tie_sort_tie_upto))))))))))))))))))))))))))))))))))))))))))))))))))))))))))))))))).
Print Assumptions C07_ties_all.
(* ====== ties to the source: END ====== *)
