(* C08 — SemVer-family ecosystems implement SemVer 2.0.0 precedence.
   Statements only; the proofs live in Eco/{Semver,Npm,Hex,Nuget,Golang,Cargo}/SpecFacts.v and
   Spec/SemVerFacts.v.

   The reference is Spec/SemVer.v, written from the SemVer 2.0.0 text independently of the Go
   code: a version denotes a value [sv] = (numeric components, pre-release identifiers), build
   metadata being dropped by the denotation; [prec] is section 11 precedence; [parse_strict]
   is the BNF (three components, no leading zeros, no empty identifiers).  Each ecosystem
   reads a text through its own denotation ([den_npm]: optional "v"/"=" prefixes, leading zeros
   allowed; [den_hex]: also "D.D"; [den_nuget]: 1-4 components, optional "v"; [den_golang]:
   optional "v", a pseudo-version denoting its literal SemVer spelling) and
   [spec_cmp_with den a b] is the reference answer for two texts.  The check cross-validates
   this reference against node-semver and golang.org/x/mod/semver.

   For each ecosystem the two theorems are, for texts the reference accepts ([sp_valid]):
     <eco>_accepts : NewVersion accepts the text;
     <eco>_cmp     : Compare returns exactly the reference answer;
   both on the scope [in_scope] = every number the REFERENCE reads in the text (numeric
   components and all-digit pre-release identifiers) is below 2^63 — the Go code parses numbers
   into an int64.  Outside that scope the Go code deviates; the deviations are stated as
   *_refuted witnesses (Part F), so the scope is exactly as large as it can be.

   A  the reference order: laws and the clauses of section 11 in readable form
   B  semver (strict): accepts exactly the BNF; Compare is section 11
   C  npm      D  hex      E  nuget      F  golang, with pseudo-versions
   G  witnesses outside the scope
   H  cargo ([den_cargo] = exactly three components, leading zeros allowed, no prefix; its scope
      predicate is stated on the TEXT: every dot-separated part of the numeric core, and every
      all-digit part of the pre-release, has a value below 2^63), with its witnesses *)
From Coq Require Import List NArith.
From Verif.Base Require Import Bytes GoNum Ord.
From Verif.Eco Require Import VLayer Iface.
From Verif.Spec Require SemVer SemVerFacts All.
From Verif.Eco.Semver Require Version SpecFacts.
From Verif.Eco.Npm Require Entry SpecFacts.
From Verif.Eco.Hex Require Entry SpecFacts.
From Verif.Eco.Nuget Require Entry SpecFacts.
From Verif.Eco.Golang Require Entry SpecFacts.
From Verif.Eco.Cargo Require Entry SpecFacts.
From Verif.Eco Require RangeCoreFacts.
Import ListNotations.

(* ====================================================================== *)
(* A. the reference order                                                  *)
(* ====================================================================== *)

Theorem C08_reference_is_total_preorder : TotalPreorder SemVer.prec.
Proof. exact SemVerFacts.TP_prec. Qed.
Print Assumptions C08_reference_is_total_preorder.

(* numeric components decide first; on equal components the pre-release lists decide *)
Theorem C08_reference_components_first : forall a b : SemVer.sv,
  (SemVer.nums_cmp (SemVer.nums a) (SemVer.nums b) <> Eq ->
   SemVer.prec a b = SemVer.nums_cmp (SemVer.nums a) (SemVer.nums b)) /\
  (SemVer.nums_cmp (SemVer.nums a) (SemVer.nums b) = Eq ->
   SemVer.prec a b = SemVer.pre_cmp (SemVer.pre a) (SemVer.pre b)).
Proof. intros a b. split; [apply SemVerFacts.prec_nums | apply SemVerFacts.prec_same_nums]. Qed.
Print Assumptions C08_reference_components_first.

(* a pre-release is lower than its release *)
Theorem C08_reference_prerelease_below_release : forall (ns : list N) (p : list SemVer.ident),
  p <> [] ->
  SemVer.prec {| SemVer.nums := ns; SemVer.pre := p |} {| SemVer.nums := ns; SemVer.pre := [] |} = Lt.
Proof. exact SemVerFacts.prec_prerelease_lt. Qed.
Print Assumptions C08_reference_prerelease_below_release.

(* identifiers: all-digit ones as integers and below alphanumeric ones; alphanumeric ones in
   ASCII order; left to right; a longer list wins on an equal prefix *)
Theorem C08_reference_identifiers :
  (forall n m : N, SemVer.ident_cmp (SemVer.INum n) (SemVer.INum m) = (n ?= m)%N) /\
  (forall s t : bytes, SemVer.ident_cmp (SemVer.IAlnum s) (SemVer.IAlnum t) = bytes_cmp s t) /\
  (forall (n : N) (s : bytes), SemVer.ident_cmp (SemVer.INum n) (SemVer.IAlnum s) = Lt) /\
  (forall (x : SemVer.ident) (p : list SemVer.ident) (y : SemVer.ident) (q : list SemVer.ident),
     SemVer.pre_cmp (x :: p) (y :: q) = thenc (SemVer.ident_cmp x y) (lex_short SemVer.ident_cmp p q)) /\
  (forall p q : list SemVer.ident, p <> [] -> q <> [] -> SemVer.pre_cmp p (p ++ q) = Lt).
Proof.
  split; [exact SemVerFacts.ident_cmp_num|]. split; [exact SemVerFacts.ident_cmp_alnum|].
  split; [exact SemVerFacts.ident_cmp_num_alnum|]. split; [exact SemVerFacts.pre_cmp_cons|].
  exact SemVerFacts.pre_cmp_longer.
Qed.
Print Assumptions C08_reference_identifiers.

(* two strictly valid texts have equal precedence iff they denote the same value: they differ in
   build metadata only *)
Theorem C08_reference_equal_iff_same_value : forall (a b : bytes) (va vb : SemVer.sv),
  SemVer.parse_strict a = Some va -> SemVer.parse_strict b = Some vb ->
  (SemVer.spec_cmp a b = Some Eq <-> va = vb).
Proof. exact SemVerFacts.spec_cmp_eq_iff. Qed.
Print Assumptions C08_reference_equal_iff_same_value.

(* ====================================================================== *)
(* B. semver: the strict grammar, and section 11                           *)
(* ====================================================================== *)

(* NewVersion (on the trimmed text t) accepts exactly the SemVer 2.0.0 BNF with major, minor
   and patch below 2^63: leading zeros, empty identifiers and missing components are rejected
   because [parse_strict] rejects them *)
Theorem C08_semver_accepts_exactly_the_bnf : forall t : bytes,
  (exists c, Semver.Version.parse_core t = Some c) <->
  (exists v, SemVer.parse_strict t = Some v /\ Forall (fun n => (n < two63)%N) (SemVer.nums v)).
Proof. exact Semver.SpecFacts.accept_iff. Qed.
Print Assumptions C08_semver_accepts_exactly_the_bnf.

Theorem C08_semver_accepted_is_valid : forall (t : bytes) (c : Semver.Version.core),
  Semver.Version.parse_core t = Some c -> SemVer.spec_valid t = true.
Proof. exact Semver.SpecFacts.accept_valid. Qed.
Print Assumptions C08_semver_accepted_is_valid.

(* Compare is section 11 on accepted texts whose all-digit pre-release identifiers are below
   2^63 ([pre_small]: every dot-separated part of the pre-release is not all-digit or has a
   value below 2^63) *)
Theorem C08_semver_cmp_is_spec : forall (a b : bytes) (ca cb : Semver.Version.core),
  Semver.Version.parse_core a = Some ca -> Semver.Version.parse_core b = Some cb ->
  Semver.SpecFacts.pre_small ca = true -> Semver.SpecFacts.pre_small cb = true ->
  SemVer.spec_cmp a b = Some (Semver.Version.cmp_core ca cb).
Proof. exact Semver.SpecFacts.cmp_spec. Qed.
Print Assumptions C08_semver_cmp_is_spec.

(* in particular for identifiers of at most 18 digits (the property's quantifier), at the level
   of NewVersion / Compare on untrimmed input *)
Theorem C08_semver_cmp_is_spec_18_digits : forall (s1 s2 : bytes) (v1 v2 : Semver.Version.ver),
  Semver.Version.parse s1 = Some v1 -> Semver.Version.parse s2 = Some v2 ->
  Semver.SpecFacts.pre_short (v_core v1) = true -> Semver.SpecFacts.pre_short (v_core v2) = true ->
  SemVer.spec_cmp (trim_space s1) (trim_space s2) = Some (Semver.Version.cmp v1 v2).
Proof. exact Semver.SpecFacts.cmp_spec_strings. Qed.
Print Assumptions C08_semver_cmp_is_spec_18_digits.

(* ====================================================================== *)
(* C. npm                                                                  *)
(* ====================================================================== *)

Theorem C08_npm_cmp_is_spec : forall a b : bytes,
  Npm.SpecFacts.in_scope a = true -> Npm.SpecFacts.in_scope b = true ->
  Npm.SpecFacts.sp_valid a = true -> Npm.SpecFacts.sp_valid b = true ->
  v_cmp Npm.Entry.v a b = SemVer.spec_cmp_with SemVer.den_npm a b.
Proof. exact Npm.SpecFacts.npm_cmp_is_spec. Qed.
Print Assumptions C08_npm_cmp_is_spec.

Theorem C08_npm_accepts_spec_valid : forall s : bytes,
  Npm.SpecFacts.in_scope s = true -> Npm.SpecFacts.sp_valid s = true ->
  exists t, v_show Npm.Entry.v s = Some t.
Proof. exact Npm.SpecFacts.npm_accepts_spec_valid. Qed.
Print Assumptions C08_npm_accepts_spec_valid.

(* the scope and validity predicates, spelled out *)
Theorem C08_npm_scope_def : forall s : bytes,
  Npm.SpecFacts.sp_valid s = SemVer.isSome (SemVer.den_npm s) /\
  Npm.SpecFacts.in_scope s =
    match SemVer.den_npm s with
    | Some v => forallb (fun n => (n <? two63)%N) (SemVer.nums v) &&
                forallb (fun i => match i with SemVer.INum n => (n <? two63)%N | SemVer.IAlnum _ => true end)
                        (SemVer.pre v)
    | None => true
    end.
Proof. intros s. split; reflexivity. Qed.
Print Assumptions C08_npm_scope_def.

(* the reference does not trim, so a valid text has no surrounding white space *)
Theorem C08_npm_valid_no_space : forall (s : bytes) (v : SemVer.sv),
  SemVer.den_npm s = Some v -> trim_space s = s.
Proof. exact Npm.SpecFacts.valid_no_space. Qed.
Print Assumptions C08_npm_valid_no_space.

(* ====================================================================== *)
(* D. hex                                                                  *)
(* ====================================================================== *)

Theorem C08_hex_cmp_is_spec : forall a b : bytes,
  Hex.SpecFacts.in_scope a = true -> Hex.SpecFacts.in_scope b = true ->
  Hex.SpecFacts.sp_valid a = true -> Hex.SpecFacts.sp_valid b = true ->
  v_cmp Hex.Entry.v a b = SemVer.spec_cmp_with SemVer.den_hex a b.
Proof. exact Hex.SpecFacts.hex_cmp_is_spec. Qed.
Print Assumptions C08_hex_cmp_is_spec.

Theorem C08_hex_accepts_spec_valid : forall s : bytes,
  Hex.SpecFacts.in_scope s = true -> Hex.SpecFacts.sp_valid s = true ->
  exists t, v_show Hex.Entry.v s = Some t.
Proof. exact Hex.SpecFacts.hex_accepts_spec_valid. Qed.
Print Assumptions C08_hex_accepts_spec_valid.

Theorem C08_hex_scope_def : forall s : bytes,
  Hex.SpecFacts.sp_valid s = SemVer.isSome (SemVer.den_hex s) /\
  Hex.SpecFacts.in_scope s =
    match SemVer.den_hex s with
    | Some v => forallb (fun n => (n <? two63)%N) (SemVer.nums v) &&
                forallb (fun i => match i with SemVer.INum n => (n <? two63)%N | SemVer.IAlnum _ => true end)
                        (SemVer.pre v)
    | None => true
    end.
Proof. intros s. split; reflexivity. Qed.
Print Assumptions C08_hex_scope_def.

(* ====================================================================== *)
(* E. nuget (SemVer with a fourth component; single-case identifiers)      *)
(* ====================================================================== *)

Theorem C08_nuget_cmp_is_spec : forall a b : bytes,
  Nuget.SpecFacts.in_scope a = true -> Nuget.SpecFacts.in_scope b = true ->
  Nuget.SpecFacts.sp_valid a = true -> Nuget.SpecFacts.sp_valid b = true ->
  v_cmp Nuget.Entry.v a b = SemVer.spec_cmp_with SemVer.den_nuget a b.
Proof. exact Nuget.SpecFacts.nuget_cmp_is_spec. Qed.
Print Assumptions C08_nuget_cmp_is_spec.

Theorem C08_nuget_accepts_spec_valid : forall s : bytes,
  Nuget.SpecFacts.in_scope s = true -> Nuget.SpecFacts.sp_valid s = true ->
  exists t, v_show Nuget.Entry.v s = Some t.
Proof. exact Nuget.SpecFacts.nuget_accepts_spec_valid. Qed.
Print Assumptions C08_nuget_accepts_spec_valid.

Theorem C08_nuget_scope_def : forall s : bytes,
  Nuget.SpecFacts.sp_valid s = SemVer.isSome (SemVer.den_nuget s) /\
  Nuget.SpecFacts.in_scope s =
    match SemVer.den_nuget s with
    | Some v => forallb (fun n => (n <? two63)%N) (SemVer.nums v) &&
                forallb (fun i => match i with SemVer.INum n => (n <? two63)%N | SemVer.IAlnum _ => true end)
                        (SemVer.pre v)
    | None => true
    end.
Proof. intros s. split; reflexivity. Qed.
Print Assumptions C08_nuget_scope_def.

Theorem C08_nuget_valid_no_space : forall s : bytes,
  Nuget.SpecFacts.sp_valid s = true -> trim_space s = s.
Proof. exact Nuget.SpecFacts.spec_valid_no_whitespace. Qed.
Print Assumptions C08_nuget_valid_no_space.

(* ====================================================================== *)
(* F. golang                                                               *)
(* ====================================================================== *)

(* scope: every dot-separated part of the numeric core (after the optional "v", before the
   first "+" and the first "-") has a value below 2^63; pre-release identifiers are unrestricted *)
Theorem C08_golang_cmp_is_spec : forall a b : bytes,
  Golang.SpecFacts.in_scope a = true -> Golang.SpecFacts.in_scope b = true ->
  Golang.SpecFacts.spec_valid a = true -> Golang.SpecFacts.spec_valid b = true ->
  v_cmp Golang.Entry.v a b = SemVer.spec_cmp_with SemVer.den_golang a b.
Proof. exact Golang.SpecFacts.golang_cmp_is_spec. Qed.
Print Assumptions C08_golang_cmp_is_spec.

Theorem C08_golang_accepts_spec_valid : forall s : bytes,
  Golang.SpecFacts.in_scope s = true -> Golang.SpecFacts.spec_valid s = true ->
  exists t, v_show Golang.Entry.v s = Some t.
Proof. exact Golang.SpecFacts.golang_accepts_spec_valid. Qed.
Print Assumptions C08_golang_accepts_spec_valid.

Theorem C08_golang_scope_def : forall s : bytes,
  Golang.SpecFacts.spec_valid s = SemVer.isSome (SemVer.den_golang s) /\
  Golang.SpecFacts.in_scope s =
    forallb (fun p => (digits_val p <? two63)%N)
            (split_c "."%char
               (fst (split2_c "-"%char (fst (split2_c "+"%char (trim_prefix (list_ascii_of_string "v") s)))))) /\
  Golang.SpecFacts.in_scope18 s =
    forallb (fun p => (length p <=? 18)%nat)
            (split_c "."%char
               (fst (split2_c "-"%char (fst (split2_c "+"%char (trim_prefix (list_ascii_of_string "v") s)))))).
Proof. intros s. repeat split; reflexivity. Qed.
Print Assumptions C08_golang_scope_def.

(* numeric components of at most 18 digits (the property's quantifier) are in scope *)
Theorem C08_golang_cmp_is_spec_18_digits : forall a b : bytes,
  Golang.SpecFacts.in_scope18 a = true -> Golang.SpecFacts.in_scope18 b = true ->
  Golang.SpecFacts.spec_valid a = true -> Golang.SpecFacts.spec_valid b = true ->
  v_cmp Golang.Entry.v a b = SemVer.spec_cmp_with SemVer.den_golang a b.
Proof. exact Golang.SpecFacts.golang_cmp_is_spec_18. Qed.
Print Assumptions C08_golang_cmp_is_spec_18_digits.

(* pseudo-versions: all three forms ([pseudo_spelling], an inductive with one constructor per
   form: vX.0.0-TS-REV, vX.Y.Z-PRE.0.TS-REV, vX.Y.Z-0.TS-REV with TS of 14 digits and REV of 12
   lower-case hex digits) are valid, in scope, and order exactly as their SemVer spelling does —
   against any in-scope valid version and against each other *)
Theorem C08_golang_pseudo_spelling_valid : forall s : bytes,
  Golang.SpecFacts.pseudo_spelling s ->
  Golang.SpecFacts.in_scope s = true /\ Golang.SpecFacts.spec_valid s = true.
Proof. exact Golang.SpecFacts.pseudo_spelling_valid. Qed.
Print Assumptions C08_golang_pseudo_spelling_valid.

Theorem C08_golang_pseudo_orders_as_semver : forall a b : bytes,
  Golang.SpecFacts.pseudo_spelling a ->
  Golang.SpecFacts.in_scope b = true -> Golang.SpecFacts.spec_valid b = true ->
  v_cmp Golang.Entry.v a b = SemVer.spec_cmp_with SemVer.den_golang a b /\
  v_cmp Golang.Entry.v b a = SemVer.spec_cmp_with SemVer.den_golang b a.
Proof. exact Golang.SpecFacts.golang_pseudo_orders_as_semver. Qed.
Print Assumptions C08_golang_pseudo_orders_as_semver.

Theorem C08_golang_pseudo_pair_orders_as_semver : forall a b : bytes,
  Golang.SpecFacts.pseudo_spelling a -> Golang.SpecFacts.pseudo_spelling b ->
  v_cmp Golang.Entry.v a b = SemVer.spec_cmp_with SemVer.den_golang a b.
Proof. exact Golang.SpecFacts.golang_pseudo_pair_orders_as_semver. Qed.
Print Assumptions C08_golang_pseudo_pair_orders_as_semver.

(* the reference used above is the one registered for "golang" in Spec/All.v (the table the
   check's oracle comparison runs over) *)
Theorem C08_golang_spec_registered :
  exists sp : All.spec,
    All.find_spec (list_ascii_of_string "golang") All.specs = Some sp /\
    (forall s : bytes, All.sp_valid sp s = Golang.SpecFacts.spec_valid s) /\
    (forall a b : bytes, All.sp_cmp sp a b = Golang.SpecFacts.spec_cmp a b).
Proof. exact Golang.SpecFacts.spec_registered. Qed.
Print Assumptions C08_golang_spec_registered.

Theorem C08_golang_valid_no_space : forall (s : bytes) (v : SemVer.sv),
  SemVer.den_golang s = Some v -> RangeCoreFacts.no_space s = true.
Proof. exact Golang.SpecFacts.den_no_space. Qed.
Print Assumptions C08_golang_valid_no_space.

(* ====================================================================== *)
(* G. outside the scope: the Go code deviates (so the scope cannot be widened) *)
(* ====================================================================== *)

(* semver: a component of 2^63 is valid SemVer but rejected (strconv range error) *)
Theorem C08_semver_big_component_refuted :
  SemVer.spec_valid (list_ascii_of_string "9223372036854775808.0.0") = true /\
  Semver.Version.parse_core (list_ascii_of_string "9223372036854775808.0.0") = None.
Proof. exact Semver.SpecFacts.reject_big. Qed.
Print Assumptions C08_semver_big_component_refuted.

(* semver: all-digit identifiers of 2^63 and more saturate: ordered by SemVer, equal for Compare *)
Theorem C08_semver_big_identifier_refuted :
  SemVer.spec_cmp (list_ascii_of_string "1.0.0-9223372036854775807")
                  (list_ascii_of_string "1.0.0-9223372036854775808") = Some Lt /\
  (exists ca cb,
     Semver.Version.parse_core (list_ascii_of_string "1.0.0-9223372036854775807") = Some ca /\
     Semver.Version.parse_core (list_ascii_of_string "1.0.0-9223372036854775808") = Some cb /\
     Semver.Version.cmp_core ca cb = Eq).
Proof. exact Semver.SpecFacts.cmp_saturates. Qed.
Print Assumptions C08_semver_big_identifier_refuted.

(* npm: an all-digit identifier >= 2^63 is compared as text *)
Theorem C08_npm_cmp_refuted :
  exists a b : bytes,
    Npm.SpecFacts.sp_valid a = true /\ Npm.SpecFacts.sp_valid b = true /\
    v_cmp Npm.Entry.v a b = Some Gt /\ SemVer.spec_cmp_with SemVer.den_npm a b = Some Lt.
Proof. exact Npm.SpecFacts.npm_cmp_is_spec_refuted. Qed.
Print Assumptions C08_npm_cmp_refuted.

Theorem C08_npm_accepts_refuted :
  Npm.SpecFacts.sp_valid (list_ascii_of_string "9223372036854775808.0.0") = true /\
  v_show Npm.Entry.v (list_ascii_of_string "9223372036854775808.0.0") = None.
Proof. exact Npm.SpecFacts.npm_accepts_spec_valid_refuted. Qed.
Print Assumptions C08_npm_accepts_refuted.

Theorem C08_hex_cmp_refuted :
  let a := list_ascii_of_string "1.0.0-9223372036854775808" in
  let b := list_ascii_of_string "1.0.0-10000000000000000000" in
  Hex.SpecFacts.sp_valid a = true /\ Hex.SpecFacts.sp_valid b = true /\
  v_cmp Hex.Entry.v a b = Some Gt /\ SemVer.spec_cmp_with SemVer.den_hex a b = Some Lt /\
  Hex.SpecFacts.in_scope a = false.
Proof. exact Hex.SpecFacts.hex_cmp_is_spec_refuted_big_ident. Qed.
Print Assumptions C08_hex_cmp_refuted.

Theorem C08_hex_accepts_refuted :
  let s := list_ascii_of_string "9223372036854775808.0.0" in
  Hex.SpecFacts.sp_valid s = true /\ v_show Hex.Entry.v s = None /\ Hex.SpecFacts.in_scope s = false.
Proof. exact Hex.SpecFacts.hex_accepts_spec_valid_refuted_big_component. Qed.
Print Assumptions C08_hex_accepts_refuted.

Theorem C08_nuget_cmp_refuted :
  let a := list_ascii_of_string "1.0-10000000000000000000" in
  let b := list_ascii_of_string "1.0-9223372036854775808" in
  Nuget.SpecFacts.sp_valid a = true /\ Nuget.SpecFacts.sp_valid b = true /\
  Nuget.SpecFacts.in_scope a = false /\ Nuget.SpecFacts.in_scope b = false /\
  v_cmp Nuget.Entry.v a b = Some Lt /\ SemVer.spec_cmp_with SemVer.den_nuget a b = Some Gt.
Proof. exact Nuget.SpecFacts.nuget_cmp_is_spec_refuted. Qed.
Print Assumptions C08_nuget_cmp_refuted.

(* one out-of-scope operand is enough *)
Theorem C08_nuget_cmp_refuted_2 :
  let a := list_ascii_of_string "1.0-9223372036854775808" in
  let b := list_ascii_of_string "1.0--" in
  Nuget.SpecFacts.sp_valid a = true /\ Nuget.SpecFacts.sp_valid b = true /\
  Nuget.SpecFacts.in_scope a = false /\ Nuget.SpecFacts.in_scope b = true /\
  v_cmp Nuget.Entry.v a b = Some Gt /\ SemVer.spec_cmp_with SemVer.den_nuget a b = Some Lt.
Proof. exact Nuget.SpecFacts.nuget_cmp_is_spec_refuted_2. Qed.
Print Assumptions C08_nuget_cmp_refuted_2.

Theorem C08_nuget_accepts_refuted :
  let s := list_ascii_of_string "1.9223372036854775808" in
  Nuget.SpecFacts.sp_valid s = true /\ Nuget.SpecFacts.in_scope s = false /\
  v_show Nuget.Entry.v s = None.
Proof. exact Nuget.SpecFacts.nuget_accepts_spec_valid_refuted. Qed.
Print Assumptions C08_nuget_accepts_refuted.

Theorem C08_golang_accepts_refuted :
  Golang.SpecFacts.spec_valid (list_ascii_of_string "v9223372036854775808.0.0") = true /\
  Golang.SpecFacts.in_scope (list_ascii_of_string "v9223372036854775808.0.0") = false /\
  v_show Golang.Entry.v (list_ascii_of_string "v9223372036854775808.0.0") = None.
Proof. exact Golang.SpecFacts.golang_accepts_refuted. Qed.
Print Assumptions C08_golang_accepts_refuted.

Theorem C08_golang_cmp_refuted :
  let a := list_ascii_of_string "v99999999999999999999.0.0-20190101000000-abcdef123456" in
  let b := list_ascii_of_string "v9223372036854775807.0.0-20190101000000-abcdef123456" in
  Golang.SpecFacts.spec_valid a = true /\ Golang.SpecFacts.spec_valid b = true /\
  Golang.SpecFacts.in_scope a = false /\
  v_cmp Golang.Entry.v a b = Some Eq /\ SemVer.spec_cmp_with SemVer.den_golang a b = Some Gt.
Proof. exact Golang.SpecFacts.golang_cmp_refuted. Qed.
Print Assumptions C08_golang_cmp_refuted.

(* ====================================================================== *)
(* H. cargo                                                                *)
(* ====================================================================== *)

Theorem C08_cargo_cmp_is_spec : forall a b : bytes,
  Cargo.SpecFacts.in_scope a = true -> Cargo.SpecFacts.in_scope b = true ->
  Cargo.SpecFacts.sp_valid a = true -> Cargo.SpecFacts.sp_valid b = true ->
  v_cmp Cargo.Entry.v a b = SemVer.spec_cmp_with SemVer.den_cargo a b.
Proof. exact Cargo.SpecFacts.cargo_cmp_is_spec. Qed.
Print Assumptions C08_cargo_cmp_is_spec.

Theorem C08_cargo_accepts_spec_valid : forall s : bytes,
  Cargo.SpecFacts.in_scope s = true -> Cargo.SpecFacts.sp_valid s = true ->
  exists t, v_show Cargo.Entry.v s = Some t.
Proof. exact Cargo.SpecFacts.cargo_accepts_spec_valid. Qed.
Print Assumptions C08_cargo_accepts_spec_valid.

(* the text is cut as the grammar cuts it: build metadata after the first "+", pre-release after
   the first "-" *)
Theorem C08_cargo_scope_def : forall s : bytes,
  Cargo.SpecFacts.sp_valid s = SemVer.isSome (SemVer.den_cargo s) /\
  Cargo.SpecFacts.in_scope s =
    (let '(main, _) := split2_c "+"%char s in
     let '(core, prerel) := split2_c "-"%char main in
     forallb (fun p => (digits_val p <? two63)%N) (split_c "."%char core) &&
     match prerel with
     | None => true
     | Some p => forallb (fun i => negb (all_digits i) || (digits_val i <? two63)%N) (split_c "."%char p)
     end).
Proof. intros s. split; reflexivity. Qed.
Print Assumptions C08_cargo_scope_def.

(* parts of at most 18 digits (the property's quantifier) are in scope *)
Theorem C08_cargo_18_digits_in_scope : forall s : bytes,
  (length s <= 18)%nat -> forallb is_digit s = true -> (digits_val s <? two63)%N = true.
Proof. exact Cargo.SpecFacts.small_of_18_digits. Qed.
Print Assumptions C08_cargo_18_digits_in_scope.

(* the reference used above is the one registered for "cargo" in Spec/All.v *)
Theorem C08_cargo_spec_registered :
  exists sp : All.spec,
    All.find_spec (list_ascii_of_string "cargo") All.specs = Some sp /\
    (forall s : bytes, All.sp_valid sp s = Cargo.SpecFacts.sp_valid s) /\
    (forall a b : bytes, All.sp_cmp sp a b = Cargo.SpecFacts.sp_cmp a b).
Proof. exact Cargo.SpecFacts.sp_is_registered. Qed.
Print Assumptions C08_cargo_spec_registered.

(* outside the scope: an all-digit identifier >= 2^63 is compared as text; a component >= 2^63 is
   valid SemVer but rejected *)
Theorem C08_cargo_cmp_refuted :
  exists a b : bytes,
    Cargo.SpecFacts.sp_valid a = true /\ Cargo.SpecFacts.sp_valid b = true /\
    v_cmp Cargo.Entry.v a b = Some Gt /\ SemVer.spec_cmp_with SemVer.den_cargo a b = Some Lt.
Proof. exact Cargo.SpecFacts.cargo_cmp_is_spec_refuted. Qed.
Print Assumptions C08_cargo_cmp_refuted.

Theorem C08_cargo_accepts_refuted :
  exists s : bytes, Cargo.SpecFacts.sp_valid s = true /\ v_show Cargo.Entry.v s = None.
Proof. exact Cargo.SpecFacts.cargo_accepts_spec_valid_refuted. Qed.
Print Assumptions C08_cargo_accepts_refuted.

(* ====== ties to the source: BEGIN (written by bin/mkties) ====== *)
(* The Go functions named here are translated into Gallina from /repo's source on every run
   (tools/gen -> Gen/Code/<Eco>.v for loop-free functions, Gen/Loops/<Eco>.v for functions with
   loops and index expressions, where a panic is Panic and a loop takes fuel); Tie/<Eco>.v,
   Tie/<Eco>Range.v and Tie/Loops/<Eco>.v prove each translation equal to the model the theorems
   above speak about (and, for the loop functions: no panic, termination within a linear bound).
   If the code changes so that a tie no longer holds, this file no longer checks. *)
Require Verif.Tie.Cargo.
Require Verif.Tie.Golang.
Require Verif.Tie.Hex.
Require Verif.Tie.Npm.
Require Verif.Tie.Nuget.
Require Verif.Tie.Semver.
Require Verif.Tie.Loops.Cargo.
Require Verif.Tie.Loops.Golang.
Require Verif.Tie.Loops.Hex.
Require Verif.Tie.Loops.Npm.
Require Verif.Tie.Loops.Nuget.
Require Verif.Tie.Loops.Semver.
Require Verif.Tie.Extra.Npm.
Definition C08_tie_cargo_compareInt := @Verif.Tie.Cargo.tie_cargo_compareInt.
Definition C08_tie_cargo_compare := @Verif.Tie.Cargo.tie_cargo_compare.
Definition C08_tie_golang_compareInt := @Verif.Tie.Golang.tie_golang_compareInt.
Definition C08_tie_golang_Version_Compare := @Verif.Tie.Golang.tie_golang_Version_Compare.
Definition C08_tie_hex_compareInt := @Verif.Tie.Hex.tie_hex_compareInt.
Definition C08_tie_hex_compare := @Verif.Tie.Hex.tie_hex_compare.
Definition C08_tie_npm_compareInt := @Verif.Tie.Npm.tie_npm_compareInt.
Definition C08_tie_npm_compare := @Verif.Tie.Npm.tie_npm_compare.
Definition C08_tie_nuget_compareInt := @Verif.Tie.Nuget.tie_nuget_compareInt.
Definition C08_tie_nuget_compare := @Verif.Tie.Nuget.tie_nuget_compare.
Definition C08_tie_semver_compareInt := @Verif.Tie.Semver.tie_semver_compareInt.
Definition C08_tie_semver_compare := @Verif.Tie.Semver.tie_semver_compare.
Definition C08_tie_loops_cargo_comparePrereleaseIdentifiers := @Verif.Tie.Loops.Cargo.tie_loops_cargo_comparePrereleaseIdentifiers.
Definition C08_tie_comparePrereleaseIdentifiers_total_model := @Verif.Tie.Loops.Cargo.comparePrereleaseIdentifiers_total_model.
Definition C08_tie_cargo_compare_closed := @Verif.Tie.Loops.Cargo.tie_cargo_compare_closed.
Definition C08_tie_loops_golang_comparePrerelease := @Verif.Tie.Loops.Golang.tie_loops_golang_comparePrerelease.
Definition C08_tie_comparePrerelease_total_model := @Verif.Tie.Loops.Golang.comparePrerelease_total_model.
Definition C08_tie_golang_compare_closed := @Verif.Tie.Loops.Golang.tie_golang_compare_closed.
Definition C08_tie_loops_hex_comparePreRelease := @Verif.Tie.Loops.Hex.tie_loops_hex_comparePreRelease.
Definition C08_tie_comparePreRelease_total_model := @Verif.Tie.Loops.Hex.comparePreRelease_total_model.
Definition C08_tie_hex_compare_closed := @Verif.Tie.Loops.Hex.tie_hex_compare_closed.
Definition C08_tie_loops_npm_comparePrerelease := @Verif.Tie.Loops.Npm.tie_loops_npm_comparePrerelease.
Definition C08_tie_npm_compare_closed := @Verif.Tie.Loops.Npm.tie_npm_compare_closed.
Definition C08_tie_loops_nuget_comparePrerelease := @Verif.Tie.Loops.Nuget.tie_loops_nuget_comparePrerelease.
Definition C08_tie_nuget_compare_closed := @Verif.Tie.Loops.Nuget.tie_nuget_compare_closed.
Definition C08_tie_loops_semver_comparePrerelease := @Verif.Tie.Loops.Semver.tie_loops_semver_comparePrerelease.
Definition C08_tie_semver_compare_closed := @Verif.Tie.Loops.Semver.tie_semver_compare_closed.
Definition C08_tie_npm_normalize := @Verif.Tie.Extra.Npm.tie_npm_normalize.
Definition C08_tie_npm_normalize_conc := @Verif.Tie.Extra.Npm.tie_npm_normalize_conc.
Definition C08_tie_parse_npm_padPartial := @Verif.Tie.Extra.Npm.tie_parse_npm_padPartial.
Definition C08_tie_parse_npm_parseCaretRange := @Verif.Tie.Extra.Npm.tie_parse_npm_parseCaretRange.
Definition C08_tie_parse_npm_parseTildeRange := @Verif.Tie.Extra.Npm.tie_parse_npm_parseTildeRange.
Definition C08_tie_parseCaretRange_npm_no_panic := @Verif.Tie.Extra.Npm.parseCaretRange_npm_no_panic.
Definition C08_tie_parseTildeRange_npm_no_panic := @Verif.Tie.Extra.Npm.parseTildeRange_npm_no_panic.
Definition C08_ties_all := (C08_tie_cargo_compare, (C08_tie_cargo_compareInt, (C08_tie_cargo_compare_closed, (C08_tie_comparePreRelease_total_model, (C08_tie_comparePrereleaseIdentifiers_total_model, (C08_tie_comparePrerelease_total_model, (C08_tie_golang_Version_Compare, (C08_tie_golang_compareInt, (C08_tie_golang_compare_closed, (C08_tie_hex_compare, (C08_tie_hex_compareInt, (C08_tie_hex_compare_closed, (C08_tie_loops_cargo_comparePrereleaseIdentifiers, (C08_tie_loops_golang_comparePrerelease, (C08_tie_loops_hex_comparePreRelease, (C08_tie_loops_npm_comparePrerelease, (C08_tie_loops_nuget_comparePrerelease, (C08_tie_loops_semver_comparePrerelease, (C08_tie_npm_compare, (C08_tie_npm_compareInt, (C08_tie_npm_compare_closed, (C08_tie_npm_normalize, (C08_tie_npm_normalize_conc, (C08_tie_nuget_compare, (C08_tie_nuget_compareInt, (C08_tie_nuget_compare_closed, (C08_tie_parseCaretRange_npm_no_panic, (C08_tie_parseTildeRange_npm_no_panic, (C08_tie_parse_npm_padPartial, (C08_tie_parse_npm_parseCaretRange, (C08_tie_parse_npm_parseTildeRange, (C08_tie_semver_compare, (C08_tie_semver_compareInt, C08_tie_semver_compare_closed))))))))))))))))))))))))))))))))).
Print Assumptions C08_ties_all.
(* ====== ties to the source: END ====== *)
