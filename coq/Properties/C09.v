(* C09 — PyPI versions order as PEP 440 specifies.
   Statements only; the proofs live in Eco/Pypi/SpecFacts.v and Spec/Pep440Facts.v.

   The reference is Spec/Pep440.v, written from PEP 440 and the sort key of Python's
   [packaging] independently of the Go code: [Pep440.parse] reads a normalised text into
   (epoch, release, pre, post, dev, local), [pep440_cmp] is the order of packaging's
   [_cmpkey]; [spec_valid s] = the reference accepts s, [spec_cmp a b] = the reference answer.
   The check cross-validates this reference against the [packaging] library itself.

   Scope.  [in_scope s]: every number of the version is below 2^63 (Go parses them with
   strconv.Atoi) AND the version carries no local label.  The second exclusion is a FINDING,
   not a convenience: the Go code drops the local label before comparing, so 1.0+abc equals
   1.0 (C09_local_refuted) although PEP 440 puts 1.0+abc after 1.0 — the last clause of the
   property is false for the library as it is.  What does hold with labels present is stated
   exactly: Compare is the reference order with both labels erased (C09_cmp_erases_local),
   and it agrees with the reference precisely when erasing the labels does not change the
   reference's answer (C09_local_class).

   A  the reference order: laws and PEP 440's clauses in readable form
   B  Compare is the reference; every valid text is accepted
   C  local labels; numbers of 2^63 and more *)
From Coq Require Import List NArith.
From Verif Require GenTie.  (* ties of model constants to the generated tables *)
From Verif.Base Require Import Bytes GoNum Ord.
From Verif.Eco Require Import Iface.
From Verif.Spec Require Pep440 Pep440Facts.
From Verif.Eco.Pypi Require Entry SpecFacts.
Import ListNotations.

(* ====================================================================== *)
(* A. the reference                                                        *)
(* ====================================================================== *)

Theorem C09_reference_is_total_preorder : TotalPreorder Pep440.pep440_cmp.
Proof. exact Pep440Facts.pep440_cmp_tp. Qed.
Print Assumptions C09_reference_is_total_preorder.

(* the epoch decides first *)
Theorem C09_reference_epoch_first : forall a b : Pep440.ast,
  (Pep440.epoch a < Pep440.epoch b)%N -> Pep440.pep440_cmp a b = Lt.
Proof. exact Pep440Facts.epoch_first. Qed.
Print Assumptions C09_reference_epoch_first.

(* final releases: release segments with implicit zero padding *)
Theorem C09_reference_release_zero_padded : forall (e : N) (r1 r2 : list N),
  Pep440.pep440_cmp (Pep440.mk_ast e r1 None None None []) (Pep440.mk_ast e r2 None None None []) =
  lex_pad 0%N N.compare r1 r2.
Proof. exact Pep440Facts.final_cmp. Qed.
Print Assumptions C09_reference_release_zero_padded.

(* within one release:  .devN of the bare release < aN/bN/rcN (with or without post/dev) < final < .postN *)
Theorem C09_reference_phases :
  (forall (e : N) (r : list N) (d : N) (l : list Pep440.lseg) (p : Pep440.kind * N)
          (po d' : option N) (l' : list Pep440.lseg),
     Pep440.pep440_cmp (Pep440.mk_ast e r None None (Some d) l) (Pep440.mk_ast e r (Some p) po d' l') = Lt) /\
  (forall (e : N) (r : list N) (p : Pep440.kind * N) (po d : option N) (l : list Pep440.lseg),
     Pep440.pep440_cmp (Pep440.mk_ast e r (Some p) po d l) (Pep440.mk_ast e r None None None []) = Lt) /\
  (forall (e : N) (r : list N) (d : N) (l : list Pep440.lseg),
     Pep440.pep440_cmp (Pep440.mk_ast e r None None (Some d) l) (Pep440.mk_ast e r None None None []) = Lt) /\
  (forall (e : N) (r : list N) (n : N) (d : option N) (l : list Pep440.lseg),
     Pep440.pep440_cmp (Pep440.mk_ast e r None (Some n) d l) (Pep440.mk_ast e r None None None []) = Gt).
Proof.
  split; [exact Pep440Facts.dev_lt_pre|]. split; [exact Pep440Facts.pre_lt_final|].
  split; [exact Pep440Facts.dev_lt_final | exact Pep440Facts.post_gt_final].
Qed.
Print Assumptions C09_reference_phases.

(* a local version label sorts after the same public version *)
Theorem C09_reference_local_after_public :
  forall (e : N) (r : list N) (p : option (Pep440.kind * N)) (po d : option N)
         (x : Pep440.lseg) (l : list Pep440.lseg),
    Pep440.pep440_cmp (Pep440.mk_ast e r p po d (x :: l)) (Pep440.mk_ast e r p po d []) = Gt.
Proof. exact Pep440Facts.local_gt_nolocal. Qed.
Print Assumptions C09_reference_local_after_public.

(* equal precedence iff the same version up to trailing zeros of the release *)
Theorem C09_reference_equal_iff : forall a b : Pep440.ast,
  Pep440.pep440_cmp a b = Eq <->
  Pep440.epoch a = Pep440.epoch b /\
  Pep440.strip_trailing_zeros (Pep440.release a) = Pep440.strip_trailing_zeros (Pep440.release b) /\
  Pep440.pre a = Pep440.pre b /\ Pep440.post a = Pep440.post b /\ Pep440.dev a = Pep440.dev b /\
  Pep440.local a = Pep440.local b.
Proof. exact Pep440Facts.pep440_cmp_eq_iff. Qed.
Print Assumptions C09_reference_equal_iff.

(* ====================================================================== *)
(* B. Compare is the reference order                                       *)
(* ====================================================================== *)

Theorem C09_pypi_cmp_is_spec : forall a b : bytes,
  Pypi.SpecFacts.in_scope a = true -> Pypi.SpecFacts.in_scope b = true ->
  Pep440.spec_valid a = true -> Pep440.spec_valid b = true ->
  v_cmp Pypi.Entry.v a b = Pep440.spec_cmp a b.
Proof. exact Pypi.SpecFacts.pypi_cmp_is_spec. Qed.
Print Assumptions C09_pypi_cmp_is_spec.

(* the scope predicates, spelled out *)
Theorem C09_scope_def : forall s : bytes,
  Pypi.SpecFacts.nums_in_scope s =
    match Pep440.parse s with
    | Some x =>
        (Pep440.epoch x <? two63)%N && forallb (fun n => (n <? two63)%N) (Pep440.release x)
        && match option_map snd (Pep440.pre x) with Some n => (n <? two63)%N | None => true end
        && match Pep440.post x with Some n => (n <? two63)%N | None => true end
        && match Pep440.dev x with Some n => (n <? two63)%N | None => true end
    | None => true
    end /\
  Pypi.SpecFacts.in_scope s =
    match Pep440.parse s with
    | Some x => Pypi.SpecFacts.ast_small x && match Pep440.local x with [] => true | _ => false end
    | None => true
    end.
Proof. intros s. split; reflexivity. Qed.
Print Assumptions C09_scope_def.

(* every reference-valid text with numbers below 2^63 — with or without a local label — is
   accepted, and String() returns it unchanged *)
Theorem C09_pypi_accepts_spec_valid_any_label : forall s : bytes,
  Pypi.SpecFacts.nums_in_scope s = true -> Pep440.spec_valid s = true ->
  v_show Pypi.Entry.v s = Some s.
Proof. exact Pypi.SpecFacts.pypi_accepts_spec_valid_nums. Qed.
Print Assumptions C09_pypi_accepts_spec_valid_any_label.

Theorem C09_pypi_accepts_spec_valid : forall s : bytes,
  Pypi.SpecFacts.in_scope s = true -> Pep440.spec_valid s = true ->
  exists t, v_show Pypi.Entry.v s = Some t.
Proof. exact Pypi.SpecFacts.pypi_accepts_spec_valid. Qed.
Print Assumptions C09_pypi_accepts_spec_valid.

(* ====================================================================== *)
(* C. outside the scope                                                    *)
(* ====================================================================== *)

(* with local labels: Compare is the reference order after erasing the labels of both sides *)
Theorem C09_cmp_erases_local : forall (a b : bytes) (x y : Pep440.ast),
  Pep440.parse a = Some x -> Pep440.parse b = Some y ->
  Pypi.SpecFacts.ast_small x = true -> Pypi.SpecFacts.ast_small y = true ->
  v_cmp Pypi.Entry.v a b =
  Some (Pep440.pep440_cmp
          (Pep440.mk_ast (Pep440.epoch x) (Pep440.release x) (Pep440.pre x) (Pep440.post x) (Pep440.dev x) [])
          (Pep440.mk_ast (Pep440.epoch y) (Pep440.release y) (Pep440.pre y) (Pep440.post y) (Pep440.dev y) [])).
Proof. exact Pypi.SpecFacts.pypi_cmp_erases_local. Qed.
Print Assumptions C09_cmp_erases_local.

(* FINDING: the label is ignored — the reference orders 1.0 < 1.0+abc, Compare says equal;
   and two different labels are equal for Compare *)
Theorem C09_local_refuted :
  Pep440.spec_valid (list_ascii_of_string "1.0+abc") = true /\
  Pep440.spec_valid (list_ascii_of_string "1.0") = true /\
  v_cmp Pypi.Entry.v (list_ascii_of_string "1.0+abc") (list_ascii_of_string "1.0") = Some Eq /\
  Pep440.spec_cmp (list_ascii_of_string "1.0+abc") (list_ascii_of_string "1.0") = Some Gt.
Proof. exact Pypi.SpecFacts.pypi_local_refuted. Qed.
Print Assumptions C09_local_refuted.

Theorem C09_local_refuted_2 :
  v_cmp Pypi.Entry.v (list_ascii_of_string "1.0+abc") (list_ascii_of_string "1.0+abd") = Some Eq /\
  Pep440.spec_cmp (list_ascii_of_string "1.0+abc") (list_ascii_of_string "1.0+abd") = Some Lt.
Proof. exact Pypi.SpecFacts.pypi_local_refuted_2. Qed.
Print Assumptions C09_local_refuted_2.

(* exactly when do the two agree in the presence of labels: iff the reference does not need the
   labels to decide *)
Theorem C09_local_class : forall (a b : bytes) (x y : Pep440.ast),
  Pep440.parse a = Some x -> Pep440.parse b = Some y ->
  Pypi.SpecFacts.ast_small x = true -> Pypi.SpecFacts.ast_small y = true ->
  (v_cmp Pypi.Entry.v a b = Pep440.spec_cmp a b <->
   Pep440.pep440_cmp
     (Pep440.mk_ast (Pep440.epoch x) (Pep440.release x) (Pep440.pre x) (Pep440.post x) (Pep440.dev x) [])
     (Pep440.mk_ast (Pep440.epoch y) (Pep440.release y) (Pep440.pre y) (Pep440.post y) (Pep440.dev y) [])
   = Pep440.pep440_cmp x y).
Proof. exact Pypi.SpecFacts.pypi_local_class. Qed.
Print Assumptions C09_local_class.

(* numbers from 2^63 on: reference-valid, rejected by NewVersion (strconv.Atoi) *)
Theorem C09_big_number_refuted :
  Pep440.spec_valid (list_ascii_of_string "9223372036854775808") = true /\
  v_show Pypi.Entry.v (list_ascii_of_string "9223372036854775808") = None.
Proof. exact Pypi.SpecFacts.pypi_big_number_refuted. Qed.
Print Assumptions C09_big_number_refuted.

(* ====== ties to the source: BEGIN (written by bin/mkties) ====== *)
(* The Go functions named here are translated into Gallina from /repo's source on every run
   (tools/gen -> Gen/Code/<Eco>.v for loop-free functions, Gen/Loops/<Eco>.v for functions with
   loops and index expressions, where a panic is Panic and a loop takes fuel); Tie/<Eco>.v,
   Tie/<Eco>Range.v and Tie/Loops/<Eco>.v prove each translation equal to the model the theorems
   above speak about (and, for the loop functions: no panic, termination within a linear bound).
   If the code changes so that a tie no longer holds, this file no longer checks. *)
Require Verif.Tie.Pypi.
Require Verif.Tie.Loops.Pypi.
Definition C09_tie_pypi_compareInt := @Verif.Tie.Pypi.tie_pypi_compareInt.
Definition C09_tie_pypi_normalizePrereleaseType := @Verif.Tie.Pypi.tie_pypi_normalizePrereleaseType.
Definition C09_tie_pypi_comparePrereleases := @Verif.Tie.Pypi.tie_pypi_comparePrereleases.
Definition C09_tie_pypi_comparePostReleases := @Verif.Tie.Pypi.tie_pypi_comparePostReleases.
Definition C09_tie_pypi_compareDevReleases := @Verif.Tie.Pypi.tie_pypi_compareDevReleases.
Definition C09_tie_pypi_Version_Compare := @Verif.Tie.Pypi.tie_pypi_Version_Compare.
Definition C09_tie_loops_pypi_compareReleaseVersions := @Verif.Tie.Loops.Pypi.tie_loops_pypi_compareReleaseVersions.
Definition C09_tie_compareReleaseVersions_total_model := @Verif.Tie.Loops.Pypi.compareReleaseVersions_total_model.
Definition C09_tie_pypi_compare_closed := @Verif.Tie.Loops.Pypi.tie_pypi_compare_closed.
Definition C09_ties_all := (C09_tie_compareReleaseVersions_total_model, (C09_tie_loops_pypi_compareReleaseVersions, (C09_tie_pypi_Version_Compare, (C09_tie_pypi_compareDevReleases, (C09_tie_pypi_compareInt, (C09_tie_pypi_comparePostReleases, (C09_tie_pypi_comparePrereleases, (C09_tie_pypi_compare_closed, C09_tie_pypi_normalizePrereleaseType)))))))).
Print Assumptions C09_ties_all.
(* ====== ties to the source: END ====== *)
