(* C10 — Debian versions order as dpkg --compare-versions does.
   Statements only; the proofs live in Eco/Debian/SpecFacts.v and Spec/DpkgFacts.v.

   The reference is Spec/Dpkg.v, written from dpkg's lib/dpkg/parsehelp.c and version.c
   independently of the Go code: [dpkg_valid] is parseversion's acceptance (epoch a number of
   at most INT_MAX, non-empty upstream starting with a digit, non-empty revision if a hyphen
   is present, characters [0-9A-Za-z.+~-] resp. without '-' in the revision ...),
   [split_evr] the (epoch, upstream, revision) split, [verrevcmp] the comparison of two
   version strings as pairs of (non-digit run, digit run) tokens, [dpkg_cmp] the comparison
   of versions; [spec_valid] = [dpkg_valid] and [spec_cmp a b] = [Some (dpkg_cmp a b)] on
   valid texts.  Spec/Dpkg.v also contains the character-stepping loop of version.c; the two
   formulations are proved equal (C10_reference_loop_formulation).  The check
   cross-validates the reference against dpkg itself.

   No scope restriction other than validity is needed: every dpkg-valid text is accepted
   unchanged and compared as dpkg compares it, digit runs of any length included.

   A  the reference: laws, the readable clauses of the property, the two formulations
   B  NewVersion accepts every dpkg-valid text; Compare is dpkg's order *)
From Coq Require Import List NArith ZArith.
From Verif.Base Require Import Bytes GoNum Ord.
From Verif.Eco Require Import Iface.
From Verif.Eco Require RangeCoreFacts.
From Verif.Spec Require Dpkg DpkgFacts.
From Verif.Eco.Debian Require Version Entry SpecFacts.
Import ListNotations.

(* ====================================================================== *)
(* A. the reference                                                        *)
(* ====================================================================== *)

Theorem C10_reference_is_total_preorder :
  TotalPreorder Dpkg.verrevcmp /\ TotalPreorder Dpkg.dpkg_cmp.
Proof. split; [exact DpkgFacts.TP_verrevcmp | exact DpkgFacts.TP_dpkg_cmp]. Qed.
Print Assumptions C10_reference_is_total_preorder.

(* the laws at the level of texts: defined on valid texts, and a total preorder there *)
Theorem C10_reference_laws_on_valid_texts : forall a b c : bytes,
  Dpkg.spec_valid a = true -> Dpkg.spec_valid b = true -> Dpkg.spec_valid c = true ->
  exists x y z : comparison,
    Dpkg.spec_cmp a b = Some x /\ Dpkg.spec_cmp b c = Some y /\ Dpkg.spec_cmp a c = Some z /\
    Dpkg.spec_cmp a a = Some Eq /\
    Dpkg.spec_cmp b a = Some (CompOpp x) /\
    (le_c x -> le_c y -> le_c z) /\
    (le_c x -> le_c y -> lt_c x \/ lt_c y -> lt_c z) /\
    (x = Eq -> z = y).
Proof. exact DpkgFacts.spec_cmp_laws. Qed.
Print Assumptions C10_reference_laws_on_valid_texts.

(* an absent revision equals revision 0 (or 00, ...): native vs -0 *)
Theorem C10_reference_native_eq_revision_zero : forall (s : bytes) (z : list ascii),
  contains_c "-"%char s = false -> forallb (ceqb "0"%char) z = true ->
  Dpkg.dpkg_cmp s (s ++ "-"%char :: z) = Eq.
Proof. exact DpkgFacts.native_eq_revision_zero. Qed.
Print Assumptions C10_reference_native_eq_revision_zero.

(* an empty digit run equals zero *)
Theorem C10_reference_empty_run_is_zero : forall z : list ascii,
  forallb (ceqb "0"%char) z = true -> Dpkg.verrevcmp [] z = Eq.
Proof. exact DpkgFacts.verrevcmp_nil_zeros. Qed.
Print Assumptions C10_reference_empty_run_is_zero.

(* the clauses of the property on its own examples: '~' before everything including the end of
   the string, letters before other punctuation ("1.0a" < "1.0+"); empty run = 0 ("1a" = "1a0"),
   leading zeros ignored, integers of any length *)
Theorem C10_reference_examples :
  map (fun p : bytes * bytes => Dpkg.verrevcmp (fst p) (snd p))
      [ ($"~~", $"~~a"); ($"~~a", $"~"); ($"~", $""); ($"", $"a"); ($"a", $"+"); ($"1.0a", $"1.0+") ]
    = [Lt; Lt; Lt; Lt; Lt; Lt] /\
  (Dpkg.verrevcmp $"1a" $"1a0", Dpkg.verrevcmp $"001" $"1", Dpkg.verrevcmp $"9" $"10",
   Dpkg.verrevcmp $"18446744073709551616" $"18446744073709551615",
   Dpkg.verrevcmp $"1.100000000000000000000000" $"1.99999999999999999999999")
    = (Eq, Eq, Lt, Gt, Gt) /\
  (Dpkg.spec_cmp $"1.0" $"1.0-0", Dpkg.spec_cmp $"1.0-1" $"1.0", Dpkg.spec_cmp $"1:0.1" $"2.0",
   Dpkg.spec_cmp $"0:1" $"1", Dpkg.spec_cmp $"1-2-3" $"1-2", Dpkg.spec_cmp $"1.0-" $"1.0",
   Dpkg.spec_cmp $"1.0~rc1" $"1.0")
    = (Some Eq, Some Gt, Some Gt, Some Eq, Some Gt, None, Some Lt).
Proof.
  split; [exact DpkgFacts.ex_tilde_chain|]. split; [exact DpkgFacts.ex_numeric | exact DpkgFacts.ex_versions].
Qed.
Print Assumptions C10_reference_examples.

(* the token formulation used above is dpkg's character-stepping loop *)
Theorem C10_reference_loop_formulation : forall a b : bytes,
  Dpkg.verrevcmp_loop a b = Dpkg.verrevcmp a b /\ Dpkg.dpkg_cmp_loop a b = Dpkg.dpkg_cmp a b.
Proof. intros a b. split; [apply DpkgFacts.verrevcmp_loop_eq | apply DpkgFacts.dpkg_cmp_loop_eq]. Qed.
Print Assumptions C10_reference_loop_formulation.

(* ====================================================================== *)
(* B. the debian ecosystem against the reference                           *)
(* ====================================================================== *)

(* every dpkg-valid text is accepted, and String() returns it unchanged *)
Theorem C10_debian_accepts_dpkg_valid : forall s : bytes,
  Dpkg.spec_valid s = true -> v_show Debian.Entry.v s = Some s.
Proof. exact Debian.SpecFacts.debian_accepts_dpkg_valid. Qed.
Print Assumptions C10_debian_accepts_dpkg_valid.

(* Compare = dpkg --compare-versions, for every pair of dpkg-valid texts *)
Theorem C10_debian_cmp_is_spec : forall a b : bytes,
  Dpkg.spec_valid a = true -> Dpkg.spec_valid b = true ->
  v_cmp Debian.Entry.v a b = Dpkg.spec_cmp a b.
Proof. exact Debian.SpecFacts.debian_v_cmp_is_spec. Qed.
Print Assumptions C10_debian_cmp_is_spec.

(* the same on the parsed structures, with the split made explicit: the parser finds dpkg's
   (epoch, upstream, revision), an absent revision being the empty string *)
Theorem C10_debian_parse_is_dpkg_split : forall s : bytes,
  Dpkg.dpkg_valid s = true ->
  Debian.Version.parse_core s =
  Some {| Debian.Version.epoch := Z.of_N (fst (fst (Dpkg.split_evr s)));
          Debian.Version.upstream := snd (fst (Dpkg.split_evr s));
          Debian.Version.revision := snd (Dpkg.split_evr s) |}.
Proof. exact Debian.SpecFacts.parse_core_valid. Qed.
Print Assumptions C10_debian_parse_is_dpkg_split.

Theorem C10_debian_cmp_core_is_dpkg : forall a b : bytes,
  Dpkg.dpkg_valid a = true -> Dpkg.dpkg_valid b = true ->
  exists ca cb : Debian.Version.core,
    Debian.Version.parse_core a = Some ca /\ Debian.Version.parse_core b = Some cb /\
    Debian.Version.cmp_core ca cb = Dpkg.dpkg_cmp a b.
Proof. exact Debian.SpecFacts.debian_cmp_is_dpkg. Qed.
Print Assumptions C10_debian_cmp_core_is_dpkg.

(* the string comparison at the heart of Compare is verrevcmp on ALL strings without NUL bytes,
   valid or not: character weights, alternating runs, big numbers *)
Theorem C10_debian_vstring_cmp_is_verrevcmp : forall a b : bytes,
  forallb (fun c => negb (code c =? 0)%N) a = true ->
  forallb (fun c => negb (code c =? 0)%N) b = true ->
  Debian.Version.vstring_cmp a b = Dpkg.verrevcmp a b.
Proof. exact Debian.SpecFacts.vstring_cmp_verrevcmp. Qed.
Print Assumptions C10_debian_vstring_cmp_is_verrevcmp.

(* a dpkg-valid text contains no white space, so the library's TrimSpace does not interfere *)
Theorem C10_dpkg_valid_no_space : forall s : bytes,
  Dpkg.dpkg_valid s = true -> RangeCoreFacts.no_space s = true.
Proof. exact Debian.SpecFacts.dpkg_valid_no_space. Qed.
Print Assumptions C10_dpkg_valid_no_space.

(* ====== ties to the source: BEGIN (written by bin/mkties) ====== *)
(* The Go functions named here are translated into Gallina from /repo's source on every run
   (tools/gen -> Gen/Code/<Eco>.v for loop-free functions, Gen/Loops/<Eco>.v for functions with
   loops and index expressions, where a panic is Panic and a loop takes fuel); Tie/<Eco>.v,
   Tie/<Eco>Range.v and Tie/Loops/<Eco>.v prove each translation equal to the model the theorems
   above speak about (and, for the loop functions: no panic, termination within a linear bound).
   If the code changes so that a tie no longer holds, this file no longer checks. *)
Require Verif.Tie.Debian.
Require Verif.Tie.Loops.Debian.
Definition C10_tie_debian_compare := @Verif.Tie.Debian.tie_debian_compare.
Definition C10_tie_loops_debian_compareDebianDigits := @Verif.Tie.Loops.Debian.tie_loops_debian_compareDebianDigits.
Definition C10_tie_loops_debian_getDebianCharWeight := @Verif.Tie.Loops.Debian.tie_loops_debian_getDebianCharWeight.
Definition C10_tie_loops_debian_compareDebianNonDigits := @Verif.Tie.Loops.Debian.tie_loops_debian_compareDebianNonDigits.
Definition C10_tie_loops_debian_compareDebianNonDigits_sum := @Verif.Tie.Loops.Debian.tie_loops_debian_compareDebianNonDigits_sum.
Definition C10_tie_loops_debian_compareDebianVersionString := @Verif.Tie.Loops.Debian.tie_loops_debian_compareDebianVersionString.
Definition C10_tie_compareDebianVersionString_total_model := @Verif.Tie.Loops.Debian.compareDebianVersionString_total_model.
Definition C10_tie_debian_compare_closed := @Verif.Tie.Loops.Debian.tie_debian_compare_closed.
Definition C10_ties_all := (C10_tie_compareDebianVersionString_total_model, (C10_tie_debian_compare, (C10_tie_debian_compare_closed, (C10_tie_loops_debian_compareDebianDigits, (C10_tie_loops_debian_compareDebianNonDigits, (C10_tie_loops_debian_compareDebianNonDigits_sum, (C10_tie_loops_debian_compareDebianVersionString, C10_tie_loops_debian_getDebianCharWeight))))))).
Print Assumptions C10_ties_all.
(* ====== ties to the source: END ====== *)
