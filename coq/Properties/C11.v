(* C11 — RPM versions order as rpmvercmp does.                                INCOMPLETE.
   Equality with the reference order: see TODO below.  This file states what already exists:
   the reference order itself (Spec/Rpm.v, written from rpm's lib/rpmvercmp.c and rpmVersionCompare
   independently of the Go code) with its laws and the property's own examples, and the
   C03-style facts about the LIBRARY's Compare that are part of C11's wording (numeric
   segments as integers, '~' before everything, post-release markers, epoch first).  They do
   not add up to "Compare = rpmvercmp", and the unrestricted equality is FALSE: the library
   sorts '1.0a' above '1.0.1' and '1.0^git1' above '1.0.1', the reference has them the other
   way round (C11_rpm_differs_from_reference, computed) — so the coming theorem will be an
   equality on a scope plus refutation witnesses, as for the other ecosystems.

   Proofs live in Spec/RpmFacts.v and Eco/Rpm/VersionFacts.v. *)
(* TODO: rpm_cmp_is_spec — to be added from Eco/Rpm/SpecFacts.v
   (with rpm_accepts_spec_valid and the *_refuted witnesses outside its scope) *)
From Coq Require Import List NArith.
From Verif.Base Require Import Bytes GoNum Ord.
From Verif.Spec Require Rpm RpmFacts.
From Verif.Eco Require Import Iface.
From Verif.Eco.Rpm Require Version VersionFacts Entry.
Import ListNotations.

(* ====================================================================== *)
(* A. the reference                                                        *)
(* ====================================================================== *)

Theorem C11_reference_is_total_preorder :
  TotalPreorder Spec.Rpm.rpmvercmp /\ TotalPreorder Spec.Rpm.rpm_cmp.
Proof. split; [exact RpmFacts.TP_rpmvercmp | exact RpmFacts.TP_rpm_cmp]. Qed.
Print Assumptions C11_reference_is_total_preorder.

Theorem C11_reference_laws_on_valid_texts : forall a b c : bytes,
  Spec.Rpm.spec_valid a = true -> Spec.Rpm.spec_valid b = true -> Spec.Rpm.spec_valid c = true ->
  exists ab bc ac ba : comparison,
    Spec.Rpm.spec_cmp a b = Some ab /\ Spec.Rpm.spec_cmp b c = Some bc /\
    Spec.Rpm.spec_cmp a c = Some ac /\ Spec.Rpm.spec_cmp b a = Some ba /\
    Spec.Rpm.spec_cmp a a = Some Eq /\ ba = CompOpp ab /\
    (ab = bc -> ac = ab) /\ (ab = Eq -> ac = bc).
Proof. exact RpmFacts.spec_cmp_laws. Qed.
Print Assumptions C11_reference_laws_on_valid_texts.

(* rpmvercmp's character loop is the lexicographic order on token streams (maximal digit or
   letter runs, '~' and '^' as tokens of their own, other separators dropped) *)
Theorem C11_reference_as_tokens : forall a b : bytes,
  Spec.Rpm.rpmvercmp a b = RpmFacts.toks_cmp (RpmFacts.toks a) (RpmFacts.toks b).
Proof. exact RpmFacts.rpmvercmp_as_tokens. Qed.
Print Assumptions C11_reference_as_tokens.

(* the clauses of the property on its own examples *)
Theorem C11_reference_examples :
  Spec.Rpm.rpmvercmp $"1.0~rc1" $"1.0" = Lt /\
  Spec.Rpm.rpmvercmp $"1.0^git1" $"1.0" = Gt /\
  Spec.Rpm.rpmvercmp $"1.0^git1" $"1.0.1" = Lt /\
  Spec.Rpm.rpmvercmp $"1.0a" $"1.0.1" = Lt /\
  Spec.Rpm.rpmvercmp $"10.0001" $"10.1" = Eq /\
  Spec.Rpm.rpmvercmp $"2_0" $"2.0" = Eq /\
  Spec.Rpm.rpmvercmp $"99999999999999999999" $"100000000000000000000" = Lt /\
  Spec.Rpm.rpm_cmp $"1:1.0-1" $"2.0-1" = Gt /\
  Spec.Rpm.rpm_cmp $"1.0" $"1.0-1" = Lt.
Proof.
  split; [exact RpmFacts.ex_tilde|]. split; [exact RpmFacts.ex_caret|].
  split; [exact RpmFacts.ex_caret_seg|]. split; [exact RpmFacts.ex_num_alpha|].
  split; [exact RpmFacts.ex_zeros|]. split; [exact RpmFacts.ex_seps|].
  split; [exact RpmFacts.ex_big|]. split; [exact RpmFacts.ex_epoch | exact RpmFacts.ex_norel].
Qed.
Print Assumptions C11_reference_examples.

(* ====================================================================== *)
(* B. the library's Compare: the clauses proved so far                     *)
(* ====================================================================== *)

(* dotted numerals ([numstr t] = the decimal numbers of t joined by "."), any magnitude:
   compared as integer tuples, a proper prefix being older *)
Theorem C11_rpm_numeric : forall t1 t2 : list N,
  t1 <> [] -> t2 <> [] ->
  exists c1 c2 : Rpm.Version.core,
    Rpm.Version.parse_core (Rpm.VersionFacts.numstr t1) = Some c1 /\
    Rpm.Version.parse_core (Rpm.VersionFacts.numstr t2) = Some c2 /\
    Rpm.Version.cmp_core c1 c2 = lex_short N.compare t1 t2.
Proof. exact Rpm.VersionFacts.c03_numeric. Qed.
Print Assumptions C11_rpm_numeric.

(* '~' sorts before everything including the end of the string *)
Theorem C11_rpm_tilde_pre : forall (t : list N) (x : bytes),
  t <> [] -> Rpm.Version.valid_str x = true -> contains_c "-"%char x = false ->
  exists c c' : Rpm.Version.core,
    Rpm.Version.parse_core (Rpm.VersionFacts.numstr t) = Some c /\
    Rpm.Version.parse_core (Rpm.VersionFacts.numstr t ++ "~"%char :: x) = Some c' /\
    Rpm.Version.cmp_core c' c = Lt.
Proof. exact Rpm.VersionFacts.c03_tilde_pre. Qed.
Print Assumptions C11_rpm_tilde_pre.

(* the string with segments remaining is newer: numeral, optional separators other than the
   hyphen (. + ^ _), then a letter or - after at least one separator - a digit *)
Theorem C11_rpm_post : forall (t : list N) (pre : list ascii) (c : ascii) (x : bytes),
  t <> [] ->
  forallb Rpm.VersionFacts.is_sep_nh pre = true ->
  is_alnum c = true ->
  pre <> [] \/ is_letter c = true ->
  Rpm.Version.valid_str x = true -> contains_c "-"%char x = false ->
  exists v v' : Rpm.Version.core,
    Rpm.Version.parse_core (Rpm.VersionFacts.numstr t) = Some v /\
    Rpm.Version.parse_core (Rpm.VersionFacts.numstr t ++ pre ++ c :: x) = Some v' /\
    Rpm.Version.cmp_core v' v = Gt.
Proof. exact Rpm.VersionFacts.c03_post. Qed.
Print Assumptions C11_rpm_post.

(* the epoch decides first ([plain s]: non-empty, valid characters, no hyphen) *)
Theorem C11_rpm_epoch : forall (e1 e2 : N) (s1 s2 : bytes),
  (e1 < two63)%N -> (e2 < two63)%N ->
  Rpm.VersionFacts.plain s1 -> Rpm.VersionFacts.plain s2 ->
  e1 <> e2 ->
  exists v1 v2 : Rpm.Version.core,
    Rpm.Version.parse_core (dec e1 ++ ":"%char :: s1) = Some v1 /\
    Rpm.Version.parse_core (dec e2 ++ ":"%char :: s2) = Some v2 /\
    Rpm.Version.cmp_core v1 v2 = (e1 ?= e2)%N.
Proof. exact Rpm.VersionFacts.c03_epoch. Qed.
Print Assumptions C11_rpm_epoch.

(* ====================================================================== *)
(* C. the unrestricted equality is false (computed witnesses)              *)
(* ====================================================================== *)

(* a numeric segment is newer than an alphabetic one, and '^' sorts before any further segment,
   in the reference; not in the library *)
Theorem C11_rpm_differs_from_reference :
  Spec.Rpm.spec_cmp $"1.0a" $"1.0.1" = Some Lt /\ v_cmp Rpm.Entry.v $"1.0a" $"1.0.1" = Some Gt /\
  Spec.Rpm.spec_cmp $"1.0^git1" $"1.0.1" = Some Lt /\ v_cmp Rpm.Entry.v $"1.0^git1" $"1.0.1" = Some Gt.
Proof. vm_compute. repeat split; reflexivity. Qed.
Print Assumptions C11_rpm_differs_from_reference.
