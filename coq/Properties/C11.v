(* C11 — RPM versions order as rpmvercmp does.
   Statements only; the proofs live in Eco/Rpm/SpecFacts.v, Spec/RpmFacts.v and
   Eco/Rpm/VersionFacts.v.

   The reference is Spec/Rpm.v, written from rpm's lib/rpmvercmp.c and rpmVersionCompare
   independently of the Go code: [rpmvercmp] on version strings, [rpm_cmp] on
   [epoch:]version[-release]; [spec_valid] = non-empty version (and release, if present) over
   [0-9A-Za-z._+~^]; [spec_cmp a b] = [Some (rpm_cmp a b)] on valid texts.

   The property as worded is FALSE for the library (open finding F-rpm-not-rpmvercmp): the Go
   code compares (non-digit run, digit run) pairs as dpkg does, which is a different algorithm.
   What is proved is the equality on the complement of the finding's class.  The class is
   "a side is outside the sub-grammar
          [epoch:] D(.D)* [~ L+ D*] [- D [. L+ D*]]
   (D a non-empty digit run, L a letter; epoch below 2^63)", recognised by [in_scope]
   (C11_scope_def spells it out).  On that sub-grammar both algorithms reduce to the same
   comparison of token lists, every text is reference-valid and accepted, and Compare IS the
   reference order (C11_rpm_cmp_is_spec), digit runs of any length included.  Outside it the
   library deviates through five mechanisms, one witness each (Part D): a letter run glued to
   a number, '^', '_', a '~' inside a non-digit run, and a number against a word at the same
   position (in the version and in the release field).

   A  the reference: laws, token formulation, the property's examples
   B  the library against the reference, on the sub-grammar
   C  clauses of the property that hold for the library beyond the sub-grammar (C03-style)
   D  outside the sub-grammar: the witnesses *)
From Coq Require Import List NArith.
From Verif.Base Require Import Bytes GoNum Ord.
From Verif.Spec Require Rpm RpmFacts.
From Verif.Eco Require Import Iface.
From Verif.Eco.Rpm Require Version VersionFacts Entry SpecFacts.
Import ListNotations.

(* ====================================================================== *)
(* A. the reference                                                        *)
(* ====================================================================== *)

Theorem C11_reference_is_total_preorder :
  TotalPreorder Spec.Rpm.rpmvercmp /\ TotalPreorder Spec.Rpm.rpm_cmp.
Proof. split; [exact RpmFacts.TP_rpmvercmp | exact RpmFacts.TP_rpm_cmp]. Qed.
Print Assumptions C11_reference_is_total_preorder.

Theorem C11_reference_laws_on_valid_texts : forall a b c : bytes,
  Spec.Rpm.spec_valid a = true -> Spec.Rpm.spec_valid b = true -> Spec.Rpm.spec_valid c = true ->
  exists ab bc ac ba : comparison,
    Spec.Rpm.spec_cmp a b = Some ab /\ Spec.Rpm.spec_cmp b c = Some bc /\
    Spec.Rpm.spec_cmp a c = Some ac /\ Spec.Rpm.spec_cmp b a = Some ba /\
    Spec.Rpm.spec_cmp a a = Some Eq /\ ba = CompOpp ab /\
    (ab = bc -> ac = ab) /\ (ab = Eq -> ac = bc).
Proof. exact RpmFacts.spec_cmp_laws. Qed.
Print Assumptions C11_reference_laws_on_valid_texts.

(* rpmvercmp's character loop is the lexicographic order on token streams (maximal digit or
   letter runs, '~' and '^' as tokens of their own, other separators dropped) *)
Theorem C11_reference_as_tokens : forall a b : bytes,
  Spec.Rpm.rpmvercmp a b = RpmFacts.toks_cmp (RpmFacts.toks a) (RpmFacts.toks b).
Proof. exact RpmFacts.rpmvercmp_as_tokens. Qed.
Print Assumptions C11_reference_as_tokens.

(* the clauses of the property on its own examples *)
Theorem C11_reference_examples :
  Spec.Rpm.rpmvercmp $"1.0~rc1" $"1.0" = Lt /\
  Spec.Rpm.rpmvercmp $"1.0^git1" $"1.0" = Gt /\
  Spec.Rpm.rpmvercmp $"1.0^git1" $"1.0.1" = Lt /\
  Spec.Rpm.rpmvercmp $"1.0a" $"1.0.1" = Lt /\
  Spec.Rpm.rpmvercmp $"10.0001" $"10.1" = Eq /\
  Spec.Rpm.rpmvercmp $"2_0" $"2.0" = Eq /\
  Spec.Rpm.rpmvercmp $"99999999999999999999" $"100000000000000000000" = Lt /\
  Spec.Rpm.rpm_cmp $"1:1.0-1" $"2.0-1" = Gt /\
  Spec.Rpm.rpm_cmp $"1.0" $"1.0-1" = Lt.
Proof.
  split; [exact RpmFacts.ex_tilde|]. split; [exact RpmFacts.ex_caret|].
  split; [exact RpmFacts.ex_caret_seg|]. split; [exact RpmFacts.ex_num_alpha|].
  split; [exact RpmFacts.ex_zeros|]. split; [exact RpmFacts.ex_seps|].
  split; [exact RpmFacts.ex_big|]. split; [exact RpmFacts.ex_epoch | exact RpmFacts.ex_norel].
Qed.
Print Assumptions C11_reference_examples.

(* ====================================================================== *)
(* B. the library against the reference, on the sub-grammar                 *)
(* ====================================================================== *)

(* the sub-grammar [epoch:] NUMS [~ WORD [D]] [- D [. WORD [D]]], layer by layer *)
Theorem C11_scope_def :
  (forall s : bytes,
     Rpm.SpecFacts.in_scope s =
     match split2_c ":"%char s with
     | (e, Some rest) => nonempty_digits e && (digits_val e <? two63)%N && Rpm.SpecFacts.vr_ok rest
     | (_, None) => Rpm.SpecFacts.vr_ok s
     end) /\
  (forall vr : bytes,
     Rpm.SpecFacts.vr_ok vr =
     match split2_c "-"%char vr with
     | (v, None) => Rpm.SpecFacts.vfield_ok v
     | (v, Some r) => Rpm.SpecFacts.vfield_ok v && Rpm.SpecFacts.rfield_ok r
     end) /\
  (forall v : bytes,
     Rpm.SpecFacts.vfield_ok v =
     match split2_c "~"%char v with
     | (nums, None) => forallb nonempty_digits (split_c "."%char nums)
     | (nums, Some g) => forallb nonempty_digits (split_c "."%char nums) && Rpm.SpecFacts.grp_ok g
     end) /\
  (forall r : bytes,
     Rpm.SpecFacts.rfield_ok r =
     match split2_c "."%char r with
     | (d, None) => nonempty_digits d
     | (d, Some g) => nonempty_digits d && Rpm.SpecFacts.grp_ok g
     end) /\
  (forall g : bytes,
     Rpm.SpecFacts.grp_ok g =
     (let (w, d) := span is_letter g in
      negb (match w with [] => true | _ => false end) && all_digits d)).
Proof. repeat split; reflexivity. Qed.
Print Assumptions C11_scope_def.

(* every text of the sub-grammar is valid for the reference ... *)
Theorem C11_in_scope_spec_valid : forall s : bytes,
  Rpm.SpecFacts.in_scope s = true -> Spec.Rpm.spec_valid s = true.
Proof. exact Rpm.SpecFacts.in_scope_spec_valid. Qed.
Print Assumptions C11_in_scope_spec_valid.

(* ... and accepted by NewVersion *)
Theorem C11_rpm_accepts_spec_valid : forall s : bytes,
  Rpm.SpecFacts.in_scope s = true -> Spec.Rpm.spec_valid s = true ->
  exists t, v_show Rpm.Entry.v s = Some t.
Proof. exact Rpm.SpecFacts.rpm_accepts_spec_valid. Qed.
Print Assumptions C11_rpm_accepts_spec_valid.

(* Compare is the reference order *)
Theorem C11_rpm_cmp_is_spec : forall a b : bytes,
  Rpm.SpecFacts.in_scope a = true -> Rpm.SpecFacts.in_scope b = true ->
  Spec.Rpm.spec_valid a = true -> Spec.Rpm.spec_valid b = true ->
  v_cmp Rpm.Entry.v a b = Spec.Rpm.spec_cmp a b.
Proof. exact Rpm.SpecFacts.rpm_cmp_is_spec. Qed.
Print Assumptions C11_rpm_cmp_is_spec.

(* the same without the (redundant) validity hypotheses *)
Theorem C11_rpm_cmp_is_spec' : forall a b : bytes,
  Rpm.SpecFacts.in_scope a = true -> Rpm.SpecFacts.in_scope b = true ->
  v_cmp Rpm.Entry.v a b = Spec.Rpm.spec_cmp a b.
Proof. exact Rpm.SpecFacts.rpm_cmp_is_spec'. Qed.
Print Assumptions C11_rpm_cmp_is_spec'.

(* ====================================================================== *)
(* C. clauses that hold for the library beyond the sub-grammar             *)
(* ====================================================================== *)

(* dotted numerals ([numstr t] = the decimal numbers of t joined by "."), any magnitude:
   compared as integer tuples, a proper prefix being older *)
Theorem C11_rpm_numeric : forall t1 t2 : list N,
  t1 <> [] -> t2 <> [] ->
  exists c1 c2 : Rpm.Version.core,
    Rpm.Version.parse_core (Rpm.VersionFacts.numstr t1) = Some c1 /\
    Rpm.Version.parse_core (Rpm.VersionFacts.numstr t2) = Some c2 /\
    Rpm.Version.cmp_core c1 c2 = lex_short N.compare t1 t2.
Proof. exact Rpm.VersionFacts.c03_numeric. Qed.
Print Assumptions C11_rpm_numeric.

(* '~' sorts before everything including the end of the string *)
Theorem C11_rpm_tilde_pre : forall (t : list N) (x : bytes),
  t <> [] -> Rpm.Version.valid_str x = true -> contains_c "-"%char x = false ->
  exists c c' : Rpm.Version.core,
    Rpm.Version.parse_core (Rpm.VersionFacts.numstr t) = Some c /\
    Rpm.Version.parse_core (Rpm.VersionFacts.numstr t ++ "~"%char :: x) = Some c' /\
    Rpm.Version.cmp_core c' c = Lt.
Proof. exact Rpm.VersionFacts.c03_tilde_pre. Qed.
Print Assumptions C11_rpm_tilde_pre.

(* the string with segments remaining is newer: numeral, optional separators other than the
   hyphen (. + ^ _), then a letter or - after at least one separator - a digit *)
Theorem C11_rpm_post : forall (t : list N) (pre : list ascii) (c : ascii) (x : bytes),
  t <> [] ->
  forallb Rpm.VersionFacts.is_sep_nh pre = true ->
  is_alnum c = true ->
  pre <> [] \/ is_letter c = true ->
  Rpm.Version.valid_str x = true -> contains_c "-"%char x = false ->
  exists v v' : Rpm.Version.core,
    Rpm.Version.parse_core (Rpm.VersionFacts.numstr t) = Some v /\
    Rpm.Version.parse_core (Rpm.VersionFacts.numstr t ++ pre ++ c :: x) = Some v' /\
    Rpm.Version.cmp_core v' v = Gt.
Proof. exact Rpm.VersionFacts.c03_post. Qed.
Print Assumptions C11_rpm_post.

(* the epoch decides first ([plain s]: non-empty, valid characters, no hyphen) *)
Theorem C11_rpm_epoch : forall (e1 e2 : N) (s1 s2 : bytes),
  (e1 < two63)%N -> (e2 < two63)%N ->
  Rpm.VersionFacts.plain s1 -> Rpm.VersionFacts.plain s2 ->
  e1 <> e2 ->
  exists v1 v2 : Rpm.Version.core,
    Rpm.Version.parse_core (dec e1 ++ ":"%char :: s1) = Some v1 /\
    Rpm.Version.parse_core (dec e2 ++ ":"%char :: s2) = Some v2 /\
    Rpm.Version.cmp_core v1 v2 = (e1 ?= e2)%N.
Proof. exact Rpm.VersionFacts.c03_epoch. Qed.
Print Assumptions C11_rpm_epoch.

(* ====================================================================== *)
(* D. outside the sub-grammar the library is NOT rpmvercmp                 *)
(* ====================================================================== *)

(* one witness per mechanism: both texts reference-valid, the answers differ.
   1 a letter run glued to a number   2 caret   3 underscore   4 a tilde inside a non-digit run
   5, 6 number against word at the same position, in the version and in the release field *)
Theorem C11_rpm_cmp_is_spec_refuted :
  (Spec.Rpm.spec_valid $"1.0a" = true /\ Spec.Rpm.spec_valid $"1.0.1" = true /\
   v_cmp Rpm.Entry.v $"1.0a" $"1.0.1" <> Spec.Rpm.spec_cmp $"1.0a" $"1.0.1") /\
  (Spec.Rpm.spec_valid $"1.0^git1" = true /\ Spec.Rpm.spec_valid $"1.0.1" = true /\
   v_cmp Rpm.Entry.v $"1.0^git1" $"1.0.1" <> Spec.Rpm.spec_cmp $"1.0^git1" $"1.0.1") /\
  (Spec.Rpm.spec_valid $"1_0" = true /\ Spec.Rpm.spec_valid $"1.0" = true /\
   v_cmp Rpm.Entry.v $"1_0" $"1.0" <> Spec.Rpm.spec_cmp $"1_0" $"1.0") /\
  (Spec.Rpm.spec_valid $"1.0a~rc1" = true /\ Spec.Rpm.spec_valid $"1.0a" = true /\
   v_cmp Rpm.Entry.v $"1.0a~rc1" $"1.0a" <> Spec.Rpm.spec_cmp $"1.0a~rc1" $"1.0a") /\
  (Spec.Rpm.spec_valid $"1.0~1" = true /\ Spec.Rpm.spec_valid $"1.0~a" = true /\
   v_cmp Rpm.Entry.v $"1.0~1" $"1.0~a" <> Spec.Rpm.spec_cmp $"1.0~1" $"1.0~a") /\
  (Spec.Rpm.spec_valid $"1-1" = true /\ Spec.Rpm.spec_valid $"1-a" = true /\
   v_cmp Rpm.Entry.v $"1-1" $"1-a" <> Spec.Rpm.spec_cmp $"1-1" $"1-a").
Proof.
  split; [exact Rpm.SpecFacts.rpm_cmp_is_spec_refuted_alpha_vs_num|].
  split; [exact Rpm.SpecFacts.rpm_cmp_is_spec_refuted_caret|].
  split; [exact Rpm.SpecFacts.rpm_cmp_is_spec_refuted_underscore|].
  split; [exact Rpm.SpecFacts.rpm_cmp_is_spec_refuted_inner_tilde|].
  split; [exact Rpm.SpecFacts.rpm_cmp_is_spec_refuted_num_vs_word|].
  exact Rpm.SpecFacts.rpm_cmp_is_spec_refuted_num_vs_word_release.
Qed.
Print Assumptions C11_rpm_cmp_is_spec_refuted.

(* in each pair a side is outside the sub-grammar *)
Theorem C11_refuted_out_of_scope :
  Rpm.SpecFacts.in_scope $"1.0a" = false /\ Rpm.SpecFacts.in_scope $"1.0^git1" = false /\
  Rpm.SpecFacts.in_scope $"1_0" = false /\ Rpm.SpecFacts.in_scope $"1.0a~rc1" = false /\
  Rpm.SpecFacts.in_scope $"1.0~1" = false /\ Rpm.SpecFacts.in_scope $"1-a" = false.
Proof. exact Rpm.SpecFacts.refuted_out_of_scope. Qed.
Print Assumptions C11_refuted_out_of_scope.

(* the first two with the answers (computed): the property's own examples *)

(* a numeric segment is newer than an alphabetic one, and '^' sorts before any further segment,
   in the reference; not in the library *)
Theorem C11_rpm_differs_from_reference :
  Spec.Rpm.spec_cmp $"1.0a" $"1.0.1" = Some Lt /\ v_cmp Rpm.Entry.v $"1.0a" $"1.0.1" = Some Gt /\
  Spec.Rpm.spec_cmp $"1.0^git1" $"1.0.1" = Some Lt /\ v_cmp Rpm.Entry.v $"1.0^git1" $"1.0.1" = Some Gt.
Proof. vm_compute. repeat split; reflexivity. Qed.
Print Assumptions C11_rpm_differs_from_reference.

(* ====== ties to the source: BEGIN (written by bin/mkties) ====== *)
(* The Go functions named here are translated into Gallina from /repo's source on every run
   (tools/gen -> Gen/Code/<Eco>.v for loop-free functions, Gen/Loops/<Eco>.v for functions with
   loops and index expressions, where a panic is Panic and a loop takes fuel); Tie/<Eco>.v,
   Tie/<Eco>Range.v and Tie/Loops/<Eco>.v prove each translation equal to the model the theorems
   above speak about (and, for the loop functions: no panic, termination within a linear bound).
   If the code changes so that a tie no longer holds, this file no longer checks. *)
Require Verif.Tie.Rpm.
Require Verif.Tie.Loops.Rpm.
Definition C11_tie_rpm_compare := @Verif.Tie.Rpm.tie_rpm_compare.
Definition C11_tie_loops_rpm_isSeparator := @Verif.Tie.Loops.Rpm.tie_loops_rpm_isSeparator.
Definition C11_tie_loops_rpm_isSeparator_rune := @Verif.Tie.Loops.Rpm.tie_loops_rpm_isSeparator_rune.
Definition C11_tie_loops_rpm_compareRPMDigits := @Verif.Tie.Loops.Rpm.tie_loops_rpm_compareRPMDigits.
Definition C11_tie_rpm_compareRPMNonDigits := @Verif.Tie.Loops.Rpm.tie_rpm_compareRPMNonDigits.
Definition C11_tie_loops_rpm_compareRPMVersionString := @Verif.Tie.Loops.Rpm.tie_loops_rpm_compareRPMVersionString.
Definition C11_tie_compareRPMVersionString_total_model := @Verif.Tie.Loops.Rpm.compareRPMVersionString_total_model.
Definition C11_tie_rpm_compare_closed := @Verif.Tie.Loops.Rpm.tie_rpm_compare_closed.
Definition C11_ties_all := (C11_tie_compareRPMVersionString_total_model, (C11_tie_loops_rpm_compareRPMDigits, (C11_tie_loops_rpm_compareRPMVersionString, (C11_tie_loops_rpm_isSeparator, (C11_tie_loops_rpm_isSeparator_rune, (C11_tie_rpm_compare, (C11_tie_rpm_compareRPMNonDigits, C11_tie_rpm_compare_closed))))))).
Print Assumptions C11_ties_all.
(* ====== ties to the source: END ====== *)
