(* C12 — Maven versions order as Maven's ComparableVersion does.              INCOMPLETE.
   Equality with the reference order: see TODO below.  This file states what already exists:
   the reference order (Spec/MavenCV.v, written from org.apache.maven.artifact.versioning.
   ComparableVersion of Maven 3.8 independently of the Go code) with the laws it has, the
   property's own chains as computed examples, and the C03-style facts about the LIBRARY's
   Compare that are part of C12's wording (numeric tuples, pre-release qualifiers below and
   sp above the release, ga/final/release equal to it), together with the library's order
   cycle (finding F-maven-order-cycle).

   Two things the coming equality theorem has to live with, both stated below:
   - the REFERENCE itself is not transitive on exotic shapes (C12_reference_not_transitive,
     found by exhaustive search and confirmed with the 3.8.7 jar), which is why the property
     is restricted to conventionally shaped versions;
   - the LIBRARY is not transitive even on conventional shapes (C12_maven_cycle:
     1-foo < 1-5 < 1-sp < 1-foo) and identifies 1.0.1 with 1.0-1 where the reference separates
     them (C12_maven_differs_from_reference, computed) — so the unrestricted equality is FALSE.

   Proofs live in Spec/MavenCVFacts.v and Eco/Maven/VersionFacts.v. *)
(* TODO: maven_cmp_is_spec — to be added from Eco/Maven/SpecFacts.v
   (with maven_accepts_spec_valid and the *_refuted witnesses outside its scope) *)
From Coq Require Import List NArith.
From Verif.Base Require Import Bytes GoNum Ord.
From Verif.Eco Require Import VLayer Iface.
From Verif.Spec Require MavenCV MavenCVFacts.
From Verif.Eco.Maven Require Version VersionFacts Entry.
Import ListNotations.

(* ====================================================================== *)
(* A. the reference                                                        *)
(* ====================================================================== *)

(* reflexive and antisymmetric everywhere; defined exactly on pairs of valid texts;
   case-insensitive *)
Theorem C12_reference_laws :
  (forall a : MavenCV.item, MavenCV.cv_cmp a a = Eq) /\
  (forall a b : MavenCV.item, MavenCV.cv_cmp b a = CompOpp (MavenCV.cv_cmp a b)) /\
  (forall a b : bytes,
     (exists c, MavenCV.spec_cmp a b = Some c) <->
     MavenCV.spec_valid a = true /\ MavenCV.spec_valid b = true) /\
  (forall a b : bytes, MavenCV.mvn_cmp (to_lower a) (to_lower b) = MavenCV.mvn_cmp a b).
Proof.
  split; [exact MavenCVFacts.cv_cmp_refl|]. split; [exact MavenCVFacts.cv_cmp_anti|].
  split; [exact MavenCVFacts.spec_cmp_some_iff | exact MavenCVFacts.mvn_cmp_case].
Qed.
Print Assumptions C12_reference_laws.

(* the property's chain  alpha < beta < milestone < rc < snapshot < release < sp < other < number,
   with 1-1 < 1.1, and its equalities (trailing zero-like tokens, rc = cr, release = ga = final,
   aliases a/b/m directly followed by a digit, '.' and '-' before a qualifier) *)
Theorem C12_reference_examples :
  map (fun p : bytes * bytes => MavenCV.mvn_cmp (fst p) (snd p))
      [ ($"1-alpha", $"1-beta"); ($"1-beta", $"1-milestone"); ($"1-milestone", $"1-rc");
        ($"1-rc", $"1-snapshot"); ($"1-snapshot", $"1"); ($"1", $"1-sp"); ($"1-sp", $"1-foo");
        ($"1-foo", $"1-1"); ($"1-1", $"1.1") ]
    = [Lt; Lt; Lt; Lt; Lt; Lt; Lt; Lt; Lt] /\
  map (fun p : bytes * bytes => MavenCV.mvn_cmp (fst p) (snd p))
      [ ($"1", $"1.0.0"); ($"1", $"1-ga"); ($"1.0-FINAL", $"1.release"); ($"1-cr2", $"1.0.RC2");
        ($"1.sp", $"1-sp"); ($"1-a1", $"1.0.0-alpha-1"); ($"1-0", $"1"); ($"1.0-rc-0", $"1-rc") ]
    = [Eq; Eq; Eq; Eq; Eq; Eq; Eq; Eq].
Proof. split; [exact MavenCVFacts.ex_qualifier_chain | exact MavenCVFacts.ex_equalities]. Qed.
Print Assumptions C12_reference_examples.

(* ComparableVersion itself has cycles on exotic shapes (a qualifier joined by '.' and followed
   by a separator and a number) *)
Theorem C12_reference_not_transitive :
  (exists a b c : bytes,
     MavenCV.spec_cmp a b = Some Lt /\ MavenCV.spec_cmp b c = Some Lt /\ MavenCV.spec_cmp a c = Some Gt) /\
  (MavenCV.mvn_cmp $"1" $"1-1" = Lt /\ MavenCV.mvn_cmp $"1-1" $"1.0.alpha-0" = Lt /\
   MavenCV.mvn_cmp $"1.0.alpha-0" $"1" = Lt) /\
  (MavenCV.mvn_cmp $"1.foo-2" $"1" = Gt /\ MavenCV.mvn_cmp $"1" $"1-a0" = Gt /\
   MavenCV.mvn_cmp $"1-a0" $"1.foo-2" = Gt).
Proof.
  split; [exact MavenCVFacts.spec_cmp_not_transitive|].
  split; [exact MavenCVFacts.mvn_cmp_cycle_zero | exact MavenCVFacts.mvn_cmp_cycle_word].
Qed.
Print Assumptions C12_reference_not_transitive.

(* ====================================================================== *)
(* B. the library's Compare: the clauses proved so far                     *)
(* ====================================================================== *)

(* [digit_token d]: a non-empty digit run with a value below 2^63.  Dotted numerals of equal
   length compare as integer tuples *)
Theorem C12_maven_numeric : forall (ds1 ds2 : list bytes) (c1 c2 : Maven.Version.core),
  ds1 <> [] -> ds2 <> [] ->
  Forall Maven.VersionFacts.digit_token ds1 -> Forall Maven.VersionFacts.digit_token ds2 ->
  length ds1 = length ds2 ->
  Maven.Version.parse_core (join $"." ds1) = Some c1 ->
  Maven.Version.parse_core (join $"." ds2) = Some c2 ->
  Maven.Version.cmp_core c1 c2 = lex_short N.compare (map digits_val ds1) (map digits_val ds2).
Proof. exact Maven.VersionFacts.c03_numeric. Qed.
Print Assumptions C12_maven_numeric.

(* pre-release qualifiers (alpha a beta b milestone m rc cr snapshot, some in other letter cases)
   are below the release *)
Theorem C12_maven_pre : forall (ds : list bytes) (q : bytes) (cq c : Maven.Version.core),
  ds <> [] -> Forall Maven.VersionFacts.digit_token ds ->
  In q Maven.VersionFacts.pre_markers ->
  Maven.Version.parse_core (join $"." ds ++ $"-" ++ q) = Some cq ->
  Maven.Version.parse_core (join $"." ds) = Some c ->
  Maven.Version.cmp_core cq c = Lt.
Proof. exact Maven.VersionFacts.c03_pre. Qed.
Print Assumptions C12_maven_pre.

Theorem C12_maven_markers_def :
  Maven.VersionFacts.pre_markers =
    [ $"alpha"; $"a"; $"beta"; $"b"; $"milestone"; $"m"; $"rc"; $"cr"; $"snapshot";
      $"SNAPSHOT"; $"RC"; $"Alpha" ] /\
  Maven.VersionFacts.post_markers = [ $"sp"; $"SP" ].
Proof. split; reflexivity. Qed.
Print Assumptions C12_maven_markers_def.

(* sp is above the release *)
Theorem C12_maven_post : forall (ds : list bytes) (q : bytes) (cq c : Maven.Version.core),
  ds <> [] -> Forall Maven.VersionFacts.digit_token ds ->
  In q Maven.VersionFacts.post_markers ->
  Maven.Version.parse_core (join $"." ds ++ $"-" ++ q) = Some cq ->
  Maven.Version.parse_core (join $"." ds) = Some c ->
  Maven.Version.cmp_core cq c = Gt.
Proof. exact Maven.VersionFacts.c03_post. Qed.
Print Assumptions C12_maven_post.

(* ga, final, release ARE the release: the parsed structures are identical *)
Theorem C12_maven_release_alias : forall (ds : list bytes) (q : bytes) (cq c : Maven.Version.core),
  ds <> [] -> Forall Maven.VersionFacts.digit_token ds ->
  In q [ $"ga"; $"final"; $"release"; $"GA"; $"Final"; $"RELEASE" ] ->
  Maven.Version.parse_core (join $"." ds ++ $"-" ++ q) = Some cq ->
  Maven.Version.parse_core (join $"." ds) = Some c ->
  cq = c.
Proof. exact Maven.VersionFacts.c03_release_alias. Qed.
Print Assumptions C12_maven_release_alias.

(* ====================================================================== *)
(* C. the library deviates                                                 *)
(* ====================================================================== *)

(* FINDING F-maven-order-cycle: unknown qualifier < number < sp < unknown qualifier *)
Theorem C12_maven_cycle :
  exists (a b c : bytes) (va vb vc : Maven.Version.ver),
    a = $"1-foo" /\ b = $"1-5" /\ c = $"1-sp" /\
    Maven.Version.parse a = Some va /\ Maven.Version.parse b = Some vb /\ Maven.Version.parse c = Some vc /\
    Maven.Version.cmp va vb = Lt /\ Maven.Version.cmp vb vc = Lt /\ Maven.Version.cmp va vc = Gt.
Proof. exact Maven.VersionFacts.cmp_not_transitive. Qed.
Print Assumptions C12_maven_cycle.

(* '.' and '-' are not interchangeable before a number in the reference (1-1 < 1.0.1); the
   library identifies them (computed) *)
Theorem C12_maven_differs_from_reference :
  MavenCV.spec_cmp $"1.0.1" $"1.0-1" = Some Gt /\ v_cmp Maven.Entry.v $"1.0.1" $"1.0-1" = Some Eq.
Proof. vm_compute. split; reflexivity. Qed.
Print Assumptions C12_maven_differs_from_reference.
