(* C12 — Maven versions order as Maven's ComparableVersion does.
   Statements only; the proofs live in Eco/Maven/SpecFacts.v, Spec/MavenCVFacts.v and
   Eco/Maven/VersionFacts.v.

   The reference is Spec/MavenCV.v, written from org.apache.maven.artifact.versioning.
   ComparableVersion (Maven 3.8) independently of the Go code: [parse_cv] builds the nested item
   lists, [cv_cmp] / [mvn_cmp] compare them; [spec_valid] = the property's conventional shapes,
   [spec_cmp a b] = [Some (mvn_cmp a b)] on valid texts.  The check cross-validates it against
   the Maven jar.

   The property as worded is FALSE for the library (open finding F-maven-not-comparableversion):
   the Go code keeps ONE flat element list where ComparableVersion nests lists, so sp, the
   release words, unknown qualifiers, build numbers, separated qualifier numbers and zeros
   before a qualifier are ordered differently.  What is proved is the equality on the
   complement of the finding's class.  The class is "a side is outside
          N(.N){0,3} [ (.|-) W D ]
   where every N is a non-empty run of digits of ANY length (the library parses numbers with
   math/big, as ComparableVersion's BigIntegerItem does) and either W is one of
   alpha|beta|milestone|rc|cr|snapshot in any letter case with D a possibly empty run of glued
   digits, or W is one of a|b|m with D a non-empty run of glued digits (any length in both cases);
   and, when the group is present, the value of the last N is not 0", recognised by
   [in_scope] (C12_scope_def spells it out).  On it every text is accepted and Compare IS
   ComparableVersion (C12_maven_cmp_is_spec).  Outside it the library deviates, one witness per
   mechanism, including one showing that the non-zero side condition is needed (Part D).

   Independently of that finding:
   - the REFERENCE itself is not transitive on exotic shapes (C12_reference_not_transitive,
     found by exhaustive search and confirmed with the 3.8.7 jar), which is why the property
     is restricted to conventionally shaped versions;
   - the LIBRARY is not transitive even on conventional shapes (finding F-maven-order-cycle,
     C12_maven_cycle: 1-foo < 1-5 < 1-sp < 1-foo); none of the three is in [in_scope].

   A  the reference: laws, the property's chains, its own cycles
   B  the library against the reference, on the class
   C  clauses of the property that hold for the library beyond the class (C03-style)
   D  outside the class: the witnesses *)
From Coq Require Import List NArith.
From Verif.Base Require Import Bytes GoNum Ord.
From Verif.Eco Require Import VLayer Iface.
From Verif.Spec Require MavenCV MavenCVFacts.
From Verif.Eco.Maven Require Version VersionFacts Entry SpecFacts.
Import ListNotations.

(* ====================================================================== *)
(* A. the reference                                                        *)
(* ====================================================================== *)

(* reflexive and antisymmetric everywhere; defined exactly on pairs of valid texts;
   case-insensitive *)
Theorem C12_reference_laws :
  (forall a : MavenCV.item, MavenCV.cv_cmp a a = Eq) /\
  (forall a b : MavenCV.item, MavenCV.cv_cmp b a = CompOpp (MavenCV.cv_cmp a b)) /\
  (forall a b : bytes,
     (exists c, MavenCV.spec_cmp a b = Some c) <->
     MavenCV.spec_valid a = true /\ MavenCV.spec_valid b = true) /\
  (forall a b : bytes, MavenCV.mvn_cmp (to_lower a) (to_lower b) = MavenCV.mvn_cmp a b).
Proof.
  split; [exact MavenCVFacts.cv_cmp_refl|]. split; [exact MavenCVFacts.cv_cmp_anti|].
  split; [exact MavenCVFacts.spec_cmp_some_iff | exact MavenCVFacts.mvn_cmp_case].
Qed.
Print Assumptions C12_reference_laws.

(* the property's chain  alpha < beta < milestone < rc < snapshot < release < sp < other < number,
   with 1-1 < 1.1, and its equalities (trailing zero-like tokens, rc = cr, release = ga = final,
   aliases a/b/m directly followed by a digit, '.' and '-' before a qualifier) *)
Theorem C12_reference_examples :
  map (fun p : bytes * bytes => MavenCV.mvn_cmp (fst p) (snd p))
      [ ($"1-alpha", $"1-beta"); ($"1-beta", $"1-milestone"); ($"1-milestone", $"1-rc");
        ($"1-rc", $"1-snapshot"); ($"1-snapshot", $"1"); ($"1", $"1-sp"); ($"1-sp", $"1-foo");
        ($"1-foo", $"1-1"); ($"1-1", $"1.1") ]
    = [Lt; Lt; Lt; Lt; Lt; Lt; Lt; Lt; Lt] /\
  map (fun p : bytes * bytes => MavenCV.mvn_cmp (fst p) (snd p))
      [ ($"1", $"1.0.0"); ($"1", $"1-ga"); ($"1.0-FINAL", $"1.release"); ($"1-cr2", $"1.0.RC2");
        ($"1.sp", $"1-sp"); ($"1-a1", $"1.0.0-alpha-1"); ($"1-0", $"1"); ($"1.0-rc-0", $"1-rc") ]
    = [Eq; Eq; Eq; Eq; Eq; Eq; Eq; Eq].
Proof. split; [exact MavenCVFacts.ex_qualifier_chain | exact MavenCVFacts.ex_equalities]. Qed.
Print Assumptions C12_reference_examples.

(* ComparableVersion itself has cycles on exotic shapes (a qualifier joined by '.' and followed
   by a separator and a number) *)
Theorem C12_reference_not_transitive :
  (exists a b c : bytes,
     MavenCV.spec_cmp a b = Some Lt /\ MavenCV.spec_cmp b c = Some Lt /\ MavenCV.spec_cmp a c = Some Gt) /\
  (MavenCV.mvn_cmp $"1" $"1-1" = Lt /\ MavenCV.mvn_cmp $"1-1" $"1.0.alpha-0" = Lt /\
   MavenCV.mvn_cmp $"1.0.alpha-0" $"1" = Lt) /\
  (MavenCV.mvn_cmp $"1.foo-2" $"1" = Gt /\ MavenCV.mvn_cmp $"1" $"1-a0" = Gt /\
   MavenCV.mvn_cmp $"1-a0" $"1.foo-2" = Gt).
Proof.
  split; [exact MavenCVFacts.spec_cmp_not_transitive|].
  split; [exact MavenCVFacts.mvn_cmp_cycle_zero | exact MavenCVFacts.mvn_cmp_cycle_word].
Qed.
Print Assumptions C12_reference_not_transitive.

(* ====================================================================== *)
(* B. the library against the reference, on the class                      *)
(* ====================================================================== *)

(* the class, layer by layer: the leading N(.N){0,3} is scanned off ([scan_nums 3]: a "." continues
   it only when a digit follows, at most three times), every N is a non-empty digit run (no bound
   on its length, nor on the length of the digits glued to the qualifier), and what remains is empty
   or one group *)
Theorem C12_scope_def :
  (forall s : bytes,
     Maven.SpecFacts.in_scope s =
     (let (ds, rest) := Maven.SpecFacts.scan_nums 3 s in
      forallb (fun d => nonempty_digits d) ds &&
      Maven.SpecFacts.group_ok (last ds []) rest)) /\
  (forall (k : nat) (s : bytes),
     Maven.SpecFacts.scan_nums k s =
     (let d := take_while is_digit s in
      let r := drop_while is_digit s in
      match k, r with
      | S k', c :: r' =>
          if ceqb c "."%char && match r' with x :: _ => is_digit x | [] => false end
          then let (ds, rest) := Maven.SpecFacts.scan_nums k' r' in (d :: ds, rest)
          else ([d], r)
      | _, _ => ([d], r)
      end)) /\
  (forall last_num rest : bytes,
     Maven.SpecFacts.group_ok last_num rest =
     match rest with
     | [] => true
     | sep :: r =>
         let w := take_while is_letter r in
         let dg := drop_while is_letter r in
         (ceqb sep "."%char || ceqb sep "-"%char) && forallb is_digit dg
         && (mem (to_lower w) [ $"alpha"; $"beta"; $"milestone"; $"rc"; $"cr"; $"snapshot" ]
             || (mem (to_lower w) [ $"a"; $"b"; $"m" ] && match dg with [] => false | _ => true end))
         && negb (digits_val last_num =? 0)%N
     end).
Proof.
  split; [intros s; reflexivity|]. split; [intros k s; destruct k; reflexivity|].
  intros last_num rest. reflexivity.
Qed.
Print Assumptions C12_scope_def.

(* members and non-members of the class, and the members are conventional shapes *)
Theorem C12_scope_examples :
  forallb Maven.SpecFacts.in_scope
    [ $"1"; $"1.0.0"; $"007.2.3.4"; $"1-rc"; $"1.RC2"; $"2.5-SNAPSHOT"; $"1.2-cr01";
      $"3-a1"; $"3.1.B2"; $"1.0.1-m3"; $"1-alpha0"; $"123456789012345678.1-beta9";
      $"1234567890123456789"; $"1.18446744073709551616"; $"9223372036854775808.0.1";
      $"1.99999999999999999999-rc100000000000000000000"; $"1-a00000000000000000001";
      $"123456789012345678901234567890.1-beta99999999999999999999" ] = true /\
  forallb (fun s => negb (Maven.SpecFacts.in_scope s))
    [ $""; $"1."; $"1.2.3.4.5"; $"1.0-rc1"; $"1-a"; $"1-sp"; $"1-rc-1"; $"1-rc.1"; $"1-jre"; $"1-1";
      $"1-rc1x"; $"v1"; $"1 "; $"0-rc"; $"00000000000000000000-rc"; $"1.00000000000000000000.b2";
      $"18446744073709551616-sp"; $"1-rc18446744073709551616x" ] = true /\
  forallb MavenCV.spec_valid
    [ $"1"; $"1.0.0"; $"007.2.3.4"; $"1-rc"; $"1.RC2"; $"2.5-SNAPSHOT"; $"1.2-cr01";
      $"3-a1"; $"3.1.B2"; $"1.0.1-m3"; $"1-alpha0"; $"123456789012345678.1-beta9";
      $"1234567890123456789"; $"1.18446744073709551616"; $"9223372036854775808.0.1";
      $"1.99999999999999999999-rc100000000000000000000"; $"1-a00000000000000000001";
      $"123456789012345678901234567890.1-beta99999999999999999999" ] = true.
Proof.
  destruct Maven.SpecFacts.in_scope_examples as [H1 H2].
  split; [exact H1|]. split; [exact H2 | exact Maven.SpecFacts.in_scope_examples_conventional].
Qed.
Print Assumptions C12_scope_examples.

Theorem C12_maven_accepts_spec_valid : forall s : bytes,
  Maven.SpecFacts.in_scope s = true -> MavenCV.spec_valid s = true ->
  exists t, v_show Maven.Entry.v s = Some t.
Proof. exact Maven.SpecFacts.maven_accepts_spec_valid. Qed.
Print Assumptions C12_maven_accepts_spec_valid.

(* Compare is ComparableVersion *)
Theorem C12_maven_cmp_is_spec : forall a b : bytes,
  Maven.SpecFacts.in_scope a = true -> Maven.SpecFacts.in_scope b = true ->
  MavenCV.spec_valid a = true -> MavenCV.spec_valid b = true ->
  v_cmp Maven.Entry.v a b = MavenCV.spec_cmp a b.
Proof. exact Maven.SpecFacts.maven_cmp_is_spec. Qed.
Print Assumptions C12_maven_cmp_is_spec.

(* ====================================================================== *)
(* C. clauses that hold for the library beyond the class                   *)
(* ====================================================================== *)

(* [digit_token d]: a non-empty digit run (of any length).  Dotted numerals of equal
   length compare as integer tuples *)
Theorem C12_maven_numeric : forall (ds1 ds2 : list bytes) (c1 c2 : Maven.Version.core),
  ds1 <> [] -> ds2 <> [] ->
  Forall Maven.VersionFacts.digit_token ds1 -> Forall Maven.VersionFacts.digit_token ds2 ->
  length ds1 = length ds2 ->
  Maven.Version.parse_core (join $"." ds1) = Some c1 ->
  Maven.Version.parse_core (join $"." ds2) = Some c2 ->
  Maven.Version.cmp_core c1 c2 = lex_short N.compare (map digits_val ds1) (map digits_val ds2).
Proof. exact Maven.VersionFacts.c03_numeric. Qed.
Print Assumptions C12_maven_numeric.

(* pre-release qualifiers (alpha a beta b milestone m rc cr snapshot, some in other letter cases)
   are below the release *)
Theorem C12_maven_pre : forall (ds : list bytes) (q : bytes) (cq c : Maven.Version.core),
  ds <> [] -> Forall Maven.VersionFacts.digit_token ds ->
  In q Maven.VersionFacts.pre_markers ->
  Maven.Version.parse_core (join $"." ds ++ $"-" ++ q) = Some cq ->
  Maven.Version.parse_core (join $"." ds) = Some c ->
  Maven.Version.cmp_core cq c = Lt.
Proof. exact Maven.VersionFacts.c03_pre. Qed.
Print Assumptions C12_maven_pre.

Theorem C12_maven_markers_def :
  Maven.VersionFacts.pre_markers =
    [ $"alpha"; $"a"; $"beta"; $"b"; $"milestone"; $"m"; $"rc"; $"cr"; $"snapshot";
      $"SNAPSHOT"; $"RC"; $"Alpha" ] /\
  Maven.VersionFacts.post_markers = [ $"sp"; $"SP" ].
Proof. split; reflexivity. Qed.
Print Assumptions C12_maven_markers_def.

(* sp is above the release *)
Theorem C12_maven_post : forall (ds : list bytes) (q : bytes) (cq c : Maven.Version.core),
  ds <> [] -> Forall Maven.VersionFacts.digit_token ds ->
  In q Maven.VersionFacts.post_markers ->
  Maven.Version.parse_core (join $"." ds ++ $"-" ++ q) = Some cq ->
  Maven.Version.parse_core (join $"." ds) = Some c ->
  Maven.Version.cmp_core cq c = Gt.
Proof. exact Maven.VersionFacts.c03_post. Qed.
Print Assumptions C12_maven_post.

(* ga, final, release ARE the release: the parsed structures are identical *)
Theorem C12_maven_release_alias : forall (ds : list bytes) (q : bytes) (cq c : Maven.Version.core),
  ds <> [] -> Forall Maven.VersionFacts.digit_token ds ->
  In q [ $"ga"; $"final"; $"release"; $"GA"; $"Final"; $"RELEASE" ] ->
  Maven.Version.parse_core (join $"." ds ++ $"-" ++ q) = Some cq ->
  Maven.Version.parse_core (join $"." ds) = Some c ->
  cq = c.
Proof. exact Maven.VersionFacts.c03_release_alias. Qed.
Print Assumptions C12_maven_release_alias.

(* ====================================================================== *)
(* D. outside the class the library is NOT ComparableVersion               *)
(* ====================================================================== *)

(* one witness per mechanism: both texts conventional, both sides answer, the answers differ *)
(* sp sorts above every number in the library, below in the reference *)
Theorem C12_maven_cmp_is_spec_refuted_sp :
  MavenCV.spec_valid $"1-sp" = true /\ MavenCV.spec_valid $"1.0.1" = true /\
  exists x y : comparison,
    v_cmp Maven.Entry.v $"1-sp" $"1.0.1" = Some x /\ MavenCV.spec_cmp $"1-sp" $"1.0.1" = Some y /\ x <> y.
Proof. exact Maven.SpecFacts.maven_cmp_is_spec_refuted_sp. Qed.
Print Assumptions C12_maven_cmp_is_spec_refuted_sp.

(* unknown qualifiers sort below the release in the library, above it in the reference *)
Theorem C12_maven_cmp_is_spec_refuted_unknown_qualifier :
  MavenCV.spec_valid $"1.0-jre" = true /\ MavenCV.spec_valid $"1.0" = true /\
  exists x y : comparison,
    v_cmp Maven.Entry.v $"1.0-jre" $"1.0" = Some x /\ MavenCV.spec_cmp $"1.0-jre" $"1.0" = Some y /\ x <> y.
Proof. exact Maven.SpecFacts.maven_cmp_is_spec_refuted_unknown_qualifier. Qed.
Print Assumptions C12_maven_cmp_is_spec_refuted_unknown_qualifier.

(* '.' and '-' before a number are the same separator for the library *)
Theorem C12_maven_cmp_is_spec_refuted_dash_number :
  MavenCV.spec_valid $"1.0.1" = true /\ MavenCV.spec_valid $"1.0-1" = true /\
  exists x y : comparison,
    v_cmp Maven.Entry.v $"1.0.1" $"1.0-1" = Some x /\ MavenCV.spec_cmp $"1.0.1" $"1.0-1" = Some y /\ x <> y.
Proof. exact Maven.SpecFacts.maven_cmp_is_spec_refuted_dash_number. Qed.
Print Assumptions C12_maven_cmp_is_spec_refuted_dash_number.

(* zeros before a qualifier are kept by the library, dropped by the reference *)
Theorem C12_maven_cmp_is_spec_refuted_zero_before_qualifier :
  MavenCV.spec_valid $"99-cr" = true /\ MavenCV.spec_valid $"99.0.cr" = true /\
  exists x y : comparison,
    v_cmp Maven.Entry.v $"99-cr" $"99.0.cr" = Some x /\ MavenCV.spec_cmp $"99-cr" $"99.0.cr" = Some y /\ x <> y.
Proof. exact Maven.SpecFacts.maven_cmp_is_spec_refuted_zero_before_qualifier. Qed.
Print Assumptions C12_maven_cmp_is_spec_refuted_zero_before_qualifier.

(* a qualifier's number that is separated rather than glued *)
Theorem C12_maven_cmp_is_spec_refuted_separated_number :
  MavenCV.spec_valid $"10.milestone-9" = true /\ MavenCV.spec_valid $"10-m9" = true /\
  exists x y : comparison,
    v_cmp Maven.Entry.v $"10.milestone-9" $"10-m9" = Some x /\ MavenCV.spec_cmp $"10.milestone-9" $"10-m9" = Some y /\ x <> y.
Proof. exact Maven.SpecFacts.maven_cmp_is_spec_refuted_separated_number. Qed.
Print Assumptions C12_maven_cmp_is_spec_refuted_separated_number.

(* a release word in the middle *)
Theorem C12_maven_cmp_is_spec_refuted_release_word :
  MavenCV.spec_valid $"0.0-ga.1" = true /\ MavenCV.spec_valid $"0.0.1" = true /\
  exists x y : comparison,
    v_cmp Maven.Entry.v $"0.0-ga.1" $"0.0.1" = Some x /\ MavenCV.spec_cmp $"0.0-ga.1" $"0.0.1" = Some y /\ x <> y.
Proof. exact Maven.SpecFacts.maven_cmp_is_spec_refuted_release_word. Qed.
Print Assumptions C12_maven_cmp_is_spec_refuted_release_word.

(* the non-zero side condition of the class is needed *)
Theorem C12_maven_cmp_is_spec_refuted_zero_condition :
  MavenCV.spec_valid $"1.0-rc1" = true /\ MavenCV.spec_valid $"1-rc1" = true /\
  exists x y : comparison,
    v_cmp Maven.Entry.v $"1.0-rc1" $"1-rc1" = Some x /\ MavenCV.spec_cmp $"1.0-rc1" $"1-rc1" = Some y /\ x <> y.
Proof. exact Maven.SpecFacts.maven_cmp_is_spec_refuted_zero_condition. Qed.
Print Assumptions C12_maven_cmp_is_spec_refuted_zero_condition.

(* ----- the library's own order cycle ----- *)

(* FINDING F-maven-order-cycle: unknown qualifier < number < sp < unknown qualifier *)
Theorem C12_maven_cycle :
  exists (a b c : bytes) (va vb vc : Maven.Version.ver),
    a = $"1-foo" /\ b = $"1-5" /\ c = $"1-sp" /\
    Maven.Version.parse a = Some va /\ Maven.Version.parse b = Some vb /\ Maven.Version.parse c = Some vc /\
    Maven.Version.cmp va vb = Lt /\ Maven.Version.cmp vb vc = Lt /\ Maven.Version.cmp va vc = Gt.
Proof. exact Maven.VersionFacts.cmp_not_transitive. Qed.
Print Assumptions C12_maven_cycle.

(* the dash_number witness with its answers (computed): '.' and '-' are not interchangeable
   before a number in the reference (1-1 < 1.0.1); the library identifies them *)
Theorem C12_maven_differs_from_reference :
  MavenCV.spec_cmp $"1.0.1" $"1.0-1" = Some Gt /\ v_cmp Maven.Entry.v $"1.0.1" $"1.0-1" = Some Eq.
Proof. vm_compute. split; reflexivity. Qed.
Print Assumptions C12_maven_differs_from_reference.

(* ====== ties to the source: BEGIN (written by bin/mkties) ====== *)
(* The Go functions named here are translated into Gallina from /repo's source on every run
   (tools/gen -> Gen/Code/<Eco>.v for loop-free functions, Gen/Loops/<Eco>.v for functions with
   loops and index expressions, where a panic is Panic and a loop takes fuel); Tie/<Eco>.v,
   Tie/<Eco>Range.v and Tie/Loops/<Eco>.v prove each translation equal to the model the theorems
   above speak about (and, for the loop functions: no panic, termination within a linear bound).
   If the code changes so that a tie no longer holds, this file no longer checks. *)
Require Verif.Tie.Loops.Maven.
Require Verif.Tie.Extra.Maven.
Definition C12_tie_loops_maven_trimTrailingNulls_gen := @Verif.Tie.Loops.Maven.tie_loops_maven_trimTrailingNulls_gen.
Definition C12_tie_loops_maven_trimTrailingNulls := @Verif.Tie.Loops.Maven.tie_loops_maven_trimTrailingNulls.
Definition C12_tie_trimTrailingNulls_total_model := @Verif.Tie.Loops.Maven.trimTrailingNulls_total_model.
Definition C12_tie_maven_normalizeQualifier := @Verif.Tie.Extra.Maven.tie_maven_normalizeQualifier.
Definition C12_tie_maven_elem_of := @Verif.Tie.Extra.Maven.tie_maven_elem_of.
Definition C12_ties_all := (C12_tie_loops_maven_trimTrailingNulls, (C12_tie_loops_maven_trimTrailingNulls_gen, (C12_tie_maven_elem_of, (C12_tie_maven_normalizeQualifier, C12_tie_trimTrailingNulls_total_model)))).
Print Assumptions C12_ties_all.
(* ====== ties to the source: END ====== *)
