(* C13 — RubyGems versions order as Gem::Version does.
   Statements only; the proofs live in Eco/Gem/SpecFacts.v, Spec/GemVersionFacts.v and
   Eco/Gem/VersionFacts.v.

   The reference is Spec/GemVersion.v, written from rubygems/version.rb independently of the Go
   code: [gem_valid] is RubyGems' VERSION_PATTERN on the stripped text; the segments are those
   of version.strip.gsub("-", ".pre.") scanned into digit and letter runs, trailing zero
   segments dropped, compared position by position with a missing segment counting as 0,
   numbers as integers of any size, strings alphabetically, a string below a number;
   [spec_valid] = [gem_valid], [spec_cmp a b] = [Some (gem_cmp a b)] on valid texts.

   Scope.  [in_scope s] (C13_scope_def spells it out): after trimming, the text is accepted
   by the library's own pattern, has no upper-case letter (the library lower-cases, Gem::Version
   is case-sensitive - the property does not claim case folding), no empty field between or
   after hyphens (the library collapses "--" and drops a trailing "-", RubyGems reads each "-" as
   ".pre."), and every number is below 2^63 (larger ones become TEXT segments in the library).
   These four classes are exactly the complement of the scope (C13_scope_complement), each
   holds a witness where the library deviates (Part D), and on the scope every RubyGems-valid
   text is accepted unchanged and Compare IS Gem::Version#<=> (C13_gem_cmp_is_spec).
   The first class also contains RubyGems-valid texts the library REJECTS (1.rc.1, 1.2a, 1.a1b:
   C13_gem_accepts_refuted) - the property's "strings the gem ecosystem accepts" excludes them.

   A  the reference: laws, segment rules, RubyGems' own assertions
   B  the library against the reference, on the scope
   C  clauses of the property proved directly on the library (C03-style)
   D  outside the scope: the witnesses *)
From Coq Require Import List NArith.
From Verif.Base Require Import Bytes GoNum Ord.
From Verif.Eco Require Import VLayer Iface.
From Verif.Spec Require GemVersion GemVersionFacts.
From Verif.Eco.Gem Require Version VersionFacts Entry SpecFacts.
Import ListNotations.

(* ====================================================================== *)
(* A. the reference                                                        *)
(* ====================================================================== *)

Theorem C13_reference_is_total_preorder :
  TotalPreorder GemVersion.gem_cmp_segs /\ TotalPreorder GemVersion.gem_cmp.
Proof. split; [exact GemVersionFacts.TP_gem_cmp_segs | exact GemVersionFacts.TP_gem_cmp]. Qed.
Print Assumptions C13_reference_is_total_preorder.

(* in the property's wording, for any three texts *)
Theorem C13_reference_laws : forall a b c : bytes, preorder_laws GemVersion.gem_cmp a b c.
Proof. exact GemVersionFacts.spec_cmp_laws. Qed.
Print Assumptions C13_reference_laws.

(* the reference answer is defined exactly on pairs of valid texts *)
Theorem C13_reference_domain : forall (a b : bytes) (c : comparison),
  GemVersion.spec_cmp a b = Some c <->
  GemVersion.spec_valid a = true /\ GemVersion.spec_valid b = true /\ c = GemVersion.gem_cmp a b.
Proof. exact GemVersionFacts.spec_cmp_some. Qed.
Print Assumptions C13_reference_domain.

(* segments position by position, a missing segment counting as 0; numbers as integers; a string
   segment lower than a number segment *)
Theorem C13_reference_segments :
  (forall l r : list GemVersion.seg,
     GemVersion.gem_cmp_segs l r = lex_pad (GemVersion.SInt 0) GemVersion.seg_cmp l r) /\
  (forall a b : N, GemVersion.seg_cmp (GemVersion.SInt a) (GemVersion.SInt b) = (a ?= b)%N) /\
  (forall (s : bytes) (n : N), GemVersion.seg_cmp (GemVersion.SStr s) (GemVersion.SInt n) = Lt).
Proof.
  split; [exact GemVersionFacts.gem_cmp_segs_lex_pad|].
  split; [exact GemVersionFacts.seg_cmp_int_int | exact GemVersionFacts.seg_cmp_str_int].
Qed.
Print Assumptions C13_reference_segments.

(* the assertions of RubyGems' test_gem_version.rb (list [gem_ref_assertions], which includes
   2.0.0.rc1 < 2.0.0), '-' = '.pre.', and integers beyond 64 bits *)
Theorem C13_reference_examples :
  forallb (fun t : bytes * bytes * comparison =>
             match GemVersion.spec_cmp (fst (fst t)) (snd (fst t)) with
             | Some c => GemVersionFacts.comparison_eqb c (snd t)
             | None => false
             end) GemVersionFacts.gem_ref_assertions = true /\
  (GemVersion.gem_cmp $"1-rc1" $"1.pre.rc1" = Eq /\ GemVersion.gem_cmp $"1-rc1" $"1.rc1" = Lt) /\
  (GemVersion.gem_cmp $"1.18446744073709551616" $"1.0" = Gt /\
   GemVersion.gem_cmp $"1.18446744073709551617" $"1.18446744073709551616" = Gt).
Proof.
  split; [exact GemVersionFacts.gem_ref_assertions_hold|].
  split; [exact GemVersionFacts.gem_dash_is_dot_pre | exact GemVersionFacts.gem_big_numbers].
Qed.
Print Assumptions C13_reference_examples.

(* ====================================================================== *)
(* B. the library against the reference, on the scope                      *)
(* ====================================================================== *)

Theorem C13_scope_def : forall s : bytes,
  Gem.SpecFacts.in_scope s =
  (let t := trim_space s in
   Gem.Version.pattern t
   && forallb (fun c => negb (is_upper c)) t
   && forallb (fun p : bytes => match p with [] => false | _ => true end) (split_c "-"%char t)
   && forallb (fun x => match x with
                        | GemVersion.SInt n => (n <? two63)%N
                        | GemVersion.SStr _ => true
                        end) (GemVersion.gem_segments s)).
Proof. intros s. reflexivity. Qed.
Print Assumptions C13_scope_def.

(* the complement of the scope is exactly the union of four classes *)
Theorem C13_scope_complement : forall s : bytes,
  Gem.SpecFacts.in_scope s =
  negb (negb (Gem.Version.pattern (trim_space s))
        || existsb is_upper (trim_space s)
        || negb (forallb (fun p : bytes => match p with [] => false | _ => true end)
                         (split_c "-"%char (trim_space s)))
        || negb (forallb Gem.SpecFacts.seg_small (GemVersion.gem_segments s))).
Proof. exact Gem.SpecFacts.in_scope_complement. Qed.
Print Assumptions C13_scope_complement.

(* Compare is Gem::Version#<=> *)
Theorem C13_gem_cmp_is_spec : forall a b : bytes,
  Gem.SpecFacts.in_scope a = true -> Gem.SpecFacts.in_scope b = true ->
  GemVersion.spec_valid a = true -> GemVersion.spec_valid b = true ->
  v_cmp Gem.Entry.v a b = GemVersion.spec_cmp a b.
Proof. exact Gem.SpecFacts.gem_cmp_is_spec. Qed.
Print Assumptions C13_gem_cmp_is_spec.

Theorem C13_gem_accepts_spec_valid : forall s : bytes,
  Gem.SpecFacts.in_scope s = true -> GemVersion.spec_valid s = true ->
  exists t, v_show Gem.Entry.v s = Some t.
Proof. exact Gem.SpecFacts.gem_accepts_spec_valid. Qed.
Print Assumptions C13_gem_accepts_spec_valid.

(* and String() returns the text itself *)
Theorem C13_gem_show_spec_valid : forall s : bytes,
  Gem.SpecFacts.in_scope s = true -> GemVersion.spec_valid s = true ->
  v_show Gem.Entry.v s = Some s.
Proof. exact Gem.SpecFacts.gem_show_spec_valid. Qed.
Print Assumptions C13_gem_show_spec_valid.

(* ====================================================================== *)
(* C. clauses proved directly on the library                               *)
(* ====================================================================== *)

(* [dots t] = the decimal numbers of t joined by "."; [small t] = every number below 2^63.
   Numeric tuples of equal length compare as integer tuples ... *)
Theorem C13_gem_tuples : forall t1 t2 : list N,
  t1 <> [] -> Gem.VersionFacts.small t1 -> Gem.VersionFacts.small t2 ->
  length t1 = length t2 ->
  exists v1 v2 : Gem.Version.ver,
    Gem.Version.parse (Gem.VersionFacts.dots t1) = Some v1 /\
    Gem.Version.parse (Gem.VersionFacts.dots t2) = Some v2 /\
    Gem.Version.cmp v1 v2 = lex_short N.compare t1 t2.
Proof. exact Gem.VersionFacts.c03_tuples. Qed.
Print Assumptions C13_gem_tuples.

(* ... and of different length with the shorter one padded with zeros (1.2 = 1.2.0 < 1.2.1) *)
Theorem C13_gem_tuples_padded : forall t1 t2 : list N,
  t1 <> [] -> t2 <> [] -> Gem.VersionFacts.small t1 -> Gem.VersionFacts.small t2 ->
  exists v1 v2 : Gem.Version.ver,
    Gem.Version.parse (Gem.VersionFacts.dots t1) = Some v1 /\
    Gem.Version.parse (Gem.VersionFacts.dots t2) = Some v2 /\
    Gem.Version.cmp v1 v2 = lex_pad 0%N N.compare t1 t2.
Proof. exact Gem.VersionFacts.c03_tuples_padded. Qed.
Print Assumptions C13_gem_tuples_padded.

(* the hyphenated spelling: N(.N)*-x, x any non-empty mix of digits, letters and dots, is a
   pre-release of N(.N)* *)
Theorem C13_gem_dash_marker_lt : forall (t : list N) (x : list ascii),
  t <> [] -> Gem.VersionFacts.small t ->
  x <> [] -> forallb Gem.VersionFacts.dl x = true ->
  exists v1 v2 : Gem.Version.ver,
    Gem.Version.parse (Gem.VersionFacts.dots t ++ "-"%char :: x) = Some v1 /\
    Gem.Version.parse (Gem.VersionFacts.dots t) = Some v2 /\
    Gem.Version.cmp v1 v2 = Lt.
Proof. exact Gem.VersionFacts.c03_dash_marker_lt. Qed.
Print Assumptions C13_gem_dash_marker_lt.

(* the dotted spelling RubyGems itself produces: N(.N)*.<letters><digits> (2.0.0.rc1) is a
   pre-release of N(.N)* *)
Theorem C13_gem_dot_marker_lt : forall (t : list N) (w d : list ascii),
  t <> [] -> Gem.VersionFacts.small t ->
  w <> [] -> forallb is_letter w = true -> forallb is_digit d = true ->
  exists v1 v2 : Gem.Version.ver,
    Gem.Version.parse (Gem.VersionFacts.dots t ++ "."%char :: w ++ d) = Some v1 /\
    Gem.Version.parse (Gem.VersionFacts.dots t) = Some v2 /\
    Gem.Version.cmp v1 v2 = Lt.
Proof. exact Gem.VersionFacts.c03_dot_marker_lt. Qed.
Print Assumptions C13_gem_dot_marker_lt.

(* ====================================================================== *)
(* D. outside the scope                                                    *)
(* ====================================================================== *)

(* upper case: the library folds case, Gem::Version does not *)
Theorem C13_gem_cmp_refuted_upper :
  GemVersion.spec_valid $"1.A" = true /\ GemVersion.spec_valid $"1.a" = true /\
  Gem.SpecFacts.has_upper $"1.A" = true /\
  v_cmp Gem.Entry.v $"1.A" $"1.a" = Some Eq /\ GemVersion.spec_cmp $"1.A" $"1.a" = Some Lt.
Proof. exact Gem.SpecFacts.gem_cmp_is_spec_refuted_upper. Qed.
Print Assumptions C13_gem_cmp_refuted_upper.

(* "--" is collapsed by the library; every "-" is ".pre." for RubyGems *)
Theorem C13_gem_cmp_refuted_double_dash :
  GemVersion.spec_valid $"1--a" = true /\ GemVersion.spec_valid $"1-a" = true /\
  Gem.SpecFacts.has_empty_dash_field $"1--a" = true /\
  v_cmp Gem.Entry.v $"1--a" $"1-a" = Some Eq /\ GemVersion.spec_cmp $"1--a" $"1-a" = Some Gt.
Proof. exact Gem.SpecFacts.gem_cmp_is_spec_refuted_double_dash. Qed.
Print Assumptions C13_gem_cmp_refuted_double_dash.

(* a trailing "-" is dropped by the library *)
Theorem C13_gem_cmp_refuted_trailing_dash :
  GemVersion.spec_valid $"1-a-" = true /\ Gem.SpecFacts.has_empty_dash_field $"1-a-" = true /\
  v_cmp Gem.Entry.v $"1-a-" $"1-a" = Some Eq /\ GemVersion.spec_cmp $"1-a-" $"1-a" = Some Lt.
Proof. exact Gem.SpecFacts.gem_cmp_is_spec_refuted_trailing_dash. Qed.
Print Assumptions C13_gem_cmp_refuted_trailing_dash.

(* a number of 2^63 or more becomes a text segment, hence a pre-release *)
Theorem C13_gem_cmp_refuted_big_number :
  GemVersion.spec_valid $"1.9223372036854775808" = true /\ GemVersion.spec_valid $"1.5" = true /\
  Gem.SpecFacts.has_big_number $"1.9223372036854775808" = true /\
  v_cmp Gem.Entry.v $"1.9223372036854775808" $"1.5" = Some Lt /\
  GemVersion.spec_cmp $"1.9223372036854775808" $"1.5" = Some Gt.
Proof. exact Gem.SpecFacts.gem_cmp_is_spec_refuted_big_number. Qed.
Print Assumptions C13_gem_cmp_refuted_big_number.

(* RubyGems-valid texts the library rejects: a number after a letter group, and alphanumeric
   groups that are not letters-then-digits *)
Theorem C13_gem_accepts_refuted :
  GemVersion.spec_valid $"1.rc.1" = true /\ Gem.SpecFacts.go_rejects $"1.rc.1" = true /\
  v_show Gem.Entry.v $"1.rc.1" = None /\
  GemVersion.spec_valid $"1.2a" = true /\ Gem.SpecFacts.go_rejects $"1.2a" = true /\
  v_show Gem.Entry.v $"1.2a" = None /\
  GemVersion.spec_valid $"1.a1b" = true /\ Gem.SpecFacts.go_rejects $"1.a1b" = true /\
  v_show Gem.Entry.v $"1.a1b" = None.
Proof. exact Gem.SpecFacts.gem_accepts_spec_valid_refuted. Qed.
Print Assumptions C13_gem_accepts_refuted.

(* conversely the library accepts texts RubyGems rejects ("v" prefix, "+" build part) *)
Theorem C13_gem_accepts_more :
  GemVersion.spec_valid $"v1" = false /\ v_show Gem.Entry.v $"v1" = Some $"v1" /\
  GemVersion.spec_valid $"1+1" = false /\ v_show Gem.Entry.v $"1+1" = Some $"1+1".
Proof. exact Gem.SpecFacts.gem_accepts_more. Qed.
Print Assumptions C13_gem_accepts_more.

(* the class names used above *)
Theorem C13_class_defs : forall s : bytes,
  Gem.SpecFacts.has_upper s = existsb is_upper (trim_space s) /\
  Gem.SpecFacts.has_empty_dash_field s =
    negb (forallb (fun p : bytes => match p with [] => false | _ => true end)
                  (split_c "-"%char (trim_space s))) /\
  Gem.SpecFacts.has_big_number s =
    negb (forallb (fun x => match x with
                            | GemVersion.SInt n => (n <? two63)%N
                            | GemVersion.SStr _ => true
                            end) (GemVersion.gem_segments s)) /\
  Gem.SpecFacts.go_rejects s = negb (Gem.Version.pattern (trim_space s)).
Proof. intros s. repeat split; reflexivity. Qed.
Print Assumptions C13_class_defs.

(* ====== ties to the source: BEGIN (written by bin/mkties) ====== *)
(* The Go functions named here are translated into Gallina from /repo's source on every run
   (tools/gen -> Gen/Code/<Eco>.v for loop-free functions, Gen/Loops/<Eco>.v for functions with
   loops and index expressions, where a panic is Panic and a loop takes fuel); Tie/<Eco>.v,
   Tie/<Eco>Range.v and Tie/Loops/<Eco>.v prove each translation equal to the model the theorems
   above speak about (and, for the loop functions: no panic, termination within a linear bound).
   If the code changes so that a tie no longer holds, this file no longer checks. *)
Require Verif.Tie.Gem.
Require Verif.Tie.Loops.Gem.
Definition C13_tie_gem_compareInt := @Verif.Tie.Gem.tie_gem_compareInt.
Definition C13_tie_gem_compareSegments := @Verif.Tie.Gem.tie_gem_compareSegments.
Definition C13_tie_loops_gem_removeTrailingZeros_exact := @Verif.Tie.Loops.Gem.tie_loops_gem_removeTrailingZeros_exact.
Definition C13_tie_loops_gem_removeTrailingZeros := @Verif.Tie.Loops.Gem.tie_loops_gem_removeTrailingZeros.
Definition C13_tie_removeTrailingZeros_total_model := @Verif.Tie.Loops.Gem.removeTrailingZeros_total_model.
Definition C13_tie_loops_gem_split_exact := @Verif.Tie.Loops.Gem.tie_loops_gem_split_exact.
Definition C13_tie_loops_gem_split := @Verif.Tie.Loops.Gem.tie_loops_gem_split.
Definition C13_tie_Version_splitNumericAndPrerelease_total_model := @Verif.Tie.Loops.Gem.Version_splitNumericAndPrerelease_total_model.
Definition C13_tie_loops_gem_compareSegmentArrays := @Verif.Tie.Loops.Gem.tie_loops_gem_compareSegmentArrays.
Definition C13_tie_compareSegmentArrays_total_model := @Verif.Tie.Loops.Gem.compareSegmentArrays_total_model.
Definition C13_tie_loops_gem_compare := @Verif.Tie.Loops.Gem.tie_loops_gem_compare.
Definition C13_tie_Version_Compare_total_model := @Verif.Tie.Loops.Gem.Version_Compare_total_model.
Definition C13_ties_all := (C13_tie_Version_Compare_total_model, (C13_tie_Version_splitNumericAndPrerelease_total_model, (C13_tie_compareSegmentArrays_total_model, (C13_tie_gem_compareInt, (C13_tie_gem_compareSegments, (C13_tie_loops_gem_compare, (C13_tie_loops_gem_compareSegmentArrays, (C13_tie_loops_gem_removeTrailingZeros, (C13_tie_loops_gem_removeTrailingZeros_exact, (C13_tie_loops_gem_split, (C13_tie_loops_gem_split_exact, C13_tie_removeTrailingZeros_total_model))))))))))).
Print Assumptions C13_ties_all.
(* ====== ties to the source: END ====== *)
