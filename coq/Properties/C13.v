(* C13 — RubyGems versions order as Gem::Version does.                        INCOMPLETE.
   Equality with the reference order: see TODO below.  This file states what already exists:
   the reference order (Spec/GemVersion.v, written from rubygems/version.rb independently of
   the Go code: canonical segments split at dots and digit/letter boundaries, '-' read as
   '.pre.', trailing zero segments dropped, segments compared position by position with a
   missing segment counting as 0, numbers as integers of any size, strings alphabetically, a
   string below a number) with its laws and the assertions of RubyGems' own test-suite as
   computed examples; and the C03-style facts about the LIBRARY's Compare that are part of
   C13's wording (numeric tuples, a version with a letter group being a pre-release of the
   version before it, in the hyphenated AND in the dotted spelling).

   Proofs live in Spec/GemVersionFacts.v and Eco/Gem/VersionFacts.v. *)
(* TODO: gem_cmp_is_spec — to be added from Eco/Gem/SpecFacts.v
   (with gem_accepts_spec_valid and the *_refuted witnesses outside its scope) *)
From Coq Require Import List NArith.
From Verif.Base Require Import Bytes GoNum Ord.
From Verif.Eco Require Import VLayer.
From Verif.Spec Require GemVersion GemVersionFacts.
From Verif.Eco.Gem Require Version VersionFacts.
Import ListNotations.

(* ====================================================================== *)
(* A. the reference                                                        *)
(* ====================================================================== *)

Theorem C13_reference_is_total_preorder :
  TotalPreorder GemVersion.gem_cmp_segs /\ TotalPreorder GemVersion.gem_cmp.
Proof. split; [exact GemVersionFacts.TP_gem_cmp_segs | exact GemVersionFacts.TP_gem_cmp]. Qed.
Print Assumptions C13_reference_is_total_preorder.

(* in the property's wording, for any three texts *)
Theorem C13_reference_laws : forall a b c : bytes, preorder_laws GemVersion.gem_cmp a b c.
Proof. exact GemVersionFacts.spec_cmp_laws. Qed.
Print Assumptions C13_reference_laws.

(* the reference answer is defined exactly on pairs of valid texts *)
Theorem C13_reference_domain : forall (a b : bytes) (c : comparison),
  GemVersion.spec_cmp a b = Some c <->
  GemVersion.spec_valid a = true /\ GemVersion.spec_valid b = true /\ c = GemVersion.gem_cmp a b.
Proof. exact GemVersionFacts.spec_cmp_some. Qed.
Print Assumptions C13_reference_domain.

(* segments position by position, a missing segment counting as 0; numbers as integers; a string
   segment lower than a number segment *)
Theorem C13_reference_segments :
  (forall l r : list GemVersion.seg,
     GemVersion.gem_cmp_segs l r = lex_pad (GemVersion.SInt 0) GemVersion.seg_cmp l r) /\
  (forall a b : N, GemVersion.seg_cmp (GemVersion.SInt a) (GemVersion.SInt b) = (a ?= b)%N) /\
  (forall (s : bytes) (n : N), GemVersion.seg_cmp (GemVersion.SStr s) (GemVersion.SInt n) = Lt).
Proof.
  split; [exact GemVersionFacts.gem_cmp_segs_lex_pad|].
  split; [exact GemVersionFacts.seg_cmp_int_int | exact GemVersionFacts.seg_cmp_str_int].
Qed.
Print Assumptions C13_reference_segments.

(* the assertions of RubyGems' test_gem_version.rb (list [gem_ref_assertions], which includes
   2.0.0.rc1 < 2.0.0), '-' = '.pre.', and integers beyond 64 bits *)
Theorem C13_reference_examples :
  forallb (fun t : bytes * bytes * comparison =>
             match GemVersion.spec_cmp (fst (fst t)) (snd (fst t)) with
             | Some c => GemVersionFacts.comparison_eqb c (snd t)
             | None => false
             end) GemVersionFacts.gem_ref_assertions = true /\
  (GemVersion.gem_cmp $"1-rc1" $"1.pre.rc1" = Eq /\ GemVersion.gem_cmp $"1-rc1" $"1.rc1" = Lt) /\
  (GemVersion.gem_cmp $"1.18446744073709551616" $"1.0" = Gt /\
   GemVersion.gem_cmp $"1.18446744073709551617" $"1.18446744073709551616" = Gt).
Proof.
  split; [exact GemVersionFacts.gem_ref_assertions_hold|].
  split; [exact GemVersionFacts.gem_dash_is_dot_pre | exact GemVersionFacts.gem_big_numbers].
Qed.
Print Assumptions C13_reference_examples.

(* ====================================================================== *)
(* B. the library's Compare: the clauses proved so far                     *)
(* ====================================================================== *)

(* [dots t] = the decimal numbers of t joined by "."; [small t] = every number below 2^63.
   Numeric tuples of equal length compare as integer tuples ... *)
Theorem C13_gem_tuples : forall t1 t2 : list N,
  t1 <> [] -> Gem.VersionFacts.small t1 -> Gem.VersionFacts.small t2 ->
  length t1 = length t2 ->
  exists v1 v2 : Gem.Version.ver,
    Gem.Version.parse (Gem.VersionFacts.dots t1) = Some v1 /\
    Gem.Version.parse (Gem.VersionFacts.dots t2) = Some v2 /\
    Gem.Version.cmp v1 v2 = lex_short N.compare t1 t2.
Proof. exact Gem.VersionFacts.c03_tuples. Qed.
Print Assumptions C13_gem_tuples.

(* ... and of different length with the shorter one padded with zeros (1.2 = 1.2.0 < 1.2.1) *)
Theorem C13_gem_tuples_padded : forall t1 t2 : list N,
  t1 <> [] -> t2 <> [] -> Gem.VersionFacts.small t1 -> Gem.VersionFacts.small t2 ->
  exists v1 v2 : Gem.Version.ver,
    Gem.Version.parse (Gem.VersionFacts.dots t1) = Some v1 /\
    Gem.Version.parse (Gem.VersionFacts.dots t2) = Some v2 /\
    Gem.Version.cmp v1 v2 = lex_pad 0%N N.compare t1 t2.
Proof. exact Gem.VersionFacts.c03_tuples_padded. Qed.
Print Assumptions C13_gem_tuples_padded.

(* the hyphenated spelling: N(.N)*-x, x any non-empty mix of digits, letters and dots, is a
   pre-release of N(.N)* *)
Theorem C13_gem_dash_marker_lt : forall (t : list N) (x : list ascii),
  t <> [] -> Gem.VersionFacts.small t ->
  x <> [] -> forallb Gem.VersionFacts.dl x = true ->
  exists v1 v2 : Gem.Version.ver,
    Gem.Version.parse (Gem.VersionFacts.dots t ++ "-"%char :: x) = Some v1 /\
    Gem.Version.parse (Gem.VersionFacts.dots t) = Some v2 /\
    Gem.Version.cmp v1 v2 = Lt.
Proof. exact Gem.VersionFacts.c03_dash_marker_lt. Qed.
Print Assumptions C13_gem_dash_marker_lt.

(* the dotted spelling RubyGems itself produces: N(.N)*.<letters><digits> (2.0.0.rc1) is a
   pre-release of N(.N)* *)
Theorem C13_gem_dot_marker_lt : forall (t : list N) (w d : list ascii),
  t <> [] -> Gem.VersionFacts.small t ->
  w <> [] -> forallb is_letter w = true -> forallb is_digit d = true ->
  exists v1 v2 : Gem.Version.ver,
    Gem.Version.parse (Gem.VersionFacts.dots t ++ "."%char :: w ++ d) = Some v1 /\
    Gem.Version.parse (Gem.VersionFacts.dots t) = Some v2 /\
    Gem.Version.cmp v1 v2 = Lt.
Proof. exact Gem.VersionFacts.c03_dot_marker_lt. Qed.
Print Assumptions C13_gem_dot_marker_lt.
