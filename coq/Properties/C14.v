(* C14 — Alpine versions order as apk-tools does.
   Statements only; the proofs live in Eco/Alpine/SpecFacts.v and Spec/ApkFacts.v.

   The reference is Spec/Apk.v, written from apk-tools' version.c and the APKBUILD
   documentation independently of the Go code: [Apk.parse] reads the well-formed grammar
   digits{.digits}[letter]{_suffix[digits]}[-rN] into (numeric components, letter, suffixes
   with their ranks, revision); [apk_cmp] compares components left to right, then the letter
   (none first), then the suffixes by rank and number (a missing suffix counting as rank
   "none"), then the revision.  [spec_valid] additionally requires no leading zeros in the
   numeric components, and [spec_cmp a b] is defined only when both texts are valid AND have
   the same number of numeric components — exactly the property's quantifier; differing
   component counts, leading-zero components and ~hash parts are outside the reference's
   domain because no executable apk reference is available to pin them.

   Scope.  [in_scope s]: every number of the version (components, suffix numbers, revision)
   is below 2^63, Go's int.  Outside it the library rejects what the reference compares
   (C14_out_of_scope_refuted).

   A  the reference: laws, the rank chain, additional pre-/post-release suffixes
   B  the library's rank table (GENERATED from the Go source) carries the reference's ranks
   C  NewVersion accepts every valid text; Compare is the reference order *)
From Coq Require Import List NArith ZArith.
From Verif.Base Require Import Bytes GoNum Ord.
From Verif.Eco Require Import Iface.
From Verif.Spec Require Apk ApkFacts.
From Verif.Eco.Alpine Require Version VersionFacts Entry SpecFacts.
Import ListNotations.

(* ====================================================================== *)
(* A. the reference                                                        *)
(* ====================================================================== *)

Theorem C14_reference_is_total_preorder : TotalPreorder Apk.apk_cmp.
Proof. exact ApkFacts.apk_cmp_tp. Qed.
Print Assumptions C14_reference_is_total_preorder.

(* alpha < beta < pre < rc < (none) < cvs < svn < git < hg < p *)
Theorem C14_reference_rank_chain :
  Apk.rank_cmp Apk.RAlpha Apk.RBeta = Lt /\ Apk.rank_cmp Apk.RBeta Apk.RPre = Lt /\
  Apk.rank_cmp Apk.RPre Apk.RRc = Lt /\ Apk.rank_cmp Apk.RRc Apk.RNone = Lt /\
  Apk.rank_cmp Apk.RNone Apk.RCvs = Lt /\ Apk.rank_cmp Apk.RCvs Apk.RSvn = Lt /\
  Apk.rank_cmp Apk.RSvn Apk.RGit = Lt /\ Apk.rank_cmp Apk.RGit Apk.RHg = Lt /\
  Apk.rank_cmp Apk.RHg Apk.RP = Lt.
Proof. exact ApkFacts.rank_chain. Qed.
Print Assumptions C14_reference_rank_chain.

(* a version with an additional pre-release suffix is older, with an additional post-release
   suffix newer — whatever follows it and whatever the revisions *)
Theorem C14_reference_additional_suffix :
  (forall (cs : list N) (l : option ascii) (sx : list (Apk.rank * N)) (r : Apk.rank) (n : N)
          (sx' : list (Apk.rank * N)) (rv rv' : N),
     Apk.is_pre_rank r = true ->
     Apk.apk_cmp (Apk.mk_ast cs l (sx ++ (r, n) :: sx') rv') (Apk.mk_ast cs l sx rv) = Lt) /\
  (forall (cs : list N) (l : option ascii) (sx : list (Apk.rank * N)) (r : Apk.rank) (n : N)
          (sx' : list (Apk.rank * N)) (rv rv' : N),
     Apk.is_post_rank r = true ->
     Apk.apk_cmp (Apk.mk_ast cs l (sx ++ (r, n) :: sx') rv') (Apk.mk_ast cs l sx rv) = Gt).
Proof. split; [exact ApkFacts.apk_cmp_extra_pre | exact ApkFacts.apk_cmp_extra_post]. Qed.
Print Assumptions C14_reference_additional_suffix.

(* the domain of the reference answer: both valid, equally many numeric components *)
Theorem C14_reference_domain : forall (a b : bytes) (c : comparison),
  Apk.spec_cmp a b = Some c ->
  Apk.spec_valid a = true /\ Apk.spec_valid b = true /\
  (exists x y : Apk.ast,
     Apk.parse a = Some x /\ Apk.parse b = Some y /\
     length (Apk.comps x) = length (Apk.comps y) /\ c = Apk.apk_cmp x y).
Proof. exact ApkFacts.spec_cmp_some. Qed.
Print Assumptions C14_reference_domain.

(* ====================================================================== *)
(* B. the library's suffix rank table                                      *)
(* ====================================================================== *)

(* [Alpine.Version.suffixOrder] is the map literal of pkg/ecosystem/alpine/version.go as extracted
   by the generator.  What the property needs of it, and all it needs: every reference rank
   ("no suffix" = "" included) is in it under its name, and its numbers order the ten names as
   the reference orders the ten ranks.  The numbers themselves are free (an order-preserving
   renumbering of the Go map changes nothing here). *)
Theorem C14_suffixOrder_is_reference_ranks : forall r1 r2 : Apk.rank,
  let name := fun r : Apk.rank =>
        match r with
        | Apk.RAlpha => $"alpha" | Apk.RBeta => $"beta" | Apk.RPre => $"pre" | Apk.RRc => $"rc"
        | Apk.RNone => []
        | Apk.RCvs => $"cvs" | Apk.RSvn => $"svn" | Apk.RGit => $"git" | Apk.RHg => $"hg"
        | Apk.RP => $"p"
        end in
  exists o1 o2 : Z,
    lookup (name r1) Alpine.Version.suffixOrder = Some o1 /\
    lookup (name r2) Alpine.Version.suffixOrder = Some o2 /\
    Z.compare o1 o2 = N.compare (Apk.rank_ord r1) (Apk.rank_ord r2).
Proof. exact Alpine.SpecFacts.lookup_name_of. Qed.
Print Assumptions C14_suffixOrder_is_reference_ranks.

(* the same as the computed check over the 10 x 10 pairs of ranks *)
Theorem C14_ranks_iso_def : forall table : list (bytes * Z),
  Alpine.SpecFacts.ranks_iso table =
  forallb (fun r1 =>
    forallb (fun r2 =>
      match lookup (Alpine.SpecFacts.name_of r1) table, lookup (Alpine.SpecFacts.name_of r2) table with
      | Some o1, Some o2 =>
          Alpine.SpecFacts.comparison_eqb (Z.compare o1 o2)
            (N.compare (Apk.rank_ord r1) (Apk.rank_ord r2))
      | _, _ => false
      end) Alpine.SpecFacts.all_ranks) Alpine.SpecFacts.all_ranks.
Proof. intros table. reflexivity. Qed.
Print Assumptions C14_ranks_iso_def.

Theorem C14_suffixOrder_ranks_ok : Alpine.SpecFacts.ranks_iso Alpine.Version.suffixOrder = true.
Proof. exact Alpine.SpecFacts.suffixOrder_ranks_iso. Qed.
Print Assumptions C14_suffixOrder_ranks_ok.

(* the relation between the table and the rank of unknown suffixes that Compare's order laws
   (C01) use: every table value is below unknownSuffixPrecedence *)
Theorem C14_suffixOrder_below_unknown :
  forallb (fun kv => (snd kv <? Alpine.Version.unknownSuffixPrecedence)%Z) Alpine.Version.suffixOrder = true.
Proof. exact Alpine.VersionFacts.suffixOrder_ranks_below. Qed.
Print Assumptions C14_suffixOrder_below_unknown.

(* ====================================================================== *)
(* C. the alpine ecosystem against the reference                           *)
(* ====================================================================== *)

Theorem C14_scope_def : forall s : bytes,
  Alpine.SpecFacts.in_scope s =
  match Apk.parse s with
  | Some x =>
      forallb (fun n => (n <? two63)%N) (Apk.comps x)
      && forallb (fun p => (snd p <? two63)%N) (Apk.suffixes x)
      && (Apk.revision x <? two63)%N
  | None => true
  end.
Proof. intros s. reflexivity. Qed.
Print Assumptions C14_scope_def.

Theorem C14_alpine_accepts_spec_valid : forall s : bytes,
  Alpine.SpecFacts.in_scope s = true -> Apk.spec_valid s = true ->
  exists t, v_show Alpine.Entry.v s = Some t.
Proof. exact Alpine.SpecFacts.alpine_accepts_spec_valid. Qed.
Print Assumptions C14_alpine_accepts_spec_valid.

(* wherever the reference order is defined and the numbers fit an int, Compare gives the
   reference answer *)
Theorem C14_alpine_cmp_is_spec : forall (a b : bytes) (c : comparison),
  Apk.spec_cmp a b = Some c ->
  Alpine.SpecFacts.in_scope a = true -> Alpine.SpecFacts.in_scope b = true ->
  v_cmp Alpine.Entry.v a b = Some c.
Proof. exact Alpine.SpecFacts.alpine_cmp_is_spec. Qed.
Print Assumptions C14_alpine_cmp_is_spec.

(* the same in the "valid a, valid b" form used for the other ecosystems *)
Theorem C14_alpine_cmp_is_spec_valid : forall a b : bytes,
  Alpine.SpecFacts.in_scope a = true -> Alpine.SpecFacts.in_scope b = true ->
  Apk.spec_valid a = true -> Apk.spec_valid b = true ->
  Apk.spec_cmp a b <> None ->
  v_cmp Alpine.Entry.v a b = Apk.spec_cmp a b.
Proof. exact Alpine.SpecFacts.alpine_cmp_is_spec_valid. Qed.
Print Assumptions C14_alpine_cmp_is_spec_valid.

(* outside the scope the statement is false: a number that does not fit a Go int is rejected by
   the library while the reference compares it *)
Theorem C14_out_of_scope_refuted :
  exists (a b : bytes) (c : comparison),
    Apk.spec_cmp a b = Some c /\ Alpine.SpecFacts.in_scope a = false /\ v_cmp Alpine.Entry.v a b = None.
Proof. exact Alpine.SpecFacts.alpine_cmp_is_spec_refuted_out_of_scope. Qed.
Print Assumptions C14_out_of_scope_refuted.

(* ====== ties to the source: BEGIN (written by bin/mkties) ====== *)
(* The Go functions named here are translated into Gallina from /repo's source on every run
   (tools/gen -> Gen/Code/<Eco>.v for loop-free functions, Gen/Loops/<Eco>.v for functions with
   loops and index expressions, where a panic is Panic and a loop takes fuel); Tie/<Eco>.v,
   Tie/<Eco>Range.v and Tie/Loops/<Eco>.v prove each translation equal to the model the theorems
   above speak about (and, for the loop functions: no panic, termination within a linear bound).
   If the code changes so that a tie no longer holds, this file no longer checks. *)
Require Verif.Tie.Alpine.
Require Verif.Tie.Loops.Alpine.
Definition C14_tie_alpine_compareInt := @Verif.Tie.Alpine.tie_alpine_compareInt.
Definition C14_tie_alpine_compareLetters := @Verif.Tie.Alpine.tie_alpine_compareLetters.
Definition C14_tie_loops_alpine_hasLeadingZero := @Verif.Tie.Loops.Alpine.tie_loops_alpine_hasLeadingZero.
Definition C14_tie_hasLeadingZero_total_model := @Verif.Tie.Loops.Alpine.hasLeadingZero_total_model.
Definition C14_tie_loops_alpine_compareNumericArraysNumeric := @Verif.Tie.Loops.Alpine.tie_loops_alpine_compareNumericArraysNumeric.
Definition C14_tie_compareNumericArraysNumeric_total_model := @Verif.Tie.Loops.Alpine.compareNumericArraysNumeric_total_model.
Definition C14_tie_loops_alpine_compareSuffixArrays := @Verif.Tie.Loops.Alpine.tie_loops_alpine_compareSuffixArrays.
Definition C14_tie_compareSuffixArrays_total_model := @Verif.Tie.Loops.Alpine.compareSuffixArrays_total_model.
Definition C14_ties_all := (C14_tie_alpine_compareInt, (C14_tie_alpine_compareLetters, (C14_tie_compareNumericArraysNumeric_total_model, (C14_tie_compareSuffixArrays_total_model, (C14_tie_hasLeadingZero_total_model, (C14_tie_loops_alpine_compareNumericArraysNumeric, (C14_tie_loops_alpine_compareSuffixArrays, C14_tie_loops_alpine_hasLeadingZero))))))).
Print Assumptions C14_ties_all.
(* ====== ties to the source: END ====== *)
