(* C15 — The CLI is a faithful front end for the library.
   Statements only; the proofs live in Cli/Facts.v (and Properties/Support/CliModel.v for the
   instantiation to the end-to-end model).

   The CLI model [run specs registry lib vers args] (Cli/Model.v) is parametric in the library:
   [lib n] are the string-level operations of the ecosystem whose Name() is n, [vers] is
   vers.Contains.  Parts A-F therefore hold for ANY library, in particular for the real one:
   what they establish is that cmd/ adds nothing of its own — the name reaches the ecosystem
   of that very name, the arguments reach the library in the right order and roles, the line
   printed is the library's answer, and every failure is a diagnostic with exit status 1.
   The two tables [cli_registry], [cli_specs] and the name list [ecosystem_names] are GENERATED
   from cmd/cli.go and pkg/ecosystem/*/ on every run (Gen/Registry.v), so a name wired to the
   wrong package makes C15_registry fail to compile.
   [Ok line] means: exit status 0 and stdout = line followed by a newline.  [Fail p] means:
   exit status 1 and stdout begins with p (the tail is the library's error text).

   A  the generated registry
   B  compare      C  contains      D  sort (details in C07.v)      E  vers
   F  malformed invocations, exit status, and the converse: exit 0 ONLY in the success cases
   G  the same for [Top.model_cli], the library being the twenty ecosystem models *)
From Coq Require Import List NArith ZArith Bool Permutation.
From Verif.Base Require Import Bytes GoNum.
From Verif.Vers Require Import Model.
From Verif.Eco Require Import Iface All.
From Verif.Cli Require Import Model Facts.
From Verif.Gen Require Import Registry.
From Verif Require Import Top.
From Verif.Properties.Support Require Import CliModel.
Import ListNotations.
Local Open Scope N_scope.

(* ====================================================================== *)
(* A. the generated registry                                               *)
(* ====================================================================== *)

Theorem C15_registry :
  (* every key (the value of the <pkg>.Name selector) is the Name of the ecosystem it is wired to *)
  (forall k v, In (k, v) cli_registry -> k = v) /\
  (* the keys are exactly the Name constants the library declares, each once *)
  (forall k, In k (map fst cli_registry) <-> In k (map snd ecosystem_names)) /\
  Permutation (map fst cli_registry) (map snd ecosystem_names) /\
  NoDup (map fst cli_registry) /\
  NoDup (map snd ecosystem_names) /\
  length cli_registry = 20%nat /\
  (* every package directory is named like its Name constant *)
  (forall d n, In (d, n) ecosystem_names -> d = n) /\
  (* the spec table; "vers" is not an ecosystem name *)
  cli_specs = [ $"vers" ] /\
  ~ In $"vers" (map snd ecosystem_names) /\
  (forall k, In k (map fst cli_registry) -> ~ In k cli_specs) /\
  (* the command switches *)
  cli_commands = [ $"compare"; $"sort"; $"contains" ] /\
  cli_vers_commands = [ $"contains" ].
Proof.
  pose proof registry_wf as W.
  split; [exact (wf_key_is_value W)|]. split; [exact (wf_keys_complete W)|].
  split; [exact (wf_keys_perm W)|]. split; [exact (wf_keys_nodup W)|].
  split; [exact (wf_names_nodup W)|]. split; [exact (wf_count W)|].
  split; [exact (wf_dir_is_name W)|]. split; [exact (wf_specs W)|].
  split; [exact (wf_vers_not_eco W)|]. split; [exact (wf_specs_disjoint W)|].
  split; [exact (wf_commands W) | exact (wf_vers_commands W)].
Qed.
Print Assumptions C15_registry.

(* a name dispatches to an ecosystem iff the library defines it, and then to THAT ecosystem *)
Theorem C15_dispatch : forall name eco : bytes,
  lookup name cli_registry = Some eco <-> (eco = name /\ In name (map snd ecosystem_names)).
Proof. exact lookup_registry_iff. Qed.
Print Assumptions C15_dispatch.

(* ====================================================================== *)
(* B. compare                                                              *)
(* ====================================================================== *)

Theorem C15_compare_ok :
  forall (lib : bytes -> lib_ops) (vers : bytes -> bytes -> vres) (name eco a b : bytes),
    lookup name cli_registry = Some eco ->
    l_vok (lib eco) a = true -> l_vok (lib eco) b = true ->
    eco = name /\
    run cli_specs cli_registry lib vers [name; $"compare"; a; b] =
    Ok (dec_z (z_sign (l_vcmp (lib eco) a b))).
Proof. exact cli_compare_ok. Qed.
Print Assumptions C15_compare_ok.

(* the line is -1, 0 or 1 according to the library's answer *)
Theorem C15_compare_line : forall c : comparison,
  dec_z (z_sign c) = match c with Lt => $"-1" | Eq => $"0" | Gt => $"1" end.
Proof. intros []; reflexivity. Qed.
Print Assumptions C15_compare_line.

Theorem C15_compare_bad_first :
  forall (lib : bytes -> lib_ops) (vers : bytes -> bytes -> vres) (name eco a b : bytes),
    lookup name cli_registry = Some eco ->
    l_vok (lib eco) a = false ->
    run cli_specs cli_registry lib vers [name; $"compare"; a; b] =
    Fail ($"Error running command '" ++ $"compare" ++ $"': invalid " ++ $"version" ++ $" '" ++ a ++ $"': ").
Proof. exact cli_compare_bad_first. Qed.
Print Assumptions C15_compare_bad_first.

Theorem C15_compare_bad_second :
  forall (lib : bytes -> lib_ops) (vers : bytes -> bytes -> vres) (name eco a b : bytes),
    lookup name cli_registry = Some eco ->
    l_vok (lib eco) a = true -> l_vok (lib eco) b = false ->
    run cli_specs cli_registry lib vers [name; $"compare"; a; b] =
    Fail ($"Error running command '" ++ $"compare" ++ $"': invalid " ++ $"version" ++ $" '" ++ b ++ $"': ").
Proof. exact cli_compare_bad_second. Qed.
Print Assumptions C15_compare_bad_second.

Theorem C15_compare_arity :
  forall (lib : bytes -> lib_ops) (vers : bytes -> bytes -> vres) (name eco : bytes) (rest : list bytes),
    lookup name cli_registry = Some eco -> length rest <> 2%nat ->
    run cli_specs cli_registry lib vers (name :: $"compare" :: rest) =
    Fail $"Error running command 'compare': compare requires exactly 2 version arguments".
Proof. exact cli_compare_arity. Qed.
Print Assumptions C15_compare_arity.

(* ====================================================================== *)
(* C. contains: range first, version second, both of the SAME ecosystem    *)
(* ====================================================================== *)

Theorem C15_contains_ok :
  forall (lib : bytes -> lib_ops) (vers : bytes -> bytes -> vres) (name eco r v : bytes),
    lookup name cli_registry = Some eco ->
    l_rok (lib eco) r = true -> l_vok (lib eco) v = true ->
    eco = name /\
    run cli_specs cli_registry lib vers [name; $"contains"; r; v] =
    Ok (if l_rcontains (lib eco) r v then $"true" else $"false").
Proof. exact cli_contains_ok. Qed.
Print Assumptions C15_contains_ok.

Theorem C15_contains_bad_range :
  forall (lib : bytes -> lib_ops) (vers : bytes -> bytes -> vres) (name eco r v : bytes),
    lookup name cli_registry = Some eco ->
    l_rok (lib eco) r = false ->
    run cli_specs cli_registry lib vers [name; $"contains"; r; v] =
    Fail ($"Error running command '" ++ $"contains" ++ $"': invalid " ++ $"range" ++ $" '" ++ r ++ $"': ").
Proof. exact cli_contains_bad_range. Qed.
Print Assumptions C15_contains_bad_range.

Theorem C15_contains_bad_version :
  forall (lib : bytes -> lib_ops) (vers : bytes -> bytes -> vres) (name eco r v : bytes),
    lookup name cli_registry = Some eco ->
    l_rok (lib eco) r = true -> l_vok (lib eco) v = false ->
    run cli_specs cli_registry lib vers [name; $"contains"; r; v] =
    Fail ($"Error running command '" ++ $"contains" ++ $"': invalid " ++ $"version" ++ $" '" ++ v ++ $"': ").
Proof. exact cli_contains_bad_version. Qed.
Print Assumptions C15_contains_bad_version.

Theorem C15_contains_arity :
  forall (lib : bytes -> lib_ops) (vers : bytes -> bytes -> vres) (name eco : bytes) (rest : list bytes),
    lookup name cli_registry = Some eco -> length rest <> 2%nat ->
    run cli_specs cli_registry lib vers (name :: $"contains" :: rest) =
    Fail $"Error running command 'contains': contains requires exactly 2 arguments: <version> <range>".
Proof. exact cli_contains_arity. Qed.
Print Assumptions C15_contains_arity.

(* ====================================================================== *)
(* D. sort (order properties: C07.v)                                       *)
(* ====================================================================== *)

Theorem C15_sort_ok :
  forall (lib : bytes -> lib_ops) (vers : bytes -> bytes -> vres) (name eco : bytes) (args : list bytes),
    lookup name cli_registry = Some eco ->
    args <> [] -> Forall (fun a => l_vok (lib eco) a = true) args ->
    eco = name /\
    run cli_specs cli_registry lib vers (name :: $"sort" :: args) =
    Ok (join $" " (map (fun a => quote (l_vshow (lib eco) a)) (isort (l_vcmp (lib eco)) args))).
Proof. exact cli_sort_ok. Qed.
Print Assumptions C15_sort_ok.

Theorem C15_sort_invalid :
  forall (lib : bytes -> lib_ops) (vers : bytes -> bytes -> vres) (name eco : bytes)
         (pre : list bytes) (bad : bytes) (post : list bytes),
    lookup name cli_registry = Some eco ->
    Forall (fun a => l_vok (lib eco) a = true) pre -> l_vok (lib eco) bad = false ->
    run cli_specs cli_registry lib vers (name :: $"sort" :: pre ++ bad :: post) =
    Fail ($"Error running command '" ++ $"sort" ++ $"': invalid " ++ $"version" ++ $" '" ++ bad ++ $"': ").
Proof. exact cli_sort_invalid. Qed.
Print Assumptions C15_sort_invalid.

Theorem C15_sort_arity :
  forall (lib : bytes -> lib_ops) (vers : bytes -> bytes -> vres) (name eco : bytes),
    lookup name cli_registry = Some eco ->
    run cli_specs cli_registry lib vers [name; $"sort"] =
    Fail $"Error running command 'sort': sort requires at least 1 version argument".
Proof. exact cli_sort_arity. Qed.
Print Assumptions C15_sort_arity.

(* fmt's %q of any string contains no raw newline, so the sort line is one line *)
Theorem C15_quote_one_line : forall s : bytes, Forall (fun c => code c <> 10) (quote s).
Proof. exact quote_no_nl. Qed.
Print Assumptions C15_quote_one_line.

(* ====================================================================== *)
(* E. vers                                                                 *)
(* ====================================================================== *)

Theorem C15_vers_contains :
  forall (lib : bytes -> lib_ops) (vers : bytes -> bytes -> vres) (r v : bytes),
    run cli_specs cli_registry lib vers [$"vers"; $"contains"; r; v] =
    match vers r v with
    | VTrue => Ok $"true"
    | VFalse => Ok $"false"
    | VErr => Fail $"Error running command 'vers contains': "
    end.
Proof. exact cli_vers_contains. Qed.
Print Assumptions C15_vers_contains.

Theorem C15_vers_arity :
  forall (lib : bytes -> lib_ops) (vers : bytes -> bytes -> vres) (rest : list bytes),
    length rest <> 2%nat ->
    run cli_specs cli_registry lib vers ($"vers" :: $"contains" :: rest) =
    Fail $"Error running command 'vers contains': contains requires exactly 2 arguments: <vers-range> <version>".
Proof. exact cli_vers_arity. Qed.
Print Assumptions C15_vers_arity.

Theorem C15_vers_unknown_command :
  forall (lib : bytes -> lib_ops) (vers : bytes -> bytes -> vres) (cmd : bytes) (rest : list bytes),
    ~ In cmd cli_vers_commands ->
    run cli_specs cli_registry lib vers ($"vers" :: cmd :: rest) =
    Fail ($"Unknown vers command: " ++ cmd ++ $". Supported commands: contains").
Proof. exact cli_vers_unknown_command. Qed.
Print Assumptions C15_vers_unknown_command.

Theorem C15_vers_no_command :
  forall (lib : bytes -> lib_ops) (vers : bytes -> bytes -> vres),
    run cli_specs cli_registry lib vers [$"vers"] = Fail $"Usage: univers vers <command> [args]".
Proof. exact cli_vers_no_command. Qed.
Print Assumptions C15_vers_no_command.

(* ====================================================================== *)
(* F. malformed invocations, exit status, converse                         *)
(* ====================================================================== *)

Theorem C15_unknown_command :
  forall (lib : bytes -> lib_ops) (vers : bytes -> bytes -> vres) (name eco cmd : bytes) (rest : list bytes),
    lookup name cli_registry = Some eco ->
    ~ In cmd cli_commands ->
    run cli_specs cli_registry lib vers (name :: cmd :: rest) =
    Fail ($"Unknown " ++ l_name (lib eco) ++ $" command: " ++ cmd).
Proof. exact cli_unknown_command. Qed.
Print Assumptions C15_unknown_command.

Theorem C15_no_command :
  forall (lib : bytes -> lib_ops) (vers : bytes -> bytes -> vres) (name eco : bytes),
    lookup name cli_registry = Some eco ->
    run cli_specs cli_registry lib vers [name] = Fail ($"No command specified for " ++ l_name (lib eco)).
Proof. exact cli_no_command. Qed.
Print Assumptions C15_no_command.

Theorem C15_unknown_name :
  forall (lib : bytes -> lib_ops) (vers : bytes -> bytes -> vres) (name : bytes) (rest : list bytes),
    name <> $"vers" -> ~ In name (map snd ecosystem_names) ->
    run cli_specs cli_registry lib vers (name :: rest) = Fail ($"Unknown ecosystem: " ++ name).
Proof. exact cli_unknown_name. Qed.
Print Assumptions C15_unknown_name.

Theorem C15_no_args :
  forall (lib : bytes -> lib_ops) (vers : bytes -> bytes -> vres),
    run cli_specs cli_registry lib vers [] = Fail $"Usage: univers <ecosystem|spec> <command> [args]".
Proof. exact cli_no_args. Qed.
Print Assumptions C15_no_args.

(* exit status: 0 for a result line, 1 for a diagnostic, nothing else *)
Theorem C15_exit_code :
  (forall line, exit_code (Ok line) = 0%Z) /\
  (forall p, exit_code (Fail p) = 1%Z) /\
  (forall (lib : bytes -> lib_ops) (vers : bytes -> bytes -> vres) (args : list bytes),
     (exit_code (run cli_specs cli_registry lib vers args) = 0%Z \/
      exit_code (run cli_specs cli_registry lib vers args) = 1%Z) /\
     (exit_code (run cli_specs cli_registry lib vers args) = 0%Z <->
      exists line, run cli_specs cli_registry lib vers args = Ok line)).
Proof.
  split; [reflexivity|]. split; [reflexivity|].
  intros lib vers args. split; [apply exit_code_cases | apply exit_code_zero_iff].
Qed.
Print Assumptions C15_exit_code.

(* the converse of B-E: a result line and exit 0 ONLY in the five success cases, with exactly
   the lines given there.  Every other argument vector — wrong arity, unknown name or command,
   any parse failure — is a Fail. *)
Theorem C15_ok_iff :
  forall (lib : bytes -> lib_ops) (vers : bytes -> bytes -> vres) (args : list bytes) (line : bytes),
    run cli_specs cli_registry lib vers args = Ok line <->
    ( (exists name eco a b,
         args = [name; $"compare"; a; b] /\ lookup name cli_registry = Some eco /\
         l_vok (lib eco) a = true /\ l_vok (lib eco) b = true /\
         line = dec_z (z_sign (l_vcmp (lib eco) a b)))
   \/ (exists name eco vs,
         args = name :: $"sort" :: vs /\ lookup name cli_registry = Some eco /\
         vs <> [] /\ Forall (fun a => l_vok (lib eco) a = true) vs /\
         line = join $" " (map (fun a => quote (l_vshow (lib eco) a)) (isort (l_vcmp (lib eco)) vs)))
   \/ (exists name eco r v,
         args = [name; $"contains"; r; v] /\ lookup name cli_registry = Some eco /\
         l_rok (lib eco) r = true /\ l_vok (lib eco) v = true /\
         line = (if l_rcontains (lib eco) r v then $"true" else $"false"))
   \/ (exists r v, args = [$"vers"; $"contains"; r; v] /\ vers r v = VTrue /\ line = $"true")
   \/ (exists r v, args = [$"vers"; $"contains"; r; v] /\ vers r v = VFalse /\ line = $"false") ).
Proof.
  intros lib vers args line. split.
  - intros H. apply (cli_ok_iff lib vers) in H.
    destruct H as [name eco a b Hl Ha Hb | name eco vs Hl Hne Hok
                  | name eco r v Hl Hr Hv | r v Hv | r v Hv].
    + left. exists name, eco, a, b. repeat split; assumption.
    + right; left. exists name, eco, vs. repeat split; assumption.
    + right; right; left. exists name, eco, r, v. repeat split; assumption.
    + right; right; right; left. exists r, v. repeat split; assumption.
    + right; right; right; right. exists r, v. repeat split; assumption.
  - intros H. apply (cli_ok_iff lib vers).
    destruct H as [(name & eco & a & b & -> & Hl & Ha & Hb & ->)
                  |[(name & eco & vs & -> & Hl & Hne & Hok & ->)
                  |[(name & eco & r & v & -> & Hl & Hr & Hv & ->)
                  |[(r & v & -> & Hv & ->)|(r & v & -> & Hv & ->)]]]].
    + apply S_compare; assumption.
    + apply S_sort; assumption.
    + apply S_contains; assumption.
    + apply S_vers_true; assumption.
    + apply S_vers_false; assumption.
Qed.
Print Assumptions C15_ok_iff.

(* on success exactly one line is written: the result contains no newline byte *)
Theorem C15_ok_single_line :
  forall (lib : bytes -> lib_ops) (vers : bytes -> bytes -> vres) (args : list bytes) (line : bytes),
    run cli_specs cli_registry lib vers args = Ok line -> Forall (fun c => code c <> 10) line.
Proof. exact cli_ok_single_line. Qed.
Print Assumptions C15_ok_single_line.

(* compare / contains / vers lines are one of five words *)
Theorem C15_ok_line_words :
  forall (lib : bytes -> lib_ops) (vers : bytes -> bytes -> vres) (name cmd a b line : bytes),
    cmd <> $"sort" -> run cli_specs cli_registry lib vers [name; cmd; a; b] = Ok line ->
    In line [ $"-1"; $"0"; $"1"; $"true"; $"false" ].
Proof. exact cli_ok_line_words. Qed.
Print Assumptions C15_ok_line_words.

(* ====================================================================== *)
(* G. end to end: the library is the list of ecosystem models              *)
(* ====================================================================== *)

(* every name the library defines is a registry key wired to itself and has a model of that name *)
Theorem C15_every_name_modelled : forall name : bytes,
  In name (map snd ecosystem_names) ->
  lookup name cli_registry = Some name /\
  exists e, find_eco name ecosystems = Some e /\ e_name e = name /\ l_name (model_lib name) = name.
Proof.
  intros name H. split.
  - apply lookup_registry_iff. split; [reflexivity | exact H].
  - destruct (library_names_modelled name H) as [e [He Hn]].
    exists e. split; [exact He|]. split; [exact Hn|].
    rewrite (model_lib_of name e He). reflexivity.
Qed.
Print Assumptions C15_every_name_modelled.

(* and the list of models contains no other name *)
Theorem C15_models_are_library_names : forall e : eco,
  In e ecosystems -> In (e_name e) (map snd ecosystem_names).
Proof. exact ecosystems_names_are_library_names. Qed.
Print Assumptions C15_models_are_library_names.

Theorem C15_model_cli_compare : forall (name : bytes) (e : eco) (a b : bytes),
  In name (map snd ecosystem_names) -> find_eco name ecosystems = Some e ->
  model_cli [name; $"compare"; a; b] =
  match v_show (e_v e) a, v_show (e_v e) b with
  | None, _ => Fail ($"Error running command '" ++ $"compare" ++ $"': invalid " ++ $"version" ++ $" '" ++ a ++ $"': ")
  | Some _, None => Fail ($"Error running command '" ++ $"compare" ++ $"': invalid " ++ $"version" ++ $" '" ++ b ++ $"': ")
  | Some _, Some _ =>
      Ok (match self_vcmp e a b with Lt => $"-1" | Eq => $"0" | Gt => $"1" end)
  end.
Proof.
  intros name e a b Hin He.
  assert (Hl : lookup name cli_registry = Some name) by (apply lookup_registry_iff; auto).
  pose proof (cli_compare_ok model_lib model_vers name name a b Hl) as Hok.
  pose proof (cli_compare_bad_first model_lib model_vers name name a b Hl) as H1.
  pose proof (cli_compare_bad_second model_lib model_vers name name a b Hl) as H2.
  rewrite (model_lib_of name e He) in Hok, H1, H2. cbn [l_vok l_vcmp] in Hok, H1, H2.
  unfold self_vok in Hok, H1, H2. unfold model_cli.
  destruct (v_show (e_v e) a); [|apply H1; reflexivity].
  destruct (v_show (e_v e) b); [|apply H2; reflexivity].
  destruct (Hok eq_refl eq_refl) as [_ Hr]. unfold CLI in Hr. rewrite Hr. f_equal.
  destruct (self_vcmp e a b); reflexivity.
Qed.
Print Assumptions C15_model_cli_compare.

Theorem C15_model_cli_contains : forall (name : bytes) (e : eco) (r v : bytes),
  In name (map snd ecosystem_names) -> find_eco name ecosystems = Some e ->
  model_cli [name; $"contains"; r; v] =
  match r_show (e_r e) (self_vok e) r, v_show (e_v e) v with
  | None, _ => Fail ($"Error running command '" ++ $"contains" ++ $"': invalid " ++ $"range" ++ $" '" ++ r ++ $"': ")
  | Some _, None => Fail ($"Error running command '" ++ $"contains" ++ $"': invalid " ++ $"version" ++ $" '" ++ v ++ $"': ")
  | Some _, Some _ =>
      Ok (if match r_contains (e_r e) (self_vok e) (self_vcmp e) r v with Some b => b | None => false end
          then $"true" else $"false")
  end.
Proof.
  intros name e r v Hin He.
  assert (Hl : lookup name cli_registry = Some name) by (apply lookup_registry_iff; auto).
  pose proof (cli_contains_ok model_lib model_vers name name r v Hl) as Hok.
  pose proof (cli_contains_bad_range model_lib model_vers name name r v Hl) as H1.
  pose proof (cli_contains_bad_version model_lib model_vers name name r v Hl) as H2.
  rewrite (model_lib_of name e He) in Hok, H1, H2. cbn [l_vok l_rok l_rcontains] in Hok, H1, H2.
  unfold model_cli.
  destruct (r_show (e_r e) (self_vok e) r); [|apply H1; reflexivity].
  unfold self_vok at 1 in Hok. unfold self_vok at 1 in H2.
  destruct (v_show (e_v e) v); [|apply H2; reflexivity].
  destruct (Hok eq_refl eq_refl) as [_ Hr]. unfold CLI in Hr. rewrite Hr. reflexivity.
Qed.
Print Assumptions C15_model_cli_contains.

Theorem C15_model_cli_vers : forall r v : bytes,
  model_cli [$"vers"; $"contains"; r; v] =
  match model_vers r v with
  | VTrue => Ok $"true"
  | VFalse => Ok $"false"
  | VErr => Fail $"Error running command 'vers contains': "
  end.
Proof. intros r v. exact (cli_vers_contains model_lib model_vers r v). Qed.
Print Assumptions C15_model_cli_vers.

(* ====== ties to the source: BEGIN (written by bin/mkties) ====== *)
(* The Go functions named here are translated into Gallina from /repo's source on every run
   (tools/gen -> Gen/Code/<Eco>.v for loop-free functions, Gen/Loops/<Eco>.v for functions with
   loops and index expressions, where a panic is Panic and a loop takes fuel); Tie/<Eco>.v,
   Tie/<Eco>Range.v and Tie/Loops/<Eco>.v prove each translation equal to the model the theorems
   above speak about (and, for the loop functions: no panic, termination within a linear bound).
   If the code changes so that a tie no longer holds, this file no longer checks. *)
Require Verif.Tie.Cli.Cases.
Require Verif.Tie.Cli.Run.
Require Verif.Tie.Cli.RunInst.
Require Verif.Tie.Cli.Spec.
Require Verif.Tie.Cli.Ties.
Definition C15_tie_runEcosystem_cases := @Verif.Tie.Cli.Cases.runEcosystem_cases.
Definition C15_tie_runEcosystem_status := @Verif.Tie.Cli.Cases.runEcosystem_status.
Definition C15_tie_runEcosystem_success_one_line := @Verif.Tie.Cli.Cases.runEcosystem_success_one_line.
Definition C15_tie_runEcosystem_failure_diagnostic := @Verif.Tie.Cli.Cases.runEcosystem_failure_diagnostic.
Definition C15_tie_run_src_routing := @Verif.Tie.Cli.Run.run_src_routing.
Definition C15_tie_run_src_routing_vers := @Verif.Tie.Cli.Run.run_src_routing_vers.
Definition C15_tie_run_src_unknown := @Verif.Tie.Cli.Run.run_src_unknown.
Definition C15_tie_run_src_eq := @Verif.Tie.Cli.Run.run_src_eq.
Definition C15_tie_run_src_no_panic := @Verif.Tie.Cli.Run.run_src_no_panic.
Definition C15_tie_run_spec_tie := @Verif.Tie.Cli.Run.run_spec_tie.
Definition C15_tie_run_src_tie := @Verif.Tie.Cli.Run.run_src_tie.
Definition C15_tie_run_is_run_src := @Verif.Tie.Cli.RunInst.run_is_run_src.
Definition C15_tie_run_routing_alpine := @Verif.Tie.Cli.RunInst.run_routing_alpine.
Definition C15_tie_run_routing_alpm := @Verif.Tie.Cli.RunInst.run_routing_alpm.
Definition C15_tie_run_routing_apache := @Verif.Tie.Cli.RunInst.run_routing_apache.
Definition C15_tie_run_routing_cargo := @Verif.Tie.Cli.RunInst.run_routing_cargo.
Definition C15_tie_run_routing_conan := @Verif.Tie.Cli.RunInst.run_routing_conan.
Definition C15_tie_run_routing_composer := @Verif.Tie.Cli.RunInst.run_routing_composer.
Definition C15_tie_run_routing_cran := @Verif.Tie.Cli.RunInst.run_routing_cran.
Definition C15_tie_run_routing_debian := @Verif.Tie.Cli.RunInst.run_routing_debian.
Definition C15_tie_run_routing_gem := @Verif.Tie.Cli.RunInst.run_routing_gem.
Definition C15_tie_run_routing_gentoo := @Verif.Tie.Cli.RunInst.run_routing_gentoo.
Definition C15_tie_run_routing_github := @Verif.Tie.Cli.RunInst.run_routing_github.
Definition C15_tie_run_routing_golang := @Verif.Tie.Cli.RunInst.run_routing_golang.
Definition C15_tie_run_routing_hex := @Verif.Tie.Cli.RunInst.run_routing_hex.
Definition C15_tie_run_routing_mattermost := @Verif.Tie.Cli.RunInst.run_routing_mattermost.
Definition C15_tie_run_routing_maven := @Verif.Tie.Cli.RunInst.run_routing_maven.
Definition C15_tie_run_routing_npm := @Verif.Tie.Cli.RunInst.run_routing_npm.
Definition C15_tie_run_routing_nuget := @Verif.Tie.Cli.RunInst.run_routing_nuget.
Definition C15_tie_run_routing_pypi := @Verif.Tie.Cli.RunInst.run_routing_pypi.
Definition C15_tie_run_routing_rpm := @Verif.Tie.Cli.RunInst.run_routing_rpm.
Definition C15_tie_run_routing_semver := @Verif.Tie.Cli.RunInst.run_routing_semver.
Definition C15_tie_run_routing_vers := @Verif.Tie.Cli.RunInst.run_routing_vers.
Definition C15_tie_run_routing_unknown := @Verif.Tie.Cli.RunInst.run_routing_unknown.
Definition C15_tie_registry_of_bundles := @Verif.Tie.Cli.RunInst.registry_of_bundles.
Definition C15_tie_run_no_panic := @Verif.Tie.Cli.RunInst.run_no_panic.
Definition C15_tie_run_tie := @Verif.Tie.Cli.RunInst.run_tie.
Definition C15_tie_run_tie_model_cli := @Verif.Tie.Cli.RunInst.run_tie_model_cli.
Definition C15_tie_compare_eq := @Verif.Tie.Cli.Spec.compare_eq.
Definition C15_tie_contains_eq := @Verif.Tie.Cli.Spec.contains_eq.
Definition C15_tie_sort_eq := @Verif.Tie.Cli.Spec.sort_eq.
Definition C15_tie_runEcosystem_eq := @Verif.Tie.Cli.Spec.runEcosystem_eq.
Definition C15_tie_compare_no_panic := @Verif.Tie.Cli.Spec.compare_no_panic.
Definition C15_tie_contains_no_panic := @Verif.Tie.Cli.Spec.contains_no_panic.
Definition C15_tie_sort_no_panic := @Verif.Tie.Cli.Spec.sort_no_panic.
Definition C15_tie_runEcosystem_no_panic := @Verif.Tie.Cli.Spec.runEcosystem_no_panic.
Definition C15_tie_versContains_eq := @Verif.Tie.Cli.Spec.versContains_eq.
Definition C15_tie_versContains_no_panic := @Verif.Tie.Cli.Spec.versContains_no_panic.
Definition C15_tie_runVers_eq := @Verif.Tie.Cli.Spec.runVers_eq.
Definition C15_tie_runVers_no_panic := @Verif.Tie.Cli.Spec.runVers_no_panic.
Definition C15_tie_Forall2_map_eq := @Verif.Tie.Cli.Ties.Forall2_map_eq.
Definition C15_tie_compare_tie := @Verif.Tie.Cli.Ties.compare_tie.
Definition C15_tie_contains_tie := @Verif.Tie.Cli.Ties.contains_tie.
Definition C15_tie_sort_tie_none := @Verif.Tie.Cli.Ties.sort_tie_none.
Definition C15_tie_sort_tie_upto := @Verif.Tie.Cli.Ties.sort_tie_upto.
Definition C15_tie_sort_tie := @Verif.Tie.Cli.Ties.sort_tie.
Definition C15_tie_runEcosystem_tie := @Verif.Tie.Cli.Ties.runEcosystem_tie.
Definition C15_tie_runEcosystem_exit_code := @Verif.Tie.Cli.Ties.runEcosystem_exit_code.
Definition C15_tie_compare_generated_tie := @Verif.Tie.Cli.Ties.compare_generated_tie.
Definition C15_tie_contains_generated_tie := @Verif.Tie.Cli.Ties.contains_generated_tie.
Definition C15_tie_sort_generated_tie := @Verif.Tie.Cli.Ties.sort_generated_tie.
Definition C15_tie_runEcosystem_generated_tie := @Verif.Tie.Cli.Ties.runEcosystem_generated_tie.
Definition C15_tie_versContains_tie := @Verif.Tie.Cli.Ties.versContains_tie.
Definition C15_tie_runVers_spec_tie := @Verif.Tie.Cli.Ties.runVers_spec_tie.
Definition C15_tie_runVers_generated_tie := @Verif.Tie.Cli.Ties.runVers_generated_tie.
Definition C15_ties_all := (C15_tie_Forall2_map_eq, (C15_tie_compare_eq, (C15_tie_compare_generated_tie, (C15_tie_compare_no_panic, (C15_tie_compare_tie, (C15_tie_contains_eq, (C15_tie_contains_generated_tie, (C15_tie_contains_no_panic, (C15_tie_contains_tie, (C15_tie_registry_of_bundles, (C15_tie_runEcosystem_cases, (C15_tie_runEcosystem_eq, (C15_tie_runEcosystem_exit_code, (C15_tie_runEcosystem_failure_diagnostic, (C15_tie_runEcosystem_generated_tie, (C15_tie_runEcosystem_no_panic, (C15_tie_runEcosystem_status, (C15_tie_runEcosystem_success_one_line, (C15_tie_runEcosystem_tie, (C15_tie_runVers_eq, (C15_tie_runVers_generated_tie, (C15_tie_runVers_no_panic, (C15_tie_runVers_spec_tie, (C15_tie_run_is_run_src, (C15_tie_run_no_panic, (C15_tie_run_routing_alpine, (C15_tie_run_routing_alpm, (C15_tie_run_routing_apache, (C15_tie_run_routing_cargo, (C15_tie_run_routing_composer, (C15_tie_run_routing_conan, (C15_tie_run_routing_cran, (C15_tie_run_routing_debian, (C15_tie_run_routing_gem, (C15_tie_run_routing_gentoo, (C15_tie_run_routing_github, (C15_tie_run_routing_golang, (C15_tie_run_routing_hex, (C15_tie_run_routing_mattermost, (C15_tie_run_routing_maven, (C15_tie_run_routing_npm, (C15_tie_run_routing_nuget, (C15_tie_run_routing_pypi, (C15_tie_run_routing_rpm, (C15_tie_run_routing_semver, (C15_tie_run_routing_unknown, (C15_tie_run_routing_vers, (C15_tie_run_spec_tie, (C15_tie_run_src_eq, (C15_tie_run_src_no_panic, (C15_tie_run_src_routing, (C15_tie_run_src_routing_vers, (C15_tie_run_src_tie, (C15_tie_run_src_unknown, (C15_tie_run_tie, (C15_tie_run_tie_model_cli, (C15_tie_sort_eq, (C15_tie_sort_generated_tie, (C15_tie_sort_no_panic, (C15_tie_sort_tie, (C15_tie_sort_tie_none, (C15_tie_sort_tie_upto, (C15_tie_versContains_eq, (C15_tie_versContains_no_panic, C15_tie_versContains_tie)))))))))))))))))))))))))))))))))))))))))))))))))))))))))))))))).
Print Assumptions C15_ties_all.
(* ====== ties to the source: END ====== *)
