(* C16 — VERS results ignore constraint order, whitespace and duplicates.
   Statements only; the proofs live in Vers/FactsSort.v and Vers/FactsC16.v.

   Property: the result of vers.Contains does not change when the '|'-separated constraints of a
   VERS range are reordered, when spaces are inserted anywhere inside or around constraints, when
   a constraint is repeated, or when empty constraints are added; the same holds for the
   error/no-error outcome.  Quantifier: every range whose constraint versions are pairwise
   non-equivalent under the scheme's comparison (the VERS uniqueness rule).

   [same_texts cs cs']: the two constraint lists have the same set of non-empty texts after
   whitespace removal — the closure of the four transformations (same_texts_perm, _spaces, _dup,
   _blank below).  [pairwise_nonequiv S cs]: constraints of [cs] whose versions compare Eq are the
   same constraint.  [vok_text S t]: the scheme accepts version text t.  The total-preorder
   hypothesis is the conclusion of C01 for the scheme's ecosystem.
   Star-free ranges only at the top level: "vers:x/*" is true while "vers:x/*|*" is an error
   (C16_lone_star_true; the duplicated star is rejected by valid). *)
From Coq Require Import List Permutation Sorted.
From Verif.Base Require Import Bytes.
From Verif.Vers Require Import Model FactsStr FactsC17 FactsSort FactsC16.
Import ListNotations.

Theorem C16_isort_perm_eq :
  forall (A : Type) (cmp : A -> A -> comparison) (P : A -> Prop),
  TotalPreorderOn P cmp ->
  forall l l', Forall P l -> NoDup l -> inj_on cmp l -> Permutation l l' -> isort cmp l = isort cmp l'.
Proof. exact isort_perm_eq. Qed.
Print Assumptions C16_isort_perm_eq.

Theorem C16_normalize_same_texts :
  forall S cs cs',
  TotalPreorderOn (vok_text S) (s_vcmp S) ->
    pairwise_nonequiv S cs ->
    same_texts cs cs' ->
    normalize S cs = normalize S cs'.
Proof. exact normalize_same_texts. Qed.
Print Assumptions C16_normalize_same_texts.

Theorem C16_same_texts_perm :
  forall cs cs',
  Permutation cs cs' -> same_texts cs cs'.
Proof. exact same_texts_perm. Qed.
Print Assumptions C16_same_texts_perm.

Theorem C16_same_texts_spaces :
  forall cs cs',
  Forall2 (fun c c' => strip_spaces c = strip_spaces c') cs cs' -> same_texts cs cs'.
Proof. exact same_texts_spaces. Qed.
Print Assumptions C16_same_texts_spaces.

Theorem C16_same_texts_dup :
  forall a b c,
  In c (a ++ b) -> same_texts (a ++ b) (a ++ c :: b).
Proof. exact same_texts_dup. Qed.
Print Assumptions C16_same_texts_dup.

Theorem C16_same_texts_blank :
  forall a b c,
  strip_spaces c = [] -> same_texts (a ++ b) (a ++ c :: b).
Proof. exact same_texts_blank. Qed.
Print Assumptions C16_same_texts_blank.

Theorem C16_normalize_perm :
  forall S cs cs',
  TotalPreorderOn (vok_text S) (s_vcmp S) -> pairwise_nonequiv S cs ->
    Permutation cs cs' -> normalize S cs = normalize S cs'.
Proof. exact normalize_perm. Qed.
Print Assumptions C16_normalize_perm.

Theorem C16_normalize_spaces :
  forall S cs cs',
  Forall2 (fun c c' => strip_spaces c = strip_spaces c') cs cs' -> normalize S cs = normalize S cs'.
Proof. exact normalize_spaces. Qed.
Print Assumptions C16_normalize_spaces.

Theorem C16_normalize_dup :
  forall S a b c,
  TotalPreorderOn (vok_text S) (s_vcmp S) -> pairwise_nonequiv S (a ++ b) ->
    In c (a ++ b) -> normalize S (a ++ c :: b) = normalize S (a ++ b).
Proof. exact normalize_dup. Qed.
Print Assumptions C16_normalize_dup.

Theorem C16_normalize_blank :
  forall S a b c,
  strip_spaces c = [] -> normalize S (a ++ c :: b) = normalize S (a ++ b).
Proof. exact normalize_blank. Qed.
Print Assumptions C16_normalize_blank.

Theorem C16_contains_generic_same_texts :
  forall S st cs cs' v,
  TotalPreorderOn (vok_text S) (s_vcmp S) ->
    pairwise_nonequiv S cs -> same_texts cs cs' ->
    contains_generic S st cs v = contains_generic S st cs' v.
Proof. exact contains_generic_same_texts. Qed.
Print Assumptions C16_contains_generic_same_texts.

Theorem C16_contains_pypi_perm :
  forall S st cs cs' v,
  TotalPreorderOn (vok_text S) (s_vcmp S) ->
    pairwise_nonequiv S cs -> Permutation cs cs' ->
    contains_pypi S st cs v = contains_pypi S st cs' v.
Proof. exact contains_pypi_perm. Qed.
Print Assumptions C16_contains_pypi_perm.

Theorem C16_contains_pypi_same_texts :
  forall S st cs cs' v,
  TotalPreorderOn (vok_text S) (s_vcmp S) ->
    pairwise_nonequiv S cs -> same_texts cs cs' ->
    Forall (fun c => forallb printable c = true) cs ->
    Forall (fun c => forallb printable c = true) cs' ->
    contains_pypi S st cs v = contains_pypi S st cs' v.
Proof. exact contains_pypi_same_texts. Qed.
Print Assumptions C16_contains_pypi_same_texts.

Theorem C16_vers_contains_texts :
  forall table styles ops eco ctext ctext' version,
  contains_c "/"%char eco = false ->
      forallb printable ctext = true -> forallb printable ctext' = true ->
      existsb is_star (split_c "|"%char ctext) = false ->
      same_texts (split_c "|"%char ctext) (split_c "|"%char ctext') ->
      (forall sc, find_scheme eco table = Some sc ->
         TotalPreorderOn (vok_text (ops (sc_eco sc))) (s_vcmp (ops (sc_eco sc))) /\
         pairwise_nonequiv (ops (sc_eco sc)) (split_c "|"%char ctext)) ->
      vers_contains table styles ops (vers_text eco ctext) version = vers_contains table styles ops (vers_text eco ctext') version.
Proof. exact C16_vers_contains. Qed.
Print Assumptions C16_vers_contains_texts.

Theorem C16_vers_contains_joined :
  forall table styles ops eco cl cl' version,
  contains_c "/"%char eco = false ->
      cl <> [] -> cl' <> [] ->
      Forall (fun c => contains_c "|"%char c = false) cl ->
      Forall (fun c => contains_c "|"%char c = false) cl' ->
      forallb printable (join $"|" cl) = true -> forallb printable (join $"|" cl') = true ->
      existsb is_star cl = false ->
      same_texts cl cl' ->
      (forall sc, find_scheme eco table = Some sc ->
         TotalPreorderOn (vok_text (ops (sc_eco sc))) (s_vcmp (ops (sc_eco sc))) /\
         pairwise_nonequiv (ops (sc_eco sc)) cl) ->
      vers_contains table styles ops (vers_text eco (join $"|" cl)) version = vers_contains table styles ops (vers_text eco (join $"|" cl')) version.
Proof. exact C16_vers_contains_join. Qed.
Print Assumptions C16_vers_contains_joined.

Theorem C16_lone_star_true :
  forall table styles ops eco ctext version,
  contains_c "/"%char eco = false ->
    valid (vers_text eco ctext) <> None ->
    existsb is_star (split_c "|"%char ctext) = true ->
    vers_contains table styles ops (vers_text eco ctext) version = VTrue.
Proof. exact lone_star_true. Qed.
Print Assumptions C16_lone_star_true.

(* ====== ties to the source: BEGIN (written by bin/mkties) ====== *)
(* The Go functions named here are translated into Gallina from /repo's source on every run
   (tools/gen -> Gen/Code/<Eco>.v for loop-free functions, Gen/Loops/<Eco>.v for functions with
   loops and index expressions, where a panic is Panic and a loop takes fuel); Tie/<Eco>.v,
   Tie/<Eco>Range.v and Tie/Loops/<Eco>.v prove each translation equal to the model the theorems
   above speak about (and, for the loop functions: no panic, termination within a linear bound).
   If the code changes so that a tie no longer holds, this file no longer checks. *)
Require Verif.Tie.Vers.Code.
Require Verif.Tie.Vers.Constraints.
Require Verif.Tie.Vers.CoreAlternating.
Require Verif.Tie.Vers.CoreContains.
Require Verif.Tie.Vers.CoreDispatch.
Require Verif.Tie.Vers.CoreGroup.
Require Verif.Tie.Vers.CoreGroupLen.
Require Verif.Tie.Vers.CoreGroupTie.
Require Verif.Tie.Vers.CoreNormalize.
Require Verif.Tie.Vers.CoreToRanges.
Require Verif.Tie.Vers.Printers.
Require Verif.Tie.Vers.Pypi.
Require Verif.Tie.Vers.Texts.
Require Verif.Tie.Vers.Valid.
Definition C16_tie_shouldMergeConstraints_tie := @Verif.Tie.Vers.Code.shouldMergeConstraints_tie.
Definition C16_tie_ensureVPrefix_tie := @Verif.Tie.Vers.Code.ensureVPrefix_tie.
Definition C16_tie_parseConstraint_tie := @Verif.Tie.Vers.Constraints.parseConstraint_tie.
Definition C16_tie_parseConstraint_finished := @Verif.Tie.Vers.Constraints.parseConstraint_finished.
Definition C16_tie_parseConstraints_tie := @Verif.Tie.Vers.Constraints.parseConstraints_tie.
Definition C16_tie_parseConstraints_finished := @Verif.Tie.Vers.Constraints.parseConstraints_finished.
Definition C16_tie_parseConstraints_normalize := @Verif.Tie.Vers.Constraints.parseConstraints_normalize.
Definition C16_tie_alternatingIntervals_no_panic := @Verif.Tie.Vers.CoreAlternating.alternatingIntervals_no_panic.
Definition C16_tie_alternatingIntervals_total := @Verif.Tie.Vers.CoreAlternating.alternatingIntervals_total.
Definition C16_tie_printers_len := @Verif.Tie.Vers.CoreContains.printers_len.
Definition C16_tie_printers_len' := @Verif.Tie.Vers.CoreContains.printers_len'.
Definition C16_tie_contains_tie := @Verif.Tie.Vers.CoreContains.contains_tie.
Definition C16_tie_toRanges_no_panic := @Verif.Tie.Vers.CoreContains.toRanges_no_panic.
Definition C16_tie_contains_no_panic := @Verif.Tie.Vers.CoreContains.contains_no_panic.
Definition C16_tie_isPyPIPrerelease_tie := @Verif.Tie.Vers.CoreDispatch.isPyPIPrerelease_tie.
Definition C16_tie_pypiContains_tie := @Verif.Tie.Vers.CoreDispatch.pypiContains_tie.
Definition C16_tie_Contains_tie := @Verif.Tie.Vers.CoreDispatch.Contains_tie.
Definition C16_tie_Contains_no_panic := @Verif.Tie.Vers.CoreDispatch.Contains_no_panic.
Definition C16_tie_groupConstraintsIntoIntervals_no_panic := @Verif.Tie.Vers.CoreGroup.groupConstraintsIntoIntervals_no_panic.
Definition C16_tie_groupConstraintsIntoIntervals_total := @Verif.Tie.Vers.CoreGroup.groupConstraintsIntoIntervals_total.
Definition C16_tie_ensures_finished := @Verif.Tie.Vers.CoreGroupLen.ensures_finished.
Definition C16_tie_alternatingIntervals_tie := @Verif.Tie.Vers.CoreGroupTie.alternatingIntervals_tie.
Definition C16_tie_alternatingIntervals_tie_finished := @Verif.Tie.Vers.CoreGroupTie.alternatingIntervals_tie_finished.
Definition C16_tie_groupConstraintsIntoIntervals_tie := @Verif.Tie.Vers.CoreGroupTie.groupConstraintsIntoIntervals_tie.
Definition C16_tie_groupConstraintsIntoIntervals_tie_finished := @Verif.Tie.Vers.CoreGroupTie.groupConstraintsIntoIntervals_tie_finished.
Definition C16_tie_normalizeConstraints_no_panic := @Verif.Tie.Vers.CoreNormalize.normalizeConstraints_no_panic.
Definition C16_tie_collect_tie := @Verif.Tie.Vers.CoreNormalize.collect_tie.
Definition C16_tie_ccmp_le_total := @Verif.Tie.Vers.CoreNormalize.ccmp_le_total.
Definition C16_tie_normalize_go_tie := @Verif.Tie.Vers.CoreNormalize.normalize_go_tie.
Definition C16_tie_normalizeConstraints_tie := @Verif.Tie.Vers.CoreNormalize.normalizeConstraints_tie.
Definition C16_tie_toRanges_tie := @Verif.Tie.Vers.CoreToRanges.toRanges_tie.
Definition C16_tie_toRanges_normalize := @Verif.Tie.Vers.CoreToRanges.toRanges_normalize.
Definition C16_tie_alpine_printer_tie := @Verif.Tie.Vers.Printers.alpine_printer_tie.
Definition C16_tie_cargo_printer_tie := @Verif.Tie.Vers.Printers.cargo_printer_tie.
Definition C16_tie_debian_printer_tie := @Verif.Tie.Vers.Printers.debian_printer_tie.
Definition C16_tie_gem_printer_tie := @Verif.Tie.Vers.Printers.gem_printer_tie.
Definition C16_tie_golang_printer_tie := @Verif.Tie.Vers.Printers.golang_printer_tie.
Definition C16_tie_maven_printer_tie := @Verif.Tie.Vers.Printers.maven_printer_tie.
Definition C16_tie_npm_printer_tie := @Verif.Tie.Vers.Printers.npm_printer_tie.
Definition C16_tie_nuget_printer_tie := @Verif.Tie.Vers.Printers.nuget_printer_tie.
Definition C16_tie_pypi_printer_tie := @Verif.Tie.Vers.Printers.pypi_printer_tie.
Definition C16_tie_rpm_printer_tie := @Verif.Tie.Vers.Printers.rpm_printer_tie.
Definition C16_tie_semver_printer_tie := @Verif.Tie.Vers.Printers.semver_printer_tie.
Definition C16_tie_printers_keys := @Verif.Tie.Vers.Printers.printers_keys.
Definition C16_tie_printers_match_style_table := @Verif.Tie.Vers.Printers.printers_match_style_table.
Definition C16_tie_printers_on_model_interval := @Verif.Tie.Vers.Printers.printers_on_model_interval.
Definition C16_tie_containsPrereleaseMarkers_tie := @Verif.Tie.Vers.Pypi.containsPrereleaseMarkers_tie.
Definition C16_tie_containsPrereleaseMarkers_finished := @Verif.Tie.Vers.Pypi.containsPrereleaseMarkers_finished.
Definition C16_tie_constraintsIncludePrerelease_finished := @Verif.Tie.Vers.Pypi.constraintsIncludePrerelease_finished.
Definition C16_tie_constraintsIncludePrerelease_tie := @Verif.Tie.Vers.Pypi.constraintsIncludePrerelease_tie.
Definition C16_tie_printers_texts := @Verif.Tie.Vers.Texts.printers_texts.
Definition C16_tie_printers_texts_normalize := @Verif.Tie.Vers.Texts.printers_texts_normalize.
Definition C16_tie_valid_tie := @Verif.Tie.Vers.Valid.valid_tie.
Definition C16_tie_valid_finished := @Verif.Tie.Vers.Valid.valid_finished.
Definition C16_tie_scheme_tie := @Verif.Tie.Vers.Valid.scheme_tie.
Definition C16_tie_scheme_finished := @Verif.Tie.Vers.Valid.scheme_finished.
Definition C16_ties_all := (C16_tie_Contains_no_panic, (C16_tie_Contains_tie, (C16_tie_alpine_printer_tie, (C16_tie_alternatingIntervals_no_panic, (C16_tie_alternatingIntervals_tie, (C16_tie_alternatingIntervals_tie_finished, (C16_tie_alternatingIntervals_total, (C16_tie_cargo_printer_tie, (C16_tie_ccmp_le_total, (C16_tie_collect_tie, (C16_tie_constraintsIncludePrerelease_finished, (C16_tie_constraintsIncludePrerelease_tie, (C16_tie_containsPrereleaseMarkers_finished, (C16_tie_containsPrereleaseMarkers_tie, (C16_tie_contains_no_panic, (C16_tie_contains_tie, (C16_tie_debian_printer_tie, (C16_tie_ensureVPrefix_tie, (C16_tie_ensures_finished, (C16_tie_gem_printer_tie, (C16_tie_golang_printer_tie, (C16_tie_groupConstraintsIntoIntervals_no_panic, (C16_tie_groupConstraintsIntoIntervals_tie, (C16_tie_groupConstraintsIntoIntervals_tie_finished, (C16_tie_groupConstraintsIntoIntervals_total, (C16_tie_isPyPIPrerelease_tie, (C16_tie_maven_printer_tie, (C16_tie_normalizeConstraints_no_panic, (C16_tie_normalizeConstraints_tie, (C16_tie_normalize_go_tie, (C16_tie_npm_printer_tie, (C16_tie_nuget_printer_tie, (C16_tie_parseConstraint_finished, (C16_tie_parseConstraint_tie, (C16_tie_parseConstraints_finished, (C16_tie_parseConstraints_normalize, (C16_tie_parseConstraints_tie, (C16_tie_printers_keys, (C16_tie_printers_len, (C16_tie_printers_len', (C16_tie_printers_match_style_table, (C16_tie_printers_on_model_interval, (C16_tie_printers_texts, (C16_tie_printers_texts_normalize, (C16_tie_pypiContains_tie, (C16_tie_pypi_printer_tie, (C16_tie_rpm_printer_tie, (C16_tie_scheme_finished, (C16_tie_scheme_tie, (C16_tie_semver_printer_tie, (C16_tie_shouldMergeConstraints_tie, (C16_tie_toRanges_no_panic, (C16_tie_toRanges_normalize, (C16_tie_toRanges_tie, (C16_tie_valid_finished, C16_tie_valid_tie))))))))))))))))))))))))))))))))))))))))))))))))))))))).
Print Assumptions C16_ties_all.
(* ====== ties to the source: END ====== *)
