(* C17 — VERS validates its input and routes each scheme to the right ecosystem.
   Statements only; the proofs live in Vers/FactsC17.v.

   Property: vers.Contains returns an error (and false) for every range string that does not
   start with 'vers:', lacks the '/' separator, has an empty or non-[a-z0-9] scheme, names an
   unsupported scheme, has no constraint, a constraint without a comparator or version, a
   non-printable or non-ASCII character, a misplaced '*', or a version - in a constraint or as
   the probe - that the scheme's ecosystem rejects.  Each supported scheme name is evaluated with
   exactly its ecosystem's versions and order (deb with Debian, generic with SemVer, golang with
   Go modules, and so on).  The lone '*' range, which is answered before scheme and version are
   looked at, is not covered.

   [vers_contains table styles ops range version] (Vers/Model.v) is the model of vers.Contains,
   [VErr] the error outcome.  Every theorem holds for ARBITRARY dispatch table [table], native
   syntax table [styles], ecosystem layers [ops] and probe [version].
   [vers_text eco ctext] is the text "vers:" ++ eco ++ "/" ++ ctext; with
   [contains_c "/" eco = false], [eco] is the scheme and [split_c "|" ctext] the constraint list.
   [lone_star cl]: there is a '*' constraint and every other constraint is blank.
   The dispatch theorems are about the GENERATED tables of Gen/VersDispatch.v. *)
From Verif.Base Require Import Bytes.
From Verif.Vers Require Import Model FactsStr FactsC17.
From Verif.Gen Require Import VersDispatch.

Theorem C17_err_no_vers_prefix :
  forall table styles ops range version,
  has_prefix $"vers:" range = false -> vers_contains table styles ops range version = VErr.
Proof. exact err_no_vers_prefix. Qed.
Print Assumptions C17_err_no_vers_prefix.

Theorem C17_err_not_printable :
  forall table styles ops range version,
  forallb printable range = false -> vers_contains table styles ops range version = VErr.
Proof. exact err_not_printable. Qed.
Print Assumptions C17_err_not_printable.

Theorem C17_err_nonprintable_char :
  forall table styles ops range version c,
  In c range -> printable c = false -> vers_contains table styles ops range version = VErr.
Proof. exact err_nonprintable_char. Qed.
Print Assumptions C17_err_nonprintable_char.

Theorem C17_err_no_slash :
  forall table styles ops rest version,
  contains_c "/"%char rest = false -> vers_contains table styles ops ($"vers:" ++ rest) version = VErr.
Proof. exact err_no_slash. Qed.
Print Assumptions C17_err_no_slash.

Theorem C17_err_empty_scheme :
  forall table styles ops ctext version,
  vers_contains table styles ops (vers_text [] ctext) version = VErr.
Proof. exact err_empty_scheme. Qed.
Print Assumptions C17_err_empty_scheme.

Theorem C17_err_bad_scheme :
  forall table styles ops eco ctext version,
  contains_c "/"%char eco = false -> forallb scheme_char eco = false ->
      vers_contains table styles ops (vers_text eco ctext) version = VErr.
Proof. exact err_bad_scheme. Qed.
Print Assumptions C17_err_bad_scheme.

Theorem C17_err_bad_scheme_char :
  forall table styles ops eco ctext version c,
  contains_c "/"%char eco = false -> In c eco -> scheme_char c = false ->
      vers_contains table styles ops (vers_text eco ctext) version = VErr.
Proof. exact err_bad_scheme_char. Qed.
Print Assumptions C17_err_bad_scheme_char.

Theorem C17_err_unknown_scheme :
  forall table styles ops eco ctext version,
  contains_c "/"%char eco = false -> find_scheme eco table = None ->
      lone_star (split_c "|"%char ctext) = false ->
      vers_contains table styles ops (vers_text eco ctext) version = VErr.
Proof. exact err_unknown_scheme. Qed.
Print Assumptions C17_err_unknown_scheme.

Theorem C17_err_no_constraint :
  forall table styles ops eco version,
  contains_c "/"%char eco = false -> vers_contains table styles ops (vers_text eco []) version = VErr.
Proof. exact err_no_constraint. Qed.
Print Assumptions C17_err_no_constraint.

Theorem C17_err_two_stars :
  forall table styles ops eco ctext version,
  contains_c "/"%char eco = false ->
      (1 < length (filter is_star (split_c "|"%char ctext)))%nat ->
      vers_contains table styles ops (vers_text eco ctext) version = VErr.
Proof. exact err_two_stars. Qed.
Print Assumptions C17_err_two_stars.

Theorem C17_err_star_with_other :
  forall table styles ops eco ctext version c d,
  contains_c "/"%char eco = false ->
      In c (split_c "|"%char ctext) -> is_star c = true ->
      In d (split_c "|"%char ctext) -> is_star d = false -> is_blank d = false ->
      vers_contains table styles ops (vers_text eco ctext) version = VErr.
Proof. exact err_star_with_other. Qed.
Print Assumptions C17_err_star_with_other.

Theorem C17_err_no_comparator :
  forall table styles ops eco ctext version c,
  contains_c "/"%char eco = false ->
      In c (split_c "|"%char ctext) -> is_star c = false -> strip_spaces c <> [] ->
      strip_vop vers_ops (strip_spaces c) = None ->
      vers_contains table styles ops (vers_text eco ctext) version = VErr.
Proof. exact err_no_comparator. Qed.
Print Assumptions C17_err_no_comparator.

Theorem C17_err_no_version :
  forall table styles ops eco ctext version c o,
  contains_c "/"%char eco = false ->
      In c (split_c "|"%char ctext) -> strip_spaces c = op_text o ->
      vers_contains table styles ops (vers_text eco ctext) version = VErr.
Proof. exact err_no_version. Qed.
Print Assumptions C17_err_no_version.

Theorem C17_err_bad_bound :
  forall table styles ops eco ctext version c o a,
  contains_c "/"%char eco = false ->
      In c (split_c "|"%char ctext) -> strip_vop vers_ops (strip_spaces c) = Some (o, a) ->
      (forall sc, find_scheme eco table = Some sc -> s_vok (ops (sc_eco sc)) a = false) ->
      vers_contains table styles ops (vers_text eco ctext) version = VErr.
Proof. exact err_bad_bound. Qed.
Print Assumptions C17_err_bad_bound.

Theorem C17_err_bad_probe :
  forall table styles ops eco ctext version,
  contains_c "/"%char eco = false ->
      lone_star (split_c "|"%char ctext) = false ->
      (forall sc, find_scheme eco table = Some sc -> s_vok (ops (sc_eco sc)) version = false) ->
      vers_contains table styles ops (vers_text eco ctext) version = VErr.
Proof. exact err_bad_probe. Qed.
Print Assumptions C17_err_bad_probe.

Theorem C17_err_valid_none :
  forall table styles ops range version,
  valid range = None -> vers_contains table styles ops range version = VErr.
Proof. exact err_valid_none. Qed.
Print Assumptions C17_err_valid_none.

Theorem C17_err_bad_probe_valid :
  forall table styles ops range version name cl,
  valid range = Some (name, cl) -> lone_star cl = false ->
      (forall sc, find_scheme name table = Some sc -> s_vok (ops (sc_eco sc)) version = false) ->
      vers_contains table styles ops range version = VErr.
Proof. exact err_bad_probe_valid. Qed.
Print Assumptions C17_err_bad_probe_valid.

(* ---------- dispatch: the generated tables ---------- *)

Theorem C17_dispatch_alpine :
  eco_of $"alpine" = Some $"alpine".
Proof. exact dispatch_alpine. Qed.
Print Assumptions C17_dispatch_alpine.

Theorem C17_dispatch_cargo :
  eco_of $"cargo" = Some $"cargo".
Proof. exact dispatch_cargo. Qed.
Print Assumptions C17_dispatch_cargo.

Theorem C17_dispatch_deb :
  eco_of $"deb" = Some $"debian".
Proof. exact dispatch_deb. Qed.
Print Assumptions C17_dispatch_deb.

Theorem C17_dispatch_gem :
  eco_of $"gem" = Some $"gem".
Proof. exact dispatch_gem. Qed.
Print Assumptions C17_dispatch_gem.

Theorem C17_dispatch_generic :
  eco_of $"generic" = Some $"semver".
Proof. exact dispatch_generic. Qed.
Print Assumptions C17_dispatch_generic.

Theorem C17_dispatch_golang :
  eco_of $"golang" = Some $"golang".
Proof. exact dispatch_golang. Qed.
Print Assumptions C17_dispatch_golang.

Theorem C17_dispatch_maven :
  eco_of $"maven" = Some $"maven".
Proof. exact dispatch_maven. Qed.
Print Assumptions C17_dispatch_maven.

Theorem C17_dispatch_npm :
  eco_of $"npm" = Some $"npm".
Proof. exact dispatch_npm. Qed.
Print Assumptions C17_dispatch_npm.

Theorem C17_dispatch_nuget :
  eco_of $"nuget" = Some $"nuget".
Proof. exact dispatch_nuget. Qed.
Print Assumptions C17_dispatch_nuget.

Theorem C17_dispatch_pypi :
  eco_of $"pypi" = Some $"pypi".
Proof. exact dispatch_pypi. Qed.
Print Assumptions C17_dispatch_pypi.

Theorem C17_dispatch_rpm :
  eco_of $"rpm" = Some $"rpm".
Proof. exact dispatch_rpm. Qed.
Print Assumptions C17_dispatch_rpm.

Theorem C17_dispatch_all :
  forallb (fun p => match eco_of (fst p) with Some e => beq e (snd p) | None => false end)
            expected_dispatch = true.
Proof. exact dispatch_all. Qed.
Print Assumptions C17_dispatch_all.

Theorem C17_dispatch_styles :
  forallb (fun p => match lookup (snd p) style_table with Some _ => true | None => false end)
            expected_dispatch = true.
Proof. exact dispatch_styles. Qed.
Print Assumptions C17_dispatch_styles.

Theorem C17_dispatch_style_values :
  map (fun p => lookup (snd p) style_table) expected_dispatch =
    [ Some NSpace; Some NComma; Some NComma; Some NComma; Some NSpace; Some NGolang;
      Some NMaven; Some NSpace; Some NNuget; Some NPypi; Some NComma ].
Proof. exact dispatch_style_values. Qed.
Print Assumptions C17_dispatch_style_values.

Theorem C17_dispatch_names_exact :
  forallb (fun n => mem n (map fst expected_dispatch)) (map sc_name scheme_table) = true /\
  forallb (fun n => mem n (map sc_name scheme_table)) (map fst expected_dispatch) = true /\
  length scheme_table = 11%nat.
Proof. exact dispatch_names_exact. Qed.
Print Assumptions C17_dispatch_names_exact.

Theorem C17_dispatch_only_known :
  forall name sc,
  find_scheme name scheme_table = Some sc -> In name (map fst expected_dispatch).
Proof. exact dispatch_only_known. Qed.
Print Assumptions C17_dispatch_only_known.

Theorem C17_dispatch_gate :
  forallb (fun s => Bool.eqb (sc_pypi_gate s) (beq (sc_name s) $"pypi")) scheme_table = true.
Proof. exact dispatch_gate. Qed.
Print Assumptions C17_dispatch_gate.

(* ====== ties to the source: BEGIN (written by bin/mkties) ====== *)
(* The Go functions named here are translated into Gallina from /repo's source on every run
   (tools/gen -> Gen/Code/<Eco>.v for loop-free functions, Gen/Loops/<Eco>.v for functions with
   loops and index expressions, where a panic is Panic and a loop takes fuel); Tie/<Eco>.v,
   Tie/<Eco>Range.v and Tie/Loops/<Eco>.v prove each translation equal to the model the theorems
   above speak about (and, for the loop functions: no panic, termination within a linear bound).
   If the code changes so that a tie no longer holds, this file no longer checks. *)
Require Verif.Tie.Vers.Code.
Require Verif.Tie.Vers.Constraints.
Require Verif.Tie.Vers.CoreAlternating.
Require Verif.Tie.Vers.CoreContains.
Require Verif.Tie.Vers.CoreDispatch.
Require Verif.Tie.Vers.CoreGroup.
Require Verif.Tie.Vers.CoreGroupLen.
Require Verif.Tie.Vers.CoreGroupTie.
Require Verif.Tie.Vers.CoreNormalize.
Require Verif.Tie.Vers.CoreToRanges.
Require Verif.Tie.Vers.Printers.
Require Verif.Tie.Vers.Pypi.
Require Verif.Tie.Vers.Texts.
Require Verif.Tie.Vers.Valid.
Definition C17_tie_shouldMergeConstraints_tie := @Verif.Tie.Vers.Code.shouldMergeConstraints_tie.
Definition C17_tie_ensureVPrefix_tie := @Verif.Tie.Vers.Code.ensureVPrefix_tie.
Definition C17_tie_parseConstraint_tie := @Verif.Tie.Vers.Constraints.parseConstraint_tie.
Definition C17_tie_parseConstraint_finished := @Verif.Tie.Vers.Constraints.parseConstraint_finished.
Definition C17_tie_parseConstraints_tie := @Verif.Tie.Vers.Constraints.parseConstraints_tie.
Definition C17_tie_parseConstraints_finished := @Verif.Tie.Vers.Constraints.parseConstraints_finished.
Definition C17_tie_parseConstraints_normalize := @Verif.Tie.Vers.Constraints.parseConstraints_normalize.
Definition C17_tie_alternatingIntervals_no_panic := @Verif.Tie.Vers.CoreAlternating.alternatingIntervals_no_panic.
Definition C17_tie_alternatingIntervals_total := @Verif.Tie.Vers.CoreAlternating.alternatingIntervals_total.
Definition C17_tie_printers_len := @Verif.Tie.Vers.CoreContains.printers_len.
Definition C17_tie_printers_len' := @Verif.Tie.Vers.CoreContains.printers_len'.
Definition C17_tie_contains_tie := @Verif.Tie.Vers.CoreContains.contains_tie.
Definition C17_tie_toRanges_no_panic := @Verif.Tie.Vers.CoreContains.toRanges_no_panic.
Definition C17_tie_contains_no_panic := @Verif.Tie.Vers.CoreContains.contains_no_panic.
Definition C17_tie_isPyPIPrerelease_tie := @Verif.Tie.Vers.CoreDispatch.isPyPIPrerelease_tie.
Definition C17_tie_pypiContains_tie := @Verif.Tie.Vers.CoreDispatch.pypiContains_tie.
Definition C17_tie_Contains_tie := @Verif.Tie.Vers.CoreDispatch.Contains_tie.
Definition C17_tie_Contains_no_panic := @Verif.Tie.Vers.CoreDispatch.Contains_no_panic.
Definition C17_tie_groupConstraintsIntoIntervals_no_panic := @Verif.Tie.Vers.CoreGroup.groupConstraintsIntoIntervals_no_panic.
Definition C17_tie_groupConstraintsIntoIntervals_total := @Verif.Tie.Vers.CoreGroup.groupConstraintsIntoIntervals_total.
Definition C17_tie_ensures_finished := @Verif.Tie.Vers.CoreGroupLen.ensures_finished.
Definition C17_tie_alternatingIntervals_tie := @Verif.Tie.Vers.CoreGroupTie.alternatingIntervals_tie.
Definition C17_tie_alternatingIntervals_tie_finished := @Verif.Tie.Vers.CoreGroupTie.alternatingIntervals_tie_finished.
Definition C17_tie_groupConstraintsIntoIntervals_tie := @Verif.Tie.Vers.CoreGroupTie.groupConstraintsIntoIntervals_tie.
Definition C17_tie_groupConstraintsIntoIntervals_tie_finished := @Verif.Tie.Vers.CoreGroupTie.groupConstraintsIntoIntervals_tie_finished.
Definition C17_tie_normalizeConstraints_no_panic := @Verif.Tie.Vers.CoreNormalize.normalizeConstraints_no_panic.
Definition C17_tie_collect_tie := @Verif.Tie.Vers.CoreNormalize.collect_tie.
Definition C17_tie_ccmp_le_total := @Verif.Tie.Vers.CoreNormalize.ccmp_le_total.
Definition C17_tie_normalize_go_tie := @Verif.Tie.Vers.CoreNormalize.normalize_go_tie.
Definition C17_tie_normalizeConstraints_tie := @Verif.Tie.Vers.CoreNormalize.normalizeConstraints_tie.
Definition C17_tie_toRanges_tie := @Verif.Tie.Vers.CoreToRanges.toRanges_tie.
Definition C17_tie_toRanges_normalize := @Verif.Tie.Vers.CoreToRanges.toRanges_normalize.
Definition C17_tie_alpine_printer_tie := @Verif.Tie.Vers.Printers.alpine_printer_tie.
Definition C17_tie_cargo_printer_tie := @Verif.Tie.Vers.Printers.cargo_printer_tie.
Definition C17_tie_debian_printer_tie := @Verif.Tie.Vers.Printers.debian_printer_tie.
Definition C17_tie_gem_printer_tie := @Verif.Tie.Vers.Printers.gem_printer_tie.
Definition C17_tie_golang_printer_tie := @Verif.Tie.Vers.Printers.golang_printer_tie.
Definition C17_tie_maven_printer_tie := @Verif.Tie.Vers.Printers.maven_printer_tie.
Definition C17_tie_npm_printer_tie := @Verif.Tie.Vers.Printers.npm_printer_tie.
Definition C17_tie_nuget_printer_tie := @Verif.Tie.Vers.Printers.nuget_printer_tie.
Definition C17_tie_pypi_printer_tie := @Verif.Tie.Vers.Printers.pypi_printer_tie.
Definition C17_tie_rpm_printer_tie := @Verif.Tie.Vers.Printers.rpm_printer_tie.
Definition C17_tie_semver_printer_tie := @Verif.Tie.Vers.Printers.semver_printer_tie.
Definition C17_tie_printers_keys := @Verif.Tie.Vers.Printers.printers_keys.
Definition C17_tie_printers_match_style_table := @Verif.Tie.Vers.Printers.printers_match_style_table.
Definition C17_tie_printers_on_model_interval := @Verif.Tie.Vers.Printers.printers_on_model_interval.
Definition C17_tie_containsPrereleaseMarkers_tie := @Verif.Tie.Vers.Pypi.containsPrereleaseMarkers_tie.
Definition C17_tie_containsPrereleaseMarkers_finished := @Verif.Tie.Vers.Pypi.containsPrereleaseMarkers_finished.
Definition C17_tie_constraintsIncludePrerelease_finished := @Verif.Tie.Vers.Pypi.constraintsIncludePrerelease_finished.
Definition C17_tie_constraintsIncludePrerelease_tie := @Verif.Tie.Vers.Pypi.constraintsIncludePrerelease_tie.
Definition C17_tie_printers_texts := @Verif.Tie.Vers.Texts.printers_texts.
Definition C17_tie_printers_texts_normalize := @Verif.Tie.Vers.Texts.printers_texts_normalize.
Definition C17_tie_valid_tie := @Verif.Tie.Vers.Valid.valid_tie.
Definition C17_tie_valid_finished := @Verif.Tie.Vers.Valid.valid_finished.
Definition C17_tie_scheme_tie := @Verif.Tie.Vers.Valid.scheme_tie.
Definition C17_tie_scheme_finished := @Verif.Tie.Vers.Valid.scheme_finished.
Definition C17_ties_all := (C17_tie_Contains_no_panic, (C17_tie_Contains_tie, (C17_tie_alpine_printer_tie, (C17_tie_alternatingIntervals_no_panic, (C17_tie_alternatingIntervals_tie, (C17_tie_alternatingIntervals_tie_finished, (C17_tie_alternatingIntervals_total, (C17_tie_cargo_printer_tie, (C17_tie_ccmp_le_total, (C17_tie_collect_tie, (C17_tie_constraintsIncludePrerelease_finished, (C17_tie_constraintsIncludePrerelease_tie, (C17_tie_containsPrereleaseMarkers_finished, (C17_tie_containsPrereleaseMarkers_tie, (C17_tie_contains_no_panic, (C17_tie_contains_tie, (C17_tie_debian_printer_tie, (C17_tie_ensureVPrefix_tie, (C17_tie_ensures_finished, (C17_tie_gem_printer_tie, (C17_tie_golang_printer_tie, (C17_tie_groupConstraintsIntoIntervals_no_panic, (C17_tie_groupConstraintsIntoIntervals_tie, (C17_tie_groupConstraintsIntoIntervals_tie_finished, (C17_tie_groupConstraintsIntoIntervals_total, (C17_tie_isPyPIPrerelease_tie, (C17_tie_maven_printer_tie, (C17_tie_normalizeConstraints_no_panic, (C17_tie_normalizeConstraints_tie, (C17_tie_normalize_go_tie, (C17_tie_npm_printer_tie, (C17_tie_nuget_printer_tie, (C17_tie_parseConstraint_finished, (C17_tie_parseConstraint_tie, (C17_tie_parseConstraints_finished, (C17_tie_parseConstraints_normalize, (C17_tie_parseConstraints_tie, (C17_tie_printers_keys, (C17_tie_printers_len, (C17_tie_printers_len', (C17_tie_printers_match_style_table, (C17_tie_printers_on_model_interval, (C17_tie_printers_texts, (C17_tie_printers_texts_normalize, (C17_tie_pypiContains_tie, (C17_tie_pypi_printer_tie, (C17_tie_rpm_printer_tie, (C17_tie_scheme_finished, (C17_tie_scheme_tie, (C17_tie_semver_printer_tie, (C17_tie_shouldMergeConstraints_tie, (C17_tie_toRanges_no_panic, (C17_tie_toRanges_normalize, (C17_tie_toRanges_tie, (C17_tie_valid_finished, C17_tie_valid_tie))))))))))))))))))))))))))))))))))))))))))))))))))))))).
Print Assumptions C17_ties_all.
(* ====== ties to the source: END ====== *)
