(* C18 — Parsed values keep their text; re-parsing and outer whitespace change nothing.
   Statements only; the proofs are instances of the generic theorems of Eco/VLayerFacts.v
   (versions) and of Properties/Support/RangeC18.v over Eco/RangeCoreFacts.v (ranges).

   VERSIONS, all 20 ecosystems, no restriction.  Every ecosystem's [parse] / [cmp] /
   [show] (models of NewVersion / Compare / String) is an instance of Eco/VLayer.v: the input is
   trimmed, the structure ("core") is computed from the trimmed text alone, Compare reads only the
   core.  Per ecosystem:
     C18_<eco>_version_show     String() of an accepted input has the same trimmed form as the input
                                (it IS the input, or the trimmed input, depending on the ecosystem);
     C18_<eco>_version_reparse  parsing String() again succeeds and yields a value that compares Eq
                                with the first, in both directions;
     C18_<eco>_version_pad      for paddings p, q made of ASCII whitespace (space, tab, LF, VT, FF,
                                CR), s and p ++ s ++ q are both rejected or both accepted, and then
                                with the SAME core - hence every Compare result is the same.
   For alpine, gentoo, alpm the reflexivity of Compare that the re-parse statement needs is the
   one proved for parsed values (alpine, gentoo) resp. within a pkgrel class (alpm); for maven it
   is Maven.VersionFacts.cmp_refl.  Nothing else is assumed.

   RANGES, all 20 ecosystems, no restriction, stated on the string-level interface
   [Entry.r : rops] (r_show = String() of the accepted range, r_contains = Contains) for ARBITRARY
   version oracles vok / vcmp:
     C18_<eco>_range_show       r_show of an accepted input has the same trimmed form as the input;
     C18_<eco>_range_reparse    the printed text is accepted again and contains exactly the same
                                versions (r_contains agrees for every probe, accepted or not);
     C18_<eco>_range_pad        padding changes neither acceptance nor any containment result.
   conan lower-cases the range text before trimming; the statements hold unchanged.  gem's
   range parser is RangeCore's with a custom Contains (Support/GemSupport.v).
   The model-level lemmas written with the models (npm, semver: re-parsing gives the identical
   parsed range; hex, alpine: String() is the input itself) are restated at the end. *)

From Verif.Base Require Import Bytes BytesFacts GoNum Ord.
From Verif.Eco Require Import RangeCore RangeCoreFacts Iface VLayer VLayerFacts.
From Verif.Eco.Alpine Require Version VersionFacts Range RangeFacts Entry OrdMore.
From Verif.Eco.Alpm Require Version VersionFacts Range RangeFacts Entry C03Facts.
From Verif.Eco.Apache Require Version VersionFacts Range RangeFacts Entry.
From Verif.Eco.Cargo Require Version VersionFacts Range RangeFacts Entry.
From Verif.Eco.Composer Require Version VersionFacts Range RangeFacts Entry.
From Verif.Eco.Conan Require Version VersionFacts Range RangeFacts Entry.
From Verif.Eco.Cran Require Version VersionFacts Range Entry.
From Verif.Eco.Debian Require Version VersionFacts Range RangeFacts Entry.
From Verif.Eco.Gem Require Version VersionFacts Range RangeFacts Entry.
From Verif.Eco.Gentoo Require Version VersionFacts Range RangeFacts Entry.
From Verif.Eco.Github Require Version VersionFacts Range RangeFacts Entry.
From Verif.Eco.Golang Require Version VersionFacts Range RangeFacts Entry.
From Verif.Eco.Hex Require Version VersionFacts Range RangeFacts Entry.
From Verif.Eco.Mattermost Require Version VersionFacts Range RangeFacts Entry.
From Verif.Eco.Maven Require Version VersionFacts Range RangeFacts Entry.
From Verif.Eco.Npm Require Version VersionFacts Range RangeFacts Entry.
From Verif.Eco.Nuget Require Version VersionFacts Range RangeFacts Entry.
From Verif.Eco.Pypi Require Version VersionFacts Range RangeFacts Entry.
From Verif.Eco.Rpm Require Version VersionFacts Range RangeFacts Entry.
From Verif.Eco.Semver Require Version VersionFacts Range RangeFacts Entry.
From Verif.Properties.Support Require SimpleRops RangeC18 VLayerMore GemSupport.


(* ==================== versions ==================== *)

(* alpine *)

Theorem C18_alpine_version_show : forall s v,
  Alpine.Version.parse s = Some v -> trim_space (Alpine.Version.show v) = trim_space s.
Proof. exact (show_trim _ Alpine.Version.parse_core Alpine.Version.raw_orig). Qed.
Print Assumptions C18_alpine_version_show.

Theorem C18_alpine_version_reparse : forall s v,
  Alpine.Version.parse s = Some v ->
  exists v', Alpine.Version.parse (Alpine.Version.show v) = Some v' /\
             Alpine.Version.cmp v v' = Eq /\ Alpine.Version.cmp v' v = Eq.
Proof.
  intros s v H.
  exact (VLayerMore.reparse_refl _ _ _ _ s v H
           (tpo_refl Alpine.VersionFacts.cmp_tp v (Alpine.VersionFacts.parse_wf s v H))).
Qed.
Print Assumptions C18_alpine_version_reparse.

Theorem C18_alpine_version_pad : forall p q s,
  forallb is_space p = true -> forallb is_space q = true ->
  match Alpine.Version.parse s, Alpine.Version.parse (p ++ s ++ q) with
  | Some v, Some v' => v_core v = v_core v'
  | None, None => True
  | _, _ => False
  end.
Proof. exact (pad_invariant _ Alpine.Version.parse_core Alpine.Version.raw_orig). Qed.
Print Assumptions C18_alpine_version_pad.

(* alpm *)

Theorem C18_alpm_version_show : forall s v,
  Alpm.Version.parse s = Some v -> trim_space (Alpm.Version.show v) = trim_space s.
Proof. exact (show_trim _ Alpm.Version.parse_core Alpm.Version.raw_orig). Qed.
Print Assumptions C18_alpm_version_show.

Theorem C18_alpm_version_reparse : forall s v,
  Alpm.Version.parse s = Some v ->
  exists v', Alpm.Version.parse (Alpm.Version.show v) = Some v' /\
             Alpm.Version.cmp v v' = Eq /\ Alpm.Version.cmp v' v = Eq.
Proof.
  intros s v H.
  exact (VLayerMore.reparse_refl _ _ _ _ s v H
           (tpo_refl (Alpm.VersionFacts.cmp_tp _) v eq_refl)).
Qed.
Print Assumptions C18_alpm_version_reparse.

Theorem C18_alpm_version_pad : forall p q s,
  forallb is_space p = true -> forallb is_space q = true ->
  match Alpm.Version.parse s, Alpm.Version.parse (p ++ s ++ q) with
  | Some v, Some v' => v_core v = v_core v'
  | None, None => True
  | _, _ => False
  end.
Proof. exact (pad_invariant _ Alpm.Version.parse_core Alpm.Version.raw_orig). Qed.
Print Assumptions C18_alpm_version_pad.

(* apache *)

Theorem C18_apache_version_show : forall s v,
  Apache.Version.parse s = Some v -> trim_space (Apache.Version.show v) = trim_space s.
Proof. exact (show_trim _ Apache.Version.parse_core Apache.Version.raw_orig). Qed.
Print Assumptions C18_apache_version_show.

Theorem C18_apache_version_reparse : forall s v,
  Apache.Version.parse s = Some v ->
  exists v', Apache.Version.parse (Apache.Version.show v) = Some v' /\
             Apache.Version.cmp v v' = Eq /\ Apache.Version.cmp v' v = Eq.
Proof.
  intros s v.
  exact (reparse _ Apache.Version.parse_core Apache.Version.cmp_core Apache.Version.raw_orig s v
           (tp_refl Apache.VersionFacts.cmp_core_tp)).
Qed.
Print Assumptions C18_apache_version_reparse.

Theorem C18_apache_version_pad : forall p q s,
  forallb is_space p = true -> forallb is_space q = true ->
  match Apache.Version.parse s, Apache.Version.parse (p ++ s ++ q) with
  | Some v, Some v' => v_core v = v_core v'
  | None, None => True
  | _, _ => False
  end.
Proof. exact (pad_invariant _ Apache.Version.parse_core Apache.Version.raw_orig). Qed.
Print Assumptions C18_apache_version_pad.

(* cargo *)

Theorem C18_cargo_version_show : forall s v,
  Cargo.Version.parse s = Some v -> trim_space (Cargo.Version.show v) = trim_space s.
Proof. exact (show_trim _ Cargo.Version.parse_core Cargo.Version.raw_orig). Qed.
Print Assumptions C18_cargo_version_show.

Theorem C18_cargo_version_reparse : forall s v,
  Cargo.Version.parse s = Some v ->
  exists v', Cargo.Version.parse (Cargo.Version.show v) = Some v' /\
             Cargo.Version.cmp v v' = Eq /\ Cargo.Version.cmp v' v = Eq.
Proof.
  intros s v.
  exact (reparse _ Cargo.Version.parse_core Cargo.Version.cmp_core Cargo.Version.raw_orig s v
           (tp_refl Cargo.VersionFacts.cmp_core_tp)).
Qed.
Print Assumptions C18_cargo_version_reparse.

Theorem C18_cargo_version_pad : forall p q s,
  forallb is_space p = true -> forallb is_space q = true ->
  match Cargo.Version.parse s, Cargo.Version.parse (p ++ s ++ q) with
  | Some v, Some v' => v_core v = v_core v'
  | None, None => True
  | _, _ => False
  end.
Proof. exact (pad_invariant _ Cargo.Version.parse_core Cargo.Version.raw_orig). Qed.
Print Assumptions C18_cargo_version_pad.

(* composer *)

Theorem C18_composer_version_show : forall s v,
  Composer.Version.parse s = Some v -> trim_space (Composer.Version.show v) = trim_space s.
Proof. exact (show_trim _ Composer.Version.parse_core Composer.Version.raw_orig). Qed.
Print Assumptions C18_composer_version_show.

Theorem C18_composer_version_reparse : forall s v,
  Composer.Version.parse s = Some v ->
  exists v', Composer.Version.parse (Composer.Version.show v) = Some v' /\
             Composer.Version.cmp v v' = Eq /\ Composer.Version.cmp v' v = Eq.
Proof.
  intros s v.
  exact (reparse _ Composer.Version.parse_core Composer.Version.cmp_core Composer.Version.raw_orig s v
           (tp_refl Composer.VersionFacts.cmp_core_tp)).
Qed.
Print Assumptions C18_composer_version_reparse.

Theorem C18_composer_version_pad : forall p q s,
  forallb is_space p = true -> forallb is_space q = true ->
  match Composer.Version.parse s, Composer.Version.parse (p ++ s ++ q) with
  | Some v, Some v' => v_core v = v_core v'
  | None, None => True
  | _, _ => False
  end.
Proof. exact (pad_invariant _ Composer.Version.parse_core Composer.Version.raw_orig). Qed.
Print Assumptions C18_composer_version_pad.

(* conan *)

Theorem C18_conan_version_show : forall s v,
  Conan.Version.parse s = Some v -> trim_space (Conan.Version.show v) = trim_space s.
Proof. exact (show_trim _ Conan.Version.parse_core Conan.Version.raw_orig). Qed.
Print Assumptions C18_conan_version_show.

Theorem C18_conan_version_reparse : forall s v,
  Conan.Version.parse s = Some v ->
  exists v', Conan.Version.parse (Conan.Version.show v) = Some v' /\
             Conan.Version.cmp v v' = Eq /\ Conan.Version.cmp v' v = Eq.
Proof.
  intros s v.
  exact (reparse _ Conan.Version.parse_core Conan.Version.cmp_core Conan.Version.raw_orig s v
           (tp_refl Conan.VersionFacts.cmp_core_tp)).
Qed.
Print Assumptions C18_conan_version_reparse.

Theorem C18_conan_version_pad : forall p q s,
  forallb is_space p = true -> forallb is_space q = true ->
  match Conan.Version.parse s, Conan.Version.parse (p ++ s ++ q) with
  | Some v, Some v' => v_core v = v_core v'
  | None, None => True
  | _, _ => False
  end.
Proof. exact (pad_invariant _ Conan.Version.parse_core Conan.Version.raw_orig). Qed.
Print Assumptions C18_conan_version_pad.

(* cran *)

Theorem C18_cran_version_show : forall s v,
  Cran.Version.parse s = Some v -> trim_space (Cran.Version.show v) = trim_space s.
Proof. exact (show_trim _ Cran.Version.parse_core Cran.Version.raw_orig). Qed.
Print Assumptions C18_cran_version_show.

Theorem C18_cran_version_reparse : forall s v,
  Cran.Version.parse s = Some v ->
  exists v', Cran.Version.parse (Cran.Version.show v) = Some v' /\
             Cran.Version.cmp v v' = Eq /\ Cran.Version.cmp v' v = Eq.
Proof.
  intros s v.
  exact (reparse _ Cran.Version.parse_core Cran.Version.cmp_core Cran.Version.raw_orig s v
           (tp_refl Cran.VersionFacts.cmp_core_tp)).
Qed.
Print Assumptions C18_cran_version_reparse.

Theorem C18_cran_version_pad : forall p q s,
  forallb is_space p = true -> forallb is_space q = true ->
  match Cran.Version.parse s, Cran.Version.parse (p ++ s ++ q) with
  | Some v, Some v' => v_core v = v_core v'
  | None, None => True
  | _, _ => False
  end.
Proof. exact (pad_invariant _ Cran.Version.parse_core Cran.Version.raw_orig). Qed.
Print Assumptions C18_cran_version_pad.

(* debian *)

Theorem C18_debian_version_show : forall s v,
  Debian.Version.parse s = Some v -> trim_space (Debian.Version.show v) = trim_space s.
Proof. exact (show_trim _ Debian.Version.parse_core Debian.Version.raw_orig). Qed.
Print Assumptions C18_debian_version_show.

Theorem C18_debian_version_reparse : forall s v,
  Debian.Version.parse s = Some v ->
  exists v', Debian.Version.parse (Debian.Version.show v) = Some v' /\
             Debian.Version.cmp v v' = Eq /\ Debian.Version.cmp v' v = Eq.
Proof.
  intros s v.
  exact (reparse _ Debian.Version.parse_core Debian.Version.cmp_core Debian.Version.raw_orig s v
           (tp_refl Debian.VersionFacts.cmp_core_tp)).
Qed.
Print Assumptions C18_debian_version_reparse.

Theorem C18_debian_version_pad : forall p q s,
  forallb is_space p = true -> forallb is_space q = true ->
  match Debian.Version.parse s, Debian.Version.parse (p ++ s ++ q) with
  | Some v, Some v' => v_core v = v_core v'
  | None, None => True
  | _, _ => False
  end.
Proof. exact (pad_invariant _ Debian.Version.parse_core Debian.Version.raw_orig). Qed.
Print Assumptions C18_debian_version_pad.

(* gem *)

Theorem C18_gem_version_show : forall s v,
  Gem.Version.parse s = Some v -> trim_space (Gem.Version.show v) = trim_space s.
Proof. exact (show_trim _ Gem.Version.parse_core Gem.Version.raw_orig). Qed.
Print Assumptions C18_gem_version_show.

Theorem C18_gem_version_reparse : forall s v,
  Gem.Version.parse s = Some v ->
  exists v', Gem.Version.parse (Gem.Version.show v) = Some v' /\
             Gem.Version.cmp v v' = Eq /\ Gem.Version.cmp v' v = Eq.
Proof.
  intros s v.
  exact (reparse _ Gem.Version.parse_core Gem.Version.cmp_core Gem.Version.raw_orig s v
           (tp_refl Gem.VersionFacts.cmp_core_tp)).
Qed.
Print Assumptions C18_gem_version_reparse.

Theorem C18_gem_version_pad : forall p q s,
  forallb is_space p = true -> forallb is_space q = true ->
  match Gem.Version.parse s, Gem.Version.parse (p ++ s ++ q) with
  | Some v, Some v' => v_core v = v_core v'
  | None, None => True
  | _, _ => False
  end.
Proof. exact (pad_invariant _ Gem.Version.parse_core Gem.Version.raw_orig). Qed.
Print Assumptions C18_gem_version_pad.

(* gentoo *)

Theorem C18_gentoo_version_show : forall s v,
  Gentoo.Version.parse s = Some v -> trim_space (Gentoo.Version.show v) = trim_space s.
Proof. exact (show_trim _ Gentoo.Version.parse_core Gentoo.Version.raw_orig). Qed.
Print Assumptions C18_gentoo_version_show.

Theorem C18_gentoo_version_reparse : forall s v,
  Gentoo.Version.parse s = Some v ->
  exists v', Gentoo.Version.parse (Gentoo.Version.show v) = Some v' /\
             Gentoo.Version.cmp v v' = Eq /\ Gentoo.Version.cmp v' v = Eq.
Proof.
  intros s v H.
  exact (VLayerMore.reparse_refl _ _ _ _ s v H
           (tpo_refl Gentoo.VersionFacts.cmp_tp v (Gentoo.VersionFacts.parse_wf s v H))).
Qed.
Print Assumptions C18_gentoo_version_reparse.

Theorem C18_gentoo_version_pad : forall p q s,
  forallb is_space p = true -> forallb is_space q = true ->
  match Gentoo.Version.parse s, Gentoo.Version.parse (p ++ s ++ q) with
  | Some v, Some v' => v_core v = v_core v'
  | None, None => True
  | _, _ => False
  end.
Proof. exact (pad_invariant _ Gentoo.Version.parse_core Gentoo.Version.raw_orig). Qed.
Print Assumptions C18_gentoo_version_pad.

(* github *)

Theorem C18_github_version_show : forall s v,
  Github.Version.parse s = Some v -> trim_space (Github.Version.show v) = trim_space s.
Proof. exact (show_trim _ Github.Version.parse_core Github.Version.raw_orig). Qed.
Print Assumptions C18_github_version_show.

Theorem C18_github_version_reparse : forall s v,
  Github.Version.parse s = Some v ->
  exists v', Github.Version.parse (Github.Version.show v) = Some v' /\
             Github.Version.cmp v v' = Eq /\ Github.Version.cmp v' v = Eq.
Proof.
  intros s v.
  exact (reparse _ Github.Version.parse_core Github.Version.cmp_core Github.Version.raw_orig s v
           (tp_refl Github.VersionFacts.cmp_core_tp)).
Qed.
Print Assumptions C18_github_version_reparse.

Theorem C18_github_version_pad : forall p q s,
  forallb is_space p = true -> forallb is_space q = true ->
  match Github.Version.parse s, Github.Version.parse (p ++ s ++ q) with
  | Some v, Some v' => v_core v = v_core v'
  | None, None => True
  | _, _ => False
  end.
Proof. exact (pad_invariant _ Github.Version.parse_core Github.Version.raw_orig). Qed.
Print Assumptions C18_github_version_pad.

(* golang *)

Theorem C18_golang_version_show : forall s v,
  Golang.Version.parse s = Some v -> trim_space (Golang.Version.show v) = trim_space s.
Proof. exact (show_trim _ Golang.Version.parse_core Golang.Version.raw_orig). Qed.
Print Assumptions C18_golang_version_show.

Theorem C18_golang_version_reparse : forall s v,
  Golang.Version.parse s = Some v ->
  exists v', Golang.Version.parse (Golang.Version.show v) = Some v' /\
             Golang.Version.cmp v v' = Eq /\ Golang.Version.cmp v' v = Eq.
Proof.
  intros s v.
  exact (reparse _ Golang.Version.parse_core Golang.Version.cmp_core Golang.Version.raw_orig s v
           (tp_refl Golang.VersionFacts.cmp_core_tp)).
Qed.
Print Assumptions C18_golang_version_reparse.

Theorem C18_golang_version_pad : forall p q s,
  forallb is_space p = true -> forallb is_space q = true ->
  match Golang.Version.parse s, Golang.Version.parse (p ++ s ++ q) with
  | Some v, Some v' => v_core v = v_core v'
  | None, None => True
  | _, _ => False
  end.
Proof. exact (pad_invariant _ Golang.Version.parse_core Golang.Version.raw_orig). Qed.
Print Assumptions C18_golang_version_pad.

(* hex *)

Theorem C18_hex_version_show : forall s v,
  Hex.Version.parse s = Some v -> trim_space (Hex.Version.show v) = trim_space s.
Proof. exact (show_trim _ Hex.Version.parse_core Hex.Version.raw_orig). Qed.
Print Assumptions C18_hex_version_show.

Theorem C18_hex_version_reparse : forall s v,
  Hex.Version.parse s = Some v ->
  exists v', Hex.Version.parse (Hex.Version.show v) = Some v' /\
             Hex.Version.cmp v v' = Eq /\ Hex.Version.cmp v' v = Eq.
Proof.
  intros s v.
  exact (reparse _ Hex.Version.parse_core Hex.Version.cmp_core Hex.Version.raw_orig s v
           (tp_refl Hex.VersionFacts.cmp_core_tp)).
Qed.
Print Assumptions C18_hex_version_reparse.

Theorem C18_hex_version_pad : forall p q s,
  forallb is_space p = true -> forallb is_space q = true ->
  match Hex.Version.parse s, Hex.Version.parse (p ++ s ++ q) with
  | Some v, Some v' => v_core v = v_core v'
  | None, None => True
  | _, _ => False
  end.
Proof. exact (pad_invariant _ Hex.Version.parse_core Hex.Version.raw_orig). Qed.
Print Assumptions C18_hex_version_pad.

(* mattermost *)

Theorem C18_mattermost_version_show : forall s v,
  Mattermost.Version.parse s = Some v -> trim_space (Mattermost.Version.show v) = trim_space s.
Proof. exact (show_trim _ Mattermost.Version.parse_core Mattermost.Version.raw_orig). Qed.
Print Assumptions C18_mattermost_version_show.

Theorem C18_mattermost_version_reparse : forall s v,
  Mattermost.Version.parse s = Some v ->
  exists v', Mattermost.Version.parse (Mattermost.Version.show v) = Some v' /\
             Mattermost.Version.cmp v v' = Eq /\ Mattermost.Version.cmp v' v = Eq.
Proof.
  intros s v.
  exact (reparse _ Mattermost.Version.parse_core Mattermost.Version.cmp_core Mattermost.Version.raw_orig s v
           (tp_refl Mattermost.VersionFacts.cmp_core_tp)).
Qed.
Print Assumptions C18_mattermost_version_reparse.

Theorem C18_mattermost_version_pad : forall p q s,
  forallb is_space p = true -> forallb is_space q = true ->
  match Mattermost.Version.parse s, Mattermost.Version.parse (p ++ s ++ q) with
  | Some v, Some v' => v_core v = v_core v'
  | None, None => True
  | _, _ => False
  end.
Proof. exact (pad_invariant _ Mattermost.Version.parse_core Mattermost.Version.raw_orig). Qed.
Print Assumptions C18_mattermost_version_pad.

(* maven *)

Theorem C18_maven_version_show : forall s v,
  Maven.Version.parse s = Some v -> trim_space (Maven.Version.show v) = trim_space s.
Proof. exact (show_trim _ Maven.Version.parse_core Maven.Version.raw_orig). Qed.
Print Assumptions C18_maven_version_show.

Theorem C18_maven_version_reparse : forall s v,
  Maven.Version.parse s = Some v ->
  exists v', Maven.Version.parse (Maven.Version.show v) = Some v' /\
             Maven.Version.cmp v v' = Eq /\ Maven.Version.cmp v' v = Eq.
Proof.
  intros s v H.
  exact (VLayerMore.reparse_refl _ _ _ _ s v H
           (Maven.VersionFacts.cmp_refl v)).
Qed.
Print Assumptions C18_maven_version_reparse.

Theorem C18_maven_version_pad : forall p q s,
  forallb is_space p = true -> forallb is_space q = true ->
  match Maven.Version.parse s, Maven.Version.parse (p ++ s ++ q) with
  | Some v, Some v' => v_core v = v_core v'
  | None, None => True
  | _, _ => False
  end.
Proof. exact (pad_invariant _ Maven.Version.parse_core Maven.Version.raw_orig). Qed.
Print Assumptions C18_maven_version_pad.

(* npm *)

Theorem C18_npm_version_show : forall s v,
  Npm.Version.parse s = Some v -> trim_space (Npm.Version.show v) = trim_space s.
Proof. exact (show_trim _ Npm.Version.parse_core Npm.Version.raw_orig). Qed.
Print Assumptions C18_npm_version_show.

Theorem C18_npm_version_reparse : forall s v,
  Npm.Version.parse s = Some v ->
  exists v', Npm.Version.parse (Npm.Version.show v) = Some v' /\
             Npm.Version.cmp v v' = Eq /\ Npm.Version.cmp v' v = Eq.
Proof.
  intros s v.
  exact (reparse _ Npm.Version.parse_core Npm.Version.cmp_core Npm.Version.raw_orig s v
           (tp_refl Npm.VersionFacts.cmp_core_tp)).
Qed.
Print Assumptions C18_npm_version_reparse.

Theorem C18_npm_version_pad : forall p q s,
  forallb is_space p = true -> forallb is_space q = true ->
  match Npm.Version.parse s, Npm.Version.parse (p ++ s ++ q) with
  | Some v, Some v' => v_core v = v_core v'
  | None, None => True
  | _, _ => False
  end.
Proof. exact (pad_invariant _ Npm.Version.parse_core Npm.Version.raw_orig). Qed.
Print Assumptions C18_npm_version_pad.

(* nuget *)

Theorem C18_nuget_version_show : forall s v,
  Nuget.Version.parse s = Some v -> trim_space (Nuget.Version.show v) = trim_space s.
Proof. exact (show_trim _ Nuget.Version.parse_core Nuget.Version.raw_orig). Qed.
Print Assumptions C18_nuget_version_show.

Theorem C18_nuget_version_reparse : forall s v,
  Nuget.Version.parse s = Some v ->
  exists v', Nuget.Version.parse (Nuget.Version.show v) = Some v' /\
             Nuget.Version.cmp v v' = Eq /\ Nuget.Version.cmp v' v = Eq.
Proof.
  intros s v.
  exact (reparse _ Nuget.Version.parse_core Nuget.Version.cmp_core Nuget.Version.raw_orig s v
           (tp_refl Nuget.VersionFacts.cmp_core_tp)).
Qed.
Print Assumptions C18_nuget_version_reparse.

Theorem C18_nuget_version_pad : forall p q s,
  forallb is_space p = true -> forallb is_space q = true ->
  match Nuget.Version.parse s, Nuget.Version.parse (p ++ s ++ q) with
  | Some v, Some v' => v_core v = v_core v'
  | None, None => True
  | _, _ => False
  end.
Proof. exact (pad_invariant _ Nuget.Version.parse_core Nuget.Version.raw_orig). Qed.
Print Assumptions C18_nuget_version_pad.

(* pypi *)

Theorem C18_pypi_version_show : forall s v,
  Pypi.Version.parse s = Some v -> trim_space (Pypi.Version.show v) = trim_space s.
Proof. exact (show_trim _ Pypi.Version.parse_core Pypi.Version.raw_orig). Qed.
Print Assumptions C18_pypi_version_show.

Theorem C18_pypi_version_reparse : forall s v,
  Pypi.Version.parse s = Some v ->
  exists v', Pypi.Version.parse (Pypi.Version.show v) = Some v' /\
             Pypi.Version.cmp v v' = Eq /\ Pypi.Version.cmp v' v = Eq.
Proof.
  intros s v.
  exact (reparse _ Pypi.Version.parse_core Pypi.Version.cmp_core Pypi.Version.raw_orig s v
           (tp_refl Pypi.VersionFacts.cmp_core_tp)).
Qed.
Print Assumptions C18_pypi_version_reparse.

Theorem C18_pypi_version_pad : forall p q s,
  forallb is_space p = true -> forallb is_space q = true ->
  match Pypi.Version.parse s, Pypi.Version.parse (p ++ s ++ q) with
  | Some v, Some v' => v_core v = v_core v'
  | None, None => True
  | _, _ => False
  end.
Proof. exact (pad_invariant _ Pypi.Version.parse_core Pypi.Version.raw_orig). Qed.
Print Assumptions C18_pypi_version_pad.

(* rpm *)

Theorem C18_rpm_version_show : forall s v,
  Rpm.Version.parse s = Some v -> trim_space (Rpm.Version.show v) = trim_space s.
Proof. exact (show_trim _ Rpm.Version.parse_core Rpm.Version.raw_orig). Qed.
Print Assumptions C18_rpm_version_show.

Theorem C18_rpm_version_reparse : forall s v,
  Rpm.Version.parse s = Some v ->
  exists v', Rpm.Version.parse (Rpm.Version.show v) = Some v' /\
             Rpm.Version.cmp v v' = Eq /\ Rpm.Version.cmp v' v = Eq.
Proof.
  intros s v.
  exact (reparse _ Rpm.Version.parse_core Rpm.Version.cmp_core Rpm.Version.raw_orig s v
           (tp_refl Rpm.VersionFacts.cmp_core_tp)).
Qed.
Print Assumptions C18_rpm_version_reparse.

Theorem C18_rpm_version_pad : forall p q s,
  forallb is_space p = true -> forallb is_space q = true ->
  match Rpm.Version.parse s, Rpm.Version.parse (p ++ s ++ q) with
  | Some v, Some v' => v_core v = v_core v'
  | None, None => True
  | _, _ => False
  end.
Proof. exact (pad_invariant _ Rpm.Version.parse_core Rpm.Version.raw_orig). Qed.
Print Assumptions C18_rpm_version_pad.

(* semver *)

Theorem C18_semver_version_show : forall s v,
  Semver.Version.parse s = Some v -> trim_space (Semver.Version.show v) = trim_space s.
Proof. exact (show_trim _ Semver.Version.parse_core Semver.Version.raw_orig). Qed.
Print Assumptions C18_semver_version_show.

Theorem C18_semver_version_reparse : forall s v,
  Semver.Version.parse s = Some v ->
  exists v', Semver.Version.parse (Semver.Version.show v) = Some v' /\
             Semver.Version.cmp v v' = Eq /\ Semver.Version.cmp v' v = Eq.
Proof.
  intros s v.
  exact (reparse _ Semver.Version.parse_core Semver.Version.cmp_core Semver.Version.raw_orig s v
           (tp_refl Semver.VersionFacts.cmp_core_tp)).
Qed.
Print Assumptions C18_semver_version_reparse.

Theorem C18_semver_version_pad : forall p q s,
  forallb is_space p = true -> forallb is_space q = true ->
  match Semver.Version.parse s, Semver.Version.parse (p ++ s ++ q) with
  | Some v, Some v' => v_core v = v_core v'
  | None, None => True
  | _, _ => False
  end.
Proof. exact (pad_invariant _ Semver.Version.parse_core Semver.Version.raw_orig). Qed.
Print Assumptions C18_semver_version_pad.

(* ==================== ranges ==================== *)

(* alpine *)

Theorem C18_alpine_range_show : forall (vok : bytes -> bool) (s x : bytes),
  r_show Alpine.Entry.r vok s = Some x -> trim_space x = trim_space s.
Proof. exact (RangeC18.shape_show_trim _ (RangeC18.simple_shape Alpine.Range.cfg)). Qed.
Print Assumptions C18_alpine_range_show.

Theorem C18_alpine_range_reparse :
  forall (vok : bytes -> bool) (vcmp : bytes -> bytes -> comparison) (s x : bytes),
  r_show Alpine.Entry.r vok s = Some x ->
  r_show Alpine.Entry.r vok x <> None /\
  forall v, r_contains Alpine.Entry.r vok vcmp x v = r_contains Alpine.Entry.r vok vcmp s v.
Proof. exact (RangeC18.shape_reparse _ (RangeC18.simple_shape Alpine.Range.cfg)). Qed.
Print Assumptions C18_alpine_range_reparse.

Theorem C18_alpine_range_pad :
  forall (vok : bytes -> bool) (vcmp : bytes -> bytes -> comparison) (p q s : bytes),
  forallb is_space p = true -> forallb is_space q = true ->
  (r_show Alpine.Entry.r vok (p ++ s ++ q) = None <-> r_show Alpine.Entry.r vok s = None) /\
  forall v, r_contains Alpine.Entry.r vok vcmp (p ++ s ++ q) v = r_contains Alpine.Entry.r vok vcmp s v.
Proof. exact (RangeC18.shape_pad _ (RangeC18.simple_shape Alpine.Range.cfg)). Qed.
Print Assumptions C18_alpine_range_pad.

(* alpm *)

Theorem C18_alpm_range_show : forall (vok : bytes -> bool) (s x : bytes),
  r_show Alpm.Entry.r vok s = Some x -> trim_space x = trim_space s.
Proof. exact (RangeC18.shape_show_trim _ (RangeC18.simple_shape Alpm.Range.cfg)). Qed.
Print Assumptions C18_alpm_range_show.

Theorem C18_alpm_range_reparse :
  forall (vok : bytes -> bool) (vcmp : bytes -> bytes -> comparison) (s x : bytes),
  r_show Alpm.Entry.r vok s = Some x ->
  r_show Alpm.Entry.r vok x <> None /\
  forall v, r_contains Alpm.Entry.r vok vcmp x v = r_contains Alpm.Entry.r vok vcmp s v.
Proof. exact (RangeC18.shape_reparse _ (RangeC18.simple_shape Alpm.Range.cfg)). Qed.
Print Assumptions C18_alpm_range_reparse.

Theorem C18_alpm_range_pad :
  forall (vok : bytes -> bool) (vcmp : bytes -> bytes -> comparison) (p q s : bytes),
  forallb is_space p = true -> forallb is_space q = true ->
  (r_show Alpm.Entry.r vok (p ++ s ++ q) = None <-> r_show Alpm.Entry.r vok s = None) /\
  forall v, r_contains Alpm.Entry.r vok vcmp (p ++ s ++ q) v = r_contains Alpm.Entry.r vok vcmp s v.
Proof. exact (RangeC18.shape_pad _ (RangeC18.simple_shape Alpm.Range.cfg)). Qed.
Print Assumptions C18_alpm_range_pad.

(* apache *)

Theorem C18_apache_range_show : forall (vok : bytes -> bool) (s x : bytes),
  r_show Apache.Entry.r vok s = Some x -> trim_space x = trim_space s.
Proof. exact (RangeC18.shape_show_trim _ (RangeC18.simple_shape Apache.Range.cfg)). Qed.
Print Assumptions C18_apache_range_show.

Theorem C18_apache_range_reparse :
  forall (vok : bytes -> bool) (vcmp : bytes -> bytes -> comparison) (s x : bytes),
  r_show Apache.Entry.r vok s = Some x ->
  r_show Apache.Entry.r vok x <> None /\
  forall v, r_contains Apache.Entry.r vok vcmp x v = r_contains Apache.Entry.r vok vcmp s v.
Proof. exact (RangeC18.shape_reparse _ (RangeC18.simple_shape Apache.Range.cfg)). Qed.
Print Assumptions C18_apache_range_reparse.

Theorem C18_apache_range_pad :
  forall (vok : bytes -> bool) (vcmp : bytes -> bytes -> comparison) (p q s : bytes),
  forallb is_space p = true -> forallb is_space q = true ->
  (r_show Apache.Entry.r vok (p ++ s ++ q) = None <-> r_show Apache.Entry.r vok s = None) /\
  forall v, r_contains Apache.Entry.r vok vcmp (p ++ s ++ q) v = r_contains Apache.Entry.r vok vcmp s v.
Proof. exact (RangeC18.shape_pad _ (RangeC18.simple_shape Apache.Range.cfg)). Qed.
Print Assumptions C18_apache_range_pad.

(* cargo *)

Theorem C18_cargo_range_show : forall (vok : bytes -> bool) (s x : bytes),
  r_show Cargo.Entry.r vok s = Some x -> trim_space x = trim_space s.
Proof. exact (RangeC18.shape_show_trim _ RangeC18.cargo_shape). Qed.
Print Assumptions C18_cargo_range_show.

Theorem C18_cargo_range_reparse :
  forall (vok : bytes -> bool) (vcmp : bytes -> bytes -> comparison) (s x : bytes),
  r_show Cargo.Entry.r vok s = Some x ->
  r_show Cargo.Entry.r vok x <> None /\
  forall v, r_contains Cargo.Entry.r vok vcmp x v = r_contains Cargo.Entry.r vok vcmp s v.
Proof. exact (RangeC18.shape_reparse _ RangeC18.cargo_shape). Qed.
Print Assumptions C18_cargo_range_reparse.

Theorem C18_cargo_range_pad :
  forall (vok : bytes -> bool) (vcmp : bytes -> bytes -> comparison) (p q s : bytes),
  forallb is_space p = true -> forallb is_space q = true ->
  (r_show Cargo.Entry.r vok (p ++ s ++ q) = None <-> r_show Cargo.Entry.r vok s = None) /\
  forall v, r_contains Cargo.Entry.r vok vcmp (p ++ s ++ q) v = r_contains Cargo.Entry.r vok vcmp s v.
Proof. exact (RangeC18.shape_pad _ RangeC18.cargo_shape). Qed.
Print Assumptions C18_cargo_range_pad.

(* composer *)

Theorem C18_composer_range_show : forall (vok : bytes -> bool) (s x : bytes),
  r_show Composer.Entry.r vok s = Some x -> trim_space x = trim_space s.
Proof. exact (RangeC18.shape_show_trim _ RangeC18.composer_shape). Qed.
Print Assumptions C18_composer_range_show.

Theorem C18_composer_range_reparse :
  forall (vok : bytes -> bool) (vcmp : bytes -> bytes -> comparison) (s x : bytes),
  r_show Composer.Entry.r vok s = Some x ->
  r_show Composer.Entry.r vok x <> None /\
  forall v, r_contains Composer.Entry.r vok vcmp x v = r_contains Composer.Entry.r vok vcmp s v.
Proof. exact (RangeC18.shape_reparse _ RangeC18.composer_shape). Qed.
Print Assumptions C18_composer_range_reparse.

Theorem C18_composer_range_pad :
  forall (vok : bytes -> bool) (vcmp : bytes -> bytes -> comparison) (p q s : bytes),
  forallb is_space p = true -> forallb is_space q = true ->
  (r_show Composer.Entry.r vok (p ++ s ++ q) = None <-> r_show Composer.Entry.r vok s = None) /\
  forall v, r_contains Composer.Entry.r vok vcmp (p ++ s ++ q) v = r_contains Composer.Entry.r vok vcmp s v.
Proof. exact (RangeC18.shape_pad _ RangeC18.composer_shape). Qed.
Print Assumptions C18_composer_range_pad.

(* conan *)

Theorem C18_conan_range_show : forall (vok : bytes -> bool) (s x : bytes),
  r_show Conan.Entry.r vok s = Some x -> trim_space x = trim_space s.
Proof. exact (RangeC18.shape_show_trim _ RangeC18.conan_shape). Qed.
Print Assumptions C18_conan_range_show.

Theorem C18_conan_range_reparse :
  forall (vok : bytes -> bool) (vcmp : bytes -> bytes -> comparison) (s x : bytes),
  r_show Conan.Entry.r vok s = Some x ->
  r_show Conan.Entry.r vok x <> None /\
  forall v, r_contains Conan.Entry.r vok vcmp x v = r_contains Conan.Entry.r vok vcmp s v.
Proof. exact (RangeC18.shape_reparse _ RangeC18.conan_shape). Qed.
Print Assumptions C18_conan_range_reparse.

Theorem C18_conan_range_pad :
  forall (vok : bytes -> bool) (vcmp : bytes -> bytes -> comparison) (p q s : bytes),
  forallb is_space p = true -> forallb is_space q = true ->
  (r_show Conan.Entry.r vok (p ++ s ++ q) = None <-> r_show Conan.Entry.r vok s = None) /\
  forall v, r_contains Conan.Entry.r vok vcmp (p ++ s ++ q) v = r_contains Conan.Entry.r vok vcmp s v.
Proof. exact (RangeC18.shape_pad _ RangeC18.conan_shape). Qed.
Print Assumptions C18_conan_range_pad.

(* cran *)

Theorem C18_cran_range_show : forall (vok : bytes -> bool) (s x : bytes),
  r_show Cran.Entry.r vok s = Some x -> trim_space x = trim_space s.
Proof. exact (RangeC18.shape_show_trim _ (RangeC18.simple_shape Cran.Range.cfg)). Qed.
Print Assumptions C18_cran_range_show.

Theorem C18_cran_range_reparse :
  forall (vok : bytes -> bool) (vcmp : bytes -> bytes -> comparison) (s x : bytes),
  r_show Cran.Entry.r vok s = Some x ->
  r_show Cran.Entry.r vok x <> None /\
  forall v, r_contains Cran.Entry.r vok vcmp x v = r_contains Cran.Entry.r vok vcmp s v.
Proof. exact (RangeC18.shape_reparse _ (RangeC18.simple_shape Cran.Range.cfg)). Qed.
Print Assumptions C18_cran_range_reparse.

Theorem C18_cran_range_pad :
  forall (vok : bytes -> bool) (vcmp : bytes -> bytes -> comparison) (p q s : bytes),
  forallb is_space p = true -> forallb is_space q = true ->
  (r_show Cran.Entry.r vok (p ++ s ++ q) = None <-> r_show Cran.Entry.r vok s = None) /\
  forall v, r_contains Cran.Entry.r vok vcmp (p ++ s ++ q) v = r_contains Cran.Entry.r vok vcmp s v.
Proof. exact (RangeC18.shape_pad _ (RangeC18.simple_shape Cran.Range.cfg)). Qed.
Print Assumptions C18_cran_range_pad.

(* debian *)

Theorem C18_debian_range_show : forall (vok : bytes -> bool) (s x : bytes),
  r_show Debian.Entry.r vok s = Some x -> trim_space x = trim_space s.
Proof. exact (RangeC18.shape_show_trim _ (RangeC18.simple_shape Debian.Range.cfg)). Qed.
Print Assumptions C18_debian_range_show.

Theorem C18_debian_range_reparse :
  forall (vok : bytes -> bool) (vcmp : bytes -> bytes -> comparison) (s x : bytes),
  r_show Debian.Entry.r vok s = Some x ->
  r_show Debian.Entry.r vok x <> None /\
  forall v, r_contains Debian.Entry.r vok vcmp x v = r_contains Debian.Entry.r vok vcmp s v.
Proof. exact (RangeC18.shape_reparse _ (RangeC18.simple_shape Debian.Range.cfg)). Qed.
Print Assumptions C18_debian_range_reparse.

Theorem C18_debian_range_pad :
  forall (vok : bytes -> bool) (vcmp : bytes -> bytes -> comparison) (p q s : bytes),
  forallb is_space p = true -> forallb is_space q = true ->
  (r_show Debian.Entry.r vok (p ++ s ++ q) = None <-> r_show Debian.Entry.r vok s = None) /\
  forall v, r_contains Debian.Entry.r vok vcmp (p ++ s ++ q) v = r_contains Debian.Entry.r vok vcmp s v.
Proof. exact (RangeC18.shape_pad _ (RangeC18.simple_shape Debian.Range.cfg)). Qed.
Print Assumptions C18_debian_range_pad.

(* gem *)

Theorem C18_gem_range_show : forall (vok : bytes -> bool) (s x : bytes),
  r_show Gem.Entry.r vok s = Some x -> trim_space x = trim_space s.
Proof. exact (RangeC18.shape_show_trim _ GemSupport.gem_shape). Qed.
Print Assumptions C18_gem_range_show.

Theorem C18_gem_range_reparse :
  forall (vok : bytes -> bool) (vcmp : bytes -> bytes -> comparison) (s x : bytes),
  r_show Gem.Entry.r vok s = Some x ->
  r_show Gem.Entry.r vok x <> None /\
  forall v, r_contains Gem.Entry.r vok vcmp x v = r_contains Gem.Entry.r vok vcmp s v.
Proof. exact (RangeC18.shape_reparse _ GemSupport.gem_shape). Qed.
Print Assumptions C18_gem_range_reparse.

Theorem C18_gem_range_pad :
  forall (vok : bytes -> bool) (vcmp : bytes -> bytes -> comparison) (p q s : bytes),
  forallb is_space p = true -> forallb is_space q = true ->
  (r_show Gem.Entry.r vok (p ++ s ++ q) = None <-> r_show Gem.Entry.r vok s = None) /\
  forall v, r_contains Gem.Entry.r vok vcmp (p ++ s ++ q) v = r_contains Gem.Entry.r vok vcmp s v.
Proof. exact (RangeC18.shape_pad _ GemSupport.gem_shape). Qed.
Print Assumptions C18_gem_range_pad.

(* gentoo *)

Theorem C18_gentoo_range_show : forall (vok : bytes -> bool) (s x : bytes),
  r_show Gentoo.Entry.r vok s = Some x -> trim_space x = trim_space s.
Proof. exact (RangeC18.shape_show_trim _ (RangeC18.simple_shape Gentoo.Range.cfg)). Qed.
Print Assumptions C18_gentoo_range_show.

Theorem C18_gentoo_range_reparse :
  forall (vok : bytes -> bool) (vcmp : bytes -> bytes -> comparison) (s x : bytes),
  r_show Gentoo.Entry.r vok s = Some x ->
  r_show Gentoo.Entry.r vok x <> None /\
  forall v, r_contains Gentoo.Entry.r vok vcmp x v = r_contains Gentoo.Entry.r vok vcmp s v.
Proof. exact (RangeC18.shape_reparse _ (RangeC18.simple_shape Gentoo.Range.cfg)). Qed.
Print Assumptions C18_gentoo_range_reparse.

Theorem C18_gentoo_range_pad :
  forall (vok : bytes -> bool) (vcmp : bytes -> bytes -> comparison) (p q s : bytes),
  forallb is_space p = true -> forallb is_space q = true ->
  (r_show Gentoo.Entry.r vok (p ++ s ++ q) = None <-> r_show Gentoo.Entry.r vok s = None) /\
  forall v, r_contains Gentoo.Entry.r vok vcmp (p ++ s ++ q) v = r_contains Gentoo.Entry.r vok vcmp s v.
Proof. exact (RangeC18.shape_pad _ (RangeC18.simple_shape Gentoo.Range.cfg)). Qed.
Print Assumptions C18_gentoo_range_pad.

(* github *)

Theorem C18_github_range_show : forall (vok : bytes -> bool) (s x : bytes),
  r_show Github.Entry.r vok s = Some x -> trim_space x = trim_space s.
Proof. exact (RangeC18.shape_show_trim _ (RangeC18.simple_shape Github.Range.cfg)). Qed.
Print Assumptions C18_github_range_show.

Theorem C18_github_range_reparse :
  forall (vok : bytes -> bool) (vcmp : bytes -> bytes -> comparison) (s x : bytes),
  r_show Github.Entry.r vok s = Some x ->
  r_show Github.Entry.r vok x <> None /\
  forall v, r_contains Github.Entry.r vok vcmp x v = r_contains Github.Entry.r vok vcmp s v.
Proof. exact (RangeC18.shape_reparse _ (RangeC18.simple_shape Github.Range.cfg)). Qed.
Print Assumptions C18_github_range_reparse.

Theorem C18_github_range_pad :
  forall (vok : bytes -> bool) (vcmp : bytes -> bytes -> comparison) (p q s : bytes),
  forallb is_space p = true -> forallb is_space q = true ->
  (r_show Github.Entry.r vok (p ++ s ++ q) = None <-> r_show Github.Entry.r vok s = None) /\
  forall v, r_contains Github.Entry.r vok vcmp (p ++ s ++ q) v = r_contains Github.Entry.r vok vcmp s v.
Proof. exact (RangeC18.shape_pad _ (RangeC18.simple_shape Github.Range.cfg)). Qed.
Print Assumptions C18_github_range_pad.

(* golang *)

Theorem C18_golang_range_show : forall (vok : bytes -> bool) (s x : bytes),
  r_show Golang.Entry.r vok s = Some x -> trim_space x = trim_space s.
Proof. exact (RangeC18.shape_show_trim _ (RangeC18.simple_shape Golang.Range.cfg)). Qed.
Print Assumptions C18_golang_range_show.

Theorem C18_golang_range_reparse :
  forall (vok : bytes -> bool) (vcmp : bytes -> bytes -> comparison) (s x : bytes),
  r_show Golang.Entry.r vok s = Some x ->
  r_show Golang.Entry.r vok x <> None /\
  forall v, r_contains Golang.Entry.r vok vcmp x v = r_contains Golang.Entry.r vok vcmp s v.
Proof. exact (RangeC18.shape_reparse _ (RangeC18.simple_shape Golang.Range.cfg)). Qed.
Print Assumptions C18_golang_range_reparse.

Theorem C18_golang_range_pad :
  forall (vok : bytes -> bool) (vcmp : bytes -> bytes -> comparison) (p q s : bytes),
  forallb is_space p = true -> forallb is_space q = true ->
  (r_show Golang.Entry.r vok (p ++ s ++ q) = None <-> r_show Golang.Entry.r vok s = None) /\
  forall v, r_contains Golang.Entry.r vok vcmp (p ++ s ++ q) v = r_contains Golang.Entry.r vok vcmp s v.
Proof. exact (RangeC18.shape_pad _ (RangeC18.simple_shape Golang.Range.cfg)). Qed.
Print Assumptions C18_golang_range_pad.

(* hex *)

Theorem C18_hex_range_show : forall (vok : bytes -> bool) (s x : bytes),
  r_show Hex.Entry.r vok s = Some x -> trim_space x = trim_space s.
Proof. exact (RangeC18.shape_show_trim _ RangeC18.hex_shape). Qed.
Print Assumptions C18_hex_range_show.

Theorem C18_hex_range_reparse :
  forall (vok : bytes -> bool) (vcmp : bytes -> bytes -> comparison) (s x : bytes),
  r_show Hex.Entry.r vok s = Some x ->
  r_show Hex.Entry.r vok x <> None /\
  forall v, r_contains Hex.Entry.r vok vcmp x v = r_contains Hex.Entry.r vok vcmp s v.
Proof. exact (RangeC18.shape_reparse _ RangeC18.hex_shape). Qed.
Print Assumptions C18_hex_range_reparse.

Theorem C18_hex_range_pad :
  forall (vok : bytes -> bool) (vcmp : bytes -> bytes -> comparison) (p q s : bytes),
  forallb is_space p = true -> forallb is_space q = true ->
  (r_show Hex.Entry.r vok (p ++ s ++ q) = None <-> r_show Hex.Entry.r vok s = None) /\
  forall v, r_contains Hex.Entry.r vok vcmp (p ++ s ++ q) v = r_contains Hex.Entry.r vok vcmp s v.
Proof. exact (RangeC18.shape_pad _ RangeC18.hex_shape). Qed.
Print Assumptions C18_hex_range_pad.

(* mattermost *)

Theorem C18_mattermost_range_show : forall (vok : bytes -> bool) (s x : bytes),
  r_show Mattermost.Entry.r vok s = Some x -> trim_space x = trim_space s.
Proof. exact (RangeC18.shape_show_trim _ (RangeC18.simple_shape Mattermost.Range.cfg)). Qed.
Print Assumptions C18_mattermost_range_show.

Theorem C18_mattermost_range_reparse :
  forall (vok : bytes -> bool) (vcmp : bytes -> bytes -> comparison) (s x : bytes),
  r_show Mattermost.Entry.r vok s = Some x ->
  r_show Mattermost.Entry.r vok x <> None /\
  forall v, r_contains Mattermost.Entry.r vok vcmp x v = r_contains Mattermost.Entry.r vok vcmp s v.
Proof. exact (RangeC18.shape_reparse _ (RangeC18.simple_shape Mattermost.Range.cfg)). Qed.
Print Assumptions C18_mattermost_range_reparse.

Theorem C18_mattermost_range_pad :
  forall (vok : bytes -> bool) (vcmp : bytes -> bytes -> comparison) (p q s : bytes),
  forallb is_space p = true -> forallb is_space q = true ->
  (r_show Mattermost.Entry.r vok (p ++ s ++ q) = None <-> r_show Mattermost.Entry.r vok s = None) /\
  forall v, r_contains Mattermost.Entry.r vok vcmp (p ++ s ++ q) v = r_contains Mattermost.Entry.r vok vcmp s v.
Proof. exact (RangeC18.shape_pad _ (RangeC18.simple_shape Mattermost.Range.cfg)). Qed.
Print Assumptions C18_mattermost_range_pad.

(* maven *)

Theorem C18_maven_range_show : forall (vok : bytes -> bool) (s x : bytes),
  r_show Maven.Entry.r vok s = Some x -> trim_space x = trim_space s.
Proof. exact (RangeC18.shape_show_trim _ RangeC18.maven_shape). Qed.
Print Assumptions C18_maven_range_show.

Theorem C18_maven_range_reparse :
  forall (vok : bytes -> bool) (vcmp : bytes -> bytes -> comparison) (s x : bytes),
  r_show Maven.Entry.r vok s = Some x ->
  r_show Maven.Entry.r vok x <> None /\
  forall v, r_contains Maven.Entry.r vok vcmp x v = r_contains Maven.Entry.r vok vcmp s v.
Proof. exact (RangeC18.shape_reparse _ RangeC18.maven_shape). Qed.
Print Assumptions C18_maven_range_reparse.

Theorem C18_maven_range_pad :
  forall (vok : bytes -> bool) (vcmp : bytes -> bytes -> comparison) (p q s : bytes),
  forallb is_space p = true -> forallb is_space q = true ->
  (r_show Maven.Entry.r vok (p ++ s ++ q) = None <-> r_show Maven.Entry.r vok s = None) /\
  forall v, r_contains Maven.Entry.r vok vcmp (p ++ s ++ q) v = r_contains Maven.Entry.r vok vcmp s v.
Proof. exact (RangeC18.shape_pad _ RangeC18.maven_shape). Qed.
Print Assumptions C18_maven_range_pad.

(* npm *)

Theorem C18_npm_range_show : forall (vok : bytes -> bool) (s x : bytes),
  r_show Npm.Entry.r vok s = Some x -> trim_space x = trim_space s.
Proof. exact (RangeC18.shape_show_trim _ RangeC18.npm_shape). Qed.
Print Assumptions C18_npm_range_show.

Theorem C18_npm_range_reparse :
  forall (vok : bytes -> bool) (vcmp : bytes -> bytes -> comparison) (s x : bytes),
  r_show Npm.Entry.r vok s = Some x ->
  r_show Npm.Entry.r vok x <> None /\
  forall v, r_contains Npm.Entry.r vok vcmp x v = r_contains Npm.Entry.r vok vcmp s v.
Proof. exact (RangeC18.shape_reparse _ RangeC18.npm_shape). Qed.
Print Assumptions C18_npm_range_reparse.

Theorem C18_npm_range_pad :
  forall (vok : bytes -> bool) (vcmp : bytes -> bytes -> comparison) (p q s : bytes),
  forallb is_space p = true -> forallb is_space q = true ->
  (r_show Npm.Entry.r vok (p ++ s ++ q) = None <-> r_show Npm.Entry.r vok s = None) /\
  forall v, r_contains Npm.Entry.r vok vcmp (p ++ s ++ q) v = r_contains Npm.Entry.r vok vcmp s v.
Proof. exact (RangeC18.shape_pad _ RangeC18.npm_shape). Qed.
Print Assumptions C18_npm_range_pad.

(* nuget *)

Theorem C18_nuget_range_show : forall (vok : bytes -> bool) (s x : bytes),
  r_show Nuget.Entry.r vok s = Some x -> trim_space x = trim_space s.
Proof. exact (RangeC18.shape_show_trim _ RangeC18.nuget_shape). Qed.
Print Assumptions C18_nuget_range_show.

Theorem C18_nuget_range_reparse :
  forall (vok : bytes -> bool) (vcmp : bytes -> bytes -> comparison) (s x : bytes),
  r_show Nuget.Entry.r vok s = Some x ->
  r_show Nuget.Entry.r vok x <> None /\
  forall v, r_contains Nuget.Entry.r vok vcmp x v = r_contains Nuget.Entry.r vok vcmp s v.
Proof. exact (RangeC18.shape_reparse _ RangeC18.nuget_shape). Qed.
Print Assumptions C18_nuget_range_reparse.

Theorem C18_nuget_range_pad :
  forall (vok : bytes -> bool) (vcmp : bytes -> bytes -> comparison) (p q s : bytes),
  forallb is_space p = true -> forallb is_space q = true ->
  (r_show Nuget.Entry.r vok (p ++ s ++ q) = None <-> r_show Nuget.Entry.r vok s = None) /\
  forall v, r_contains Nuget.Entry.r vok vcmp (p ++ s ++ q) v = r_contains Nuget.Entry.r vok vcmp s v.
Proof. exact (RangeC18.shape_pad _ RangeC18.nuget_shape). Qed.
Print Assumptions C18_nuget_range_pad.

(* pypi *)

Theorem C18_pypi_range_show : forall (vok : bytes -> bool) (s x : bytes),
  r_show Pypi.Entry.r vok s = Some x -> trim_space x = trim_space s.
Proof. exact (RangeC18.shape_show_trim _ RangeC18.pypi_shape). Qed.
Print Assumptions C18_pypi_range_show.

Theorem C18_pypi_range_reparse :
  forall (vok : bytes -> bool) (vcmp : bytes -> bytes -> comparison) (s x : bytes),
  r_show Pypi.Entry.r vok s = Some x ->
  r_show Pypi.Entry.r vok x <> None /\
  forall v, r_contains Pypi.Entry.r vok vcmp x v = r_contains Pypi.Entry.r vok vcmp s v.
Proof. exact (RangeC18.shape_reparse _ RangeC18.pypi_shape). Qed.
Print Assumptions C18_pypi_range_reparse.

Theorem C18_pypi_range_pad :
  forall (vok : bytes -> bool) (vcmp : bytes -> bytes -> comparison) (p q s : bytes),
  forallb is_space p = true -> forallb is_space q = true ->
  (r_show Pypi.Entry.r vok (p ++ s ++ q) = None <-> r_show Pypi.Entry.r vok s = None) /\
  forall v, r_contains Pypi.Entry.r vok vcmp (p ++ s ++ q) v = r_contains Pypi.Entry.r vok vcmp s v.
Proof. exact (RangeC18.shape_pad _ RangeC18.pypi_shape). Qed.
Print Assumptions C18_pypi_range_pad.

(* rpm *)

Theorem C18_rpm_range_show : forall (vok : bytes -> bool) (s x : bytes),
  r_show Rpm.Entry.r vok s = Some x -> trim_space x = trim_space s.
Proof. exact (RangeC18.shape_show_trim _ (RangeC18.simple_shape Rpm.Range.cfg)). Qed.
Print Assumptions C18_rpm_range_show.

Theorem C18_rpm_range_reparse :
  forall (vok : bytes -> bool) (vcmp : bytes -> bytes -> comparison) (s x : bytes),
  r_show Rpm.Entry.r vok s = Some x ->
  r_show Rpm.Entry.r vok x <> None /\
  forall v, r_contains Rpm.Entry.r vok vcmp x v = r_contains Rpm.Entry.r vok vcmp s v.
Proof. exact (RangeC18.shape_reparse _ (RangeC18.simple_shape Rpm.Range.cfg)). Qed.
Print Assumptions C18_rpm_range_reparse.

Theorem C18_rpm_range_pad :
  forall (vok : bytes -> bool) (vcmp : bytes -> bytes -> comparison) (p q s : bytes),
  forallb is_space p = true -> forallb is_space q = true ->
  (r_show Rpm.Entry.r vok (p ++ s ++ q) = None <-> r_show Rpm.Entry.r vok s = None) /\
  forall v, r_contains Rpm.Entry.r vok vcmp (p ++ s ++ q) v = r_contains Rpm.Entry.r vok vcmp s v.
Proof. exact (RangeC18.shape_pad _ (RangeC18.simple_shape Rpm.Range.cfg)). Qed.
Print Assumptions C18_rpm_range_pad.

(* semver *)

Theorem C18_semver_range_show : forall (vok : bytes -> bool) (s x : bytes),
  r_show Semver.Entry.r vok s = Some x -> trim_space x = trim_space s.
Proof. exact (RangeC18.shape_show_trim _ RangeC18.semver_shape). Qed.
Print Assumptions C18_semver_range_show.

Theorem C18_semver_range_reparse :
  forall (vok : bytes -> bool) (vcmp : bytes -> bytes -> comparison) (s x : bytes),
  r_show Semver.Entry.r vok s = Some x ->
  r_show Semver.Entry.r vok x <> None /\
  forall v, r_contains Semver.Entry.r vok vcmp x v = r_contains Semver.Entry.r vok vcmp s v.
Proof. exact (RangeC18.shape_reparse _ RangeC18.semver_shape). Qed.
Print Assumptions C18_semver_range_reparse.

Theorem C18_semver_range_pad :
  forall (vok : bytes -> bool) (vcmp : bytes -> bytes -> comparison) (p q s : bytes),
  forallb is_space p = true -> forallb is_space q = true ->
  (r_show Semver.Entry.r vok (p ++ s ++ q) = None <-> r_show Semver.Entry.r vok s = None) /\
  forall v, r_contains Semver.Entry.r vok vcmp (p ++ s ++ q) v = r_contains Semver.Entry.r vok vcmp s v.
Proof. exact (RangeC18.shape_pad _ RangeC18.semver_shape). Qed.
Print Assumptions C18_semver_range_pad.

(* ==================== model-level lemmas written with the models ==================== *)

(* alpine, hex: String() of an accepted range is the input itself *)

Theorem C18_alpine_range_show_exact :
  forall (vok : bytes -> bool) (rg s : bytes), r_show Alpine.Entry.r vok rg = Some s -> s = rg.
Proof. exact Alpine.RangeFacts.alpine_range_show. Qed.
Print Assumptions C18_alpine_range_show_exact.

Theorem C18_hex_range_show_exact :
  forall (vok : bytes -> bool) (s x : bytes), r_show Hex.Entry.r vok s = Some x -> x = s.
Proof. exact Hex.RangeFacts.hex_show. Qed.
Print Assumptions C18_hex_range_show_exact.

(* gentoo: the generic re-parse theorem on parsed ranges *)

Theorem C18_gentoo_range_reparse_parsed :
  forall (vok : bytes -> bool) (vcmp : bytes -> bytes -> comparison) (s : bytes) (r : range),
  parse_range bytes (oracle_parse vok) Gentoo.Range.cfg s = Some r ->
  exists r' : range,
    parse_range bytes (oracle_parse vok) Gentoo.Range.cfg (RangeCore.show r) = Some r' /\
    (forall v : bytes,
     contains bytes (oracle_parse vok) vcmp Gentoo.Range.cfg r' v =
     contains bytes (oracle_parse vok) vcmp Gentoo.Range.cfg r v).
Proof. exact Gentoo.RangeFacts.gentoo_range_reparse. Qed.
Print Assumptions C18_gentoo_range_reparse_parsed.

(* npm, semver: String() is the trimmed input and re-parsing it gives the identical parsed range *)

Theorem C18_npm_range_show_exact :
  forall (vok : bytes -> bool) (s : bytes) (r : Npm.Range.range),
  Npm.Range.parse_range vok s = Some r -> Npm.Range.show r = trim_space s.
Proof. exact Npm.RangeFacts.show_is_trim. Qed.
Print Assumptions C18_npm_range_show_exact.

Theorem C18_npm_range_reparse_parsed :
  forall (vok : bytes -> bool) (s : bytes) (r : Npm.Range.range),
  Npm.Range.parse_range vok s = Some r ->
  Npm.Range.parse_range vok (Npm.Range.show r) = Some r.
Proof. exact Npm.RangeFacts.range_reparse. Qed.
Print Assumptions C18_npm_range_reparse_parsed.

Theorem C18_npm_range_trim_parsed :
  forall (vok : bytes -> bool) (s : bytes),
  Npm.Range.parse_range vok (trim_space s) = Npm.Range.parse_range vok s.
Proof. exact Npm.RangeFacts.parse_range_trim. Qed.
Print Assumptions C18_npm_range_trim_parsed.

Theorem C18_semver_range_show_exact :
  forall (vok : bytes -> bool) (s : bytes) (r : Semver.Range.range),
  Semver.Range.parse_range vok s = Some r -> Semver.Range.show r = trim_space s.
Proof. exact Semver.RangeFacts.range_show. Qed.
Print Assumptions C18_semver_range_show_exact.

Theorem C18_semver_range_reparse_parsed :
  forall (vok : bytes -> bool) (s : bytes) (r : Semver.Range.range),
  Semver.Range.parse_range vok s = Some r -> Semver.Range.parse_range vok (Semver.Range.show r) = Some r.
Proof. exact Semver.RangeFacts.range_reparse. Qed.
Print Assumptions C18_semver_range_reparse_parsed.

(* TODO, not proved: nothing; all 20 ecosystems are covered. *)

(* ====== ties to the source: BEGIN (written by bin/mkties) ====== *)
(* The Go functions named here are translated into Gallina from /repo's source on every run
   (tools/gen -> Gen/Code/<Eco>.v for loop-free functions, Gen/Loops/<Eco>.v for functions with
   loops and index expressions, where a panic is Panic and a loop takes fuel); Tie/<Eco>.v,
   Tie/<Eco>Range.v and Tie/Loops/<Eco>.v prove each translation equal to the model the theorems
   above speak about (and, for the loop functions: no panic, termination within a linear bound).
   If the code changes so that a tie no longer holds, this file no longer checks. *)
Require Verif.Tie.Alpine.
Require Verif.Tie.Alpm.
Require Verif.Tie.Apache.
Require Verif.Tie.Cargo.
Require Verif.Tie.Composer.
Require Verif.Tie.Conan.
Require Verif.Tie.Cran.
Require Verif.Tie.Debian.
Require Verif.Tie.Gem.
Require Verif.Tie.Gentoo.
Require Verif.Tie.Github.
Require Verif.Tie.Golang.
Require Verif.Tie.Hex.
Require Verif.Tie.Mattermost.
Require Verif.Tie.Npm.
Require Verif.Tie.Nuget.
Require Verif.Tie.Pypi.
Require Verif.Tie.Rpm.
Require Verif.Tie.Semver.
Definition C18_tie_alpine_Version_String := @Verif.Tie.Alpine.tie_alpine_Version_String.
Definition C18_tie_alpm_string := @Verif.Tie.Alpm.tie_alpm_string.
Definition C18_tie_apache_string := @Verif.Tie.Apache.tie_apache_string.
Definition C18_tie_cargo_string := @Verif.Tie.Cargo.tie_cargo_string.
Definition C18_tie_composer_string := @Verif.Tie.Composer.tie_composer_string.
Definition C18_tie_conan_Version_String := @Verif.Tie.Conan.tie_conan_Version_String.
Definition C18_tie_cran_string := @Verif.Tie.Cran.tie_cran_string.
Definition C18_tie_debian_string := @Verif.Tie.Debian.tie_debian_string.
Definition C18_tie_gem_Version_String := @Verif.Tie.Gem.tie_gem_Version_String.
Definition C18_tie_gentoo_string := @Verif.Tie.Gentoo.tie_gentoo_string.
Definition C18_tie_github_string := @Verif.Tie.Github.tie_github_string.
Definition C18_tie_golang_Version_String := @Verif.Tie.Golang.tie_golang_Version_String.
Definition C18_tie_hex_string := @Verif.Tie.Hex.tie_hex_string.
Definition C18_tie_mattermost_string := @Verif.Tie.Mattermost.tie_mattermost_string.
Definition C18_tie_npm_string := @Verif.Tie.Npm.tie_npm_string.
Definition C18_tie_nuget_string := @Verif.Tie.Nuget.tie_nuget_string.
Definition C18_tie_pypi_Version_String := @Verif.Tie.Pypi.tie_pypi_Version_String.
Definition C18_tie_rpm_string := @Verif.Tie.Rpm.tie_rpm_string.
Definition C18_tie_semver_string := @Verif.Tie.Semver.tie_semver_string.
Definition C18_ties_all := (C18_tie_alpine_Version_String, (C18_tie_alpm_string, (C18_tie_apache_string, (C18_tie_cargo_string, (C18_tie_composer_string, (C18_tie_conan_Version_String, (C18_tie_cran_string, (C18_tie_debian_string, (C18_tie_gem_Version_String, (C18_tie_gentoo_string, (C18_tie_github_string, (C18_tie_golang_Version_String, (C18_tie_hex_string, (C18_tie_mattermost_string, (C18_tie_npm_string, (C18_tie_nuget_string, (C18_tie_pypi_Version_String, (C18_tie_rpm_string, C18_tie_semver_string)))))))))))))))))).
Print Assumptions C18_ties_all.
(* ====== ties to the source: END ====== *)
