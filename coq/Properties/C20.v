(* C20 — Range membership depends only on a version's place in the order.
   Statements only; the proofs live in Eco/<E>/RangeFacts.v, or are instances of the generic
   theorems of Eco/RangeCoreFacts.v through Properties/Support/SimpleRops.v.

   Two statements per ecosystem.  EQ: if Compare a b = Eq then every range contains both or
   neither.  CONVEX: if a range without "||" and "!=" contains a and c, and a <= b <= c
   ([le_c (cmp a b)] means Compare a b <> Gt), then it contains b.  [r_contains R vok vcmp rg v]
   is the model of NewVersionRange(rg).Contains(v) on texts over a version layer given as an
   oracle (vok = NewVersion accepts, vcmp = Compare on texts).

   Oracle hypotheses.  The lemmas written with the models assume [TotalPreorder vcmp] on ALL
   texts (C20_<eco>_eq / _convex).  The model's own version layer compares rejected texts as Eq
   and is a total preorder on the ACCEPTED texts only, so the theorems are restated END TO END,
   C20_<eco>_self_eq / _self_convex, with vok := self_vok Entry.entry and vcmp := self_vcmp
   Entry.entry and no order hypothesis at all (the ecosystem's C01 theorem is used):
     - the ten [range_cfg] ecosystems through Support/SimpleRops.v;
     - npm, nuget, pypi, semver, hex, composer through Support/SelfOracle.v (+ HexSelf.v,
       ComposerSelf.v): a range model asks Compare only about accepted texts, and a preorder
       on the accepted texts extends to one on all texts;
     - cargo, conan, gem and maven have their own end-to-end theorems.
   For the ecosystems with "!=" CONVEX carries a hypothesis on the parsed range saying that no
   constraint is "!=" ([conj_only], [no_ne], [convex_cs]); npm's says that the text has no "||"
   (npm has no "!=").

   Full strength (EQ and CONVEX for every range): apache, cran, debian, gentoo, github, golang,
     mattermost, rpm, alpine (alpine, gentoo: end to end on accepted versions, whose parser
     invariant the order laws need), npm, nuget, semver, cargo.
   Restricted / refuted:
     alpm      EQ holds for pairs that agree on the presence of a pkgrel (the property's own
               exclusion) and FAILS across the two classes (C20_alpm_fails_across_classes), as
               does CONVEX (C20_alpm_convexity_fails_across_classes); within one class CONVEX
               holds for every range (C20_alpm_convex_same_class).
     composer  EQ holds for ranges built from comparators only (C20_composer_cmp_only), and for
               all ranges when the two versions also agree on parsed fields and on being spelled
               exactly "1.0b1" (C20_composer_eq; end to end the only hypothesis left is the one
               on the spelling, C20_composer_self_eq).  REFUTED in general: ^1.0.0 contains the
               text 1.0b1 but not the Compare-equal 1.0-b1 (C20_composer_counterexample, finding
               F-composer-caret-text-case).  CONVEX is refuted for carets: a caret with a stable
               base rejects every non-stable version inside its interval
               (C20_composer_convexity_refuted, finding F-composer-caret-stability); CONVEX holds
               for one group of comparators other than "!=" (C20_composer_convex_comparators).
     conan     EQ for ranges of plain comparators for any total-preorder oracle
               (C20_conan_eq_plain); for ~ and ^ the two versions must also have Compare-equal
               numeric parts - true end to end (C20_conan_self_eq).  CONVEX for one group of
               plain comparators other than "!=" for any total-preorder oracle
               (C20_conan_convex_comparators), and end to end also with ~ and ^
               (C20_conan_self_convex; the bounds are assumed accepted).
     gem       EQ for every range end to end (C20_gem_self_eq); for an arbitrary oracle EQ needs,
               besides congruence on accepted texts, that Compare-equal versions have the same
               numeric segments (C20_gem_eq), because ~> reads them.  CONVEX for every range
               without "!=", ~> included (C20_gem_self_convex).
     hex       EQ and CONVEX for ranges whose synthesized ~> bounds did not overflow int64
               ([synth_ok r = true]), also end to end (C20_hex_self_eq / _self_convex).
     pypi      EQ excludes the text-identity operator "===" ([no_arbitrary_eq], as in the
               property), or holds for it when the two texts agree after trimming; CONVEX for
               [convex_cs] ranges (no "!=", "===", "!=X.*").
     maven     EQ holds end to end (C20_maven_self_eq) although Compare is not transitive: it
               only needs that Compare-equal versions compare alike against every bound.
               CONVEX is REFUTED: (,1-5] contains 1-5 and 1-foo but not 1-sp although
               1-5 < 1-sp < 1-foo (C20_maven_convexity_refuted, finding F-maven-order-cycle). *)

From Verif.Base Require Import Bytes BytesFacts GoNum Ord.
From Verif.Eco Require Import RangeCore RangeCoreFacts Iface VLayer VLayerFacts.
From Verif.Eco.Alpine Require Version VersionFacts Range RangeFacts Entry OrdMore.
From Verif.Eco.Alpm Require Version VersionFacts Range RangeFacts Entry C03Facts.
From Verif.Eco.Apache Require Version VersionFacts Range RangeFacts Entry.
From Verif.Eco.Cargo Require Version VersionFacts Range RangeFacts Entry.
From Verif.Eco.Composer Require Version VersionFacts Range RangeFacts Entry.
From Verif.Eco.Conan Require Version VersionFacts Range RangeFacts Entry.
From Verif.Eco.Cran Require Version VersionFacts Range Entry.
From Verif.Eco.Debian Require Version VersionFacts Range RangeFacts Entry.
From Verif.Eco.Gem Require Version VersionFacts Range RangeFacts Entry.
From Verif.Eco.Gentoo Require Version VersionFacts Range RangeFacts Entry.
From Verif.Eco.Github Require Version VersionFacts Range RangeFacts Entry.
From Verif.Eco.Golang Require Version VersionFacts Range RangeFacts Entry.
From Verif.Eco.Hex Require Version VersionFacts Range RangeFacts Entry.
From Verif.Eco.Mattermost Require Version VersionFacts Range RangeFacts Entry.
From Verif.Eco.Maven Require Version VersionFacts Range RangeFacts Entry.
From Verif.Eco.Npm Require Version VersionFacts Range RangeFacts Entry.
From Verif.Eco.Nuget Require Version VersionFacts Range RangeFacts Entry.
From Verif.Eco.Pypi Require Version VersionFacts Range RangeFacts Entry.
From Verif.Eco.Rpm Require Version VersionFacts Range RangeFacts Entry.
From Verif.Eco.Semver Require Version VersionFacts Range RangeFacts Entry.
From Verif.Properties.Support Require SimpleRops MavenC20 ConvexMore SelfC20 ComposerC20 AlpmC20 HexSelf ComposerSelf GemSupport Squeeze.


(* alpine *)

Theorem C20_alpine_eq :
  forall (vok : bytes -> bool) (vcmp : bytes -> bytes -> comparison) (rg a b : bytes),
  TotalPreorder vcmp ->
  vok a = true ->
  vok b = true ->
  vcmp a b = Eq ->
  r_contains Alpine.Entry.r vok vcmp rg a = r_contains Alpine.Entry.r vok vcmp rg b.
Proof. exact Alpine.RangeFacts.alpine_c20. Qed.
Print Assumptions C20_alpine_eq.

Theorem C20_alpine_convex :
  forall (vok : bytes -> bool) (vcmp : bytes -> bytes -> comparison) (rg : bytes) (r : range)
    (a b c : bytes),
  TotalPreorder vcmp ->
  parse_range bytes (oracle_parse vok) Alpine.Range.cfg rg = Some r ->
  conj_only Alpine.Range.cfg r = true ->
  vok a = true -> vok b = true -> vok c = true ->
  le_c (vcmp a b) -> le_c (vcmp b c) ->
  r_contains Alpine.Entry.r vok vcmp rg a = Some true ->
  r_contains Alpine.Entry.r vok vcmp rg c = Some true ->
  r_contains Alpine.Entry.r vok vcmp rg b = Some true.
Proof. exact (SimpleRops.simple_c20_convex Alpine.Range.cfg). Qed.
Print Assumptions C20_alpine_convex.

Theorem C20_alpine_eq_parsed :
  forall (rg : bytes) (a b : Alpine.Version.ver) (r : range),
  Alpine.VersionFacts.wf_ver a ->
  Alpine.VersionFacts.wf_ver b ->
  parse_range Alpine.Version.ver Alpine.Version.parse Alpine.Range.cfg rg = Some r ->
  Alpine.Version.cmp a b = Eq ->
  contains Alpine.Version.ver Alpine.Version.parse Alpine.Version.cmp Alpine.Range.cfg r a =
  contains Alpine.Version.ver Alpine.Version.parse Alpine.Version.cmp Alpine.Range.cfg r b.
Proof. exact Alpine.RangeFacts.alpine_c20_self. Qed.
Print Assumptions C20_alpine_eq_parsed.

Theorem C20_alpine_self_eq :
  let vok := self_vok Alpine.Entry.entry in
  let vcmp := self_vcmp Alpine.Entry.entry in
  forall rg a b : bytes,
  vok a = true -> vok b = true -> vcmp a b = Eq ->
  r_contains Alpine.Entry.r vok vcmp rg a = r_contains Alpine.Entry.r vok vcmp rg b.
Proof.
  intros vok vcmp rg a b.
  exact (SimpleRops.simple_c20_eq_on Alpine.Range.cfg _ _ rg a b
           (SimpleRops.self_tpo_on _ _ _ _ _ _ _ Alpine.VersionFacts.cmp_core_tp Alpine.VersionFacts.parse_core_wf)).
Qed.
Print Assumptions C20_alpine_self_eq.

Theorem C20_alpine_self_convex :
  let vok := self_vok Alpine.Entry.entry in
  let vcmp := self_vcmp Alpine.Entry.entry in
  forall (rg : bytes) (r : range) (a b c : bytes),
  parse_range bytes (oracle_parse vok) Alpine.Range.cfg rg = Some r ->
  conj_only Alpine.Range.cfg r = true ->
  vok a = true -> vok b = true -> vok c = true ->
  le_c (vcmp a b) -> le_c (vcmp b c) ->
  r_contains Alpine.Entry.r vok vcmp rg a = Some true ->
  r_contains Alpine.Entry.r vok vcmp rg c = Some true ->
  r_contains Alpine.Entry.r vok vcmp rg b = Some true.
Proof.
  intros vok vcmp rg r a b c.
  exact (SimpleRops.simple_c20_convex_on Alpine.Range.cfg _ _ rg r a b c
           (SimpleRops.self_tpo_on _ _ _ _ _ _ _ Alpine.VersionFacts.cmp_core_tp Alpine.VersionFacts.parse_core_wf)).
Qed.
Print Assumptions C20_alpine_self_convex.

(* alpm: within a pkgrel class; refuted across the classes *)

Theorem C20_alpm_eq_same_class :
  forall (vparse : bytes -> option Alpm.Version.ver) (r : range) (a b : Alpm.Version.ver),
  Alpm.Version.c_has_pkgrel (v_core a) = Alpm.Version.c_has_pkgrel (v_core b) ->
  Alpm.Version.cmp a b = Eq ->
  contains Alpm.Version.ver vparse Alpm.Version.cmp Alpm.Range.cfg r a =
  contains Alpm.Version.ver vparse Alpm.Version.cmp Alpm.Range.cfg r b.
Proof. exact Alpm.RangeFacts.alpm_c20_same_class. Qed.
Print Assumptions C20_alpm_eq_same_class.

Theorem C20_alpm_fails_across_classes :
  let e := Alpm.Entry.entry in
  v_cmp (e_v e) $"1.0" $"1.0-2" = Some Eq /\
  r_contains (e_r e) (self_vok e) (self_vcmp e) $">1.0-1"
    $"1.0" = Some false /\
  r_contains (e_r e) (self_vok e) (self_vcmp e) $">1.0-1"
    $"1.0-2" = Some true.
Proof. exact Alpm.RangeFacts.alpm_c20_fails_across_classes. Qed.
Print Assumptions C20_alpm_fails_across_classes.

Theorem C20_alpm_convexity_fails_across_classes :
  let e := Alpm.Entry.entry in
  let rc := r_contains (e_r e) (self_vok e) (self_vcmp e) in
  self_vcmp e $"1.0-2" $"1.0" = Eq /\
  self_vcmp e $"1.0" $"1.0-3" = Eq /\
  rc $">1.0-1" $"1.0-2" = Some true /\
  rc $">1.0-1" $"1.0-3" = Some true /\
  rc $">1.0-1" $"1.0" = Some false.
Proof. exact AlpmC20.alpm_convexity_fails_across_classes. Qed.
Print Assumptions C20_alpm_convexity_fails_across_classes.

Theorem C20_alpm_convex_same_class :
  forall (vparse : bytes -> option Alpm.Version.ver) (h : bool) (r : range)
    (a b c : Alpm.Version.ver),
  Alpm.Version.c_has_pkgrel (v_core a) = h ->
  Alpm.Version.c_has_pkgrel (v_core b) = h ->
  Alpm.Version.c_has_pkgrel (v_core c) = h ->
  le_c (Alpm.Version.cmp a b) ->
  le_c (Alpm.Version.cmp b c) ->
  contains Alpm.Version.ver vparse Alpm.Version.cmp Alpm.Range.cfg r a = true ->
  contains Alpm.Version.ver vparse Alpm.Version.cmp Alpm.Range.cfg r c = true ->
  contains Alpm.Version.ver vparse Alpm.Version.cmp Alpm.Range.cfg r b = true.
Proof. exact AlpmC20.alpm_convex_same_class. Qed.
Print Assumptions C20_alpm_convex_same_class.

(* apache *)

Theorem C20_apache_eq :
  forall (vok : bytes -> bool) (vcmp : bytes -> bytes -> comparison) (rg a b : bytes),
  TotalPreorder vcmp ->
  vok a = true ->
  vok b = true ->
  vcmp a b = Eq ->
  r_contains Apache.Entry.r vok vcmp rg a = r_contains Apache.Entry.r vok vcmp rg b.
Proof. exact Apache.RangeFacts.c20_eq. Qed.
Print Assumptions C20_apache_eq.

Theorem C20_apache_convex :
  forall (vok : bytes -> bool) (vcmp : bytes -> bytes -> comparison) (rg a b c : bytes),
  TotalPreorder vcmp ->
  vok a = true ->
  vok b = true ->
  vok c = true ->
  le_c (vcmp a b) ->
  le_c (vcmp b c) ->
  r_contains Apache.Entry.r vok vcmp rg a = Some true ->
  r_contains Apache.Entry.r vok vcmp rg c = Some true ->
  r_contains Apache.Entry.r vok vcmp rg b = Some true.
Proof. exact Apache.RangeFacts.c20_convex. Qed.
Print Assumptions C20_apache_convex.

Theorem C20_apache_self_eq :
  let vok := self_vok Apache.Entry.entry in
  let vcmp := self_vcmp Apache.Entry.entry in
  forall rg a b : bytes,
  vok a = true -> vok b = true -> vcmp a b = Eq ->
  r_contains Apache.Entry.r vok vcmp rg a = r_contains Apache.Entry.r vok vcmp rg b.
Proof.
  intros vok vcmp rg a b.
  exact (SimpleRops.simple_c20_eq_on Apache.Range.cfg _ _ rg a b
           (SimpleRops.self_tpo _ _ _ _ _ _ Apache.VersionFacts.cmp_core_tp)).
Qed.
Print Assumptions C20_apache_self_eq.

Theorem C20_apache_self_convex :
  let vok := self_vok Apache.Entry.entry in
  let vcmp := self_vcmp Apache.Entry.entry in
  forall rg a b c : bytes,
  vok a = true -> vok b = true -> vok c = true ->
  le_c (vcmp a b) -> le_c (vcmp b c) ->
  r_contains Apache.Entry.r vok vcmp rg a = Some true ->
  r_contains Apache.Entry.r vok vcmp rg c = Some true ->
  r_contains Apache.Entry.r vok vcmp rg b = Some true.
Proof.
  intros vok vcmp rg a b c.
  exact (SimpleRops.simple_c20_convex_all_on Apache.Range.cfg _ _ rg a b c SimpleRops.sem5_convex
           (SimpleRops.self_tpo _ _ _ _ _ _ Apache.VersionFacts.cmp_core_tp)).
Qed.
Print Assumptions C20_apache_self_convex.

(* cargo *)

Theorem C20_cargo_eq_oracle :
  forall (vcmp : bytes -> bytes -> comparison) (r : Cargo.Range.range) (a b : bytes),
  TotalPreorder vcmp ->
  (forall x y : bytes,
   vcmp x y = Eq ->
   option_map Cargo.RangeFacts.triple (Cargo.Range.fields x) =
   option_map Cargo.RangeFacts.triple (Cargo.Range.fields y)) ->
  vcmp a b = Eq -> Cargo.Range.contains vcmp r a = Cargo.Range.contains vcmp r b.
Proof. exact Cargo.RangeFacts.C20_oracle. Qed.
Print Assumptions C20_cargo_eq_oracle.

Theorem C20_cargo_self_eq_parsed :
  forall (r : Cargo.Range.range) (a b : bytes),
  Cargo.RangeFacts.svok a = true ->
  Cargo.RangeFacts.svok b = true ->
  Cargo.RangeFacts.svcmp a b = Eq ->
  Cargo.Range.contains Cargo.RangeFacts.svcmp r a = Cargo.Range.contains Cargo.RangeFacts.svcmp r b.
Proof. exact Cargo.RangeFacts.C20_self. Qed.
Print Assumptions C20_cargo_self_eq_parsed.

Theorem C20_cargo_self_eq :
  forall rs a b : bytes,
  Cargo.RangeFacts.svok a = true ->
  Cargo.RangeFacts.svok b = true ->
  Cargo.RangeFacts.svcmp a b = Eq ->
  Cargo.Range.r_contains Cargo.RangeFacts.svok Cargo.RangeFacts.svcmp rs a =
  Cargo.Range.r_contains Cargo.RangeFacts.svok Cargo.RangeFacts.svcmp rs b.
Proof. exact Cargo.RangeFacts.C20_self_text. Qed.
Print Assumptions C20_cargo_self_eq.

Theorem C20_cargo_self_convex :
  forall (r : Cargo.Range.range) (a b c : bytes) (fa fb fc : Cargo.Version.core),
  Cargo.Range.fields a = Some fa ->
  Cargo.Range.fields b = Some fb ->
  Cargo.Range.fields c = Some fc ->
  Cargo.RangeFacts.conj_only r = true ->
  Cargo.Version.cmp_core fa fb <> Gt ->
  Cargo.Version.cmp_core fb fc <> Gt ->
  Cargo.Range.contains Cargo.RangeFacts.svcmp r a = true ->
  Cargo.Range.contains Cargo.RangeFacts.svcmp r c = true ->
  Cargo.Range.contains Cargo.RangeFacts.svcmp r b = true.
Proof. exact Cargo.RangeFacts.convex_self. Qed.
Print Assumptions C20_cargo_self_convex.

Theorem C20_cargo_entry_self :
  forall rs v : bytes,
  r_contains (e_r Cargo.Entry.entry) (self_vok Cargo.Entry.entry)
    (self_vcmp Cargo.Entry.entry) rs v =
  Cargo.Range.r_contains Cargo.RangeFacts.svok Cargo.RangeFacts.svcmp rs v.
Proof. exact Cargo.RangeFacts.entry_self. Qed.
Print Assumptions C20_cargo_entry_self.

(* composer: restricted; refuted in general *)

Theorem C20_composer_abbrev :
  Composer.RangeFacts.sok = self_vok Composer.Entry.entry /\
  Composer.RangeFacts.scmp = self_vcmp Composer.Entry.entry /\
  (forall r v : bytes, Composer.RangeFacts.rc r v =
     r_contains Composer.Entry.r (self_vok Composer.Entry.entry) (self_vcmp Composer.Entry.entry) r v) /\
  (forall r : bytes, Composer.RangeFacts.racc r = true <->
     r_show Composer.Entry.r (self_vok Composer.Entry.entry) r <> None).
Proof.
  repeat split; unfold Composer.RangeFacts.racc, Composer.RangeFacts.sok;
    destruct (r_show Composer.Entry.r (self_vok Composer.Entry.entry) r); congruence.
Qed.
Print Assumptions C20_composer_abbrev.

Theorem C20_composer_cmp_only :
  forall (vcmp : bytes -> bytes -> comparison) (r : Composer.Range.range)
    (a b : bytes) (ca cb : Composer.Version.core),
  TotalPreorder vcmp ->
  vcmp a b = Eq ->
  Composer.Version.parse_core (trim_space a) = Some ca ->
  Composer.Version.parse_core (trim_space b) = Some cb ->
  forallb (forallb Composer.RangeFacts.cmp_only) (Composer.Range.r_groups r) = true ->
  Composer.Range.contains vcmp r a = Composer.Range.contains vcmp r b.
Proof. exact Composer.RangeFacts.c20_cmp_only. Qed.
Print Assumptions C20_composer_cmp_only.

Theorem C20_composer_eq :
  forall (vcmp : bytes -> bytes -> comparison) (r : Composer.Range.range)
    (a b : bytes) (ca cb : Composer.Version.core),
  TotalPreorder vcmp ->
  vcmp a b = Eq ->
  Composer.Version.parse_core (trim_space a) = Some ca ->
  Composer.Version.parse_core (trim_space b) = Some cb ->
  Composer.Version.cmp_core ca cb = Eq ->
  beq a $"1.0b1" = beq b $"1.0b1" ->
  Composer.Range.contains vcmp r a = Composer.Range.contains vcmp r b.
Proof. exact Composer.RangeFacts.c20. Qed.
Print Assumptions C20_composer_eq.

Theorem C20_composer_counterexample :
  Composer.RangeFacts.scmp $"1.0b1" $"1.0-b1" = Eq /\
  Composer.RangeFacts.scmp $"1.0b1" $" 1.0b1" = Eq /\
  Composer.RangeFacts.rc $"^1.0.0" $"1.0b1" =
  Some true /\
  Composer.RangeFacts.rc $"^1.0.0" $"1.0-b1" =
  Some false /\
  Composer.RangeFacts.rc $"^1.0.0" $" 1.0b1" =
  Some false.
Proof. exact Composer.RangeFacts.c20_counterexample. Qed.
Print Assumptions C20_composer_counterexample.

Theorem C20_composer_convexity_refuted :
  let e := Composer.Entry.entry in
  let rc := r_contains (e_r e) (self_vok e) (self_vcmp e) in
  self_vcmp e $"1.10" $"1.10.1-beta1" = Lt /\
  self_vcmp e $"1.10.1-beta1" $"1.1000" = Lt /\
  rc $"^1.10" $"1.10" = Some true /\
  rc $"^1.10" $"1.1000" = Some true /\
  rc $"^1.10" $"1.10.1-beta1" = Some false /\
  self_vcmp e $"1.2.3" $"1.5.0-beta" = Lt /\
  self_vcmp e $"1.5.0-beta" $"1.9.0" = Lt /\
  rc $"^1.2.3" $"1.2.3" = Some true /\
  rc $"^1.2.3" $"1.9.0" = Some true /\
  rc $"^1.2.3" $"1.5.0-beta" = Some false.
Proof. exact ComposerC20.composer_convexity_refuted. Qed.
Print Assumptions C20_composer_convexity_refuted.

Theorem C20_composer_convex_comparators :
  forall vcmp : bytes -> bytes -> comparison,
  TotalPreorder vcmp ->
  forall (r : Composer.Range.range) (g : list Composer.Range.con) (a b c : bytes),
  Composer.Range.r_groups r = [g] ->
  forallb (fun k : Composer.Range.con =>
             match k with
             | Composer.Range.KAny => true
             | Composer.Range.KCmp op _ => convex_op op      (* every comparator but CNe *)
             | _ => false
             end) g = true ->
  le_c (vcmp a b) -> le_c (vcmp b c) ->
  Composer.Range.contains vcmp r a = Some true ->
  Composer.Range.contains vcmp r c = Some true ->
  Composer.Range.contains vcmp r b <> None -> Composer.Range.contains vcmp r b = Some true.
Proof. exact ConvexMore.composer_convex. Qed.
Print Assumptions C20_composer_convex_comparators.

Theorem C20_composer_self_eq :
  let vok := self_vok Composer.Entry.entry in
  let vcmp := self_vcmp Composer.Entry.entry in
  forall rg a b : bytes,
  vok a = true -> vok b = true -> vcmp a b = Eq ->
  beq a $"1.0b1" = beq b $"1.0b1" ->          (* the text special case of the caret *)
  r_contains Composer.Entry.r vok vcmp rg a = r_contains Composer.Entry.r vok vcmp rg b.
Proof. exact ComposerSelf.composer_self_eq. Qed.
Print Assumptions C20_composer_self_eq.

Theorem C20_composer_self_eq_cmp_only :
  let vok := self_vok Composer.Entry.entry in
  let vcmp := self_vcmp Composer.Entry.entry in
  forall (rg : bytes) (r : Composer.Range.range) (a b : bytes),
  Composer.Range.parse_range vok rg = Some r ->
  forallb (forallb Composer.RangeFacts.cmp_only) (Composer.Range.r_groups r) = true ->
  vok a = true -> vok b = true -> vcmp a b = Eq ->
  r_contains Composer.Entry.r vok vcmp rg a = r_contains Composer.Entry.r vok vcmp rg b.
Proof. exact ComposerSelf.composer_self_eq_cmp_only. Qed.
Print Assumptions C20_composer_self_eq_cmp_only.

Theorem C20_composer_self_convex :
  let vok := self_vok Composer.Entry.entry in
  let vcmp := self_vcmp Composer.Entry.entry in
  forall (rg : bytes) (r : Composer.Range.range) (g : list Composer.Range.con) (a b c : bytes),
  Composer.Range.parse_range vok rg = Some r -> Composer.Range.r_groups r = [g] ->
  forallb (fun k : Composer.Range.con =>
             match k with
             | Composer.Range.KAny => true
             | Composer.Range.KCmp op _ => convex_op op
             | _ => false
             end) g = true ->
  vok a = true -> vok b = true -> vok c = true ->
  le_c (vcmp a b) -> le_c (vcmp b c) ->
  r_contains Composer.Entry.r vok vcmp rg a = Some true ->
  r_contains Composer.Entry.r vok vcmp rg c = Some true ->
  r_contains Composer.Entry.r vok vcmp rg b = Some true.
Proof. exact ComposerSelf.composer_self_convex. Qed.
Print Assumptions C20_composer_self_convex.

(* conan *)

Theorem C20_conan_abbrev :
  Conan.RangeFacts.m_vok = self_vok Conan.Entry.entry /\
  Conan.RangeFacts.m_vcmp = self_vcmp Conan.Entry.entry.
Proof. split; reflexivity. Qed.
Print Assumptions C20_conan_abbrev.

Theorem C20_conan_eq_plain :
  forall (vcmp : bytes -> bytes -> comparison) (r : Conan.Range.range) (a b : bytes),
  TotalPreorder vcmp ->
  Conan.RangeFacts.plain_range r = true ->
  vcmp a b = Eq -> Conan.Range.contains vcmp r a = Conan.Range.contains vcmp r b.
Proof. exact Conan.RangeFacts.conan_c20_plain. Qed.
Print Assumptions C20_conan_eq_plain.

Theorem C20_conan_eq :
  forall (vcmp : bytes -> bytes -> comparison) (r : Conan.Range.range)
    (a b : bytes) (pa pb : list bytes),
  TotalPreorder vcmp ->
  Conan.Range.parts_of a = Some pa ->
  Conan.Range.parts_of b = Some pb ->
  Conan.Version.parts_cmp pa pb = Eq ->
  vcmp a b = Eq -> Conan.Range.contains vcmp r a = Conan.Range.contains vcmp r b.
Proof. exact Conan.RangeFacts.conan_c20. Qed.
Print Assumptions C20_conan_eq.

Theorem C20_conan_self_eq :
  forall (r : Conan.Range.range) (a b : bytes),
  Conan.RangeFacts.m_vok a = true ->
  Conan.RangeFacts.m_vok b = true ->
  Conan.RangeFacts.m_vcmp a b = Eq ->
  Conan.Range.contains Conan.RangeFacts.m_vcmp r a = Conan.Range.contains Conan.RangeFacts.m_vcmp r b.
Proof. exact Conan.RangeFacts.conan_c20_self. Qed.
Print Assumptions C20_conan_self_eq.

Theorem C20_conan_convex_comparators :
  forall vcmp : bytes -> bytes -> comparison,
  TotalPreorder vcmp ->
  forall (r : Conan.Range.range) (g : list Conan.Range.constraint) (a b c : bytes),
  Conan.Range.r_groups r = [g] ->
  forallb (fun k : Conan.Range.constraint =>
             (negb (beq (fst k) $"~") && negb (beq (fst k) $"^")) && convex_op (sem6 (fst k))) g = true ->
  le_c (vcmp a b) -> le_c (vcmp b c) ->
  Conan.Range.contains vcmp r a = true -> Conan.Range.contains vcmp r c = true ->
  Conan.Range.contains vcmp r b = true.
Proof. exact ConvexMore.conan_convex. Qed.
Print Assumptions C20_conan_convex_comparators.

Theorem C20_conan_self_convex :
  let vok := Conan.RangeFacts.m_vok in       (* = self_vok Conan.Entry.entry, C20_conan_abbrev *)
  let vcmp := Conan.RangeFacts.m_vcmp in     (* = self_vcmp Conan.Entry.entry *)
  forall (r : Conan.Range.range) (g : list Conan.Range.constraint) (a b c : bytes),
  Conan.Range.r_groups r = [g] ->
  forallb (fun k : Conan.Range.constraint =>
             (beq (fst k) $"~" || beq (fst k) $"^" || convex_op (sem6 (fst k)))   (* no "!=" *)
             && vok (snd k)) g = true ->
  vok a = true -> vok b = true -> vok c = true ->
  le_c (vcmp a b) -> le_c (vcmp b c) ->
  Conan.Range.contains vcmp r a = true -> Conan.Range.contains vcmp r c = true ->
  Conan.Range.contains vcmp r b = true.
Proof. exact Squeeze.conan_self_convex. Qed.
Print Assumptions C20_conan_self_convex.

(* cran *)

Theorem C20_cran_eq :
  forall (vok : bytes -> bool) (vcmp : bytes -> bytes -> comparison) (rg a b : bytes),
  TotalPreorder vcmp -> vok a = true -> vok b = true -> vcmp a b = Eq ->
  r_contains Cran.Entry.r vok vcmp rg a = r_contains Cran.Entry.r vok vcmp rg b.
Proof. exact (SimpleRops.simple_c20_eq Cran.Range.cfg). Qed.
Print Assumptions C20_cran_eq.

Theorem C20_cran_convex :
  forall (vok : bytes -> bool) (vcmp : bytes -> bytes -> comparison) (rg : bytes) (r : range)
    (a b c : bytes),
  TotalPreorder vcmp ->
  parse_range bytes (oracle_parse vok) Cran.Range.cfg rg = Some r ->
  conj_only Cran.Range.cfg r = true ->
  vok a = true -> vok b = true -> vok c = true ->
  le_c (vcmp a b) -> le_c (vcmp b c) ->
  r_contains Cran.Entry.r vok vcmp rg a = Some true ->
  r_contains Cran.Entry.r vok vcmp rg c = Some true ->
  r_contains Cran.Entry.r vok vcmp rg b = Some true.
Proof. exact (SimpleRops.simple_c20_convex Cran.Range.cfg). Qed.
Print Assumptions C20_cran_convex.

Theorem C20_cran_self_eq :
  let vok := self_vok Cran.Entry.entry in
  let vcmp := self_vcmp Cran.Entry.entry in
  forall rg a b : bytes,
  vok a = true -> vok b = true -> vcmp a b = Eq ->
  r_contains Cran.Entry.r vok vcmp rg a = r_contains Cran.Entry.r vok vcmp rg b.
Proof.
  intros vok vcmp rg a b.
  exact (SimpleRops.simple_c20_eq_on Cran.Range.cfg _ _ rg a b
           (SimpleRops.self_tpo _ _ _ _ _ _ Cran.VersionFacts.cmp_core_tp)).
Qed.
Print Assumptions C20_cran_self_eq.

Theorem C20_cran_self_convex :
  let vok := self_vok Cran.Entry.entry in
  let vcmp := self_vcmp Cran.Entry.entry in
  forall (rg : bytes) (r : range) (a b c : bytes),
  parse_range bytes (oracle_parse vok) Cran.Range.cfg rg = Some r ->
  conj_only Cran.Range.cfg r = true ->
  vok a = true -> vok b = true -> vok c = true ->
  le_c (vcmp a b) -> le_c (vcmp b c) ->
  r_contains Cran.Entry.r vok vcmp rg a = Some true ->
  r_contains Cran.Entry.r vok vcmp rg c = Some true ->
  r_contains Cran.Entry.r vok vcmp rg b = Some true.
Proof.
  intros vok vcmp rg r a b c.
  exact (SimpleRops.simple_c20_convex_on Cran.Range.cfg _ _ rg r a b c
           (SimpleRops.self_tpo _ _ _ _ _ _ Cran.VersionFacts.cmp_core_tp)).
Qed.
Print Assumptions C20_cran_self_convex.

(* debian *)

Theorem C20_debian_eq :
  forall (vok : bytes -> bool) (vcmp : bytes -> bytes -> comparison) (rg a b : bytes),
  TotalPreorder vcmp ->
  vok a = true ->
  vok b = true ->
  vcmp a b = Eq ->
  r_contains Debian.Entry.r vok vcmp rg a = r_contains Debian.Entry.r vok vcmp rg b.
Proof. exact Debian.RangeFacts.debian_c20. Qed.
Print Assumptions C20_debian_eq.

Theorem C20_debian_convex :
  forall (vok : bytes -> bool) (vcmp : bytes -> bytes -> comparison) (rg : bytes) (r : range)
    (a b c : bytes),
  TotalPreorder vcmp ->
  parse_range bytes (oracle_parse vok) Debian.Range.cfg rg = Some r ->
  conj_only Debian.Range.cfg r = true ->
  vok a = true -> vok b = true -> vok c = true ->
  le_c (vcmp a b) -> le_c (vcmp b c) ->
  r_contains Debian.Entry.r vok vcmp rg a = Some true ->
  r_contains Debian.Entry.r vok vcmp rg c = Some true ->
  r_contains Debian.Entry.r vok vcmp rg b = Some true.
Proof. exact (SimpleRops.simple_c20_convex Debian.Range.cfg). Qed.
Print Assumptions C20_debian_convex.

Theorem C20_debian_self_eq :
  let vok := self_vok Debian.Entry.entry in
  let vcmp := self_vcmp Debian.Entry.entry in
  forall rg a b : bytes,
  vok a = true -> vok b = true -> vcmp a b = Eq ->
  r_contains Debian.Entry.r vok vcmp rg a = r_contains Debian.Entry.r vok vcmp rg b.
Proof.
  intros vok vcmp rg a b.
  exact (SimpleRops.simple_c20_eq_on Debian.Range.cfg _ _ rg a b
           (SimpleRops.self_tpo _ _ _ _ _ _ Debian.VersionFacts.cmp_core_tp)).
Qed.
Print Assumptions C20_debian_self_eq.

Theorem C20_debian_self_convex :
  let vok := self_vok Debian.Entry.entry in
  let vcmp := self_vcmp Debian.Entry.entry in
  forall (rg : bytes) (r : range) (a b c : bytes),
  parse_range bytes (oracle_parse vok) Debian.Range.cfg rg = Some r ->
  conj_only Debian.Range.cfg r = true ->
  vok a = true -> vok b = true -> vok c = true ->
  le_c (vcmp a b) -> le_c (vcmp b c) ->
  r_contains Debian.Entry.r vok vcmp rg a = Some true ->
  r_contains Debian.Entry.r vok vcmp rg c = Some true ->
  r_contains Debian.Entry.r vok vcmp rg b = Some true.
Proof.
  intros vok vcmp rg r a b c.
  exact (SimpleRops.simple_c20_convex_on Debian.Range.cfg _ _ rg r a b c
           (SimpleRops.self_tpo _ _ _ _ _ _ Debian.VersionFacts.cmp_core_tp)).
Qed.
Print Assumptions C20_debian_self_convex.

(* gem *)

Theorem C20_gem_eq :
  forall (vok : bytes -> bool) (vcmp : bytes -> bytes -> comparison),
  (forall a b c : bytes,
   vok a = true -> vok b = true -> vok c = true -> vcmp a b = Eq -> vcmp a c = vcmp b c) ->
  (forall a b : bytes,
   vok a = true ->
   vok b = true ->
   vcmp a b = Eq ->
   forall (n : nat) (cs : list Z),
   Gem.Range.prefix_eq n (Gem.Range.numeric_of a) cs = Gem.Range.prefix_eq n (Gem.Range.numeric_of b) cs) ->
  forall (r : Gem.Range.range) (a b : bytes),
  vok a = true ->
  vok b = true ->
  vcmp a b = Eq -> Gem.Range.contains vok vcmp r a = Gem.Range.contains vok vcmp r b.
Proof. exact Gem.RangeFacts.gem_c20. Qed.
Print Assumptions C20_gem_eq.

Theorem C20_gem_self_eq_parsed :
  forall (r : Gem.Range.range) (a b : bytes),
  Gem.RangeFacts.self_ok a = true ->
  Gem.RangeFacts.self_ok b = true ->
  Gem.RangeFacts.self_cmp a b = Eq ->
  Gem.Range.contains Gem.RangeFacts.self_ok Gem.RangeFacts.self_cmp r a =
  Gem.Range.contains Gem.RangeFacts.self_ok Gem.RangeFacts.self_cmp r b.
Proof. exact Gem.RangeFacts.gem_c20_self. Qed.
Print Assumptions C20_gem_self_eq_parsed.

Theorem C20_gem_self_eq :
  forall r a b : bytes,
  Gem.RangeFacts.self_ok a = true ->
  Gem.RangeFacts.self_ok b = true ->
  Gem.RangeFacts.self_cmp a b = Eq ->
  Gem.Range.r_contains Gem.RangeFacts.self_ok Gem.RangeFacts.self_cmp r a =
  Gem.Range.r_contains Gem.RangeFacts.self_ok Gem.RangeFacts.self_cmp r b.
Proof. exact Gem.RangeFacts.gem_c20_self_text. Qed.
Print Assumptions C20_gem_self_eq.

Theorem C20_gem_self_convex :
  let vok := self_vok Gem.Entry.entry in
  let vcmp := self_vcmp Gem.Entry.entry in
  forall (rg : bytes) (r : range) (a b c : bytes),
  Gem.Range.parse_range vok rg = Some r ->
  forallb (fun k : bytes * bytes =>
             beq (fst k) Gem.Range.pess || convex_op (sem6 (fst k))) (r_cs r) = true ->   (* no "!=" *)
  vok a = true -> vok b = true -> vok c = true ->
  le_c (vcmp a b) -> le_c (vcmp b c) ->
  r_contains Gem.Entry.r vok vcmp rg a = Some true ->
  r_contains Gem.Entry.r vok vcmp rg c = Some true ->
  r_contains Gem.Entry.r vok vcmp rg b = Some true.
Proof. intros vok vcmp rg r a b c. exact (Squeeze.gem_self_convex_all rg r a b c). Qed.
Print Assumptions C20_gem_self_convex.

Theorem C20_gem_abbrev :
  Gem.RangeFacts.self_ok = self_vok Gem.Entry.entry /\
  Gem.RangeFacts.self_cmp = self_vcmp Gem.Entry.entry /\
  (forall vok vcmp r v, r_contains Gem.Entry.r vok vcmp r v = Gem.Range.r_contains vok vcmp r v).
Proof. repeat split. Qed.
Print Assumptions C20_gem_abbrev.

(* gentoo *)

Theorem C20_gentoo_eq :
  forall (vok : bytes -> bool) (vcmp : bytes -> bytes -> comparison),
  TotalPreorder vcmp ->
  forall rg a b : bytes,
  vok a = true ->
  vok b = true ->
  vcmp a b = Eq ->
  r_contains Gentoo.Entry.r vok vcmp rg a = r_contains Gentoo.Entry.r vok vcmp rg b.
Proof. exact Gentoo.RangeFacts.gentoo_c20_eq. Qed.
Print Assumptions C20_gentoo_eq.

Theorem C20_gentoo_convex :
  forall (vok : bytes -> bool) (vcmp : bytes -> bytes -> comparison),
  TotalPreorder vcmp ->
  forall (rg : bytes) (r : range) (a b c : bytes),
  parse_range bytes (oracle_parse vok) Gentoo.Range.cfg rg = Some r ->
  conj_only Gentoo.Range.cfg r = true ->
  le_c (vcmp a b) ->
  le_c (vcmp b c) ->
  contains bytes (oracle_parse vok) vcmp Gentoo.Range.cfg r a = true ->
  contains bytes (oracle_parse vok) vcmp Gentoo.Range.cfg r c = true ->
  contains bytes (oracle_parse vok) vcmp Gentoo.Range.cfg r b = true.
Proof. exact Gentoo.RangeFacts.gentoo_c20_convex. Qed.
Print Assumptions C20_gentoo_convex.

Theorem C20_gentoo_self_eq :
  let vok := self_vok Gentoo.Entry.entry in
  let vcmp := self_vcmp Gentoo.Entry.entry in
  forall rg a b : bytes,
  vok a = true -> vok b = true -> vcmp a b = Eq ->
  r_contains Gentoo.Entry.r vok vcmp rg a = r_contains Gentoo.Entry.r vok vcmp rg b.
Proof.
  intros vok vcmp rg a b.
  exact (SimpleRops.simple_c20_eq_on Gentoo.Range.cfg _ _ rg a b
           (SimpleRops.self_tpo_on _ _ _ _ _ _ _ Gentoo.VersionFacts.cmp_core_tp Gentoo.VersionFacts.parse_core_wf)).
Qed.
Print Assumptions C20_gentoo_self_eq.

Theorem C20_gentoo_self_convex :
  let vok := self_vok Gentoo.Entry.entry in
  let vcmp := self_vcmp Gentoo.Entry.entry in
  forall (rg : bytes) (r : range) (a b c : bytes),
  parse_range bytes (oracle_parse vok) Gentoo.Range.cfg rg = Some r ->
  conj_only Gentoo.Range.cfg r = true ->
  vok a = true -> vok b = true -> vok c = true ->
  le_c (vcmp a b) -> le_c (vcmp b c) ->
  r_contains Gentoo.Entry.r vok vcmp rg a = Some true ->
  r_contains Gentoo.Entry.r vok vcmp rg c = Some true ->
  r_contains Gentoo.Entry.r vok vcmp rg b = Some true.
Proof.
  intros vok vcmp rg r a b c.
  exact (SimpleRops.simple_c20_convex_on Gentoo.Range.cfg _ _ rg r a b c
           (SimpleRops.self_tpo_on _ _ _ _ _ _ _ Gentoo.VersionFacts.cmp_core_tp Gentoo.VersionFacts.parse_core_wf)).
Qed.
Print Assumptions C20_gentoo_self_convex.

(* github *)

Theorem C20_github_eq :
  forall (vok : bytes -> bool) (vcmp : bytes -> bytes -> comparison),
  TotalPreorder vcmp ->
  forall rs a b : bytes,
  vok a = true ->
  vok b = true ->
  vcmp a b = Eq ->
  r_contains Github.Entry.r vok vcmp rs a = r_contains Github.Entry.r vok vcmp rs b.
Proof. exact Github.RangeFacts.github_c20_eq. Qed.
Print Assumptions C20_github_eq.

Theorem C20_github_convex :
  forall (vok : bytes -> bool) (vcmp : bytes -> bytes -> comparison),
  TotalPreorder vcmp ->
  forall rs a b c : bytes,
  vok a = true ->
  vok b = true ->
  vok c = true ->
  le_c (vcmp a b) ->
  le_c (vcmp b c) ->
  r_contains Github.Entry.r vok vcmp rs a = Some true ->
  r_contains Github.Entry.r vok vcmp rs c = Some true ->
  r_contains Github.Entry.r vok vcmp rs b = Some true.
Proof. exact Github.RangeFacts.github_convex. Qed.
Print Assumptions C20_github_convex.

Theorem C20_github_self_eq :
  let vok := self_vok Github.Entry.entry in
  let vcmp := self_vcmp Github.Entry.entry in
  forall rg a b : bytes,
  vok a = true -> vok b = true -> vcmp a b = Eq ->
  r_contains Github.Entry.r vok vcmp rg a = r_contains Github.Entry.r vok vcmp rg b.
Proof.
  intros vok vcmp rg a b.
  exact (SimpleRops.simple_c20_eq_on Github.Range.cfg _ _ rg a b
           (SimpleRops.self_tpo _ _ _ _ _ _ Github.VersionFacts.cmp_core_tp)).
Qed.
Print Assumptions C20_github_self_eq.

Theorem C20_github_self_convex :
  let vok := self_vok Github.Entry.entry in
  let vcmp := self_vcmp Github.Entry.entry in
  forall rg a b c : bytes,
  vok a = true -> vok b = true -> vok c = true ->
  le_c (vcmp a b) -> le_c (vcmp b c) ->
  r_contains Github.Entry.r vok vcmp rg a = Some true ->
  r_contains Github.Entry.r vok vcmp rg c = Some true ->
  r_contains Github.Entry.r vok vcmp rg b = Some true.
Proof.
  intros vok vcmp rg a b c.
  exact (SimpleRops.simple_c20_convex_all_on Github.Range.cfg _ _ rg a b c SimpleRops.sem5_convex
           (SimpleRops.self_tpo _ _ _ _ _ _ Github.VersionFacts.cmp_core_tp)).
Qed.
Print Assumptions C20_github_self_convex.

(* golang *)

Theorem C20_golang_eq :
  forall (vok : bytes -> bool) (vcmp : bytes -> bytes -> comparison) (rg a b : bytes),
  TotalPreorder vcmp ->
  vok a = true ->
  vok b = true ->
  vcmp a b = Eq ->
  r_contains Golang.Entry.r vok vcmp rg a = r_contains Golang.Entry.r vok vcmp rg b.
Proof. exact Golang.RangeFacts.golang_c20. Qed.
Print Assumptions C20_golang_eq.

Theorem C20_golang_convex :
  forall (vok : bytes -> bool) (vcmp : bytes -> bytes -> comparison)
    (rg : bytes) (x : range) (a b c : bytes),
  TotalPreorder vcmp ->
  parse_range bytes (oracle_parse vok) Golang.Range.cfg rg = Some x ->
  conj_only Golang.Range.cfg x = true ->
  vok a = true ->
  vok b = true ->
  vok c = true ->
  le_c (vcmp a b) ->
  le_c (vcmp b c) ->
  r_contains Golang.Entry.r vok vcmp rg a = Some true ->
  r_contains Golang.Entry.r vok vcmp rg c = Some true ->
  r_contains Golang.Entry.r vok vcmp rg b = Some true.
Proof. exact Golang.RangeFacts.golang_c20_convex. Qed.
Print Assumptions C20_golang_convex.

Theorem C20_golang_self_eq :
  let vok := self_vok Golang.Entry.entry in
  let vcmp := self_vcmp Golang.Entry.entry in
  forall rg a b : bytes,
  vok a = true -> vok b = true -> vcmp a b = Eq ->
  r_contains Golang.Entry.r vok vcmp rg a = r_contains Golang.Entry.r vok vcmp rg b.
Proof.
  intros vok vcmp rg a b.
  exact (SimpleRops.simple_c20_eq_on Golang.Range.cfg _ _ rg a b
           (SimpleRops.self_tpo _ _ _ _ _ _ Golang.VersionFacts.cmp_core_tp)).
Qed.
Print Assumptions C20_golang_self_eq.

Theorem C20_golang_self_convex :
  let vok := self_vok Golang.Entry.entry in
  let vcmp := self_vcmp Golang.Entry.entry in
  forall (rg : bytes) (r : range) (a b c : bytes),
  parse_range bytes (oracle_parse vok) Golang.Range.cfg rg = Some r ->
  conj_only Golang.Range.cfg r = true ->
  vok a = true -> vok b = true -> vok c = true ->
  le_c (vcmp a b) -> le_c (vcmp b c) ->
  r_contains Golang.Entry.r vok vcmp rg a = Some true ->
  r_contains Golang.Entry.r vok vcmp rg c = Some true ->
  r_contains Golang.Entry.r vok vcmp rg b = Some true.
Proof.
  intros vok vcmp rg r a b c.
  exact (SimpleRops.simple_c20_convex_on Golang.Range.cfg _ _ rg r a b c
           (SimpleRops.self_tpo _ _ _ _ _ _ Golang.VersionFacts.cmp_core_tp)).
Qed.
Print Assumptions C20_golang_self_convex.

(* hex: ranges whose synthesized bounds did not overflow *)

Theorem C20_hex_eq :
  forall vcmp : bytes -> bytes -> comparison,
  TotalPreorder vcmp ->
  forall (r : Hex.Range.range) (a b : bytes),
  Hex.RangeFacts.synth_ok r = true ->
  vcmp a b = Eq -> Hex.Range.contains vcmp r a = Hex.Range.contains vcmp r b.
Proof. exact Hex.RangeFacts.hex_c20_eq. Qed.
Print Assumptions C20_hex_eq.

Theorem C20_hex_convex :
  forall vcmp : bytes -> bytes -> comparison,
  TotalPreorder vcmp ->
  forall (r : Hex.Range.range) (a b c : bytes),
  Hex.RangeFacts.synth_ok r = true ->
  le_c (vcmp a b) ->
  le_c (vcmp b c) ->
  Hex.Range.contains vcmp r a = true ->
  Hex.Range.contains vcmp r c = true -> Hex.Range.contains vcmp r b = true.
Proof. exact Hex.RangeFacts.hex_c20_convex. Qed.
Print Assumptions C20_hex_convex.

Theorem C20_hex_synth_ok_parsed :
  forall (t : bytes) (c : Hex.Version.core),
  Hex.Version.parse_core t = Some c ->
  Hex.Version.major c <> max_int64 ->
  Hex.Version.minor c <> max_int64 ->
  Hex.RangeFacts.bound_ok (Hex.Range.BSynth (fst (Hex.Range.pess_upper t c)) (snd (Hex.Range.pess_upper t c))) =
  true.
Proof. exact Hex.RangeFacts.pess_upper_ok_parsed. Qed.
Print Assumptions C20_hex_synth_ok_parsed.

Theorem C20_hex_self_eq :
  let vok := self_vok Hex.Entry.entry in
  let vcmp := self_vcmp Hex.Entry.entry in
  forall (r : Hex.Range.range) (rg a b : bytes),
  Hex.Range.parse_range vok rg = Some r -> Hex.RangeFacts.synth_ok r = true ->
  vok a = true -> vok b = true -> vcmp a b = Eq ->
  r_contains Hex.Entry.r vok vcmp rg a = r_contains Hex.Entry.r vok vcmp rg b.
Proof.
  intros vok vcmp r rg a b P H.
  exact (HexSelf.hex_eq_on _ rg r a b P H
           (SimpleRops.self_tpo _ _ _ _ _ _ Hex.VersionFacts.cmp_core_tp)).
Qed.
Print Assumptions C20_hex_self_eq.

Theorem C20_hex_self_convex :
  let vok := self_vok Hex.Entry.entry in
  let vcmp := self_vcmp Hex.Entry.entry in
  forall (r : Hex.Range.range) (rg a b c : bytes),
  Hex.Range.parse_range vok rg = Some r -> Hex.RangeFacts.synth_ok r = true ->
  vok a = true -> vok b = true -> vok c = true ->
  le_c (vcmp a b) -> le_c (vcmp b c) ->
  r_contains Hex.Entry.r vok vcmp rg a = Some true ->
  r_contains Hex.Entry.r vok vcmp rg c = Some true ->
  r_contains Hex.Entry.r vok vcmp rg b = Some true.
Proof.
  intros vok vcmp r rg a b c P H.
  exact (HexSelf.hex_convex_on _ rg r a b c P H
           (SimpleRops.self_tpo _ _ _ _ _ _ Hex.VersionFacts.cmp_core_tp)).
Qed.
Print Assumptions C20_hex_self_convex.

(* mattermost *)

Theorem C20_mattermost_eq :
  forall (vok : bytes -> bool) (vcmp : bytes -> bytes -> comparison) (rg a b : bytes),
  TotalPreorder vcmp ->
  vok a = true ->
  vok b = true ->
  vcmp a b = Eq ->
  r_contains Mattermost.Entry.r vok vcmp rg a = r_contains Mattermost.Entry.r vok vcmp rg b.
Proof. exact Mattermost.RangeFacts.c20_eq. Qed.
Print Assumptions C20_mattermost_eq.

Theorem C20_mattermost_convex :
  forall (vok : bytes -> bool) (vcmp : bytes -> bytes -> comparison) (rg a b c : bytes),
  TotalPreorder vcmp ->
  vok a = true ->
  vok b = true ->
  vok c = true ->
  le_c (vcmp a b) ->
  le_c (vcmp b c) ->
  r_contains Mattermost.Entry.r vok vcmp rg a = Some true ->
  r_contains Mattermost.Entry.r vok vcmp rg c = Some true ->
  r_contains Mattermost.Entry.r vok vcmp rg b = Some true.
Proof. exact Mattermost.RangeFacts.c20_convex. Qed.
Print Assumptions C20_mattermost_convex.

Theorem C20_mattermost_self_eq :
  let vok := self_vok Mattermost.Entry.entry in
  let vcmp := self_vcmp Mattermost.Entry.entry in
  forall rg a b : bytes,
  vok a = true -> vok b = true -> vcmp a b = Eq ->
  r_contains Mattermost.Entry.r vok vcmp rg a = r_contains Mattermost.Entry.r vok vcmp rg b.
Proof.
  intros vok vcmp rg a b.
  exact (SimpleRops.simple_c20_eq_on Mattermost.Range.cfg _ _ rg a b
           (SimpleRops.self_tpo _ _ _ _ _ _ Mattermost.VersionFacts.cmp_core_tp)).
Qed.
Print Assumptions C20_mattermost_self_eq.

Theorem C20_mattermost_self_convex :
  let vok := self_vok Mattermost.Entry.entry in
  let vcmp := self_vcmp Mattermost.Entry.entry in
  forall rg a b c : bytes,
  vok a = true -> vok b = true -> vok c = true ->
  le_c (vcmp a b) -> le_c (vcmp b c) ->
  r_contains Mattermost.Entry.r vok vcmp rg a = Some true ->
  r_contains Mattermost.Entry.r vok vcmp rg c = Some true ->
  r_contains Mattermost.Entry.r vok vcmp rg b = Some true.
Proof.
  intros vok vcmp rg a b c.
  exact (SimpleRops.simple_c20_convex_all_on Mattermost.Range.cfg _ _ rg a b c SimpleRops.sem5_convex
           (SimpleRops.self_tpo _ _ _ _ _ _ Mattermost.VersionFacts.cmp_core_tp)).
Qed.
Print Assumptions C20_mattermost_self_convex.

(* maven: EQ holds although Compare is not transitive; CONVEX refuted *)

Theorem C20_maven_eq_congruence :
  forall (vok : bytes -> bool) (vcmp : bytes -> bytes -> comparison),
  (forall a b c : bytes, vcmp a b = Eq -> vcmp a c = vcmp b c) ->
  forall rg a b : bytes,
  vok a = true ->
  vok b = true ->
  vcmp a b = Eq ->
  r_contains Maven.Entry.r vok vcmp rg a = r_contains Maven.Entry.r vok vcmp rg b.
Proof. exact Maven.RangeFacts.c20. Qed.
Print Assumptions C20_maven_eq_congruence.

Theorem C20_maven_eq :
  forall (vok : bytes -> bool) (vcmp : bytes -> bytes -> comparison) (rg a b : bytes),
  TotalPreorder vcmp ->
  vok a = true ->
  vok b = true ->
  vcmp a b = Eq ->
  r_contains Maven.Entry.r vok vcmp rg a = r_contains Maven.Entry.r vok vcmp rg b.
Proof. exact Maven.RangeFacts.c20_tp. Qed.
Print Assumptions C20_maven_eq.

Theorem C20_maven_eq_ok :
  forall (vok : bytes -> bool) (vcmp : bytes -> bytes -> comparison),
  (forall a b c : bytes,
   vok a = true -> vok b = true -> vok c = true -> vcmp a b = Eq -> vcmp a c = vcmp b c) ->
  forall rg a b : bytes,
  vok a = true ->
  vok b = true ->
  vcmp a b = Eq ->
  r_contains Maven.Entry.r vok vcmp rg a = r_contains Maven.Entry.r vok vcmp rg b.
Proof. exact Maven.RangeFacts.c20_ok. Qed.
Print Assumptions C20_maven_eq_ok.

Theorem C20_maven_self_eq :
  forall rg a b : bytes,
  self_vok Maven.Entry.entry a = true ->
  self_vok Maven.Entry.entry b = true ->
  self_vcmp Maven.Entry.entry a b = Eq ->
  r_contains Maven.Entry.r (self_vok Maven.Entry.entry) (self_vcmp Maven.Entry.entry) rg a =
  r_contains Maven.Entry.r (self_vok Maven.Entry.entry) (self_vcmp Maven.Entry.entry) rg b.
Proof. exact Maven.RangeFacts.maven_c20. Qed.
Print Assumptions C20_maven_self_eq.

Theorem C20_maven_convexity_refuted :
  let e := Maven.Entry.entry in
  let a := $"1-5" in
  let b := $"1-sp" in
  let c := $"1-foo" in
  self_vcmp e a b = Lt /\
  self_vcmp e b c = Lt /\
  r_contains (e_r e) (self_vok e) (self_vcmp e) $"(,1-5]" a = Some true /\
  r_contains (e_r e) (self_vok e) (self_vcmp e) $"(,1-5]" c = Some true /\
  r_contains (e_r e) (self_vok e) (self_vcmp e) $"(,1-5]" b = Some false.
Proof. exact MavenC20.maven_convexity_refuted. Qed.
Print Assumptions C20_maven_convexity_refuted.

(* npm *)

Theorem C20_npm_eq_parsed :
  forall (vok : bytes -> bool) (vcmp : bytes -> bytes -> comparison),
  TotalPreorder vcmp ->
  forall (r : Npm.Range.range) (a b : bytes),
  vcmp a b = Eq -> Npm.Range.contains vok vcmp r a = Npm.Range.contains vok vcmp r b.
Proof. exact Npm.RangeFacts.npm_c20_eq. Qed.
Print Assumptions C20_npm_eq_parsed.

Theorem C20_npm_eq :
  forall (vok : bytes -> bool) (vcmp : bytes -> bytes -> comparison),
  TotalPreorder vcmp ->
  forall s a b : bytes,
  vok a = true ->
  vok b = true ->
  vcmp a b = Eq -> r_contains Npm.Entry.r vok vcmp s a = r_contains Npm.Entry.r vok vcmp s b.
Proof. exact Npm.RangeFacts.npm_c20_eq_text. Qed.
Print Assumptions C20_npm_eq.

Theorem C20_npm_convex :
  forall (vok : bytes -> bool) (vcmp : bytes -> bytes -> comparison),
  TotalPreorder vcmp ->
  forall (s : bytes) (r : Npm.Range.range) (a b c : bytes),
  contains_sub $"||" (trim_space s) = false ->
  Npm.Range.parse_range vok s = Some r ->
  le_c (vcmp a b) ->
  le_c (vcmp b c) ->
  Npm.Range.contains vok vcmp r a = true ->
  Npm.Range.contains vok vcmp r c = true -> Npm.Range.contains vok vcmp r b = true.
Proof. exact Npm.RangeFacts.npm_c20_convex. Qed.
Print Assumptions C20_npm_convex.

Theorem C20_npm_self_eq :
  let vok := self_vok Npm.Entry.entry in
  let vcmp := self_vcmp Npm.Entry.entry in
  forall (rg a b : bytes),
  vok a = true -> vok b = true -> vcmp a b = Eq ->
  r_contains Npm.Entry.r vok vcmp rg a = r_contains Npm.Entry.r vok vcmp rg b.
Proof.
  intros vok vcmp rg a b.
  exact (SelfC20.npm_eq_on _ _ rg a b 
           (SimpleRops.self_tpo _ _ _ _ _ _ Npm.VersionFacts.cmp_core_tp)).
Qed.
Print Assumptions C20_npm_self_eq.

Theorem C20_npm_self_convex :
  let vok := self_vok Npm.Entry.entry in
  let vcmp := self_vcmp Npm.Entry.entry in
  forall (rg a b c : bytes),
  contains_sub $"||" (trim_space rg) = false ->
  vok a = true -> vok b = true -> vok c = true ->
  le_c (vcmp a b) -> le_c (vcmp b c) ->
  r_contains Npm.Entry.r vok vcmp rg a = Some true ->
  r_contains Npm.Entry.r vok vcmp rg c = Some true ->
  r_contains Npm.Entry.r vok vcmp rg b = Some true.
Proof.
  intros vok vcmp rg a b c H0.
  exact (SelfC20.npm_convex_on _ _ rg a b c H0
           (SimpleRops.self_tpo _ _ _ _ _ _ Npm.VersionFacts.cmp_core_tp)).
Qed.
Print Assumptions C20_npm_self_convex.

(* nuget *)

Theorem C20_nuget_eq :
  forall vcmp : bytes -> bytes -> comparison,
  TotalPreorder vcmp ->
  forall (r : Nuget.Range.range) (a b : bytes),
  vcmp a b = Eq -> Nuget.Range.contains vcmp r a = Nuget.Range.contains vcmp r b.
Proof. exact Nuget.RangeFacts.nuget_c20_eq. Qed.
Print Assumptions C20_nuget_eq.

Theorem C20_nuget_convex :
  forall vcmp : bytes -> bytes -> comparison,
  TotalPreorder vcmp ->
  forall (r : Nuget.Range.range) (a b c : bytes),
  Nuget.RangeFacts.conj_only r = true ->
  le_c (vcmp a b) ->
  le_c (vcmp b c) ->
  Nuget.Range.contains vcmp r a = true ->
  Nuget.Range.contains vcmp r c = true -> Nuget.Range.contains vcmp r b = true.
Proof. exact Nuget.RangeFacts.nuget_c20_convex. Qed.
Print Assumptions C20_nuget_convex.

Theorem C20_nuget_self_eq :
  let vok := self_vok Nuget.Entry.entry in
  let vcmp := self_vcmp Nuget.Entry.entry in
  forall (rg a b : bytes),
  vok a = true -> vok b = true -> vcmp a b = Eq ->
  r_contains Nuget.Entry.r vok vcmp rg a = r_contains Nuget.Entry.r vok vcmp rg b.
Proof.
  intros vok vcmp rg a b.
  exact (SelfC20.nuget_eq_on _ _ rg a b 
           (SimpleRops.self_tpo _ _ _ _ _ _ Nuget.VersionFacts.cmp_core_tp)).
Qed.
Print Assumptions C20_nuget_self_eq.

Theorem C20_nuget_self_convex :
  let vok := self_vok Nuget.Entry.entry in
  let vcmp := self_vcmp Nuget.Entry.entry in
  forall (r : Nuget.Range.range) (rg a b c : bytes),
  Nuget.Range.parse_range vok rg = Some r ->
  Nuget.RangeFacts.conj_only r = true ->
  vok a = true -> vok b = true -> vok c = true ->
  le_c (vcmp a b) -> le_c (vcmp b c) ->
  r_contains Nuget.Entry.r vok vcmp rg a = Some true ->
  r_contains Nuget.Entry.r vok vcmp rg c = Some true ->
  r_contains Nuget.Entry.r vok vcmp rg b = Some true.
Proof.
  intros vok vcmp r rg a b c H0 H1.
  exact (SelfC20.nuget_convex_on _ _ rg r a b c H0 H1
           (SimpleRops.self_tpo _ _ _ _ _ _ Nuget.VersionFacts.cmp_core_tp)).
Qed.
Print Assumptions C20_nuget_self_convex.

(* pypi: the text-identity operator === is excluded *)

Theorem C20_pypi_eq :
  forall (vok : bytes -> bool) (vcmp : bytes -> bytes -> comparison)
    (r : Pypi.Range.range) (a b : bytes),
  TotalPreorder vcmp ->
  Pypi.RangeFacts.no_arbitrary_eq (Pypi.Range.r_cs r) = true ->
  vcmp a b = Eq -> Pypi.Range.contains vok vcmp r a = Pypi.Range.contains vok vcmp r b.
Proof. exact Pypi.RangeFacts.c20_eq. Qed.
Print Assumptions C20_pypi_eq.

Theorem C20_pypi_eq_text :
  forall (vok : bytes -> bool) (vcmp : bytes -> bytes -> comparison)
    (r : Pypi.Range.range) (a b : bytes),
  TotalPreorder vcmp ->
  trim_space a = trim_space b ->
  vcmp a b = Eq -> Pypi.Range.contains vok vcmp r a = Pypi.Range.contains vok vcmp r b.
Proof. exact Pypi.RangeFacts.c20_eq_text. Qed.
Print Assumptions C20_pypi_eq_text.

Theorem C20_pypi_convex :
  forall (vok : bytes -> bool) (vcmp : bytes -> bytes -> comparison)
    (r : Pypi.Range.range) (a b c : bytes),
  TotalPreorder vcmp ->
  Pypi.RangeFacts.convex_cs (Pypi.Range.r_cs r) = true ->
  le_c (vcmp a b) ->
  le_c (vcmp b c) ->
  Pypi.Range.contains vok vcmp r a = true ->
  Pypi.Range.contains vok vcmp r c = true -> Pypi.Range.contains vok vcmp r b = true.
Proof. exact Pypi.RangeFacts.c20_convex. Qed.
Print Assumptions C20_pypi_convex.

Theorem C20_pypi_self_eq :
  let vok := self_vok Pypi.Entry.entry in
  let vcmp := self_vcmp Pypi.Entry.entry in
  forall (r : Pypi.Range.range) (rg a b : bytes),
  Pypi.Range.parse_range vok rg = Some r ->
  Pypi.RangeFacts.no_arbitrary_eq (Pypi.Range.r_cs r) = true ->
  vok a = true -> vok b = true -> vcmp a b = Eq ->
  r_contains Pypi.Entry.r vok vcmp rg a = r_contains Pypi.Entry.r vok vcmp rg b.
Proof.
  intros vok vcmp r rg a b P H.
  exact (SelfC20.pypi_eq_on _ _ rg r a b P H 
           (SimpleRops.self_tpo _ _ _ _ _ _ Pypi.VersionFacts.cmp_core_tp)).
Qed.
Print Assumptions C20_pypi_self_eq.

Theorem C20_pypi_self_convex :
  let vok := self_vok Pypi.Entry.entry in
  let vcmp := self_vcmp Pypi.Entry.entry in
  forall (r : Pypi.Range.range) (rg a b c : bytes),
  Pypi.Range.parse_range vok rg = Some r ->
  Pypi.RangeFacts.convex_cs (Pypi.Range.r_cs r) = true ->
  vok a = true -> vok b = true -> vok c = true ->
  le_c (vcmp a b) -> le_c (vcmp b c) ->
  r_contains Pypi.Entry.r vok vcmp rg a = Some true ->
  r_contains Pypi.Entry.r vok vcmp rg c = Some true ->
  r_contains Pypi.Entry.r vok vcmp rg b = Some true.
Proof.
  intros vok vcmp r rg a b c H0 H1.
  exact (SelfC20.pypi_convex_on _ _ rg r a b c H0 H1
           (SimpleRops.self_tpo _ _ _ _ _ _ Pypi.VersionFacts.cmp_core_tp)).
Qed.
Print Assumptions C20_pypi_self_convex.

(* rpm *)

Theorem C20_rpm_eq_parsed :
  forall (V : Type) (vparse : bytes -> option V) (vcmp : V -> V -> comparison)
    (r : range) (a b : V),
  TotalPreorder vcmp ->
  vcmp a b = Eq -> contains V vparse vcmp Rpm.Range.cfg r a = contains V vparse vcmp Rpm.Range.cfg r b.
Proof. exact Rpm.RangeFacts.rpm_range_c20_eq. Qed.
Print Assumptions C20_rpm_eq_parsed.

Theorem C20_rpm_convex_parsed :
  forall (V : Type) (vparse : bytes -> option V) (vcmp : V -> V -> comparison)
    (r : range) (a b c : V),
  TotalPreorder vcmp ->
  conj_only Rpm.Range.cfg r = true ->
  le_c (vcmp a b) ->
  le_c (vcmp b c) ->
  contains V vparse vcmp Rpm.Range.cfg r a = true ->
  contains V vparse vcmp Rpm.Range.cfg r c = true -> contains V vparse vcmp Rpm.Range.cfg r b = true.
Proof. exact Rpm.RangeFacts.rpm_range_c20_convex. Qed.
Print Assumptions C20_rpm_convex_parsed.

Theorem C20_rpm_eq :
  forall (vok : bytes -> bool) (vcmp : bytes -> bytes -> comparison) (rg a b : bytes),
  TotalPreorder vcmp -> vok a = true -> vok b = true -> vcmp a b = Eq ->
  r_contains Rpm.Entry.r vok vcmp rg a = r_contains Rpm.Entry.r vok vcmp rg b.
Proof. exact (SimpleRops.simple_c20_eq Rpm.Range.cfg). Qed.
Print Assumptions C20_rpm_eq.

Theorem C20_rpm_convex :
  forall (vok : bytes -> bool) (vcmp : bytes -> bytes -> comparison) (rg : bytes) (r : range)
    (a b c : bytes),
  TotalPreorder vcmp ->
  parse_range bytes (oracle_parse vok) Rpm.Range.cfg rg = Some r ->
  conj_only Rpm.Range.cfg r = true ->
  vok a = true -> vok b = true -> vok c = true ->
  le_c (vcmp a b) -> le_c (vcmp b c) ->
  r_contains Rpm.Entry.r vok vcmp rg a = Some true ->
  r_contains Rpm.Entry.r vok vcmp rg c = Some true ->
  r_contains Rpm.Entry.r vok vcmp rg b = Some true.
Proof. exact (SimpleRops.simple_c20_convex Rpm.Range.cfg). Qed.
Print Assumptions C20_rpm_convex.

Theorem C20_rpm_self_eq :
  let vok := self_vok Rpm.Entry.entry in
  let vcmp := self_vcmp Rpm.Entry.entry in
  forall rg a b : bytes,
  vok a = true -> vok b = true -> vcmp a b = Eq ->
  r_contains Rpm.Entry.r vok vcmp rg a = r_contains Rpm.Entry.r vok vcmp rg b.
Proof.
  intros vok vcmp rg a b.
  exact (SimpleRops.simple_c20_eq_on Rpm.Range.cfg _ _ rg a b
           (SimpleRops.self_tpo _ _ _ _ _ _ Rpm.VersionFacts.cmp_core_tp)).
Qed.
Print Assumptions C20_rpm_self_eq.

Theorem C20_rpm_self_convex :
  let vok := self_vok Rpm.Entry.entry in
  let vcmp := self_vcmp Rpm.Entry.entry in
  forall (rg : bytes) (r : range) (a b c : bytes),
  parse_range bytes (oracle_parse vok) Rpm.Range.cfg rg = Some r ->
  conj_only Rpm.Range.cfg r = true ->
  vok a = true -> vok b = true -> vok c = true ->
  le_c (vcmp a b) -> le_c (vcmp b c) ->
  r_contains Rpm.Entry.r vok vcmp rg a = Some true ->
  r_contains Rpm.Entry.r vok vcmp rg c = Some true ->
  r_contains Rpm.Entry.r vok vcmp rg b = Some true.
Proof.
  intros vok vcmp rg r a b c.
  exact (SimpleRops.simple_c20_convex_on Rpm.Range.cfg _ _ rg r a b c
           (SimpleRops.self_tpo _ _ _ _ _ _ Rpm.VersionFacts.cmp_core_tp)).
Qed.
Print Assumptions C20_rpm_self_convex.

(* semver *)

Theorem C20_semver_eq :
  forall vcmp : bytes -> bytes -> comparison,
  TotalPreorder vcmp ->
  forall (r : Semver.Range.range) (a b : bytes),
  vcmp a b = Eq -> Semver.Range.contains vcmp r a = Semver.Range.contains vcmp r b.
Proof. exact Semver.RangeFacts.c20_eq. Qed.
Print Assumptions C20_semver_eq.

Theorem C20_semver_convex :
  forall vcmp : bytes -> bytes -> comparison,
  TotalPreorder vcmp ->
  forall (r : Semver.Range.range) (a b c : bytes),
  Semver.RangeFacts.no_ne r = true ->
  le_c (vcmp a b) ->
  le_c (vcmp b c) ->
  Semver.Range.contains vcmp r a = true ->
  Semver.Range.contains vcmp r c = true -> Semver.Range.contains vcmp r b = true.
Proof. exact Semver.RangeFacts.c20_convex. Qed.
Print Assumptions C20_semver_convex.

Theorem C20_semver_self_eq :
  let vok := self_vok Semver.Entry.entry in
  let vcmp := self_vcmp Semver.Entry.entry in
  forall (rg a b : bytes),
  vok a = true -> vok b = true -> vcmp a b = Eq ->
  r_contains Semver.Entry.r vok vcmp rg a = r_contains Semver.Entry.r vok vcmp rg b.
Proof.
  intros vok vcmp rg a b.
  exact (SelfC20.semver_eq_on _ _ rg a b 
           (SimpleRops.self_tpo _ _ _ _ _ _ Semver.VersionFacts.cmp_core_tp)).
Qed.
Print Assumptions C20_semver_self_eq.

Theorem C20_semver_self_convex :
  let vok := self_vok Semver.Entry.entry in
  let vcmp := self_vcmp Semver.Entry.entry in
  forall (r : Semver.Range.range) (rg a b c : bytes),
  Semver.Range.parse_range vok rg = Some r ->
  Semver.RangeFacts.no_ne r = true ->
  vok a = true -> vok b = true -> vok c = true ->
  le_c (vcmp a b) -> le_c (vcmp b c) ->
  r_contains Semver.Entry.r vok vcmp rg a = Some true ->
  r_contains Semver.Entry.r vok vcmp rg c = Some true ->
  r_contains Semver.Entry.r vok vcmp rg b = Some true.
Proof.
  intros vok vcmp r rg a b c H0 H1.
  exact (SelfC20.semver_convex_on _ _ rg r a b c H0 H1
           (SimpleRops.self_tpo _ _ _ _ _ _ Semver.VersionFacts.cmp_core_tp)).
Qed.
Print Assumptions C20_semver_self_convex.

(* TODO, not proved: nothing; all 20 ecosystems are covered (restrictions and refutations as listed in the header). *)

(* ====== ties to the source: BEGIN (written by bin/mkties) ====== *)
(* The Go functions named here are translated into Gallina from /repo's source on every run
   (tools/gen -> Gen/Code/<Eco>.v for loop-free functions, Gen/Loops/<Eco>.v for functions with
   loops and index expressions, where a panic is Panic and a loop takes fuel); Tie/<Eco>.v,
   Tie/<Eco>Range.v and Tie/Loops/<Eco>.v prove each translation equal to the model the theorems
   above speak about (and, for the loop functions: no panic, termination within a linear bound).
   If the code changes so that a tie no longer holds, this file no longer checks. *)
Require Verif.Tie.Alpine.
Require Verif.Tie.AlpineRange.
Require Verif.Tie.Alpm.
Require Verif.Tie.AlpmRange.
Require Verif.Tie.Apache.
Require Verif.Tie.ApacheRange.
Require Verif.Tie.Cargo.
Require Verif.Tie.CargoRange.
Require Verif.Tie.Composer.
Require Verif.Tie.Conan.
Require Verif.Tie.ConanRange.
Require Verif.Tie.Cran.
Require Verif.Tie.CranRange.
Require Verif.Tie.Debian.
Require Verif.Tie.DebianRange.
Require Verif.Tie.Gem.
Require Verif.Tie.GemRange.
Require Verif.Tie.Gentoo.
Require Verif.Tie.GentooRange.
Require Verif.Tie.Github.
Require Verif.Tie.GithubRange.
Require Verif.Tie.Golang.
Require Verif.Tie.GolangRange.
Require Verif.Tie.Hex.
Require Verif.Tie.HexRange.
Require Verif.Tie.Mattermost.
Require Verif.Tie.MattermostRange.
Require Verif.Tie.MavenRange.
Require Verif.Tie.Npm.
Require Verif.Tie.Nuget.
Require Verif.Tie.NugetRange.
Require Verif.Tie.Pypi.
Require Verif.Tie.PypiRange.
Require Verif.Tie.Rpm.
Require Verif.Tie.RpmRange.
Require Verif.Tie.Semver.
Definition C20_tie_alpine_compareInt := @Verif.Tie.Alpine.tie_alpine_compareInt.
Definition C20_tie_alpine_compareLetters := @Verif.Tie.Alpine.tie_alpine_compareLetters.
Definition C20_tie_alpine_VersionRange_String := @Verif.Tie.AlpineRange.tie_alpine_VersionRange_String.
Definition C20_tie_alpine_VersionRange_Contains := @Verif.Tie.AlpineRange.tie_alpine_VersionRange_Contains.
Definition C20_tie_alpm_compare := @Verif.Tie.Alpm.tie_alpm_compare.
Definition C20_tie_alpm_matches := @Verif.Tie.AlpmRange.tie_alpm_matches.
Definition C20_tie_alpm_matches_model := @Verif.Tie.AlpmRange.tie_alpm_matches_model.
Definition C20_tie_alpm_contains := @Verif.Tie.AlpmRange.tie_alpm_contains.
Definition C20_tie_apache_compareInt := @Verif.Tie.Apache.tie_apache_compareInt.
Definition C20_tie_apache_getQualifierPrecedence := @Verif.Tie.Apache.tie_apache_getQualifierPrecedence.
Definition C20_tie_apache_compare := @Verif.Tie.Apache.tie_apache_compare.
Definition C20_tie_apache_matches := @Verif.Tie.ApacheRange.tie_apache_matches.
Definition C20_tie_apache_matches_model := @Verif.Tie.ApacheRange.tie_apache_matches_model.
Definition C20_tie_apache_contains := @Verif.Tie.ApacheRange.tie_apache_contains.
Definition C20_tie_cargo_compareInt := @Verif.Tie.Cargo.tie_cargo_compareInt.
Definition C20_tie_cargo_compare := @Verif.Tie.Cargo.tie_cargo_compare.
Definition C20_tie_cargo_caret := @Verif.Tie.CargoRange.tie_cargo_caret.
Definition C20_tie_cargo_tilde := @Verif.Tie.CargoRange.tie_cargo_tilde.
Definition C20_tie_cargo_satisfiesConstraint := @Verif.Tie.CargoRange.tie_cargo_satisfiesConstraint.
Definition C20_tie_composer_compareInt := @Verif.Tie.Composer.tie_composer_compareInt.
Definition C20_tie_composer_compare := @Verif.Tie.Composer.tie_composer_compare.
Definition C20_tie_conan_compareInt := @Verif.Tie.Conan.tie_conan_compareInt.
Definition C20_tie_conan_Version_Compare := @Verif.Tie.Conan.tie_conan_Version_Compare.
Definition C20_tie_conan_isOperator := @Verif.Tie.ConanRange.tie_conan_isOperator.
Definition C20_tie_conan_VersionRange_constraintSatisfied := @Verif.Tie.ConanRange.tie_conan_VersionRange_constraintSatisfied.
Definition C20_tie_conan_VersionRange_constraintSatisfied_model := @Verif.Tie.ConanRange.tie_conan_VersionRange_constraintSatisfied_model.
Definition C20_tie_conan_VersionRange_groupSatisfied := @Verif.Tie.ConanRange.tie_conan_VersionRange_groupSatisfied.
Definition C20_tie_conan_VersionRange_Contains := @Verif.Tie.ConanRange.tie_conan_VersionRange_Contains.
Definition C20_tie_conan_VersionRange_String := @Verif.Tie.ConanRange.tie_conan_VersionRange_String.
Definition C20_tie_cran_compareInt := @Verif.Tie.Cran.tie_cran_compareInt.
Definition C20_tie_cran_satisfiesConstraint := @Verif.Tie.CranRange.tie_cran_satisfiesConstraint.
Definition C20_tie_cran_contains := @Verif.Tie.CranRange.tie_cran_contains.
Definition C20_tie_cran_contains_model := @Verif.Tie.CranRange.tie_cran_contains_model.
Definition C20_tie_debian_compare := @Verif.Tie.Debian.tie_debian_compare.
Definition C20_tie_debian_satisfiesConstraint := @Verif.Tie.DebianRange.tie_debian_satisfiesConstraint.
Definition C20_tie_debian_satisfiesConstraint_model := @Verif.Tie.DebianRange.tie_debian_satisfiesConstraint_model.
Definition C20_tie_debian_contains := @Verif.Tie.DebianRange.tie_debian_contains.
Definition C20_tie_gem_compareInt := @Verif.Tie.Gem.tie_gem_compareInt.
Definition C20_tie_gem_compareSegments := @Verif.Tie.Gem.tie_gem_compareSegments.
Definition C20_tie_gem_VersionRange_String := @Verif.Tie.GemRange.tie_gem_VersionRange_String.
Definition C20_tie_gem_VersionRange_Contains := @Verif.Tie.GemRange.tie_gem_VersionRange_Contains.
Definition C20_tie_gentoo_compareInt := @Verif.Tie.Gentoo.tie_gentoo_compareInt.
Definition C20_tie_gentoo_matches := @Verif.Tie.GentooRange.tie_gentoo_matches.
Definition C20_tie_gentoo_contains := @Verif.Tie.GentooRange.tie_gentoo_contains.
Definition C20_tie_gentoo_contains_model := @Verif.Tie.GentooRange.tie_gentoo_contains_model.
Definition C20_tie_github_compareInt := @Verif.Tie.Github.tie_github_compareInt.
Definition C20_tie_github_getQualifierPrecedence := @Verif.Tie.Github.tie_github_getQualifierPrecedence.
Definition C20_tie_github_compareQualifiers := @Verif.Tie.Github.tie_github_compareQualifiers.
Definition C20_tie_github_compare := @Verif.Tie.Github.tie_github_compare.
Definition C20_tie_github_matches := @Verif.Tie.GithubRange.tie_github_matches.
Definition C20_tie_github_matches_model := @Verif.Tie.GithubRange.tie_github_matches_model.
Definition C20_tie_github_contains := @Verif.Tie.GithubRange.tie_github_contains.
Definition C20_tie_golang_compareInt := @Verif.Tie.Golang.tie_golang_compareInt.
Definition C20_tie_golang_Version_Compare := @Verif.Tie.Golang.tie_golang_Version_Compare.
Definition C20_tie_golang_VersionRange_String := @Verif.Tie.GolangRange.tie_golang_VersionRange_String.
Definition C20_tie_golang_VersionRange_Contains := @Verif.Tie.GolangRange.tie_golang_VersionRange_Contains.
Definition C20_tie_hex_compareInt := @Verif.Tie.Hex.tie_hex_compareInt.
Definition C20_tie_hex_compare := @Verif.Tie.Hex.tie_hex_compare.
Definition C20_tie_hex_matches := @Verif.Tie.HexRange.tie_hex_matches.
Definition C20_tie_hex_matches_model := @Verif.Tie.HexRange.tie_hex_matches_model.
Definition C20_tie_hex_contains := @Verif.Tie.HexRange.tie_hex_contains.
Definition C20_tie_mattermost_compareInt := @Verif.Tie.Mattermost.tie_mattermost_compareInt.
Definition C20_tie_mattermost_getQualifierPrecedence := @Verif.Tie.Mattermost.tie_mattermost_getQualifierPrecedence.
Definition C20_tie_mattermost_compare := @Verif.Tie.Mattermost.tie_mattermost_compare.
Definition C20_tie_mattermost_matches := @Verif.Tie.MattermostRange.tie_mattermost_matches.
Definition C20_tie_mattermost_matches_model := @Verif.Tie.MattermostRange.tie_mattermost_matches_model.
Definition C20_tie_mattermost_contains := @Verif.Tie.MattermostRange.tie_mattermost_contains.
Definition C20_tie_maven_satisfiesConstraint := @Verif.Tie.MavenRange.tie_maven_satisfiesConstraint.
Definition C20_tie_maven_contains := @Verif.Tie.MavenRange.tie_maven_contains.
Definition C20_tie_npm_compareInt := @Verif.Tie.Npm.tie_npm_compareInt.
Definition C20_tie_npm_compare := @Verif.Tie.Npm.tie_npm_compare.
Definition C20_tie_nuget_compareInt := @Verif.Tie.Nuget.tie_nuget_compareInt.
Definition C20_tie_nuget_compare := @Verif.Tie.Nuget.tie_nuget_compare.
Definition C20_tie_nuget_matches := @Verif.Tie.NugetRange.tie_nuget_matches.
Definition C20_tie_nuget_matches_model := @Verif.Tie.NugetRange.tie_nuget_matches_model.
Definition C20_tie_nuget_contains := @Verif.Tie.NugetRange.tie_nuget_contains.
Definition C20_tie_pypi_compareInt := @Verif.Tie.Pypi.tie_pypi_compareInt.
Definition C20_tie_pypi_normalizePrereleaseType := @Verif.Tie.Pypi.tie_pypi_normalizePrereleaseType.
Definition C20_tie_pypi_comparePrereleases := @Verif.Tie.Pypi.tie_pypi_comparePrereleases.
Definition C20_tie_pypi_comparePostReleases := @Verif.Tie.Pypi.tie_pypi_comparePostReleases.
Definition C20_tie_pypi_compareDevReleases := @Verif.Tie.Pypi.tie_pypi_compareDevReleases.
Definition C20_tie_pypi_Version_Compare := @Verif.Tie.Pypi.tie_pypi_Version_Compare.
Definition C20_tie_pypi_VersionRange_String := @Verif.Tie.PypiRange.tie_pypi_VersionRange_String.
Definition C20_tie_pypi_VersionRange_Contains := @Verif.Tie.PypiRange.tie_pypi_VersionRange_Contains.
Definition C20_tie_rpm_compare := @Verif.Tie.Rpm.tie_rpm_compare.
Definition C20_tie_rpm_satisfiesRPMConstraint := @Verif.Tie.RpmRange.tie_rpm_satisfiesRPMConstraint.
Definition C20_tie_rpm_satisfiesRPMConstraint_model := @Verif.Tie.RpmRange.tie_rpm_satisfiesRPMConstraint_model.
Definition C20_tie_rpm_contains := @Verif.Tie.RpmRange.tie_rpm_contains.
Definition C20_tie_semver_compareInt := @Verif.Tie.Semver.tie_semver_compareInt.
Definition C20_tie_semver_compare := @Verif.Tie.Semver.tie_semver_compare.
Definition C20_ties_all := (C20_tie_alpine_VersionRange_Contains, (C20_tie_alpine_VersionRange_String, (C20_tie_alpine_compareInt, (C20_tie_alpine_compareLetters, (C20_tie_alpm_compare, (C20_tie_alpm_contains, (C20_tie_alpm_matches, (C20_tie_alpm_matches_model, (C20_tie_apache_compare, (C20_tie_apache_compareInt, (C20_tie_apache_contains, (C20_tie_apache_getQualifierPrecedence, (C20_tie_apache_matches, (C20_tie_apache_matches_model, (C20_tie_cargo_caret, (C20_tie_cargo_compare, (C20_tie_cargo_compareInt, (C20_tie_cargo_satisfiesConstraint, (C20_tie_cargo_tilde, (C20_tie_composer_compare, (C20_tie_composer_compareInt, (C20_tie_conan_VersionRange_Contains, (C20_tie_conan_VersionRange_String, (C20_tie_conan_VersionRange_constraintSatisfied, (C20_tie_conan_VersionRange_constraintSatisfied_model, (C20_tie_conan_VersionRange_groupSatisfied, (C20_tie_conan_Version_Compare, (C20_tie_conan_compareInt, (C20_tie_conan_isOperator, (C20_tie_cran_compareInt, (C20_tie_cran_contains, (C20_tie_cran_contains_model, (C20_tie_cran_satisfiesConstraint, (C20_tie_debian_compare, (C20_tie_debian_contains, (C20_tie_debian_satisfiesConstraint, (C20_tie_debian_satisfiesConstraint_model, (C20_tie_gem_VersionRange_Contains, (C20_tie_gem_VersionRange_String, (C20_tie_gem_compareInt, (C20_tie_gem_compareSegments, (C20_tie_gentoo_compareInt, (C20_tie_gentoo_contains, (C20_tie_gentoo_contains_model, (C20_tie_gentoo_matches, (C20_tie_github_compare, (C20_tie_github_compareInt, (C20_tie_github_compareQualifiers, (C20_tie_github_contains, (C20_tie_github_getQualifierPrecedence, (C20_tie_github_matches, (C20_tie_github_matches_model, (C20_tie_golang_VersionRange_Contains, (C20_tie_golang_VersionRange_String, (C20_tie_golang_Version_Compare, (C20_tie_golang_compareInt, (C20_tie_hex_compare, (C20_tie_hex_compareInt, (C20_tie_hex_contains, (C20_tie_hex_matches, (C20_tie_hex_matches_model, (C20_tie_mattermost_compare, (C20_tie_mattermost_compareInt, (C20_tie_mattermost_contains, (C20_tie_mattermost_getQualifierPrecedence, (C20_tie_mattermost_matches, (C20_tie_mattermost_matches_model, (C20_tie_maven_contains, (C20_tie_maven_satisfiesConstraint, (C20_tie_npm_compare, (C20_tie_npm_compareInt, (C20_tie_nuget_compare, (C20_tie_nuget_compareInt, (C20_tie_nuget_contains, (C20_tie_nuget_matches, (C20_tie_nuget_matches_model, (C20_tie_pypi_VersionRange_Contains, (C20_tie_pypi_VersionRange_String, (C20_tie_pypi_Version_Compare, (C20_tie_pypi_compareDevReleases, (C20_tie_pypi_compareInt, (C20_tie_pypi_comparePostReleases, (C20_tie_pypi_comparePrereleases, (C20_tie_pypi_normalizePrereleaseType, (C20_tie_rpm_compare, (C20_tie_rpm_contains, (C20_tie_rpm_satisfiesRPMConstraint, (C20_tie_rpm_satisfiesRPMConstraint_model, (C20_tie_semver_compare, C20_tie_semver_compareInt))))))))))))))))))))))))))))))))))))))))))))))))))))))))))))))))))))))))))))))))))))))))).
Print Assumptions C20_ties_all.
(* ====== ties to the source: END ====== *)
