(* Properties/Support/AlpmC20.v — convexity (C20) across alpm's two pkgrel classes fails for the
   same reason as Compare-equality does: a version without pkgrel compares Eq with every pkgrel
   of the same pkgver. *)
From Verif.Base Require Import Bytes Ord.
From Verif.Eco Require Import Iface.
From Verif.Eco.Alpm Require Import Version Range Entry.

Lemma alpm_convexity_fails_across_classes :
  let e := Entry.entry in
  let rc := r_contains (e_r e) (self_vok e) (self_vcmp e) in
  self_vcmp e $"1.0-2" $"1.0" = Eq /\ self_vcmp e $"1.0" $"1.0-3" = Eq /\
  rc $">1.0-1" $"1.0-2" = Some true /\ rc $">1.0-1" $"1.0-3" = Some true /\
  rc $">1.0-1" $"1.0" = Some false.
Proof. vm_compute. repeat split; reflexivity. Qed.

(* ---------- within one pkgrel class convexity holds ---------- *)
From Verif.Base Require Import BytesFacts GoNum.
From Verif.Eco Require Import RangeCore RangeCoreFacts VLayer.
From Verif.Eco.Alpm Require Import VersionFacts.
From Verif.Properties.Support Require SimpleRops.

Lemma thenc_Eq_r c : thenc c Eq = c.
Proof. destruct c; reflexivity. Qed.

(* against a bound of the other class the pkgrel is not compared at all *)
Lemma cmp_core_other_class v x :
  c_has_pkgrel v <> c_has_pkgrel x -> cmp_core v x = cmp_nopkgrel v x.
Proof.
  intros H. rewrite cmp_core_refines. unfold cmp_pkgrel.
  destruct (c_has_pkgrel v), (c_has_pkgrel x); try congruence; simpl; apply thenc_Eq_r.
Qed.

Lemma le_nopkgrel a b : le_c (cmp_core a b) -> le_c (cmp_nopkgrel a b).
Proof.
  unfold le_c. rewrite cmp_core_refines. destruct (cmp_nopkgrel a b); simpl; congruence.
Qed.

Section Convex.
  Variable vparse : bytes -> option Alpm.Version.ver.

  Theorem alpm_convex_same_class (h : bool) (r : range) (a b c : Alpm.Version.ver) :
    c_has_pkgrel (v_core a) = h -> c_has_pkgrel (v_core b) = h -> c_has_pkgrel (v_core c) = h ->
    le_c (Alpm.Version.cmp a b) -> le_c (Alpm.Version.cmp b c) ->
    contains Alpm.Version.ver vparse Alpm.Version.cmp Alpm.Range.cfg r a = true -> contains Alpm.Version.ver vparse Alpm.Version.cmp Alpm.Range.cfg r c = true ->
    contains Alpm.Version.ver vparse Alpm.Version.cmp Alpm.Range.cfg r b = true.
  Proof.
    intros Ha Hb Hc Hab Hbc. unfold contains.
    induction (r_cs r) as [|k cs IH]; [reflexivity|]. cbn [forallb].
    rewrite !andb_true_iff. intros [A1 A2] [C1 C2]. split; [|apply IH; assumption].
    unfold sat_constraint in *. destruct (vparse (snd k)) as [x|]; [|discriminate].
    unfold Alpm.Version.cmp, VLayer.cmp in *. cbn [rc_sem Alpm.Range.cfg] in *.
    destruct (Bool.bool_dec (c_has_pkgrel (v_core x)) h) as [Hx|Hx].
    - (* the bound is in the class: Compare is the total preorder [cmp_class h] on the four *)
      rewrite (cmp_core_in_class h) in * by assumption.
      apply (sat_convex _ (cmp_class h) (cmp_class_tp h) _ (v_core x) (v_core a) (v_core b) (v_core c));
        auto. apply SimpleRops.sem5_convex.
    - (* the bound is in the other class: only epoch and pkgver are compared with it *)
      rewrite cmp_core_other_class in * by congruence.
      apply (sat_convex _ cmp_nopkgrel cmp_nopkgrel_tp _ (v_core x) (v_core a) (v_core b) (v_core c));
        auto using le_nopkgrel. apply SimpleRops.sem5_convex.
  Qed.
End Convex.
