(* Properties/Support/AlpmC20.v — convexity (C20) across alpm's two pkgrel classes fails for the
   same reason as Compare-equality does: a version without pkgrel compares Eq with every pkgrel
   of the same pkgver. *)
From Verif.Base Require Import Bytes Ord.
From Verif.Eco Require Import Iface.
From Verif.Eco.Alpm Require Import Version Range Entry.

Lemma alpm_convexity_fails_across_classes :
  let e := Entry.entry in
  let rc := r_contains (e_r e) (self_vok e) (self_vcmp e) in
  self_vcmp e $"1.0-2" $"1.0" = Eq /\ self_vcmp e $"1.0" $"1.0-3" = Eq /\
  rc $">1.0-1" $"1.0-2" = Some true /\ rc $">1.0-1" $"1.0-3" = Some true /\
  rc $">1.0-1" $"1.0" = Some false.
Proof. vm_compute. repeat split; reflexivity. Qed.
