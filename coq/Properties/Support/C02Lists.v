(* Properties/Support/C02Lists.v — C02 statements that were not written with the models:
   AND-lists for the [range_cfg] ecosystems whose separator is whitespace (alpine, github via the
   generic theorem of Eco/Apache/FieldsRangeFacts.v; alpm) or a comma (cran, debian, rpm), the
   single-comparator and bare statements for cran, and the comma conjunction of pypi.
   Everything is an instance of [simple_range_c02] (Eco/RangeCoreFacts.v) once the splitter is
   computed on the joined text. *)
From Coq Require Import Lia.
From Verif.Base Require Import Bytes BytesFacts GoNum Ord.
From Verif.Eco Require Import RangeCore RangeCoreFacts Iface VLayer VLayerFacts.
From Verif.Properties.Support Require Import SimpleRops.
From Verif.Eco.Apache Require FieldsFacts FieldsRangeFacts.
From Verif.Eco.Alpine Require Range RangeFacts Entry.
From Verif.Eco.Github Require Range RangeFacts Entry.
From Verif.Eco.Alpm Require Range RangeFacts Entry.
From Verif.Eco.Cran Require Range Entry.
From Verif.Eco.Debian Require Range RangeFacts Entry.
From Verif.Eco.Rpm Require Range RangeFacts Entry.
From Verif.Eco.Pypi Require DecFacts Range RangeFacts Entry.
From Verif.Eco.Cargo Require NumFacts RangeFacts.
From Verif.Gen Require Import Operators.

(* ---------- whitespace-separated lists: rc_split = strings.Fields ---------- *)
Section Fields.
  Variable cfg : range_cfg.
  Hypothesis Hsplit : rc_split cfg = split_fields.
  Hypothesis Hok : ops_ok (rc_ops cfg) = true.
  Variable vok : bytes -> bool.
  Variable vcmp : bytes -> bytes -> comparison.

  Theorem fields_c02_and cs v :
    cs <> [] -> Forall (con_ok cfg vok) cs -> vok v = true ->
    r_contains (mk_simple_rops cfg) vok vcmp (join $" " (map ctext cs)) v =
    Some (forallb (fun c => sat (rc_sem cfg (fst c)) (vcmp v (snd c))) cs).
  Proof.
    intros Hne HF Hv.
    destruct (Apache.FieldsRangeFacts.fields_c02_and bytes (oracle_parse vok) vcmp cfg Hsplit Hok cs Hne)
      as (rg & Hr & Hc).
    { rewrite Forall_forall in *. intros c Hc. apply con_ok_scope. auto. }
    unfold mk_simple_rops, r_contains. rewrite Hr, Hv, Hc. f_equal.
    apply forallb_oracle. assumption.
  Qed.
End Fields.

Definition alpine_c02_and := fields_c02_and Alpine.Range.cfg eq_refl Alpine.RangeFacts.alpine_ops_ok.
Definition github_c02_and := fields_c02_and Github.Range.cfg eq_refl Github.RangeFacts.github_ops_ok.

(* ---------- facts about joined texts ---------- *)
Definition word (s : bytes) : Prop := s <> [] /\ no_space s = true.
Definition no_comma (s : bytes) : bool := negb (contains_c ","%char s).

Lemma word_apache s : word s <-> Apache.FieldsFacts.word s.
Proof. unfold word, Apache.FieldsFacts.word, no_space, Apache.FieldsFacts.nospace. tauto. Qed.

Lemma Forall_word_apache l : Forall word l -> Forall Apache.FieldsFacts.word l.
Proof. intros H. eapply Forall_impl; [|exact H]. intros s. apply word_apache. Qed.

Lemma ctext_word cfg vok c :
  ops_ok (rc_ops cfg) = true -> con_ok cfg vok c -> word (ctext c).
Proof.
  intros Hok (Hin & (Hne & Hns & Hhd) & _). unfold ctext.
  pose proof (ops_ok_opchars _ Hok) as Hoc. rewrite forallb_forall in Hoc.
  split.
  - destruct (fst c); destruct (snd c); simpl; try discriminate. contradiction.
  - rewrite no_space_app, Hns, andb_true_r. apply opchars_no_space. auto.
Qed.

Lemma opchar_not_comma c : opchar c = true -> ceqb ","%char c = false.
Proof.
  unfold opchar. simpl. rewrite !orb_true_iff.
  intros H. repeat destruct H as [H|H]; try discriminate; apply ceqb_eq in H; subst; reflexivity.
Qed.

Lemma contains_c_app c a b : contains_c c (a ++ b) = contains_c c a || contains_c c b.
Proof. induction a as [|x a IH]; simpl; [reflexivity|]. rewrite IH. apply orb_assoc. Qed.

Lemma opchars_no_comma op : forallb opchar op = true -> no_comma op = true.
Proof.
  unfold no_comma. induction op as [|c op IH]; simpl; [reflexivity|].
  intros H. apply andb_true_iff in H. destruct H as [Hc H].
  rewrite (opchar_not_comma c Hc). simpl. auto.
Qed.

Lemma no_comma_app a b : no_comma (a ++ b) = no_comma a && no_comma b.
Proof. unfold no_comma. rewrite contains_c_app, negb_orb. reflexivity. Qed.

Lemma ctext_no_comma cfg vok c :
  ops_ok (rc_ops cfg) = true -> con_ok cfg vok c -> no_comma (snd c) = true -> no_comma (ctext c) = true.
Proof.
  intros Hok (Hin & _ & _) Hc. unfold ctext.
  pose proof (ops_ok_opchars _ Hok) as Hoc. rewrite forallb_forall in Hoc.
  rewrite no_comma_app, Hc, andb_true_r. apply opchars_no_comma. auto.
Qed.

Lemma join_cons2 (sep x y : bytes) l : join sep (x :: y :: l) = x ++ sep ++ join sep (y :: l).
Proof. reflexivity. Qed.

Lemma no_space_join_comma l : Forall word l -> no_space (join $"," l) = true.
Proof.
  induction l as [|x [|y l] IH]; intros HF; [reflexivity| |].
  - inversion HF as [|? ? [_ H] _]; subst. exact H.
  - inversion HF as [|? ? [_ H] HF']; subst. rewrite join_cons2.
    rewrite !no_space_app, H, (IH HF'). reflexivity.
Qed.

Lemma join_nonnil (sep : bytes) l : l <> [] -> Forall word l -> join sep l <> [].
Proof.
  intros Hne HF. destruct l as [|x [|y l]]; [contradiction| |].
  - inversion HF as [|? ? [H _] _]; subst. exact H.
  - inversion HF as [|? ? [H _] _]; subst. rewrite join_cons2. destruct x; [contradiction|discriminate].
Qed.

Lemma map_id_on {A} (f : A -> A) l : Forall (fun x => f x = x) l -> map f l = l.
Proof. induction 1; simpl; congruence. Qed.

Lemma filter_all {A} (p : A -> bool) l : Forall (fun x => p x = true) l -> filter p l = l.
Proof. induction 1 as [|x l Hx _ IH]; simpl; [reflexivity|]. rewrite Hx, IH. reflexivity. Qed.

Lemma split_comma_trim_join l :
  l <> [] -> Forall word l -> Forall (fun p => no_comma p = true) l ->
  split_comma_trim (join $"," l) = l.
Proof.
  intros Hne HW HC. unfold split_comma_trim. change ($",") with [","%char].
  rewrite (Pypi.DecFacts.split_join ","%char l Hne).
  - rewrite map_id_on.
    + apply filter_all. eapply Forall_impl; [|exact HW]. intros s [H _]. destruct s; [contradiction|reflexivity].
    + eapply Forall_impl; [|exact HW]. intros s [_ H]. apply trim_space_no_space. exact H.
  - apply forallb_forall. intros x Hx. rewrite Forall_forall in HC. apply (HC x Hx).
Qed.

(* ---------- comma-separated lists: rc_split = split_comma_trim (cran, debian) ---------- *)
Section Comma.
  Variable cfg : range_cfg.
  Hypothesis Hsplit : rc_split cfg = split_comma_trim.
  Hypothesis Hok : ops_ok (rc_ops cfg) = true.
  Variable vok : bytes -> bool.
  Variable vcmp : bytes -> bytes -> comparison.

  Definition comma_con_ok (c : constraint) : Prop := con_ok cfg vok c /\ no_comma (snd c) = true.

  Lemma comma_texts cs :
    Forall comma_con_ok cs ->
    Forall word (map ctext cs) /\ Forall (fun p => no_comma p = true) (map ctext cs) /\
    Forall (con_ok cfg vok) cs.
  Proof.
    induction 1 as [|c cs [H1 H2] _ (IH1 & IH2 & IH3)]; [repeat split; constructor|].
    repeat split; constructor; auto.
    - apply (ctext_word cfg vok c Hok H1).
    - apply (ctext_no_comma cfg vok c Hok H1 H2).
  Qed.

  Theorem comma_c02_and cs v :
    cs <> [] -> Forall comma_con_ok cs -> vok v = true ->
    r_contains (mk_simple_rops cfg) vok vcmp (join $"," (map ctext cs)) v =
    Some (forallb (fun c => sat (rc_sem cfg (fst c)) (vcmp v (snd c))) cs).
  Proof.
    intros Hne HF Hv. destruct (comma_texts cs HF) as (HW & HC & HO).
    assert (Hm : map ctext cs <> []) by (destruct cs; [contradiction|discriminate]).
    assert (Ht : trim_space (join $"," (map ctext cs)) = join $"," (map ctext cs))
      by (apply trim_space_no_space, no_space_join_comma, HW).
    apply (simple_c02_list cfg vok vcmp Hok); auto.
    - rewrite Ht. apply join_nonnil; assumption.
    - rewrite Ht, Hsplit. apply split_comma_trim_join; assumption.
  Qed.

  Lemma comma_split_single s :
    s <> [] -> no_space s = true -> no_comma s = true -> rc_split cfg s = [s].
  Proof.
    intros Hne Hns Hnc. rewrite Hsplit.
    apply (split_comma_trim_join [s]); [discriminate| |]; constructor; auto. split; assumption.
  Qed.

  Theorem comma_c02_single op a v :
    In op (rc_ops cfg) -> bound_in_scope a -> no_comma a = true ->
    vok a = true -> vok v = true ->
    r_contains (mk_simple_rops cfg) vok vcmp (op ++ a) v = Some (sat (rc_sem cfg op) (vcmp v a)).
  Proof.
    intros Hin Hsc Hnc Ha Hv. apply (simple_c02_single cfg vok vcmp Hok); auto.
    assert (W : word (ctext (op, a)) /\ no_comma (ctext (op, a)) = true).
    { split; [apply (ctext_word cfg vok (op, a) Hok)|apply (ctext_no_comma cfg vok (op, a) Hok)];
        try (repeat split; auto; apply Hsc); exact Hnc. }
    destruct W as [[W1 W2] W3]. apply comma_split_single; assumption.
  Qed.

  Theorem comma_c02_bare a v :
    bound_in_scope a -> no_comma a = true -> vok a = true -> vok v = true ->
    r_contains (mk_simple_rops cfg) vok vcmp a v = Some (sat (rc_sem cfg $"=") (vcmp v a)).
  Proof.
    intros Hsc Hnc Ha Hv. apply (simple_c02_bare cfg vok vcmp Hok); auto.
    destruct Hsc as (Hne & Hns & _). apply comma_split_single; assumption.
  Qed.
End Comma.

Lemma cran_ops_ok : ops_ok cran_ops = true.
Proof. vm_compute. reflexivity. Qed.

Definition cran_c02 := comma_c02_single Cran.Range.cfg eq_refl cran_ops_ok.
Definition cran_c02_bare := comma_c02_bare Cran.Range.cfg eq_refl cran_ops_ok.
Definition cran_c02_and := comma_c02_and Cran.Range.cfg eq_refl cran_ops_ok.
Definition debian_c02_and := comma_c02_and Debian.Range.cfg eq_refl Debian.RangeFacts.debian_ops_ok.

(* ---------- rpm: commas become spaces, strings.Fields ---------- *)
Section Rpm.
  Variable vok : bytes -> bool.
  Variable vcmp : bytes -> bytes -> comparison.
  Notation cfg := Rpm.Range.cfg.

  Lemma word_rpm s : word s <-> Rpm.RangeFacts.word s.
  Proof. unfold word, Rpm.RangeFacts.word. tauto. Qed.

  Theorem rpm_c02_and cs v :
    cs <> [] -> Forall (comma_con_ok cfg vok) cs -> vok v = true ->
    r_contains Rpm.Entry.r vok vcmp (join $"," (map ctext cs)) v =
    Some (forallb (fun c => sat (sem6 (fst c)) (vcmp v (snd c))) cs).
  Proof.
    intros Hne HF Hv.
    destruct (comma_texts cfg Rpm.RangeFacts.rpm_ops_ok vok cs HF) as (HW & HC & HO).
    assert (Hm : map ctext cs <> []) by (destruct cs; [contradiction|discriminate]).
    assert (Ht : trim_space (join $"," (map ctext cs)) = join $"," (map ctext cs))
      by (apply trim_space_no_space, no_space_join_comma, HW).
    apply (simple_c02_list cfg vok vcmp Rpm.RangeFacts.rpm_ops_ok); auto.
    - rewrite Ht. apply join_nonnil; assumption.
    - rewrite Ht. apply Rpm.RangeFacts.split_rpm_join.
      + eapply Forall_impl; [|exact HW]. intros s. apply word_rpm.
      + exact HC.
  Qed.
End Rpm.

(* ---------- alpm: strings.Fields, the word "and" skipped ---------- *)
Section Alpm.
  Variable vok : bytes -> bool.
  Variable vcmp : bytes -> bytes -> comparison.
  Notation cfg := Alpm.Range.cfg.

  Theorem alpm_c02_and cs v :
    cs <> [] -> Forall (con_ok cfg vok) cs -> vok v = true ->
    r_contains Alpm.Entry.r vok vcmp (join $" " (map ctext cs)) v =
    Some (forallb (fun c => sat (sem5 (fst c)) (vcmp v (snd c))) cs).
  Proof.
    intros Hne HF Hv.
    assert (HW : Forall word (map ctext cs)).
    { apply Forall_forall. intros x Hx. apply in_map_iff in Hx. destruct Hx as (c & <- & Hc).
      rewrite Forall_forall in HF. apply (ctext_word cfg vok c Alpm.RangeFacts.alpm_ops_ok (HF c Hc)). }
    assert (Hm : map ctext cs <> []) by (destruct cs; [contradiction|discriminate]).
    pose proof (Apache.FieldsFacts.trim_space_join _ (Forall_word_apache _ HW)) as Ht.
    apply (simple_c02_list cfg vok vcmp Alpm.RangeFacts.alpm_ops_ok); auto.
    - rewrite Ht. apply Apache.FieldsFacts.join_words_nonempty; [assumption|apply Forall_word_apache, HW].
    - rewrite Ht. cbn [rc_split Alpm.Range.cfg]. unfold split_fields_no_and.
      rewrite (Apache.FieldsFacts.fields_join _ (Forall_word_apache _ HW)).
      apply filter_all. apply Forall_forall. intros x Hx. apply in_map_iff in Hx.
      destruct Hx as (c & <- & Hc). rewrite Forall_forall in HF. destruct (HF c Hc) as (Hin & _).
      pose proof (Alpm.RangeFacts.op_text_not_and (fst c) (snd c) Hin) as E.
      unfold Alpm.RangeFacts.is_and in E. unfold ctext. rewrite E. reflexivity.
  Qed.
End Alpm.

(* ---------- pypi: comma conjunction of two accepted specifiers ---------- *)
Section Pypi.
  Variable vok : bytes -> bool.
  Variable vcmp : bytes -> bytes -> comparison.

  Lemma split_c_app_sep sep a b :
    split_c sep (a ++ sep :: b) = split_c sep a ++ split_c sep b.
  Proof.
    induction a as [|x a IH]; simpl.
    - rewrite ceqb_refl. reflexivity.
    - rewrite IH. destruct (ceqb sep x); [reflexivity|].
      destruct (split_c sep a) as [|f fs] eqn:E; [|reflexivity].
      destruct a; simpl in E; [discriminate|].
      destruct (ceqb sep a); [discriminate|]. destruct (split_c sep a0); discriminate.
  Qed.

  Lemma pypi_parse_parts_app l1 l2 :
    Pypi.Range.parse_parts vok (l1 ++ l2) =
    match Pypi.Range.parse_parts vok l1, Pypi.Range.parse_parts vok l2 with
    | Some c1, Some c2 => Some (c1 ++ c2)
    | _, _ => None
    end.
  Proof.
    induction l1 as [|p l1 IH]; simpl.
    - destruct (Pypi.Range.parse_parts vok l2); reflexivity.
    - destruct (Pypi.Range.parse_single vok p) as [cs|]; [|reflexivity].
      rewrite IH. destruct (Pypi.Range.parse_parts vok l1) as [c1|]; [|reflexivity].
      destruct (Pypi.Range.parse_parts vok l2) as [c2|]; [|reflexivity].
      rewrite app_assoc. reflexivity.
  Qed.

  Theorem pypi_c02_and a b ra rb :
    Cargo.NumFacts.trimmed_b a = true -> Cargo.NumFacts.trimmed_b b = true ->
    Pypi.Range.parse_range vok a = Some ra -> Pypi.Range.parse_range vok b = Some rb ->
    exists r, Pypi.Range.parse_range vok (a ++ $"," ++ b) = Some r /\
      forall v, Pypi.Range.contains vok vcmp r v =
                Pypi.Range.contains vok vcmp ra v && Pypi.Range.contains vok vcmp rb v.
  Proof.
    intros Ta Tb Ha Hb.
    pose proof (Cargo.NumFacts.trim_space_trimmed a Ta) as Ea.
    pose proof (Cargo.NumFacts.trim_space_trimmed b Tb) as Eb.
    assert (Tab : trim_space (a ++ $"," ++ b) = a ++ $"," ++ b).
    { apply Cargo.NumFacts.trim_space_trimmed. apply Cargo.RangeFacts.trimmed_b_app; assumption. }
    unfold Pypi.Range.parse_range in *. rewrite Ea in Ha. rewrite Eb in Hb. rewrite Tab.
    destruct a as [|a0 a']; [discriminate|]. destruct b as [|b0 b']; [discriminate|].
    unfold Pypi.Range.parse_specifier in *.
    change ((a0 :: a') ++ $"," ++ b0 :: b') with ((a0 :: a') ++ ","%char :: b0 :: b').
    rewrite split_c_app_sep, pypi_parse_parts_app.
    destruct (Pypi.Range.parse_parts vok (split_c ","%char (a0 :: a'))) as [c1|]; [|discriminate].
    destruct (Pypi.Range.parse_parts vok (split_c ","%char (b0 :: b'))) as [c2|]; [|discriminate].
    injection Ha as <-. injection Hb as <-. cbn [app].
    eexists. split; [reflexivity|]. intros v. unfold Pypi.Range.contains. cbn [Pypi.Range.r_cs].
    apply forallb_app.
  Qed.
End Pypi.
