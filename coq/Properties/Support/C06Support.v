(* Properties/Support/C06Support.v — small lemmas for Properties/C06.v:
   - for a version layer built by [mk_vops], Compare is defined exactly on pairs of accepted texts;
   - the fuel of the two fuelled scanners that had no fuel lemma yet ([split_sub_fuel] of
     Base/Bytes.v and the reference scanner [Pep440.scan_release]) is immaterial once it
     exceeds the length of the input. *)
From Coq Require Import List NArith Bool Lia.
From Verif.Base Require Import Bytes GoNum.
From Verif.Eco Require Import VLayer Iface.
From Verif.Spec Require Pep440.
Import ListNotations.

(* ---------- parse and compare have the same domain ---------- *)

Lemma mk_vops_domain C (parse_core : bytes -> option C) (cmp_core : C -> C -> comparison)
      (raw_orig : bool) (a b : bytes) :
  let V := mk_vops parse_core cmp_core raw_orig in
  v_cmp V a b <> None <-> (v_show V a <> None /\ v_show V b <> None).
Proof.
  cbn [mk_vops v_cmp v_show].
  destruct (VLayer.parse parse_core raw_orig a); destruct (VLayer.parse parse_core raw_orig b);
    cbn [option_map]; split; intros H; try (destruct H as [H1 H2]); try split; congruence.
Qed.

(* acceptance depends on the trimmed text only, and String() is defined iff accepted *)
Lemma mk_vops_show_iff C (parse_core : bytes -> option C) (cmp_core : C -> C -> comparison)
      (raw_orig : bool) (s : bytes) :
  v_show (mk_vops parse_core cmp_core raw_orig) s <> None <-> parse_core (trim_space s) <> None.
Proof.
  cbn [mk_vops v_show]. unfold VLayer.parse.
  destruct (parse_core (trim_space s)); cbn [option_map]; split; congruence.
Qed.

(* ---------- strings.Split with a non-empty separator ---------- *)

Lemma skipn_length_le {A} n (l : list A) : (length (skipn n l) <= length l)%nat.
Proof. rewrite skipn_length. lia. Qed.

Lemma cut_after_length sep : sep <> [] -> forall s a b,
  cut sep s = Some (a, b) -> (length b < length s)%nat.
Proof.
  intros Hsep. induction s as [|c s IH]; intros a b.
  - cbn [cut]. destruct sep as [|x sep]; [contradiction|]. cbn [has_prefix]. discriminate.
  - cbn [cut]. destruct (has_prefix sep (c :: s)) eqn:Hp.
    + intros H. injection H as _ <-.
      destruct sep as [|x sep]; [contradiction|].
      cbn [length skipn]. pose proof (skipn_length_le (length sep) s). lia.
    + destruct (cut sep s) as [[a' b']|] eqn:E; [|discriminate].
      intros H. injection H as _ <-. specialize (IH a' b' eq_refl). cbn [length]. lia.
Qed.

Lemma split_sub_fuel_indep sep : sep <> [] -> forall f1 f2 s,
  (length s < f1)%nat -> (length s < f2)%nat -> split_sub_fuel f1 sep s = split_sub_fuel f2 sep s.
Proof.
  intros Hsep. induction f1 as [|f1 IH]; intros f2 s H1 H2; [lia|].
  destruct f2 as [|f2]; [lia|]. cbn [split_sub_fuel].
  destruct (cut sep s) as [[a b]|] eqn:E; [|reflexivity].
  pose proof (cut_after_length sep Hsep s a b E). f_equal. apply IH; lia.
Qed.

Lemma split_sub_fuel_suffices sep s k :
  sep <> [] -> split_sub_fuel (S (length s) + k) sep s = split_sub sep s.
Proof. intros Hsep. unfold split_sub. apply split_sub_fuel_indep; [exact Hsep | lia | lia]. Qed.

(* ---------- Pep440.scan_release ---------- *)

Lemma drop_while_length p (s : bytes) : (length (drop_while p s) <= length s)%nat.
Proof. induction s as [|c s IH]; cbn [drop_while length]; [lia|]. destruct (p c); cbn [length]; lia. Qed.

Lemma scan_num_length s n r : Pep440.scan_num s = Some (n, r) -> (length r <= length s)%nat.
Proof.
  unfold Pep440.scan_num. destruct (take_while is_digit s); [discriminate|].
  intros H. injection H as _ <-. apply drop_while_length.
Qed.

Lemma scan_release_fuel_indep : forall f1 f2 s,
  (length s < f1)%nat -> (length s < f2)%nat -> Pep440.scan_release f1 s = Pep440.scan_release f2 s.
Proof.
  induction f1 as [|f1 IH]; intros f2 s H1 H2; [lia|].
  destruct f2 as [|f2]; [lia|]. cbn [Pep440.scan_release].
  destruct (Pep440.scan_num s) as [[n r]|] eqn:E; [|reflexivity].
  pose proof (scan_num_length s n r E) as L.
  destruct r as [|dot [|c r']]; try reflexivity.
  destruct (ceqb dot "."%char && is_digit c); [|reflexivity].
  cbn [length] in L. rewrite (IH f2 (c :: r')); [reflexivity | cbn [length]; lia | cbn [length]; lia].
Qed.

(* with the fuel the reference uses, a [None] is never caused by the fuel: one more unit of
   fuel, or any larger amount, gives the same answer *)
Lemma scan_release_fuel_suffices s k :
  Pep440.scan_release (S (length s) + k) s = Pep440.scan_release (S (length s)) s.
Proof. apply scan_release_fuel_indep; lia. Qed.
