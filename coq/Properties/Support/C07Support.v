(* Properties/Support/C07Support.v — glue for Properties/C07.v.  Nothing new is proved here
   about any ecosystem: the lemmas of Base/Sorting.v are repackaged into one statement with
   no auxiliary definitions, a total preorder on a subset is restricted to a smaller subset,
   and the total preorder on parsed VALUES is transported to version TEXTS (the level at
   which the CLI sorts). *)
From Coq Require Import List Permutation Sorted.
From Verif.Base Require Import Bytes Ord Sorting.
From Verif.Vers Require Import Model.
From Verif.Eco Require Import VLayer Iface.
Import ListNotations.

Lemma TPO_weaken A (P Q : A -> Prop) (cmp : A -> A -> comparison) :
  (forall a, Q a -> P a) -> TotalPreorderOn P cmp -> TotalPreorderOn Q cmp.
Proof.
  intros W T. constructor.
  - intros a Qa. apply (tpo_refl T); auto.
  - intros a b Qa Qb. apply (tpo_anti T); auto.
  - intros a b c x Qa Qb Qc. apply (tpo_trans T); auto.
  - intros a b c Qa Qb Qc. apply (tpo_eq_l T); auto.
Qed.

(* the whole of C07 for one comparison, on a subset P *)
Theorem sort_spec_on A (P : A -> Prop) (cmp : A -> A -> comparison) :
  TotalPreorderOn P cmp ->
  forall l, Forall P l ->
    Permutation (isort cmp l) l /\
    Sorted (fun x y => cmp x y <> Gt) (isort cmp l) /\
    (forall l', Permutation l l' ->
       Forall2 (fun x y => cmp x y = Eq) (isort cmp l) (isort cmp l')) /\
    (forall out, Permutation out l -> Sorted (fun x y => cmp x y <> Gt) out ->
       Forall2 (fun x y => cmp x y = Eq) out (isort cmp l)).
Proof.
  intros T l Pl. split; [apply isort_perm|]. split; [|split].
  - apply (isort_sorted_on A P cmp T l Pl).
  - intros l' Hp. apply (isort_perm_classes_on A P cmp T l l' Pl Hp).
  - intros out Hp HS. apply (any_sort_agrees_with_isort_on A P cmp T l out Pl Hp HS).
Qed.

Theorem sort_spec A (cmp : A -> A -> comparison) :
  TotalPreorder cmp ->
  forall l,
    Permutation (isort cmp l) l /\
    Sorted (fun x y => cmp x y <> Gt) (isort cmp l) /\
    (forall l', Permutation l l' ->
       Forall2 (fun x y => cmp x y = Eq) (isort cmp l) (isort cmp l')) /\
    (forall out, Permutation out l -> Sorted (fun x y => cmp x y <> Gt) out ->
       Forall2 (fun x y => cmp x y = Eq) out (isort cmp l)).
Proof.
  intros T l. apply (sort_spec_on A (fun _ => True) cmp (TPO_of_TP A _ cmp T)).
  apply Forall_forall. intros; exact I.
Qed.

(* ---------- from parsed values to version texts ---------- *)

Section Texts.
  Variable C : Type.
  Variable parse_core : bytes -> option C.
  Variable cmp_core : C -> C -> comparison.
  Variable raw_orig : bool.
  Variable P : VLayer.ver C -> Prop.
  Hypothesis parse_P : forall s v, VLayer.parse parse_core raw_orig s = Some v -> P v.
  Hypothesis T : TotalPreorderOn P (VLayer.cmp cmp_core).

  Let V : vops := mk_vops parse_core cmp_core raw_orig.
  Let tok (s : bytes) : bool := match v_show V s with Some _ => true | None => false end.
  Let tcmp (a b : bytes) : comparison := match v_cmp V a b with Some c => c | None => Eq end.

  Lemma tok_inv s : tok s = true ->
    exists v, VLayer.parse parse_core raw_orig s = Some v /\ P v.
  Proof.
    unfold tok, V, mk_vops. cbn [v_show].
    destruct (VLayer.parse parse_core raw_orig s) as [v|] eqn:E; [|discriminate].
    intros _. exists v. split; [reflexivity|]. eapply parse_P; exact E.
  Qed.

  Lemma texts_tpo : TotalPreorderOn (fun s => tok s = true) tcmp.
  Proof.
    assert (K : forall a b va vb,
      VLayer.parse parse_core raw_orig a = Some va -> VLayer.parse parse_core raw_orig b = Some vb ->
      tcmp a b = VLayer.cmp cmp_core va vb).
    { intros a b va vb Ha Hb. unfold tcmp, V, mk_vops. cbn [v_cmp]. rewrite Ha, Hb. reflexivity. }
    constructor.
    - intros a Ha. destruct (tok_inv a Ha) as [va [Ea Pa]].
      rewrite (K a a va va Ea Ea). apply (tpo_refl T); assumption.
    - intros a b Ha Hb. destruct (tok_inv a Ha) as [va [Ea Pa]]. destruct (tok_inv b Hb) as [vb [Eb Pb]].
      rewrite (K b a vb va Eb Ea), (K a b va vb Ea Eb). apply (tpo_anti T); assumption.
    - intros a b c x Ha Hb Hc.
      destruct (tok_inv a Ha) as [va [Ea Pa]]. destruct (tok_inv b Hb) as [vb [Eb Pb]].
      destruct (tok_inv c Hc) as [vc [Ec Pc]].
      rewrite (K a b va vb Ea Eb), (K b c vb vc Eb Ec), (K a c va vc Ea Ec).
      apply (tpo_trans T); assumption.
    - intros a b c Ha Hb Hc.
      destruct (tok_inv a Ha) as [va [Ea Pa]]. destruct (tok_inv b Hb) as [vb [Eb Pb]].
      destruct (tok_inv c Hc) as [vc [Ec Pc]].
      rewrite (K a b va vb Ea Eb), (K b c vb vc Eb Ec), (K a c va vc Ea Ec).
      apply (tpo_eq_l T); assumption.
  Qed.
End Texts.

(* for an ecosystem entry whose version layer is a [mk_vops] *)
Lemma self_tpo C (parse_core : bytes -> option C) cmp_core raw_orig (P : VLayer.ver C -> Prop) (e : eco) :
  e_v e = mk_vops parse_core cmp_core raw_orig ->
  (forall s v, VLayer.parse parse_core raw_orig s = Some v -> P v) ->
  TotalPreorderOn P (VLayer.cmp cmp_core) ->
  TotalPreorderOn (fun s => self_vok e s = true) (self_vcmp e).
Proof.
  intros E HP T. unfold self_vok, self_vcmp. rewrite E.
  exact (texts_tpo C parse_core cmp_core raw_orig P HP T).
Qed.

Lemma self_tp C (parse_core : bytes -> option C) cmp_core raw_orig (e : eco) :
  e_v e = mk_vops parse_core cmp_core raw_orig ->
  TotalPreorder (VLayer.cmp cmp_core) ->
  TotalPreorderOn (fun s => self_vok e s = true) (self_vcmp e).
Proof.
  intros E T. apply (self_tpo C parse_core cmp_core raw_orig (fun _ => True) e E).
  - intros; exact I.
  - apply TPO_of_TP, T.
Qed.
