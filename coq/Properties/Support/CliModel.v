(* Properties/Support/CliModel.v — glue between the parametric CLI facts (Cli/Facts.v, valid
   for ANY library) and the end-to-end model [Top.model_cli], whose library is the list of
   ecosystem models of Eco/All.v.  Used by Properties/C07.v and Properties/C15.v. *)
From Coq Require Import List Bool.
From Verif.Base Require Import Bytes BytesFacts.
From Verif.Eco Require Import Iface All.
From Verif.Vers Require Import Model.
From Verif.Cli Require Import Model Facts.
From Verif.Gen Require Import Registry.
From Verif Require Import Top.
Import ListNotations.

Lemma model_lib_of name e :
  find_eco name ecosystems = Some e ->
  model_lib name = {|
    l_name := name;
    l_vok := self_vok e;
    l_vshow := fun s => match v_show (e_v e) s with Some t => t | None => [] end;
    l_vcmp := self_vcmp e;
    l_rok := fun r => match r_show (e_r e) (self_vok e) r with Some _ => true | None => false end;
    l_rcontains := fun r v => match r_contains (e_r e) (self_vok e) (self_vcmp e) r v with
                              | Some b => b | None => false end |}.
Proof. intros H. unfold model_lib, eco_or_none. rewrite H. reflexivity. Qed.

Lemma find_eco_name name l e : find_eco name l = Some e -> e_name e = name.
Proof.
  induction l as [|x l IH]; cbn [find_eco]; [discriminate|].
  destruct (beq name (e_name x)) eqn:E.
  - intros H. injection H as <-. symmetry. apply beq_eq, E.
  - exact IH.
Qed.

(* every name the library defines (= every key of the CLI registry) has an ecosystem model *)
Lemma library_names_modelled name :
  In name library_names -> exists e, find_eco name ecosystems = Some e /\ e_name e = name.
Proof.
  assert (H : forallb (fun n => match find_eco n ecosystems with Some _ => true | None => false end)
                      library_names = true) by (vm_compute; reflexivity).
  rewrite forallb_forall in H. intros Hin. specialize (H name Hin).
  destruct (find_eco name ecosystems) as [e|] eqn:E; [|discriminate].
  exists e. split; [reflexivity | eapply find_eco_name; exact E].
Qed.

(* and the list of models has exactly those names *)
Lemma ecosystems_names_are_library_names :
  forall e, In e ecosystems -> In (e_name e) library_names.
Proof.
  assert (H : forallb (fun n => mem n library_names) (map e_name ecosystems) = true)
    by (vm_compute; reflexivity).
  rewrite forallb_forall in H. intros e He. apply mem_In. apply H. apply in_map, He.
Qed.
