(* Properties/Support/ComposerC20.v — the convexity half of C20 fails for composer's caret: a
   caret with a stable base rejects every non-stable version inside its interval (finding
   F-composer-caret-stability; witness of known_findings.json and a second one). *)
From Verif.Base Require Import Bytes Ord.
From Verif.Eco Require Import Iface.
From Verif.Eco.Composer Require Import Version Range Entry.

Lemma composer_convexity_refuted :
  let e := Entry.entry in
  let rc := r_contains (e_r e) (self_vok e) (self_vcmp e) in
  self_vcmp e $"1.10" $"1.10.1-beta1" = Lt /\ self_vcmp e $"1.10.1-beta1" $"1.1000" = Lt /\
  rc $"^1.10" $"1.10" = Some true /\ rc $"^1.10" $"1.1000" = Some true /\
  rc $"^1.10" $"1.10.1-beta1" = Some false /\
  self_vcmp e $"1.2.3" $"1.5.0-beta" = Lt /\ self_vcmp e $"1.5.0-beta" $"1.9.0" = Lt /\
  rc $"^1.2.3" $"1.2.3" = Some true /\ rc $"^1.2.3" $"1.9.0" = Some true /\
  rc $"^1.2.3" $"1.5.0-beta" = Some false.
Proof. vm_compute. repeat split; reflexivity. Qed.
