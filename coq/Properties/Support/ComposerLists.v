(* Properties/Support/ComposerLists.v — C02 for composer's connectives: two single constraints
   (texts without whitespace, comma and bar) joined by a space or a comma contain the
   intersection, joined by "||" the union.  Instantiated with comparators this is the AND / OR
   clause of C02. *)
From Coq Require Import Lia.
From Verif.Base Require Import Bytes GoNum Ord BytesFacts.
From Verif.Eco Require Import RangeCore Iface.
From Verif.Eco.Composer Require Import PrefixFacts Version Range VersionFacts RangeFacts.
From Verif.Eco.Composer Require Entry.
From Verif.Eco.Npm Require StrFacts RangeFacts.

Lemma replace_c_lacks a b s : lacks a s = true -> replace_c a b s = s.
Proof.
  unfold replace_c, lacks. induction s as [|c s IH]; [reflexivity|]. simpl.
  intros H. apply andb_true_iff in H. destruct H as [Hc H]. apply negb_true_iff in Hc.
  rewrite Hc, (IH H). reflexivity.
Qed.

Lemma replace_c_app a b x y : replace_c a b (x ++ y) = replace_c a b x ++ replace_c a b y.
Proof. unfold replace_c. apply map_app. Qed.

Lemma nospace_no_sp s : nospace s = true -> Npm.StrFacts.no_sp s = true.
Proof. intros H. exact H. Qed.

Lemma contains_c_false_lacks x s : lacks x s = true -> contains_c x s = false.
Proof. apply lacks_contains. Qed.

Section Lists.
  Variable vok : bytes -> bool.
  Variable vcmp : bytes -> bytes -> comparison.
  Notation rcontains := (r_contains Composer.Entry.r vok vcmp).

  (* a simple text is handed to parseSingleConstraint as it is *)
  Lemma parse_one_simple s : simple s = true -> parse_one vok s = parse_single vok s.
  Proof.
    intros H. destruct (simple_facts s H) as (Hne & Hsp & Hco & Hba).
    unfold parse_one. cbn [list_ascii_of_string]. rewrite (trim_space_nospace s Hsp).
    rewrite (contains_sub_none " "%char _ s (nospace_lacks_space s Hsp)).
    rewrite (lacks_contains " "%char s (nospace_lacks_space s Hsp)).
    rewrite (lacks_contains ","%char s Hco). reflexivity.
  Qed.

  (* the joined text [a ++ sep :: b], sep a space or a comma *)
  Lemma joined_facts a sep b :
    simple a = true -> simple b = true -> sep = " "%char \/ sep = ","%char ->
    trim_space (a ++ sep :: b) = a ++ sep :: b /\
    a ++ sep :: b <> [] /\
    lacks "|"%char (a ++ sep :: b) = true /\
    fields (replace_c ","%char " "%char (a ++ sep :: b)) = [a; b] /\
    contains_sub $" - " (a ++ sep :: b) = false /\
    contains_c " "%char (a ++ sep :: b) || contains_c ","%char (a ++ sep :: b) = true.
  Proof.
    intros Ha Hb Hsep.
    destruct (simple_facts a Ha) as (Hane & Hasp & Haco & Haba).
    destruct (simple_facts b Hb) as (Hbne & Hbsp & Hbco & Hbba).
    assert (Hsepbar : negb (ceqb "|"%char sep) = true) by (destruct Hsep; subst; reflexivity).
    repeat split.
    - apply Npm.StrFacts.trim_space_ends.
      + apply Npm.StrFacts.hd_nonspace_app. apply Npm.StrFacts.no_sp_hd; assumption.
      + change (a ++ sep :: b) with (a ++ [sep] ++ b). rewrite app_assoc.
        apply Npm.StrFacts.last_nonspace_app. apply Npm.StrFacts.no_sp_last; assumption.
    - destruct a; [contradiction|discriminate].
    - rewrite lacks_app, Haba. simpl. rewrite Hsepbar, Hbba. reflexivity.
    - rewrite replace_c_app. simpl.
      rewrite (replace_c_lacks _ _ a Haco), (replace_c_lacks _ _ b Hbco).
      assert (Hs : is_space (if ceqb ","%char sep then " "%char else sep) = true)
        by (destruct Hsep; subst; reflexivity).
      apply Npm.StrFacts.fields_two; assumption.
    - change ($" - ") with [" "%char; "-"%char; " "%char]. unfold contains_sub. destruct Hsep; subst.
      + rewrite (Npm.RangeFacts.cut_space_dash a b); [reflexivity| |];
          apply lacks_contains, nospace_lacks_space; assumption.
      + rewrite (cut_none " "%char _ (a ++ ","%char :: b)); [reflexivity|].
        rewrite lacks_app, (nospace_lacks_space a Hasp). simpl.
        rewrite (nospace_lacks_space b Hbsp). reflexivity.
    - rewrite !Npm.StrFacts.contains_c_app. simpl.
      destruct Hsep; subst; simpl; rewrite ?orb_true_r; reflexivity.
  Qed.

  Lemma parse_range_and a sep b ca cb :
    simple a = true -> simple b = true -> sep = " "%char \/ sep = ","%char ->
    parse_single vok a = Some ca -> parse_single vok b = Some cb ->
    parse_range vok (a ++ sep :: b) =
    Some {| r_groups := [ca ++ cb]; r_orig := a ++ sep :: b |}.
  Proof.
    intros Ha Hb Hsep Pa Pb.
    destruct (joined_facts a sep b Ha Hb Hsep) as (Ht & Hne & Hbar & Hf & Hhy & Hsp).
    unfold parse_range. rewrite Ht.
    destruct (a ++ sep :: b) as [|c t] eqn:E; [contradiction|]. rewrite <- E in *.
    unfold parse_groups. cbn [list_ascii_of_string].
    rewrite (contains_sub_none "|"%char _ _ Hbar).
    unfold parse_one. rewrite Ht. cbn [list_ascii_of_string] in *. rewrite Hhy, Hsp.
    unfold parse_space. rewrite Hf. cbn [parse_parts]. rewrite Pa, Pb, app_nil_r. reflexivity.
  Qed.

  Theorem composer_and a sep b ca cb v vc :
    simple a = true -> simple b = true -> sep = " "%char \/ sep = ","%char ->
    parse_single vok a = Some ca -> parse_single vok b = Some cb ->
    vok v = true -> parse_core (trim_space v) = Some vc ->
    rcontains (a ++ sep :: b) v =
    Some (forallb (matches vcmp v vc) ca && forallb (matches vcmp v vc) cb).
  Proof.
    intros Ha Hb Hsep Pa Pb Hv Hc. unfold Composer.Entry.r, r_contains.
    rewrite (parse_range_and a sep b ca cb Ha Hb Hsep Pa Pb), Hv.
    unfold contains. rewrite Hc. unfold contains_groups. cbn [r_groups existsb].
    rewrite orb_false_r, forallb_app. reflexivity.
  Qed.

  Lemma parse_range_or a b ca cb :
    simple a = true -> simple b = true ->
    parse_single vok a = Some ca -> parse_single vok b = Some cb ->
    parse_range vok (a ++ $"||" ++ b) =
    Some {| r_groups := [ca; cb]; r_orig := a ++ $"||" ++ b |}.
  Proof.
    intros Ha Hb Pa Pb.
    destruct (simple_facts a Ha) as (Hane & Hasp & Haco & Haba).
    destruct (simple_facts b Hb) as (Hbne & Hbsp & Hbco & Hbba).
    assert (Ht : trim_space (a ++ $"||" ++ b) = a ++ $"||" ++ b).
    { apply trim_space_nospace. rewrite !nospace_app, Hasp, Hbsp. reflexivity. }
    unfold parse_range. rewrite Ht.
    destruct (a ++ $"||" ++ b) as [|c t] eqn:E; [destruct a; [contradiction|discriminate]|].
    rewrite <- E in *. unfold parse_groups. cbn [list_ascii_of_string] in *.
    unfold contains_sub.
    rewrite (Npm.StrFacts.cut_app "|"%char ["|"%char] a b (lacks_contains _ _ Haba)).
    rewrite (Npm.StrFacts.split_sub_two "|"%char ["|"%char] a b
               (lacks_contains _ _ Haba) (lacks_contains _ _ Hbba)).
    cbn [parse_all]. rewrite (trim_space_nospace a Hasp), (trim_space_nospace b Hbsp).
    rewrite (parse_one_simple a Ha), (parse_one_simple b Hb), Pa, Pb. reflexivity.
  Qed.

  Theorem composer_or a b ca cb v vc :
    simple a = true -> simple b = true ->
    parse_single vok a = Some ca -> parse_single vok b = Some cb ->
    vok v = true -> parse_core (trim_space v) = Some vc ->
    rcontains (a ++ $"||" ++ b) v =
    Some (forallb (matches vcmp v vc) ca || forallb (matches vcmp v vc) cb).
  Proof.
    intros Ha Hb Pa Pb Hv Hc. unfold Composer.Entry.r, r_contains.
    rewrite (parse_range_or a b ca cb Ha Hb Pa Pb), Hv.
    unfold contains. rewrite Hc. unfold contains_groups. cbn [r_groups existsb].
    rewrite orb_false_r. reflexivity.
  Qed.

  (* ---------- instantiated with comparators ---------- *)

  Lemma comparator_text op a :
    In op composer_ops -> in_scope a = true -> vok a = true ->
    simple (op ++ a) = true /\ parse_single vok (op ++ a) = Some [KCmp (sem_op op) a].
  Proof.
    intros Hop Hin Ha. destruct (in_scope_facts a Hin) as (_ & Hs & _ & _). split.
    - apply simple_app; [apply (In_mem _ _ Hop _ ops_simple)|exact Hs].
    - apply parse_single_op; assumption.
  Qed.

  Theorem composer_c02_and op1 a1 sep op2 a2 v vc :
    In op1 composer_ops -> in_scope a1 = true -> vok a1 = true ->
    In op2 composer_ops -> in_scope a2 = true -> vok a2 = true ->
    sep = " "%char \/ sep = ","%char ->
    vok v = true -> parse_core (trim_space v) = Some vc ->
    rcontains ((op1 ++ a1) ++ sep :: (op2 ++ a2)) v =
    Some (sat (sem_op op1) (vcmp v a1) && sat (sem_op op2) (vcmp v a2)).
  Proof.
    intros O1 I1 V1 O2 I2 V2 Hsep Hv Hc.
    destruct (comparator_text op1 a1 O1 I1 V1) as [S1 P1].
    destruct (comparator_text op2 a2 O2 I2 V2) as [S2 P2].
    rewrite (composer_and _ sep _ _ _ v vc S1 S2 Hsep P1 P2 Hv Hc).
    cbn [forallb matches]. rewrite !andb_true_r. reflexivity.
  Qed.

  Theorem composer_c02_or op1 a1 op2 a2 v vc :
    In op1 composer_ops -> in_scope a1 = true -> vok a1 = true ->
    In op2 composer_ops -> in_scope a2 = true -> vok a2 = true ->
    vok v = true -> parse_core (trim_space v) = Some vc ->
    rcontains ((op1 ++ a1) ++ $"||" ++ (op2 ++ a2)) v =
    Some (sat (sem_op op1) (vcmp v a1) || sat (sem_op op2) (vcmp v a2)).
  Proof.
    intros O1 I1 V1 O2 I2 V2 Hv Hc.
    destruct (comparator_text op1 a1 O1 I1 V1) as [S1 P1].
    destruct (comparator_text op2 a2 O2 I2 V2) as [S2 P2].
    rewrite (composer_or _ _ _ _ v vc S1 S2 P1 P2 Hv Hc).
    cbn [forallb matches]. rewrite !andb_true_r. reflexivity.
  Qed.
End Lists.
