(* Properties/Support/ComposerSelf.v — C20 for composer end to end (the model's own version
   layer as the oracle).  Every text the composer range model hands to Compare was accepted by
   NewVersion at range-parse time (comparator bounds, the "ma.mi.pa" texts of carets, the
   desugared bounds of ~, wildcards and hyphen ranges), so agreement on accepted texts suffices
   and the theorems of Eco/Composer/RangeFacts.v, which assume a total preorder on all texts,
   transfer with Properties/Support/SelfOracle.v. *)
From Coq Require Import Lia.
From Verif.Base Require Import Bytes BytesFacts GoNum Ord.
From Verif.Eco Require Import RangeCore RangeCoreFacts Iface VLayer VLayerFacts.
From Verif.Properties.Support Require Import SimpleRops SelfOracle ConvexMore.
From Verif.Eco.Composer Require Import Version Range.
From Verif.Eco.Composer Require VersionFacts RangeFacts Entry.
Local Open Scope Z_scope.

Section Inv.
  Variable vok : bytes -> bool.

  Definition con_inv (k : con) : Prop :=
    match k with
    | KAny | KStab _ => True
    | KCaret ma mi pa => vok (fmt3 ma mi pa) = true
    | KCaret0x mi pa => vok (fmt3 0 mi pa) = true
    | KCaret00x pa => vok (fmt3 0 0 pa) = true
    | KCmp _ b => vok b = true
    end.

  Ltac fin := let H := fresh "H" in intros H; injection H as <-; repeat constructor; simpl; auto.

  Lemma ge_lt_inv lo up cs : ge_lt vok lo up = Some cs -> Forall con_inv cs.
  Proof.
    unfold ge_lt. destruct (vok lo) eqn:A; [|discriminate]. destruct (vok up) eqn:B; [|discriminate].
    simpl. fin.
  Qed.

  Lemma vfields_ok s c : vfields vok s = Some c -> vok s = true.
  Proof. unfold vfields. destruct (vok s); [reflexivity|discriminate]. Qed.

  Lemma parse_caret_inv t cs : parse_caret vok t = Some cs -> Forall con_inv cs.
  Proof.
    unfold parse_caret. destruct (vfields vok t) as [[b|ma mi pa ex st n]|] eqn:F; [| |discriminate].
    - pose proof (vfields_ok _ _ F) as Vt. fin.
    - repeat match goal with
        | |- (if vok ?x then _ else _) = _ -> _ => destruct (vok x) eqn:?; [fin|discriminate]
        | |- ge_lt _ _ _ = _ -> _ => apply ge_lt_inv
        | |- (if ?b then _ else _) = _ -> _ => destruct b
        end.
  Qed.

  Lemma parse_tilde_inv t cs : parse_tilde vok t = Some cs -> Forall con_inv cs.
  Proof.
    unfold parse_tilde. destruct (vfields vok t) as [[b|ma mi pa ex st n]|] eqn:F; [| |discriminate].
    - pose proof (vfields_ok _ _ F) as Vt. fin.
    - destruct (split_c "."%char t) as [|p0 [|p1 [|p2 l]]]; apply ge_lt_inv.
  Qed.

  Lemma parse_wildcard_inv t cs : parse_wildcard vok t = Some cs -> Forall con_inv cs.
  Proof.
    unfold parse_wildcard. destruct (wild_index (split_c "."%char t)) as [[|[|[|n]]]|]; try discriminate.
    - destruct (atoi _); [apply ge_lt_inv|discriminate].
    - destruct (atoi _); [|discriminate]. destruct (atoi _); [apply ge_lt_inv|discriminate].
  Qed.

  Lemma parse_stability_inv t cs : parse_stability vok t = Some cs -> Forall con_inv cs.
  Proof.
    unfold parse_stability. destruct (split_c "@"%char t) as [|p0 [|p1 [|p2 l]]]; try discriminate.
    destruct (trim_space p0) as [|x y]; [fin|].
    destruct (vok _) eqn:V; [fin|discriminate].
  Qed.

  Lemma parse_single_inv t cs : parse_single vok t = Some cs -> Forall con_inv cs.
  Proof.
    unfold parse_single. destruct (beq _ _); [fin|].
    destruct (has_prefix _ _); [apply parse_caret_inv|].
    destruct (has_prefix _ _); [apply parse_tilde_inv|].
    destruct (existsb _ _); [apply parse_wildcard_inv|].
    destruct (first_prefix composer_ops (trim_space t)) as [[op rest]|].
    - destruct (contains_c _ _); [apply parse_stability_inv|].
      destruct (vok _) eqn:V; [fin|discriminate].
    - destruct (contains_c _ _); [apply parse_stability_inv|].
      destruct (vok _) eqn:V; [fin|discriminate].
  Qed.

  Lemma parse_hyphen_inv t cs : parse_hyphen vok t = Some cs -> Forall con_inv cs.
  Proof.
    unfold parse_hyphen. destruct (has_suffix _ _); [discriminate|].
    destruct (split_sub _ t) as [|a [|b [|c l]]]; try discriminate.
    destruct (trim_space a) as [|x y]; [discriminate|]. destruct (trim_space b) as [|x' y']; [discriminate|].
    destruct (vok (x :: y)) eqn:A; [|discriminate]. destruct (vok (x' :: y')) eqn:B; [|discriminate].
    simpl. fin.
  Qed.

  Lemma parse_parts_inv parts cs : parse_parts vok parts = Some cs -> Forall con_inv cs.
  Proof.
    revert cs. induction parts as [|p r IH]; intros cs; simpl.
    - fin.
    - destruct (parse_single vok p) as [c1|] eqn:P; [|discriminate].
      destruct (parse_parts vok r) as [c2|]; [|discriminate].
      intros H. injection H as <-. apply Forall_app. split; [eapply parse_single_inv; eauto|auto].
  Qed.

  Lemma parse_one_inv t cs : parse_one vok t = Some cs -> Forall con_inv cs.
  Proof.
    unfold parse_one. destruct (contains_sub _ _); [apply parse_hyphen_inv|].
    destruct (_ || _); [apply parse_parts_inv|apply parse_single_inv].
  Qed.

  Lemma parse_all_inv parts gs : parse_all vok parts = Some gs -> Forall (Forall con_inv) gs.
  Proof.
    revert gs. induction parts as [|p r IH]; intros gs; simpl.
    - fin.
    - destruct (parse_one vok (trim_space p)) as [g|] eqn:P; [|discriminate].
      destruct (parse_all vok r) as [gs'|]; [|discriminate].
      intros H. injection H as <-. constructor; [eapply parse_one_inv; eauto|auto].
  Qed.

  Lemma parse_range_inv rg x : parse_range vok rg = Some x -> Forall (Forall con_inv) (r_groups x).
  Proof.
    unfold parse_range. destruct (trim_space rg) as [|a b]; [discriminate|].
    destruct (parse_groups vok (a :: b)) as [gs|] eqn:P; [|discriminate].
    intros H. injection H as <-. simpl. revert P. unfold parse_groups.
    destruct (contains_sub _ _); [apply parse_all_inv|].
    destruct (parse_one vok (a :: b)) as [g|] eqn:Q; [|discriminate].
    intros H. injection H as <-. repeat constructor. eapply parse_one_inv; eauto.
  Qed.
End Inv.

Lemma composer_agreement : agreement_suffices Composer.Entry.r.
Proof.
  intros vok c1 c2 Ag rg v. unfold Composer.Entry.r, r_contains.
  destruct (parse_range vok rg) as [x|] eqn:P; [|reflexivity].
  destruct (vok v) eqn:Hv; [|reflexivity]. unfold contains.
  destruct (parse_core (trim_space v)) as [vc|]; [|reflexivity]. f_equal.
  pose proof (parse_range_inv vok rg x P) as F. rewrite Forall_forall in F.
  unfold contains_groups. apply existsb_ext_in. intros g Hg. specialize (F g Hg).
  rewrite Forall_forall in F. apply forallb_ext_in. intros k Hk. specialize (F k Hk).
  destruct k; simpl in *; try reflexivity.
  - unfold matches_caret. rewrite (Ag v _ Hv F). reflexivity.
  - unfold matches_caret0x. rewrite (Ag v _ Hv F). reflexivity.
  - unfold matches_caret00x. rewrite (Ag v _ Hv F). reflexivity.
  - rewrite (Ag v _ Hv F). reflexivity.
Qed.

(* ---------- C20 over oracles that are preorders on the accepted texts ---------- *)
Notation okp vok := (fun s : bytes => vok s = true).

(* EQ for all ranges: the two versions have Compare-equal fields and agree on being spelled
   exactly "1.0b1" *)
Theorem composer_eq_on vok vcmp rg a b ca cb :
  TotalPreorderOn (okp vok) vcmp -> vok a = true -> vok b = true -> vcmp a b = Eq ->
  parse_core (trim_space a) = Some ca -> parse_core (trim_space b) = Some cb ->
  cmp_core ca cb = Eq -> beq a $"1.0b1" = beq b $"1.0b1" ->
  r_contains Composer.Entry.r vok vcmp rg a = r_contains Composer.Entry.r vok vcmp rg b.
Proof.
  intros T Ha Hb E Pa Pb Ec Et.
  rewrite (to_ext _ composer_agreement vok vcmp rg a), (to_ext _ composer_agreement vok vcmp rg b).
  unfold Composer.Entry.r, r_contains.
  destruct (parse_range vok rg) as [x|]; [|reflexivity]. rewrite Ha, Hb.
  apply (Composer.RangeFacts.c20 _ x a b ca cb); auto.
  - apply ext_tp, T.
  - rewrite ext_agree; assumption.
Qed.

(* EQ for ranges built from comparators (and "*") only *)
Theorem composer_eq_cmp_only_on vok vcmp rg r a b ca cb :
  parse_range vok rg = Some r ->
  forallb (forallb Composer.RangeFacts.cmp_only) (r_groups r) = true ->
  TotalPreorderOn (okp vok) vcmp -> vok a = true -> vok b = true -> vcmp a b = Eq ->
  parse_core (trim_space a) = Some ca -> parse_core (trim_space b) = Some cb ->
  r_contains Composer.Entry.r vok vcmp rg a = r_contains Composer.Entry.r vok vcmp rg b.
Proof.
  intros P Hc T Ha Hb E Pa Pb.
  rewrite (to_ext _ composer_agreement vok vcmp rg a), (to_ext _ composer_agreement vok vcmp rg b).
  unfold Composer.Entry.r, r_contains. rewrite P, Ha, Hb.
  apply (Composer.RangeFacts.c20_cmp_only _ r a b ca cb); auto.
  - apply ext_tp, T.
  - rewrite ext_agree; assumption.
Qed.

(* CONVEX for one group of comparators other than "!=" *)
Theorem composer_convex_on vok vcmp rg r g a b c :
  parse_range vok rg = Some r -> r_groups r = [g] -> forallb composer_convex_con g = true ->
  TotalPreorderOn (okp vok) vcmp -> vok a = true -> vok b = true -> vok c = true ->
  le_c (vcmp a b) -> le_c (vcmp b c) ->
  r_contains Composer.Entry.r vok vcmp rg a = Some true ->
  r_contains Composer.Entry.r vok vcmp rg c = Some true ->
  r_contains Composer.Entry.r vok vcmp rg b <> None ->
  r_contains Composer.Entry.r vok vcmp rg b = Some true.
Proof.
  intros P Hg Hcv T Ha Hb Hc Hab Hbc.
  rewrite (to_ext _ composer_agreement vok vcmp rg a), (to_ext _ composer_agreement vok vcmp rg b),
          (to_ext _ composer_agreement vok vcmp rg c).
  unfold Composer.Entry.r, r_contains. rewrite P, Ha, Hb, Hc.
  apply (composer_convex (ext_cmp vok vcmp) (ext_tp vok vcmp T) r g a b c Hg Hcv);
    rewrite ext_agree; assumption.
Qed.

(* ---------- with the model's own version layer ---------- *)
Notation e := Composer.Entry.entry.

Lemma self_parse s : self_vok e s = true -> exists c, parse_core (trim_space s) = Some c.
Proof. apply (self_vok_core _ parse_core cmp_core raw_orig). Qed.

Theorem composer_self_eq rg a b :
  self_vok e a = true -> self_vok e b = true -> self_vcmp e a b = Eq ->
  beq a $"1.0b1" = beq b $"1.0b1" ->
  r_contains Composer.Entry.r (self_vok e) (self_vcmp e) rg a =
  r_contains Composer.Entry.r (self_vok e) (self_vcmp e) rg b.
Proof.
  intros Ha Hb E Et.
  destruct (self_parse a Ha) as [ca Pa]. destruct (self_parse b Hb) as [cb Pb].
  apply (composer_eq_on _ _ rg a b ca cb); auto.
  - apply (self_tpo _ parse_core cmp_core raw_orig). apply Composer.VersionFacts.cmp_core_tp.
  - rewrite <- (self_vcmp_core _ parse_core cmp_core raw_orig $"composer" Composer.Entry.r a b ca cb Pa Pb).
    exact E.
Qed.

Theorem composer_self_eq_cmp_only rg r a b :
  parse_range (self_vok e) rg = Some r ->
  forallb (forallb Composer.RangeFacts.cmp_only) (r_groups r) = true ->
  self_vok e a = true -> self_vok e b = true -> self_vcmp e a b = Eq ->
  r_contains Composer.Entry.r (self_vok e) (self_vcmp e) rg a =
  r_contains Composer.Entry.r (self_vok e) (self_vcmp e) rg b.
Proof.
  intros P Hc Ha Hb E.
  destruct (self_parse a Ha) as [ca Pa]. destruct (self_parse b Hb) as [cb Pb].
  apply (composer_eq_cmp_only_on _ _ rg r a b ca cb); auto.
  apply (self_tpo _ parse_core cmp_core raw_orig). apply Composer.VersionFacts.cmp_core_tp.
Qed.

Theorem composer_self_convex rg r g a b c :
  parse_range (self_vok e) rg = Some r -> r_groups r = [g] ->
  forallb composer_convex_con g = true ->
  self_vok e a = true -> self_vok e b = true -> self_vok e c = true ->
  le_c (self_vcmp e a b) -> le_c (self_vcmp e b c) ->
  r_contains Composer.Entry.r (self_vok e) (self_vcmp e) rg a = Some true ->
  r_contains Composer.Entry.r (self_vok e) (self_vcmp e) rg c = Some true ->
  r_contains Composer.Entry.r (self_vok e) (self_vcmp e) rg b = Some true.
Proof.
  intros P Hg Hcv Ha Hb Hc Hab Hbc H1 H2.
  apply (composer_convex_on _ _ rg r g a b c); auto.
  - apply (self_tpo _ parse_core cmp_core raw_orig). apply Composer.VersionFacts.cmp_core_tp.
  - unfold Composer.Entry.r, r_contains. rewrite P, Hb. unfold contains.
    destruct (self_parse b Hb) as [cb Pb]. rewrite Pb. discriminate.
Qed.
