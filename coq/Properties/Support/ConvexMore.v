(* Properties/Support/ConvexMore.v — the convexity half of C20 for conan and composer ranges
   that consist of one group of plain comparators other than "!=" (for the shorthand operators
   see the findings quoted in Properties/C20.v). *)
From Verif.Base Require Import Bytes BytesFacts GoNum Ord.
From Verif.Eco Require Import RangeCore RangeCoreFacts Iface.
From Verif.Eco.Conan Require Range RangeFacts.
From Verif.Eco.Composer Require Version Range RangeFacts.

Section Conan.
  Import Conan.Range Conan.RangeFacts.
  Variable vcmp : bytes -> bytes -> comparison.
  Hypothesis TP : TotalPreorder vcmp.

  Definition conan_convex_con (c : constraint) : bool :=
    plain_op (fst c) && convex_op (sem6 (fst c)).

  Theorem conan_convex r g a b c :
    r_groups r = [g] -> forallb conan_convex_con g = true ->
    le_c (vcmp a b) -> le_c (vcmp b c) ->
    contains vcmp r a = true -> contains vcmp r c = true -> contains vcmp r b = true.
  Proof.
    intros Hg Hcv Hab Hbc. unfold contains. rewrite Hg. cbn [existsb]. rewrite !orb_false_r. clear Hg.
    induction g as [|k g IH]; [reflexivity|]. cbn [forallb] in *.
    apply andb_true_iff in Hcv. destruct Hcv as [Hk Hcv].
    rewrite !andb_true_iff. intros [A1 A2] [C1 C2]. split; [|apply IH; auto].
    unfold conan_convex_con, plain_op in Hk. destruct k as [op x]. cbn [fst] in Hk.
    apply andb_true_iff in Hk. destruct Hk as [Hp Ho]. apply andb_true_iff in Hp. destruct Hp as [H1 H2].
    apply negb_true_iff in H1. apply negb_true_iff in H2.
    unfold sat_constraint in *. rewrite H1, H2 in *.
    apply (sat_convex bytes vcmp TP _ x a b c); assumption.
  Qed.
End Conan.

Section Composer.
  Import Composer.Version Composer.Range Composer.RangeFacts.
  Variable vcmp : bytes -> bytes -> comparison.
  Hypothesis TP : TotalPreorder vcmp.

  Definition composer_convex_con (k : con) : bool :=
    match k with KAny => true | KCmp op _ => convex_op op | _ => false end.

  Theorem composer_convex r g a b c :
    r_groups r = [g] -> forallb composer_convex_con g = true ->
    le_c (vcmp a b) -> le_c (vcmp b c) ->
    contains vcmp r a = Some true -> contains vcmp r c = Some true ->
    contains vcmp r b <> None -> contains vcmp r b = Some true.
  Proof.
    intros Hg Hcv Hab Hbc. unfold contains. rewrite Hg.
    destruct (parse_core (trim_space a)) as [ca|]; [|discriminate].
    destruct (parse_core (trim_space c)) as [cc|]; [|discriminate].
    destruct (parse_core (trim_space b)) as [cb|]; [|congruence].
    unfold contains_groups. cbn [existsb]. rewrite !orb_false_r.
    intros A C _. injection A as A. injection C as C. f_equal. revert A C. clear Hg.
    induction g as [|k g IH]; [reflexivity|]. cbn [forallb] in *.
    apply andb_true_iff in Hcv. destruct Hcv as [Hk Hcv].
    rewrite !andb_true_iff. intros [A1 A2] [C1 C2]. split; [|apply IH; auto].
    destruct k; try discriminate; [reflexivity|]. cbn [matches composer_convex_con] in *.
    apply (sat_convex bytes vcmp TP _ _ a b c); assumption.
  Qed.
End Composer.
