(* Properties/Support/CranC03.v — C03 for cran: dotted numeric texts with at least two components
   are accepted and compare as their integer tuples.  (R package versions have no pre- or
   post-release markers; "-" is a second spelling of the separator.) *)
From Coq Require Import Lia.
From Verif.Base Require Import Bytes BytesFacts GoNum Ord.
From Verif.Eco Require Import VLayer VLayerFacts RangeCoreFacts.
From Verif.Eco.Pypi Require Import DecFacts.
From Verif.Eco.Cran Require Import Version VersionFacts.
Local Open Scope N_scope.

Definition dotted (t : list N) : bytes := join $"." (map dec t).

Lemma replace_c_id a b s : contains_c a s = false -> replace_c a b s = s.
Proof.
  unfold replace_c. induction s as [|c s IH]; [reflexivity|]. simpl.
  destruct (ceqb a c) eqn:E; [discriminate|]. intros H. rewrite (IH H). reflexivity.
Qed.

Lemma contains_c_app c a b : contains_c c (a ++ b) = contains_c c a || contains_c c b.
Proof. induction a as [|x a IH]; simpl; [reflexivity|]. rewrite IH. apply orb_assoc. Qed.

Lemma dec_no c n : is_digit c = false -> contains_c c (dec n) = false.
Proof. intros H. apply digits_no_c; [assumption|apply dec_digits]. Qed.

Lemma dotted_no_hyphen t : contains_c "-"%char (dotted t) = false.
Proof.
  unfold dotted. induction t as [|a [|b t] IH]; [reflexivity|apply (dec_no "-"%char a eq_refl)|].
  change (join $"." (map dec (a :: b :: t))) with (dec a ++ "."%char :: join $"." (map dec (b :: t))).
  rewrite contains_c_app, (dec_no "-"%char a eq_refl). simpl. exact IH.
Qed.

Lemma split_dotted t : t <> [] -> split_c "."%char (dotted t) = map dec t.
Proof.
  intros Hne. unfold dotted. apply split_join.
  - destruct t; [contradiction|discriminate].
  - apply forallb_forall. intros x Hx. apply in_map_iff in Hx. destruct Hx as (n & <- & _).
    rewrite (dec_no "."%char n eq_refl). reflexivity.
Qed.

Theorem c03_parse t :
  (2 <= length t)%nat -> Forall (fun n => n < two63) t ->
  parse_core (dotted t) = Some (map Z.of_N t).
Proof.
  intros Hlen HF. unfold parse_core.
  rewrite (replace_c_id _ _ _ (dotted_no_hyphen t)).
  rewrite split_dotted by (destruct t; [simpl in Hlen; lia|discriminate]).
  rewrite map_length.
  assert (H1 : (2 <=? length t)%nat = true) by (apply Nat.leb_le; exact Hlen).
  assert (H2 : forallb nonempty_digits (map dec t) = true).
  { apply forallb_forall. intros x Hx. apply in_map_iff in Hx. destruct Hx as (n & <- & _).
    apply dec_nonempty_digits. }
  assert (H3 : forallb (fun p => digits_val p <? two63) (map dec t) = true).
  { apply forallb_forall. intros x Hx. apply in_map_iff in Hx. destruct Hx as (n & <- & Hn).
    rewrite dec_val. apply N.ltb_lt. rewrite Forall_forall in HF. auto. }
  rewrite H1, H2, H3. simpl. f_equal. rewrite map_map. apply map_ext. intros n. rewrite dec_val. reflexivity.
Qed.

Lemma lex_short_of_N t1 t2 :
  lex_short Z.compare (map Z.of_N t1) (map Z.of_N t2) = lex_short N.compare t1 t2.
Proof.
  revert t2. induction t1 as [|a t1 IH]; intros [|b t2]; simpl; try reflexivity.
  rewrite IH, N2Z.inj_compare. reflexivity.
Qed.

(* same arity or not: the common components decide, then the longer tuple is greater *)
Theorem c03_numeric t1 t2 :
  (2 <= length t1)%nat -> (2 <= length t2)%nat ->
  Forall (fun n => n < two63) t1 -> Forall (fun n => n < two63) t2 ->
  exists v1 v2, parse (dotted t1) = Some v1 /\ parse (dotted t2) = Some v2 /\
    cmp v1 v2 = lex_short N.compare t1 t2.
Proof.
  intros L1 L2 F1 F2.
  unfold parse, VLayer.parse, cmp, VLayer.cmp.
  assert (Tr : forall t, (2 <= length t)%nat -> trim_space (dotted t) = dotted t).
  { intros t Ht. apply trim_space_no_space. unfold no_space.
    unfold dotted. clear -t. induction t as [|a [|b t] IH]; [reflexivity| |].
    - simpl. apply forallb_forall. intros c Hc.
      pose proof (dec_digits a) as D. rewrite forallb_forall in D. specialize (D c Hc).
      destruct c as [b0 b1 b2 b3 b4 b5 b6 b7].
      destruct b0, b1, b2, b3, b4, b5, b6, b7; try reflexivity; discriminate.
    - change (join $"." (map dec (a :: b :: t))) with (dec a ++ "."%char :: join $"." (map dec (b :: t))).
      rewrite forallb_app. apply andb_true_iff. split; [|simpl; exact IH].
      apply forallb_forall. intros c Hc.
      pose proof (dec_digits a) as D. rewrite forallb_forall in D. specialize (D c Hc).
      destruct c as [b0 b1 b2 b3 b4 b5 b6 b7].
      destruct b0, b1, b2, b3, b4, b5, b6, b7; try reflexivity; discriminate. }
  rewrite (Tr t1 L1), (Tr t2 L2), (c03_parse t1 L1 F1), (c03_parse t2 L2 F2).
  eexists. eexists. split; [reflexivity|]. split; [reflexivity|]. simpl.
  unfold cmp_core. apply lex_short_of_N.
Qed.
