(* Properties/Support/GemSupport.v — statements for gem that were not written with the model:
   C18 for ranges (the parser is RangeCore's, Contains is custom but reads the constraint list
   only), the comma AND-list of C02, and the convexity half of C20 for comparator ranges. *)
From Coq Require Import Lia.
From Verif.Base Require Import Bytes BytesFacts GoNum Ord.
From Verif.Eco Require Import RangeCore RangeCoreFacts Iface VLayer VLayerFacts.
From Verif.Properties.Support Require Import SimpleRops RangeC18 C02Lists SelfOracle.
From Verif.Eco.Gem Require Version VersionFacts Range RangeFacts Entry.

Notation gcfg := Gem.Range.cfg.

(* ---------- C18 ---------- *)
Lemma gem_shape : trim_shape Gem.Entry.r.
Proof.
  constructor.
  - intros vok s x. unfold Gem.Entry.r, r_show, Gem.Range.r_show, Gem.Range.parse_range.
    destruct (parse_range bytes (oracle_parse vok) gcfg s) as [r|] eqn:E; [|discriminate].
    simpl. intros H. injection H as <-. apply (range_show_trim bytes (oracle_parse vok) gcfg s r E).
  - intros vok vcmp s.
    pose proof (range_same_trim bytes (oracle_parse vok) gcfg s (trim_space s)
                  (eq_sym (trim_space_idem s))) as P.
    unfold Gem.Entry.r, r_show, r_contains, Gem.Range.r_show, Gem.Range.r_contains,
      Gem.Range.parse_range.
    destruct (parse_range bytes (oracle_parse vok) gcfg s) as [r|],
             (parse_range bytes (oracle_parse vok) gcfg (trim_space s)) as [r'|];
      try contradiction; simpl.
    + split; [split; discriminate|]. intros v. unfold Gem.Range.contains. rewrite P. reflexivity.
    + split; [tauto|reflexivity].
Qed.

(* ---------- C02: comma-separated comparators ---------- *)
Section C02.
  Variable vok : bytes -> bool.
  Variable vcmp : bytes -> bytes -> comparison.

  Definition gem_con_ok (c : constraint) : Prop :=
    (In (fst c) Gem.Range.gem_ops /\ bound_in_scope (snd c) /\ vok (snd c) = true) /\
    negb (contains_c ","%char (snd c)) = true.

  Lemma gem_op_not_pess op : In op Gem.Range.gem_ops -> beq op Gem.Range.pess = false.
  Proof. intros H. cbn in H. repeat (destruct H as [<-|H]; [reflexivity|]). contradiction. Qed.

  Theorem gem_c02_and cs v :
    cs <> [] -> Forall gem_con_ok cs -> vok v = true ->
    r_contains Gem.Entry.r vok vcmp (join $"," (map ctext cs)) v =
    Some (forallb (fun c => sat (sem6 (fst c)) (vcmp v (snd c))) cs).
  Proof.
    intros Hne HF Hv.
    assert (HF' : Forall (comma_con_ok gcfg vok) cs).
    { eapply Forall_impl; [|exact HF]. intros c ((H1 & H2 & H3) & H4).
      split; [|exact H4]. repeat split; auto; try apply H2. right. exact H1. }
    destruct (comma_texts gcfg Gem.RangeFacts.ops_ok_gem vok cs HF') as (HW & HC & HO).
    assert (Hm : map ctext cs <> []) by (destruct cs; [contradiction|discriminate]).
    assert (Ht : trim_space (join $"," (map ctext cs)) = join $"," (map ctext cs))
      by (apply trim_space_no_space, no_space_join_comma, HW).
    pose proof (join_nonnil $"," _ Hm HW) as Hj.
    unfold Gem.Entry.r, r_contains, Gem.Range.r_contains, Gem.Range.parse_range, parse_range.
    rewrite Ht. destruct (join $"," (map ctext cs)) as [|x y] eqn:E; [contradiction|]. rewrite <- E.
    change (rc_split gcfg) with split_comma_trim.
    rewrite (split_comma_trim_join _ Hm HW HC).
    rewrite (parse_constraints_ok bytes (oracle_parse vok) gcfg cs Gem.RangeFacts.ops_ok_gem).
    2:{ rewrite Forall_forall in *. intros c Hc. apply con_ok_scope. auto. }
    destruct cs as [|c0 cs0]; [contradiction|]. rewrite Hv. f_equal.
    unfold Gem.Range.contains. cbn [r_cs]. apply forallb_ext_in. intros c Hc.
    rewrite Forall_forall in HF. destruct (HF c Hc) as ((H1 & H2 & H3) & H4).
    unfold Gem.Range.sat_constraint. rewrite H3, (gem_op_not_pess _ H1). reflexivity.
  Qed.
End C02.

(* ---------- C20: convexity for ranges of comparators other than "!=" and "~>" ---------- *)
Section Convex.
  Variable vok : bytes -> bool.
  Variable vcmp : bytes -> bytes -> comparison.
  Hypothesis T : TotalPreorderOn (fun s => vok s = true) vcmp.

  Definition gem_convex_con (k : constraint) : bool :=
    negb (beq (fst k) Gem.Range.pess) && convex_op (sem6 (fst k)).

  Theorem gem_convex_on rg r a b c :
    Gem.Range.parse_range vok rg = Some r -> forallb gem_convex_con (r_cs r) = true ->
    vok a = true -> vok b = true -> vok c = true ->
    le_c (vcmp a b) -> le_c (vcmp b c) ->
    r_contains Gem.Entry.r vok vcmp rg a = Some true ->
    r_contains Gem.Entry.r vok vcmp rg c = Some true ->
    r_contains Gem.Entry.r vok vcmp rg b = Some true.
  Proof.
    intros P Hcv Ha Hb Hc Hab Hbc.
    unfold Gem.Entry.r, r_contains, Gem.Range.r_contains. rewrite P, Ha, Hb, Hc.
    intros H1 H2. injection H1 as H1. injection H2 as H2. f_equal. revert H1 H2.
    unfold Gem.Range.contains. induction (r_cs r) as [|k cs IH]; [reflexivity|].
    cbn [forallb] in *. apply andb_true_iff in Hcv. destruct Hcv as [Hk Hcv].
    rewrite !andb_true_iff. intros [A1 A2] [C1 C2]. split; [|apply IH; auto].
    unfold gem_convex_con in Hk. apply andb_true_iff in Hk. destruct Hk as [Hp Ho].
    apply negb_true_iff in Hp. unfold Gem.Range.sat_constraint in *.
    destruct (vok (snd k)) eqn:Vk; [|discriminate]. rewrite Hp in *.
    apply (on_sat_convex vok vcmp T _ (snd k) a b c); assumption.
  Qed.
End Convex.

Theorem gem_self_convex rg r a b c :
  let vok := self_vok Gem.Entry.entry in
  let vcmp := self_vcmp Gem.Entry.entry in
  Gem.Range.parse_range vok rg = Some r -> forallb gem_convex_con (r_cs r) = true ->
  vok a = true -> vok b = true -> vok c = true ->
  le_c (vcmp a b) -> le_c (vcmp b c) ->
  r_contains Gem.Entry.r vok vcmp rg a = Some true ->
  r_contains Gem.Entry.r vok vcmp rg c = Some true ->
  r_contains Gem.Entry.r vok vcmp rg b = Some true.
Proof.
  intros vok vcmp. apply gem_convex_on.
  apply (self_tpo _ Gem.Version.parse_core Gem.Version.cmp_core Gem.Version.raw_orig).
  apply Gem.VersionFacts.cmp_core_tp.
Qed.
