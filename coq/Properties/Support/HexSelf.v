(* Properties/Support/HexSelf.v — C20 for hex end to end (the model's own version layer as the
   oracle).  Hex compares the probe with SYNTHESIZED bound texts "X.Y.0"; an arbitrary oracle
   need not accept them, the model's own version layer does, so "agreement on accepted texts
   suffices" is proved for vok := self_vok Hex.Entry.entry only. *)
From Coq Require Import Lia.
From Verif.Base Require Import Bytes BytesFacts GoNum Ord.
From Verif.Eco Require Import RangeCore RangeCoreFacts Iface VLayer VLayerFacts.
From Verif.Properties.Support Require Import SimpleRops SelfOracle.
From Verif.Eco.Hex Require Import Version VersionFacts Range.
From Verif.Eco.Hex Require RangeFacts Entry.

(* ---------- transfer for one fixed vok ---------- *)
Section TransferFor.
  Variable R : rops.
  Variable vok : bytes -> bool.
  Hypothesis A : forall c1 c2, agree vok c1 c2 ->
                 forall rg v, r_contains R vok c1 rg v = r_contains R vok c2 rg v.
  Variable Pr : bytes -> Prop.

  Lemma to_ext_for vcmp rg v :
    r_contains R vok vcmp rg v = r_contains R vok (ext_cmp vok vcmp) rg v.
  Proof. apply A. intros x y Hx Hy. symmetry. apply ext_agree; assumption. Qed.

  Theorem transfer_eq_for :
    (forall vcmp rg a b, Pr rg -> TotalPreorder vcmp ->
       vok a = true -> vok b = true -> vcmp a b = Eq ->
       r_contains R vok vcmp rg a = r_contains R vok vcmp rg b) ->
    forall vcmp rg a b, Pr rg -> TotalPreorderOn (fun s => vok s = true) vcmp ->
       vok a = true -> vok b = true -> vcmp a b = Eq ->
       r_contains R vok vcmp rg a = r_contains R vok vcmp rg b.
  Proof.
    intros H vcmp rg a b HP T Ha Hb E.
    rewrite (to_ext_for vcmp rg a), (to_ext_for vcmp rg b).
    apply H; auto; [apply ext_tp, T|]. rewrite ext_agree; assumption.
  Qed.

  Theorem transfer_convex_for :
    (forall vcmp rg a b c, Pr rg -> TotalPreorder vcmp ->
       vok a = true -> vok b = true -> vok c = true ->
       le_c (vcmp a b) -> le_c (vcmp b c) ->
       r_contains R vok vcmp rg a = Some true -> r_contains R vok vcmp rg c = Some true ->
       r_contains R vok vcmp rg b = Some true) ->
    forall vcmp rg a b c, Pr rg -> TotalPreorderOn (fun s => vok s = true) vcmp ->
       vok a = true -> vok b = true -> vok c = true ->
       le_c (vcmp a b) -> le_c (vcmp b c) ->
       r_contains R vok vcmp rg a = Some true -> r_contains R vok vcmp rg c = Some true ->
       r_contains R vok vcmp rg b = Some true.
  Proof.
    intros H vcmp rg a b c HP T Ha Hb Hc Hab Hbc.
    rewrite (to_ext_for vcmp rg a), (to_ext_for vcmp rg b), (to_ext_for vcmp rg c).
    apply H; auto; [apply ext_tp, T| |]; rewrite ext_agree; assumption.
  Qed.
End TransferFor.

(* ---------- the bounds of a parsed hex range ---------- *)
Definition svok : bytes -> bool := self_vok Hex.Entry.entry.

Lemma svok_spec s : svok s = true <-> exists c, parse_core (trim_space s) = Some c.
Proof. apply (self_vok_core _ parse_core cmp_core raw_orig). Qed.

Lemma wrap64_le z : (wrap64 z <= max_int64)%Z.
Proof.
  unfold wrap64, max_int64. change (Z.of_N two64) with 18446744073709551616%Z.
  change (Z.of_N two63) with 9223372036854775808%Z.
  pose proof (Z.mod_pos_bound z 18446744073709551616 ltac:(lia)) as B.
  destruct (z mod 18446744073709551616 <? 9223372036854775808)%Z eqn:E.
  - apply Z.ltb_lt in E. lia.
  - lia.
Qed.

Definition bound_inv (vok : bytes -> bool) (b : bound) : Prop :=
  match b with
  | BText t => vok t = true
  | BSynth ma mi => (ma <= max_int64 /\ mi <= max_int64)%Z
  end.

Lemma pess_upper_le t c :
  wf c -> (fst (pess_upper t c) <= max_int64 /\ snd (pess_upper t c) <= max_int64)%Z.
Proof.
  intros (H1 & H2 & _). unfold pess_upper.
  destruct (count_c "."%char t =? 1)%nat; [destruct (minor c =? 0)%Z|]; simpl;
    repeat split; try apply wrap64_le; unfold max_int64 in *; lia.
Qed.

Lemma parse_constraint_inv vok p cs :
  parse_constraint vok p = Some cs -> Forall (fun c => bound_inv vok (snd c)) cs.
Proof.
  unfold parse_constraint. destruct p as [|x p']; [discriminate|].
  assert (G : forall op rest,
    (if vok (trim_space rest)
     then if beq op $"~>"
          then match parse_core (trim_space (trim_space rest)) with
               | Some c => let '(ma, mi) := pess_upper (trim_space (trim_space rest)) c in
                           Some [($">=", BText (trim_space rest)); ($"<", BSynth ma mi)]
               | None => None
               end
          else Some [(op, BText (trim_space rest))]
     else None) = Some cs -> Forall (fun c => bound_inv vok (snd c)) cs).
  { intros op rest. destruct (vok (trim_space rest)) eqn:V; [|discriminate].
    destruct (beq op $"~>").
    - destruct (parse_core (trim_space (trim_space rest))) as [c|] eqn:P; [|discriminate].
      pose proof (pess_upper_le (trim_space (trim_space rest)) c (parse_core_wf _ _ P)) as L.
      destruct (pess_upper (trim_space (trim_space rest)) c) as [ma mi].
      intros H. injection H as <-. repeat constructor; simpl in *; tauto.
    - intros H. injection H as <-. repeat constructor. exact V. }
  destruct (first_prefix_ne hex_ops (x :: p')) as [[op rest]|]; apply G.
Qed.

Lemma parse_constraints_inv vok parts cs :
  parse_constraints vok parts = Some cs -> Forall (fun c => bound_inv vok (snd c)) cs.
Proof.
  revert cs. induction parts as [|p r IH]; intros cs; simpl.
  - intros H. injection H as <-. constructor.
  - destruct (beq (to_lower p) ["a"%char; "n"%char; "d"%char]); [apply IH|].
    destruct (parse_constraint vok p) as [c1|] eqn:P; [|discriminate].
    destruct (parse_constraints vok r) as [c2|]; [|discriminate].
    intros H. injection H as <-. apply Forall_app. split; [eapply parse_constraint_inv; eauto|auto].
Qed.

Lemma parse_range_inv vok rg x :
  parse_range vok rg = Some x -> Forall (fun c => bound_inv vok (snd c)) (r_cs x).
Proof.
  unfold parse_range. destruct (trim_space rg) as [|a b]; [discriminate|].
  destruct (parse_constraints vok (fields (a :: b))) as [cs|] eqn:P; [|discriminate].
  intros H. injection H as <-. simpl. eapply parse_constraints_inv; eauto.
Qed.

(* a non-negative synthesized bound is a version the model accepts *)
Lemma svok_synth ma mi :
  (0 <= ma <= max_int64)%Z -> (0 <= mi <= max_int64)%Z -> svok (synth_text ma mi) = true.
Proof.
  intros Ha Hi. apply svok_spec.
  rewrite <- (Z2N.id ma), <- (Z2N.id mi) by lia. rewrite Hex.RangeFacts.synth_text_ver3.
  assert (B : forall z, (0 <= z <= max_int64)%Z -> (Z.to_N z < two63)%N).
  { intros z Hz. unfold max_int64 in Hz. change two63 with 9223372036854775808%N. lia. }
  assert (T : trim_space (ver3 (Z.to_N ma) (Z.to_N mi) 0) = ver3 (Z.to_N ma) (Z.to_N mi) 0).
  { apply trim_space_no_space.
    pose proof (Hex.RangeFacts.scope_ver3 (Z.to_N ma) (Z.to_N mi) 0 [] eq_refl) as S. rewrite app_nil_r in S.
    unfold Hex.RangeFacts.scope_b in S. rewrite !andb_true_iff in S. tauto. }
  rewrite T. eexists. apply parse_release; auto. reflexivity.
Qed.

Lemma hex_agreement_self c1 c2 :
  agree svok c1 c2 ->
  forall rg v, r_contains Hex.Entry.r svok c1 rg v = r_contains Hex.Entry.r svok c2 rg v.
Proof.
  intros Ag rg v. unfold Hex.Entry.r, r_contains.
  destruct (parse_range svok rg) as [x|] eqn:P; [|reflexivity].
  destruct (svok v) eqn:Hv; [|reflexivity]. f_equal. unfold contains.
  pose proof (parse_range_inv svok rg x P) as F. rewrite Forall_forall in F.
  apply forallb_ext_in. intros k Hk. specialize (F k Hk).
  unfold sat_constraint. f_equal. destruct (snd k) as [t|ma mi]; simpl in *.
  - apply Ag; assumption.
  - destruct ((0 <=? ma)%Z && (0 <=? mi)%Z) eqn:N; [|reflexivity].
    apply andb_true_iff in N. destruct N as [N1 N2]. apply Z.leb_le in N1. apply Z.leb_le in N2.
    apply Ag; [assumption|]. apply svok_synth; lia.
Qed.

(* ---------- C20 for hex over oracles that are preorders on the accepted texts ---------- *)
Definition hex_pr (rg : bytes) : Prop :=
  exists r, parse_range svok rg = Some r /\ Hex.RangeFacts.synth_ok r = true.

Theorem hex_eq_on vcmp rg r a b :
  parse_range svok rg = Some r -> Hex.RangeFacts.synth_ok r = true ->
  TotalPreorderOn (fun s => svok s = true) vcmp -> svok a = true -> svok b = true -> vcmp a b = Eq ->
  r_contains Hex.Entry.r svok vcmp rg a = r_contains Hex.Entry.r svok vcmp rg b.
Proof.
  intros P Hs.
  apply (transfer_eq_for Hex.Entry.r svok hex_agreement_self hex_pr); [|exists r; auto].
  clear. intros vcmp rg a b (r & P & Hs) T Ha Hb E. unfold Hex.Entry.r, r_contains.
  rewrite P, Ha, Hb. f_equal. apply (Hex.RangeFacts.hex_c20_eq vcmp T r a b Hs E).
Qed.

Theorem hex_convex_on vcmp rg r a b c :
  parse_range svok rg = Some r -> Hex.RangeFacts.synth_ok r = true ->
  TotalPreorderOn (fun s => svok s = true) vcmp -> svok a = true -> svok b = true -> svok c = true ->
  le_c (vcmp a b) -> le_c (vcmp b c) ->
  r_contains Hex.Entry.r svok vcmp rg a = Some true -> r_contains Hex.Entry.r svok vcmp rg c = Some true ->
  r_contains Hex.Entry.r svok vcmp rg b = Some true.
Proof.
  intros P Hs.
  apply (transfer_convex_for Hex.Entry.r svok hex_agreement_self hex_pr); [|exists r; auto].
  clear. intros vcmp rg a b c (r & P & Hs) T Ha Hb Hc Hab Hbc. unfold Hex.Entry.r, r_contains.
  rewrite P, Ha, Hb, Hc. intros H1 H2. injection H1 as H1. injection H2 as H2. f_equal.
  apply (Hex.RangeFacts.hex_c20_convex vcmp T r a b c); assumption.
Qed.
