(* Properties/Support/MavenC20.v — the convexity half of C20 fails for maven: Compare is not
   transitive (finding F-maven-order-cycle), so an interval can contain two versions and miss one
   that Compare places between them. *)
From Verif.Base Require Import Bytes Ord.
From Verif.Eco Require Import Iface.
From Verif.Eco.Maven Require Import Version Range Entry.

Lemma maven_convexity_refuted :
  let e := Entry.entry in
  let a := $"1-5" in let b := $"1-sp" in let c := $"1-foo" in
  self_vcmp e a b = Lt /\ self_vcmp e b c = Lt /\
  r_contains (e_r e) (self_vok e) (self_vcmp e) $"(,1-5]" a = Some true /\
  r_contains (e_r e) (self_vok e) (self_vcmp e) $"(,1-5]" c = Some true /\
  r_contains (e_r e) (self_vok e) (self_vcmp e) $"(,1-5]" b = Some false.
Proof. vm_compute. repeat split; reflexivity. Qed.
