(* Properties/Support/RangeC18.v — C18 for ranges on the string-level interface [rops]:
   String() keeps the text up to outer whitespace, re-parsing it changes nothing, and padding
   with ASCII whitespace changes neither acceptance nor containment.  All three follow from two
   facts about a range model ("trim shape"): the printed text has the same trimmed form as the
   input, and acceptance / containment depend on the trimmed text only.  The two facts are
   proved here for every ecosystem's [Entry.r]. *)
From Coq Require Import Lia.
From Verif.Base Require Import Bytes BytesFacts GoNum Ord.
From Verif.Eco Require Import RangeCore RangeCoreFacts Iface VLayer VLayerFacts.
From Verif.Properties.Support Require Import SimpleRops.
From Verif.Eco.Cargo Require Range Entry.
From Verif.Eco.Composer Require Range Entry.
From Verif.Eco.Conan Require Range Entry.
From Verif.Eco.Hex Require Range Entry.
From Verif.Eco.Maven Require Range Entry.
From Verif.Eco.Npm Require Range Entry.
From Verif.Eco.Nuget Require Range Entry.
From Verif.Eco.Pypi Require Range Entry.
From Verif.Eco.Semver Require Range Entry.

Record trim_shape (ro : rops) : Prop := {
  ts_show : forall vok s x, r_show ro vok s = Some x -> trim_space x = trim_space s;
  ts_trim : forall vok vcmp s,
    (r_show ro vok s = None <-> r_show ro vok (trim_space s) = None) /\
    forall v, r_contains ro vok vcmp s v = r_contains ro vok vcmp (trim_space s) v
}.

Section Shape.
  Variable ro : rops.
  Hypothesis S : trim_shape ro.

  Lemma shape_same_trim vok vcmp s s' :
    trim_space s = trim_space s' ->
    (r_show ro vok s = None <-> r_show ro vok s' = None) /\
    forall v, r_contains ro vok vcmp s v = r_contains ro vok vcmp s' v.
  Proof.
    intros E. destruct (ts_trim ro S vok vcmp s) as [A1 B1]. destruct (ts_trim ro S vok vcmp s') as [A2 B2].
    split.
    - rewrite A1, A2, E. tauto.
    - intros v. rewrite B1, B2, E. reflexivity.
  Qed.

  Theorem shape_show_trim vok s x : r_show ro vok s = Some x -> trim_space x = trim_space s.
  Proof. apply (ts_show ro S). Qed.

  Theorem shape_reparse vok vcmp s x :
    r_show ro vok s = Some x ->
    r_show ro vok x <> None /\
    forall v, r_contains ro vok vcmp x v = r_contains ro vok vcmp s v.
  Proof.
    intros H. destruct (shape_same_trim vok vcmp x s (ts_show ro S vok s x H)) as [A B].
    split; [|exact B]. intros N. apply A in N. congruence.
  Qed.

  Theorem shape_pad vok vcmp p q s :
    forallb is_space p = true -> forallb is_space q = true ->
    (r_show ro vok (p ++ s ++ q) = None <-> r_show ro vok s = None) /\
    forall v, r_contains ro vok vcmp (p ++ s ++ q) v = r_contains ro vok vcmp s v.
  Proof. intros Hp Hq. apply shape_same_trim. apply trim_space_pad; assumption. Qed.
End Shape.

(* the ten [range_cfg] ecosystems *)
Lemma simple_shape cfg : trim_shape (mk_simple_rops cfg).
Proof.
  constructor.
  - intros vok s x. apply simple_show_trim.
  - intros vok vcmp s. apply simple_same_trim. symmetry. apply trim_space_idem.
Qed.

Lemma cargo_shape : trim_shape Cargo.Entry.r.
Proof.
  constructor.
  - intros vok s x. unfold Cargo.Entry.r, r_show, Cargo.Range.r_show, Cargo.Range.parse_range.
    destruct (trim_space s) eqn:E; [discriminate|].
    destruct (Cargo.Range.parse_constraints vok (split_comma_trim (a :: b))) as [[|c cs]|];
      simpl; try discriminate; intros H; injection H as <-; exact E.
  - intros vok vcmp s.
    unfold Cargo.Entry.r, r_show, r_contains, Cargo.Range.r_show, Cargo.Range.r_contains,
      Cargo.Range.parse_range.
    rewrite trim_space_idem. destruct (trim_space s) eqn:E; [split; [tauto|reflexivity]|].
    destruct (Cargo.Range.parse_constraints vok (split_comma_trim (a :: b))) as [[|c cs]|]; simpl;
      (split; [split; (discriminate || tauto)|reflexivity]).
Qed.

Lemma composer_shape : trim_shape Composer.Entry.r.
Proof.
  constructor.
  - intros vok s x. unfold Composer.Entry.r, r_show, Composer.Range.parse_range.
    destruct (trim_space s) eqn:E; [discriminate|].
    destruct (Composer.Range.parse_groups vok (a :: b)) as [gs|];
      simpl; try discriminate; intros H; injection H as <-. rewrite <- E. apply trim_space_idem.
  - intros vok vcmp s. unfold Composer.Entry.r, r_show, r_contains, Composer.Range.parse_range.
    rewrite trim_space_idem. split; [tauto|reflexivity].
Qed.

Lemma hex_shape : trim_shape Hex.Entry.r.
Proof.
  constructor.
  - intros vok s x. unfold Hex.Entry.r, r_show, Hex.Range.parse_range.
    destruct (trim_space s) eqn:E; [discriminate|].
    destruct (Hex.Range.parse_constraints vok (fields (a :: b))) as [cs|];
      simpl; try discriminate; intros H; injection H as <-; exact E.
  - intros vok vcmp s. unfold Hex.Entry.r, r_show, r_contains, Hex.Range.parse_range.
    rewrite trim_space_idem. destruct (trim_space s) eqn:E; [split; [tauto|reflexivity]|].
    destruct (Hex.Range.parse_constraints vok (fields (a :: b))) as [cs|]; simpl;
      (split; [split; (discriminate || tauto)|reflexivity]).
Qed.

Lemma maven_shape : trim_shape Maven.Entry.r.
Proof.
  constructor.
  - intros vok s x. unfold Maven.Entry.r, r_show, Maven.Range.parse_range.
    destruct (trim_space s) eqn:E; [discriminate|].
    destruct (Maven.Range.parseVersionRange vok (a :: b)) as [cs|];
      simpl; try discriminate; intros H; injection H as <-; exact E.
  - intros vok vcmp s. unfold Maven.Entry.r, r_show, r_contains, Maven.Range.parse_range.
    rewrite trim_space_idem. destruct (trim_space s) eqn:E; [split; [tauto|reflexivity]|].
    destruct (Maven.Range.parseVersionRange vok (a :: b)) as [cs|]; simpl;
      (split; [split; (discriminate || tauto)|reflexivity]).
Qed.

Lemma npm_shape : trim_shape Npm.Entry.r.
Proof.
  constructor.
  - intros vok s x. unfold Npm.Entry.r, r_show, Npm.Range.parse_range.
    destruct (trim_space s) eqn:E; [discriminate|].
    match goal with |- context [match ?g with Some gs => _ | None => None end] => destruct g end;
      simpl; try discriminate; intros H; injection H as <-. rewrite <- E. apply trim_space_idem.
  - intros vok vcmp s. unfold Npm.Entry.r, r_show, r_contains, Npm.Range.parse_range.
    rewrite trim_space_idem. split; [tauto|reflexivity].
Qed.

Lemma nuget_shape : trim_shape Nuget.Entry.r.
Proof.
  constructor.
  - intros vok s x. unfold Nuget.Entry.r, r_show, Nuget.Range.parse_range.
    destruct (trim_space s) eqn:E; [discriminate|].
    destruct (Nuget.Range.parse_cs vok (a :: b)) as [cs|];
      simpl; try discriminate; intros H; injection H as <-. rewrite <- E. apply trim_space_idem.
  - intros vok vcmp s. unfold Nuget.Entry.r, r_show, r_contains, Nuget.Range.parse_range.
    rewrite trim_space_idem. split; [tauto|reflexivity].
Qed.

Lemma pypi_shape : trim_shape Pypi.Entry.r.
Proof.
  constructor.
  - intros vok s x. unfold Pypi.Entry.r, r_show, Pypi.Range.parse_range.
    destruct (trim_space s) eqn:E; [discriminate|].
    destruct (Pypi.Range.parse_specifier vok (a :: b)) as [cs|];
      simpl; try discriminate; intros H; injection H as <-. rewrite <- E. apply trim_space_idem.
  - intros vok vcmp s. unfold Pypi.Entry.r, r_show, r_contains, Pypi.Range.parse_range.
    rewrite trim_space_idem. split; [tauto|reflexivity].
Qed.

Lemma semver_shape : trim_shape Semver.Entry.r.
Proof.
  constructor.
  - intros vok s x. unfold Semver.Entry.r, r_show, Semver.Range.parse_range.
    destruct (trim_space s) eqn:E; [discriminate|].
    destruct (Semver.Range.parse_all vok (Semver.Range.split_range (a :: b))) as [[|c cs]|];
      simpl; try discriminate; intros H; injection H as <-; rewrite <- E; apply trim_space_idem.
  - intros vok vcmp s. unfold Semver.Entry.r, r_show, r_contains, Semver.Range.parse_range.
    rewrite trim_space_idem. split; [tauto|reflexivity].
Qed.

(* conan lower-cases the text before trimming; lower-casing commutes with trimming *)
Lemma to_lower_c_space c : is_space (to_lower_c c) = is_space c.
Proof.
  destruct c as [b0 b1 b2 b3 b4 b5 b6 b7].
  destruct b0, b1, b2, b3, b4, b5, b6, b7; vm_compute; reflexivity.
Qed.

Lemma to_lower_drop_while s :
  to_lower (drop_while is_space s) = drop_while is_space (to_lower s).
Proof.
  induction s as [|c s IH]; [reflexivity|]. simpl. rewrite to_lower_c_space.
  destruct (is_space c); [exact IH|reflexivity].
Qed.

Lemma to_lower_rev s : to_lower (rev s) = rev (to_lower s).
Proof. unfold to_lower. apply map_rev. Qed.

Lemma to_lower_trim s : to_lower (trim_space s) = trim_space (to_lower s).
Proof.
  unfold trim_space, trim_right, trim_left.
  rewrite to_lower_rev, to_lower_drop_while, to_lower_rev, to_lower_drop_while. reflexivity.
Qed.

Lemma conan_shape : trim_shape Conan.Entry.r.
Proof.
  constructor.
  - intros vok s x. unfold Conan.Entry.r, r_show, Conan.Range.parse_range.
    destruct (trim_space (to_lower s)) eqn:E; [discriminate|].
    destruct (Conan.Range.parse_groups vok (split_sub $"||" (a :: b))) as [[|g gs]|];
      simpl; try discriminate; intros H; injection H as <-; reflexivity.
  - intros vok vcmp s. unfold Conan.Entry.r, r_show, r_contains, Conan.Range.parse_range.
    rewrite to_lower_trim, trim_space_idem.
    destruct (trim_space (to_lower s)) eqn:E; [split; [tauto|reflexivity]|].
    destruct (Conan.Range.parse_groups vok (split_sub $"||" (a :: b))) as [[|g gs]|]; simpl;
      (split; [split; (discriminate || tauto)|reflexivity]).
Qed.
