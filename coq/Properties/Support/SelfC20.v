(* Properties/Support/SelfC20.v — C20 for npm, nuget, pypi, semver for version oracles that are
   total preorders on the ACCEPTED texts only (in particular the model's own version layer):
   the lemmas of Eco/<E>/RangeFacts.v, which assume a total preorder on all texts, transferred
   with Properties/Support/SelfOracle.v. *)
From Verif.Base Require Import Bytes BytesFacts GoNum Ord.
From Verif.Eco Require Import RangeCore RangeCoreFacts Iface.
From Verif.Properties.Support Require Import SimpleRops SelfOracle.
From Verif.Eco.Npm Require Range RangeFacts Entry.
From Verif.Eco.Pypi Require Range RangeFacts Entry.
From Verif.Eco.Semver Require Range RangeFacts Entry.
From Verif.Eco.Nuget Require Range RangeFacts Entry.

Notation okp vok := (fun s : bytes => vok s = true).

(* ---------- npm ---------- *)
Theorem npm_eq_on vok vcmp rg a b :
  TotalPreorderOn (okp vok) vcmp -> vok a = true -> vok b = true -> vcmp a b = Eq ->
  r_contains Npm.Entry.r vok vcmp rg a = r_contains Npm.Entry.r vok vcmp rg b.
Proof.
  intros T. apply (transfer_eq Npm.Entry.r npm_agreement (fun _ _ => True)); auto.
  intros vok' vcmp' rg' a' b' _ T'. apply Npm.RangeFacts.npm_c20_eq_text, T'.
Qed.

Theorem npm_convex_on vok vcmp rg a b c :
  contains_sub $"||" (trim_space rg) = false ->
  TotalPreorderOn (okp vok) vcmp -> vok a = true -> vok b = true -> vok c = true ->
  le_c (vcmp a b) -> le_c (vcmp b c) ->
  r_contains Npm.Entry.r vok vcmp rg a = Some true -> r_contains Npm.Entry.r vok vcmp rg c = Some true ->
  r_contains Npm.Entry.r vok vcmp rg b = Some true.
Proof.
  apply (transfer_convex Npm.Entry.r npm_agreement
           (fun _ rg => contains_sub $"||" (trim_space rg) = false)).
  clear. intros vok vcmp rg a b c HP T Ha Hb Hc Hab Hbc. unfold Npm.Entry.r, r_contains.
  destruct (Npm.Range.parse_range vok rg) as [x|] eqn:P; [|discriminate].
  rewrite Ha, Hb, Hc. intros H1 H2. injection H1 as H1. injection H2 as H2. f_equal.
  apply (Npm.RangeFacts.npm_c20_convex vok vcmp T rg x a b c); assumption.
Qed.

(* ---------- nuget ---------- *)
Theorem nuget_eq_on vok vcmp rg a b :
  TotalPreorderOn (okp vok) vcmp -> vok a = true -> vok b = true -> vcmp a b = Eq ->
  r_contains Nuget.Entry.r vok vcmp rg a = r_contains Nuget.Entry.r vok vcmp rg b.
Proof.
  intros T. apply (transfer_eq Nuget.Entry.r nuget_agreement (fun _ _ => True)); auto.
  clear. intros vok vcmp rg a b _ T Ha Hb E. unfold Nuget.Entry.r, r_contains.
  destruct (Nuget.Range.parse_range vok rg) as [x|]; [|reflexivity].
  rewrite Ha, Hb. f_equal. apply Nuget.RangeFacts.nuget_c20_eq; assumption.
Qed.

Theorem nuget_convex_on vok vcmp rg r a b c :
  Nuget.Range.parse_range vok rg = Some r -> Nuget.RangeFacts.conj_only r = true ->
  TotalPreorderOn (okp vok) vcmp -> vok a = true -> vok b = true -> vok c = true ->
  le_c (vcmp a b) -> le_c (vcmp b c) ->
  r_contains Nuget.Entry.r vok vcmp rg a = Some true -> r_contains Nuget.Entry.r vok vcmp rg c = Some true ->
  r_contains Nuget.Entry.r vok vcmp rg b = Some true.
Proof.
  intros P Hcv.
  apply (transfer_convex Nuget.Entry.r nuget_agreement
           (fun vok rg => exists r, Nuget.Range.parse_range vok rg = Some r /\
                                    Nuget.RangeFacts.conj_only r = true)); [|eauto].
  clear. intros vok vcmp rg a b c (r & P & Hcv) T Ha Hb Hc Hab Hbc. unfold Nuget.Entry.r, r_contains.
  rewrite P, Ha, Hb, Hc. intros H1 H2. injection H1 as H1. injection H2 as H2. f_equal.
  apply (Nuget.RangeFacts.nuget_c20_convex vcmp T r a b c); assumption.
Qed.

(* ---------- semver ---------- *)
Theorem semver_eq_on vok vcmp rg a b :
  TotalPreorderOn (okp vok) vcmp -> vok a = true -> vok b = true -> vcmp a b = Eq ->
  r_contains Semver.Entry.r vok vcmp rg a = r_contains Semver.Entry.r vok vcmp rg b.
Proof.
  intros T. apply (transfer_eq Semver.Entry.r semver_agreement (fun _ _ => True)); auto.
  clear. intros vok vcmp rg a b _ T Ha Hb E. unfold Semver.Entry.r, r_contains.
  destruct (Semver.Range.parse_range vok rg) as [x|]; [|reflexivity].
  rewrite Ha, Hb. f_equal. apply Semver.RangeFacts.c20_eq; assumption.
Qed.

Theorem semver_convex_on vok vcmp rg r a b c :
  Semver.Range.parse_range vok rg = Some r -> Semver.RangeFacts.no_ne r = true ->
  TotalPreorderOn (okp vok) vcmp -> vok a = true -> vok b = true -> vok c = true ->
  le_c (vcmp a b) -> le_c (vcmp b c) ->
  r_contains Semver.Entry.r vok vcmp rg a = Some true -> r_contains Semver.Entry.r vok vcmp rg c = Some true ->
  r_contains Semver.Entry.r vok vcmp rg b = Some true.
Proof.
  intros P Hcv.
  apply (transfer_convex Semver.Entry.r semver_agreement
           (fun vok rg => exists r, Semver.Range.parse_range vok rg = Some r /\
                                    Semver.RangeFacts.no_ne r = true)); [|eauto].
  clear. intros vok vcmp rg a b c (r & P & Hcv) T Ha Hb Hc Hab Hbc. unfold Semver.Entry.r, r_contains.
  rewrite P, Ha, Hb, Hc. intros H1 H2. injection H1 as H1. injection H2 as H2. f_equal.
  apply (Semver.RangeFacts.c20_convex vcmp T r a b c); assumption.
Qed.

(* ---------- pypi ---------- *)
Theorem pypi_eq_on vok vcmp rg r a b :
  Pypi.Range.parse_range vok rg = Some r ->
  Pypi.RangeFacts.no_arbitrary_eq (Pypi.Range.r_cs r) = true ->
  TotalPreorderOn (okp vok) vcmp -> vok a = true -> vok b = true -> vcmp a b = Eq ->
  r_contains Pypi.Entry.r vok vcmp rg a = r_contains Pypi.Entry.r vok vcmp rg b.
Proof.
  intros P Hn.
  apply (transfer_eq Pypi.Entry.r pypi_agreement
           (fun vok rg => exists r, Pypi.Range.parse_range vok rg = Some r /\
                                    Pypi.RangeFacts.no_arbitrary_eq (Pypi.Range.r_cs r) = true)); [|eauto].
  clear. intros vok vcmp rg a b (r & P & Hn) T Ha Hb E. unfold Pypi.Entry.r, r_contains.
  rewrite P, Ha, Hb. f_equal. apply Pypi.RangeFacts.c20_eq; assumption.
Qed.

Theorem pypi_convex_on vok vcmp rg r a b c :
  Pypi.Range.parse_range vok rg = Some r ->
  Pypi.RangeFacts.convex_cs (Pypi.Range.r_cs r) = true ->
  TotalPreorderOn (okp vok) vcmp -> vok a = true -> vok b = true -> vok c = true ->
  le_c (vcmp a b) -> le_c (vcmp b c) ->
  r_contains Pypi.Entry.r vok vcmp rg a = Some true -> r_contains Pypi.Entry.r vok vcmp rg c = Some true ->
  r_contains Pypi.Entry.r vok vcmp rg b = Some true.
Proof.
  intros P Hcv.
  apply (transfer_convex Pypi.Entry.r pypi_agreement
           (fun vok rg => exists r, Pypi.Range.parse_range vok rg = Some r /\
                                    Pypi.RangeFacts.convex_cs (Pypi.Range.r_cs r) = true)); [|eauto].
  clear. intros vok vcmp rg a b c (r & P & Hcv) T Ha Hb Hc Hab Hbc. unfold Pypi.Entry.r, r_contains.
  rewrite P, Ha, Hb, Hc. intros H1 H2. injection H1 as H1. injection H2 as H2. f_equal.
  apply (Pypi.RangeFacts.c20_convex vok vcmp r a b c T); assumption.
Qed.
