(* Properties/Support/SelfOracle.v — from "vcmp is a total preorder on ALL texts" to "vcmp is a
   total preorder on the ACCEPTED texts" for range models given as [rops].

   The C20 lemmas written with the custom range models assume [TotalPreorder vcmp].  The model's
   own version layer compares rejected texts as Eq, so it satisfies the laws on accepted texts
   only.  Two facts close the gap:
     (1) any comparison that is a total preorder on the accepted texts extends to a total
         preorder [ext_cmp] on all texts (rejected texts form one class below everything);
     (2) a range model asks the comparison only about accepted texts ("agreement suffices"),
         proved here for npm, pypi, semver and nuget.
   With (1) and (2) an EQ / CONVEX theorem for total-preorder oracles transfers verbatim to
   oracles that are total preorders on the accepted texts, in particular to [self_vcmp]. *)
From Coq Require Import Lia.
From Verif.Base Require Import Bytes BytesFacts GoNum Ord.
From Verif.Eco Require Import RangeCore RangeCoreFacts Iface VLayer VLayerFacts.
From Verif.Properties.Support Require Import SimpleRops.
From Verif.Eco.Npm Require Range RangeFacts Entry.
From Verif.Eco.Pypi Require Range RangeFacts Entry.
From Verif.Eco.Semver Require Range RangeFacts Entry.
From Verif.Eco.Nuget Require Range RangeFacts Entry.

(* ---------- (1) the extension ---------- *)
Section Ext.
  Variable vok : bytes -> bool.
  Variable vcmp : bytes -> bytes -> comparison.
  Notation ok := (fun s : bytes => vok s = true).

  Definition ext_cmp (a b : bytes) : comparison :=
    match vok a, vok b with
    | true, true => vcmp a b
    | true, false => Gt
    | false, true => Lt
    | false, false => Eq
    end.

  Lemma ext_agree a b : vok a = true -> vok b = true -> ext_cmp a b = vcmp a b.
  Proof. intros Ha Hb. unfold ext_cmp. rewrite Ha, Hb. reflexivity. Qed.

  Lemma ext_tp : TotalPreorderOn ok vcmp -> TotalPreorder ext_cmp.
  Proof.
    intros T. constructor.
    - intros a. unfold ext_cmp. destruct (vok a) eqn:Ha; [apply (tpo_refl T); exact Ha|reflexivity].
    - intros a b. unfold ext_cmp. destruct (vok a) eqn:Ha, (vok b) eqn:Hb; try reflexivity.
      apply (tpo_anti T); assumption.
    - intros a b c x. unfold ext_cmp.
      destruct (vok a) eqn:Ha, (vok b) eqn:Hb, (vok c) eqn:Hc; try congruence.
      apply (tpo_trans T); assumption.
    - intros a b c. unfold ext_cmp.
      destruct (vok a) eqn:Ha, (vok b) eqn:Hb, (vok c) eqn:Hc; try congruence; try discriminate.
      apply (tpo_eq_l T); assumption.
  Qed.
End Ext.

Definition agree (vok : bytes -> bool) (c1 c2 : bytes -> bytes -> comparison) : Prop :=
  forall x y, vok x = true -> vok y = true -> c1 x y = c2 x y.

(* (2) for a range model: the comparison is only asked about accepted texts *)
Definition agreement_suffices (R : rops) : Prop :=
  forall vok c1 c2, agree vok c1 c2 ->
  forall rg v, r_contains R vok c1 rg v = r_contains R vok c2 rg v.

(* ---------- the transfer ---------- *)
Section Transfer.
  Variable R : rops.
  Hypothesis A : agreement_suffices R.

  Lemma to_ext vok vcmp rg v :
    r_contains R vok vcmp rg v = r_contains R vok (ext_cmp vok vcmp) rg v.
  Proof. apply A. intros x y Hx Hy. symmetry. apply ext_agree; assumption. Qed.

  (* [Pr vok rg]: a side condition on the range text (e.g. "no || and no !=") *)
  Variable Pr : (bytes -> bool) -> bytes -> Prop.

  Theorem transfer_eq :
    (forall vok vcmp rg a b, Pr vok rg -> TotalPreorder vcmp ->
       vok a = true -> vok b = true -> vcmp a b = Eq ->
       r_contains R vok vcmp rg a = r_contains R vok vcmp rg b) ->
    forall vok vcmp rg a b, Pr vok rg -> TotalPreorderOn (fun s => vok s = true) vcmp ->
       vok a = true -> vok b = true -> vcmp a b = Eq ->
       r_contains R vok vcmp rg a = r_contains R vok vcmp rg b.
  Proof.
    intros H vok vcmp rg a b HP T Ha Hb E.
    rewrite (to_ext vok vcmp rg a), (to_ext vok vcmp rg b).
    apply H; auto; [apply ext_tp, T|]. rewrite ext_agree; assumption.
  Qed.

  Theorem transfer_convex :
    (forall vok vcmp rg a b c, Pr vok rg -> TotalPreorder vcmp ->
       vok a = true -> vok b = true -> vok c = true ->
       le_c (vcmp a b) -> le_c (vcmp b c) ->
       r_contains R vok vcmp rg a = Some true -> r_contains R vok vcmp rg c = Some true ->
       r_contains R vok vcmp rg b = Some true) ->
    forall vok vcmp rg a b c, Pr vok rg -> TotalPreorderOn (fun s => vok s = true) vcmp ->
       vok a = true -> vok b = true -> vok c = true ->
       le_c (vcmp a b) -> le_c (vcmp b c) ->
       r_contains R vok vcmp rg a = Some true -> r_contains R vok vcmp rg c = Some true ->
       r_contains R vok vcmp rg b = Some true.
  Proof.
    intros H vok vcmp rg a b c HP T Ha Hb Hc Hab Hbc.
    rewrite (to_ext vok vcmp rg a), (to_ext vok vcmp rg b), (to_ext vok vcmp rg c).
    apply H; auto; [apply ext_tp, T| |]; rewrite ext_agree; assumption.
  Qed.
End Transfer.

(* ---------- list helpers ---------- *)
Lemma forallb_ext_in {A} (f g : A -> bool) l :
  (forall x, In x l -> f x = g x) -> forallb f l = forallb g l.
Proof.
  induction l as [|x l IH]; intros H; [reflexivity|]. simpl.
  rewrite (H x (or_introl eq_refl)), IH; [reflexivity|]. intros y Hy. apply H. right. exact Hy.
Qed.

Lemma existsb_ext_in {A} (f g : A -> bool) l :
  (forall x, In x l -> f x = g x) -> existsb f l = existsb g l.
Proof.
  induction l as [|x l IH]; intros H; [reflexivity|]. simpl.
  rewrite (H x (or_introl eq_refl)), IH; [reflexivity|]. intros y Hy. apply H. right. exact Hy.
Qed.

(* ---------- npm: every comparison is guarded by [vok bound] ---------- *)
Lemma npm_agreement : agreement_suffices Npm.Entry.r.
Proof.
  intros vok c1 c2 Ag rg v. unfold Npm.Entry.r, r_contains.
  destruct (Npm.Range.parse_range vok rg) as [x|]; [|reflexivity].
  destruct (vok v) eqn:Hv; [|reflexivity]. f_equal. unfold Npm.Range.contains.
  apply existsb_ext_in. intros g _. apply forallb_ext_in. intros k _.
  unfold Npm.Range.matches. destruct (beq (fst k) $"*"); [reflexivity|].
  destruct (vok (snd k)) eqn:Hk; [|reflexivity]. rewrite (Ag v (snd k) Hv Hk). reflexivity.
Qed.

(* ---------- pypi: likewise ---------- *)
Lemma pypi_agreement : agreement_suffices Pypi.Entry.r.
Proof.
  intros vok c1 c2 Ag rg v. unfold Pypi.Entry.r, r_contains.
  destruct (Pypi.Range.parse_range vok rg) as [x|]; [|reflexivity].
  destruct (vok v) eqn:Hv; [|reflexivity]. f_equal. unfold Pypi.Range.contains.
  apply forallb_ext_in. intros k _. unfold Pypi.Range.matches.
  destruct (beq (Pypi.Range.c_op k) $"==="); [reflexivity|].
  destruct (vok (Pypi.Range.c_ver k)) eqn:Hk; [|reflexivity].
  rewrite (Ag v _ Hv Hk).
  destruct (beq (Pypi.Range.c_op k) $"!=*"); [|reflexivity].
  destruct (vok (Pypi.Range.c_upper k)) eqn:Hu; [|reflexivity].
  rewrite (Ag v _ Hv Hu). reflexivity.
Qed.

(* ---------- semver: every stored bound was accepted at parse time ---------- *)
Definition semver_bound_ok (vok : bytes -> bool) (k : Semver.Range.constr) : Prop :=
  match k with Semver.Range.Wild => True | Semver.Range.Cmp _ b => vok b = true end.

Lemma semver_parse_single_ok vok c k :
  Semver.Range.parse_single vok c = Some k -> semver_bound_ok vok k.
Proof.
  unfold Semver.Range.parse_single.
  destruct (beq (trim_space c) $"*"); [intros H; injection H as <-; exact I|].
  destruct (first_prefix Semver.Range.semver_ops (trim_space c)) as [[op rest]|].
  - destruct (trim_space rest) as [|x y] eqn:E; [discriminate|].
    destruct (vok (x :: y)) eqn:V; [|discriminate]. intros H. injection H as <-. exact V.
  - destruct (vok (trim_space c)) eqn:V; [|discriminate]. intros H. injection H as <-. exact V.
Qed.

Lemma semver_parse_all_ok vok parts cs :
  Semver.Range.parse_all vok parts = Some cs -> Forall (semver_bound_ok vok) cs.
Proof.
  revert cs. induction parts as [|p r IH]; intros cs; simpl.
  - intros H. injection H as <-. constructor.
  - destruct (Semver.Range.parse_single vok p) as [k|] eqn:P; [|discriminate].
    destruct (Semver.Range.parse_all vok r) as [ks|]; [|discriminate].
    intros H. injection H as <-. constructor; [eapply semver_parse_single_ok; eauto|auto].
Qed.

Lemma semver_parse_range_ok vok rg x :
  Semver.Range.parse_range vok rg = Some x -> Forall (semver_bound_ok vok) (Semver.Range.r_cs x).
Proof.
  unfold Semver.Range.parse_range. destruct (trim_space rg) as [|a b]; [discriminate|].
  destruct (Semver.Range.parse_all vok (Semver.Range.split_range (a :: b))) as [[|k ks]|] eqn:P;
    try discriminate.
  intros H. injection H as <-. simpl. eapply semver_parse_all_ok; eauto.
Qed.

Lemma semver_agreement : agreement_suffices Semver.Entry.r.
Proof.
  intros vok c1 c2 Ag rg v. unfold Semver.Entry.r, r_contains.
  destruct (Semver.Range.parse_range vok rg) as [x|] eqn:P; [|reflexivity].
  destruct (vok v) eqn:Hv; [|reflexivity]. f_equal. unfold Semver.Range.contains.
  pose proof (semver_parse_range_ok vok rg x P) as F. rewrite Forall_forall in F.
  apply forallb_ext_in. intros k Hk. specialize (F k Hk).
  destruct k as [|op b]; [reflexivity|]. simpl in *. rewrite (Ag v b Hv F). reflexivity.
Qed.

(* ---------- nuget: every stored bound was accepted at parse time ---------- *)
Section NugetOk.
  Variable vok : bytes -> bool.
  Notation bok := (fun c : RangeCore.constraint => vok (snd c) = true).

  Ltac fin := intros H; injection H as <-; repeat constructor; assumption.

  Lemma two_bounds_ok o1 o2 a b cs : Nuget.Range.two_bounds vok o1 o2 a b = Some cs -> Forall bok cs.
  Proof.
    unfold Nuget.Range.two_bounds. destruct (vok a) eqn:Va; [|discriminate].
    destruct (vok b) eqn:Vb; [|discriminate]. fin.
  Qed.

  Lemma parse_incl_ok t cs : Nuget.Range.parse_incl vok t = Some cs -> Forall bok cs.
  Proof.
    unfold Nuget.Range.parse_incl.
    destruct (split_c ","%char (Nuget.Range.inner t)) as [|p0 [|p1 [|p2 l]]]; try discriminate.
    apply two_bounds_ok.
  Qed.

  Lemma parse_mixed_ok t cs : Nuget.Range.parse_mixed vok t = Some cs -> Forall bok cs.
  Proof.
    unfold Nuget.Range.parse_mixed.
    destruct (split_c ","%char (Nuget.Range.inner t)) as [|p0 [|p1 [|p2 l]]]; try discriminate.
    destruct (Nuget.Range.is_nil (trim_space p0) && negb (Nuget.Range.is_nil (trim_space p1))).
    { destruct (vok (trim_space p1)) eqn:V; [|discriminate]. fin. }
    destruct (negb (Nuget.Range.is_nil (trim_space p0)) && Nuget.Range.is_nil (trim_space p1)).
    { destruct (vok (trim_space p0)) eqn:V; [|discriminate]. fin. }
    apply two_bounds_ok.
  Qed.

  Lemma parse_excl_ok t cs : Nuget.Range.parse_excl vok t = Some cs -> Forall bok cs.
  Proof.
    unfold Nuget.Range.parse_excl.
    destruct (split_c ","%char (Nuget.Range.inner t)) as [|p0 [|p1 [|p2 l]]] eqn:S; try discriminate.
    destruct (xorb _ _); [apply parse_mixed_ok|apply two_bounds_ok].
  Qed.

  Lemma parse_single_ok c k : Nuget.Range.parse_single vok c = Some k -> bok k.
  Proof.
    unfold Nuget.Range.parse_single.
    destruct (first_prefix Nuget.Range.nuget_ops (trim_space c)) as [[op rest]|].
    - destruct (vok (trim_space rest)) eqn:V; [|discriminate]. intros H. injection H as <-. exact V.
    - destruct (vok (trim_space c)) eqn:V; [|discriminate]. intros H. injection H as <-. exact V.
  Qed.

  Lemma parse_parts_ok parts cs : Nuget.Range.parse_parts vok parts = Some cs -> Forall bok cs.
  Proof.
    revert cs. induction parts as [|p r IH]; intros cs; simpl.
    - intros H. injection H as <-. constructor.
    - destruct (trim_space p) as [|x y] eqn:E; [apply IH|].
      destruct (Nuget.Range.parse_single vok (x :: y)) as [k|] eqn:P; [|discriminate].
      destruct (Nuget.Range.parse_parts vok r) as [ks|]; [|discriminate].
      intros H. injection H as <-. constructor; [eapply parse_single_ok; eauto|auto].
  Qed.

  Lemma parse_plain_ok t cs : Nuget.Range.parse_plain vok t = Some cs -> Forall bok cs.
  Proof.
    unfold Nuget.Range.parse_plain, Nuget.Range.parse_comma.
    destruct (contains_c ","%char t).
    - destruct (_ || _ || _ || _); [discriminate|].
      destruct (Nuget.Range.parse_parts vok (split_c ","%char t)) as [[|k ks]|] eqn:P; try discriminate.
      intros H. injection H as <-. eapply parse_parts_ok; eauto.
    - destruct (vok t) eqn:V; [|discriminate]. fin.
  Qed.

  Lemma parse_cs_ok t cs : Nuget.Range.parse_cs vok t = Some cs -> Forall bok cs.
  Proof.
    unfold Nuget.Range.parse_cs.
    destruct ((_ || _) && (_ || _)); [|apply parse_plain_ok].
    destruct (_ || _); [discriminate|].
    destruct (_ && _ && negb _).
    { destruct (trim_space (Nuget.Range.inner t)) as [|x y] eqn:E; [discriminate|].
      destruct (vok (x :: y)) eqn:V; [|discriminate]. fin. }
    destruct (_ && _ && _); [apply parse_incl_ok|].
    destruct (_ && _ && _); [apply parse_excl_ok|].
    destruct (_ && _); [apply parse_mixed_ok|apply parse_plain_ok].
  Qed.

  Lemma nuget_parse_range_ok rg x :
    Nuget.Range.parse_range vok rg = Some x -> Forall bok (Nuget.Range.r_cs x).
  Proof.
    unfold Nuget.Range.parse_range. destruct (trim_space rg) as [|a b]; [discriminate|].
    destruct (Nuget.Range.parse_cs vok (a :: b)) as [cs|] eqn:P; [|discriminate].
    intros H. injection H as <-. simpl. eapply parse_cs_ok; eauto.
  Qed.
End NugetOk.

Lemma nuget_agreement : agreement_suffices Nuget.Entry.r.
Proof.
  intros vok c1 c2 Ag rg v. unfold Nuget.Entry.r, r_contains.
  destruct (Nuget.Range.parse_range vok rg) as [x|] eqn:P; [|reflexivity].
  destruct (vok v) eqn:Hv; [|reflexivity]. f_equal. unfold Nuget.Range.contains.
  pose proof (nuget_parse_range_ok vok rg x P) as F. rewrite Forall_forall in F.
  apply forallb_ext_in. intros k Hk. specialize (F k Hk). simpl in F.
  unfold Nuget.Range.sat_constraint. rewrite (Ag v (snd k) Hv F). reflexivity.
Qed.
