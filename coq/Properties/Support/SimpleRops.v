(* Properties/Support/SimpleRops.v — the generic theorems of Eco/RangeCoreFacts.v restated on the
   string-level interface [mk_simple_rops cfg] (Eco/Iface.v), for arbitrary version oracles
   [vok] / [vcmp]; used by Properties/C02.v, C18.v, C20.v for the ten ecosystems whose range
   parser is a [range_cfg].  Also: the model's own version layer ([self_vok], [self_vcmp]) is a
   total preorder on the accepted texts whenever the ecosystem's [cmp_core] is one on parsed
   cores, so that the C20 theorems apply end to end. *)
From Coq Require Import Lia.
From Verif.Base Require Import Bytes BytesFacts GoNum Ord.
From Verif.Eco Require Import RangeCore RangeCoreFacts Iface VLayer VLayerFacts.

Lemma oracle_parse_ok vok a : vok a = true -> oracle_parse vok a = Some a.
Proof. intros H. unfold oracle_parse. rewrite H. reflexivity. Qed.

Lemma oracle_parse_some vok a b : oracle_parse vok a = Some b -> b = a /\ vok a = true.
Proof. unfold oracle_parse. destruct (vok a); [|discriminate]. intros H. injection H as <-. auto. Qed.

(* ---------- C02 ---------- *)
Section C02.
  Variable cfg : range_cfg.
  Variable vok : bytes -> bool.
  Variable vcmp : bytes -> bytes -> comparison.
  Hypothesis Hok : ops_ok (rc_ops cfg) = true.

  Notation rcontains := (r_contains (mk_simple_rops cfg) vok vcmp).

  (* the scope of one comparator of a list: a supported operator, an in-scope bound the version
     layer accepts *)
  Definition con_ok (c : constraint) : Prop :=
    In (fst c) (rc_ops cfg) /\ bound_in_scope (snd c) /\ vok (snd c) = true.

  Lemma con_ok_scope c : con_ok c -> cons_in_scope bytes (oracle_parse vok) cfg c.
  Proof.
    intros (H1 & H2 & H3). repeat split; try apply H2; auto.
    exists (snd c). apply oracle_parse_ok. assumption.
  Qed.

  Lemma forallb_oracle cs v :
    Forall con_ok cs ->
    forallb (fun c => match oracle_parse vok (snd c) with
                      | Some b => sat (rc_sem cfg (fst c)) (vcmp v b)
                      | None => false end) cs =
    forallb (fun c => sat (rc_sem cfg (fst c)) (vcmp v (snd c))) cs.
  Proof.
    induction cs as [|c cs IH]; intros HF; [reflexivity|].
    inversion HF as [|? ? (_ & _ & H3) HF']; subst. cbn [forallb].
    rewrite (oracle_parse_ok vok _ H3), (IH HF'). reflexivity.
  Qed.

  (* a range text whose constraint texts are [op ++ bound] for the elements of [cs] *)
  Theorem simple_c02_list t cs v :
    cs <> [] -> Forall con_ok cs ->
    trim_space t <> [] -> rc_split cfg (trim_space t) = map ctext cs ->
    vok v = true ->
    rcontains t v = Some (forallb (fun c => sat (rc_sem cfg (fst c)) (vcmp v (snd c))) cs).
  Proof.
    intros Hne HF Ht Hsp Hv.
    destruct (simple_range_c02 bytes (oracle_parse vok) vcmp cfg t cs Hok Hne) as (r & Hr & Hc); auto.
    { rewrite Forall_forall in *. intros c Hc. apply con_ok_scope. auto. }
    unfold mk_simple_rops, r_contains. rewrite Hr, Hv, Hc. f_equal. apply forallb_oracle. assumption.
  Qed.

  Theorem simple_c02_single op a v :
    In op (rc_ops cfg) -> bound_in_scope a -> rc_split cfg (op ++ a) = [op ++ a] ->
    vok a = true -> vok v = true ->
    rcontains (op ++ a) v = Some (sat (rc_sem cfg op) (vcmp v a)).
  Proof.
    intros Hin Hsc Hsp Ha Hv.
    destruct (simple_range_c02_single bytes (oracle_parse vok) vcmp cfg op a a Hok Hin Hsc
                (oracle_parse_ok vok a Ha) Hsp) as (r & Hr & Hc).
    unfold mk_simple_rops, r_contains. rewrite Hr, Hv, Hc. reflexivity.
  Qed.

  Theorem simple_c02_bare a v :
    bound_in_scope a -> rc_split cfg a = [a] ->
    vok a = true -> vok v = true ->
    rcontains a v = Some (sat (rc_sem cfg $"=") (vcmp v a)).
  Proof.
    intros Hsc Hsp Ha Hv. pose proof Hsc as (Hne & Hns & Hhd).
    unfold mk_simple_rops, r_contains, parse_range.
    rewrite (trim_space_no_space a Hns). destruct a as [|c a'] eqn:E; [contradiction|]. rewrite <- E in *.
    rewrite Hsp. cbn [parse_constraints]. rewrite (parse_constraint_bare cfg a Hok Hsc).
    unfold bound_ok. cbn [snd]. rewrite (oracle_parse_ok vok a Ha).
    replace (if rc_eager cfg then true else true) with true by (destruct (rc_eager cfg); reflexivity).
    rewrite Hv. unfold contains. cbn [r_cs forallb].
    unfold sat_constraint. cbn [fst snd]. rewrite (oracle_parse_ok vok a Ha), andb_true_r. reflexivity.
  Qed.
End C02.

(* ---------- total preorders on the accepted texts ---------- *)
Section OnOk.
  Variable vok : bytes -> bool.
  Variable vcmp : bytes -> bytes -> comparison.
  Notation ok := (fun s : bytes => vok s = true).
  Hypothesis T : TotalPreorderOn ok vcmp.

  Lemma on_eq_r a b c : ok a -> ok b -> ok c -> vcmp a b = Eq -> vcmp c a = vcmp c b.
  Proof.
    intros Ha Hb Hc H. rewrite (tpo_anti T a c Ha Hc), (tpo_anti T b c Hb Hc).
    f_equal. apply (tpo_eq_l T); assumption.
  Qed.

  Lemma on_lt_trans a b c : ok a -> ok b -> ok c ->
    le_c (vcmp a b) -> le_c (vcmp b c) -> (lt_c (vcmp a b) \/ lt_c (vcmp b c)) -> lt_c (vcmp a c).
  Proof.
    unfold le_c, lt_c. intros Ha Hb Hc Hab Hbc Hs.
    destruct (vcmp a b) eqn:Eab; try congruence.
    - rewrite (tpo_eq_l T a b c Ha Hb Hc Eab). destruct Hs; congruence.
    - destruct (vcmp b c) eqn:Ebc; try congruence.
      + rewrite <- (on_eq_r b c a Hb Hc Ha Ebc). assumption.
      + apply (tpo_trans T a b c Ha Hb Hc Eab Ebc).
  Qed.

  Lemma on_sat_convex o x a b c :
    ok x -> ok a -> ok b -> ok c ->
    convex_op o = true ->
    le_c (vcmp a b) -> le_c (vcmp b c) ->
    sat o (vcmp a x) = true -> sat o (vcmp c x) = true -> sat o (vcmp b x) = true.
  Proof.
    intros Hx Ha Hb Hc Ho Hab Hbc Hax Hcx.
    destruct (vcmp b x) eqn:Ebx.
    - rewrite <- (on_eq_r b x a Hb Hx Ha Ebx) in Hax. rewrite <- (on_eq_r b x c Hb Hx Hc Ebx) in Hcx.
      rewrite (tpo_anti T b c Hb Hc) in Hcx. unfold le_c in *.
      destruct o; simpl in *; try discriminate; try reflexivity.
      + destruct (vcmp b c); simpl in Hcx; try discriminate. congruence.
      + destruct (vcmp a b); simpl in Hax; try discriminate. congruence.
    - assert (Hlt : vcmp a x = Lt).
      { apply (on_lt_trans a b x Ha Hb Hx Hab); [unfold le_c; congruence|right; exact Ebx]. }
      rewrite Hlt in Hax. destruct o; simpl in *; try discriminate; reflexivity.
    - assert (Hxc : vcmp x c = Lt).
      { apply (on_lt_trans x b c Hx Hb Hc); [|exact Hbc|].
        - unfold le_c. rewrite (tpo_anti T b x Hb Hx), Ebx. discriminate.
        - left. unfold lt_c. rewrite (tpo_anti T b x Hb Hx), Ebx. reflexivity. }
      assert (Hgt : vcmp c x = Gt) by (rewrite (tpo_anti T x c Hx Hc), Hxc; reflexivity).
      rewrite Hgt in Hcx. destruct o; simpl in *; try discriminate; reflexivity.
  Qed.
End OnOk.

(* ---------- C20 ---------- *)
Section C20.
  Variable cfg : range_cfg.
  Variable vok : bytes -> bool.
  Variable vcmp : bytes -> bytes -> comparison.

  Notation rcontains := (r_contains (mk_simple_rops cfg) vok vcmp).
  Notation parse_range := (RangeCore.parse_range bytes (oracle_parse vok) cfg).
  Notation ok := (fun s : bytes => vok s = true).

  (* the comparison is a total preorder on the texts the version layer accepts *)
  Theorem simple_c20_eq_on rg a b :
    TotalPreorderOn ok vcmp -> vok a = true -> vok b = true -> vcmp a b = Eq ->
    rcontains rg a = rcontains rg b.
  Proof.
    intros T Ha Hb E. unfold mk_simple_rops, r_contains.
    destruct (parse_range rg) as [r|]; [|reflexivity].
    rewrite Ha, Hb. f_equal. unfold contains.
    induction (r_cs r) as [|c cs IH]; simpl; [reflexivity|]. rewrite IH. f_equal.
    unfold sat_constraint. destruct (oracle_parse vok (snd c)) as [x|] eqn:P; [|reflexivity].
    apply oracle_parse_some in P. destruct P as [-> Hx].
    rewrite (tpo_eq_l T a b (snd c) Ha Hb Hx E). reflexivity.
  Qed.

  Theorem simple_c20_convex_on rg r a b c :
    TotalPreorderOn ok vcmp ->
    parse_range rg = Some r -> conj_only cfg r = true ->
    vok a = true -> vok b = true -> vok c = true ->
    le_c (vcmp a b) -> le_c (vcmp b c) ->
    rcontains rg a = Some true -> rcontains rg c = Some true -> rcontains rg b = Some true.
  Proof.
    intros T Hr Hcv Ha Hb Hc Hab Hbc. unfold mk_simple_rops, r_contains.
    rewrite Hr, Ha, Hb, Hc. intros H1 H2. injection H1 as H1. injection H2 as H2. f_equal.
    revert H1 H2. unfold conj_only, contains in *.
    induction (r_cs r) as [|k cs IH]; simpl in *; [reflexivity|].
    apply andb_true_iff in Hcv. destruct Hcv as [Hk Hcv].
    rewrite !andb_true_iff. intros [Ha1 Ha2] [Hc1 Hc2]. split; [|apply IH; assumption].
    unfold sat_constraint in *. destruct (oracle_parse vok (snd k)) as [x|] eqn:P; [|discriminate].
    apply oracle_parse_some in P. destruct P as [-> Hx].
    apply (on_sat_convex vok vcmp T _ (snd k) a b c); assumption.
  Qed.

  (* every operator of the table is a convex predicate of the sign (no "!=") *)
  Lemma conj_only_all r : (forall op, convex_op (rc_sem cfg op) = true) -> conj_only cfg r = true.
  Proof. intros H. unfold conj_only. apply forallb_forall. intros c _. apply H. Qed.

  Theorem simple_c20_convex_all_on rg a b c :
    (forall op, convex_op (rc_sem cfg op) = true) ->
    TotalPreorderOn ok vcmp ->
    vok a = true -> vok b = true -> vok c = true ->
    le_c (vcmp a b) -> le_c (vcmp b c) ->
    rcontains rg a = Some true -> rcontains rg c = Some true -> rcontains rg b = Some true.
  Proof.
    intros Hall T Ha Hb Hc Hab Hbc H1 H2.
    destruct (parse_range rg) as [r|] eqn:Hr.
    - apply (simple_c20_convex_on rg r a b c); auto. apply conj_only_all, Hall.
    - unfold mk_simple_rops, r_contains in H1. rewrite Hr in H1. discriminate.
  Qed.

  (* the same for an oracle that is a total preorder on all texts *)
  Theorem simple_c20_eq rg a b :
    TotalPreorder vcmp -> vok a = true -> vok b = true -> vcmp a b = Eq ->
    rcontains rg a = rcontains rg b.
  Proof. intros T. apply simple_c20_eq_on, TPO_of_TP, T. Qed.

  Theorem simple_c20_convex rg r a b c :
    TotalPreorder vcmp ->
    parse_range rg = Some r -> conj_only cfg r = true ->
    vok a = true -> vok b = true -> vok c = true ->
    le_c (vcmp a b) -> le_c (vcmp b c) ->
    rcontains rg a = Some true -> rcontains rg c = Some true -> rcontains rg b = Some true.
  Proof. intros T. apply simple_c20_convex_on, TPO_of_TP, T. Qed.

  Theorem simple_c20_convex_all rg a b c :
    (forall op, convex_op (rc_sem cfg op) = true) ->
    TotalPreorder vcmp ->
    vok a = true -> vok b = true -> vok c = true ->
    le_c (vcmp a b) -> le_c (vcmp b c) ->
    rcontains rg a = Some true -> rcontains rg c = Some true -> rcontains rg b = Some true.
  Proof. intros Hall T. apply simple_c20_convex_all_on; auto. apply TPO_of_TP, T. Qed.
End C20.

Lemma sem5_convex op : convex_op (sem5 op) = true.
Proof.
  unfold sem5.
  repeat match goal with |- context [if ?b then _ else _] => destruct b; try reflexivity end.
Qed.

(* ---------- the model's own version layer as the oracle ---------- *)
Section SelfOracle.
  Variable C : Type.
  Variable parse_core : bytes -> option C.
  Variable cmp_core : C -> C -> comparison.
  Variable raw_orig : bool.
  Variable name : bytes.
  Variable ro : rops.

  Let e : eco := {| e_name := name; e_v := mk_vops parse_core cmp_core raw_orig; e_r := ro |}.

  Lemma self_vok_core s :
    self_vok e s = true <-> exists c, parse_core (trim_space s) = Some c.
  Proof.
    unfold self_vok, e, mk_vops, v_show, e_v, VLayer.parse.
    destruct (parse_core (trim_space s)) as [c|]; simpl; split; eauto; try discriminate.
    intros [c H]. discriminate.
  Qed.

  Lemma self_vcmp_core a b ca cb :
    parse_core (trim_space a) = Some ca -> parse_core (trim_space b) = Some cb ->
    self_vcmp e a b = cmp_core ca cb.
  Proof.
    intros Ha Hb. unfold self_vcmp, e, mk_vops, v_cmp, e_v, VLayer.parse. rewrite Ha, Hb. reflexivity.
  Qed.

  (* [cmp_core] is a total preorder on the cores satisfying an invariant the parser guarantees *)
  Theorem self_tpo_on (wf : C -> Prop) :
    TotalPreorderOn wf cmp_core ->
    (forall t c, parse_core t = Some c -> wf c) ->
    TotalPreorderOn (fun s => self_vok e s = true) (self_vcmp e).
  Proof.
    intros T W. constructor.
    - intros a Ha. apply self_vok_core in Ha. destruct Ha as [ca Ha].
      rewrite (self_vcmp_core a a ca ca Ha Ha). apply (tpo_refl T). eapply W; eauto.
    - intros a b Ha Hb. apply self_vok_core in Ha. apply self_vok_core in Hb.
      destruct Ha as [ca Ha]. destruct Hb as [cb Hb].
      rewrite (self_vcmp_core b a cb ca Hb Ha), (self_vcmp_core a b ca cb Ha Hb).
      apply (tpo_anti T); eapply W; eauto.
    - intros a b c x Ha Hb Hc. apply self_vok_core in Ha. apply self_vok_core in Hb.
      apply self_vok_core in Hc. destruct Ha as [ca Ha]. destruct Hb as [cb Hb]. destruct Hc as [cc Hc].
      rewrite (self_vcmp_core a b ca cb Ha Hb), (self_vcmp_core b c cb cc Hb Hc),
              (self_vcmp_core a c ca cc Ha Hc).
      apply (tpo_trans T); eapply W; eauto.
    - intros a b c Ha Hb Hc. apply self_vok_core in Ha. apply self_vok_core in Hb.
      apply self_vok_core in Hc. destruct Ha as [ca Ha]. destruct Hb as [cb Hb]. destruct Hc as [cc Hc].
      rewrite (self_vcmp_core a b ca cb Ha Hb), (self_vcmp_core b c cb cc Hb Hc),
              (self_vcmp_core a c ca cc Ha Hc).
      apply (tpo_eq_l T); eapply W; eauto.
  Qed.

  Theorem self_tpo :
    TotalPreorder cmp_core -> TotalPreorderOn (fun s => self_vok e s = true) (self_vcmp e).
  Proof.
    intros T. apply (self_tpo_on (fun _ => True)); [apply TPO_of_TP, T|auto].
  Qed.
End SelfOracle.

(* ---------- C18 ---------- *)
Section C18.
  Variable cfg : range_cfg.
  Variable vok : bytes -> bool.

  Notation ro := (mk_simple_rops cfg).
  Notation parse_range := (RangeCore.parse_range bytes (oracle_parse vok) cfg).

  (* String() returns the input up to surrounding whitespace *)
  Theorem simple_show_trim s x : r_show ro vok s = Some x -> trim_space x = trim_space s.
  Proof.
    unfold mk_simple_rops, r_show. destruct (parse_range s) as [r|] eqn:E; [|discriminate].
    simpl. intros H. injection H as <-. apply (range_show_trim bytes (oracle_parse vok) cfg s r E).
  Qed.

  (* acceptance and containment depend on the trimmed text only *)
  Lemma simple_same_trim vcmp s s' :
    trim_space s = trim_space s' ->
    (r_show ro vok s = None <-> r_show ro vok s' = None) /\
    forall v, r_contains ro vok vcmp s v = r_contains ro vok vcmp s' v.
  Proof.
    intros E. pose proof (range_same_trim bytes (oracle_parse vok) cfg s s' E) as P.
    unfold mk_simple_rops, r_show, r_contains.
    destruct (parse_range s) as [r|], (parse_range s') as [r'|]; try contradiction; simpl.
    - split; [split; discriminate|]. intros v. unfold contains. rewrite P. reflexivity.
    - split; [tauto|reflexivity].
  Qed.

  (* parsing the printed text again succeeds and contains exactly the same versions *)
  Theorem simple_reparse vcmp s x :
    r_show ro vok s = Some x ->
    r_show ro vok x <> None /\
    forall v, r_contains ro vok vcmp x v = r_contains ro vok vcmp s v.
  Proof.
    intros H. destruct (simple_same_trim vcmp x s (simple_show_trim s x H)) as [A B].
    split; [|exact B]. intros N. apply A in N. congruence.
  Qed.

  (* leading/trailing ASCII whitespace changes neither acceptance nor containment *)
  Theorem simple_pad vcmp p q s :
    forallb is_space p = true -> forallb is_space q = true ->
    (r_show ro vok (p ++ s ++ q) = None <-> r_show ro vok s = None) /\
    forall v, r_contains ro vok vcmp (p ++ s ++ q) v = r_contains ro vok vcmp s v.
  Proof. intros Hp Hq. apply simple_same_trim. apply trim_space_pad; assumption. Qed.
End C18.
