(* Properties/Support/Squeeze.v — the convexity half of C20 for the "pin the first n components"
   shorthands (conan ~ and ^, gem ~>), end to end with the model's own version layer.

   The shorthands test [base <= v] and that the first n components of v equal those of the
   base.  If a <= b <= c in a padded lexicographic order and the first n components of a and of
   c are equal to those of x, then so are those of b ("squeeze"); together with transitivity of
   Compare this makes every such constraint a convex predicate. *)
From Coq Require Import Lia ZArith.
From Verif.Base Require Import Bytes BytesFacts GoNum Ord.
From Verif.Eco Require Import RangeCore RangeCoreFacts Iface VLayer VLayerFacts.
From Verif.Properties.Support Require Import SimpleRops.
From Verif.Eco.Conan Require Version VersionFacts Range RangeFacts Entry.
From Verif.Eco.Gem Require Version VersionFacts Range RangeFacts Entry.

Section Squeeze.
  Variable A : Type.
  Variable pad : A.
  Variable cmp : A -> A -> comparison.
  Hypothesis T : TotalPreorder cmp.

  Definition is_eq (c : comparison) : bool := match c with Eq => true | _ => false end.

  Fixpoint matchn (n : nat) (l x : list A) : bool :=
    match n with
    | O => true
    | S k => is_eq (cmp (hd pad l) (hd pad x)) && matchn k (tl l) (tl x)
    end.

  Lemma lex_pad_step l1 l2 :
    lex_pad pad cmp l1 l2 = thenc (cmp (hd pad l1) (hd pad l2)) (lex_pad pad cmp (tl l1) (tl l2)).
  Proof. apply Conan.RangeFacts.lex_pad_hd_tl. apply (tp_refl T). Qed.

  Lemma squeeze n : forall la lb lc lx,
    le_c (lex_pad pad cmp la lb) -> le_c (lex_pad pad cmp lb lc) ->
    matchn n la lx = true -> matchn n lc lx = true -> matchn n lb lx = true.
  Proof.
    induction n as [|n IH]; intros la lb lc lx Hab Hbc Ha Hc; [reflexivity|].
    cbn [matchn] in *. apply andb_true_iff in Ha. destruct Ha as [Ha Ha'].
    apply andb_true_iff in Hc. destruct Hc as [Hc Hc'].
    rewrite lex_pad_step in Hab, Hbc. unfold le_c, is_eq in *.
    destruct (cmp (hd pad la) (hd pad lx)) eqn:Eax; try discriminate.
    destruct (cmp (hd pad lc) (hd pad lx)) eqn:Ecx; try discriminate.
    (* heads of a and c are equivalent to the head of x *)
    assert (Eac : cmp (hd pad la) (hd pad lc) = Eq).
    { rewrite (tp_eq_l T _ _ _ Eax). rewrite (tp_anti T), Ecx. reflexivity. }
    destruct (cmp (hd pad la) (hd pad lb)) eqn:Eab.
    - (* a ~ b : then b ~ x, and the tails are ordered *)
      assert (Ebx : cmp (hd pad lb) (hd pad lx) = Eq).
      { rewrite <- (tp_eq_l T _ _ _ Eab). exact Eax. }
      assert (Ebc : cmp (hd pad lb) (hd pad lc) = Eq).
      { rewrite <- (tp_eq_l T _ _ _ Eab). exact Eac. }
      rewrite Ebx. rewrite Ebc in Hbc. cbn [thenc andb] in *.
      apply (IH (tl la) (tl lb) (tl lc) (tl lx)); assumption.
    - (* a < b : then c < b, contradicting b <= c *)
      exfalso. rewrite (tp_eq_l T _ _ _ Eac) in Eab.
      rewrite (tp_anti T), Eab in Hbc. cbn in Hbc. congruence.
    - exfalso. cbn in Hab. congruence.
  Qed.
End Squeeze.

Arguments matchn {A} pad cmp n l x.

(* ====================================================================================== *)
(* conan                                                                                   *)
(* ====================================================================================== *)
Section Conan.
  Import Conan.Version Conan.VersionFacts Conan.Range Conan.RangeFacts.

  Lemma parts_match_matchn n : forall vp cp,
    parts_match n vp cp = matchn $"0" natural_cmp n vp cp.
  Proof.
    induction n as [|n IH]; intros vp cp; [reflexivity|].
    rewrite parts_match_hd_tl, IH. reflexivity.
  Qed.

  Lemma le_parts ca cb : le_c (cmp_core ca cb) -> le_c (parts_cmp (c_parts ca) (c_parts cb)).
  Proof.
    unfold le_c, cmp_core, lexc, cmp_on. destruct (parts_cmp (c_parts ca) (c_parts cb)); simpl; congruence.
  Qed.

  Lemma parts_match_squeeze n ca cb cc cp :
    le_c (cmp_core ca cb) -> le_c (cmp_core cb cc) ->
    parts_match n (c_parts ca) cp = true -> parts_match n (c_parts cc) cp = true ->
    parts_match n (c_parts cb) cp = true.
  Proof.
    rewrite !parts_match_matchn. intros Hab Hbc.
    apply (squeeze _ $"0" natural_cmp natural_cmp_tp n _ _ _ cp (le_parts _ _ Hab) (le_parts _ _ Hbc)).
  Qed.

  (* ~ and ^ pin a number of leading parts that depends on the bound only *)
  Lemma tilde_parts_n cp : exists n, forall vp, tilde_parts vp cp = parts_match n vp cp.
  Proof.
    destruct cp as [|c0 [|c1 cr]].
    - exists O. reflexivity.
    - exists 1%nat. reflexivity.
    - exists 2%nat. reflexivity.
  Qed.

  Lemma caret_parts_n cp : exists n, forall vp, caret_parts vp cp = parts_match n vp cp.
  Proof.
    destruct cp as [|c0 cr]; [exists O; reflexivity|]. unfold caret_parts.
    destruct (negb (part_eq c0 $"0")); [exists 1%nat; reflexivity|].
    destruct cr as [|c1 cr'].
    - exists (length [c0] - 1)%nat. reflexivity.
    - destruct (negb (part_eq c1 $"0")); [exists 2%nat; reflexivity|].
      exists (length (c0 :: c1 :: cr') - 1)%nat. reflexivity.
  Qed.

  (* one constraint, evaluated with the model's own version layer, is convex unless it is "!=" *)
  Definition conan_convex_op (op : bytes) : bool :=
    beq op $"~" || beq op $"^" || convex_op (sem6 op).

  Lemma m_le x y cx cy :
    parse_core (trim_space x) = Some cx -> parse_core (trim_space y) = Some cy ->
    le_c (m_vcmp x y) -> le_c (cmp_core cx cy).
  Proof. intros Px Py. rewrite (m_vcmp_core x y cx cy Px Py). auto. Qed.

  Lemma conan_sat_convex k a b c :
    conan_convex_op (fst k) = true -> m_vok (snd k) = true ->
    m_vok a = true -> m_vok b = true -> m_vok c = true ->
    le_c (m_vcmp a b) -> le_c (m_vcmp b c) ->
    sat_constraint m_vcmp a k = true -> sat_constraint m_vcmp c k = true ->
    sat_constraint m_vcmp b k = true.
  Proof.
    destruct k as [op x]. cbn [fst snd]. intros Hop Hx Ha Hb Hc Hab Hbc.
    destruct (m_vok_core x Hx) as [cx Px]. destruct (m_vok_core a Ha) as [ca Pa].
    destruct (m_vok_core b Hb) as [cb Pb]. destruct (m_vok_core c Hc) as [cc Pc].
    pose proof (m_le a b ca cb Pa Pb Hab) as Lab. pose proof (m_le b c cb cc Pb Pc Hbc) as Lbc.
    assert (GE : forall o, convex_op o = true ->
              sat o (m_vcmp a x) = true -> sat o (m_vcmp c x) = true -> sat o (m_vcmp b x) = true).
    { intros o Ho. rewrite (m_vcmp_core a x ca cx Pa Px), (m_vcmp_core b x cb cx Pb Px),
        (m_vcmp_core c x cc cx Pc Px).
      apply (sat_convex _ cmp_core cmp_core_tp o cx ca cb cc Ho Lab Lbc). }
    assert (GEC : ge_c (m_vcmp a x) = true -> ge_c (m_vcmp c x) = true -> ge_c (m_vcmp b x) = true).
    { intros H1 H2. specialize (GE CGe eq_refl).
      assert (E : forall z, ge_c z = sat CGe z) by (intros []; reflexivity).
      rewrite !E in *. auto. }
    assert (PM : forall n, parts_match n (c_parts ca) (c_parts cx) = true ->
                           parts_match n (c_parts cc) (c_parts cx) = true ->
                           parts_match n (c_parts cb) (c_parts cx) = true).
    { intros n. apply parts_match_squeeze; assumption. }
    unfold sat_constraint, parts_of. rewrite Pa, Pb, Pc, Px. cbn [option_map].
    unfold conan_convex_op in Hop.
    destruct (beq op $"~") eqn:E1.
    - destruct (tilde_parts_n (c_parts cx)) as [n Hn]. rewrite !Hn.
      rewrite !andb_true_iff. intros [A1 A2] [C1 C2]. split; [apply GEC|apply PM]; assumption.
    - destruct (beq op $"^") eqn:E2.
      + destruct (caret_parts_n (c_parts cx)) as [n Hn]. rewrite !Hn.
        rewrite !andb_true_iff. intros [A1 A2] [C1 C2]. split; [apply GEC|apply PM]; assumption.
      + cbn [orb] in Hop. apply GE. exact Hop.
  Qed.

  Theorem conan_self_convex r g a b c :
    r_groups r = [g] ->
    forallb (fun k => conan_convex_op (fst k) && m_vok (snd k)) g = true ->
    m_vok a = true -> m_vok b = true -> m_vok c = true ->
    le_c (m_vcmp a b) -> le_c (m_vcmp b c) ->
    contains m_vcmp r a = true -> contains m_vcmp r c = true -> contains m_vcmp r b = true.
  Proof.
    intros Hg Hcv Ha Hb Hc Hab Hbc. unfold contains. rewrite Hg. cbn [existsb].
    rewrite !orb_false_r. clear Hg.
    induction g as [|k g IH]; [reflexivity|]. cbn [forallb] in *.
    apply andb_true_iff in Hcv. destruct Hcv as [Hk Hcv]. apply andb_true_iff in Hk. destruct Hk as [K1 K2].
    rewrite !andb_true_iff. intros [A1 A2] [C1 C2]. split; [|apply IH; auto].
    apply (conan_sat_convex k a b c); assumption.
  Qed.
End Conan.

(* ====================================================================================== *)
(* gem                                                                                     *)
(* ====================================================================================== *)
Section Gem.
  Import Gem.Version Gem.VersionFacts Gem.Range Gem.RangeFacts.

  Lemma prefix_eq_matchn n : forall vs cs, prefix_eq n vs cs = matchn 0%Z Z.compare n vs cs.
  Proof.
    induction n as [|n IH]; intros vs cs; [reflexivity|]. cbn [prefix_eq matchn].
    rewrite IH. f_equal. unfold is_eq. rewrite Z.eqb_compare. reflexivity.
  Qed.

  Lemma cmp_core_le_numeric x y :
    le_c (cmp_core x y) -> le_c (segs_cmp (numeric_part x) (numeric_part y)).
  Proof.
    unfold le_c. intros H N. apply H.
    assert (G : cmp_core y x = Lt).
    { destruct (cmp_core y x) eqn:E; [| reflexivity |].
      - exfalso. apply (cmp_core_ge_numeric y x); [rewrite E; discriminate|].
        rewrite (tp_anti segs_cmp_tp), N. reflexivity.
      - exfalso. apply (cmp_core_ge_numeric y x); [rewrite E; discriminate|].
        rewrite (tp_anti segs_cmp_tp), N. reflexivity. }
    rewrite (tp_anti cmp_core_tp), G. reflexivity.
  Qed.

  Lemma self_le_numeric a b :
    self_ok a = true -> self_ok b = true -> le_c (self_cmp a b) ->
    le_c (zcmp (numeric_of a) (numeric_of b)).
  Proof.
    intros Ha Hb. apply self_ok_parse in Ha. apply self_ok_parse in Hb.
    destruct Ha as [va Pa]. destruct Hb as [vb Pb].
    rewrite (self_cmp_parse a b va vb Pa Pb). unfold numeric_of.
    rewrite (core_of_parse a va Pa), (core_of_parse b vb Pb). unfold cmp, VLayer.cmp. intros H.
    apply cmp_core_le_numeric in H.
    rewrite segs_cmp_zcmp in H by apply numeric_part_all_num. exact H.
  Qed.

  Definition gem_convex_op (op : bytes) : bool := beq op pess || convex_op (sem6 op).

  Lemma self_tpo_gem : TotalPreorderOn (fun s => self_ok s = true) self_cmp.
  Proof.
    apply (self_tpo _ parse_core cmp_core raw_orig). apply cmp_core_tp.
  Qed.

  Lemma gem_sat_convex k a b c :
    gem_convex_op (fst k) = true ->
    self_ok a = true -> self_ok b = true -> self_ok c = true ->
    le_c (self_cmp a b) -> le_c (self_cmp b c) ->
    sat_constraint self_ok self_cmp a k = true -> sat_constraint self_ok self_cmp c k = true ->
    sat_constraint self_ok self_cmp b k = true.
  Proof.
    destruct k as [op x]. cbn [fst]. intros Hop Ha Hb Hc Hab Hbc. unfold sat_constraint. cbn [fst snd].
    destruct (self_ok x) eqn:Hx; [|discriminate].
    assert (GE : forall o, convex_op o = true ->
              sat o (self_cmp a x) = true -> sat o (self_cmp c x) = true -> sat o (self_cmp b x) = true).
    { intros o Ho. apply (on_sat_convex self_ok self_cmp self_tpo_gem o x a b c); assumption. }
    unfold gem_convex_op in Hop. destruct (beq op pess) eqn:E.
    - unfold sat_pessimistic. intros A C.
      assert (A1 : sat CGe (self_cmp a x) = true) by (destruct (self_cmp a x); [reflexivity|discriminate|reflexivity]).
      assert (C1 : sat CGe (self_cmp c x) = true) by (destruct (self_cmp c x); [reflexivity|discriminate|reflexivity]).
      pose proof (GE CGe eq_refl A1 C1) as B1.
      assert (A2 : prefix_eq (segments_to_check x) (numeric_of a) (numeric_of x) = true)
        by (destruct (self_cmp a x); [exact A|discriminate|exact A]).
      assert (C2 : prefix_eq (segments_to_check x) (numeric_of c) (numeric_of x) = true)
        by (destruct (self_cmp c x); [exact C|discriminate|exact C]).
      assert (B2 : prefix_eq (segments_to_check x) (numeric_of b) (numeric_of x) = true).
      { rewrite prefix_eq_matchn in *.
        apply (squeeze _ 0%Z Z.compare TP_Z _ (numeric_of a) (numeric_of b) (numeric_of c));
          try assumption; apply self_le_numeric; assumption. }
      destruct (self_cmp b x); [exact B2|discriminate|exact B2].
    - cbn [orb] in Hop. apply GE. exact Hop.
  Qed.

  Theorem gem_self_convex_all rg r a b c :
    parse_range self_ok rg = Some r ->
    forallb (fun k => gem_convex_op (fst k)) (r_cs r) = true ->
    self_ok a = true -> self_ok b = true -> self_ok c = true ->
    le_c (self_cmp a b) -> le_c (self_cmp b c) ->
    r_contains self_ok self_cmp rg a = Some true -> r_contains self_ok self_cmp rg c = Some true ->
    r_contains self_ok self_cmp rg b = Some true.
  Proof.
    intros P Hcv Ha Hb Hc Hab Hbc. unfold r_contains. rewrite P, Ha, Hb, Hc.
    intros H1 H2. injection H1 as H1. injection H2 as H2. f_equal. revert H1 H2.
    unfold contains. induction (r_cs r) as [|k cs IH]; [reflexivity|].
    cbn [forallb] in *. apply andb_true_iff in Hcv. destruct Hcv as [Hk Hcv].
    rewrite !andb_true_iff. intros [A1 A2] [C1 C2]. split; [|apply IH; auto].
    apply (gem_sat_convex k a b c); assumption.
  Qed.
End Gem.
