(* Properties/Support/VLayerMore.v — the re-parse half of C18 for a version layer whose
   [cmp_core] is reflexive only on the cores the parser produces (alpine, gentoo, alpm) or whose
   reflexivity is proved directly (maven): the hypothesis is reflexivity at the value itself. *)
From Verif.Base Require Import Bytes BytesFacts Ord.
From Verif.Eco Require Import VLayer VLayerFacts.

Section Facts.
  Variable C : Type.
  Variable parse_core : bytes -> option C.
  Variable cmp_core : C -> C -> comparison.
  Variable raw_orig : bool.

  Notation parse := (parse parse_core raw_orig).
  Notation cmp := (cmp cmp_core).

  Lemma reparse_refl s v :
    parse s = Some v -> cmp v v = Eq ->
    exists v', parse (show v) = Some v' /\ cmp v v' = Eq /\ cmp v' v = Eq.
  Proof.
    intros H R.
    pose proof (show_trim _ parse_core raw_orig s v H) as E.
    pose proof (parse_same_trim _ parse_core raw_orig (show v) s E) as P.
    rewrite H in P. destruct (parse (show v)) as [v'|]; [|contradiction].
    exists v'. unfold VLayer.cmp in *. rewrite P. auto.
  Qed.
End Facts.
