(* Spec/All.v — registry of the reference orders, by name, for the driver. *)
From Verif.Base Require Import Bytes.
From Verif.Spec Require SemVer Pep440 Rpm MavenCV GemVersion Apk Dpkg.

Record spec := {
  sp_name : bytes;
  sp_valid : bytes -> bool;
  sp_cmp : bytes -> bytes -> option comparison
}.

Definition isSome {A} (o : option A) : bool := match o with Some _ => true | None => false end.

Definition semver_like (name : bytes) (den : bytes -> option SemVer.sv) : spec :=
  {| sp_name := name; sp_valid := fun s => isSome (den s); sp_cmp := SemVer.spec_cmp_with den |}.

Definition specs : list spec := [
  semver_like $"semver" SemVer.den_semver;
  semver_like $"npm" SemVer.den_npm;
  semver_like $"cargo" SemVer.den_cargo;
  semver_like $"hex" SemVer.den_hex;
  semver_like $"nuget" SemVer.den_nuget;
  semver_like $"golang" SemVer.den_golang;
  {| sp_name := $"pypi"; sp_valid := Pep440.spec_valid; sp_cmp := Pep440.spec_cmp |};
  {| sp_name := $"debian"; sp_valid := Dpkg.spec_valid; sp_cmp := Dpkg.spec_cmp |};
  {| sp_name := $"rpm"; sp_valid := Rpm.spec_valid; sp_cmp := Rpm.spec_cmp |};
  {| sp_name := $"maven"; sp_valid := MavenCV.spec_valid; sp_cmp := MavenCV.spec_cmp |};
  {| sp_name := $"gem"; sp_valid := GemVersion.spec_valid; sp_cmp := GemVersion.spec_cmp |};
  {| sp_name := $"alpine"; sp_valid := Apk.spec_valid; sp_cmp := Apk.spec_cmp |}
].

Fixpoint find_spec (name : bytes) (l : list spec) : option spec :=
  match l with
  | [] => None
  | s :: r => if beq name (sp_name s) then Some s else find_spec name r
  end.
