(* Spec/Apk.v — reference order of Alpine package versions (apk-tools 2.12
   src/version.c), restricted to the well-formed grammar

       digits{.digits}[letter]{_suffix[digits]}[-rN]

   and stated the way the property words it:

     numeric components left to right, then the optional letter (none
     first), then the suffixes ranked
         alpha < beta < pre < rc < (none) < cvs < svn < git < hg < p,
     each followed by its number (a suffix without digits has number 0, a
     missing suffix compares as "(none)" with number 0), then the revision
     -rN (a missing revision counts as r0).

   The comparison of the numeric components is only claimed for two versions
   with the same number of components and without leading zeros ([spec_cmp]
   answers [None] otherwise).

   Definitions only; the order laws are in ApkFacts.v. *)
From Verif.Base Require Import Bytes GoNum Ord.
Local Open Scope N_scope.

(* ---------- the parsed form ---------- *)

(* suffix classes in apk-tools' order: pre_suffixes = alpha beta pre rc,
   post_suffixes = cvs svn git hg p; [RNone] stands for "no suffix here" *)
Inductive rank : Type :=
  | RAlpha | RBeta | RPre | RRc
  | RNone
  | RCvs | RSvn | RGit | RHg | RP.

Definition rank_ord (r : rank) : N :=
  match r with
  | RAlpha => 0 | RBeta => 1 | RPre => 2 | RRc => 3
  | RNone => 4
  | RCvs => 5 | RSvn => 6 | RGit => 7 | RHg => 8 | RP => 9
  end.

(* pre-release suffixes sort before the unsuffixed version, post-release after *)
Definition is_pre_rank (r : rank) : bool := rank_ord r <? rank_ord RNone.
Definition is_post_rank (r : rank) : bool := rank_ord RNone <? rank_ord r.

Definition suffix_names : list (bytes * rank) :=
  [ ($"alpha", RAlpha); ($"beta", RBeta); ($"pre", RPre); ($"rc", RRc);
    ($"cvs", RCvs); ($"svn", RSvn); ($"git", RGit); ($"hg", RHg); ($"p", RP) ].

Record ast : Type := mk_ast {
  comps    : list N;           (* numeric components, left to right *)
  letter   : option ascii;     (* the optional single lower-case letter *)
  suffixes : list (rank * N);  (* _suffix[digits] chain; no digits = 0 *)
  revision : N                 (* -rN; absent = 0 *)
}.

(* ---------- scanner ---------- *)

(* The text is cut, left to right, into
     numeric part : the longest prefix of digits and dots,
     letter       : one lower-case letter, if the next byte is one,
     suffix part  : everything up to the first '-'  (suffix names contain none),
     revision part: the rest.
   Each part is then required to have exactly its grammatical shape. *)

Definition is_num_char (c : ascii) : bool := is_digit c || ceqb c "."%char.
Definition not_dash (c : ascii) : bool := negb (ceqb c "-"%char).

(* digits{.digits}: every dot-separated field is a non-empty digit run *)
Definition num_fields (numpart : bytes) : option (list bytes) :=
  let fs := split_c "."%char numpart in
  if forallb nonempty_digits fs then Some fs else None.

(* [digits] : possibly empty digit run; empty counts as 0 *)
Definition opt_number (s : bytes) : option N :=
  if all_digits s then Some (digits_val s) else None.

(* one field between underscores: suffix[digits] *)
Definition parse_suffix (f : bytes) : option (rank * N) :=
  let (name, num) := span is_lower f in
  match lookup name suffix_names, opt_number num with
  | Some r, Some n => Some (r, n)
  | _, _ => None
  end.

Fixpoint parse_suffix_fields (fs : list bytes) : option (list (rank * N)) :=
  match fs with
  | [] => Some []
  | f :: fs' =>
      match parse_suffix f, parse_suffix_fields fs' with
      | Some x, Some xs => Some (x :: xs)
      | _, _ => None
      end
  end.

(* {_suffix[digits]}: empty, or begins with '_' and every field parses *)
Definition parse_suffixes (sufpart : bytes) : option (list (rank * N)) :=
  match split_c "_"%char sufpart with
  | [] :: fs => parse_suffix_fields fs
  | _ => None
  end.

(* [-rN] *)
Definition parse_revision (revpart : bytes) : option N :=
  match revpart with
  | [] => Some 0
  | _ =>
      match strip_prefix ($"-r") revpart with
      | Some d => if nonempty_digits d then Some (digits_val d) else None
      | None => None
      end
  end.

(* the three cuts *)
Definition cut_parts (s : bytes) : bytes * option ascii * bytes * bytes :=
  let (numpart, r1) := span is_num_char s in
  let (l, r2) :=
    match r1 with
    | c :: r' => if is_lower c then (Some c, r') else (None, r1)
    | [] => (None, r1)
    end in
  let (sufpart, revpart) := span not_dash r2 in
  (numpart, l, sufpart, revpart).

Definition parse (s : bytes) : option ast :=
  match cut_parts s with
  | (numpart, l, sufpart, revpart) =>
      match num_fields numpart, parse_suffixes sufpart, parse_revision revpart with
      | Some fs, Some sx, Some r => Some (mk_ast (map digits_val fs) l sx r)
      | _, _, _ => None
      end
  end.

(* a numeric component has a leading zero when it is "0" followed by more digits *)
Definition leading_zero (f : bytes) : bool :=
  match f with
  | c :: _ :: _ => ceqb c "0"%char
  | _ => false
  end.

Definition no_leading_zeros (s : bytes) : bool :=
  match cut_parts s with
  | (numpart, _, _, _) =>
      forallb (fun f => negb (leading_zero f)) (split_c "."%char numpart)
  end.

Definition spec_valid (s : bytes) : bool :=
  match parse s with
  | Some _ => no_leading_zeros s
  | None => false
  end.

(* ---------- the order ---------- *)

Definition rank_cmp : rank -> rank -> comparison := cmp_on rank_ord N.compare.

(* a suffix: rank first, then its number *)
Definition suffix_cmp : rank * N -> rank * N -> comparison := lex2 rank_cmp N.compare.

(* what a missing suffix compares as *)
Definition no_suffix : rank * N := (RNone, 0).

Definition comps_cmp : list N -> list N -> comparison := lex_short N.compare.
Definition letter_cmp : option ascii -> option ascii -> comparison :=
  opt_first (cmp_on code N.compare).
Definition suffixes_cmp : list (rank * N) -> list (rank * N) -> comparison :=
  lex_pad no_suffix suffix_cmp.

Definition apk_cmp : ast -> ast -> comparison :=
  lexc (cmp_on comps comps_cmp)
 (lexc (cmp_on letter letter_cmp)
 (lexc (cmp_on suffixes suffixes_cmp)
       (cmp_on revision N.compare))).

(* [None]: a side is not a well-formed version without leading zeros, or the
   two sides do not have the same number of numeric components *)
Definition spec_cmp (a b : bytes) : option comparison :=
  if spec_valid a && spec_valid b then
    match parse a, parse b with
    | Some x, Some y =>
        if Nat.eqb (length (comps x)) (length (comps y))
        then Some (apk_cmp x y)
        else None
    | _, _ => None
    end
  else None.
