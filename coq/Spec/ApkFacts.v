(* Spec/ApkFacts.v — the reference order of Spec/Apk.v is a total preorder. *)
From Verif.Base Require Import Bytes GoNum Ord BytesFacts.
From Verif.Spec Require Import Apk.
Local Open Scope N_scope.

Lemma TP_rank_cmp : TotalPreorder rank_cmp.
Proof. unfold rank_cmp. apply TP_on, TP_N. Qed.

Lemma TP_suffix_cmp : TotalPreorder suffix_cmp.
Proof. unfold suffix_cmp. apply TP_lex2; [apply TP_rank_cmp | apply TP_N]. Qed.

Lemma TP_comps_cmp : TotalPreorder comps_cmp.
Proof. unfold comps_cmp. apply TP_lex_short, TP_N. Qed.

Lemma TP_letter_cmp : TotalPreorder letter_cmp.
Proof. unfold letter_cmp. apply TP_opt_first, TP_on, TP_N. Qed.

Lemma TP_suffixes_cmp : TotalPreorder suffixes_cmp.
Proof. unfold suffixes_cmp. apply TP_lex_pad, TP_suffix_cmp. Qed.

Theorem apk_cmp_tp : TotalPreorder apk_cmp.
Proof.
  unfold apk_cmp.
  apply TP_lexc; [apply TP_on, TP_comps_cmp|].
  apply TP_lexc; [apply TP_on, TP_letter_cmp|].
  apply TP_lexc; [apply TP_on, TP_suffixes_cmp|].
  apply TP_on, TP_N.
Qed.

(* the user-facing form of the laws *)
Corollary apk_cmp_laws a b c : preorder_laws apk_cmp a b c.
Proof. apply TP_laws, apk_cmp_tp. Qed.

(* ---------- the order relates the classes as the wording says ---------- *)

(* rank order is injective: equal rank position = same rank *)
Lemma rank_cmp_eq r1 r2 : rank_cmp r1 r2 = Eq <-> r1 = r2.
Proof.
  split.
  - destruct r1, r2; vm_compute; congruence.
  - intros ->. apply (tp_refl TP_rank_cmp).
Qed.

Lemma rank_chain :
  rank_cmp RAlpha RBeta = Lt /\ rank_cmp RBeta RPre = Lt /\ rank_cmp RPre RRc = Lt /\
  rank_cmp RRc RNone = Lt /\ rank_cmp RNone RCvs = Lt /\ rank_cmp RCvs RSvn = Lt /\
  rank_cmp RSvn RGit = Lt /\ rank_cmp RGit RHg = Lt /\ rank_cmp RHg RP = Lt.
Proof. vm_compute. repeat split. Qed.

(* an additional pre-release suffix makes a version older, an additional
   post-release suffix newer (the rest of the version being the same) *)
Lemma suffixes_cmp_refl l : suffixes_cmp l l = Eq.
Proof. apply (tp_refl TP_suffixes_cmp). Qed.

Lemma suffixes_cmp_app_pre l r n l' :
  is_pre_rank r = true -> suffixes_cmp (l ++ (r, n) :: l') l = Lt.
Proof.
  intros H. unfold suffixes_cmp.
  induction l as [|x l IH]; cbn [app lex_pad].
  - unfold suffix_cmp at 1, lex2, no_suffix, rank_cmp, cmp_on; cbn [fst snd].
    destruct r; vm_compute in H; try discriminate; reflexivity.
  - rewrite (tp_refl TP_suffix_cmp). exact IH.
Qed.

Lemma suffixes_cmp_app_post l r n l' :
  is_post_rank r = true -> suffixes_cmp (l ++ (r, n) :: l') l = Gt.
Proof.
  intros H. unfold suffixes_cmp.
  induction l as [|x l IH]; cbn [app lex_pad].
  - unfold suffix_cmp at 1, lex2, no_suffix, rank_cmp, cmp_on; cbn [fst snd].
    destruct r; vm_compute in H; try discriminate; reflexivity.
  - rewrite (tp_refl TP_suffix_cmp). exact IH.
Qed.

Lemma apk_cmp_extra_pre cs l sx r n sx' rv rv' :
  is_pre_rank r = true ->
  apk_cmp (mk_ast cs l (sx ++ (r, n) :: sx') rv') (mk_ast cs l sx rv) = Lt.
Proof.
  intros H. unfold apk_cmp, lexc, cmp_on. cbn [comps letter suffixes revision].
  rewrite (tp_refl TP_comps_cmp), (tp_refl TP_letter_cmp). cbn [thenc].
  rewrite suffixes_cmp_app_pre by assumption. reflexivity.
Qed.

Lemma apk_cmp_extra_post cs l sx r n sx' rv rv' :
  is_post_rank r = true ->
  apk_cmp (mk_ast cs l (sx ++ (r, n) :: sx') rv') (mk_ast cs l sx rv) = Gt.
Proof.
  intros H. unfold apk_cmp, lexc, cmp_on. cbn [comps letter suffixes revision].
  rewrite (tp_refl TP_comps_cmp), (tp_refl TP_letter_cmp). cbn [thenc].
  rewrite suffixes_cmp_app_post by assumption. reflexivity.
Qed.

(* spec_cmp answers exactly on pairs of valid versions with equal component counts *)
Lemma spec_cmp_some a b c :
  spec_cmp a b = Some c ->
  spec_valid a = true /\ spec_valid b = true /\
  exists x y, parse a = Some x /\ parse b = Some y /\
              length (comps x) = length (comps y) /\ c = apk_cmp x y.
Proof.
  unfold spec_cmp. intros H.
  destruct (spec_valid a) eqn:Va; [|discriminate].
  destruct (spec_valid b) eqn:Vb; [|discriminate].
  cbn [andb] in H.
  destruct (parse a) as [x|] eqn:Pa; [|discriminate].
  destruct (parse b) as [y|] eqn:Pb; [|discriminate].
  destruct (Nat.eqb (length (comps x)) (length (comps y))) eqn:L; [|discriminate].
  apply PeanoNat.Nat.eqb_eq in L. injection H as <-.
  repeat split; try reflexivity. exists x, y. repeat split; assumption.
Qed.

Lemma spec_cmp_refl a : spec_valid a = true -> spec_cmp a a = Some Eq.
Proof.
  intros V. unfold spec_cmp. rewrite V. cbn [andb].
  unfold spec_valid in V. destruct (parse a) as [x|] eqn:Pa; [|discriminate].
  rewrite PeanoNat.Nat.eqb_refl. rewrite (tp_refl apk_cmp_tp). reflexivity.
Qed.

Lemma spec_cmp_anti a b : spec_cmp b a = option_map CompOpp (spec_cmp a b).
Proof.
  unfold spec_cmp. rewrite andb_comm.
  destruct (spec_valid a && spec_valid b); [|reflexivity].
  destruct (parse a) as [x|], (parse b) as [y|]; try reflexivity.
  rewrite PeanoNat.Nat.eqb_sym.
  destruct (Nat.eqb (length (comps x)) (length (comps y))); [|reflexivity].
  cbn [option_map]. rewrite (tp_anti apk_cmp_tp x y). reflexivity.
Qed.

Print Assumptions apk_cmp_tp.
Print Assumptions apk_cmp_extra_pre.
Print Assumptions apk_cmp_extra_post.
Print Assumptions spec_cmp_anti.
