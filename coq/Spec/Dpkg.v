(* Spec/Dpkg.v — the reference order of Debian package versions, as implemented by
   dpkg 1.21 (lib/dpkg/version.c: dpkg_version_compare / verrevcmp, lib/dpkg/parsehelp.c:
   parseversion) and documented in deb-version(7) and Debian Policy 5.6.12.

       [epoch:]upstream-version[-debian-revision]

   Definitions only; they compute.  Facts are in DpkgFacts.v.
   This file is an independent yardstick: it depends only on Verif.Base. *)
From Verif.Base Require Import Bytes GoNum Ord.
Local Open Scope N_scope.

(* ------------------------------------------------------------------------------------ *)
(* Syntax                                                                                *)
(* ------------------------------------------------------------------------------------ *)

(* parseversion: "epoch > INT_MAX" is "epoch in version is too big" *)
Definition int_max : N := 2147483647.

(* The epoch is what precedes the FIRST colon (strchr). *)
Definition split_epoch (s : bytes) : option bytes * bytes :=
  match cut [":"%char] s with
  | Some (e, r) => (Some e, r)
  | None => (None, s)
  end.

(* The revision is what follows the LAST hyphen (strrchr) of the part after the epoch. *)
Definition split_revision (s : bytes) : bytes * option bytes :=
  match cut_last_c "-"%char s with
  | Some (u, r) => (u, Some r)
  | None => (s, None)
  end.

(* Debian Policy 5.6.12: alphanumerics and . + - ~ ; a hyphen can only occur here when a revision
   is present (otherwise the last hyphen would have started the revision). *)
Definition is_upstream_char (c : ascii) : bool :=
  is_alnum c || ceqb c "."%char || ceqb c "+"%char || ceqb c "~"%char || ceqb c "-"%char.

(* deb-version(7) of dpkg 1.21 and the binary itself additionally allow a colon in the upstream
   version; it can only occur when an epoch is present (otherwise the first colon would have
   ended the epoch). *)
Definition is_upstream_char_colon (c : ascii) : bool :=
  is_upstream_char c || ceqb c ":"%char.

(* alphanumerics and + . ~ *)
Definition is_revision_char (c : ascii) : bool :=
  is_alnum c || ceqb c "."%char || ceqb c "+"%char || ceqb c "~"%char.

(* "a single (generally small) unsigned integer": non-empty, digits only, value <= INT_MAX
   (any number of leading zeros). *)
Definition epoch_ok (e : option bytes) : bool :=
  match e with
  | None => true
  | Some t => nonempty_digits t && (digits_val t <=? int_max)
  end.

(* mandatory, starts with a digit *)
Definition upstream_ok (allowed : ascii -> bool) (u : bytes) : bool :=
  match u with
  | [] => false
  | c :: u' => is_digit c && forallb allowed u'
  end.

(* optional; when the hyphen is there it must not be empty *)
Definition revision_ok (r : option bytes) : bool :=
  match r with
  | None => true
  | Some [] => false
  | Some t => forallb is_revision_char t
  end.

Definition valid_with (allowed : ascii -> bool) (s : bytes) : bool :=
  let (e, rest) := split_epoch s in
  let (u, r) := split_revision rest in
  epoch_ok e && upstream_ok allowed u && revision_ok r.

(* The valid version strings: Debian Policy 5.6.12; dpkg accepts each of them silently. *)
Definition dpkg_valid (s : bytes) : bool := valid_with is_upstream_char s.

(* Exactly the strings (without blanks, without a sign in front of the epoch) that the dpkg
   1.21 binary accepts without error and without warning: dpkg_valid plus "1:2:3". *)
Definition dpkg_accepts (s : bytes) : bool := valid_with is_upstream_char_colon s.

(* (epoch value, upstream version, revision); an absent epoch is 0, an absent revision is the
   empty string (which compares equal to the revision "0"). *)
Definition split_evr (s : bytes) : N * bytes * bytes :=
  let (e, rest) := split_epoch s in
  let (u, r) := split_revision rest in
  (match e with Some t => digits_val t | None => 0 end,
   u,
   match r with Some t => t | None => [] end).

(* ------------------------------------------------------------------------------------ *)
(* Comparison of one component (upstream version or revision): verrevcmp                 *)
(* ------------------------------------------------------------------------------------ *)

(* version.c: order().  Digits and the end of the string weigh 0, '~' sorts before everything
   (even the end), letters sort by their code before all other characters. *)
Definition order (c : ascii) : Z :=
  if is_digit c then 0%Z
  else if is_letter c then Z.of_N (code c)
  else if ceqb c "~"%char then (-1)%Z
  else (Z.of_N (code c) + 256)%Z.

(* the weight of "no character here" *)
Definition order_end : Z := 0%Z.

(* --- token-pair formulation ---------------------------------------------------------- *)

Definition is_nondigit (c : ascii) : bool := negb (is_digit c).

(* A string is read as a sequence of pairs (maximal non-digit run, maximal digit run); only
   the first non-digit run and the last digit run can be empty.  fuel = length s + 1: every
   round on a non-empty string consumes at least one byte. *)
Fixpoint tokens_fuel (fuel : nat) (s : bytes) : list (bytes * bytes) :=
  match fuel with
  | O => []
  | S k =>
      match s with
      | [] => []
      | _ :: _ =>
          let (nd, r) := span is_nondigit s in
          let (d, r') := span is_digit r in
          (nd, d) :: tokens_fuel k r'
      end
  end.
Definition tokens (s : bytes) : list (bytes * bytes) := tokens_fuel (S (length s)) s.

(* non-digit runs: position by position by [order], the shorter run continued with the weight
   of the end of the run (so "~" < "" < "a" < "+") *)
Definition cmp_nondigit (x y : bytes) : comparison :=
  lex_pad order_end Z.compare (map order x) (map order y).

(* digit runs: as integers of any length; the empty run is 0 *)
Definition cmp_digits (x y : bytes) : comparison := digits_cmp x y.

Definition cmp_token : bytes * bytes -> bytes * bytes -> comparison :=
  lex2 cmp_nondigit cmp_digits.

Definition empty_token : bytes * bytes := ([], []).

(* pairs compared in sequence, the shorter sequence continued with empty pairs *)
Definition verrevcmp (a b : bytes) : comparison :=
  lex_pad empty_token cmp_token (tokens a) (tokens b).

(* --- character-stepping formulation (the loop of version.c, for cross-validation) ---- *)

Definition hd_is (p : ascii -> bool) (s : bytes) : bool :=
  match s with c :: _ => p c | [] => false end.
Definition order_hd (s : bytes) : Z :=
  match s with c :: _ => order c | [] => order_end end.

(* C: while the head of a or the head of b is a non-digit character:
        if (order(a[0]) != order(b[0])) return their difference; advance both.
   fuel = length a + length b + 1 *)
Fixpoint loop_nondigit (fuel : nat) (a b : bytes) : comparison + (bytes * bytes) :=
  match fuel with
  | O => inr (a, b)
  | S k =>
      if hd_is is_nondigit a || hd_is is_nondigit b then
        match Z.compare (order_hd a) (order_hd b) with
        | Eq => loop_nondigit k (tl a) (tl b)
        | c => inl c
        end
      else inr (a, b)
  end.

(* C: while both heads are digits: if (!first_diff) first_diff = a[0] - b[0]; advance both. *)
Fixpoint loop_digits (first_diff : comparison) (a b : bytes) : comparison * (bytes * bytes) :=
  match a, b with
  | x :: a', y :: b' =>
      if is_digit x && is_digit y
      then loop_digits (thenc first_diff (code x ?= code y)) a' b'
      else (first_diff, (a, b))
  | _, _ => (first_diff, (a, b))
  end.

(* C: the outer loop, while a or b is not exhausted.   fuel = length a + length b + 1 *)
Fixpoint verrevcmp_loop_fuel (fuel : nat) (a b : bytes) : comparison :=
  match fuel with
  | O => Eq
  | S k =>
      match a, b with
      | [], [] => Eq
      | _, _ =>
          match loop_nondigit (S (length a + length b)%nat) a b with
          | inl c => c
          | inr (a1, b1) =>
              let '(fd, (a2, b2)) := loop_digits Eq (strip_zeros a1) (strip_zeros b1) in
              if hd_is is_digit a2 then Gt
              else if hd_is is_digit b2 then Lt
              else match fd with
                   | Eq => verrevcmp_loop_fuel k a2 b2
                   | c => c
                   end
          end
      end
  end.
Definition verrevcmp_loop (a b : bytes) : comparison :=
  verrevcmp_loop_fuel (S (length a + length b)%nat) a b.

(* ------------------------------------------------------------------------------------ *)
(* Comparison of versions: dpkg_version_compare                                          *)
(* ------------------------------------------------------------------------------------ *)

(* epoch numerically, then upstream version, then revision *)
Definition cmp_evr : N * bytes * bytes -> N * bytes * bytes -> comparison :=
  lex2 (lex2 N.compare verrevcmp) verrevcmp.

Definition dpkg_cmp (a b : bytes) : comparison := cmp_evr (split_evr a) (split_evr b).

(* the same with the loop formulation, for cross-validation only *)
Definition dpkg_cmp_loop (a b : bytes) : comparison :=
  lex2 (lex2 N.compare verrevcmp_loop) verrevcmp_loop (split_evr a) (split_evr b).

(* ------------------------------------------------------------------------------------ *)
(* The specification interface                                                           *)
(* ------------------------------------------------------------------------------------ *)

Definition spec_valid : bytes -> bool := dpkg_valid.

Definition spec_cmp (a b : bytes) : option comparison :=
  if spec_valid a && spec_valid b then Some (dpkg_cmp a b) else None.
