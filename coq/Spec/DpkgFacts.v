(* Spec/DpkgFacts.v — facts about the reference order of Spec/Dpkg.v *)
From Coq Require Import Lia ZifyBool.
From Verif.Base Require Import Bytes GoNum Ord BytesFacts.
From Verif.Spec Require Import Dpkg.

(* ---------- the order is a total preorder on ALL byte strings ---------- *)

Lemma cmp_nondigit_as_on :
  forall x y, cmp_nondigit x y = cmp_on (map order) (lex_pad order_end Z.compare) x y.
Proof. reflexivity. Qed.

Lemma TP_cmp_nondigit : TotalPreorder cmp_nondigit.
Proof.
  eapply TP_ext; [apply cmp_nondigit_as_on|].
  apply TP_on, TP_lex_pad, TP_Z.
Qed.

Lemma TP_cmp_digits : TotalPreorder cmp_digits.
Proof. exact TP_digits_cmp. Qed.

Lemma TP_cmp_token : TotalPreorder cmp_token.
Proof. apply TP_lex2; [apply TP_cmp_nondigit | apply TP_cmp_digits]. Qed.

Lemma verrevcmp_as_on :
  forall a b, verrevcmp a b = cmp_on tokens (lex_pad empty_token cmp_token) a b.
Proof. reflexivity. Qed.

Theorem TP_verrevcmp : TotalPreorder verrevcmp.
Proof.
  eapply TP_ext; [apply verrevcmp_as_on|].
  apply TP_on, TP_lex_pad, TP_cmp_token.
Qed.

Lemma TP_cmp_evr : TotalPreorder cmp_evr.
Proof.
  apply TP_lex2; [apply TP_lex2; [apply TP_N | apply TP_verrevcmp] | apply TP_verrevcmp].
Qed.

Lemma dpkg_cmp_as_on : forall a b, dpkg_cmp a b = cmp_on split_evr cmp_evr a b.
Proof. reflexivity. Qed.

Theorem TP_dpkg_cmp : TotalPreorder dpkg_cmp.
Proof.
  eapply TP_ext; [apply dpkg_cmp_as_on|].
  apply TP_on, TP_cmp_evr.
Qed.

(* ---------- the specification interface ---------- *)

Lemma spec_cmp_some a b :
  spec_valid a = true -> spec_valid b = true -> spec_cmp a b = Some (dpkg_cmp a b).
Proof. intros Ha Hb. unfold spec_cmp. rewrite Ha, Hb. reflexivity. Qed.

Lemma spec_cmp_none a b :
  spec_cmp a b = None <-> spec_valid a = false \/ spec_valid b = false.
Proof.
  unfold spec_cmp. destruct (spec_valid a), (spec_valid b); simpl; split; intros H;
    try discriminate; try (destruct H; discriminate); auto.
Qed.

(* the laws in the wording of the properties, for valid strings *)
Theorem spec_cmp_laws a b c :
  spec_valid a = true -> spec_valid b = true -> spec_valid c = true ->
  exists x y z,
    spec_cmp a b = Some x /\ spec_cmp b c = Some y /\ spec_cmp a c = Some z /\
    spec_cmp a a = Some Eq /\ spec_cmp b a = Some (CompOpp x) /\
    (le_c x -> le_c y -> le_c z) /\
    (le_c x -> le_c y -> lt_c x \/ lt_c y -> lt_c z) /\
    (x = Eq -> z = y).
Proof.
  intros Ha Hb Hc.
  exists (dpkg_cmp a b), (dpkg_cmp b c), (dpkg_cmp a c).
  rewrite !spec_cmp_some by assumption.
  destruct (TP_laws _ _ TP_dpkg_cmp a b c) as (L1 & L2 & L3 & L4 & L5).
  rewrite L1, L2. repeat split; assumption.
Qed.

(* ---------- an absent revision equals the revision "0" (and "00", ...) ---------- *)

Lemma tokens_fuel_cons k c s :
  tokens_fuel (S k) (c :: s) =
  (take_while is_nondigit (c :: s), take_while is_digit (drop_while is_nondigit (c :: s)))
  :: tokens_fuel k (drop_while is_digit (drop_while is_nondigit (c :: s))).
Proof. reflexivity. Qed.

Lemma tokens_fuel_nil k : tokens_fuel k [] = [].
Proof. destruct k; reflexivity. Qed.

Lemma all_zero_digits s : forallb (ceqb "0"%char) s = true ->
  take_while is_digit s = s /\ drop_while is_digit s = [].
Proof.
  induction s as [|x s IH]; simpl; intros H; [auto|].
  apply andb_true_iff in H. destruct H as [Hx Hs].
  apply ceqb_eq in Hx. subst x. cbn. destruct (IH Hs) as [-> ->]. auto.
Qed.

Lemma tokens_all_zero z : forallb (ceqb "0"%char) z = true ->
  z <> [] -> tokens z = [([], z)].
Proof.
  intros Hz Hne.
  destruct (all_zero_digits z Hz) as [T D].
  assert (Hnd : take_while is_nondigit z = [] /\ drop_while is_nondigit z = z).
  { destruct z as [|c z]; [congruence|]. simpl in Hz.
    apply andb_true_iff in Hz. destruct Hz as [Hc _].
    apply ceqb_eq in Hc. subst c. split; reflexivity. }
  destruct Hnd as [N1 N2].
  unfold tokens. destruct z as [|c z]; [congruence|].
  cbn [length]. rewrite tokens_fuel_cons, N1, N2, T, D, tokens_fuel_nil. reflexivity.
Qed.

Lemma strip_zeros_all_zero z : forallb (ceqb "0"%char) z = true -> strip_zeros z = [].
Proof. intros H. unfold strip_zeros. apply drop_while_nil_iff. assumption. Qed.

Lemma verrevcmp_nil_zeros z : forallb (ceqb "0"%char) z = true -> verrevcmp [] z = Eq.
Proof.
  intros Hz. destruct z as [|c z]; [reflexivity|].
  unfold verrevcmp. rewrite (tokens_all_zero (c :: z) Hz) by discriminate.
  cbn. unfold cmp_digits, digits_cmp.
  rewrite (strip_zeros_all_zero (c :: z) Hz). reflexivity.
Qed.

(* ---------- validity ---------- *)

Lemma dpkg_valid_accepts s : dpkg_valid s = true -> dpkg_accepts s = true.
Proof.
  unfold dpkg_valid, dpkg_accepts, valid_with.
  destruct (split_epoch s) as [e rest]. destruct (split_revision rest) as [u r].
  intros H. apply andb_true_iff in H. destruct H as [H Hr].
  apply andb_true_iff in H. destruct H as [He Hu].
  rewrite He, Hr. cbn [andb]. rewrite andb_true_r.
  destruct u as [|c u]; [discriminate|]. cbn [upstream_ok] in *.
  apply andb_true_iff in Hu. destruct Hu as [Hc Hu]. rewrite Hc. cbn [andb].
  rewrite forallb_forall in *. intros x Hx. unfold is_upstream_char_colon.
  rewrite (Hu x Hx). reflexivity.
Qed.

(* ---------- a native version equals the same version with revision 0 ---------- *)

Lemma cut1_app_some c s t e r :
  cut [c] s = Some (e, r) -> cut [c] (s ++ t) = Some (e, r ++ t).
Proof.
  revert e r. induction s as [|x s IH]; intros e r H.
  - discriminate.
  - cbn [cut has_prefix app] in *. rewrite andb_true_r in *.
    destruct (ceqb c x).
    + injection H as <- <-. reflexivity.
    + destruct (cut [c] s) as [[e' r']|] eqn:C; [|discriminate].
      injection H as <- <-. rewrite (IH e' r' eq_refl). reflexivity.
Qed.

Lemma cut1_none c s : contains_c c s = false -> cut [c] s = None.
Proof.
  unfold contains_c. induction s as [|x s IH]; intros H; [reflexivity|].
  cbn [existsb] in H. apply orb_false_iff in H. destruct H as [Hx Hs].
  cbn [cut has_prefix]. rewrite Hx. cbn [andb]. rewrite (IH Hs). reflexivity.
Qed.

Lemma cut1_none_app c s t : cut [c] s = None -> cut [c] (s ++ t) =
  match cut [c] t with Some (e, r) => Some (s ++ e, r) | None => None end.
Proof.
  induction s as [|x s IH]; intros H.
  - cbn [app]. destruct (cut [c] t) as [[e r]|]; reflexivity.
  - cbn [cut has_prefix app] in *. rewrite andb_true_r in *.
    destruct (ceqb c x); [discriminate|].
    destruct (cut [c] s) as [[e' r']|] eqn:C; [discriminate|].
    rewrite (IH eq_refl). destruct (cut [c] t) as [[e r]|]; reflexivity.
Qed.

Lemma contains_c_rev c s : contains_c c (rev s) = contains_c c s.
Proof.
  unfold contains_c. induction s as [|x s IH]; [reflexivity|].
  cbn [rev existsb]. rewrite existsb_app, IH. cbn [existsb].
  rewrite orb_false_r. apply orb_comm.
Qed.

Lemma split_revision_no_hyphen s :
  contains_c "-"%char s = false -> split_revision s = (s, None).
Proof.
  intros H. unfold split_revision, cut_last_c.
  rewrite cut1_none; [reflexivity|]. rewrite contains_c_rev. assumption.
Qed.

Lemma split_revision_app s z :
  contains_c "-"%char z = false -> split_revision (s ++ "-"%char :: z) = (s, Some z).
Proof.
  intros H. unfold split_revision, cut_last_c.
  rewrite rev_app_distr. cbn [rev]. rewrite <- app_assoc. cbn [app].
  rewrite cut1_none_app by (apply cut1_none; rewrite contains_c_rev; assumption).
  cbn [cut has_prefix]. rewrite ceqb_refl. cbn [andb skipn length].
  rewrite app_nil_r, !rev_involutive. reflexivity.
Qed.

(* the part of a version after the epoch *)
Lemma split_epoch_app s t :
  contains_c ":"%char t = false ->
  split_epoch (s ++ t) = (fst (split_epoch s), snd (split_epoch s) ++ t).
Proof.
  intros Ht. unfold split_epoch.
  destruct (cut [":"%char] s) as [[e r]|] eqn:C.
  - rewrite (cut1_app_some _ _ t _ _ C). reflexivity.
  - rewrite (cut1_none_app _ _ t C), (cut1_none _ _ Ht). reflexivity.
Qed.

Theorem native_eq_revision_zero s z :
  contains_c "-"%char s = false ->
  forallb (ceqb "0"%char) z = true ->
  dpkg_cmp s (s ++ "-"%char :: z) = Eq.
Proof.
  intros Hs Hz.
  assert (Zc : forall c, c <> "0"%char -> contains_c c z = false).
  { intros c Hc. unfold contains_c. induction z as [|x z IH]; [reflexivity|].
    cbn [forallb existsb] in *. apply andb_true_iff in Hz. destruct Hz as [Hx Hz].
    apply ceqb_eq in Hx. subst x. rewrite (IH Hz), orb_false_r.
    apply ceqb_neq. assumption. }
  unfold dpkg_cmp, split_evr.
  rewrite (split_epoch_app s ("-"%char :: z)).
  2:{ unfold contains_c. cbn [existsb]. rewrite orb_false_l. apply Zc. discriminate. }
  destruct (split_epoch s) as [e rest] eqn:E. cbn [fst snd].
  assert (Hrest : contains_c "-"%char rest = false).
  { unfold split_epoch in E. destruct (cut [":"%char] s) as [[e' r']|] eqn:C.
    - injection E as <- <-.
      assert (G : forall s e r, cut [":"%char] s = Some (e, r) ->
                  contains_c "-"%char s = false -> contains_c "-"%char r = false).
      { clear. unfold contains_c. induction s as [|x s IH]; intros e r H Hc; [discriminate|].
        cbn [cut has_prefix existsb] in *. rewrite andb_true_r in H.
        apply orb_false_iff in Hc. destruct Hc as [_ Hc].
        destruct (ceqb ":"%char x).
        - injection H as <- <-. exact Hc.
        - destruct (cut [":"%char] s) as [[e' r']|] eqn:C; [|discriminate].
          injection H as <- <-. eapply IH; [reflexivity|assumption]. }
      eapply G; eassumption.
    - injection E as <- <-. assumption. }
  rewrite (split_revision_no_hyphen rest Hrest).
  rewrite (split_revision_app rest z) by (apply Zc; discriminate).
  unfold cmp_evr, lex2. cbn [fst snd].
  rewrite N.compare_refl, (tp_refl TP_verrevcmp). cbn [thenc].
  apply verrevcmp_nil_zeros. assumption.
Qed.

(* ---------- sample points of the order (deb-version(7), Policy 5.6.12) ---------- *)

Example ex_tilde_chain :
  map (fun p => verrevcmp (fst p) (snd p))
      [($"~~", $"~~a"); ($"~~a", $"~"); ($"~", $""); ($"", $"a"); ($"a", $"+"); ($"1.0a", $"1.0+")]
  = [Lt; Lt; Lt; Lt; Lt; Lt].
Proof. vm_compute. reflexivity. Qed.

Example ex_numeric :
  (verrevcmp $"1a" $"1a0", verrevcmp $"001" $"1", verrevcmp $"9" $"10",
   verrevcmp $"18446744073709551616" $"18446744073709551615",
   verrevcmp $"1.100000000000000000000000" $"1.99999999999999999999999")
  = (Eq, Eq, Lt, Gt, Gt).
Proof. vm_compute. reflexivity. Qed.

Example ex_versions :
  (spec_cmp $"1.0" $"1.0-0", spec_cmp $"1.0-1" $"1.0", spec_cmp $"1:0.1" $"2.0",
   spec_cmp $"0:1" $"1", spec_cmp $"1-2-3" $"1-2", spec_cmp $"1.0-" $"1.0", spec_cmp $"1.0~rc1" $"1.0")
  = (Some Eq, Some Gt, Some Gt, Some Eq, Some Gt, None, Some Lt).
Proof. vm_compute. reflexivity. Qed.

(* ====================================================================================
   dpkg's character-stepping loop (version.c) computes the token-pair order
   ==================================================================================== *)

(* ---------- one round of the token view ---------- *)

Definition tok1 (s : bytes) : bytes * bytes :=
  (take_while is_nondigit s, take_while is_digit (drop_while is_nondigit s)).
Definition rest1 (s : bytes) : bytes := drop_while is_digit (drop_while is_nondigit s).

Lemma drop_while_length p (s : bytes) : length (drop_while p s) <= length s.
Proof.
  induction s as [|c s IH]; simpl; [lia|]. destruct (p c); simpl; lia.
Qed.

Lemma rest1_length s : length (rest1 s) <= length s.
Proof.
  unfold rest1.
  pose proof (drop_while_length is_digit (drop_while is_nondigit s)).
  pose proof (drop_while_length is_nondigit s). lia.
Qed.

Lemma rest1_length_cons c s : length (rest1 (c :: s)) <= length s.
Proof.
  unfold rest1. cbn [drop_while]. unfold is_nondigit at 1.
  destruct (is_digit c) eqn:E; cbn [negb].
  - cbn [drop_while]. rewrite E. apply drop_while_length.
  - apply (rest1_length s).
Qed.

Lemma tokens_fuel_enough k k' s :
  length s < k -> length s < k' -> tokens_fuel k s = tokens_fuel k' s.
Proof.
  revert k' s. induction k as [|k IH]; intros k' s H H'; [lia|].
  destruct k' as [|k']; [lia|].
  destruct s as [|c s]; [reflexivity|].
  rewrite !tokens_fuel_cons. f_equal.
  pose proof (rest1_length_cons c s) as L. unfold rest1 in L.
  cbn [length] in H, H'. apply IH; lia.
Qed.

Lemma tokens_cons c s : tokens (c :: s) = tok1 (c :: s) :: tokens (rest1 (c :: s)).
Proof.
  unfold tokens at 1. cbn [length]. rewrite tokens_fuel_cons.
  unfold tok1. f_equal. unfold tokens, rest1.
  pose proof (rest1_length_cons c s) as L. unfold rest1 in L.
  apply tokens_fuel_enough; lia.
Qed.

Lemma verrevcmp_step a b :
  a <> [] \/ b <> [] ->
  verrevcmp a b = thenc (cmp_token (tok1 a) (tok1 b)) (verrevcmp (rest1 a) (rest1 b)).
Proof.
  intros H. unfold verrevcmp.
  destruct a as [|x a]; destruct b as [|y b].
  - destruct H; congruence.
  - rewrite tokens_cons. reflexivity.
  - rewrite tokens_cons. reflexivity.
  - rewrite !tokens_cons. reflexivity.
Qed.

(* ---------- the non-digit phase ---------- *)

Lemma order_digit c : is_digit c = true -> order c = 0%Z.
Proof. intros H. unfold order. rewrite H. reflexivity. Qed.

Lemma order_nondigit c : is_digit c = false -> order c <> 0%Z.
Proof.
  intros H. unfold order. rewrite H.
  destruct (is_letter c) eqn:L.
  - unfold is_letter, is_lower, is_upper, in_range in L. lia.
  - destruct (ceqb c "~"%char); lia.
Qed.

Lemma order_hd_not_nondigit s : hd_is is_nondigit s = false -> order_hd s = 0%Z.
Proof.
  destruct s as [|c s]; simpl; [reflexivity|]. unfold is_nondigit.
  intros H. apply order_digit. destruct (is_digit c); simpl in *; congruence.
Qed.

Lemma take_nondigit_hd_false s :
  hd_is is_nondigit s = false -> take_while is_nondigit s = [] /\ drop_while is_nondigit s = s.
Proof. destruct s as [|c s]; simpl; [auto|]. intros ->. auto. Qed.

Lemma Zcompare_neq_0_l z : z <> 0%Z -> Z.compare z 0 <> Eq.
Proof. intros H E. apply Z.compare_eq in E. congruence. Qed.
Lemma Zcompare_neq_0_r z : z <> 0%Z -> Z.compare 0 z <> Eq.
Proof. intros H E. apply Z.compare_eq in E. congruence. Qed.

Definition nondigit_result (a b : bytes) : comparison + (bytes * bytes) :=
  match cmp_nondigit (take_while is_nondigit a) (take_while is_nondigit b) with
  | Eq => inr (drop_while is_nondigit a, drop_while is_nondigit b)
  | c => inl c
  end.

Lemma cmp_nondigit_cons x s y t :
  cmp_nondigit (x :: s) (y :: t) = thenc (Z.compare (order x) (order y)) (cmp_nondigit s t).
Proof. reflexivity. Qed.
Lemma cmp_nondigit_cons_nil x s :
  cmp_nondigit (x :: s) [] = thenc (Z.compare (order x) 0) (cmp_nondigit s []).
Proof. reflexivity. Qed.
Lemma cmp_nondigit_nil_cons y t :
  cmp_nondigit [] (y :: t) = thenc (Z.compare 0 (order y)) (cmp_nondigit [] t).
Proof. reflexivity. Qed.

Lemma loop_nondigit_spec fuel a b :
  length a + length b < fuel -> loop_nondigit fuel a b = nondigit_result a b.
Proof.
  revert a b. induction fuel as [|k IH]; intros a b H; [lia|].
  cbn [loop_nondigit]. unfold nondigit_result.
  destruct (hd_is is_nondigit a) eqn:Ha; destruct (hd_is is_nondigit b) eqn:Hb; cbn [orb].
  - destruct a as [|x a]; [discriminate|]. destruct b as [|y b]; [discriminate|].
    simpl in Ha, Hb. cbn [take_while drop_while order_hd tl]. rewrite Ha, Hb.
    rewrite cmp_nondigit_cons. cbn [length] in H.
    destruct (Z.compare (order x) (order y)); cbn [thenc]; try reflexivity.
    rewrite IH by lia. reflexivity.
  - destruct a as [|x a]; [discriminate|]. simpl in Ha.
    destruct (take_nondigit_hd_false b Hb) as [Tb Db]. rewrite Tb, Db.
    rewrite (order_hd_not_nondigit b Hb).
    cbn [take_while drop_while order_hd]. rewrite Ha. rewrite cmp_nondigit_cons_nil.
    assert (N : order x <> 0%Z).
    { apply order_nondigit. unfold is_nondigit in Ha. destruct (is_digit x); simpl in *; congruence. }
    pose proof (Zcompare_neq_0_l _ N).
    destruct (Z.compare (order x) 0); cbn [thenc]; congruence.
  - destruct b as [|y b]; [discriminate|]. simpl in Hb.
    destruct (take_nondigit_hd_false a Ha) as [Ta Da]. rewrite Ta, Da.
    rewrite (order_hd_not_nondigit a Ha).
    cbn [take_while drop_while order_hd]. rewrite Hb. rewrite cmp_nondigit_nil_cons.
    assert (N : order y <> 0%Z).
    { apply order_nondigit. unfold is_nondigit in Hb. destruct (is_digit y); simpl in *; congruence. }
    pose proof (Zcompare_neq_0_r _ N).
    destruct (Z.compare 0 (order y)); cbn [thenc]; congruence.
  - destruct (take_nondigit_hd_false a Ha) as [Ta Da].
    destruct (take_nondigit_hd_false b Hb) as [Tb Db].
    rewrite Ta, Da, Tb, Db. reflexivity.
Qed.

(* ---------- the digit phase ---------- *)

Definition digit_phase (a1 b1 : bytes) : comparison + (bytes * bytes) :=
  let '(fd, (a2, b2)) := loop_digits Eq (strip_zeros a1) (strip_zeros b1) in
  if hd_is is_digit a2 then inl Gt
  else if hd_is is_digit b2 then inl Lt
  else match fd with Eq => inr (a2, b2) | c => inl c end.

Definition digits_result (fd : comparison) (a b : bytes) : comparison + (bytes * bytes) :=
  let ta := take_while is_digit a in
  let tb := take_while is_digit b in
  match thenc (Nat.compare (length ta) (length tb)) (thenc fd (bytes_cmp ta tb)) with
  | Eq => inr (drop_while is_digit a, drop_while is_digit b)
  | c => inl c
  end.

Definition after_digits (r : comparison * (bytes * bytes)) : comparison + (bytes * bytes) :=
  let '(fd, (a2, b2)) := r in
  if hd_is is_digit a2 then inl Gt
  else if hd_is is_digit b2 then inl Lt
  else match fd with Eq => inr (a2, b2) | c => inl c end.

Lemma thenc_Eq_r c : thenc c Eq = c.
Proof. destruct c; reflexivity. Qed.
Lemma thenc_assoc a b c : thenc (thenc a b) c = thenc a (thenc b c).
Proof. destruct a; reflexivity. Qed.

Lemma take_digit_hd_false s :
  hd_is is_digit s = false -> take_while is_digit s = [] /\ drop_while is_digit s = s.
Proof. destruct s as [|c s]; simpl; [auto|]. intros ->. auto. Qed.

Lemma take_digit_hd_true s :
  hd_is is_digit s = true -> exists c t, take_while is_digit s = c :: t.
Proof. destruct s as [|c s]; simpl; [discriminate|]. intros ->. eauto. Qed.

Lemma loop_digits_spec fd a b : after_digits (loop_digits fd a b) = digits_result fd a b.
Proof.
  revert fd b. induction a as [|x a IH]; intros fd b.
  - cbn [loop_digits after_digits hd_is]. unfold digits_result. cbn [take_while drop_while length].
    destruct (hd_is is_digit b) eqn:Hb.
    + destruct (take_digit_hd_true b Hb) as (c & t & ->). reflexivity.
    + destruct (take_digit_hd_false b Hb) as [-> ->]. cbn. rewrite thenc_Eq_r.
      destruct fd; reflexivity.
  - destruct b as [|y b].
    + cbn [loop_digits after_digits hd_is]. unfold digits_result. cbn [take_while drop_while].
      destruct (is_digit x) eqn:Hx; [reflexivity|].
      cbn. rewrite thenc_Eq_r. destruct fd; reflexivity.
    + cbn [loop_digits].
      destruct (is_digit x) eqn:Hx; destruct (is_digit y) eqn:Hy; cbn [andb].
      * rewrite IH. unfold digits_result. cbn [take_while drop_while]. rewrite Hx, Hy.
        cbn [length bytes_cmp]. rewrite thenc_assoc. reflexivity.
      * cbn [after_digits hd_is]. rewrite Hx. unfold digits_result.
        cbn [take_while drop_while]. rewrite Hx, Hy. reflexivity.
      * cbn [after_digits hd_is]. rewrite Hx, Hy. unfold digits_result.
        cbn [take_while drop_while]. rewrite Hx, Hy. reflexivity.
      * cbn [after_digits hd_is]. rewrite Hx, Hy. unfold digits_result.
        cbn [take_while drop_while]. rewrite Hx, Hy. cbn. rewrite thenc_Eq_r.
        destruct fd; reflexivity.
Qed.

Lemma zero_is_digit x : ceqb "0"%char x = true -> is_digit x = true.
Proof. intros H. apply ceqb_eq in H. subst x. reflexivity. Qed.

Lemma strip_zeros_take_digit a :
  strip_zeros (take_while is_digit a) = take_while is_digit (strip_zeros a).
Proof.
  unfold strip_zeros. induction a as [|x a IH]; [reflexivity|].
  cbn [take_while drop_while].
  destruct (ceqb "0"%char x) eqn:Z.
  - rewrite (zero_is_digit x Z). cbn [drop_while]. rewrite Z. exact IH.
  - destruct (is_digit x) eqn:D.
    + cbn [drop_while take_while]. rewrite Z, D. reflexivity.
    + cbn [drop_while take_while]. rewrite D. reflexivity.
Qed.

Lemma drop_digit_strip_zeros a :
  drop_while is_digit (strip_zeros a) = drop_while is_digit a.
Proof.
  unfold strip_zeros. induction a as [|x a IH]; [reflexivity|].
  cbn [drop_while].
  destruct (ceqb "0"%char x) eqn:Z.
  - rewrite (zero_is_digit x Z). exact IH.
  - reflexivity.
Qed.

Lemma digit_phase_spec a b :
  digit_phase a b =
  match cmp_digits (take_while is_digit a) (take_while is_digit b) with
  | Eq => inr (drop_while is_digit a, drop_while is_digit b)
  | c => inl c
  end.
Proof.
  change (digit_phase a b) with (after_digits (loop_digits Eq (strip_zeros a) (strip_zeros b))).
  rewrite loop_digits_spec. unfold digits_result, cmp_digits, digits_cmp.
  rewrite !strip_zeros_take_digit, !drop_digit_strip_zeros. reflexivity.
Qed.

(* ---------- the outer loop ---------- *)

Definition loop_body (k : nat) (a b : bytes) : comparison :=
  match loop_nondigit (S (length a + length b)) a b with
  | inl c => c
  | inr (a1, b1) =>
      match digit_phase a1 b1 with
      | inl c => c
      | inr (a2, b2) => verrevcmp_loop_fuel k a2 b2
      end
  end.

Lemma verrevcmp_loop_fuel_S k a b :
  verrevcmp_loop_fuel (S k) a b =
  match a, b with [], [] => Eq | _, _ => loop_body k a b end.
Proof.
  assert (B : forall a b,
    match loop_nondigit (S (length a + length b)) a b with
    | inl c => c
    | inr (a1, b1) =>
        let '(fd, (a2, b2)) := loop_digits Eq (strip_zeros a1) (strip_zeros b1) in
        if hd_is is_digit a2 then Gt
        else if hd_is is_digit b2 then Lt
        else match fd with Eq => verrevcmp_loop_fuel k a2 b2 | c => c end
    end = loop_body k a b).
  { intros a0 b0. unfold loop_body, digit_phase.
    destruct (loop_nondigit (S (length a0 + length b0)) a0 b0) as [c|[a1 b1]]; [reflexivity|].
    destruct (loop_digits Eq (strip_zeros a1) (strip_zeros b1)) as [fd [a2 b2]].
    destruct (hd_is is_digit a2); [reflexivity|].
    destruct (hd_is is_digit b2); [reflexivity|].
    destruct fd; reflexivity. }
  destruct a as [|x a]; destruct b as [|y b]; cbn [verrevcmp_loop_fuel]; try reflexivity; apply B.
Qed.

Lemma loop_body_spec k a b :
  loop_body k a b =
  match cmp_token (tok1 a) (tok1 b) with
  | Eq => verrevcmp_loop_fuel k (rest1 a) (rest1 b)
  | c => c
  end.
Proof.
  unfold loop_body. rewrite loop_nondigit_spec by lia. unfold nondigit_result.
  unfold cmp_token, lex2, tok1, rest1. cbn [fst snd].
  destruct (cmp_nondigit (take_while is_nondigit a) (take_while is_nondigit b)); cbn [thenc];
    try reflexivity.
  rewrite digit_phase_spec.
  destruct (cmp_digits (take_while is_digit (drop_while is_nondigit a))
                       (take_while is_digit (drop_while is_nondigit b))); reflexivity.
Qed.

Lemma verrevcmp_loop_fuel_spec fuel a b :
  length a + length b < fuel -> verrevcmp_loop_fuel fuel a b = verrevcmp a b.
Proof.
  revert a b. induction fuel as [|k IH]; intros a b H; [lia|].
  rewrite verrevcmp_loop_fuel_S.
  assert (Step : a <> [] \/ b <> [] ->
                 loop_body k a b = verrevcmp a b).
  { intros Hne. rewrite loop_body_spec, (verrevcmp_step a b Hne).
    destruct (cmp_token (tok1 a) (tok1 b)); cbn [thenc]; try reflexivity.
    apply IH.
    destruct a as [|x a]; destruct b as [|y b].
    - destruct Hne; congruence.
    - pose proof (rest1_length_cons y b). cbn [length] in *. change (rest1 []) with (@nil ascii).
      cbn [length]. lia.
    - pose proof (rest1_length_cons x a). cbn [length] in *. change (rest1 []) with (@nil ascii).
      cbn [length]. lia.
    - pose proof (rest1_length_cons x a). pose proof (rest1_length_cons y b).
      cbn [length] in *. lia. }
  destruct a as [|x a]; destruct b as [|y b].
  - reflexivity.
  - apply Step. right. discriminate.
  - apply Step. left. discriminate.
  - apply Step. left. discriminate.
Qed.

(* dpkg's character-stepping loop computes the token-pair order, on all byte strings *)
Theorem verrevcmp_loop_eq a b : verrevcmp_loop a b = verrevcmp a b.
Proof. unfold verrevcmp_loop. apply verrevcmp_loop_fuel_spec. lia. Qed.

Theorem dpkg_cmp_loop_eq a b : dpkg_cmp_loop a b = dpkg_cmp a b.
Proof.
  unfold dpkg_cmp_loop, dpkg_cmp, cmp_evr, lex2. cbn [fst snd].
  rewrite !verrevcmp_loop_eq. reflexivity.
Qed.

Corollary TP_verrevcmp_loop : TotalPreorder verrevcmp_loop.
Proof. eapply TP_ext; [apply verrevcmp_loop_eq | apply TP_verrevcmp]. Qed.


Print Assumptions TP_verrevcmp.
Print Assumptions TP_dpkg_cmp.
Print Assumptions spec_cmp_laws.
Print Assumptions verrevcmp_nil_zeros.
Print Assumptions verrevcmp_loop_eq.
Print Assumptions native_eq_revision_zero.
