(* Spec/GemVersion.v — the reference order of RubyGems: Gem::Version#<=>.

   Transcribed from RubyGems' lib/rubygems/version.rb (VERSION_PATTERN, initialize,
   segments, _split_segments, canonical_segments, <=>) through the Python transcription
   notes/spec-refs/gem_ref.py.  Definitions only; facts are in GemVersionFacts.v.

   Domain: ASCII byte strings.  The empty / all-blank string (which RubyGems reads as "0")
   is deliberately NOT accepted here: [gem_valid] answers [false] on it. *)
From Verif.Base Require Import Bytes GoNum Ord.
Local Open Scope N_scope.

(* ------------------------------------------------------------------------------------ *)
(* 1. Validity: VERSION_PATTERN, anchored (ANCHORED_VERSION_PATTERN without the "?").    *)
(*      \A \s*  D+ { "." AN+ }  [ "-" AD+ { "." AD+ } ]  \s* \z                            *)
(*    D = [0-9], AN = [0-9a-zA-Z], AD = [0-9A-Za-z-], {x} = zero or more, [x] = optional  *)
(* ------------------------------------------------------------------------------------ *)

Definition is_dash (c : ascii) : bool := ceqb c "-"%char.
Definition is_dot (c : ascii) : bool := ceqb c "."%char.
Definition is_alnum_dash (c : ascii) : bool := is_alnum c || is_dash c.

(* The anchored pattern as a deterministic automaton.  After a maximal run of the current
   character class the next byte decides alone what follows, so no backtracking is needed:
     VStart   nothing read yet                     needs a digit
     VNum     inside the leading D+                accepting
     VDot     just after a "." of the first part   needs AN
     VAlnum   inside a "." AN+ group               accepting
     VPreSep  just after the "-" that opens the second part, or after a "." inside it
                                                   needs AD
     VPre     inside an AD+ run                    accepting                              *)
Inductive vstate := VStart | VNum | VDot | VAlnum | VPreSep | VPre.

Definition vstep (st : vstate) (c : ascii) : option vstate :=
  match st with
  | VStart => if is_digit c then Some VNum else None
  | VNum =>
      if is_digit c then Some VNum
      else if is_dot c then Some VDot
      else if is_dash c then Some VPreSep
      else None
  | VDot => if is_alnum c then Some VAlnum else None
  | VAlnum =>
      if is_alnum c then Some VAlnum
      else if is_dot c then Some VDot
      else if is_dash c then Some VPreSep
      else None
  | VPreSep => if is_alnum_dash c then Some VPre else None
  | VPre =>
      if is_alnum_dash c then Some VPre
      else if is_dot c then Some VPreSep
      else None
  end.

Definition vaccepting (st : vstate) : bool :=
  match st with
  | VNum | VAlnum | VPre => true
  | VStart | VDot | VPreSep => false
  end.

Fixpoint vrun (st : vstate) (s : bytes) : bool :=
  match s with
  | [] => vaccepting st
  | c :: s' =>
      match vstep st c with
      | Some st' => vrun st' s'
      | None => false
      end
  end.

(* VERSION_PATTERN anchored at both ends, on text without surrounding blanks *)
Definition gem_pattern (s : bytes) : bool := vrun VStart s.

(* Gem::Version.correct? restricted to non-blank input (\s = SP TAB LF VT FF CR) *)
Definition gem_valid (s : bytes) : bool := gem_pattern (trim_space s).

(* ------------------------------------------------------------------------------------ *)
(* 2. Segments:  @version = version.strip.gsub("-", ".pre.");  scan(/[0-9]+|[a-z]+/i)     *)
(* ------------------------------------------------------------------------------------ *)

Inductive seg :=
| SInt (n : N)          (* a maximal digit run, as an integer of any size *)
| SStr (s : bytes).     (* a maximal letter run, case kept *)

(* gsub("-", ".pre.") *)
Definition gem_gsub_pre (s : bytes) : bytes :=
  flat_map (fun c => if is_dash c then $".pre." else [c]) s.

(* scan(/[0-9]+|[a-z]+/i): leftmost maximal runs; every other byte separates.
   fuel = length s + 1; each round consumes at least one byte. *)
Fixpoint gem_scan_fuel (fuel : nat) (s : bytes) : list seg :=
  match fuel with
  | O => []
  | S k =>
      match s with
      | [] => []
      | c :: s' =>
          if is_digit c then
            SInt (digits_val (take_while is_digit s)) :: gem_scan_fuel k (drop_while is_digit s)
          else if is_letter c then
            SStr (take_while is_letter s) :: gem_scan_fuel k (drop_while is_letter s)
          else gem_scan_fuel k s'
      end
  end.
Definition gem_scan (s : bytes) : list seg := gem_scan_fuel (S (length s)) s.

(* Gem::Version#segments *)
Definition gem_segments (s : bytes) : list seg := gem_scan (gem_gsub_pre (trim_space s)).

(* ------------------------------------------------------------------------------------ *)
(* 3. Canonical segments (_split_segments, canonical_segments)                           *)
(* ------------------------------------------------------------------------------------ *)

Definition seg_is_int (x : seg) : bool := match x with SInt _ => true | SStr _ => false end.
Definition seg_is_zero (x : seg) : bool := match x with SInt n => n =? 0 | SStr _ => false end.

Fixpoint seg_take_while (p : seg -> bool) (l : list seg) : list seg :=
  match l with
  | x :: l' => if p x then x :: seg_take_while p l' else []
  | [] => []
  end.
Fixpoint seg_drop_while (p : seg -> bool) (l : list seg) : list seg :=
  match l with
  | x :: l' => if p x then seg_drop_while p l' else l
  | [] => []
  end.

(* _split_segments: the numeric part is everything before the first String segment *)
Definition gem_split_segments (l : list seg) : list seg * list seg :=
  (seg_take_while seg_is_int l, seg_drop_while seg_is_int l).

(* segments.reverse_each.drop_while { |s| s == 0 }.reverse *)
Definition drop_trailing_zeros (l : list seg) : list seg :=
  rev (seg_drop_while seg_is_zero (rev l)).

Definition gem_canonical_of_segments (l : list seg) : list seg :=
  let (num, str) := gem_split_segments l in
  drop_trailing_zeros num ++ drop_trailing_zeros str.

(* Gem::Version#canonical_segments *)
Definition gem_canonical (s : bytes) : list seg := gem_canonical_of_segments (gem_segments s).

(* ------------------------------------------------------------------------------------ *)
(* 4. Comparison                                                                          *)
(* ------------------------------------------------------------------------------------ *)

(* one position of <=>:  equal -> next;  String vs Integer -> String is lower;
   otherwise Integer#<=> resp. String#<=> (byte order) *)
Definition seg_cmp (x y : seg) : comparison :=
  match x, y with
  | SInt a, SInt b => a ?= b
  | SStr _, SInt _ => Lt
  | SInt _, SStr _ => Gt
  | SStr a, SStr b => bytes_cmp a b
  end.

(* lhs = lhsegments[i] || 0 *)
Definition seg_hd (l : list seg) : seg := match l with x :: _ => x | [] => SInt 0 end.

(* the loop "while i <= limit" with i running over 0 .. max(lhsize, rhsize) - 1;
   [n] is the number of positions still to visit *)
Fixpoint gem_cmp_pos (n : nat) (l r : list seg) : comparison :=
  match n with
  | O => Eq
  | S k => thenc (seg_cmp (seg_hd l) (seg_hd r)) (gem_cmp_pos k (tl l) (tl r))
  end.

Definition gem_cmp_segs (l r : list seg) : comparison :=
  gem_cmp_pos (Nat.max (length l) (length r)) l r.

(* Gem::Version.new(a) <=> Gem::Version.new(b) *)
Definition gem_cmp (a b : bytes) : comparison :=
  gem_cmp_segs (gem_canonical a) (gem_canonical b).

(* ------------------------------------------------------------------------------------ *)
(* 5. The specification interface                                                         *)
(* ------------------------------------------------------------------------------------ *)

Definition spec_valid : bytes -> bool := gem_valid.

Definition spec_cmp (a b : bytes) : option comparison :=
  if spec_valid a && spec_valid b then Some (gem_cmp a b) else None.
