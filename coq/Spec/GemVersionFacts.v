(* Spec/GemVersionFacts.v — facts about the RubyGems reference order of Spec/GemVersion.v:
   the positional loop is [lex_pad (SInt 0) seg_cmp], every layer is a total preorder, the
   scanner's fuel suffices, surrounding blanks do not matter, and the assertions of
   notes/spec-refs/gem_ref.py hold by computation. *)
From Coq Require Import Lia.
From Verif.Base Require Import Bytes GoNum Ord BytesFacts.
From Verif.Spec Require Import GemVersion.
Local Open Scope N_scope.

(* ---------- one position ---------- *)

(* seg_cmp is a comparison by the key (is-integer?, (integer value, text)) *)
Definition seg_key (x : seg) : bool * (N * bytes) :=
  match x with
  | SInt n => (true, (n, []))
  | SStr s => (false, (0, s))
  end.

Lemma seg_cmp_as_key x y :
  seg_cmp x y = cmp_on seg_key (lex2 bool_cmp (lex2 N.compare bytes_cmp)) x y.
Proof.
  destruct x as [a|a], y as [b|b]; unfold cmp_on, lex2; cbn; try reflexivity.
  destruct (a ?= b); reflexivity.
Qed.

Lemma TP_seg_cmp : TotalPreorder seg_cmp.
Proof.
  eapply TP_ext; [apply seg_cmp_as_key|].
  apply TP_on, TP_lex2; [apply TP_bool|].
  apply TP_lex2; [apply TP_N | apply TP_bytes_cmp].
Qed.

(* "next if lhs == rhs": Eq exactly on identical segments *)
Lemma seg_cmp_eq x y : seg_cmp x y = Eq <-> x = y.
Proof.
  destruct x as [a|a], y as [b|b]; cbn; split; intros H; try discriminate.
  - apply N.compare_eq in H. congruence.
  - injection H as ->. apply N.compare_refl.
  - apply bytes_cmp_eq in H. congruence.
  - injection H as ->. apply bytes_cmp_eq. reflexivity.
Qed.

Lemma seg_cmp_str_int s n : seg_cmp (SStr s) (SInt n) = Lt.
Proof. reflexivity. Qed.

Lemma seg_cmp_int_int a b : seg_cmp (SInt a) (SInt b) = (a ?= b).
Proof. reflexivity. Qed.

(* ---------- the positional loop is the padded lexicographic order ---------- *)

Lemma gem_cmp_pos_lex_pad n : forall l r,
  (length l <= n)%nat -> (length r <= n)%nat ->
  gem_cmp_pos n l r = lex_pad (SInt 0) seg_cmp l r.
Proof.
  induction n as [|n IH]; intros l r Hl Hr.
  - destruct l; destruct r; cbn in *; try lia. reflexivity.
  - destruct l as [|x l]; destruct r as [|y r]; cbn [gem_cmp_pos seg_hd tl lex_pad lex_pad_l].
    + rewrite IH by (cbn; lia). reflexivity.
    + rewrite IH by (cbn in *; lia). reflexivity.
    + rewrite IH by (cbn in *; lia). reflexivity.
    + rewrite IH by (cbn in *; lia). reflexivity.
Qed.

Theorem gem_cmp_segs_lex_pad l r : gem_cmp_segs l r = lex_pad (SInt 0) seg_cmp l r.
Proof. unfold gem_cmp_segs. apply gem_cmp_pos_lex_pad; lia. Qed.

(* more positions than needed change nothing *)
Lemma gem_cmp_pos_enough n l r :
  (length l <= n)%nat -> (length r <= n)%nat -> gem_cmp_pos n l r = gem_cmp_segs l r.
Proof.
  intros Hl Hr. rewrite gem_cmp_segs_lex_pad. apply gem_cmp_pos_lex_pad; assumption.
Qed.

Theorem TP_gem_cmp_segs : TotalPreorder gem_cmp_segs.
Proof.
  eapply TP_ext; [apply gem_cmp_segs_lex_pad|].
  apply TP_lex_pad, TP_seg_cmp.
Qed.

Theorem TP_gem_cmp : TotalPreorder gem_cmp.
Proof.
  change gem_cmp with (cmp_on gem_canonical gem_cmp_segs).
  apply TP_on, TP_gem_cmp_segs.
Qed.

(* unfolding equations of the padded order, convenient for clients *)
Lemma gem_cmp_segs_nil : gem_cmp_segs [] [] = Eq.
Proof. reflexivity. Qed.

Lemma gem_cmp_segs_cons x l y r :
  gem_cmp_segs (x :: l) (y :: r) = thenc (seg_cmp x y) (gem_cmp_segs l r).
Proof. rewrite !gem_cmp_segs_lex_pad. reflexivity. Qed.

Lemma gem_cmp_segs_cons_nil x l :
  gem_cmp_segs (x :: l) [] = thenc (seg_cmp x (SInt 0)) (gem_cmp_segs l []).
Proof. rewrite !gem_cmp_segs_lex_pad. reflexivity. Qed.

Lemma gem_cmp_segs_nil_cons y r :
  gem_cmp_segs [] (y :: r) = thenc (seg_cmp (SInt 0) y) (gem_cmp_segs [] r).
Proof. rewrite !gem_cmp_segs_lex_pad. reflexivity. Qed.

(* ---------- the specification interface ---------- *)

Lemma spec_cmp_some a b c :
  spec_cmp a b = Some c <-> spec_valid a = true /\ spec_valid b = true /\ c = gem_cmp a b.
Proof.
  unfold spec_cmp. destruct (spec_valid a); destruct (spec_valid b); cbn; split.
  all: try (intros H; discriminate).
  all: try (intros (H1 & H2 & H3); discriminate).
  - intros H. injection H as <-. auto.
  - intros (_ & _ & ->). reflexivity.
Qed.

Lemma spec_cmp_none a b :
  spec_cmp a b = None <-> spec_valid a = false \/ spec_valid b = false.
Proof.
  unfold spec_cmp. destruct (spec_valid a); destruct (spec_valid b); cbn; split; auto.
  all: try discriminate.
  intros [H|H]; discriminate.
Qed.

(* the laws on valid strings, in the wording of Base/Ord.v *)
Theorem spec_cmp_laws a b c : preorder_laws gem_cmp a b c.
Proof. apply TP_laws, TP_gem_cmp. Qed.

(* ---------- surrounding blanks are immaterial ---------- *)

Lemma gem_valid_trim s : gem_valid (trim_space s) = gem_valid s.
Proof. unfold gem_valid. rewrite trim_space_idem. reflexivity. Qed.

Lemma gem_segments_trim s : gem_segments (trim_space s) = gem_segments s.
Proof. unfold gem_segments. rewrite trim_space_idem. reflexivity. Qed.

Lemma gem_canonical_trim s : gem_canonical (trim_space s) = gem_canonical s.
Proof. unfold gem_canonical. rewrite gem_segments_trim. reflexivity. Qed.

Lemma gem_cmp_trim a b : gem_cmp (trim_space a) (trim_space b) = gem_cmp a b.
Proof. unfold gem_cmp. rewrite !gem_canonical_trim. reflexivity. Qed.

Lemma gem_valid_pad p s q :
  forallb is_space p = true -> forallb is_space q = true ->
  gem_valid (p ++ s ++ q) = gem_valid s.
Proof. intros Hp Hq. unfold gem_valid. rewrite trim_space_pad by assumption. reflexivity. Qed.

Lemma gem_canonical_pad p s q :
  forallb is_space p = true -> forallb is_space q = true ->
  gem_canonical (p ++ s ++ q) = gem_canonical s.
Proof.
  intros Hp Hq. unfold gem_canonical, gem_segments.
  rewrite trim_space_pad by assumption. reflexivity.
Qed.

(* the empty string is outside the specification's domain *)
Lemma gem_valid_blank s : forallb is_space s = true -> gem_valid s = false.
Proof.
  intros H. unfold gem_valid, trim_space, trim_left.
  apply drop_while_nil_iff in H. rewrite H. reflexivity.
Qed.

(* ---------- the scanner's fuel suffices ---------- *)

Lemma drop_while_length p (s : bytes) : (length (drop_while p s) <= length s)%nat.
Proof.
  induction s as [|c s IH]; cbn; [lia|]. destruct (p c); cbn; lia.
Qed.

Lemma gem_scan_fuel_enough f1 : forall f2 s,
  (length s < f1)%nat -> (length s < f2)%nat -> gem_scan_fuel f1 s = gem_scan_fuel f2 s.
Proof.
  induction f1 as [|f1 IH]; intros f2 s H1 H2; [lia|].
  destruct f2 as [|f2]; [lia|].
  destruct s as [|c s]; [reflexivity|].
  cbn [gem_scan_fuel]. cbn [length] in H1, H2.
  destruct (is_digit c) eqn:Ed.
  - f_equal. apply IH.
    + cbn [drop_while]. rewrite Ed. pose proof (drop_while_length is_digit s). lia.
    + cbn [drop_while]. rewrite Ed. pose proof (drop_while_length is_digit s). lia.
  - destruct (is_letter c) eqn:El.
    + f_equal. apply IH.
      * cbn [drop_while]. rewrite El. pose proof (drop_while_length is_letter s). lia.
      * cbn [drop_while]. rewrite El. pose proof (drop_while_length is_letter s). lia.
    + apply IH; lia.
Qed.

Lemma gem_scan_fuel_suffices k s :
  gem_scan_fuel (S (length s) + k) s = gem_scan s.
Proof. unfold gem_scan. apply gem_scan_fuel_enough; lia. Qed.

(* unfolding equations of the scanner, free of fuel *)
Lemma gem_scan_nil : gem_scan [] = [].
Proof. reflexivity. Qed.

Lemma gem_scan_fuel_S k c s :
  gem_scan_fuel (S k) (c :: s) =
    if is_digit c then
      SInt (digits_val (take_while is_digit (c :: s))) :: gem_scan_fuel k (drop_while is_digit (c :: s))
    else if is_letter c then
      SStr (take_while is_letter (c :: s)) :: gem_scan_fuel k (drop_while is_letter (c :: s))
    else gem_scan_fuel k s.
Proof. reflexivity. Qed.

Lemma gem_scan_cons c s :
  gem_scan (c :: s) =
    if is_digit c then
      SInt (digits_val (take_while is_digit (c :: s))) :: gem_scan (drop_while is_digit (c :: s))
    else if is_letter c then
      SStr (take_while is_letter (c :: s)) :: gem_scan (drop_while is_letter (c :: s))
    else gem_scan s.
Proof.
  unfold gem_scan at 1. cbn [length]. rewrite gem_scan_fuel_S.
  destruct (is_digit c) eqn:Ed; [|destruct (is_letter c) eqn:El].
  - f_equal. unfold gem_scan. apply gem_scan_fuel_enough.
    + cbn [drop_while]. rewrite Ed. pose proof (drop_while_length is_digit s). lia.
    + lia.
  - f_equal. unfold gem_scan. apply gem_scan_fuel_enough.
    + cbn [drop_while]. rewrite El. pose proof (drop_while_length is_letter s). lia.
    + lia.
  - reflexivity.
Qed.

(* ---------- the assertions of notes/spec-refs/gem_ref.py, by computation ---------- *)

Definition gem_ref_assertions : list (bytes * bytes * comparison) :=
  [ ($"1.0", $"1.0.0", Eq); ($"1.0", $"1.0.a", Gt); ($"1.8.2", $"0.0.0", Gt);
    ($"1.8.2", $"1.8.2.a", Gt); ($"1.8.2.b", $"1.8.2.a", Gt); ($"1.8.2.a", $"1.8.2", Lt);
    ($"1.8.2.a10", $"1.8.2.a9", Gt); ($"0.beta.1", $"0.0.beta.1", Eq);
    ($"0.0.beta", $"0.0.beta.1", Lt); ($"0.0.beta", $"0.beta.1", Lt);
    ($"5.a", $"5.0.0.rc2", Lt); ($"5.x", $"5.0.0.rc2", Gt);
    ($"2.0.0.rc1", $"2.0.0", Lt); ($"1.0.0-beta.2", $"1.0.0-beta.10", Lt);
    ($"1.0.0-1", $"1.0.0", Lt); ($"1.2.b1", $"1.2.b.1", Eq); ($"1.0.0.pre", $"1.0.0", Lt);
    ($"1.9.3", $"1.9.2.99", Gt) ].

Definition comparison_eqb (x y : comparison) : bool :=
  match x, y with Eq, Eq | Lt, Lt | Gt, Gt => true | _, _ => false end.

Lemma gem_ref_assertions_hold :
  forallb (fun t => match spec_cmp (fst (fst t)) (snd (fst t)) with
                    | Some c => comparison_eqb c (snd t)
                    | None => false
                    end) gem_ref_assertions = true.
Proof. vm_compute. reflexivity. Qed.

(* the 19th row of gem_ref.py, ("", "0", 0): the blank side is outside [spec_valid];
   the comparison itself agrees with RubyGems (blank reads as "0") *)
Lemma gem_ref_assertion_blank : spec_cmp [] $"0" = None /\ gem_cmp [] $"0" = Eq.
Proof. vm_compute. auto. Qed.

(* "-" is read as ".pre." *)
Lemma gem_dash_is_dot_pre : gem_cmp $"1-rc1" $"1.pre.rc1" = Eq /\ gem_cmp $"1-rc1" $"1.rc1" = Lt.
Proof. vm_compute. auto. Qed.

(* integers of any size: no 64-bit wrap *)
Lemma gem_big_numbers :
  gem_cmp $"1.18446744073709551616" $"1.0" = Gt /\
  gem_cmp $"1.18446744073709551617" $"1.18446744073709551616" = Gt.
Proof. vm_compute. auto. Qed.
