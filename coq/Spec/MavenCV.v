(* Spec/MavenCV.v — reference order: org.apache.maven.artifact.versioning.ComparableVersion
   as shipped with Maven 3.8 (maven-artifact 3.8.7), transcribed from the class itself:
   parseVersion, parseItem, StringItem (qualifier table, aliases, comparableQualifier),
   ListItem.normalize and the compareTo methods of IntItem / StringItem / ListItem.
   Definitions only; everything computes.  Domain: ASCII strings (Java's toLowerCase and
   Character.isDigit agree with to_lower / is_digit there).

   The three Java number classes IntItem / LongItem / BigIntegerItem are one constructor
   [IInt] carrying an [N]: parseItem strips leading zeros and picks the class by the number
   of digits, and a narrower class always compares below a wider one, so together they
   order numbers by value. *)
From Verif.Base Require Import Bytes GoNum Ord.
Local Open Scope N_scope.

(* ---------- items ---------- *)

Inductive item :=
  | IInt (n : N)
  | IStr (s : bytes)           (* value after alias resolution; [] is the release qualifier "" *)
  | IList (l : list item).

(* ---------- StringItem ---------- *)

(* StringItem.QUALIFIERS, in rank order *)
Definition QUALIFIERS : list bytes :=
  [ $"alpha"; $"beta"; $"milestone"; $"rc"; $"snapshot"; $""; $"sp" ].

(* StringItem.ALIASES *)
Definition ALIASES : list (bytes * bytes) :=
  [ ($"ga", $""); ($"final", $""); ($"release", $""); ($"cr", $"rc") ].

(* the switch in the StringItem constructor, used only when a digit follows directly *)
Definition SHORT_ALIASES : list (bytes * bytes) :=
  [ ($"a", $"alpha"); ($"b", $"beta"); ($"m", $"milestone") ].

Fixpoint index_of (q : bytes) (l : list bytes) (i : N) : option N :=
  match l with
  | [] => None
  | x :: l' => if beq q x then Some i else index_of q l' (i + 1)
  end.

(* StringItem.comparableQualifier: "0".."6" for the known ones, "7-<q>" otherwise *)
Definition comparable_qualifier (q : bytes) : bytes :=
  match index_of q QUALIFIERS 0 with
  | Some i => dec i
  | None => dec (N.of_nat (length QUALIFIERS)) ++ $"-" ++ q
  end.

Definition RELEASE_VERSION_INDEX : bytes := comparable_qualifier $"".

(* String.compareTo on the comparable forms (sign only) *)
Definition qual_cmp (a b : bytes) : comparison :=
  bytes_cmp (comparable_qualifier a) (comparable_qualifier b).

(* new StringItem(value, followedByDigit) *)
Definition str_item (v : bytes) (followed_by_digit : bool) : item :=
  let v1 := if followed_by_digit
            then match lookup v SHORT_ALIASES with Some x => x | None => v end
            else v in
  IStr (match lookup v1 ALIASES with Some x => x | None => v1 end).

(* parseItem(isDigit, buf) *)
Definition parse_item (is_dig : bool) (buf : bytes) : item :=
  if is_dig then IInt (digits_val buf) else str_item buf false.

(* ---------- isNull / ListItem.normalize ---------- *)

Definition is_null (x : item) : bool :=
  match x with
  | IInt n => n =? 0
  | IStr s => match bytes_cmp (comparable_qualifier s) RELEASE_VERSION_INDEX with
              | Eq => true | _ => false end
  | IList l => match l with [] => true | _ => false end
  end.

Definition is_list (x : item) : bool :=
  match x with IList _ => true | _ => false end.

(* normalize, on the REVERSED item list (last item first): walking from the end, null items
   are removed, non-null sub-lists are stepped over, the first other item stops the walk *)
Fixpoint norm_rev (l : list item) : list item :=
  match l with
  | [] => []
  | x :: r =>
      if is_null x then norm_rev r
      else if is_list x then x :: norm_rev r
      else l
  end.

Definition normalize (l : list item) : list item := rev (norm_rev (rev l)).

(* ---------- parseVersion ---------- *)

(* Every ListItem the parser creates is appended to the current list and becomes the current
   list at once, so the lists under construction form a chain root > ... > current, each the
   last element of its parent.  [p_stack] holds the items of the ancestors (innermost first),
   [p_cur] those of the current list, all in reverse order.  [p_buf] is the reversed text
   between startIndex and i. *)
Record pstate := {
  p_stack : list (list item);
  p_cur : list item;
  p_buf : bytes;
  p_isdig : bool
}.

Definition p_init : pstate :=
  {| p_stack := []; p_cur := []; p_buf := []; p_isdig := false |}.

(* list.add( list = new ListItem() ); stack.push( list ) *)
Definition open_list (stack : list (list item)) (cur : list item)
  : list (list item) * list item := (cur :: stack, []).

Definition is_nil {A} (l : list A) : bool := match l with [] => true | _ => false end.

Definition p_step (st : pstate) (c : ascii) : pstate :=
  let stack := p_stack st in
  let cur := p_cur st in
  let buf := p_buf st in
  let isdig := p_isdig st in
  if ceqb c "."%char then
    let it := if is_nil buf then IInt 0 else parse_item isdig (rev buf) in
    {| p_stack := stack; p_cur := it :: cur; p_buf := []; p_isdig := isdig |}
  else if ceqb c "-"%char then
    let it := if is_nil buf then IInt 0 else parse_item isdig (rev buf) in
    let '(stack1, cur1) := open_list stack (it :: cur) in
    {| p_stack := stack1; p_cur := cur1; p_buf := []; p_isdig := isdig |}
  else if is_digit c then
    if negb isdig && negb (is_nil buf) then
      (* letters followed by a digit: ".X" is treated as "-X", then the number nests *)
      let '(stack1, cur1) := if is_nil cur then (stack, cur) else open_list stack cur in
      let '(stack2, cur2) := open_list stack1 (str_item (rev buf) true :: cur1) in
      {| p_stack := stack2; p_cur := cur2; p_buf := [c]; p_isdig := true |}
    else
      {| p_stack := stack; p_cur := cur; p_buf := c :: buf; p_isdig := true |}
  else
    if isdig && negb (is_nil buf) then
      (* digits followed by a letter *)
      let '(stack1, cur1) := open_list stack (parse_item true (rev buf) :: cur) in
      {| p_stack := stack1; p_cur := cur1; p_buf := [c]; p_isdig := false |}
    else
      {| p_stack := stack; p_cur := cur; p_buf := c :: buf; p_isdig := false |}.

(* the code after the loop: the pending token *)
Definition p_flush (st : pstate) : list (list item) * list item :=
  if is_nil (p_buf st) then (p_stack st, p_cur st)
  else
    let '(stack1, cur1) :=
      if negb (p_isdig st) && negb (is_nil (p_cur st))
      then open_list (p_stack st) (p_cur st)
      else (p_stack st, p_cur st) in
    (stack1, parse_item (p_isdig st) (rev (p_buf st)) :: cur1).

(* while ( !stack.isEmpty() ) stack.pop().normalize(): innermost list first; a closed list is
   the last element of its parent *)
Fixpoint p_close (cur : list item) (stack : list (list item)) : item :=
  let l := IList (rev (norm_rev cur)) in
  match stack with
  | [] => l
  | parent :: stack' => p_close (l :: parent) stack'
  end.

Definition parse_cv (s : bytes) : item :=
  let st := fold_left p_step (to_lower s) p_init in
  let '(stack, cur) := p_flush st in
  p_close cur stack.

(* ---------- compareTo ---------- *)

(* x.compareTo(null) *)
Fixpoint cmp_null (a : item) : comparison :=
  match a with
  | IInt n => if n =? 0 then Eq else Gt
  | IStr s => bytes_cmp (comparable_qualifier s) RELEASE_VERSION_INDEX
  | IList l =>
      (* every item against null, first difference wins (MNG-6964) *)
      (fix go (l : list item) : comparison :=
         match l with
         | [] => Eq
         | x :: l' => thenc (cmp_null x) (go l')
         end) l
  end.

Fixpoint cmp_null_list (l : list item) : comparison :=
  match l with
  | [] => Eq
  | x :: l' => thenc (cmp_null x) (cmp_null_list l')
  end.

(* a.compareTo(b), b not null *)
Fixpoint cv_cmp (a b : item) {struct a} : comparison :=
  match a with
  | IInt x =>
      match b with
      | IInt y => x ?= y
      | IStr _ => Gt                       (* 1.1 > 1-sp *)
      | IList _ => Gt                      (* 1.1 > 1-1 *)
      end
  | IStr s =>
      match b with
      | IInt _ => Lt                       (* 1.any < 1.1 *)
      | IStr t => qual_cmp s t
      | IList _ => Lt                      (* 1.any < 1-1 *)
      end
  | IList la =>
      match b with
      | IInt _ => Lt                       (* 1-1 < 1.0.x *)
      | IStr _ => Gt                       (* 1-1 > 1-sp *)
      | IList lb =>
          (fix go (la lb : list item) {struct la} : comparison :=
             match la with
             | [] => CompOpp (cmp_null_list lb)        (* -1 * r.compareTo(null), item by item *)
             | x :: la' =>
                 match lb with
                 | [] => thenc (cmp_null x) (go la' [])
                 | y :: lb' => thenc (cv_cmp x y) (go la' lb')
                 end
             end) la lb
      end
  end.

(* ---------- the order on version strings ---------- *)

Definition mvn_cmp (a b : bytes) : comparison := cv_cmp (parse_cv a) (parse_cv b).

(* ---------- conventional shapes ----------
   N(.N){0,3}, optionally followed by ONE group:
     sep word | sep word N | sep word sep N      (sep is '.' or '-', word is letters)
   or a bare build number  '-' N.
   N is a non-empty run of digits, a word a non-empty run of ASCII letters in any case. *)

Definition is_sep (c : ascii) : bool := ceqb c "."%char || ceqb c "-"%char.

(* after the separator [c0] of the group, the word has been read: "" | N | sep N.
   [strict] refuses the form  '.' word sep N  (see conventional_strict below). *)
Definition conv_after_word (strict : bool) (c0 : ascii) (s : bytes) : bool :=
  match s with
  | [] => true
  | c :: r =>
      if is_sep c
      then nonempty_digits r && negb (strict && ceqb c0 "."%char)
      else nonempty_digits s
  end.

(* the single optional group, [s] starts at its separator *)
Definition conv_group (strict : bool) (s : bytes) : bool :=
  match s with
  | [] => false
  | c :: r =>
      is_sep c &&
      (let w := take_while is_letter r in
       if is_nil w
       then ceqb c "-"%char && nonempty_digits r
       else conv_after_word strict c (drop_while is_letter r))
  end.

(* up to [k] further ".N" components, then nothing or the group *)
Fixpoint conv_tail (strict : bool) (k : nat) (s : bytes) : bool :=
  match s with
  | [] => true
  | c :: r =>
      let d := take_while is_digit r in
      match k with
      | S k' =>
          if ceqb c "."%char && negb (is_nil d)
          then conv_tail strict k' (drop_while is_digit r)
          else conv_group strict s
      | O => conv_group strict s
      end
  end.

Definition conventional_gen (strict : bool) (s : bytes) : bool :=
  negb (is_nil (take_while is_digit s)) && conv_tail strict 3 (drop_while is_digit s).

Definition conventional : bytes -> bool := conventional_gen false.

(* The conventional shapes without  N(.N)* '.' word sep N  ("1.0.rc-1", "1.0.rc.1"): in that one
   form the word does not open a sub-list, and ComparableVersion's order has cycles through it
   (MavenCVFacts.mvn_cmp_cycle_zero / _word).  No violation of the preorder laws is known on
   this sub-class (exhaustive triples over ~1300 strings, notes/spec-validate/maven). *)
Definition conventional_strict : bytes -> bool := conventional_gen true.

Definition spec_valid (s : bytes) : bool := conventional s.

Definition spec_cmp (a b : bytes) : option comparison :=
  if spec_valid a && spec_valid b then Some (mvn_cmp a b) else None.
