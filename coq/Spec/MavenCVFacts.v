(* Spec/MavenCVFacts.v — basic facts about the ComparableVersion reference order:
   reflexivity and antisymmetry of [cv_cmp] on ALL items (hence of [mvn_cmp] on all strings),
   the list comparison as a stand-alone function, and pinned examples.
   Transitivity is not attempted here. *)
From Coq Require Import Lia.
From Verif.Base Require Import Bytes GoNum Ord BytesFacts.
From Verif.Spec Require Import MavenCV.
Local Open Scope N_scope.

(* ---------- induction over the nested item type ---------- *)

Section ItemInd.
  Variable P : item -> Prop.
  Hypothesis HInt : forall n, P (IInt n).
  Hypothesis HStr : forall s, P (IStr s).
  Hypothesis HList : forall l, Forall P l -> P (IList l).

  Fixpoint item_ind_nested (a : item) : P a :=
    match a with
    | IInt n => HInt n
    | IStr s => HStr s
    | IList l =>
        HList l ((fix go (l : list item) : Forall P l :=
                    match l with
                    | [] => Forall_nil P
                    | x :: l' => Forall_cons x (item_ind_nested x) (go l')
                    end) l)
    end.
End ItemInd.

(* ---------- the inner loops as named functions ---------- *)

Fixpoint cv_list (la lb : list item) {struct la} : comparison :=
  match la with
  | [] => CompOpp (cmp_null_list lb)
  | x :: la' =>
      match lb with
      | [] => thenc (cmp_null x) (cv_list la' [])
      | y :: lb' => thenc (cv_cmp x y) (cv_list la' lb')
      end
  end.

Lemma cmp_null_IList l : cmp_null (IList l) = cmp_null_list l.
Proof.
  induction l as [|x l IH]; [reflexivity|].
  cbn [cmp_null_list]. rewrite <- IH. reflexivity.
Qed.

Lemma cv_cmp_IList la lb : cv_cmp (IList la) (IList lb) = cv_list la lb.
Proof.
  revert lb. induction la as [|x la IH]; intros lb; [reflexivity|].
  destruct lb as [|y lb]; cbn [cv_list].
  - rewrite <- (IH []). reflexivity.
  - rewrite <- (IH lb). reflexivity.
Qed.

Lemma cv_list_nil_r la : cv_list la [] = cmp_null_list la.
Proof.
  induction la as [|x la IH]; [reflexivity|].
  cbn [cv_list cmp_null_list]. rewrite IH. reflexivity.
Qed.

Lemma cv_list_nil_l lb : cv_list [] lb = CompOpp (cmp_null_list lb).
Proof. reflexivity. Qed.

Lemma cv_list_cons x la y lb :
  cv_list (x :: la) (y :: lb) = thenc (cv_cmp x y) (cv_list la lb).
Proof. reflexivity. Qed.

(* ---------- qualifiers ---------- *)

Lemma TP_qual_cmp : TotalPreorder qual_cmp.
Proof.
  change qual_cmp with (cmp_on comparable_qualifier bytes_cmp).
  apply TP_on, TP_bytes_cmp.
Qed.

Lemma CompOpp_thenc c1 c2 : CompOpp (thenc c1 c2) = thenc (CompOpp c1) (CompOpp c2).
Proof. destruct c1; reflexivity. Qed.

(* ---------- null items compare equal to a missing item ---------- *)

Lemma is_null_cmp_null a : is_null a = true -> cmp_null a = Eq.
Proof.
  destruct a as [n|s|l]; cbn [is_null cmp_null].
  - intros H. rewrite H. reflexivity.
  - destruct (bytes_cmp (comparable_qualifier s) RELEASE_VERSION_INDEX); congruence.
  - destruct l; [reflexivity|discriminate].
Qed.

(* ---------- reflexivity ---------- *)

Lemma cv_list_refl l : Forall (fun a => cv_cmp a a = Eq) l -> cv_list l l = Eq.
Proof.
  induction 1 as [|x l Hx _ IH]; [reflexivity|].
  rewrite cv_list_cons, Hx. exact IH.
Qed.

Theorem cv_cmp_refl a : cv_cmp a a = Eq.
Proof.
  induction a as [n|s|l IH] using item_ind_nested.
  - apply N.compare_refl.
  - apply (tp_refl TP_qual_cmp).
  - rewrite cv_cmp_IList. apply cv_list_refl. exact IH.
Qed.

(* ---------- antisymmetry ---------- *)

Lemma cv_list_anti la :
  Forall (fun a => forall b, cv_cmp b a = CompOpp (cv_cmp a b)) la ->
  forall lb, cv_list lb la = CompOpp (cv_list la lb).
Proof.
  induction 1 as [|x la Hx _ IH]; intros lb.
  - rewrite cv_list_nil_r, cv_list_nil_l.
    destruct (cmp_null_list lb); reflexivity.
  - destruct lb as [|y lb].
    + rewrite cv_list_nil_r, cv_list_nil_l.
      destruct (cmp_null_list (x :: la)); reflexivity.
    + rewrite !cv_list_cons, CompOpp_thenc, (Hx y), (IH lb). reflexivity.
Qed.

Theorem cv_cmp_anti a b : cv_cmp b a = CompOpp (cv_cmp a b).
Proof.
  revert b. induction a as [n|s|l IH] using item_ind_nested; intros b.
  - destruct b as [m|t|lb]; try reflexivity. apply N.compare_antisym.
  - destruct b as [m|t|lb]; try reflexivity. apply (tp_anti TP_qual_cmp).
  - destruct b as [m|t|lb]; try reflexivity.
    rewrite !cv_cmp_IList. apply cv_list_anti. exact IH.
Qed.

Corollary cv_cmp_gt_lt a b : cv_cmp a b = Gt <-> cv_cmp b a = Lt.
Proof. rewrite (cv_cmp_anti a b). destruct (cv_cmp a b); cbn; split; congruence. Qed.

Corollary cv_cmp_eq_sym a b : cv_cmp a b = Eq -> cv_cmp b a = Eq.
Proof. intros H. rewrite (cv_cmp_anti a b), H. reflexivity. Qed.

(* ---------- on strings ---------- *)

Theorem mvn_cmp_refl s : mvn_cmp s s = Eq.
Proof. apply cv_cmp_refl. Qed.

Theorem mvn_cmp_anti a b : mvn_cmp b a = CompOpp (mvn_cmp a b).
Proof. apply cv_cmp_anti. Qed.

Theorem spec_cmp_refl s : spec_valid s = true -> spec_cmp s s = Some Eq.
Proof. intros H. unfold spec_cmp. rewrite H, mvn_cmp_refl. reflexivity. Qed.

Theorem spec_cmp_anti a b c : spec_cmp a b = Some c -> spec_cmp b a = Some (CompOpp c).
Proof.
  unfold spec_cmp. rewrite (andb_comm (spec_valid b)).
  destruct (spec_valid a && spec_valid b); [|discriminate].
  intros H. injection H as <-. rewrite (mvn_cmp_anti a b). reflexivity.
Qed.

Theorem spec_cmp_some_iff a b :
  (exists c, spec_cmp a b = Some c) <-> spec_valid a = true /\ spec_valid b = true.
Proof.
  unfold spec_cmp. destruct (spec_valid a), (spec_valid b); cbn; split;
    try (intros [c H]; discriminate); try (intros [H1 H2]; discriminate); eauto.
Qed.

(* case does not matter *)
Lemma to_lower_c_idem c : to_lower_c (to_lower_c c) = to_lower_c c.
Proof.
  unfold to_lower_c. destruct (is_upper c) eqn:E; [|rewrite E; reflexivity].
  unfold is_upper, in_range in *.
  apply andb_true_iff in E. destruct E as [E1 E2].
  apply N.leb_le in E1, E2.
  assert (Hc : code (chr (code c + 32)) = code c + 32).
  { unfold code, chr in *. apply N_ascii_embedding. lia. }
  rewrite Hc.
  destruct (65 <=? code c + 32) eqn:F1; cbn [andb]; [|reflexivity].
  destruct (code c + 32 <=? 90) eqn:F2; [|reflexivity].
  apply N.leb_le in F2. lia.
Qed.

Lemma to_lower_idem s : to_lower (to_lower s) = to_lower s.
Proof.
  unfold to_lower. rewrite map_map. apply map_ext. apply to_lower_c_idem.
Qed.

Theorem parse_cv_to_lower s : parse_cv (to_lower s) = parse_cv s.
Proof. unfold parse_cv. rewrite to_lower_idem. reflexivity. Qed.

Theorem mvn_cmp_case a b : mvn_cmp (to_lower a) (to_lower b) = mvn_cmp a b.
Proof. unfold mvn_cmp. rewrite !parse_cv_to_lower. reflexivity. Qed.

(* ---------- pinned examples (each checked against maven-artifact 3.8.7) ---------- *)

Example ex_parse_1 : parse_cv $"1.0-rc1" = IList [IInt 1; IList [IStr $"rc"; IList [IInt 1]]].
Proof. vm_compute. reflexivity. Qed.
Example ex_parse_2 : parse_cv $"1.0.RC-2" = IList [IInt 1; IInt 0; IStr $"rc"; IList [IInt 2]].
Proof. vm_compute. reflexivity. Qed.
Example ex_parse_3 : parse_cv $"1.0.Final" = IList [IInt 1].
Proof. vm_compute. reflexivity. Qed.
(* ".X is -X" *)
Example ex_parse_4 : parse_cv $"0.x" = IList [IList [IStr $"x"]].
Proof. vm_compute. reflexivity. Qed.
(* alias only when a digit follows directly *)
Example ex_parse_5 : parse_cv $"1-a1" = IList [IInt 1; IList [IStr $"alpha"; IList [IInt 1]]].
Proof. vm_compute. reflexivity. Qed.
Example ex_parse_6 : parse_cv $"1-a-1" = IList [IInt 1; IList [IStr $"a"; IList [IInt 1]]].
Proof. vm_compute. reflexivity. Qed.

Example ex_qualifier_chain :
  map (fun p => mvn_cmp (fst p) (snd p))
    [ ($"1-alpha", $"1-beta"); ($"1-beta", $"1-milestone"); ($"1-milestone", $"1-rc");
      ($"1-rc", $"1-snapshot"); ($"1-snapshot", $"1"); ($"1", $"1-sp"); ($"1-sp", $"1-foo");
      ($"1-foo", $"1-1"); ($"1-1", $"1.1") ]
  = [Lt; Lt; Lt; Lt; Lt; Lt; Lt; Lt; Lt].
Proof. vm_compute. reflexivity. Qed.

Example ex_equalities :
  map (fun p => mvn_cmp (fst p) (snd p))
    [ ($"1", $"1.0.0"); ($"1", $"1-ga"); ($"1.0-FINAL", $"1.release"); ($"1-cr2", $"1.0.RC2");
      ($"1.sp", $"1-sp"); ($"1-a1", $"1.0.0-alpha-1"); ($"1-0", $"1"); ($"1.0-rc-0", $"1-rc") ]
  = [Eq; Eq; Eq; Eq; Eq; Eq; Eq; Eq].
Proof. vm_compute. reflexivity. Qed.

(* MNG-6964: a list against a missing item is compared item by item *)
Example ex_mng6964 : mvn_cmp $"1-0.alpha" $"1" = Lt /\ mvn_cmp $"1-0.beta" $"1-0.alpha" = Gt.
Proof. vm_compute. split; reflexivity. Qed.

(* ---------- ComparableVersion is NOT transitive, even on conventional shapes ----------
   Found by exhaustive triple search with the extracted model and confirmed with the 3.8.7 jar.
   Both cycles need a qualifier joined by '.' and followed by a separator and a number
   ("N.word-N", "N.word.N"): only there does the word stay in the enclosing list instead of
   opening a sub-list, so that (1) zeros before it are not trimmed and meet a sub-list as
   "list < int", (2) the word itself meets a sub-list as "list > string". *)

Theorem mvn_cmp_cycle_zero :
  mvn_cmp $"1" $"1-1" = Lt /\ mvn_cmp $"1-1" $"1.0.alpha-0" = Lt /\ mvn_cmp $"1.0.alpha-0" $"1" = Lt.
Proof. vm_compute. repeat split. Qed.

Theorem mvn_cmp_cycle_word :
  mvn_cmp $"1.foo-2" $"1" = Gt /\ mvn_cmp $"1" $"1-a0" = Gt /\ mvn_cmp $"1-a0" $"1.foo-2" = Gt.
Proof. vm_compute. repeat split. Qed.

Theorem spec_cmp_not_transitive :
  exists a b c, spec_cmp a b = Some Lt /\ spec_cmp b c = Some Lt /\ spec_cmp a c = Some Gt.
Proof.
  exists $"1", $"1-1", $"1.0.alpha-0". vm_compute. repeat split.
Qed.
