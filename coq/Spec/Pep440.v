(* Spec/Pep440.v — reference order: PEP 440 version comparison as implemented by the
   Python [packaging] library (packaging.version.Version, sort key [_cmpkey]).

   Scope (this is exactly [spec_valid]): the lower-case grammar

     [N!] N(.N)* [ [.]{a|b|rc|alpha|beta|c}N ] [ [.]{post|rev|r}N ] [ [.]devN ] [+local]

   with  local = [a-zA-Z0-9]+([-_.][a-zA-Z0-9]+)*  and N a non-empty run of ASCII digits of
   any length.  (packaging itself accepts a good deal more: upper case, a leading "v",
   "-"/"_" separators, markers without number, the implicit post release "1.0-1", surrounding
   white space, ...  None of that is in scope.)

   Definitions only; the order laws are in Pep440Facts.v. *)
From Verif.Base Require Import Bytes GoNum Ord.
Local Open Scope N_scope.

(* ------------------------------------------------------------------ *)
(* AST                                                                *)
(* ------------------------------------------------------------------ *)

(* pre-release kind after normalisation: alpha = a, beta = b, c = rc *)
Inductive kind : Type := Ka | Kb | Krc.

(* a local-label segment: all digits -> number, otherwise lower-cased text *)
Definition lseg : Type := (N + bytes)%type.

Record ast : Type := mk_ast {
  epoch   : N;                    (* 0 when absent *)
  release : list N;               (* at least one component *)
  pre     : option (kind * N);
  post    : option N;
  dev     : option N;
  local   : list lseg             (* [] = no local label; a present label has >= 1 segment *)
}.

(* ------------------------------------------------------------------ *)
(* Scanner                                                            *)
(* ------------------------------------------------------------------ *)

(* [0-9]+ : value and rest *)
Definition scan_num (s : bytes) : option (N * bytes) :=
  match take_while is_digit s with
  | [] => None
  | d => Some (digits_val d, drop_while is_digit s)
  end.

(* N(.N)* — a "." continues the release only when a digit follows it (otherwise it is the
   optional separator in front of a marker, or an error detected later).
   fuel = length s + 1 (every round consumes at least one byte). *)
Fixpoint scan_release (fuel : nat) (s : bytes) : option (list N * bytes) :=
  match fuel with
  | O => None
  | S k =>
      match scan_num s with
      | None => None
      | Some (n, r) =>
          match r with
          | dot :: c :: r' =>
              if ceqb dot "."%char && is_digit c then
                match scan_release k (c :: r') with
                | Some (l, r'') => Some (n :: l, r'')
                | None => None
                end
              else Some ([n], r)
          | _ => Some ([n], r)
          end
      end
  end.

(* [.]<lower-case word><N> : word, number, rest.  As the number is mandatory and directly
   follows the marker, the marker is the maximal run of letters. *)
Definition skip_dot (s : bytes) : bytes :=
  match s with
  | c :: r => if ceqb c "."%char then r else s
  | [] => s
  end.

Definition scan_marker (s : bytes) : option (bytes * N * bytes) :=
  let s1 := skip_dot s in
  match take_while is_lower s1 with
  | [] => None
  | w => match scan_num (drop_while is_lower s1) with
         | Some (n, r) => Some (w, n, r)
         | None => None
         end
  end.

Definition pre_names : list (bytes * kind) :=
  [ ($"a", Ka); ($"alpha", Ka); ($"b", Kb); ($"beta", Kb); ($"rc", Krc); ($"c", Krc) ].
Definition post_names : list (bytes * unit) :=
  [ ($"post", tt); ($"rev", tt); ($"r", tt) ].
Definition dev_names : list (bytes * unit) :=
  [ ($"dev", tt) ].

(* an optional marker segment whose word is in [tbl]; consumes nothing when absent *)
Definition opt_marker {A} (tbl : list (bytes * A)) (s : bytes) : option (A * N) * bytes :=
  match scan_marker s with
  | Some (w, n, r) =>
      match lookup w tbl with
      | Some a => (Some (a, n), r)
      | None => (None, s)
      end
  | None => (None, s)
  end.

(* local label: split at "-", "_", "."; every segment non-empty alphanumeric *)
Definition local_segments (l : bytes) : list bytes :=
  split_c "."%char (replace_c "-"%char "."%char (replace_c "_"%char "."%char l)).

Definition seg_ok (p : bytes) : bool :=
  match p with [] => false | _ => forallb is_alnum p end.

Definition mk_seg (p : bytes) : lseg :=
  if all_digits p then inl (digits_val p) else inr (to_lower p).

Definition parse_local (l : bytes) : option (list lseg) :=
  let ps := local_segments l in
  if forallb seg_ok ps then Some (map mk_seg ps) else None.

Definition parse (s : bytes) : option ast :=
  match scan_num s with
  | None => None
  | Some (n0, r0) =>
      (* a leading number followed by "!" is the epoch; otherwise rescan it as release *)
      let '(ep, s1) :=
        match r0 with
        | c :: r => if ceqb c "!"%char then (n0, r) else (0, s)
        | [] => (0, s)
        end in
      match scan_release (S (length s1)) s1 with
      | None => None
      | Some (rel, r1) =>
          let '(pr, r2) := opt_marker pre_names r1 in
          let '(po, r3) := opt_marker post_names r2 in
          let '(dv, r4) := opt_marker dev_names r3 in
          let po' := option_map snd po in
          let dv' := option_map snd dv in
          match r4 with
          | [] => Some (mk_ast ep rel pr po' dv' [])
          | c :: l =>
              if ceqb c "+"%char then
                match parse_local l with
                | Some segs => Some (mk_ast ep rel pr po' dv' segs)
                | None => None
                end
              else None
          end
      end
  end.

Definition spec_valid (s : bytes) : bool :=
  match parse s with Some _ => true | None => false end.

(* ------------------------------------------------------------------ *)
(* Sort key and comparison                                            *)
(* ------------------------------------------------------------------ *)

Definition kind_rank (k : kind) : N :=
  match k with Ka => 0 | Kb => 1 | Krc => 2 end.

(* pre key.  Outer [None] = -infinity (a dev release of the bare release: no pre, no post,
   but dev);  [Some None] = +infinity (no pre-release segment otherwise);
   [Some (Some (rank, n))] = an a/b/rc pre-release. *)
Definition pre_key (v : ast) : option (option (N * N)) :=
  match pre v, post v, dev v with
  | None, None, Some _ => None
  | None, _, _ => Some None
  | Some (k, n), _, _ => Some (Some (kind_rank k, n))
  end.
Definition pre_key_cmp : option (option (N * N)) -> option (option (N * N)) -> comparison :=
  opt_first (opt_last (lex2 N.compare N.compare)).

(* local segment key, as packaging builds it: number n -> (n, ""), text t -> (-infinity, t) *)
Definition lseg_key (x : lseg) : option N * bytes :=
  match x with
  | inl n => (Some n, [])
  | inr t => (None, t)
  end.
Definition lseg_cmp : lseg -> lseg -> comparison :=
  cmp_on lseg_key (lex2 (opt_first N.compare) bytes_cmp).

Definition pep440_cmp : ast -> ast -> comparison :=
  lexc (cmp_on epoch N.compare)
 (lexc (cmp_on release (lex_pad 0 N.compare))        (* trailing zeros insignificant *)
 (lexc (cmp_on pre_key pre_key_cmp)
 (lexc (cmp_on post (opt_first N.compare))           (* no post = -infinity *)
 (lexc (cmp_on dev (opt_last N.compare))             (* no dev  = +infinity *)
       (cmp_on local (lex_short lseg_cmp)))))).      (* no local < any local; prefix first *)

(* the same release key in packaging's own formulation: strip trailing zeros, then compare
   as tuples (proved equal to the padded comparison in Pep440Facts.v) *)
Fixpoint strip_trailing_zeros (l : list N) : list N :=
  match l with
  | [] => []
  | x :: l' =>
      match strip_trailing_zeros l' with
      | [] => if x =? 0 then [] else [x]
      | t => x :: t
      end
  end.
Definition release_cmp_stripped (a b : list N) : comparison :=
  lex_short N.compare (strip_trailing_zeros a) (strip_trailing_zeros b).

(* ------------------------------------------------------------------ *)
(* The specification                                                  *)
(* ------------------------------------------------------------------ *)

Definition spec_cmp (a b : bytes) : option comparison :=
  match parse a, parse b with
  | Some x, Some y => Some (pep440_cmp x y)
  | _, _ => None
  end.
