(* Spec/Pep440Facts.v — order laws of the PEP 440 reference comparison (Spec/Pep440.v). *)
From Coq Require Import Lia.
From Verif.Base Require Import Bytes GoNum Ord BytesFacts.
From Verif.Spec Require Import Pep440.
Local Open Scope N_scope.

(* ------------------------------------------------------------------ *)
(* pep440_cmp is a total preorder on ASTs                             *)
(* ------------------------------------------------------------------ *)

Lemma TP_pre_key_cmp : TotalPreorder pre_key_cmp.
Proof.
  unfold pre_key_cmp. apply TP_opt_first, TP_opt_last, TP_lex2; apply TP_N.
Qed.

Lemma TP_lseg_cmp : TotalPreorder lseg_cmp.
Proof.
  unfold lseg_cmp. apply TP_on, TP_lex2.
  - apply TP_opt_first, TP_N.
  - apply TP_bytes_cmp.
Qed.

Theorem pep440_cmp_tp : TotalPreorder pep440_cmp.
Proof.
  unfold pep440_cmp.
  apply TP_lexc; [apply TP_on, TP_N|].
  apply TP_lexc; [apply TP_on, TP_lex_pad, TP_N|].
  apply TP_lexc; [apply TP_on, TP_pre_key_cmp|].
  apply TP_lexc; [apply TP_on, TP_opt_first, TP_N|].
  apply TP_lexc; [apply TP_on, TP_opt_last, TP_N|].
  apply TP_on, TP_lex_short, TP_lseg_cmp.
Qed.

Corollary pep440_cmp_laws a b c : preorder_laws pep440_cmp a b c.
Proof. apply TP_laws, pep440_cmp_tp. Qed.

(* ------------------------------------------------------------------ *)
(* the comparison of local segments, spelled out                      *)
(* ------------------------------------------------------------------ *)

Lemma lseg_cmp_num n m : lseg_cmp (inl n) (inl m) = (n ?= m).
Proof.
  unfold lseg_cmp, cmp_on, lex2, thenc. cbn. destruct (n ?= m); reflexivity.
Qed.
Lemma lseg_cmp_txt s t : lseg_cmp (inr s) (inr t) = bytes_cmp s t.
Proof. reflexivity. Qed.
Lemma lseg_cmp_num_txt n t : lseg_cmp (inl n) (inr t) = Gt.
Proof. reflexivity. Qed.
Lemma lseg_cmp_txt_num t n : lseg_cmp (inr t) (inl n) = Lt.
Proof. reflexivity. Qed.

(* ------------------------------------------------------------------ *)
(* release: zero-padded comparison = compare after stripping trailing zeros *)
(* ------------------------------------------------------------------ *)

Lemma lex_pad_l_stripped b :
  lex_pad_l 0 N.compare b = lex_short N.compare [] (strip_trailing_zeros b).
Proof.
  induction b as [|y b IH]; [reflexivity|].
  cbn [lex_pad_l strip_trailing_zeros]. rewrite IH.
  destruct (strip_trailing_zeros b) as [|u t] eqn:E.
  - destruct y; reflexivity.
  - destruct y; reflexivity.
Qed.

Lemma lex_pad_nil_r_stripped a :
  lex_pad 0 N.compare a [] = lex_short N.compare (strip_trailing_zeros a) [].
Proof.
  induction a as [|x a IH]; [reflexivity|].
  cbn [lex_pad strip_trailing_zeros]. rewrite IH.
  destruct (strip_trailing_zeros a) as [|u t] eqn:E.
  - destruct x; reflexivity.
  - destruct x; reflexivity.
Qed.

Lemma release_cmp_stripped_eq a b :
  lex_pad 0 N.compare a b = release_cmp_stripped a b.
Proof.
  unfold release_cmp_stripped. revert b.
  induction a as [|x a IH]; intros b.
  - apply lex_pad_l_stripped.
  - destruct b as [|y b].
    + apply lex_pad_nil_r_stripped.
    + cbn [lex_pad strip_trailing_zeros]. rewrite IH.
      destruct (strip_trailing_zeros a) as [|u t] eqn:Ea;
      destruct (strip_trailing_zeros b) as [|w r] eqn:Eb.
      * destruct (N.eqb_spec x 0) as [->|Hx]; destruct (N.eqb_spec y 0) as [->|Hy]; cbn.
        -- reflexivity.
        -- destruct y; [congruence|reflexivity].
        -- destruct x; [congruence|reflexivity].
        -- destruct (x ?= y); reflexivity.
      * destruct (N.eqb_spec x 0) as [->|Hx]; cbn.
        -- destruct y; reflexivity.
        -- reflexivity.
      * destruct (N.eqb_spec y 0) as [->|Hy]; cbn.
        -- destruct x; reflexivity.
        -- reflexivity.
      * reflexivity.
Qed.

(* ------------------------------------------------------------------ *)
(* when two versions compare equal                                    *)
(* ------------------------------------------------------------------ *)

Lemma thenc_eq c1 c2 : thenc c1 c2 = Eq <-> c1 = Eq /\ c2 = Eq.
Proof.
  destruct c1; cbn; split; intros H.
  - auto.
  - destruct H; assumption.
  - discriminate.
  - destruct H; assumption.
  - discriminate.
  - destruct H; assumption.
Qed.

Lemma opt_first_eq {A} (cmp : A -> A -> comparison) :
  (forall x y, cmp x y = Eq <-> x = y) ->
  forall x y, opt_first cmp x y = Eq <-> x = y.
Proof.
  intros H [x|] [y|]; cbn; split; try congruence; try discriminate.
  - intros E. apply H in E. congruence.
  - intros E. apply H. congruence.
Qed.

Lemma opt_last_eq {A} (cmp : A -> A -> comparison) :
  (forall x y, cmp x y = Eq <-> x = y) ->
  forall x y, opt_last cmp x y = Eq <-> x = y.
Proof.
  intros H [x|] [y|]; cbn; split; try congruence; try discriminate.
  - intros E. apply H in E. congruence.
  - intros E. apply H. congruence.
Qed.

Lemma lex2_eq {A B} (ca : A -> A -> comparison) (cb : B -> B -> comparison) :
  (forall x y, ca x y = Eq <-> x = y) ->
  (forall x y, cb x y = Eq <-> x = y) ->
  forall p q, lex2 ca cb p q = Eq <-> p = q.
Proof.
  intros Ha Hb [a1 b1] [a2 b2]. unfold lex2. cbn [fst snd].
  rewrite thenc_eq, Ha, Hb. split.
  - intros [-> ->]. reflexivity.
  - intros E. injection E as -> ->. auto.
Qed.

Lemma lex_short_eq {A} (cmp : A -> A -> comparison) :
  (forall x y, cmp x y = Eq <-> x = y) ->
  forall l1 l2, lex_short cmp l1 l2 = Eq <-> l1 = l2.
Proof.
  intros H. induction l1 as [|x l1 IH]; intros [|y l2]; cbn; split; try congruence; try discriminate.
  - intros E. apply thenc_eq in E. destruct E as [E1 E2].
    apply H in E1. apply IH in E2. congruence.
  - intros E. injection E as -> ->. apply thenc_eq. split; [apply H | apply IH]; reflexivity.
Qed.

Lemma N_compare_eq_iff' x y : (x ?= y) = Eq <-> x = y.
Proof. apply N.compare_eq_iff. Qed.

Lemma lseg_cmp_eq x y : lseg_cmp x y = Eq <-> x = y.
Proof.
  unfold lseg_cmp, cmp_on.
  rewrite (lex2_eq _ _ (opt_first_eq _ N_compare_eq_iff') bytes_cmp_eq).
  destruct x as [n|s]; destruct y as [m|t]; cbn; split; congruence.
Qed.

Lemma kind_rank_inj k1 k2 : kind_rank k1 = kind_rank k2 -> k1 = k2.
Proof. destruct k1; destruct k2; cbn; congruence. Qed.

Lemma pre_key_cmp_eq x y : pre_key_cmp x y = Eq <-> x = y.
Proof.
  unfold pre_key_cmp.
  apply opt_first_eq, opt_last_eq, lex2_eq; apply N_compare_eq_iff'.
Qed.

(* two versions are equivalent iff they differ at most in trailing zeros of the release
   (spelling variants are already identified by the AST) *)
Theorem pep440_cmp_eq_iff a b :
  pep440_cmp a b = Eq <->
  epoch a = epoch b /\
  strip_trailing_zeros (release a) = strip_trailing_zeros (release b) /\
  pre a = pre b /\ post a = post b /\ dev a = dev b /\ local a = local b.
Proof.
  unfold pep440_cmp, lexc, cmp_on.
  rewrite !thenc_eq.
  rewrite N_compare_eq_iff', release_cmp_stripped_eq.
  unfold release_cmp_stripped.
  rewrite (lex_short_eq _ N_compare_eq_iff').
  rewrite pre_key_cmp_eq.
  rewrite (opt_first_eq _ N_compare_eq_iff'), (opt_last_eq _ N_compare_eq_iff').
  rewrite (lex_short_eq _ lseg_cmp_eq).
  destruct a as [ea ra pa poa da la]; destruct b as [eb rb pb pob db lb].
  cbn [epoch release pre post dev local]. unfold pre_key. cbn [pre post dev].
  split.
  - intros (He & Hr & Hp & Hpo & Hd & Hl). subst pob db.
    repeat split; try assumption.
    destruct pa as [[ka na]|]; destruct pb as [[kb nb]|];
      destruct poa; destruct da; try congruence.
    + injection Hp as Hk Hn. apply kind_rank_inj in Hk. congruence.
    + injection Hp as Hk Hn. apply kind_rank_inj in Hk. congruence.
    + injection Hp as Hk Hn. apply kind_rank_inj in Hk. congruence.
    + injection Hp as Hk Hn. apply kind_rank_inj in Hk. congruence.
  - intros (He & Hr & Hp & Hpo & Hd & Hl). subst. repeat split; assumption.
Qed.

(* ------------------------------------------------------------------ *)
(* the laws on the string level                                       *)
(* ------------------------------------------------------------------ *)

Lemma spec_cmp_defined a b :
  spec_cmp a b <> None <-> spec_valid a = true /\ spec_valid b = true.
Proof.
  unfold spec_cmp, spec_valid.
  destruct (parse a); destruct (parse b); split; try congruence; try tauto;
    intros [? ?]; congruence.
Qed.

Lemma spec_cmp_refl a : spec_valid a = true -> spec_cmp a a = Some Eq.
Proof.
  unfold spec_cmp, spec_valid. destruct (parse a) as [x|]; [|discriminate].
  intros _. rewrite (tp_refl pep440_cmp_tp). reflexivity.
Qed.

Lemma spec_cmp_anti a b : spec_cmp b a = option_map CompOpp (spec_cmp a b).
Proof.
  unfold spec_cmp. destruct (parse a) as [x|]; destruct (parse b) as [y|]; try reflexivity.
  cbn. rewrite (tp_anti pep440_cmp_tp x y). reflexivity.
Qed.

Lemma spec_cmp_trans a b c x :
  spec_cmp a b = Some x -> spec_cmp b c = Some x -> spec_cmp a c = Some x.
Proof.
  unfold spec_cmp.
  destruct (parse a) as [u|]; destruct (parse b) as [v|]; destruct (parse c) as [w|];
    try discriminate.
  intros H1 H2. injection H1 as H1. injection H2 as H2.
  rewrite (tp_trans pep440_cmp_tp u v w H1 H2). reflexivity.
Qed.

Lemma spec_cmp_eq_l a b c : spec_cmp a b = Some Eq -> spec_cmp a c = spec_cmp b c.
Proof.
  unfold spec_cmp.
  destruct (parse a) as [u|]; destruct (parse b) as [v|]; try discriminate.
  intros H. injection H as H. destruct (parse c) as [w|]; [|reflexivity].
  rewrite (tp_eq_l pep440_cmp_tp u v w H). reflexivity.
Qed.

(* ------------------------------------------------------------------ *)
(* examples                                                           *)
(* ------------------------------------------------------------------ *)

(* the ordered example list of PEP 440 ("Summary of permitted suffixes and relative
   ordering"), extended with local labels: every element is Lt its successor *)
Fixpoint chain_lt (l : list bytes) : bool :=
  match l with
  | a :: (b :: _) as l' =>
      match spec_cmp a b with Some Lt => chain_lt l' | _ => false end
  | _ => true
  end.

Example pep440_summary_order :
  chain_lt [ $"1.dev0"; $"1.0.dev456"; $"1.0a1"; $"1.0a2.dev456"; $"1.0a12.dev456"; $"1.0a12";
             $"1.0b1.dev456"; $"1.0b2"; $"1.0b2.post345.dev456"; $"1.0b2.post345";
             $"1.0rc1.dev456"; $"1.0rc1"; $"1.0"; $"1.0+abc.5"; $"1.0+abc.7"; $"1.0+5";
             $"1.0+5.a"; $"1.0+5.0"; $"1.0.post456.dev34"; $"1.0.post456"; $"1.0.15";
             $"1.1.dev1"; $"1!0.5" ] = true.
Proof. vm_compute. reflexivity. Qed.

Example spellings_equal :
  spec_cmp $"1.0.0.alpha01.rev2.dev3+ABC_007" $"0!1a1.post2dev3+abc.7" = Some Eq.
Proof. vm_compute. reflexivity. Qed.

Example invalid_examples :
  map spec_valid [ $""; $"1."; $"1..2"; $"1.a"; $"1.0post"; $"1.0A1"; $"v1.0"; $"1.0-1";
                   $"1.0+"; $"1.0+a..b"; $"1.0dev1post2"; $"1.0 "; $"1.0pre1"; $"1!" ]
  = [false; false; false; false; false; false; false; false;
     false; false; false; false; false; false].
Proof. vm_compute. reflexivity. Qed.

(* a trailing line feed is not part of the grammar (Python's "$" would accept it) *)
Example trailing_newline_invalid : spec_valid ($"1.0" ++ [chr 10]) = false.
Proof. vm_compute. reflexivity. Qed.

(* ------------------------------------------------------------------ *)
(* position of the suffixes relative to the final release             *)
(* ------------------------------------------------------------------ *)

Definition final (e : N) (r : list N) : ast := mk_ast e r None None None [].

Lemma release_cmp_refl r : lex_pad 0 N.compare r r = Eq.
Proof. apply (tp_refl (TP_lex_pad _ _ TP_N 0)). Qed.

(* any pre-release (whatever post/dev/local it carries) precedes the final release *)
Lemma pre_lt_final e r p po d l :
  pep440_cmp (mk_ast e r (Some p) po d l) (final e r) = Lt.
Proof.
  unfold pep440_cmp, final, lexc, cmp_on. cbn [epoch release].
  rewrite N.compare_refl, release_cmp_refl. destruct p as [k n]. reflexivity.
Qed.

(* a dev release of the bare release precedes it, and even every pre-release of it *)
Lemma dev_lt_final e r d l :
  pep440_cmp (mk_ast e r None None (Some d) l) (final e r) = Lt.
Proof.
  unfold pep440_cmp, final, lexc, cmp_on. cbn [epoch release].
  rewrite N.compare_refl, release_cmp_refl. reflexivity.
Qed.

Lemma dev_lt_pre e r d l p po d' l' :
  pep440_cmp (mk_ast e r None None (Some d) l) (mk_ast e r (Some p) po d' l') = Lt.
Proof.
  unfold pep440_cmp, lexc, cmp_on. cbn [epoch release].
  rewrite N.compare_refl, release_cmp_refl. destruct p as [k n]. reflexivity.
Qed.

(* a post release (with or without dev/local) follows the final release *)
Lemma post_gt_final e r n d l :
  pep440_cmp (mk_ast e r None (Some n) d l) (final e r) = Gt.
Proof.
  unfold pep440_cmp, final, lexc, cmp_on. cbn [epoch release].
  rewrite N.compare_refl, release_cmp_refl. destruct d; reflexivity.
Qed.

(* a local label puts a version directly after the same version without one *)
Lemma local_gt_nolocal e r p po d x l :
  pep440_cmp (mk_ast e r p po d (x :: l)) (mk_ast e r p po d []) = Gt.
Proof.
  pose proof (tp_refl pep440_cmp_tp (mk_ast e r p po d [])) as H.
  unfold pep440_cmp, lexc, cmp_on, thenc in *.
  cbn [epoch release post dev local] in *.
  change (pre_key (mk_ast e r p po d (x :: l))) with (pre_key (mk_ast e r p po d [])).
  destruct (e ?= e); try discriminate.
  destruct (lex_pad 0 N.compare r r); try discriminate.
  destruct (pre_key_cmp _ _); try discriminate.
  destruct (opt_first N.compare po po); try discriminate.
  destruct (opt_last N.compare d d); try discriminate.
  reflexivity.
Qed.

(* with nothing but a release, the order is the zero-padded numeric order *)
Lemma final_cmp e r1 r2 :
  pep440_cmp (final e r1) (final e r2) = lex_pad 0 N.compare r1 r2.
Proof.
  unfold pep440_cmp, final, lexc, cmp_on. cbn [epoch release].
  rewrite N.compare_refl. cbn. destruct (lex_pad 0 N.compare r1 r2); reflexivity.
Qed.

(* a larger epoch wins over everything else *)
Lemma epoch_first a b : epoch a < epoch b -> pep440_cmp a b = Lt.
Proof.
  intros H. unfold pep440_cmp, lexc, cmp_on.
  apply N.compare_lt_iff in H. rewrite H. reflexivity.
Qed.
