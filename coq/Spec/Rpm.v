(* Spec/Rpm.v — RPM's version order: [rpmvercmp] (rpm, lib/rpmvercmp.c) and the
   [epoch:]version[-release] split, as an executable reference.

   Transcribed from the C source through the Python transcription
   notes/spec-refs/rpm_ref.py (91/91 on the vectors of rpm's tests/rpmvercmp.at).
   This file is an independent yardstick: it is written from rpm's algorithm only.
   Definitions only; facts are in Spec/RpmFacts.v.

   The algorithm of rpmvercmp(a, b), one iteration of its loop:
     1. on both sides skip every character that is not alphanumeric (ASCII), not '~', not '^';
     2. if either side is at a '~': the side WITHOUT the '~' is newer (a tilde sorts before
        everything, even before the end of the string); both at '~': step over it, loop;
     3. if either side is at a '^': a side at its end is older (a caret sorts after the end
        of the string) but any other segment is newer than a caret; both at '^': step, loop;
     4. if either side is at its end, leave the loop: the side with characters left is newer,
        both at the end is equality;
     5. take from BOTH sides the maximal run of digits if the left side is at a digit, of
        letters otherwise.  An empty right run means the two segments are of different kinds:
        the numeric one is newer.  Two numeric runs: strip leading zeros, the longer is newer,
        equal length by strcmp.  Two alphabetic runs: strcmp.  Equal segments: loop. *)
From Verif.Base Require Import Bytes GoNum Ord.
Local Open Scope N_scope.

Definition is_tilde (c : ascii) : bool := ceqb c "~"%char.
Definition is_caret (c : ascii) : bool := ceqb c "^"%char.

(* step 1: the characters the scanner steps over.  [is_alnum] is ASCII-only, like rpm's
   own risalnum: bytes >= 0x80 are separators. *)
Definition is_sep (c : ascii) : bool :=
  negb (is_alnum c) && negb (is_tilde c) && negb (is_caret c).
Definition skip_sep (s : bytes) : bytes := drop_while is_sep s.

(* step 5, numeric runs: "strip leading zeros, longer wins, then strcmp" is exactly
   [GoNum.digits_cmp] (comparison of the runs as unbounded integers). *)
Definition num_seg_cmp (sa sb : bytes) : comparison := digits_cmp sa sb.
(* step 5, alphabetic runs: strcmp *)
Definition alpha_seg_cmp (sa sb : bytes) : comparison := bytes_cmp sa sb.

(* The loop.  [fuel] bounds the number of iterations.
   Every recursive call is made on proper suffixes of BOTH skipped strings: the '~' and '^'
   steps drop one character on each side, and the segment step drops the runs [sa] and [sb],
   which are both non-empty when the recursion is reached ([sa] starts with the alphanumeric
   character the left side is at; an empty [sb] returns immediately).  Hence
   length a + length b decreases by at least 2 per iteration and a call with
   fuel > length a + length b never reaches the [O] branch (proved in RpmFacts.v:
   the result does not depend on the fuel once it exceeds length a + length b).
   The [O] branch therefore returns an arbitrary non-[Eq] value. *)
Fixpoint vercmp_fuel (fuel : nat) (a b : bytes) : comparison :=
  match fuel with
  | O => Lt (* unreachable from [rpmvercmp] *)
  | S k =>
      let a := skip_sep a in
      let b := skip_sep b in
      match a, b with
      | [], [] => Eq                                    (* step 4: both exhausted *)
      | x :: _, [] => if is_tilde x then Lt else Gt     (* steps 2, 3 ('^' vs end), 4 *)
      | [], y :: _ => if is_tilde y then Gt else Lt
      | x :: a', y :: b' =>
          if is_tilde x then (if is_tilde y then vercmp_fuel k a' b' else Lt)
          else if is_tilde y then Gt
          else if is_caret x then (if is_caret y then vercmp_fuel k a' b' else Lt)
          else if is_caret y then Gt
          else
            if is_digit x then
              let sa := take_while is_digit a in
              let sb := take_while is_digit b in
              match sa, sb with
              | [], _ => Lt   (* rpm: "if (one == str1) return -1"; cannot happen *)
              | _, [] => Gt   (* numeric vs alphabetic: numeric is newer *)
              | _, _ =>
                  match num_seg_cmp sa sb with
                  | Eq => vercmp_fuel k (drop_while is_digit a) (drop_while is_digit b)
                  | c => c
                  end
              end
            else
              let sa := take_while is_letter a in
              let sb := take_while is_letter b in
              match sa, sb with
              | [], _ => Lt   (* rpm: "if (one == str1) return -1"; cannot happen *)
              | _, [] => Lt   (* alphabetic vs numeric: numeric is newer *)
              | _, _ =>
                  match alpha_seg_cmp sa sb with
                  | Eq => vercmp_fuel k (drop_while is_letter a) (drop_while is_letter b)
                  | c => c
                  end
              end
      end
  end.

Definition rpmvercmp (a b : bytes) : comparison :=
  vercmp_fuel (length a + length b + 2) a b.

(* ---------- [epoch:]version[-release] ---------- *)

(* epoch = the maximal non-empty run of leading digits, if it is followed by ':';
   otherwise there is no epoch (value 0) and nothing is removed. *)
Definition split_epoch (s : bytes) : N * bytes :=
  let d := take_while is_digit s in
  match d, drop_while is_digit s with
  | _ :: _, c :: rest => if ceqb c ":"%char then (digits_val d, rest) else (0, s)
  | _, _ => (0, s)
  end.

(* release = the text after the LAST '-' of what follows the epoch; [None] if there is no '-'
   (an absent release is distinguished from an empty one: "1.0" vs "1.0-"). *)
Definition split_evr (s : bytes) : N * bytes * option bytes :=
  let (e, r) := split_epoch s in
  match cut_last_c "-"%char r with
  | Some (v, rel) => (e, v, Some rel)
  | None => (e, r, None)
  end.

(* epoch numerically, then version by rpmvercmp, then release by rpmvercmp where an absent
   release is older than any present one and two absent releases are equal. *)
Definition evr_cmp : N * bytes * option bytes -> N * bytes * option bytes -> comparison :=
  lex2 (lex2 N.compare rpmvercmp) (opt_first rpmvercmp).

Definition rpm_cmp (a b : bytes) : comparison := evr_cmp (split_evr a) (split_evr b).

(* ---------- the reference's domain ---------- *)

(* characters of a version or release field: [0-9A-Za-z._+~^] *)
Definition is_field_char (c : ascii) : bool :=
  is_alnum c || ceqb c "."%char || ceqb c "_"%char || ceqb c "+"%char
  || is_tilde c || is_caret c.

Definition valid_field (s : bytes) : bool :=
  match s with [] => false | _ => forallb is_field_char s end.

(* (digits ':')? field ('-' field)?  — fields non-empty.  A ':' that is not preceded by a
   digits-only prefix, a second ':' and a second '-' all end up inside a field and are
   rejected there. *)
Definition spec_valid (s : bytes) : bool :=
  let '(_, v, r) := split_evr s in
  valid_field v && match r with None => true | Some rel => valid_field rel end.

Definition spec_cmp (a b : bytes) : option comparison :=
  if spec_valid a && spec_valid b then Some (rpm_cmp a b) else None.
