(* Spec/RpmFacts.v — facts about Spec/Rpm.v.

   Main result: [rpmvercmp] is the lexicographic comparison of token streams
   ([rpmvercmp_as_tokens]), where a string is cut into the tokens
        '~'   end-of-string   '^'   alphabetic run   numeric run
   ordered in exactly this way (runs of one kind among themselves by strcmp / as
   integers).  Consequently [rpmvercmp], [rpm_cmp] are total preorders on ALL byte
   strings ([TP_rpmvercmp], [TP_rpm_cmp]): reflexive, antisymmetric and transitive.
   (An exhaustive search over short strings, notes/spec-validate/rpm/trans_search.py,
   had found no intransitive triple either.) *)
From Coq Require Import Lia ZifyBool.
From Verif.Base Require Import Bytes GoNum Ord BytesFacts.
From Verif.Spec Require Import Rpm.

(* ---------- lists and character classes ---------- *)

Lemma length_drop_while (p : ascii -> bool) (s : bytes) :
  (length (drop_while p s) <= length s)%nat.
Proof.
  induction s as [|c s IH]; cbn [drop_while length]; [lia|].
  destruct (p c); cbn [length]; lia.
Qed.

Lemma drop_while_hd (p : ascii -> bool) (s : bytes) x t :
  drop_while p s = x :: t -> p x = false.
Proof.
  induction s as [|c s IH]; cbn [drop_while]; [discriminate|].
  destruct (p c) eqn:E; [exact IH|].
  intros H. inversion H; subst. exact E.
Qed.

Lemma skip_sep_length s : (length (skip_sep s) <= length s)%nat.
Proof. apply length_drop_while. Qed.

Lemma skip_sep_hd s x t : skip_sep s = x :: t -> is_sep x = false.
Proof. apply drop_while_hd. Qed.

(* a character the scanner stops at that is neither '~' nor '^' nor a digit is a letter *)
Lemma stop_char_letter x :
  is_sep x = false -> is_tilde x = false -> is_caret x = false -> is_digit x = false ->
  is_letter x = true.
Proof.
  unfold is_sep, is_alnum. intros H1 H2 H3 H4. rewrite H2, H3, H4 in H1.
  destruct (is_letter x); [reflexivity|]. cbn in H1. discriminate H1.
Qed.

Lemma digit_not_letter x : is_digit x = true -> is_letter x = false.
Proof.
  unfold is_digit, is_letter, is_lower, is_upper, in_range. cbv zeta. lia.
Qed.

Lemma letter_not_digit x : is_letter x = true -> is_digit x = false.
Proof.
  intros H. destruct (is_digit x) eqn:E; [|reflexivity].
  apply digit_not_letter in E. congruence.
Qed.

Lemma stop_char_digit x :
  is_sep x = false -> is_tilde x = false -> is_caret x = false -> is_letter x = false ->
  is_digit x = true.
Proof.
  intros H1 H2 H3 H4. destruct (is_digit x) eqn:E; [reflexivity|].
  rewrite (stop_char_letter x H1 H2 H3 E) in H4. discriminate.
Qed.

(* ---------- the token view ---------- *)

Inductive tok :=
| TTilde | TEnd | TCaret
| TAlpha (s : bytes)
| TNum (s : bytes).

Definition tok_rank (t : tok) : N :=
  match t with TTilde => 0 | TEnd => 1 | TCaret => 2 | TAlpha _ => 3 | TNum _ => 4 end.

Definition tok_cmp (t u : tok) : comparison :=
  match t, u with
  | TAlpha s, TAlpha s' => bytes_cmp s s'
  | TNum s, TNum s' => digits_cmp s s'
  | _, _ => N.compare (tok_rank t) (tok_rank u)
  end.

Definition tok_key (t : tok) : N * bytes * bytes :=
  match t with
  | TAlpha s => (tok_rank t, s, [])
  | TNum s => (tok_rank t, [], s)
  | _ => (tok_rank t, [], [])
  end.

Lemma tok_cmp_key t u :
  tok_cmp t u = cmp_on tok_key (lex2 (lex2 N.compare bytes_cmp) digits_cmp) t u.
Proof.
  unfold cmp_on, lex2.
  destruct t as [| | |s|s], u as [| | |s'|s']; try reflexivity; cbn.
  destruct (bytes_cmp s s'); reflexivity.
Qed.

Lemma TP_tok_cmp : TotalPreorder tok_cmp.
Proof.
  eapply TP_ext; [apply tok_cmp_key|].
  apply TP_on, TP_lex2; [apply TP_lex2; [apply TP_N | apply TP_bytes_cmp] | apply TP_digits_cmp].
Qed.

(* the token stream of a string, ended by [TEnd]; fuel > length s suffices *)
Fixpoint toks_fuel (k : nat) (s : bytes) : list tok :=
  match k with
  | O => [TEnd]
  | S k =>
      match skip_sep s with
      | [] => [TEnd]
      | x :: s' =>
          if is_tilde x then TTilde :: toks_fuel k s'
          else if is_caret x then TCaret :: toks_fuel k s'
          else if is_digit x
               then TNum (take_while is_digit (x :: s')) :: toks_fuel k (drop_while is_digit (x :: s'))
               else TAlpha (take_while is_letter (x :: s')) :: toks_fuel k (drop_while is_letter (x :: s'))
      end
  end.

Definition toks (s : bytes) : list tok := toks_fuel (S (length s)) s.

Lemma toks_fuel_indep k1 : forall k2 s,
  (length s < k1)%nat -> (length s < k2)%nat -> toks_fuel k1 s = toks_fuel k2 s.
Proof.
  induction k1 as [|k1 IH]; intros k2 s H1 H2; [lia|].
  destruct k2 as [|k2]; [lia|].
  cbn [toks_fuel].
  pose proof (skip_sep_length s) as L.
  destruct (skip_sep s) as [|x s'] eqn:E; [reflexivity|].
  pose proof (skip_sep_hd _ _ _ E) as Sx.
  cbn [length] in L.
  destruct (is_tilde x) eqn:Tx; [f_equal; apply IH; lia|].
  destruct (is_caret x) eqn:Cx; [f_equal; apply IH; lia|].
  destruct (is_digit x) eqn:Dx.
  - f_equal. cbn [drop_while]. rewrite Dx.
    pose proof (length_drop_while is_digit s'). apply IH; lia.
  - f_equal. cbn [drop_while].
    rewrite (stop_char_letter x Sx Tx Cx Dx).
    pose proof (length_drop_while is_letter s'). apply IH; lia.
Qed.

Lemma toks_fuel_toks k s : (length s < k)%nat -> toks_fuel k s = toks s.
Proof. intros H. unfold toks. apply toks_fuel_indep; lia. Qed.

(* ---------- rpmvercmp = lexicographic order on token streams ---------- *)

Lemma vercmp_fuel_tokens k : forall a b,
  (length a + length b < k)%nat ->
  vercmp_fuel k a b = lex_short tok_cmp (toks_fuel k a) (toks_fuel k b).
Proof.
  induction k as [|k IH]; intros a b Hk; [lia|].
  cbn [vercmp_fuel toks_fuel].
  pose proof (skip_sep_length a) as La. pose proof (skip_sep_length b) as Lb.
  destruct (skip_sep a) as [|x a'] eqn:Ea; destruct (skip_sep b) as [|y b'] eqn:Eb.
  - reflexivity.
  - destruct (is_tilde y); [reflexivity|].
    destruct (is_caret y); [reflexivity|].
    destruct (is_digit y); reflexivity.
  - destruct (is_tilde x); [reflexivity|].
    destruct (is_caret x); [reflexivity|].
    destruct (is_digit x); reflexivity.
  - pose proof (skip_sep_hd _ _ _ Ea) as Sx. pose proof (skip_sep_hd _ _ _ Eb) as Sy.
    cbn [length] in La, Lb.
    destruct (is_tilde x) eqn:Tx.
    { destruct (is_tilde y) eqn:Ty.
      - cbn [lex_short tok_cmp tok_rank]. rewrite N.compare_refl. cbn [thenc]. apply IH. lia.
      - destruct (is_caret y); [reflexivity|]. destruct (is_digit y); reflexivity. }
    destruct (is_tilde y) eqn:Ty.
    { destruct (is_caret x); [reflexivity|]. destruct (is_digit x); reflexivity. }
    destruct (is_caret x) eqn:Cx.
    { destruct (is_caret y) eqn:Cy.
      - cbn [lex_short tok_cmp tok_rank]. rewrite N.compare_refl. cbn [thenc]. apply IH. lia.
      - destruct (is_digit y); reflexivity. }
    destruct (is_caret y) eqn:Cy.
    { destruct (is_digit x); reflexivity. }
    destruct (is_digit x) eqn:Dx.
    + (* left side at a digit *)
      cbn [take_while drop_while]. rewrite Dx.
      destruct (is_digit y) eqn:Dy.
      * cbn [lex_short tok_cmp]. unfold num_seg_cmp.
        pose proof (length_drop_while is_digit a'). pose proof (length_drop_while is_digit b').
        destruct (digits_cmp (x :: take_while is_digit a') (y :: take_while is_digit b'));
          cbn [thenc]; [apply IH; lia | reflexivity | reflexivity].
      * rewrite (stop_char_letter y Sy Ty Cy Dy). reflexivity.
    + (* left side at a letter *)
      pose proof (stop_char_letter x Sx Tx Cx Dx) as Lx.
      cbn [take_while drop_while]. rewrite Lx.
      destruct (is_letter y) eqn:Ly.
      * rewrite (letter_not_digit y Ly).
        cbn [lex_short tok_cmp]. unfold alpha_seg_cmp.
        pose proof (length_drop_while is_letter a'). pose proof (length_drop_while is_letter b').
        destruct (bytes_cmp (x :: take_while is_letter a') (y :: take_while is_letter b'));
          cbn [thenc]; [apply IH; lia | reflexivity | reflexivity].
      * rewrite (stop_char_digit y Sy Ty Cy Ly). reflexivity.
Qed.

Definition toks_cmp : list tok -> list tok -> comparison := lex_short tok_cmp.

Theorem rpmvercmp_as_tokens a b : rpmvercmp a b = toks_cmp (toks a) (toks b).
Proof.
  unfold rpmvercmp, toks_cmp.
  rewrite vercmp_fuel_tokens by lia.
  rewrite !toks_fuel_toks by lia. reflexivity.
Qed.

(* the fuel is immaterial once it exceeds length a + length b: the [O] branch of
   [vercmp_fuel] is never reached from [rpmvercmp] *)
Lemma vercmp_fuel_enough k a b :
  (length a + length b < k)%nat -> vercmp_fuel k a b = rpmvercmp a b.
Proof.
  intros H. rewrite rpmvercmp_as_tokens, vercmp_fuel_tokens by assumption.
  rewrite !toks_fuel_toks by lia. reflexivity.
Qed.

Theorem TP_rpmvercmp : TotalPreorder rpmvercmp.
Proof.
  eapply TP_ext with (c2 := cmp_on toks toks_cmp).
  - intros a b. apply rpmvercmp_as_tokens.
  - apply TP_on, TP_lex_short, TP_tok_cmp.
Qed.

Corollary rpmvercmp_refl a : rpmvercmp a a = Eq.
Proof. apply (tp_refl TP_rpmvercmp). Qed.

Corollary rpmvercmp_antisym a b : rpmvercmp b a = CompOpp (rpmvercmp a b).
Proof. apply (tp_anti TP_rpmvercmp). Qed.

Corollary rpmvercmp_trans a b c x :
  rpmvercmp a b = x -> rpmvercmp b c = x -> rpmvercmp a c = x.
Proof. apply (tp_trans TP_rpmvercmp). Qed.

(* ---------- epoch:version-release ---------- *)

Lemma TP_evr_cmp : TotalPreorder evr_cmp.
Proof.
  unfold evr_cmp. apply TP_lex2; [apply TP_lex2; [apply TP_N | apply TP_rpmvercmp]|].
  apply TP_opt_first, TP_rpmvercmp.
Qed.

Theorem TP_rpm_cmp : TotalPreorder rpm_cmp.
Proof.
  change rpm_cmp with (cmp_on split_evr evr_cmp). apply TP_on, TP_evr_cmp.
Qed.

Lemma spec_cmp_some a b :
  spec_valid a = true -> spec_valid b = true -> spec_cmp a b = Some (rpm_cmp a b).
Proof. intros Ha Hb. unfold spec_cmp. rewrite Ha, Hb. reflexivity. Qed.

Lemma spec_cmp_none a b :
  spec_cmp a b = None <-> spec_valid a = false \/ spec_valid b = false.
Proof.
  unfold spec_cmp. destruct (spec_valid a), (spec_valid b); cbn; split;
    try discriminate; try tauto; intros [H|H]; discriminate.
Qed.

(* the preorder laws for the optional comparison on the reference's domain *)
Theorem spec_cmp_laws a b c :
  spec_valid a = true -> spec_valid b = true -> spec_valid c = true ->
  exists ab bc ac ba,
    spec_cmp a b = Some ab /\ spec_cmp b c = Some bc /\ spec_cmp a c = Some ac /\
    spec_cmp b a = Some ba /\
    spec_cmp a a = Some Eq /\
    ba = CompOpp ab /\
    (ab = bc -> ac = ab) /\
    (ab = Eq -> ac = bc).
Proof.
  intros Ha Hb Hc.
  exists (rpm_cmp a b), (rpm_cmp b c), (rpm_cmp a c), (rpm_cmp b a).
  rewrite !spec_cmp_some by assumption.
  repeat split.
  - rewrite (tp_refl TP_rpm_cmp). reflexivity.
  - apply (tp_anti TP_rpm_cmp).
  - intros H. apply (tp_trans TP_rpm_cmp a b c); congruence.
  - apply (tp_eq_l TP_rpm_cmp).
Qed.

(* ---------- examples (rpm's tests/rpmvercmp.at) ---------- *)

Example ex_tilde : rpmvercmp $"1.0~rc1" $"1.0" = Lt.          Proof. reflexivity. Qed.
Example ex_caret : rpmvercmp $"1.0^git1" $"1.0" = Gt.         Proof. reflexivity. Qed.
Example ex_caret_seg : rpmvercmp $"1.0^git1" $"1.0.1" = Lt.   Proof. reflexivity. Qed.
Example ex_num_alpha : rpmvercmp $"1.0a" $"1.0.1" = Lt.       Proof. reflexivity. Qed.
Example ex_zeros : rpmvercmp $"10.0001" $"10.1" = Eq.         Proof. reflexivity. Qed.
Example ex_seps : rpmvercmp $"2_0" $"2.0" = Eq.               Proof. reflexivity. Qed.
Example ex_big :
  rpmvercmp $"99999999999999999999" $"100000000000000000000" = Lt.
Proof. reflexivity. Qed.
Example ex_epoch : rpm_cmp $"1:1.0-1" $"2.0-1" = Gt.          Proof. reflexivity. Qed.
Example ex_norel : rpm_cmp $"1.0" $"1.0-1" = Lt.              Proof. reflexivity. Qed.
