(* Spec/SemVer.v — Semantic Versioning 2.0.0 (https://semver.org/spec/v2.0.0.html):
   the grammar ("Backus-Naur Form Grammar for Valid SemVer Versions") and the
   precedence of section 11, as executable definitions.

   This file is a reference specification: it is written from the SemVer text
   and does not depend on, or describe, any implementation.  Definitions only;
   the order-theoretic facts are in SemVerFacts.v.  Validated against
   node-semver 7.6.2 (notes/spec-validate/semver). *)
From Verif.Base Require Import Bytes GoNum Ord.
Local Open Scope N_scope.

(* ------------------------------------------------------------------ *)
(* Abstract syntax                                                     *)
(* ------------------------------------------------------------------ *)

(* A pre-release identifier.  Section 9/11: an identifier consisting of only
   digits is numeric and is compared as an integer (of any size); every other
   identifier (letters, hyphens, or digits mixed with them: "-5", "0a", "1-1")
   is alphanumeric and compared as an ASCII string. *)
Inductive ident :=
| INum (n : N)
| IAlnum (s : bytes).

(* A version: the numeric components (major, minor, patch; a fourth "revision"
   component for ecosystems that have one) and the pre-release identifiers.
   Build metadata has no influence on precedence (section 10) and is dropped. *)
Record sv := {
  nums : list N;      (* major, minor, patch [, revision] *)
  pre : list ident    (* [] = no pre-release *)
}.

(* ------------------------------------------------------------------ *)
(* Section 11: precedence                                              *)
(* ------------------------------------------------------------------ *)

(* 11.4.1-11.4.3: numeric identifiers numerically, alphanumeric identifiers
   lexically in ASCII sort order, numeric lower than alphanumeric. *)
Definition ident_cmp (a b : ident) : comparison :=
  match a, b with
  | INum x, INum y => N.compare x y
  | INum _, IAlnum _ => Lt
  | IAlnum _, INum _ => Gt
  | IAlnum x, IAlnum y => bytes_cmp x y
  end.

(* 11.3: a version with a pre-release has lower precedence than the same version
   without: the empty identifier list is the greatest key.
   11.4: otherwise identifiers are compared left to right, and (11.4.4) a larger
   set of identifiers wins when all preceding ones are equal. *)
Definition pre_key (p : list ident) : option (list ident) :=
  match p with
  | [] => None
  | _ :: _ => Some p
  end.

Definition pre_cmp : list ident -> list ident -> comparison :=
  cmp_on pre_key (opt_last (lex_short ident_cmp)).

(* 11.2: major, minor, patch (and revision) numerically, left to right.  Lists of
   different length are compared as if the shorter were extended with zeros. *)
Definition nums_cmp : list N -> list N -> comparison := lex_pad 0 N.compare.

(* 11.1-11.4 *)
Definition prec : sv -> sv -> comparison :=
  lexc (cmp_on nums nums_cmp) (cmp_on pre pre_cmp).

(* ------------------------------------------------------------------ *)
(* Grammar                                                             *)
(* ------------------------------------------------------------------ *)

Definition isSome {A} (o : option A) : bool :=
  match o with Some _ => true | None => false end.

(* <identifier character> ::= <digit> | <letter> | "-" *)
Definition is_ident_char (c : ascii) : bool := is_alnum c || ceqb c "-"%char.

(* <numeric identifier> ::= "0" | <positive digit> | <positive digit> <digits> *)
Definition no_leading_zero (s : bytes) : bool :=
  match s with
  | c :: _ :: _ => negb (ceqb c "0"%char)
  | _ => true
  end.

(* a numeric component / numeric identifier; [strict] forbids leading zeros *)
Definition numeric (strict : bool) (s : bytes) : option N :=
  if nonempty_digits s && (negb strict || no_leading_zero s)
  then Some (digits_val s)
  else None.

(* <pre-release identifier> ::= <alphanumeric identifier> | <numeric identifier>
   A non-empty run of identifier characters; when it consists of digits only it
   is numeric (and, strictly, must not have a leading zero). *)
Definition pre_ident (strict : bool) (s : bytes) : option ident :=
  match s with
  | [] => None
  | _ :: _ =>
      if all_digits s then option_map INum (numeric strict s)
      else if forallb is_ident_char s then Some (IAlnum s)
      else None
  end.

(* <build identifier> ::= <alphanumeric identifier> | <digits> *)
Definition build_ident_ok (s : bytes) : bool :=
  match s with
  | [] => false
  | _ :: _ => forallb is_ident_char s
  end.

(* all-or-nothing map *)
Fixpoint map_opt {A B} (f : A -> option B) (l : list A) : option (list B) :=
  match l with
  | [] => Some []
  | x :: l' =>
      match f x, map_opt f l' with
      | Some y, Some ys => Some (y :: ys)
      | _, _ => None
      end
  end.

(* <dot-separated pre-release identifiers> *)
Definition parse_pre (strict : bool) (s : bytes) : option (list ident) :=
  map_opt (pre_ident strict) (split_c "."%char s).

(* <dot-separated build identifiers> *)
Definition build_ok (s : bytes) : bool :=
  forallb build_ident_ok (split_c "."%char s).

(* dot-separated numeric components, between [lo] and [hi] of them *)
Definition parse_nums (strict : bool) (lo hi : nat) (s : bytes) : option (list N) :=
  match map_opt (numeric strict) (split_c "."%char s) with
  | Some l =>
      if (Nat.leb lo (length l) && Nat.leb (length l) hi)%bool then Some l else None
  | None => None
  end.

(* extend with zeros up to [n] components *)
Fixpoint pad_nums (n : nat) (l : list N) : list N :=
  match n, l with
  | O, _ => l
  | S k, [] => 0 :: pad_nums k []
  | S k, x :: l' => x :: pad_nums k l'
  end.

(* <valid semver> ::= <version core> [ "-" <pre-release> ] [ "+" <build> ]
   Neither the core nor the pre-release can contain "+", so the build metadata
   starts at the first "+"; the core cannot contain "-", so the pre-release
   starts at the first "-" of what precedes the build metadata. *)
Definition parse_gen (strict : bool) (lo hi : nat) (s : bytes) : option sv :=
  let '(main, build) := split2_c "+"%char s in
  let build_good := match build with None => true | Some b => build_ok b end in
  if build_good then
    let '(core, prerel) := split2_c "-"%char main in
    match parse_nums strict lo hi core with
    | None => None
    | Some ns =>
        match prerel with
        | None => Some {| nums := pad_nums 3 ns; pre := [] |}
        | Some p =>
            match parse_pre strict p with
            | Some ids => Some {| nums := pad_nums 3 ns; pre := ids |}
            | None => None
            end
        end
    end
  else None.

(* exactly the SemVer 2.0.0 BNF *)
Definition parse_strict : bytes -> option sv := parse_gen true 3 3.

Definition semver_bnf (s : bytes) : bool := isSome (parse_strict s).

(* The same shape, but leading zeros are allowed in every numeric position and
   there are between [min_comps] and [max_comps] numeric components (missing
   ones are 0).  For ecosystems that are laxer than the BNF. *)
Definition parse_loose (min_comps max_comps : nat) : bytes -> option sv :=
  parse_gen false min_comps max_comps.

(* ------------------------------------------------------------------ *)
(* The reference order on strings                                      *)
(* ------------------------------------------------------------------ *)

(* [None]: one side is not in the domain of the denotation *)
Definition spec_cmp_with (den : bytes -> option sv) (a b : bytes) : option comparison :=
  match den a, den b with
  | Some x, Some y => Some (prec x y)
  | _, _ => None
  end.

Definition spec_valid : bytes -> bool := semver_bnf.
Definition spec_cmp : bytes -> bytes -> option comparison := spec_cmp_with parse_strict.

(* ------------------------------------------------------------------ *)
(* Denotations of the SemVer family                                    *)
(* ------------------------------------------------------------------ *)

(* How the version text of each ecosystem that declares SemVer ordering denotes a
   SemVer version.  Only the decoration around the SemVer text differs. *)

(* remove, in order, each of the given optional prefixes when present *)
Definition strip_prefixes (ps : list bytes) (s : bytes) : bytes :=
  fold_left (fun t p => trim_prefix p t) ps s.

(* SemVer proper *)
Definition den_semver : bytes -> option sv := parse_strict.

(* npm: an optional decoration matching v?=?v? in front of the version *)
Definition npm_prefixes : list bytes := [ $"v"; $"="; $"v" ].
Definition den_npm (s : bytes) : option sv :=
  parse_loose 3 3 (strip_prefixes npm_prefixes s).

(* Cargo *)
Definition den_cargo : bytes -> option sv := parse_loose 3 3.

(* Hex: a full version, or exactly "D.D" standing for D.D.0 *)
Definition den_hex (s : bytes) : option sv :=
  match parse_loose 3 3 s with
  | Some v => Some v
  | None =>
      match map_opt (numeric false) (split_c "."%char s) with
      | Some [a; b] => Some {| nums := [a; b; 0]; pre := [] |}
      | _ => None
      end
  end.

(* NuGet: optional "v", one to four numeric components *)
Definition den_nuget (s : bytes) : option sv :=
  parse_loose 1 4 (strip_prefixes [ $"v" ] s).

(* Go modules: optional "v"; a pseudo-version denotes its literal SemVer spelling *)
Definition den_golang (s : bytes) : option sv :=
  parse_loose 3 3 (strip_prefixes [ $"v" ] s).
