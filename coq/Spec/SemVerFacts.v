(* Spec/SemVerFacts.v — facts about the SemVer 2.0.0 reference of Spec/SemVer.v:
   section 11 precedence is a total preorder (on identifiers even a total order),
   readable restatements of the clauses of section 11, the worked example of the
   SemVer text, and basic facts about the recognisers. *)
From Coq Require Import Lia.
From Verif.Base Require Import Bytes GoNum Ord BytesFacts.
From Verif.Spec Require Import SemVer.
Local Open Scope N_scope.

(* ------------------------------------------------------------------ *)
(* Order laws                                                          *)
(* ------------------------------------------------------------------ *)

Lemma TP_ident_cmp : TotalPreorder ident_cmp.
Proof.
  pose proof TP_N as TN. pose proof TP_bytes_cmp as TB.
  constructor.
  - intros [n|s]; simpl; [apply (tp_refl TN) | apply (tp_refl TB)].
  - intros [n|s] [m|t]; simpl; try reflexivity; [apply (tp_anti TN) | apply (tp_anti TB)].
  - intros [n|s] [m|t] [k|u] x; simpl; try congruence;
      [apply (tp_trans TN) | apply (tp_trans TB)].
  - intros [n|s] [m|t] [k|u]; simpl; try congruence;
      [apply (tp_eq_l TN) | apply (tp_eq_l TB)].
Qed.

Lemma TP_pre_cmp : TotalPreorder pre_cmp.
Proof. unfold pre_cmp. apply TP_on, TP_opt_last, TP_lex_short, TP_ident_cmp. Qed.

Lemma TP_nums_cmp : TotalPreorder nums_cmp.
Proof. unfold nums_cmp. apply TP_lex_pad, TP_N. Qed.

Theorem TP_prec : TotalPreorder prec.
Proof.
  unfold prec. apply TP_lexc; apply TP_on; [apply TP_nums_cmp | apply TP_pre_cmp].
Qed.

(* the user-facing form: reflexive, antisymmetric in the CompOpp sense, transitive
   (strictly when a step is strict), and Eq is a congruence *)
Corollary prec_laws a b c : preorder_laws prec a b c.
Proof. apply TP_laws, TP_prec. Qed.

(* the order induced on strings by any denotation: laws on the accepted strings *)
Lemma spec_cmp_with_some den a b :
  spec_cmp_with den a b <> None <-> (den a <> None /\ den b <> None).
Proof.
  unfold spec_cmp_with. destruct (den a), (den b); split; intros H;
    try (destruct H; congruence); try congruence; split; congruence.
Qed.

Lemma spec_cmp_with_laws den a b c va vb vc :
  den a = Some va -> den b = Some vb -> den c = Some vc ->
  spec_cmp_with den a a = Some Eq /\
  spec_cmp_with den b a = option_map CompOpp (spec_cmp_with den a b) /\
  (forall x, spec_cmp_with den a b = Some x -> spec_cmp_with den b c = Some x ->
             spec_cmp_with den a c = Some x) /\
  (spec_cmp_with den a b = Some Eq -> spec_cmp_with den a c = spec_cmp_with den b c).
Proof.
  intros Ha Hb Hc. unfold spec_cmp_with. rewrite Ha, Hb, Hc. simpl.
  pose proof TP_prec as T. repeat split.
  - rewrite (tp_refl T). reflexivity.
  - rewrite (tp_anti T va vb). reflexivity.
  - intros x H1 H2. injection H1 as H1. injection H2 as H2.
    rewrite (tp_trans T va vb vc H1 H2). reflexivity.
  - intros H. injection H as H. rewrite (tp_eq_l T va vb vc H). reflexivity.
Qed.

(* ------------------------------------------------------------------ *)
(* Eq is equality                                                      *)
(* ------------------------------------------------------------------ *)

Lemma ident_cmp_eq a b : ident_cmp a b = Eq <-> a = b.
Proof.
  destruct a as [n|s], b as [m|t]; simpl; split; intros H; try discriminate.
  - apply N.compare_eq in H. congruence.
  - injection H as ->. apply N.compare_refl.
  - apply bytes_cmp_eq in H. congruence.
  - injection H as ->. apply bytes_cmp_eq. reflexivity.
Qed.

Lemma lex_short_eq {A} (cmp : A -> A -> comparison) :
  (forall x y, cmp x y = Eq <-> x = y) ->
  forall l1 l2, lex_short cmp l1 l2 = Eq <-> l1 = l2.
Proof.
  intros E. induction l1 as [|x l1 IH]; intros [|y l2]; simpl; split; intros H;
    try discriminate; try reflexivity.
  - unfold thenc in H. destruct (cmp x y) eqn:C; try discriminate.
    apply E in C. apply IH in H. congruence.
  - injection H as -> ->. unfold thenc.
    assert (C : cmp y y = Eq) by (apply E; reflexivity). rewrite C.
    apply IH. reflexivity.
Qed.

Lemma pre_cmp_eq p q : pre_cmp p q = Eq <-> p = q.
Proof.
  unfold pre_cmp, cmp_on.
  destruct p as [|x p], q as [|y q]; simpl; split; intros H; try discriminate; try reflexivity.
  - change (lex_short ident_cmp (x :: p) (y :: q) = Eq) in H.
    apply (lex_short_eq ident_cmp ident_cmp_eq) in H. exact H.
  - change (lex_short ident_cmp (x :: p) (y :: q) = Eq).
    apply (lex_short_eq ident_cmp ident_cmp_eq). exact H.
Qed.

(* on component lists of the same length the padded comparison is the plain one *)
Lemma nums_cmp_same_length l1 l2 :
  length l1 = length l2 -> nums_cmp l1 l2 = lex_short N.compare l1 l2.
Proof.
  revert l2. induction l1 as [|x l1 IH]; intros [|y l2] H; simpl in *; try discriminate.
  - reflexivity.
  - unfold nums_cmp in *. simpl. rewrite IH by lia. reflexivity.
Qed.

Lemma nums_cmp_eq_same_length l1 l2 :
  length l1 = length l2 -> (nums_cmp l1 l2 = Eq <-> l1 = l2).
Proof.
  intros H. rewrite (nums_cmp_same_length l1 l2 H).
  apply lex_short_eq. intros x y. split.
  - apply N.compare_eq.
  - intros ->. apply N.compare_refl.
Qed.

(* versions with the same number of components have equal precedence exactly when
   they are the same version (build metadata is not part of [sv]) *)
Theorem prec_eq_iff a b :
  length (nums a) = length (nums b) -> (prec a b = Eq <-> a = b).
Proof.
  intros L. unfold prec, lexc, cmp_on, thenc. split.
  - intros H. destruct (nums_cmp (nums a) (nums b)) eqn:C; try discriminate.
    apply (nums_cmp_eq_same_length _ _ L) in C. apply pre_cmp_eq in H.
    destruct a, b; simpl in *. congruence.
  - intros ->. rewrite (tp_refl TP_nums_cmp). apply (tp_refl TP_pre_cmp).
Qed.

(* ------------------------------------------------------------------ *)
(* Section 11, clause by clause                                        *)
(* ------------------------------------------------------------------ *)

(* 11.2: the numeric components decide first *)
Lemma prec_nums a b :
  nums_cmp (nums a) (nums b) <> Eq -> prec a b = nums_cmp (nums a) (nums b).
Proof.
  intros H. unfold prec, lexc, cmp_on, thenc.
  destruct (nums_cmp (nums a) (nums b)); congruence.
Qed.

Lemma prec_same_nums a b :
  nums_cmp (nums a) (nums b) = Eq -> prec a b = pre_cmp (pre a) (pre b).
Proof. intros H. unfold prec, lexc, cmp_on, thenc. rewrite H. reflexivity. Qed.

(* 11.2 for three components: major, then minor, then patch *)
Lemma nums_cmp_3 x1 y1 z1 x2 y2 z2 :
  nums_cmp [x1; y1; z1] [x2; y2; z2] = thenc (x1 ?= x2) (thenc (y1 ?= y2) (z1 ?= z2)).
Proof.
  unfold nums_cmp. simpl. unfold thenc.
  destruct (x1 ?= x2), (y1 ?= y2), (z1 ?= z2); reflexivity.
Qed.

(* a missing component counts as 0 *)
Lemma nums_cmp_pad_r l : nums_cmp (l ++ [0]) l = Eq.
Proof.
  unfold nums_cmp. induction l as [|x l IH]; simpl.
  - reflexivity.
  - rewrite N.compare_refl. exact IH.
Qed.

(* 11.3: a pre-release version is lower than the associated normal version *)
Lemma pre_cmp_release_gt p : p <> [] -> pre_cmp p [] = Lt.
Proof. destruct p; [congruence|reflexivity]. Qed.

Lemma prec_prerelease_lt ns p :
  p <> [] -> prec {| nums := ns; pre := p |} {| nums := ns; pre := [] |} = Lt.
Proof.
  intros H. rewrite prec_same_nums by apply (tp_refl TP_nums_cmp).
  apply pre_cmp_release_gt. exact H.
Qed.

(* 11.4: two pre-releases compare identifier by identifier, ... *)
Lemma pre_cmp_cons x p y q :
  pre_cmp (x :: p) (y :: q) = thenc (ident_cmp x y) (lex_short ident_cmp p q).
Proof. reflexivity. Qed.

(* 11.4.1 / 11.4.2 / 11.4.3 *)
Lemma ident_cmp_num n m : ident_cmp (INum n) (INum m) = (n ?= m).
Proof. reflexivity. Qed.
Lemma ident_cmp_alnum s t : ident_cmp (IAlnum s) (IAlnum t) = bytes_cmp s t.
Proof. reflexivity. Qed.
Lemma ident_cmp_num_alnum n s : ident_cmp (INum n) (IAlnum s) = Lt.
Proof. reflexivity. Qed.

(* 11.4.4: a larger set of pre-release fields wins when the preceding ones are equal *)
Lemma pre_cmp_longer p q : p <> [] -> q <> [] -> pre_cmp p (p ++ q) = Lt.
Proof.
  intros Hp Hq. destruct p as [|x p]; [congruence|].
  change (lex_short ident_cmp (x :: p) ((x :: p) ++ q) = Lt).
  generalize (x :: p). intros l. induction l as [|z l IH]; simpl.
  - destruct q; [congruence|reflexivity].
  - rewrite (tp_refl TP_ident_cmp). exact IH.
Qed.

(* ------------------------------------------------------------------ *)
(* The example of section 11.4                                         *)
(* ------------------------------------------------------------------ *)

(* 1.0.0-alpha < 1.0.0-alpha.1 < 1.0.0-alpha.beta < 1.0.0-beta < 1.0.0-beta.2
   < 1.0.0-beta.11 < 1.0.0-rc.1 < 1.0.0 *)
Definition sec11_chain : list bytes :=
  [ $"1.0.0-alpha"; $"1.0.0-alpha.1"; $"1.0.0-alpha.beta"; $"1.0.0-beta"; $"1.0.0-beta.2";
    $"1.0.0-beta.11"; $"1.0.0-rc.1"; $"1.0.0" ].

Fixpoint ascending (l : list bytes) : bool :=
  match l with
  | a :: (b :: _) as l' =>
      match spec_cmp a b with Some Lt => ascending l' | _ => false end
  | _ => true
  end.

Example sec11_example : ascending sec11_chain = true.
Proof. vm_compute. reflexivity. Qed.

(* 11.2: 1.0.0 < 2.0.0 < 2.1.0 < 2.1.1;  10: build metadata is ignored *)
Example sec11_2_example :
  ascending [ $"1.0.0"; $"2.0.0"; $"2.1.0"; $"2.1.1" ] = true /\
  spec_cmp $"1.0.0-beta+exp.sha.5114f85" $"1.0.0-beta+20130313144700" = Some Eq.
Proof. vm_compute. split; reflexivity. Qed.

(* identifiers that merely look numeric are alphanumeric *)
Example alnum_examples :
  parse_strict $"1.0.0--5.0a.1-1.007a" =
    Some {| nums := [1; 0; 0]; pre := [IAlnum $"-5"; IAlnum $"0a"; IAlnum $"1-1"; IAlnum $"007a"] |} /\
  spec_cmp $"1.0.0-5" $"1.0.0--5" = Some Lt /\
  spec_cmp $"1.0.0-99999999999999999999" $"1.0.0-100000000000000000000" = Some Lt /\
  spec_cmp $"1.0.0-rc.10" $"1.0.0-rc.2" = Some Gt /\
  spec_cmp $"1.0.0-Z" $"1.0.0-a" = Some Lt.
Proof. vm_compute. repeat split; reflexivity. Qed.

Example bnf_examples :
  map semver_bnf
    [ $"0.0.0"; $"1.2.3-0"; $"1.2.3-a.b+c.d"; $"1.2.3+001"; $"1.2.3--"; $"1.2.3-0a";
      $""; $"1"; $"1.2"; $"1.2.3.4"; $"01.2.3"; $"1.2.3-01"; $"1.2.3-"; $"1.2.3+"; $"1.2.3-a..b";
      $"v1.2.3"; $"1.2.3 "; $"1.2.3-a+b+c"; $"1.2.3-a_b" ]
  = [ true; true; true; true; true; true;
      false; false; false; false; false; false; false; false; false;
      false; false; false; false ].
Proof. vm_compute. reflexivity. Qed.

Example den_examples :
  den_npm $"v1.2.3" = parse_strict $"1.2.3" /\
  den_npm $"=v01.2.3-01" = Some {| nums := [1; 2; 3]; pre := [INum 1] |} /\
  den_npm $"v=1.2.3" = parse_strict $"1.2.3" /\
  den_npm $"==1.2.3" = None /\
  den_cargo $"1.2" = None /\
  den_hex $"1.2" = parse_strict $"1.2.0" /\
  den_hex $"1.2-rc" = None /\
  den_hex $"1" = None /\
  den_nuget $"v1" = parse_strict $"1.0.0" /\
  den_nuget $"1.2.3.4-rc+x" = Some {| nums := [1; 2; 3; 4]; pre := [IAlnum $"rc"] |} /\
  den_nuget $"1.2.3.4.5" = None /\
  den_golang $"v1.2.3-0.20200101000000-abcdefabcdef" =
    Some {| nums := [1; 2; 3]; pre := [INum 0; IAlnum $"20200101000000-abcdefabcdef"] |} /\
  spec_cmp_with den_nuget $"1.2.3" $"1.2.3.0" = Some Eq /\
  spec_cmp_with den_nuget $"1.2.3.1-a" $"1.2.3.1" = Some Lt.
Proof. vm_compute. repeat split; reflexivity. Qed.

(* ------------------------------------------------------------------ *)
(* Recognisers                                                         *)
(* ------------------------------------------------------------------ *)

Lemma pad_nums_length n l : length (pad_nums n l) = Nat.max n (length l).
Proof.
  revert l. induction n as [|n IH]; intros [|x l]; simpl; auto.
  rewrite IH. simpl. lia.
Qed.

Lemma pad_nums_id n l : (n <= length l)%nat -> pad_nums n l = l.
Proof.
  revert l. induction n as [|n IH]; intros [|x l] H; simpl in *; auto; try lia.
  rewrite IH by lia. reflexivity.
Qed.

(* padding does not change precedence *)
Lemma nums_cmp_pad_nums n l : nums_cmp (pad_nums n l) l = Eq.
Proof.
  unfold nums_cmp. revert l. induction n as [|n IH]; intros l.
  - simpl. apply (tp_refl (TP_lex_pad _ _ TP_N 0)).
  - destruct l as [|x l]; simpl.
    + specialize (IH []). destruct (pad_nums n []) eqn:E; simpl in *; exact IH.
    + rewrite N.compare_refl. apply IH.
Qed.

Lemma parse_nums_length strict lo hi s l :
  parse_nums strict lo hi s = Some l -> (lo <= length l <= hi)%nat.
Proof.
  unfold parse_nums. destruct (map_opt (numeric strict) (split_c "." s)) as [l'|]; [|discriminate].
  destruct (Nat.leb lo (length l') && Nat.leb (length l') hi)%bool eqn:E; [|discriminate].
  intros H. injection H as <-. apply andb_true_iff in E. destruct E as [E1 E2].
  apply Nat.leb_le in E1, E2. lia.
Qed.

Lemma parse_gen_nums_length strict lo hi s v :
  parse_gen strict lo hi s = Some v ->
  (Nat.max 3 lo <= length (nums v) <= Nat.max 3 hi)%nat.
Proof.
  unfold parse_gen.
  destruct (split2_c "+" s) as [main build].
  destruct (match build with Some b => build_ok b | None => true end); [|discriminate].
  destruct (split2_c "-" main) as [core prerel].
  destruct (parse_nums strict lo hi core) as [ns|] eqn:E; [|discriminate].
  apply parse_nums_length in E.
  assert (L : (Nat.max 3 lo <= length (pad_nums 3 ns) <= Nat.max 3 hi)%nat)
    by (rewrite pad_nums_length; lia).
  destruct prerel as [p|].
  - destruct (parse_pre strict p); [|discriminate]. intros H. injection H as <-. exact L.
  - intros H. injection H as <-. exact L.
Qed.

(* a strictly valid SemVer has exactly major, minor, patch *)
Lemma parse_strict_nums_length s v : parse_strict s = Some v -> length (nums v) = 3%nat.
Proof. intros H. apply parse_gen_nums_length in H. simpl in H. lia. Qed.

(* hence on valid SemVer strings equal precedence means the same version up to build metadata *)
Corollary spec_cmp_eq_iff a b va vb :
  parse_strict a = Some va -> parse_strict b = Some vb ->
  (spec_cmp a b = Some Eq <-> va = vb).
Proof.
  intros Ha Hb. unfold spec_cmp, spec_cmp_with. rewrite Ha, Hb.
  pose proof (parse_strict_nums_length _ _ Ha) as La.
  pose proof (parse_strict_nums_length _ _ Hb) as Lb.
  rewrite <- (prec_eq_iff va vb) by congruence.
  split; [intros H; injection H as H; exact H | intros ->; reflexivity].
Qed.

(* the loose grammar contains the strict one, with the same denotation *)
Lemma numeric_loose s n : numeric true s = Some n -> numeric false s = Some n.
Proof.
  unfold numeric. destruct (nonempty_digits s); simpl; [|discriminate].
  destruct (no_leading_zero s); simpl; congruence.
Qed.

Lemma map_opt_mono {A B} (f g : A -> option B) :
  (forall x y, f x = Some y -> g x = Some y) ->
  forall l r, map_opt f l = Some r -> map_opt g l = Some r.
Proof.
  intros M. induction l as [|x l IH]; simpl; intros r H; [exact H|].
  destruct (f x) as [y|] eqn:E; [|discriminate].
  destruct (map_opt f l) as [ys|] eqn:E2; [|discriminate].
  rewrite (M x y E), (IH ys eq_refl). exact H.
Qed.

Lemma pre_ident_loose s i : pre_ident true s = Some i -> pre_ident false s = Some i.
Proof.
  unfold pre_ident. destruct s as [|c s]; [discriminate|].
  destruct (all_digits (c :: s)); [|auto].
  destruct (numeric true (c :: s)) as [n|] eqn:E; [|discriminate].
  rewrite (numeric_loose _ _ E). auto.
Qed.

Theorem parse_strict_loose lo hi s v :
  parse_gen true lo hi s = Some v -> parse_gen false lo hi s = Some v.
Proof.
  unfold parse_gen.
  destruct (split2_c "+" s) as [main build].
  destruct (match build with Some b => build_ok b | None => true end); [|discriminate].
  destruct (split2_c "-" main) as [core prerel].
  unfold parse_nums.
  destruct (map_opt (numeric true) (split_c "." core)) as [l|] eqn:E; [|discriminate].
  rewrite (map_opt_mono _ _ numeric_loose _ _ E).
  destruct (Nat.leb lo (length l) && Nat.leb (length l) hi)%bool; [|discriminate].
  destruct prerel as [p|]; [|auto].
  unfold parse_pre.
  destruct (map_opt (pre_ident true) (split_c "." p)) as [ids|] eqn:E2; [|discriminate].
  rewrite (map_opt_mono _ _ pre_ident_loose _ _ E2). auto.
Qed.

Corollary den_semver_cargo s v : den_semver s = Some v -> den_cargo s = Some v.
Proof. apply parse_strict_loose. Qed.

Print Assumptions TP_ident_cmp.
Print Assumptions TP_prec.
Print Assumptions prec_eq_iff.
Print Assumptions spec_cmp_eq_iff.
Print Assumptions parse_strict_loose.
Print Assumptions sec11_example.
