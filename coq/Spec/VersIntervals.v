(* Spec/VersIntervals.v — the VERS specification's reading of a constraint list, as an
   independent yardstick (definitions only; nothing here refers to the model of the library).

   A VERS range is a list of constraints (comparator, version), sorted by version, versions
   pairwise distinct.  Over an abstract three-way comparison [cmp] on versions:
     - a version equal to a "!=" version is never contained;
     - a list made only of "!=" entries contains every other version;
     - a version equal to an "=" version is contained;
     - otherwise the version is contained iff it lies in one of the intervals obtained by
       reading the remaining comparators (the bounds) in order: an optional leading upper
       bound, then lower/upper pairs, and an optional trailing lower bound. *)
From Coq Require Import List Bool.
Import ListNotations.

Inductive vop' := SGe | SLe | SNe | SGt | SLt | SEq.

Definition is_ne (o : vop') : bool := match o with SNe => true | _ => false end.
Definition is_eqop (o : vop') : bool := match o with SEq => true | _ => false end.
Definition is_lower (o : vop') : bool := match o with SGe | SGt => true | _ => false end.
Definition is_upper (o : vop') : bool := match o with SLe | SLt => true | _ => false end.
Definition is_bound (o : vop') : bool := is_lower o || is_upper o.

Definition is_eq (c : comparison) : bool := match c with Eq => true | _ => false end.

(* [sat o (cmp v a)]: v satisfies the single comparator "o a" *)
Definition sat (o : vop') (c : comparison) : bool :=
  match o with
  | SGe => match c with Lt => false | _ => true end
  | SLe => match c with Gt => false | _ => true end
  | SGt => match c with Gt => true | _ => false end
  | SLt => match c with Lt => true | _ => false end
  | SEq => match c with Eq => true | _ => false end
  | SNe => match c with Eq => false | _ => true end
  end.

Section Spec.
  Variable V : Type.
  Variable cmp : V -> V -> comparison.

  Definition scons := (vop' * V)%type.

  (* lower/upper pairs, then an optional trailing lower bound *)
  Fixpoint in_pairs (bs : list scons) (v : V) : bool :=
    match bs with
    | [] => false
    | (o1, a) :: r1 =>
        match r1 with
        | [] => sat o1 (cmp v a)
        | (o2, b) :: r => (sat o1 (cmp v a) && sat o2 (cmp v b)) || in_pairs r v
        end
    end.

  (* optional leading upper bound, then pairs *)
  Definition in_bounds (bs : list scons) (v : V) : bool :=
    match bs with
    | [] => false
    | (o, a) :: r => if is_upper o then sat o (cmp v a) || in_pairs r v else in_pairs bs v
    end.

  Definition bounds (cs : list scons) : list scons := filter (fun c => is_bound (fst c)) cs.

  Definition spec_contains (cs : list scons) (v : V) : bool :=
    if existsb (fun c => is_ne (fst c) && is_eq (cmp v (snd c))) cs then false
    else if forallb (fun c => is_ne (fst c)) cs then true
    else if existsb (fun c => is_eqop (fst c) && is_eq (cmp v (snd c))) cs then true
    else in_bounds (bounds cs) v.

  (* the shape the specification requires of the bounds: lower and upper bounds alternate *)
  Fixpoint alternate_from (prev_lower : bool) (bs : list scons) : bool :=
    match bs with
    | [] => true
    | (o, _) :: r => if Bool.eqb (is_lower o) prev_lower then false else alternate_from (is_lower o) r
    end.

  Definition bounds_alternate (bs : list scons) : bool :=
    match bs with
    | [] => true
    | (o, _) :: r => alternate_from (is_lower o) r
    end.

  (* sorted by version, versions pairwise distinct *)
  Fixpoint strictly_sorted (cs : list scons) : bool :=
    match cs with
    | [] => true
    | (_, a) :: r =>
        forallb (fun c => match cmp a (snd c) with Lt => true | _ => false end) r && strictly_sorted r
    end.

  Definition well_formed (cs : list scons) : bool :=
    strictly_sorted cs && bounds_alternate (bounds cs).
End Spec.

Arguments in_pairs {V} cmp bs v.
Arguments in_bounds {V} cmp bs v.
Arguments bounds {V} cs.
Arguments spec_contains {V} cmp cs v.
Arguments alternate_from {V} prev_lower bs.
Arguments bounds_alternate {V} bs.
Arguments strictly_sorted {V} cmp cs.
Arguments well_formed {V} cmp cs.
