(* Tie/All.v — every tie file: generated code (Gen/Code/<Eco>.v, tools/gen/code.go) = model.
   Tie/<Eco>.v holds the VERSION-level ties (compareInt, compare, compareQualifiers,
   getQualifierPrecedence, string), Tie/<Eco>Range.v the RANGE-level ties (matches, contains,
   satisfies..., caret, tilde).  A range file may depend on its version file, never the reverse. *)
From Verif.Tie Require Tactics.
(* version level *)
From Verif.Tie Require Apache Mattermost Cran Github Gentoo Hex.
From Verif.Tie Require Npm Cargo Semver Nuget.
From Verif.Tie Require Debian Rpm Alpm.
From Verif.Tie Require Composer.
(* range level *)
From Verif.Tie Require ApacheRange MattermostRange CranRange GithubRange GentooRange HexRange.
From Verif.Tie Require CargoRange NugetRange.
From Verif.Tie Require DebianRange RpmRange AlpmRange.
From Verif.Tie Require MavenRange.
From Verif.Tie Require Pypi Golang Alpine Conan Gem.
From Verif.Tie Require PypiRange GolangRange AlpineRange ConanRange GemRange.
