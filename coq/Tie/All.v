(* Tie/All.v — every tie file: generated code (Gen/Code/<Eco>.v, tools/gen/code.go) = model. *)
From Verif.Tie Require Tactics.
From Verif.Tie Require Apache Mattermost Cran Github Gentoo Hex.
From Verif.Tie Require Npm Cargo Semver Nuget.
From Verif.Tie Require Debian Rpm Alpm.
From Verif.Tie Require Composer Maven.
