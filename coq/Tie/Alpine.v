(* Tie/Alpine.v — the generated translation of pkg/ecosystem/alpine (Gen/Code/Alpine.v) against
   the model (Eco/Alpine), version level.

   Version.Compare itself is outside the translated fragment (it tests v.numeric == nil, and the
   array comparisons are loops), so there is no tie for it: only its loop-free helpers
   compareInt and compareLetters, and String, are tied.

   Representation: the model distinguishes [Valid] (numeric != nil) from [Invalid t]
   (numeric == nil, t = TrimSpace(original)).  The translation does not model nil-ness: a nil
   slice is the empty list.  A Version built by NewVersion has numeric == nil or a non-empty
   numeric slice (parseNumericComponents rejects "" and strings.Split never returns an empty
   slice), so [abs] reads the empty list as nil. *)
From Coq Require Import ZArith List Bool Lia.
From Verif.Base Require Import Bytes GoNum GoOps Ord.
From Verif.Eco Require Import VLayer.
From Verif.Eco.Alpine Require Version.
From Verif.Gen.Code Require Alpine.
From Verif.Tie Require Import Tactics.
Import ListNotations.

Module G := Verif.Gen.Code.Alpine.
Module M := Verif.Eco.Alpine.Version.

Definition abs_numcomp (n : G.numericComponent) : M.numcomp :=
  {| M.nc_value := G.numericComponent_value n; M.nc_orig := G.numericComponent_originalStr n |}.
Definition abs_suffix (s : G.suffix) : M.suffix :=
  {| M.sf_name := G.suffix_name s; M.sf_number := G.suffix_number s |}.

Definition abs (v : G.Version) : M.core :=
  match G.Version_numeric v with
  | [] => M.Invalid (trim_space (G.Version_original v))
  | _ => M.Valid {| M.vc_numeric := map abs_numcomp (G.Version_numeric v);
                    M.vc_letter := G.Version_letter v;
                    M.vc_suffixes := map abs_suffix (G.Version_suffixes v);
                    M.vc_hash := G.Version_hash v;
                    M.vc_build := G.Version_build v |}
  end.

(* the version value of the model: the core and the text String() returns *)
Definition abs_ver (v : G.Version) : M.ver :=
  {| v_core := abs v; v_orig := G.Version_original v |}.

Theorem tie_alpine_compareInt : forall a b, G.compareInt a b = Z_of_cmp (Z.compare a b).
Proof. tie_solve. Qed.
Print Assumptions tie_alpine_compareInt.

Theorem tie_alpine_Version_String : forall v, G.Version_String v = M.show (abs_ver v).
Proof. tie_solve. Qed.
Print Assumptions tie_alpine_Version_String.

Theorem tie_alpine_compareLetters : forall a b, G.compareLetters a b = Z_of_cmp (M.cmp_letters a b).
Proof. tie_solve. Qed.
Print Assumptions tie_alpine_compareLetters.
