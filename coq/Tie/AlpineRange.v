(* Tie/AlpineRange.v — the generated translation of pkg/ecosystem/alpine (Gen/Code/Alpine.v)
   against the model (Eco/Alpine/Range.v, an instance of RangeCore), range level.
   satisfiesConstraint calls NewVersion (a result pair) and is outside the translated fragment:
   Contains is tied generically in it. *)
From Coq Require Import ZArith List Bool Lia.
From Verif.Base Require Import Bytes GoNum GoOps Ord.
From Verif.Eco Require Import RangeCore.
From Verif.Eco.Alpine Require Version Range.
From Verif.Gen.Code Require Alpine.
From Verif.Tie Require Import Tactics.
From Verif.Tie Require Alpine.
Import ListNotations.

Module G := Verif.Gen.Code.Alpine.
Module M := Verif.Eco.Alpine.Version.
Module R := Verif.Eco.Alpine.Range.
Module T := Verif.Tie.Alpine.

(* the constraint and range records, field by field *)
Definition abs_c (c : G.constraint) : RangeCore.constraint :=
  (G.constraint_operator c, G.constraint_version c).
Definition abs_r (r : G.VersionRange) : RangeCore.range :=
  {| r_cs := map abs_c (G.VersionRange_constraints r); r_orig := G.VersionRange_original r |}.

Theorem tie_alpine_VersionRange_String : forall r, G.VersionRange_String r = RangeCore.show (abs_r r).
Proof. tie_solve. Qed.
Print Assumptions tie_alpine_VersionRange_String.

(* Contains: the conjunction of satisfiesConstraint over the constraints; the specification of
   the Section variable satisfiesConstraint is RangeCore.sat_constraint (bound parsed by the
   model's NewVersion, then the switch sem6 on the model's Compare).  The Ecosystem argument
   is an empty struct. *)
Section Contains.
  Variable satisfiesConstraint : G.Version -> G.constraint -> G.Ecosystem -> bool.
  Hypothesis satisfiesConstraint_model : forall v c e,
    satisfiesConstraint v c e = sat_constraint M.ver M.parse M.cmp R.cfg (T.abs_ver v) (abs_c c).

  Theorem tie_alpine_VersionRange_Contains : forall r v,
    G.VersionRange_Contains satisfiesConstraint r v =
    RangeCore.contains M.ver M.parse M.cmp R.cfg (abs_r r) (T.abs_ver v).
  Proof.
    intros r v. unfold G.VersionRange_Contains, RangeCore.contains, abs_r. cbn [r_cs].
    apply forallb_map_eq. intros c. apply satisfiesConstraint_model.
  Qed.
End Contains.
Print Assumptions tie_alpine_VersionRange_Contains.
