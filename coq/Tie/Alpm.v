(* Tie/Alpm.v — VERSION level: the generated translation of pkg/ecosystem/alpm
   (Gen/Code/Alpm.v) against the model (Eco/Alpm/Version).  compareSegmentBySegment (loop) is
   outside the translated fragment: Compare is tied generically in it.  The range-level ties
   are in Tie/AlpmRange.v (which depends on this file, never the other way round). *)
From Coq Require Import ZArith List Bool Lia.
From Verif.Base Require Import Bytes GoNum GoOps Ord.
From Verif.Eco.Alpm Require Version.
From Verif.Gen.Code Require Alpm.
From Verif.Tie Require Import Tactics.
Import ListNotations.

Module G := Verif.Gen.Code.Alpm.
Module M := Verif.Eco.Alpm.Version.

Definition abs (v : G.Version) : M.core :=
  {| M.c_epoch := G.Version_epoch v; M.c_pkgver := G.Version_pkgver v; M.c_pkgrel := G.Version_pkgrel v;
     M.c_has_pkgrel := G.Version_hasPkgrel v |}.

Theorem tie_alpm_string : forall v, G.Version_String v = G.Version_original v.
Proof. tie_solve. Qed.
Print Assumptions tie_alpm_string.

(* the model of the Section variable stays folded *)
Local Opaque M.cmp_segs M.split_to_segments.

Section Compare.
  Variable compareSegmentBySegment : bytes -> bytes -> Z.
  Hypothesis compareSegmentBySegment_model : forall p q, compareSegmentBySegment p q = Z_of_cmp (M.cmp_segs (M.split_to_segments p) (M.split_to_segments q)).

  Theorem tie_alpm_compare : forall a b,
    G.Version_Compare compareSegmentBySegment a b = Z_of_cmp (M.cmp_core (abs a) (abs b)).
  Proof. tie_solve_with compareSegmentBySegment_model. Qed.
End Compare.
Print Assumptions tie_alpm_compare.
