(* Tie/AlpmRange.v — RANGE level: the generated translation of pkg/ecosystem/alpm
   (Gen/Code/Alpm.v) against the model (Eco/Alpm/Range).  The operator switch and Contains are
   tied generically in compareSegmentBySegment (outside the translated fragment).  Reuses [abs]
   and tie_alpm_compare of Tie/Alpm.v. *)
From Coq Require Import ZArith List Bool Lia.
From Verif.Base Require Import Bytes GoNum GoOps Ord.
From Verif.Eco Require Import RangeCore.
From Verif.Eco.Alpm Require Version Range.
From Verif.Gen.Code Require Alpm.
From Verif.Tie Require Import Tactics.
From Verif.Tie Require Import Alpm.
Import ListNotations.

(* the model of the Section variable stays folded *)
Local Opaque M.cmp_segs M.split_to_segments.

Section Compare.
  Variable compareSegmentBySegment : bytes -> bytes -> Z.
  Hypothesis compareSegmentBySegment_model : forall p q, compareSegmentBySegment p q = Z_of_cmp (M.cmp_segs (M.split_to_segments p) (M.split_to_segments q)).

  (* range: the operator switch, for any Compare (it stays folded) *)
  Local Opaque G.Version_Compare.
  Theorem tie_alpm_matches : forall c v,
    G.constraint_matches compareSegmentBySegment c v =
    sat (rc_sem Range.cfg (G.constraint_operator c)) (cmp_of_Z (G.Version_Compare compareSegmentBySegment v (G.constraint_version c))).
  Proof. tie_solve. Qed.

  Corollary tie_alpm_matches_model : forall c v,
    G.constraint_matches compareSegmentBySegment c v =
    sat (rc_sem Range.cfg (G.constraint_operator c)) (M.cmp_core (abs v) (abs (G.constraint_version c))).
  Proof.
    intros. rewrite tie_alpm_matches, (tie_alpm_compare _ compareSegmentBySegment_model), cmp_of_Z_of_cmp. reflexivity.
  Qed.

  Theorem tie_alpm_contains : forall r v,
    G.VersionRange_Contains compareSegmentBySegment r v =
    forallb (fun c => sat (rc_sem Range.cfg (G.constraint_operator c)) (M.cmp_core (abs v) (abs (G.constraint_version c))))
            (G.VersionRange_constraints r).
  Proof.
    intros. unfold G.VersionRange_Contains. apply forallb_ext_in. intros c _. apply tie_alpm_matches_model.
  Qed.
End Compare.
Print Assumptions tie_alpm_matches.
Print Assumptions tie_alpm_matches_model.
Print Assumptions tie_alpm_contains.
