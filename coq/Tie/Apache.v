(* Tie/Apache.v — VERSION level: the generated translation of pkg/ecosystem/apache
   (Gen/Code/Apache.v) equals the hand-written model (Eco/Apache/Version).  The range-level ties are
   in Tie/ApacheRange.v (which depends on this file, never the other way round). *)
From Coq Require Import ZArith List Bool Lia.
From Verif.Base Require Import Bytes GoNum GoOps Ord.
From Verif.Eco.Apache Require Version.
From Verif.Gen.Code Require Apache.
From Verif.Tie Require Import Tactics.
Import ListNotations.

Module G := Verif.Gen.Code.Apache.
Module M := Verif.Eco.Apache.Version.

(* abstraction: the Go struct without the original text *)
Definition abs (v : G.Version) : M.core :=
  {| M.major := G.Version_major v; M.minor := G.Version_minor v; M.patch := G.Version_patch v;
     M.qualifier := G.Version_qualifier v; M.number := G.Version_number v |}.

Theorem tie_apache_compareInt : forall a b, G.compareInt a b = Z_of_cmp (Z.compare a b).
Proof. tie_solve. Qed.
Print Assumptions tie_apache_compareInt.

Theorem tie_apache_getQualifierPrecedence : forall q, G.getQualifierPrecedence q = M.qualifier_precedence q.
Proof. tie_solve. Qed.
Print Assumptions tie_apache_getQualifierPrecedence.

Theorem tie_apache_compare : forall a b, G.Version_Compare a b = Z_of_cmp (M.cmp_core (abs a) (abs b)).
Proof. tie_solve. Qed.
Print Assumptions tie_apache_compare.

Theorem tie_apache_string : forall v, G.Version_String v = G.Version_original v.
Proof. tie_solve. Qed.
Print Assumptions tie_apache_string.
