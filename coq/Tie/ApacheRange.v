(* Tie/ApacheRange.v — RANGE level: the generated translation of pkg/ecosystem/apache
   (Gen/Code/Apache.v) equals the hand-written model (Eco/Apache/Range).  Reuses [abs] and
   tie_apache_compare of Tie/Apache.v. *)
From Coq Require Import ZArith List Bool Lia.
From Verif.Base Require Import Bytes GoNum GoOps Ord.
From Verif.Eco Require Import RangeCore.
From Verif.Eco.Apache Require Version Range.
From Verif.Gen.Code Require Apache.
From Verif.Tie Require Import Tactics.
From Verif.Tie Require Import Apache.
Import ListNotations.

(* range: the operator switch is the model's sem5/sat on the sign of Compare (any Compare: it
   stays folded) *)
Local Opaque G.Version_Compare.
Theorem tie_apache_matches : forall c v,
  G.constraint_matches c v =
  sat (rc_sem Range.cfg (G.constraint_operator c)) (cmp_of_Z (G.Version_Compare v (G.constraint_version c))).
Proof. tie_solve. Qed.
Print Assumptions tie_apache_matches.

(* ... hence the model's comparison of the abstracted versions *)
Corollary tie_apache_matches_model : forall c v,
  G.constraint_matches c v =
  sat (rc_sem Range.cfg (G.constraint_operator c)) (M.cmp_core (abs v) (abs (G.constraint_version c))).
Proof. intros. rewrite tie_apache_matches, tie_apache_compare, cmp_of_Z_of_cmp. reflexivity. Qed.
Print Assumptions tie_apache_matches_model.

(* Contains: conjunction over the constraints, as RangeCore.contains *)
Theorem tie_apache_contains : forall r v,
  G.VersionRange_Contains r v =
  forallb (fun c => sat (rc_sem Range.cfg (G.constraint_operator c)) (M.cmp_core (abs v) (abs (G.constraint_version c))))
          (G.VersionRange_constraints r).
Proof.
  intros. unfold G.VersionRange_Contains. apply forallb_ext_in. intros c _. apply tie_apache_matches_model.
Qed.
Print Assumptions tie_apache_contains.
