(* Tie/Cargo.v — VERSION level: the generated translation of pkg/ecosystem/cargo
   (Gen/Code/Cargo.v) against the model (Eco/Cargo/Version).  comparePrereleaseIdentifiers
   (strings.Split + loop) is outside the translated fragment: Compare is tied generically in it.
   The range-level ties are in Tie/CargoRange.v (which depends on this file, never the other
   way round). *)
From Coq Require Import ZArith List Bool Lia.
From Verif.Base Require Import Bytes GoNum GoOps Ord.
From Verif.Eco.Cargo Require Version.
From Verif.Gen.Code Require Cargo.
From Verif.Tie Require Import Tactics.
Import ListNotations.

Module G := Verif.Gen.Code.Cargo.
Module M := Verif.Eco.Cargo.Version.

Definition abs (v : G.Version) : M.core :=
  {| M.major := G.Version_major v; M.minor := G.Version_minor v; M.patch := G.Version_patch v;
     M.prerelease := G.Version_prerelease v; M.build := G.Version_build v |}.

Theorem tie_cargo_compareInt : forall a b, G.compareInt a b = Z_of_cmp (Z.compare a b).
Proof. tie_solve. Qed.
Print Assumptions tie_cargo_compareInt.

Theorem tie_cargo_string : forall v, G.Version_String v = G.Version_original v.
Proof. tie_solve. Qed.
Print Assumptions tie_cargo_string.

(* the identifier-list comparison and the splitting stay folded: they specify the Section
   variable comparePrereleaseIdentifiers *)
Local Opaque M.idents_cmp split_c.

Section Compare.
  Variable cpi : bytes -> bytes -> Z.
  Hypothesis cpi_model : forall p q,
    cpi p q = Z_of_cmp (M.idents_cmp (split_c "."%char p) (split_c "."%char q)).

  Theorem tie_cargo_compare : forall a b,
    G.Version_Compare cpi a b = Z_of_cmp (M.cmp_core (abs a) (abs b)).
  Proof. tie_solve_with cpi_model. Qed.
End Compare.
Print Assumptions tie_cargo_compare.
