(* Tie/CargoRange.v — RANGE level: the generated translation of pkg/ecosystem/cargo
   (Gen/Code/Cargo.v) against the model (Eco/Cargo/Range).  comparePrereleaseIdentifiers
   (strings.Split + loop) is outside the translated fragment: the range predicates are tied
   generically in it.  Reuses [abs] of Tie/Cargo.v. *)
From Coq Require Import ZArith List Bool Lia.
From Verif.Base Require Import Bytes GoNum GoOps Ord.
From Verif.Eco Require Import RangeCore.
From Verif.Eco.Cargo Require Version Range.
From Verif.Gen.Code Require Cargo.
From Verif.Tie Require Import Tactics.
From Verif.Tie Require Import Cargo.
Import ListNotations.

Module R := Verif.Eco.Cargo.Range.

(* the identifier-list comparison and the splitting stay folded: they specify the Section
   variable comparePrereleaseIdentifiers *)
Local Opaque M.idents_cmp split_c.

Section Compare.
  Variable cpi : bytes -> bytes -> Z.
  Hypothesis cpi_model : forall p q,
    cpi p q = Z_of_cmp (M.idents_cmp (split_c "."%char p) (split_c "."%char q)).

  (* range predicates, for any Compare (it stays folded) *)
  Local Opaque G.Version_Compare.

  Theorem tie_cargo_caret : forall v c p,
    G.satisfiesCaretConstraint cpi v c (Z.of_nat p) =
    match cmp_of_Z (G.Version_Compare cpi v c) with
    | Lt => false
    | _ => R.caret_fields p (abs v) (abs c)
    end.
  Proof. tie_solve. Qed.

  Theorem tie_cargo_tilde : forall v c p,
    G.satisfiesTildeConstraint cpi v c (Z.of_nat p) =
    match cmp_of_Z (G.Version_Compare cpi v c) with
    | Lt => false
    | _ => R.tilde_fields p (abs v) (abs c)
    end.
  Proof. tie_solve. Qed.

  (* the comparator cases of satisfiesConstraint *)
  Local Opaque G.satisfiesCaretConstraint G.satisfiesTildeConstraint.
  Theorem tie_cargo_satisfiesConstraint : forall v c,
    G.satisfiesConstraint cpi v c =
    if beq (G.constraint_operator c) $"^" then
      G.satisfiesCaretConstraint cpi v (G.constraint_version c) (G.constraint_precision c)
    else if beq (G.constraint_operator c) $"~" then
      G.satisfiesTildeConstraint cpi v (G.constraint_version c) (G.constraint_precision c)
    else sat (sem6 (G.constraint_operator c)) (cmp_of_Z (G.Version_Compare cpi v (G.constraint_version c))).
  Proof. tie_solve. Qed.
End Compare.
Print Assumptions tie_cargo_caret.
Print Assumptions tie_cargo_tilde.
Print Assumptions tie_cargo_satisfiesConstraint.
