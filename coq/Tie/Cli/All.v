(* Tie/Cli/All.v — the generated CLI (Gen/Parse/CmdCore.v: the fourth translation pass over /repo/cmd)
   against Cli/Model.v:
   Common    range loops as folds ([range_while]), the outcome relation [shown], the hypotheses [lib_ties] /
             [sort_ok] that tie one ecosystem bundle to the library record, TrimSpace of the sort line
   Spec      compare, contains, sort, versContains, runEcosystem, runVers: each equal to [Done] of a pure
             function for fuel above the number of arguments (no panic, linear fuel)
   Cases     runEcosystem case by case from the source: status 1 + diagnostic on wrong arity / unknown command /
             rejected argument, status 0 + exactly one line otherwise
   Ties      the pure functions against cmd_compare / cmd_contains / cmd_sort / run_ecosystem / run_vers
   Run       run over an arbitrary table of bundles: routing, no panic, the tie to Cli.Model.run
   RunInst   the generated run IS that function at the table of the twenty bundles (written by
             gen_runinst.py); routing per key; the tie to Top.model_cli
   Sanity    the hypotheses are satisfiable (a toy ecosystem) *)
From Verif.Tie.Cli Require Common Spec Cases Ties Run RunInst Sanity.
