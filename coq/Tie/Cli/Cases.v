(* Tie/Cli/Cases.v — what runEcosystem does, case by case, read off the SOURCE (the pure form
   [runEcosystem_spec] of Tie/Cli/Spec.v, equal to the generated function by [runEcosystem_eq]); no model
   and no hypothesis on the bundle.

     runEcosystem_cases             command dispatch and arity checks: exit status 1 with a diagnostic on a
                                    missing / unknown command, a wrong number of arguments, an argument that
                                    NewVersion / NewVersionRange rejects; exit status 0 with the result line
                                    otherwise ([eco_outcome]: one constructor per case)
     runEcosystem_status            the exit status is 0 or 1
     runEcosystem_success_one_line  on success the text contains no newline byte, whatever the ecosystem
                                    prints in String(): `%q` escapes it (so stdout is exactly one line) *)
From Coq Require Import ZArith NArith List Ascii Bool Lia.
From Verif.Base Require Import Bytes GoNum Imp ImpFacts ImpErr ImpCore BytesFacts.
From Verif.Cli Require Import Model Facts.
From Verif.Tie Require Import Tactics.
From Verif.Tie.Cli Require Import Common Spec.
Import ListNotations.
Local Open Scope Z_scope.

(* ---------- %d never prints a newline ---------- *)

Lemma digit_no_nl (n : N) : code (chr (48 + n mod 10)) <> 10%N.
Proof.
  assert (H : (n mod 10 < 10)%N) by (apply N.mod_upper_bound; discriminate).
  unfold code, chr. generalize dependent (n mod 10)%N. intros d H.
  rewrite N_ascii_embedding; lia.
Qed.

Lemma dec_fuel_no_nl fuel n acc : no_nl acc -> no_nl (dec_fuel fuel n acc).
Proof.
  revert n acc. induction fuel as [|k IH]; intros n acc H; cbn [dec_fuel]; [exact H|].
  destruct (n <? 10)%N.
  - constructor; [apply digit_no_nl | exact H].
  - apply IH. constructor; [apply digit_no_nl | exact H].
Qed.

Lemma dec_z_no_nl z : no_nl (dec_z z).
Proof.
  unfold dec_z, dec. destruct z; try (apply dec_fuel_no_nl; constructor).
  constructor; [vm_compute; discriminate | apply dec_fuel_no_nl; constructor].
Qed.

Section Cases.
  Variable V VR : Type.
  Variable E_Name : bytes.
  Variable E_NewVersion : bytes -> option V.
  Variable E_NewVersionRange : bytes -> option VR.
  Variable VR_Contains : VR -> V -> bool.
  Variable V_Compare : V -> V -> Z.
  Variable V_String : V -> bytes.
  Variable sort_by : forall A : Type, (A -> A -> Z) -> list A -> list A.
  Variable e1 e2 e3 : list bytes -> bytes.

  Local Notation spec :=
    (runEcosystem_spec V VR E_Name E_NewVersion E_NewVersionRange VR_Contains V_Compare V_String sort_by e1 e2 e3).

  Inductive eco_outcome (args : list bytes) : bytes * Z -> Prop :=
  | eo_no_command :
      args = [] -> eco_outcome args ($"No command specified for " ++ E_Name, 1)
  | eo_unknown command rest :
      args = command :: rest ->
      command <> $"compare" -> command <> $"sort" -> command <> $"contains" ->
      eco_outcome args ($"Unknown " ++ E_Name ++ $" command: " ++ command, 1)
  | eo_compare_ok a b x y :
      args = [$"compare"; a; b] -> E_NewVersion a = Some x -> E_NewVersion b = Some y ->
      eco_outcome args (dec_z (V_Compare x y), 0)
  | eo_compare_arity rest :
      args = $"compare" :: rest -> length rest <> 2%nat ->
      eco_outcome args (cmd_error $"compare" (e1 args), 1)
  | eo_compare_invalid a b :
      args = [$"compare"; a; b] -> E_NewVersion a = None \/ E_NewVersion b = None ->
      eco_outcome args (cmd_error $"compare" (e1 args), 1)
  | eo_sort_ok rest vs :
      args = $"sort" :: rest -> rest <> [] -> parse_all E_NewVersion rest = Some vs ->
      eco_outcome args (join $" " (map quote (map V_String (sort_by V V_Compare vs))), 0)
  | eo_sort_arity :
      args = [$"sort"] -> eco_outcome args (cmd_error $"sort" (e2 args), 1)
  | eo_sort_invalid rest bad :
      args = $"sort" :: rest -> In bad rest -> E_NewVersion bad = None ->
      eco_outcome args (cmd_error $"sort" (e2 args), 1)
  | eo_contains_ok r v x y :
      args = [$"contains"; r; v] -> E_NewVersionRange r = Some x -> E_NewVersion v = Some y ->
      eco_outcome args (fmt_bool (VR_Contains x y), 0)
  | eo_contains_arity rest :
      args = $"contains" :: rest -> length rest <> 2%nat ->
      eco_outcome args (cmd_error $"contains" (e3 args), 1)
  | eo_contains_invalid r v :
      args = [$"contains"; r; v] -> E_NewVersionRange r = None \/ E_NewVersion v = None ->
      eco_outcome args (cmd_error $"contains" (e3 args), 1).

  Theorem runEcosystem_cases (args : list bytes) : eco_outcome args (spec args).
  Proof.
    unfold runEcosystem_spec. destruct args as [|command rest]; [apply eo_no_command; reflexivity|].
    destruct (beq command $"compare") eqn:B1.
    { apply beq_eq in B1. subst command. unfold compare_spec.
      destruct rest as [|a [|b [|c r]]];
        try (apply (eo_compare_arity _ _ eq_refl); cbn [length]; lia).
      destruct (E_NewVersion a) as [x|] eqn:Ea;
        [|apply (eo_compare_invalid _ a b eq_refl); left; exact Ea].
      destruct (E_NewVersion b) as [y|] eqn:Eb;
        [|apply (eo_compare_invalid _ a b eq_refl); right; exact Eb].
      apply (eo_compare_ok _ a b x y eq_refl Ea Eb). }
    destruct (beq command $"sort") eqn:B2.
    { apply beq_eq in B2. subst command. unfold sort_spec.
      destruct rest as [|a r]; [apply eo_sort_arity; reflexivity|].
      destruct (parse_all E_NewVersion (a :: r)) as [vs|] eqn:P.
      - unfold sort_line. rewrite trim_space_quoted.
        apply (eo_sort_ok _ (a :: r) vs eq_refl); [discriminate | exact P].
      - apply parse_all_None in P. destruct P as (bad & Hb & Pb).
        apply (eo_sort_invalid _ (a :: r) bad eq_refl Hb Pb). }
    destruct (beq command $"contains") eqn:B3.
    { apply beq_eq in B3. subst command. unfold contains_spec.
      destruct rest as [|a [|b [|c r]]];
        try (apply (eo_contains_arity _ _ eq_refl); cbn [length]; lia).
      destruct (E_NewVersionRange a) as [x|] eqn:Ea;
        [|apply (eo_contains_invalid _ a b eq_refl); left; exact Ea].
      destruct (E_NewVersion b) as [y|] eqn:Eb;
        [|apply (eo_contains_invalid _ a b eq_refl); right; exact Eb].
      apply (eo_contains_ok _ a b x y eq_refl Ea Eb). }
    apply beq_false_iff in B1, B2, B3.
    apply (eo_unknown _ command rest eq_refl B1 B2 B3).
  Qed.

  Theorem runEcosystem_status (args : list bytes) : snd (spec args) = 0 \/ snd (spec args) = 1.
  Proof. destruct (runEcosystem_cases args); cbn [snd]; auto. Qed.

  Theorem runEcosystem_success_one_line (args : list bytes) :
    snd (spec args) = 0 -> no_nl (fst (spec args)).
  Proof.
    destruct (runEcosystem_cases args); cbn [snd fst]; intros Hs; try discriminate.
    - apply dec_z_no_nl.
    - apply join_no_nl; [apply no_nl_b_ok; reflexivity|].
      apply Forall_forall. intros q Hq. apply in_map_iff in Hq. destruct Hq as (s & <- & _).
      apply quote_no_nl.
    - apply bool_line_no_nl.
  Qed.

  (* a failure prints a diagnostic: the text is never empty *)
  Theorem runEcosystem_failure_diagnostic (args : list bytes) :
    snd (spec args) = 1 -> fst (spec args) <> [].
  Proof.
    destruct (runEcosystem_cases args); cbn [snd fst]; intros Hs; try discriminate;
      unfold cmd_error; discriminate.
  Qed.
End Cases.

Print Assumptions runEcosystem_cases.
Print Assumptions runEcosystem_status.
Print Assumptions runEcosystem_success_one_line.
Print Assumptions runEcosystem_failure_diagnostic.
