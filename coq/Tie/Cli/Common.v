(* Tie/Cli/Common.v — shared by the theorems about the generated CLI (Gen/Parse/CmdCore.v: the fourth
   translation pass over /repo/cmd) and their ties to Cli/Model.v.

   * small facts about the checked primitives on a list whose head is known ([idx_cons_0] ..);
   * [range_while]: a generated `for _, x := range xs { .. }` loop with state (cursor, accumulator) and
     an optional early `return` computes the fold [frun g xs acc]; fuel above [length xs] is enough;
   * [shown]: how an outcome of the model ([Ok line] / [Fail prefix]) is related to the pair
     (text, exit status) the Go code produces: the error texts (`%v` of an error) are ORACLES of the
     translation, so a failing command is tied on its exit status and on the part of the diagnostic
     that cmd/ fixes ("Error running command '<cmd>': "), a success on the exact line;
   * [lib_ties]: the hypotheses that tie one ecosystem bundle (the Section variables of the generic
     functions) to the library-layer record [lib_ops] of the model;
   * `strings.TrimSpace(result)` after `result += fmt.Sprintf("%q ", v)` is [join " " (map quote out)]. *)
From Coq Require Import ZArith List Ascii Bool Lia Permutation Sorted.
From Verif.Base Require Import Bytes GoNum Ord Sorting Imp ImpFacts ImpErr ImpCore BytesFacts.
From Verif.Vers Require Import Model.
From Verif.Cli Require Import Model.
From Verif.Tie Require Import Tactics.
From Verif.Tie.Loops Require Import Common.
Import ListNotations.
Local Open Scope Z_scope.

(* ---------- the checked primitives on a list whose first elements are known ---------- *)

Lemma idx_cons_0 {A} (a : A) l : idx (a :: l) 0 = Done a.
Proof.
  apply idx_Done. split; [|reflexivity]. unfold len. cbn [length]. lia.
Qed.

Lemma idx_cons_1 {A} (a b : A) l : idx (a :: b :: l) 1 = Done b.
Proof.
  apply idx_Done. split; [|reflexivity]. unfold len. cbn [length]. lia.
Qed.

Lemma slice_from_cons_1 {A} (a : A) l : slice_from (a :: l) 1 = Done l.
Proof.
  rewrite slice_from_Done by (cbn [length]; lia). reflexivity.
Qed.

Lemma len_eqb_0 {A} (l : list A) : Z.eqb (Z.of_nat (length l)) 0 = match l with [] => true | _ => false end.
Proof. destruct l; [reflexivity|]. apply Z.eqb_neq. cbn [length]. lia. Qed.

Lemma len_eqb_2 {A} (l : list A) :
  Z.eqb (Z.of_nat (length l)) 2 = match l with [_; _] => true | _ => false end.
Proof.
  destruct l as [|a [|b [|c r]]]; try reflexivity.
  apply Z.eqb_neq. cbn [length]. lia.
Qed.

(* ---------- range loops ---------- *)

(* what the loop computes: [inl r] is `return r` inside the loop *)
Fixpoint frun {A Acc R : Type} (g : A -> Acc -> R + Acc) (l : list A) (acc : Acc) : R + Acc :=
  match l with
  | [] => inr acc
  | x :: t => match g x acc with inl r => inl r | inr acc' => frun g t acc' end
  end.

Section RangeWhile.
  Context {A Acc R : Type}.
  Variable xs : list A.
  Variable g : A -> Acc -> R + Acc.
  Variable body : Z * Acc -> res (step (Z * Acc) R).

  Hypothesis body_eq : forall k acc,
    body (k, acc) =
    if Z.ltb k (Z.of_nat (length xs)) then
      bind (idx xs k) (fun x =>
        match g x acc with
        | inl r => Done (Ret r)
        | inr acc' => Done (Next (wrap64 (k + 1), acc'))
        end)
    else Done (Break (k, acc)).
  Hypothesis F : fits xs.

  Lemma range_while_aux : forall suf pre fuel acc,
    xs = pre ++ suf -> (length suf < fuel)%nat ->
    while fuel body (Z.of_nat (length pre), acc) =
    Done (match frun g suf acc with
          | inl r => Returned r
          | inr acc' => Fell (Z.of_nat (length xs), acc')
          end).
  Proof.
    unfold fits in F.
    induction suf as [|x t IH]; intros pre fuel acc E Hf;
      (destruct fuel as [|fuel]; [cbn in Hf; lia|]); cbn [while frun]; rewrite body_eq.
    - rewrite app_nil_r in E. subst pre. rewrite Z.ltb_irrefl. reflexivity.
    - assert (L : length xs = (length pre + S (length t))%nat) by (rewrite E, app_length; reflexivity).
      replace (Z.of_nat (length pre) <? Z.of_nat (length xs)) with true by (symmetry; apply Z.ltb_lt; lia).
      assert (N : idx xs (Z.of_nat (length pre)) = Done x).
      { apply idx_Done. split; [unfold len; lia|].
        rewrite Nat2Z.id, E. rewrite nth_error_app2 by lia. rewrite Nat.sub_diag. reflexivity. }
      rewrite N. cbn [bind].
      destruct (g x acc) as [r|acc'] eqn:G; [reflexivity|].
      rewrite (wrap64_succ (Z.of_nat (length pre)) (Z.of_nat (length xs))) by lia.
      replace (Z.of_nat (length pre) + 1) with (Z.of_nat (length (pre ++ [x])))
        by (rewrite app_length; cbn [length]; lia).
      apply IH.
      + rewrite <- app_assoc. exact E.
      + cbn [length] in Hf. lia.
  Qed.

  Lemma range_while fuel acc :
    (length xs < fuel)%nat ->
    while fuel body (0, acc) =
    Done (match frun g xs acc with
          | inl r => Returned r
          | inr acc' => Fell (Z.of_nat (length xs), acc')
          end).
  Proof. intros Hf. exact (range_while_aux xs [] fuel acc eq_refl Hf). Qed.
End RangeWhile.

(* a loop that only appends *)
Lemma frun_map {A B R} (f : A -> B) (l : list A) (acc : list B) :
  frun (R := R) (fun x acc => inr (acc ++ [f x])) l acc = inr (acc ++ map f l).
Proof.
  revert acc. induction l as [|x t IH]; intros acc; cbn [frun map].
  - rewrite app_nil_r. reflexivity.
  - rewrite IH, <- app_assoc. reflexivity.
Qed.

Lemma frun_concat {A R} (f : A -> bytes) (l : list A) (acc : bytes) :
  frun (R := R) (fun x acc => inr (acc ++ f x)) l acc = inr (acc ++ concat (map f l)).
Proof.
  revert acc. induction l as [|x t IH]; intros acc; cbn [frun map concat].
  - rewrite app_nil_r. reflexivity.
  - rewrite IH, <- app_assoc. reflexivity.
Qed.

(* a loop that converts every element or returns at the first failure *)
Fixpoint parse_all {A B} (p : A -> option B) (l : list A) : option (list B) :=
  match l with
  | [] => Some []
  | x :: t => match p x with
              | None => None
              | Some y => match parse_all p t with None => None | Some r => Some (y :: r) end
              end
  end.

Lemma frun_parse_all {A B R} (p : A -> option B) (r0 : R) (l : list A) (acc : list B) :
  frun (fun x acc => match p x with None => inl r0 | Some y => inr (acc ++ [y]) end) l acc =
  match parse_all p l with None => inl r0 | Some ys => inr (acc ++ ys) end.
Proof.
  revert acc. induction l as [|x t IH]; intros acc; cbn [frun parse_all].
  - rewrite app_nil_r. reflexivity.
  - destruct (p x) as [y|]; [|reflexivity]. rewrite IH.
    destruct (parse_all p t); [|reflexivity]. rewrite <- app_assoc. reflexivity.
Qed.

Lemma parse_all_Forall2 {A B} (p : A -> option B) l ys :
  parse_all p l = Some ys <-> Forall2 (fun x y => p x = Some y) l ys.
Proof.
  revert ys. induction l as [|x t IH]; intros ys; cbn [parse_all].
  - split; [intros H; inversion H; constructor | intros H; inversion H; reflexivity].
  - split.
    + destruct (p x) as [y|] eqn:E; [|discriminate].
      destruct (parse_all p t) as [r|]; [|discriminate].
      intros H. inversion H; subst. constructor; [exact E | apply IH; reflexivity].
    + intros H. inversion H as [|? y ? r E H']; subst. rewrite E.
      apply IH in H'. rewrite H'. reflexivity.
Qed.

Lemma Forall2_len {A B} (R : A -> B -> Prop) l1 l2 : Forall2 R l1 l2 -> length l1 = length l2.
Proof. induction 1; cbn [length]; congruence. Qed.

Lemma parse_all_length {A B} (p : A -> option B) l ys : parse_all p l = Some ys -> length ys = length l.
Proof. intros H. apply parse_all_Forall2 in H. symmetry. eapply Forall2_len; exact H. Qed.

Lemma parse_all_None {A B} (p : A -> option B) l :
  parse_all p l = None <-> exists x, In x l /\ p x = None.
Proof.
  split.
  - induction l as [|a l IH]; cbn [parse_all]; [discriminate|].
    destruct (p a) eqn:E.
    + destruct (parse_all p l); [discriminate|]. intros _.
      destruct (IH eq_refl) as (z & Hz & Pz). exists z. split; [right|]; assumption.
    + intros _. exists a. split; [left; reflexivity | exact E].
  - intros (x & Hx & Px). induction l as [|a l IH]; [destruct Hx|]. cbn [parse_all].
    destruct Hx as [->|Hx].
    + rewrite Px. reflexivity.
    + destruct (p a); [|reflexivity]. rewrite (IH Hx). reflexivity.
Qed.

(* ---------- outcomes ---------- *)

(* the model's outcome against (text, exit status) of the Go code *)
Inductive shown : outcome -> bytes * Z -> Prop :=
| shown_ok line : shown (Ok line) (line, 0)
| shown_fixed p : shown (Fail p) (p, 1)
| shown_cmd cmd rest txt :
    shown (Fail ($"Error running command '" ++ cmd ++ $"': " ++ rest))
          ($"Error running command '" ++ cmd ++ $"': " ++ txt, 1).

Lemma shown_exit_code o r : shown o r -> snd r = exit_code o.
Proof. intros H. destruct H; reflexivity. Qed.

Lemma shown_Ok_inv line r : shown (Ok line) r -> r = (line, 0).
Proof. intros H. inversion H; reflexivity. Qed.

Lemma shown_Fail_inv p r : shown (Fail p) r -> snd r = 1.
Proof. intros H. inversion H; reflexivity. Qed.

Lemma shown_success_iff o r : shown o r -> (snd r = 0 <-> exists line, o = Ok line /\ fst r = line).
Proof.
  intros H. destruct H; cbn [snd fst]; split; intros H1; try discriminate; eauto;
    destruct H1 as (l & E & _); discriminate.
Qed.

(* vers.Contains: (bool, error) *)
Definition opt_of_vres (x : vres) : option bool :=
  match x with VTrue => Some true | VFalse => Some false | VErr => None end.

(* ---------- one ecosystem bundle against the library record ---------- *)

Section LibTies.
  Variable V VR : Type.
  Variable E_Name : bytes.
  Variable E_NewVersion : bytes -> option V.
  Variable E_NewVersionRange : bytes -> option VR.
  Variable VR_Contains : VR -> V -> bool.
  Variable V_Compare : V -> V -> Z.
  Variable V_String : V -> bytes.
  Variable sort_by : forall A : Type, (A -> A -> Z) -> list A -> list A.
  Variable L : lib_ops.
  (* the version texts on which the comparison obeys the order laws (all of them: [fun _ => True]; for an
     ecosystem with a known order defect, the class outside the defect) *)
  Variable P : bytes -> Prop.

  Definition parsed_in (x : V) : Prop := exists s, P s /\ E_NewVersion s = Some x.

  Record lib_ties : Prop := {
    t_name : E_Name = l_name L;
    t_vok : forall s, l_vok L s = is_some (E_NewVersion s);
    t_rok : forall s, l_rok L s = is_some (E_NewVersionRange s);
    t_cmp : forall a b x y, E_NewVersion a = Some x -> E_NewVersion b = Some y ->
            V_Compare x y = Z_of_cmp (l_vcmp L a b);
    t_show : forall a x, E_NewVersion a = Some x -> V_String x = l_vshow L a;
    t_contains : forall r v x y, E_NewVersionRange r = Some x -> E_NewVersion v = Some y ->
                 VR_Contains x y = l_rcontains L r v
  }.

  (* slices.SortFunc(versions, V.Compare): all the documentation promises, and only on slices of
     versions parsed from texts in P (on which Compare is a strict weak order) *)
  Record sort_ok : Prop := {
    s_perm : forall l, Permutation (sort_by V V_Compare l) l;
    s_sorted : forall l, Forall parsed_in l -> Sorted (fun a b => V_Compare a b <= 0) (sort_by V V_Compare l)
  }.
End LibTies.

(* ---------- fmt %q: the generated function is the model's ---------- *)

Lemma fmt_quote_c_eq c : fmt_quote_c c = quote_c c.
Proof. reflexivity. Qed.

Lemma fmt_quote_eq s : fmt_quote s = quote s.
Proof. reflexivity. Qed.

(* ---------- TrimSpace of the accumulated line ---------- *)

Definition dq : ascii := """"%char.

Lemma quote_shape s : exists t, quote s = dq :: t ++ [dq].
Proof. unfold quote. eauto. Qed.

Lemma join_quote_shape (l : list bytes) :
  l <> [] -> exists t, join $" " (map quote l) = dq :: t ++ [dq].
Proof.
  induction l as [|x l IH]; [congruence|]. intros _.
  destruct (quote_shape x) as (t & E).
  destruct l as [|y l].
  - cbn [map join]. eauto.
  - destruct IH as (t' & E'); [discriminate|].
    change (join $" " (map quote (x :: y :: l))) with (quote x ++ $" " ++ join $" " (map quote (y :: l))).
    rewrite E, E'. exists (t ++ [dq] ++ $" " ++ dq :: t').
    cbn [app]. f_equal. rewrite <- !app_assoc. reflexivity.
Qed.

Lemma concat_quote_join (l : list bytes) :
  l <> [] ->
  concat (map (fun v => quote v ++ $" ") l) = join $" " (map quote l) ++ $" ".
Proof.
  induction l as [|x l IH]; [congruence|]. intros _.
  destruct l as [|y l].
  - cbn [map concat join]. rewrite app_nil_r. reflexivity.
  - change (concat (map (fun v => quote v ++ $" ") (x :: y :: l)))
      with ((quote x ++ $" ") ++ concat (map (fun v => quote v ++ $" ") (y :: l))).
    rewrite IH by discriminate.
    change (join $" " (map quote (x :: y :: l))) with (quote x ++ $" " ++ join $" " (map quote (y :: l))).
    rewrite <- !app_assoc. reflexivity.
Qed.

Lemma trim_right_snoc_nonspace s c : is_space c = false -> trim_right (s ++ [c]) = s ++ [c].
Proof.
  intros H. unfold trim_right. rewrite rev_app_distr. cbn [rev app drop_while]. rewrite H.
  cbn [rev]. rewrite rev_involutive. reflexivity.
Qed.

Lemma trim_space_dq t : trim_space (dq :: t ++ [dq]) = dq :: t ++ [dq].
Proof.
  unfold trim_space. rewrite trim_left_of_nonspace by reflexivity.
  change (dq :: t ++ [dq]) with ((dq :: t) ++ [dq]).
  apply trim_right_snoc_nonspace. reflexivity.
Qed.

Theorem trim_space_quoted (out : list bytes) :
  trim_space (concat (map (fun v => fmt_quote v ++ $" ") out)) = join $" " (map quote out).
Proof.
  destruct out as [|x l]; [reflexivity|].
  change (fun v => fmt_quote v ++ $" ") with (fun v => quote v ++ $" ").
  rewrite concat_quote_join by discriminate.
  destruct (join_quote_shape (x :: l)) as (t & E); [discriminate|]. rewrite E.
  pose proof (trim_space_pad [] (dq :: t ++ [dq]) $" " eq_refl eq_refl) as H.
  cbn [app] in H. cbn [app]. rewrite H. apply trim_space_dq.
Qed.

Print Assumptions range_while.
Print Assumptions trim_space_quoted.
