(* Tie/Cli/Run.v — cmd.run (Gen/Parse/CmdCore.v, [run]): the dispatch by spec name / ecosystem name
   through the two association lists, for an ARBITRARY table of ecosystem bundles.

   [bundle]: the Section variables of the generic functions for one ecosystem, as a record (the types
   V and VR are fields).  [run_src bundles]: what the generated [run] does, written over a table
   [bundles : list (bytes * bundle)] (key of ecosystemToRun -> the bundle of the ecosystem literal handed
   to runEcosystem under that key).  Tie/Cli/RunInst.v proves that the generated [run] IS [run_src] at
   the table of the twenty bundles (by conversion: the routing is read off the generated term), so
   everything below is a statement about the source.

     run_src_routing       `run w (name :: rest)` with [lookup name bundles = Some B] runs
                           [runEcosystem] on EXACTLY the bundle B, and prints its text followed by "\n"
     run_src_eq            no panic + termination for fuel above the number of arguments: [run_src] is
                           [Done (w ++ text ++ "\n", status)] with (text, status) = [run_spec ..]
     run_src_tie           under [lib_ties B (lib (b_Name B))] for every entry, a table whose
                           (key, Name) pairs are the generated registry [cli_registry], and
                           vers.Contains tied to [vers]:  [shown (Cli.Model.run cli_specs cli_registry
                           lib vers args) (text, status)] *)
From Coq Require Import ZArith List Ascii Bool Lia Permutation Sorted.
From Verif.Base Require Import Bytes GoNum Ord Sorting Imp ImpFacts ImpErr ImpCore BytesFacts.
From Verif.Vers Require Import Model.
From Verif.Cli Require Import Model Facts.
From Verif.Gen Require Import Registry.
From Verif.Tie Require Import Tactics.
From Verif.Tie.Loops Require Import Common.
From Verif.Tie.Cli Require Import Common Spec Ties.
Import ListNotations.
Local Open Scope Z_scope.
Local Open Scope imp_scope.

Record bundle : Type := {
  b_V : Type;
  b_VR : Type;
  b_Name : bytes;
  b_NewVersion : bytes -> option b_V;
  b_NewVersionRange : bytes -> option b_VR;
  b_Contains : b_VR -> b_V -> bool;
  b_Compare : b_V -> b_V -> Z;
  b_String : b_V -> bytes;
  b_e1 : list bytes -> bytes;
  b_e2 : list bytes -> bytes;
  b_e3 : list bytes -> bytes
}.

Lemma lookup_single {A} (k k' : bytes) (v : A) :
  lookup k [(k', v)] = if beq k k' then Some v else None.
Proof. reflexivity. Qed.

Lemma lookup_map_snd {A B} (f : A -> B) (k : bytes) (t : list (bytes * A)) :
  lookup k (map (fun kb => (fst kb, f (snd kb))) t) = option_map f (lookup k t).
Proof.
  induction t as [|[k' v] t IH]; [reflexivity|]. cbn [map lookup fst snd].
  destruct (beq k k'); [reflexivity | exact IH].
Qed.

Section RunSrc.
  Variable vers_Contains : nat -> bytes -> bytes -> res (option bool).
  Variable sort_by : forall A : Type, (A -> A -> Z) -> list A -> list A.
  Variable ev : list bytes -> bytes.

  (* the function value stored in ecosystemToRun *)
  Definition run_bundle (B : bundle) : nat -> list bytes -> res (bytes * Z) :=
    fun (fuel : nat) (args_ : list bytes) =>
      r1 <- G.runEcosystem (b_V B) (b_VR B) (b_Name B) (b_NewVersion B) (b_NewVersionRange B)
                           (b_Contains B) (b_Compare B) (b_String B) sort_by (b_e1 B) (b_e2 B) (b_e3 B)
                           fuel args_ ;;
      Done r1.

  (* fmt.Fprintf(w, "%s\n", out); return code *)
  Definition emit (w : bytes) (r : bytes * Z) : res (bytes * Z) :=
    let '(out, code) := r in Done (w ++ (out ++ [chr 10]), code).

  Definition run_src (bundles : list (bytes * bundle)) (fuel : nat) (w : bytes) (args : list bytes)
    : res (bytes * Z) :=
    match args with
    | [] => Done (w ++ ($"Usage: univers <ecosystem|spec> <command> [args]" ++ [chr 10]), 1)
    | name :: rest =>
        if beq name $"vers" then r <- G.runVers vers_Contains ev fuel rest ;; emit w r
        else
          match lookup name bundles with
          | Some B => r <- run_bundle B fuel rest ;; emit w r
          | None => Done (w ++ (($"Unknown ecosystem: " ++ name) ++ [chr 10]), 1)
          end
    end.

  (* ---------- routing ---------- *)

  Theorem run_src_routing bundles fuel w name rest B :
    name <> $"vers" -> lookup name bundles = Some B ->
    run_src bundles fuel w (name :: rest) =
    (r <- G.runEcosystem (b_V B) (b_VR B) (b_Name B) (b_NewVersion B) (b_NewVersionRange B)
                         (b_Contains B) (b_Compare B) (b_String B) sort_by (b_e1 B) (b_e2 B) (b_e3 B)
                         fuel rest ;;
     Done (w ++ (fst r ++ [chr 10]), snd r)).
  Proof.
    intros Nv Lk. unfold run_src. apply beq_false_iff in Nv. rewrite Nv, Lk.
    unfold run_bundle. rewrite bind_assoc.
    destruct (G.runEcosystem _ _ _ _ _ _ _ _ _ _ _ _ _ _) as [[out code]| |]; reflexivity.
  Qed.

  Theorem run_src_routing_vers bundles fuel w rest :
    run_src bundles fuel w ($"vers" :: rest) =
    (r <- G.runVers vers_Contains ev fuel rest ;; Done (w ++ (fst r ++ [chr 10]), snd r)).
  Proof.
    unfold run_src. change (beq $"vers" $"vers") with true. cbv iota.
    destruct (G.runVers _ _ _ _) as [[out code]| |]; reflexivity.
  Qed.

  Theorem run_src_unknown bundles fuel w name rest :
    name <> $"vers" -> lookup name bundles = None ->
    run_src bundles fuel w (name :: rest) = Done (w ++ (($"Unknown ecosystem: " ++ name) ++ [chr 10]), 1).
  Proof. intros Nv Lk. unfold run_src. apply beq_false_iff in Nv. rewrite Nv, Lk. reflexivity. Qed.

  (* ---------- the pure form: no panic, linear fuel ---------- *)

  Definition bundle_spec (B : bundle) (args : list bytes) : bytes * Z :=
    runEcosystem_spec (b_V B) (b_VR B) (b_Name B) (b_NewVersion B) (b_NewVersionRange B)
                      (b_Contains B) (b_Compare B) (b_String B) sort_by (b_e1 B) (b_e2 B) (b_e3 B) args.

  Definition run_spec (vc : bytes -> bytes -> option bool) (bundles : list (bytes * bundle))
             (args : list bytes) : bytes * Z :=
    match args with
    | [] => ($"Usage: univers <ecosystem|spec> <command> [args]", 1)
    | name :: rest =>
        if beq name $"vers" then runVers_spec ev vc rest
        else match lookup name bundles with
             | Some B => bundle_spec B rest
             | None => ($"Unknown ecosystem: " ++ name, 1)
             end
    end.

  Definition bundle_sort_perm (B : bundle) : Prop :=
    forall l, Permutation (sort_by (b_V B) (b_Compare B) l) l.

  Theorem run_src_eq vc bundles fuel w args :
    (forall k B, In (k, B) bundles -> bundle_sort_perm B) ->
    (forall c r v, args = [$"vers"; c; r; v] -> vers_Contains fuel r v = Done (vc r v)) ->
    fits args -> (length args < fuel)%nat ->
    run_src bundles fuel w args =
    Done (w ++ (fst (run_spec vc bundles args) ++ [chr 10]), snd (run_spec vc bundles args)).
  Proof.
    intros SP VC F Hf. unfold run_src, run_spec.
    destruct args as [|name rest]; [reflexivity|].
    assert (Fr : fits rest) by (unfold fits in *; cbn [length] in F; lia).
    assert (Hr : (length rest < fuel)%nat) by (cbn [length] in Hf; lia).
    destruct (beq name $"vers") eqn:Bv.
    { apply beq_eq in Bv. subst name.
      rewrite (runVers_eq vers_Contains ev vc fuel rest).
      - cbn [bind emit]. destruct (runVers_spec ev vc rest); reflexivity.
      - intros c r v E. apply (VC c r v). rewrite E. reflexivity. }
    destruct (lookup name bundles) as [B|] eqn:Lk; [|reflexivity].
    unfold run_bundle. apply lookup_In in Lk.
    rewrite (runEcosystem_eq _ _ _ _ _ _ _ _ _ _ _ _ fuel rest
               (sort_len_of_perm _ _ _ (SP name B Lk)) Fr Hr).
    cbn [bind emit]. unfold bundle_spec. destruct (runEcosystem_spec _ _ _ _ _ _ _ _ _ _ _ _ rest); reflexivity.
  Qed.

  Corollary run_src_no_panic bundles fuel w args :
    (forall k B, In (k, B) bundles -> bundle_sort_perm B) ->
    (forall c r v, args = [$"vers"; c; r; v] -> finished (vers_Contains fuel r v)) ->
    fits args -> (length args < fuel)%nat ->
    finished (run_src bundles fuel w args).
  Proof.
    intros SP VC F Hf. unfold run_src.
    destruct args as [|name rest]; [apply finished_Done|].
    assert (Fr : fits rest) by (unfold fits in *; cbn [length] in F; lia).
    assert (Hr : (length rest < fuel)%nat) by (cbn [length] in Hf; lia).
    destruct (beq name $"vers") eqn:Bv.
    { apply beq_eq in Bv. subst name. apply finished_bind.
      - apply runVers_no_panic. intros c r v E. apply (VC c r v). rewrite E. reflexivity.
      - intros [out code] _. apply finished_Done. }
    destruct (lookup name bundles) as [B|] eqn:Lk; [|apply finished_Done].
    unfold run_bundle. apply lookup_In in Lk.
    rewrite (runEcosystem_eq _ _ _ _ _ _ _ _ _ _ _ _ fuel rest
               (sort_len_of_perm _ _ _ (SP name B Lk)) Fr Hr).
    cbn [bind emit]. destruct (runEcosystem_spec _ _ _ _ _ _ _ _ _ _ _ _ rest). apply finished_Done.
  Qed.

  (* ---------- the tie ---------- *)

  (* [P]: the version texts of this ecosystem on which the order laws hold ([fun _ => True], or the class
     outside a known order defect) *)
  Definition bundle_ties (B : bundle) (L : lib_ops) (P : bytes -> Prop) : Prop :=
    lib_ties (b_V B) (b_VR B) (b_Name B) (b_NewVersion B) (b_NewVersionRange B)
             (b_Contains B) (b_Compare B) (b_String B) L /\
    sort_ok (b_V B) (b_NewVersion B) (b_Compare B) sort_by P /\
    TotalPreorderOn P (l_vcmp L).

  (* the (key, Name) pairs of the table: what tools/gen writes to Gen/Registry.v as cli_registry *)
  Definition registry_of (bundles : list (bytes * bundle)) : list (bytes * bytes) :=
    map (fun kb => (fst kb, b_Name (snd kb))) bundles.

  Variable lib : bytes -> lib_ops.
  Variable vers : bytes -> bytes -> vres.
  Variable good : bytes -> bytes -> Prop.   (* ecosystem name -> the texts on which its order laws hold *)

  (* `<name> sort <rest>`: accepted arguments are in the good class, Compare-equal ones print the same *)
  Definition sort_args_ok (args : list bytes) : Prop :=
    forall name rest, args = name :: $"sort" :: rest ->
      Forall (fun a => l_vok (lib name) a = true) rest ->
      Forall (good name) rest /\ show_respects (lib name) rest.

  Theorem run_spec_tie bundles args :
    registry_of bundles = cli_registry ->
    (forall k B, In (k, B) bundles -> bundle_ties B (lib (b_Name B)) (good (b_Name B))) ->
    sort_args_ok args ->
    shown (Verif.Cli.Model.run cli_specs cli_registry lib vers args)
          (run_spec (fun r v => opt_of_vres (vers r v)) bundles args).
  Proof.
    intros RG BT SR. unfold Verif.Cli.Model.run, run_spec.
    destruct args as [|name rest]; [apply shown_fixed|].
    change (mem name cli_specs) with (beq name $"vers" || false). rewrite orb_false_r.
    destruct (beq name $"vers") eqn:Bv.
    { apply runVers_spec_tie. }
    rewrite <- RG. unfold registry_of. rewrite lookup_map_snd.
    destruct (lookup name bundles) as [B|] eqn:Lk; cbn [option_map]; [|apply shown_fixed].
    pose proof (lookup_In _ _ _ Lk) as HIn.
    destruct (BT name B HIn) as (T & SO & TP).
    (* the key is the Name: the registry is well formed *)
    assert (EN : b_Name B = name).
    { assert (H : lookup name cli_registry = Some (b_Name B)).
      { rewrite <- RG. unfold registry_of. rewrite lookup_map_snd, Lk. reflexivity. }
      apply lookup_registry_iff in H. apply H. }
    unfold bundle_spec.
    apply (runEcosystem_tie _ _ _ _ _ _ _ _ sort_by (b_e1 B) (b_e2 B) (b_e3 B) (lib (b_Name B)) T
                            (good (b_Name B)) SO TP).
    intros rest' E. rewrite EN. unfold sort_hyp. apply (SR name rest'). rewrite E. reflexivity.
  Qed.

  Theorem run_src_tie bundles fuel w args :
    registry_of bundles = cli_registry ->
    (forall k B, In (k, B) bundles -> bundle_ties B (lib (b_Name B)) (good (b_Name B))) ->
    (forall c r v, args = [$"vers"; c; r; v] -> vers_Contains fuel r v = Done (opt_of_vres (vers r v))) ->
    sort_args_ok args ->
    fits args -> (length args < fuel)%nat ->
    exists text status,
      run_src bundles fuel w args = Done (w ++ (text ++ [chr 10]), status) /\
      shown (Verif.Cli.Model.run cli_specs cli_registry lib vers args) (text, status).
  Proof.
    intros RG BT VC SR F Hf.
    exists (fst (run_spec (fun r v => opt_of_vres (vers r v)) bundles args)),
           (snd (run_spec (fun r v => opt_of_vres (vers r v)) bundles args)).
    split.
    - apply run_src_eq; try assumption.
      intros k B HIn. destruct (BT k B HIn) as (_ & SO & _). intros l. apply (s_perm _ _ _ _ _ SO).
    - rewrite <- surjective_pairing. apply run_spec_tie; assumption.
  Qed.
End RunSrc.

Print Assumptions run_src_routing.
Print Assumptions run_src_routing_vers.
Print Assumptions run_src_unknown.
Print Assumptions run_src_eq.
Print Assumptions run_src_no_panic.
Print Assumptions run_spec_tie.
Print Assumptions run_src_tie.
