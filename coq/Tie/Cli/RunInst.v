(* Tie/Cli/RunInst.v — written by Tie/Cli/gen_runinst.py from Gen/Parse/CmdCore.v (re-run it when the set of
   ecosystems of /repo/cmd/cli.go changes).  The generated [run] at its Section variables IS
   [run_src] (Tie/Cli/Run.v) at the table [bundles] of the ecosystem bundles, in the order of the map
   literal ecosystemToRun: [run_is_run_src], by unfolding and conversion only -- which key reaches
   which bundle is read off the generated term.  Then:
     run_routing_<key>   `run w (<key> :: rest)` runs runEcosystem on the bundle of THAT ecosystem
     run_no_panic        finished (run fuel w args) for fits args, length args < fuel, sort_by a permutation,
                         vers.Contains finishing
     run_tie             the CLI tie: under the ties of the twenty bundles to [lib <name>], the Name
                         constants, vers.Contains tied to [vers]: the text written is w ++ text ++ "\n"
                         and [shown (Cli.Model.run cli_specs cli_registry lib vers args) (text, status)]
     run_tie_model_cli   the same for [Top.model_cli] *)
From Coq Require Import ZArith List Ascii Bool Lia Permutation Sorted.
From Verif.Base Require Import Bytes GoNum Ord Sorting Imp ImpFacts ImpErr ImpCore BytesFacts.
From Verif.Vers Require Import Model.
From Verif.Cli Require Import Model Facts.
From Verif.Gen Require Import Registry.
From Verif.Tie Require Import Tactics.
From Verif.Tie.Loops Require Import Common.
From Verif.Tie.Cli Require Import Common Spec Ties Run.
From Verif Require Top.
Import ListNotations.
Local Open Scope Z_scope.

Section RunInst.

Variable alpine_Version : Type.
Variable alpm_Version : Type.
Variable apache_Version : Type.
Variable cargo_Version : Type.
Variable composer_Version : Type.
Variable conan_Version : Type.
Variable cran_Version : Type.
Variable debian_Version : Type.
Variable gem_Version : Type.
Variable gentoo_Version : Type.
Variable github_Version : Type.
Variable golang_Version : Type.
Variable hex_Version : Type.
Variable mattermost_Version : Type.
Variable maven_Version : Type.
Variable npm_Version : Type.
Variable nuget_Version : Type.
Variable pypi_Version : Type.
Variable rpm_Version : Type.
Variable semver_Version : Type.
Variable alpine_VersionRange : Type.
Variable alpm_VersionRange : Type.
Variable apache_VersionRange : Type.
Variable cargo_VersionRange : Type.
Variable composer_VersionRange : Type.
Variable conan_VersionRange : Type.
Variable cran_VersionRange : Type.
Variable debian_VersionRange : Type.
Variable gem_VersionRange : Type.
Variable gentoo_VersionRange : Type.
Variable github_VersionRange : Type.
Variable golang_VersionRange : Type.
Variable hex_VersionRange : Type.
Variable mattermost_VersionRange : Type.
Variable maven_VersionRange : Type.
Variable npm_VersionRange : Type.
Variable nuget_VersionRange : Type.
Variable pypi_VersionRange : Type.
Variable rpm_VersionRange : Type.
Variable semver_VersionRange : Type.
Variable alpine_Ecosystem_Name : bytes.
Variable alpine_Ecosystem_NewVersion : bytes -> option alpine_Version.
Variable alpine_Ecosystem_NewVersionRange : bytes -> option alpine_VersionRange.
Variable alpine_VersionRange_Contains : alpine_VersionRange -> alpine_Version -> bool.
Variable alpine_Version_Compare : alpine_Version -> alpine_Version -> Z.
Variable alpine_Version_String : alpine_Version -> bytes.
Variable alpm_Ecosystem_Name : bytes.
Variable alpm_Ecosystem_NewVersion : bytes -> option alpm_Version.
Variable alpm_Ecosystem_NewVersionRange : bytes -> option alpm_VersionRange.
Variable alpm_VersionRange_Contains : alpm_VersionRange -> alpm_Version -> bool.
Variable alpm_Version_Compare : alpm_Version -> alpm_Version -> Z.
Variable alpm_Version_String : alpm_Version -> bytes.
Variable apache_Ecosystem_Name : bytes.
Variable apache_Ecosystem_NewVersion : bytes -> option apache_Version.
Variable apache_Ecosystem_NewVersionRange : bytes -> option apache_VersionRange.
Variable apache_VersionRange_Contains : apache_VersionRange -> apache_Version -> bool.
Variable apache_Version_Compare : apache_Version -> apache_Version -> Z.
Variable apache_Version_String : apache_Version -> bytes.
Variable cargo_Ecosystem_Name : bytes.
Variable cargo_Ecosystem_NewVersion : bytes -> option cargo_Version.
Variable cargo_Ecosystem_NewVersionRange : bytes -> option cargo_VersionRange.
Variable cargo_VersionRange_Contains : cargo_VersionRange -> cargo_Version -> bool.
Variable cargo_Version_Compare : cargo_Version -> cargo_Version -> Z.
Variable cargo_Version_String : cargo_Version -> bytes.
Variable composer_Ecosystem_Name : bytes.
Variable composer_Ecosystem_NewVersion : bytes -> option composer_Version.
Variable composer_Ecosystem_NewVersionRange : bytes -> option composer_VersionRange.
Variable composer_VersionRange_Contains : composer_VersionRange -> composer_Version -> bool.
Variable composer_Version_Compare : composer_Version -> composer_Version -> Z.
Variable composer_Version_String : composer_Version -> bytes.
Variable conan_Ecosystem_Name : bytes.
Variable conan_Ecosystem_NewVersion : bytes -> option conan_Version.
Variable conan_Ecosystem_NewVersionRange : bytes -> option conan_VersionRange.
Variable conan_VersionRange_Contains : conan_VersionRange -> conan_Version -> bool.
Variable conan_Version_Compare : conan_Version -> conan_Version -> Z.
Variable conan_Version_String : conan_Version -> bytes.
Variable cran_Ecosystem_Name : bytes.
Variable cran_Ecosystem_NewVersion : bytes -> option cran_Version.
Variable cran_Ecosystem_NewVersionRange : bytes -> option cran_VersionRange.
Variable cran_VersionRange_Contains : cran_VersionRange -> cran_Version -> bool.
Variable cran_Version_Compare : cran_Version -> cran_Version -> Z.
Variable cran_Version_String : cran_Version -> bytes.
Variable debian_Ecosystem_Name : bytes.
Variable debian_Ecosystem_NewVersion : bytes -> option debian_Version.
Variable debian_Ecosystem_NewVersionRange : bytes -> option debian_VersionRange.
Variable debian_VersionRange_Contains : debian_VersionRange -> debian_Version -> bool.
Variable debian_Version_Compare : debian_Version -> debian_Version -> Z.
Variable debian_Version_String : debian_Version -> bytes.
Variable gem_Ecosystem_Name : bytes.
Variable gem_Ecosystem_NewVersion : bytes -> option gem_Version.
Variable gem_Ecosystem_NewVersionRange : bytes -> option gem_VersionRange.
Variable gem_VersionRange_Contains : gem_VersionRange -> gem_Version -> bool.
Variable gem_Version_Compare : gem_Version -> gem_Version -> Z.
Variable gem_Version_String : gem_Version -> bytes.
Variable gentoo_Ecosystem_Name : bytes.
Variable gentoo_Ecosystem_NewVersion : bytes -> option gentoo_Version.
Variable gentoo_Ecosystem_NewVersionRange : bytes -> option gentoo_VersionRange.
Variable gentoo_VersionRange_Contains : gentoo_VersionRange -> gentoo_Version -> bool.
Variable gentoo_Version_Compare : gentoo_Version -> gentoo_Version -> Z.
Variable gentoo_Version_String : gentoo_Version -> bytes.
Variable github_Ecosystem_Name : bytes.
Variable github_Ecosystem_NewVersion : bytes -> option github_Version.
Variable github_Ecosystem_NewVersionRange : bytes -> option github_VersionRange.
Variable github_VersionRange_Contains : github_VersionRange -> github_Version -> bool.
Variable github_Version_Compare : github_Version -> github_Version -> Z.
Variable github_Version_String : github_Version -> bytes.
Variable golang_Ecosystem_Name : bytes.
Variable golang_Ecosystem_NewVersion : bytes -> option golang_Version.
Variable golang_Ecosystem_NewVersionRange : bytes -> option golang_VersionRange.
Variable golang_VersionRange_Contains : golang_VersionRange -> golang_Version -> bool.
Variable golang_Version_Compare : golang_Version -> golang_Version -> Z.
Variable golang_Version_String : golang_Version -> bytes.
Variable hex_Ecosystem_Name : bytes.
Variable hex_Ecosystem_NewVersion : bytes -> option hex_Version.
Variable hex_Ecosystem_NewVersionRange : bytes -> option hex_VersionRange.
Variable hex_VersionRange_Contains : hex_VersionRange -> hex_Version -> bool.
Variable hex_Version_Compare : hex_Version -> hex_Version -> Z.
Variable hex_Version_String : hex_Version -> bytes.
Variable mattermost_Ecosystem_Name : bytes.
Variable mattermost_Ecosystem_NewVersion : bytes -> option mattermost_Version.
Variable mattermost_Ecosystem_NewVersionRange : bytes -> option mattermost_VersionRange.
Variable mattermost_VersionRange_Contains : mattermost_VersionRange -> mattermost_Version -> bool.
Variable mattermost_Version_Compare : mattermost_Version -> mattermost_Version -> Z.
Variable mattermost_Version_String : mattermost_Version -> bytes.
Variable maven_Ecosystem_Name : bytes.
Variable maven_Ecosystem_NewVersion : bytes -> option maven_Version.
Variable maven_Ecosystem_NewVersionRange : bytes -> option maven_VersionRange.
Variable maven_VersionRange_Contains : maven_VersionRange -> maven_Version -> bool.
Variable maven_Version_Compare : maven_Version -> maven_Version -> Z.
Variable maven_Version_String : maven_Version -> bytes.
Variable npm_Ecosystem_Name : bytes.
Variable npm_Ecosystem_NewVersion : bytes -> option npm_Version.
Variable npm_Ecosystem_NewVersionRange : bytes -> option npm_VersionRange.
Variable npm_VersionRange_Contains : npm_VersionRange -> npm_Version -> bool.
Variable npm_Version_Compare : npm_Version -> npm_Version -> Z.
Variable npm_Version_String : npm_Version -> bytes.
Variable nuget_Ecosystem_Name : bytes.
Variable nuget_Ecosystem_NewVersion : bytes -> option nuget_Version.
Variable nuget_Ecosystem_NewVersionRange : bytes -> option nuget_VersionRange.
Variable nuget_VersionRange_Contains : nuget_VersionRange -> nuget_Version -> bool.
Variable nuget_Version_Compare : nuget_Version -> nuget_Version -> Z.
Variable nuget_Version_String : nuget_Version -> bytes.
Variable pypi_Ecosystem_Name : bytes.
Variable pypi_Ecosystem_NewVersion : bytes -> option pypi_Version.
Variable pypi_Ecosystem_NewVersionRange : bytes -> option pypi_VersionRange.
Variable pypi_VersionRange_Contains : pypi_VersionRange -> pypi_Version -> bool.
Variable pypi_Version_Compare : pypi_Version -> pypi_Version -> Z.
Variable pypi_Version_String : pypi_Version -> bytes.
Variable rpm_Ecosystem_Name : bytes.
Variable rpm_Ecosystem_NewVersion : bytes -> option rpm_Version.
Variable rpm_Ecosystem_NewVersionRange : bytes -> option rpm_VersionRange.
Variable rpm_VersionRange_Contains : rpm_VersionRange -> rpm_Version -> bool.
Variable rpm_Version_Compare : rpm_Version -> rpm_Version -> Z.
Variable rpm_Version_String : rpm_Version -> bytes.
Variable semver_Ecosystem_Name : bytes.
Variable semver_Ecosystem_NewVersion : bytes -> option semver_Version.
Variable semver_Ecosystem_NewVersionRange : bytes -> option semver_VersionRange.
Variable semver_VersionRange_Contains : semver_VersionRange -> semver_Version -> bool.
Variable semver_Version_Compare : semver_Version -> semver_Version -> Z.
Variable semver_Version_String : semver_Version -> bytes.
Variable vers_Contains : nat -> bytes -> bytes -> res (option bool).
Variable sort_by : forall A : Type, (A -> A -> Z) -> list A -> list A.
Variable alpine_Ecosystem_error_text_runEcosystem_1 : (list bytes) -> bytes.
Variable alpine_Ecosystem_error_text_runEcosystem_2 : (list bytes) -> bytes.
Variable alpine_Ecosystem_error_text_runEcosystem_3 : (list bytes) -> bytes.
Variable alpm_Ecosystem_error_text_runEcosystem_1 : (list bytes) -> bytes.
Variable alpm_Ecosystem_error_text_runEcosystem_2 : (list bytes) -> bytes.
Variable alpm_Ecosystem_error_text_runEcosystem_3 : (list bytes) -> bytes.
Variable apache_Ecosystem_error_text_runEcosystem_1 : (list bytes) -> bytes.
Variable apache_Ecosystem_error_text_runEcosystem_2 : (list bytes) -> bytes.
Variable apache_Ecosystem_error_text_runEcosystem_3 : (list bytes) -> bytes.
Variable cargo_Ecosystem_error_text_runEcosystem_1 : (list bytes) -> bytes.
Variable cargo_Ecosystem_error_text_runEcosystem_2 : (list bytes) -> bytes.
Variable cargo_Ecosystem_error_text_runEcosystem_3 : (list bytes) -> bytes.
Variable composer_Ecosystem_error_text_runEcosystem_1 : (list bytes) -> bytes.
Variable composer_Ecosystem_error_text_runEcosystem_2 : (list bytes) -> bytes.
Variable composer_Ecosystem_error_text_runEcosystem_3 : (list bytes) -> bytes.
Variable conan_Ecosystem_error_text_runEcosystem_1 : (list bytes) -> bytes.
Variable conan_Ecosystem_error_text_runEcosystem_2 : (list bytes) -> bytes.
Variable conan_Ecosystem_error_text_runEcosystem_3 : (list bytes) -> bytes.
Variable cran_Ecosystem_error_text_runEcosystem_1 : (list bytes) -> bytes.
Variable cran_Ecosystem_error_text_runEcosystem_2 : (list bytes) -> bytes.
Variable cran_Ecosystem_error_text_runEcosystem_3 : (list bytes) -> bytes.
Variable debian_Ecosystem_error_text_runEcosystem_1 : (list bytes) -> bytes.
Variable debian_Ecosystem_error_text_runEcosystem_2 : (list bytes) -> bytes.
Variable debian_Ecosystem_error_text_runEcosystem_3 : (list bytes) -> bytes.
Variable gem_Ecosystem_error_text_runEcosystem_1 : (list bytes) -> bytes.
Variable gem_Ecosystem_error_text_runEcosystem_2 : (list bytes) -> bytes.
Variable gem_Ecosystem_error_text_runEcosystem_3 : (list bytes) -> bytes.
Variable gentoo_Ecosystem_error_text_runEcosystem_1 : (list bytes) -> bytes.
Variable gentoo_Ecosystem_error_text_runEcosystem_2 : (list bytes) -> bytes.
Variable gentoo_Ecosystem_error_text_runEcosystem_3 : (list bytes) -> bytes.
Variable github_Ecosystem_error_text_runEcosystem_1 : (list bytes) -> bytes.
Variable github_Ecosystem_error_text_runEcosystem_2 : (list bytes) -> bytes.
Variable github_Ecosystem_error_text_runEcosystem_3 : (list bytes) -> bytes.
Variable golang_Ecosystem_error_text_runEcosystem_1 : (list bytes) -> bytes.
Variable golang_Ecosystem_error_text_runEcosystem_2 : (list bytes) -> bytes.
Variable golang_Ecosystem_error_text_runEcosystem_3 : (list bytes) -> bytes.
Variable hex_Ecosystem_error_text_runEcosystem_1 : (list bytes) -> bytes.
Variable hex_Ecosystem_error_text_runEcosystem_2 : (list bytes) -> bytes.
Variable hex_Ecosystem_error_text_runEcosystem_3 : (list bytes) -> bytes.
Variable mattermost_Ecosystem_error_text_runEcosystem_1 : (list bytes) -> bytes.
Variable mattermost_Ecosystem_error_text_runEcosystem_2 : (list bytes) -> bytes.
Variable mattermost_Ecosystem_error_text_runEcosystem_3 : (list bytes) -> bytes.
Variable maven_Ecosystem_error_text_runEcosystem_1 : (list bytes) -> bytes.
Variable maven_Ecosystem_error_text_runEcosystem_2 : (list bytes) -> bytes.
Variable maven_Ecosystem_error_text_runEcosystem_3 : (list bytes) -> bytes.
Variable npm_Ecosystem_error_text_runEcosystem_1 : (list bytes) -> bytes.
Variable npm_Ecosystem_error_text_runEcosystem_2 : (list bytes) -> bytes.
Variable npm_Ecosystem_error_text_runEcosystem_3 : (list bytes) -> bytes.
Variable nuget_Ecosystem_error_text_runEcosystem_1 : (list bytes) -> bytes.
Variable nuget_Ecosystem_error_text_runEcosystem_2 : (list bytes) -> bytes.
Variable nuget_Ecosystem_error_text_runEcosystem_3 : (list bytes) -> bytes.
Variable pypi_Ecosystem_error_text_runEcosystem_1 : (list bytes) -> bytes.
Variable pypi_Ecosystem_error_text_runEcosystem_2 : (list bytes) -> bytes.
Variable pypi_Ecosystem_error_text_runEcosystem_3 : (list bytes) -> bytes.
Variable rpm_Ecosystem_error_text_runEcosystem_1 : (list bytes) -> bytes.
Variable rpm_Ecosystem_error_text_runEcosystem_2 : (list bytes) -> bytes.
Variable rpm_Ecosystem_error_text_runEcosystem_3 : (list bytes) -> bytes.
Variable semver_Ecosystem_error_text_runEcosystem_1 : (list bytes) -> bytes.
Variable semver_Ecosystem_error_text_runEcosystem_2 : (list bytes) -> bytes.
Variable semver_Ecosystem_error_text_runEcosystem_3 : (list bytes) -> bytes.
Variable error_text_runVers_1 : (list bytes) -> bytes.

Definition alpine_bundle : bundle := {|
  b_V := alpine_Version; b_VR := alpine_VersionRange; b_Name := alpine_Ecosystem_Name;
  b_NewVersion := alpine_Ecosystem_NewVersion; b_NewVersionRange := alpine_Ecosystem_NewVersionRange;
  b_Contains := alpine_VersionRange_Contains; b_Compare := alpine_Version_Compare; b_String := alpine_Version_String;
  b_e1 := alpine_Ecosystem_error_text_runEcosystem_1; b_e2 := alpine_Ecosystem_error_text_runEcosystem_2;
  b_e3 := alpine_Ecosystem_error_text_runEcosystem_3 |}.

Definition alpm_bundle : bundle := {|
  b_V := alpm_Version; b_VR := alpm_VersionRange; b_Name := alpm_Ecosystem_Name;
  b_NewVersion := alpm_Ecosystem_NewVersion; b_NewVersionRange := alpm_Ecosystem_NewVersionRange;
  b_Contains := alpm_VersionRange_Contains; b_Compare := alpm_Version_Compare; b_String := alpm_Version_String;
  b_e1 := alpm_Ecosystem_error_text_runEcosystem_1; b_e2 := alpm_Ecosystem_error_text_runEcosystem_2;
  b_e3 := alpm_Ecosystem_error_text_runEcosystem_3 |}.

Definition apache_bundle : bundle := {|
  b_V := apache_Version; b_VR := apache_VersionRange; b_Name := apache_Ecosystem_Name;
  b_NewVersion := apache_Ecosystem_NewVersion; b_NewVersionRange := apache_Ecosystem_NewVersionRange;
  b_Contains := apache_VersionRange_Contains; b_Compare := apache_Version_Compare; b_String := apache_Version_String;
  b_e1 := apache_Ecosystem_error_text_runEcosystem_1; b_e2 := apache_Ecosystem_error_text_runEcosystem_2;
  b_e3 := apache_Ecosystem_error_text_runEcosystem_3 |}.

Definition cargo_bundle : bundle := {|
  b_V := cargo_Version; b_VR := cargo_VersionRange; b_Name := cargo_Ecosystem_Name;
  b_NewVersion := cargo_Ecosystem_NewVersion; b_NewVersionRange := cargo_Ecosystem_NewVersionRange;
  b_Contains := cargo_VersionRange_Contains; b_Compare := cargo_Version_Compare; b_String := cargo_Version_String;
  b_e1 := cargo_Ecosystem_error_text_runEcosystem_1; b_e2 := cargo_Ecosystem_error_text_runEcosystem_2;
  b_e3 := cargo_Ecosystem_error_text_runEcosystem_3 |}.

Definition conan_bundle : bundle := {|
  b_V := conan_Version; b_VR := conan_VersionRange; b_Name := conan_Ecosystem_Name;
  b_NewVersion := conan_Ecosystem_NewVersion; b_NewVersionRange := conan_Ecosystem_NewVersionRange;
  b_Contains := conan_VersionRange_Contains; b_Compare := conan_Version_Compare; b_String := conan_Version_String;
  b_e1 := conan_Ecosystem_error_text_runEcosystem_1; b_e2 := conan_Ecosystem_error_text_runEcosystem_2;
  b_e3 := conan_Ecosystem_error_text_runEcosystem_3 |}.

Definition composer_bundle : bundle := {|
  b_V := composer_Version; b_VR := composer_VersionRange; b_Name := composer_Ecosystem_Name;
  b_NewVersion := composer_Ecosystem_NewVersion; b_NewVersionRange := composer_Ecosystem_NewVersionRange;
  b_Contains := composer_VersionRange_Contains; b_Compare := composer_Version_Compare; b_String := composer_Version_String;
  b_e1 := composer_Ecosystem_error_text_runEcosystem_1; b_e2 := composer_Ecosystem_error_text_runEcosystem_2;
  b_e3 := composer_Ecosystem_error_text_runEcosystem_3 |}.

Definition cran_bundle : bundle := {|
  b_V := cran_Version; b_VR := cran_VersionRange; b_Name := cran_Ecosystem_Name;
  b_NewVersion := cran_Ecosystem_NewVersion; b_NewVersionRange := cran_Ecosystem_NewVersionRange;
  b_Contains := cran_VersionRange_Contains; b_Compare := cran_Version_Compare; b_String := cran_Version_String;
  b_e1 := cran_Ecosystem_error_text_runEcosystem_1; b_e2 := cran_Ecosystem_error_text_runEcosystem_2;
  b_e3 := cran_Ecosystem_error_text_runEcosystem_3 |}.

Definition debian_bundle : bundle := {|
  b_V := debian_Version; b_VR := debian_VersionRange; b_Name := debian_Ecosystem_Name;
  b_NewVersion := debian_Ecosystem_NewVersion; b_NewVersionRange := debian_Ecosystem_NewVersionRange;
  b_Contains := debian_VersionRange_Contains; b_Compare := debian_Version_Compare; b_String := debian_Version_String;
  b_e1 := debian_Ecosystem_error_text_runEcosystem_1; b_e2 := debian_Ecosystem_error_text_runEcosystem_2;
  b_e3 := debian_Ecosystem_error_text_runEcosystem_3 |}.

Definition gem_bundle : bundle := {|
  b_V := gem_Version; b_VR := gem_VersionRange; b_Name := gem_Ecosystem_Name;
  b_NewVersion := gem_Ecosystem_NewVersion; b_NewVersionRange := gem_Ecosystem_NewVersionRange;
  b_Contains := gem_VersionRange_Contains; b_Compare := gem_Version_Compare; b_String := gem_Version_String;
  b_e1 := gem_Ecosystem_error_text_runEcosystem_1; b_e2 := gem_Ecosystem_error_text_runEcosystem_2;
  b_e3 := gem_Ecosystem_error_text_runEcosystem_3 |}.

Definition gentoo_bundle : bundle := {|
  b_V := gentoo_Version; b_VR := gentoo_VersionRange; b_Name := gentoo_Ecosystem_Name;
  b_NewVersion := gentoo_Ecosystem_NewVersion; b_NewVersionRange := gentoo_Ecosystem_NewVersionRange;
  b_Contains := gentoo_VersionRange_Contains; b_Compare := gentoo_Version_Compare; b_String := gentoo_Version_String;
  b_e1 := gentoo_Ecosystem_error_text_runEcosystem_1; b_e2 := gentoo_Ecosystem_error_text_runEcosystem_2;
  b_e3 := gentoo_Ecosystem_error_text_runEcosystem_3 |}.

Definition github_bundle : bundle := {|
  b_V := github_Version; b_VR := github_VersionRange; b_Name := github_Ecosystem_Name;
  b_NewVersion := github_Ecosystem_NewVersion; b_NewVersionRange := github_Ecosystem_NewVersionRange;
  b_Contains := github_VersionRange_Contains; b_Compare := github_Version_Compare; b_String := github_Version_String;
  b_e1 := github_Ecosystem_error_text_runEcosystem_1; b_e2 := github_Ecosystem_error_text_runEcosystem_2;
  b_e3 := github_Ecosystem_error_text_runEcosystem_3 |}.

Definition golang_bundle : bundle := {|
  b_V := golang_Version; b_VR := golang_VersionRange; b_Name := golang_Ecosystem_Name;
  b_NewVersion := golang_Ecosystem_NewVersion; b_NewVersionRange := golang_Ecosystem_NewVersionRange;
  b_Contains := golang_VersionRange_Contains; b_Compare := golang_Version_Compare; b_String := golang_Version_String;
  b_e1 := golang_Ecosystem_error_text_runEcosystem_1; b_e2 := golang_Ecosystem_error_text_runEcosystem_2;
  b_e3 := golang_Ecosystem_error_text_runEcosystem_3 |}.

Definition hex_bundle : bundle := {|
  b_V := hex_Version; b_VR := hex_VersionRange; b_Name := hex_Ecosystem_Name;
  b_NewVersion := hex_Ecosystem_NewVersion; b_NewVersionRange := hex_Ecosystem_NewVersionRange;
  b_Contains := hex_VersionRange_Contains; b_Compare := hex_Version_Compare; b_String := hex_Version_String;
  b_e1 := hex_Ecosystem_error_text_runEcosystem_1; b_e2 := hex_Ecosystem_error_text_runEcosystem_2;
  b_e3 := hex_Ecosystem_error_text_runEcosystem_3 |}.

Definition mattermost_bundle : bundle := {|
  b_V := mattermost_Version; b_VR := mattermost_VersionRange; b_Name := mattermost_Ecosystem_Name;
  b_NewVersion := mattermost_Ecosystem_NewVersion; b_NewVersionRange := mattermost_Ecosystem_NewVersionRange;
  b_Contains := mattermost_VersionRange_Contains; b_Compare := mattermost_Version_Compare; b_String := mattermost_Version_String;
  b_e1 := mattermost_Ecosystem_error_text_runEcosystem_1; b_e2 := mattermost_Ecosystem_error_text_runEcosystem_2;
  b_e3 := mattermost_Ecosystem_error_text_runEcosystem_3 |}.

Definition maven_bundle : bundle := {|
  b_V := maven_Version; b_VR := maven_VersionRange; b_Name := maven_Ecosystem_Name;
  b_NewVersion := maven_Ecosystem_NewVersion; b_NewVersionRange := maven_Ecosystem_NewVersionRange;
  b_Contains := maven_VersionRange_Contains; b_Compare := maven_Version_Compare; b_String := maven_Version_String;
  b_e1 := maven_Ecosystem_error_text_runEcosystem_1; b_e2 := maven_Ecosystem_error_text_runEcosystem_2;
  b_e3 := maven_Ecosystem_error_text_runEcosystem_3 |}.

Definition npm_bundle : bundle := {|
  b_V := npm_Version; b_VR := npm_VersionRange; b_Name := npm_Ecosystem_Name;
  b_NewVersion := npm_Ecosystem_NewVersion; b_NewVersionRange := npm_Ecosystem_NewVersionRange;
  b_Contains := npm_VersionRange_Contains; b_Compare := npm_Version_Compare; b_String := npm_Version_String;
  b_e1 := npm_Ecosystem_error_text_runEcosystem_1; b_e2 := npm_Ecosystem_error_text_runEcosystem_2;
  b_e3 := npm_Ecosystem_error_text_runEcosystem_3 |}.

Definition nuget_bundle : bundle := {|
  b_V := nuget_Version; b_VR := nuget_VersionRange; b_Name := nuget_Ecosystem_Name;
  b_NewVersion := nuget_Ecosystem_NewVersion; b_NewVersionRange := nuget_Ecosystem_NewVersionRange;
  b_Contains := nuget_VersionRange_Contains; b_Compare := nuget_Version_Compare; b_String := nuget_Version_String;
  b_e1 := nuget_Ecosystem_error_text_runEcosystem_1; b_e2 := nuget_Ecosystem_error_text_runEcosystem_2;
  b_e3 := nuget_Ecosystem_error_text_runEcosystem_3 |}.

Definition pypi_bundle : bundle := {|
  b_V := pypi_Version; b_VR := pypi_VersionRange; b_Name := pypi_Ecosystem_Name;
  b_NewVersion := pypi_Ecosystem_NewVersion; b_NewVersionRange := pypi_Ecosystem_NewVersionRange;
  b_Contains := pypi_VersionRange_Contains; b_Compare := pypi_Version_Compare; b_String := pypi_Version_String;
  b_e1 := pypi_Ecosystem_error_text_runEcosystem_1; b_e2 := pypi_Ecosystem_error_text_runEcosystem_2;
  b_e3 := pypi_Ecosystem_error_text_runEcosystem_3 |}.

Definition rpm_bundle : bundle := {|
  b_V := rpm_Version; b_VR := rpm_VersionRange; b_Name := rpm_Ecosystem_Name;
  b_NewVersion := rpm_Ecosystem_NewVersion; b_NewVersionRange := rpm_Ecosystem_NewVersionRange;
  b_Contains := rpm_VersionRange_Contains; b_Compare := rpm_Version_Compare; b_String := rpm_Version_String;
  b_e1 := rpm_Ecosystem_error_text_runEcosystem_1; b_e2 := rpm_Ecosystem_error_text_runEcosystem_2;
  b_e3 := rpm_Ecosystem_error_text_runEcosystem_3 |}.

Definition semver_bundle : bundle := {|
  b_V := semver_Version; b_VR := semver_VersionRange; b_Name := semver_Ecosystem_Name;
  b_NewVersion := semver_Ecosystem_NewVersion; b_NewVersionRange := semver_Ecosystem_NewVersionRange;
  b_Contains := semver_VersionRange_Contains; b_Compare := semver_Version_Compare; b_String := semver_Version_String;
  b_e1 := semver_Ecosystem_error_text_runEcosystem_1; b_e2 := semver_Ecosystem_error_text_runEcosystem_2;
  b_e3 := semver_Ecosystem_error_text_runEcosystem_3 |}.

Definition bundles : list (bytes * bundle) := [
  ($"alpine", alpine_bundle);
  ($"alpm", alpm_bundle);
  ($"apache", apache_bundle);
  ($"cargo", cargo_bundle);
  ($"conan", conan_bundle);
  ($"composer", composer_bundle);
  ($"cran", cran_bundle);
  ($"debian", debian_bundle);
  ($"gem", gem_bundle);
  ($"gentoo", gentoo_bundle);
  ($"github", github_bundle);
  ($"golang", golang_bundle);
  ($"hex", hex_bundle);
  ($"mattermost", mattermost_bundle);
  ($"maven", maven_bundle);
  ($"npm", npm_bundle);
  ($"nuget", nuget_bundle);
  ($"pypi", pypi_bundle);
  ($"rpm", rpm_bundle);
  ($"semver", semver_bundle)
].

Definition generated_run : nat -> bytes -> list bytes -> res (bytes * Z) :=
  G.run alpine_Version alpm_Version apache_Version cargo_Version composer_Version conan_Version cran_Version debian_Version gem_Version gentoo_Version github_Version golang_Version hex_Version mattermost_Version maven_Version npm_Version nuget_Version pypi_Version rpm_Version semver_Version alpine_VersionRange alpm_VersionRange apache_VersionRange cargo_VersionRange composer_VersionRange conan_VersionRange cran_VersionRange debian_VersionRange gem_VersionRange gentoo_VersionRange github_VersionRange golang_VersionRange hex_VersionRange mattermost_VersionRange maven_VersionRange npm_VersionRange nuget_VersionRange pypi_VersionRange rpm_VersionRange semver_VersionRange alpine_Ecosystem_Name alpine_Ecosystem_NewVersion alpine_Ecosystem_NewVersionRange alpine_VersionRange_Contains alpine_Version_Compare alpine_Version_String alpm_Ecosystem_Name alpm_Ecosystem_NewVersion alpm_Ecosystem_NewVersionRange alpm_VersionRange_Contains alpm_Version_Compare alpm_Version_String apache_Ecosystem_Name apache_Ecosystem_NewVersion apache_Ecosystem_NewVersionRange apache_VersionRange_Contains apache_Version_Compare apache_Version_String cargo_Ecosystem_Name cargo_Ecosystem_NewVersion cargo_Ecosystem_NewVersionRange cargo_VersionRange_Contains cargo_Version_Compare cargo_Version_String composer_Ecosystem_Name composer_Ecosystem_NewVersion composer_Ecosystem_NewVersionRange composer_VersionRange_Contains composer_Version_Compare composer_Version_String conan_Ecosystem_Name conan_Ecosystem_NewVersion conan_Ecosystem_NewVersionRange conan_VersionRange_Contains conan_Version_Compare conan_Version_String cran_Ecosystem_Name cran_Ecosystem_NewVersion cran_Ecosystem_NewVersionRange cran_VersionRange_Contains cran_Version_Compare cran_Version_String debian_Ecosystem_Name debian_Ecosystem_NewVersion debian_Ecosystem_NewVersionRange debian_VersionRange_Contains debian_Version_Compare debian_Version_String gem_Ecosystem_Name gem_Ecosystem_NewVersion gem_Ecosystem_NewVersionRange gem_VersionRange_Contains gem_Version_Compare gem_Version_String gentoo_Ecosystem_Name gentoo_Ecosystem_NewVersion gentoo_Ecosystem_NewVersionRange gentoo_VersionRange_Contains gentoo_Version_Compare gentoo_Version_String github_Ecosystem_Name github_Ecosystem_NewVersion github_Ecosystem_NewVersionRange github_VersionRange_Contains github_Version_Compare github_Version_String golang_Ecosystem_Name golang_Ecosystem_NewVersion golang_Ecosystem_NewVersionRange golang_VersionRange_Contains golang_Version_Compare golang_Version_String hex_Ecosystem_Name hex_Ecosystem_NewVersion hex_Ecosystem_NewVersionRange hex_VersionRange_Contains hex_Version_Compare hex_Version_String mattermost_Ecosystem_Name mattermost_Ecosystem_NewVersion mattermost_Ecosystem_NewVersionRange mattermost_VersionRange_Contains mattermost_Version_Compare mattermost_Version_String maven_Ecosystem_Name maven_Ecosystem_NewVersion maven_Ecosystem_NewVersionRange maven_VersionRange_Contains maven_Version_Compare maven_Version_String npm_Ecosystem_Name npm_Ecosystem_NewVersion npm_Ecosystem_NewVersionRange npm_VersionRange_Contains npm_Version_Compare npm_Version_String nuget_Ecosystem_Name nuget_Ecosystem_NewVersion nuget_Ecosystem_NewVersionRange nuget_VersionRange_Contains nuget_Version_Compare nuget_Version_String pypi_Ecosystem_Name pypi_Ecosystem_NewVersion pypi_Ecosystem_NewVersionRange pypi_VersionRange_Contains pypi_Version_Compare pypi_Version_String rpm_Ecosystem_Name rpm_Ecosystem_NewVersion rpm_Ecosystem_NewVersionRange rpm_VersionRange_Contains rpm_Version_Compare rpm_Version_String semver_Ecosystem_Name semver_Ecosystem_NewVersion semver_Ecosystem_NewVersionRange semver_VersionRange_Contains semver_Version_Compare semver_Version_String vers_Contains sort_by alpine_Ecosystem_error_text_runEcosystem_1 alpine_Ecosystem_error_text_runEcosystem_2 alpine_Ecosystem_error_text_runEcosystem_3 alpm_Ecosystem_error_text_runEcosystem_1 alpm_Ecosystem_error_text_runEcosystem_2 alpm_Ecosystem_error_text_runEcosystem_3 apache_Ecosystem_error_text_runEcosystem_1 apache_Ecosystem_error_text_runEcosystem_2 apache_Ecosystem_error_text_runEcosystem_3 cargo_Ecosystem_error_text_runEcosystem_1 cargo_Ecosystem_error_text_runEcosystem_2 cargo_Ecosystem_error_text_runEcosystem_3 composer_Ecosystem_error_text_runEcosystem_1 composer_Ecosystem_error_text_runEcosystem_2 composer_Ecosystem_error_text_runEcosystem_3 conan_Ecosystem_error_text_runEcosystem_1 conan_Ecosystem_error_text_runEcosystem_2 conan_Ecosystem_error_text_runEcosystem_3 cran_Ecosystem_error_text_runEcosystem_1 cran_Ecosystem_error_text_runEcosystem_2 cran_Ecosystem_error_text_runEcosystem_3 debian_Ecosystem_error_text_runEcosystem_1 debian_Ecosystem_error_text_runEcosystem_2 debian_Ecosystem_error_text_runEcosystem_3 gem_Ecosystem_error_text_runEcosystem_1 gem_Ecosystem_error_text_runEcosystem_2 gem_Ecosystem_error_text_runEcosystem_3 gentoo_Ecosystem_error_text_runEcosystem_1 gentoo_Ecosystem_error_text_runEcosystem_2 gentoo_Ecosystem_error_text_runEcosystem_3 github_Ecosystem_error_text_runEcosystem_1 github_Ecosystem_error_text_runEcosystem_2 github_Ecosystem_error_text_runEcosystem_3 golang_Ecosystem_error_text_runEcosystem_1 golang_Ecosystem_error_text_runEcosystem_2 golang_Ecosystem_error_text_runEcosystem_3 hex_Ecosystem_error_text_runEcosystem_1 hex_Ecosystem_error_text_runEcosystem_2 hex_Ecosystem_error_text_runEcosystem_3 mattermost_Ecosystem_error_text_runEcosystem_1 mattermost_Ecosystem_error_text_runEcosystem_2 mattermost_Ecosystem_error_text_runEcosystem_3 maven_Ecosystem_error_text_runEcosystem_1 maven_Ecosystem_error_text_runEcosystem_2 maven_Ecosystem_error_text_runEcosystem_3 npm_Ecosystem_error_text_runEcosystem_1 npm_Ecosystem_error_text_runEcosystem_2 npm_Ecosystem_error_text_runEcosystem_3 nuget_Ecosystem_error_text_runEcosystem_1 nuget_Ecosystem_error_text_runEcosystem_2 nuget_Ecosystem_error_text_runEcosystem_3 pypi_Ecosystem_error_text_runEcosystem_1 pypi_Ecosystem_error_text_runEcosystem_2 pypi_Ecosystem_error_text_runEcosystem_3 rpm_Ecosystem_error_text_runEcosystem_1 rpm_Ecosystem_error_text_runEcosystem_2 rpm_Ecosystem_error_text_runEcosystem_3 semver_Ecosystem_error_text_runEcosystem_1 semver_Ecosystem_error_text_runEcosystem_2 semver_Ecosystem_error_text_runEcosystem_3 error_text_runVers_1.

Theorem run_is_run_src (fuel : nat) (w : bytes) (args : list bytes) :
  generated_run fuel w args = run_src vers_Contains sort_by error_text_runVers_1 bundles fuel w args.
Proof.
  unfold generated_run, G.run. rewrite len_eqb_0.
  destruct args as [|name rest]; [reflexivity|]. cbv iota zeta.
  rewrite !idx_cons_0. cbn [bind]. rewrite lookup_single.
  match goal with
  | |- context [lookup name ?t] =>
      lazymatch t with
      | [_] => fail
      | _ => change t with (map (fun kb => (fst kb, run_bundle sort_by (snd kb))) bundles)
      end
  end.
  rewrite lookup_map_snd. unfold run_src.
  destruct (beq name $"vers").
  - cbn [map_get2]. cbv iota. rewrite slice_from_cons_1. reflexivity.
  - cbn [map_get2]. cbv iota.
    destruct (lookup name bundles) as [B|]; cbn [option_map map_get2]; cbv iota.
    + rewrite slice_from_cons_1. reflexivity.
    + reflexivity.
Qed.

(* ---------- routing: each key reaches exactly its own bundle ---------- *)

Theorem run_routing_alpine (fuel : nat) (w : bytes) (rest : list bytes) :
  generated_run fuel w ($"alpine" :: rest) =
  bind (G.runEcosystem alpine_Version alpine_VersionRange alpine_Ecosystem_Name alpine_Ecosystem_NewVersion
          alpine_Ecosystem_NewVersionRange alpine_VersionRange_Contains alpine_Version_Compare alpine_Version_String sort_by
          alpine_Ecosystem_error_text_runEcosystem_1 alpine_Ecosystem_error_text_runEcosystem_2
          alpine_Ecosystem_error_text_runEcosystem_3 fuel rest)
       (fun r => Done (w ++ (fst r ++ [chr 10]), snd r)).
Proof.
  rewrite run_is_run_src.
  apply (run_src_routing vers_Contains sort_by error_text_runVers_1 bundles fuel w $"alpine" rest alpine_bundle);
    [discriminate | reflexivity].
Qed.

Theorem run_routing_alpm (fuel : nat) (w : bytes) (rest : list bytes) :
  generated_run fuel w ($"alpm" :: rest) =
  bind (G.runEcosystem alpm_Version alpm_VersionRange alpm_Ecosystem_Name alpm_Ecosystem_NewVersion
          alpm_Ecosystem_NewVersionRange alpm_VersionRange_Contains alpm_Version_Compare alpm_Version_String sort_by
          alpm_Ecosystem_error_text_runEcosystem_1 alpm_Ecosystem_error_text_runEcosystem_2
          alpm_Ecosystem_error_text_runEcosystem_3 fuel rest)
       (fun r => Done (w ++ (fst r ++ [chr 10]), snd r)).
Proof.
  rewrite run_is_run_src.
  apply (run_src_routing vers_Contains sort_by error_text_runVers_1 bundles fuel w $"alpm" rest alpm_bundle);
    [discriminate | reflexivity].
Qed.

Theorem run_routing_apache (fuel : nat) (w : bytes) (rest : list bytes) :
  generated_run fuel w ($"apache" :: rest) =
  bind (G.runEcosystem apache_Version apache_VersionRange apache_Ecosystem_Name apache_Ecosystem_NewVersion
          apache_Ecosystem_NewVersionRange apache_VersionRange_Contains apache_Version_Compare apache_Version_String sort_by
          apache_Ecosystem_error_text_runEcosystem_1 apache_Ecosystem_error_text_runEcosystem_2
          apache_Ecosystem_error_text_runEcosystem_3 fuel rest)
       (fun r => Done (w ++ (fst r ++ [chr 10]), snd r)).
Proof.
  rewrite run_is_run_src.
  apply (run_src_routing vers_Contains sort_by error_text_runVers_1 bundles fuel w $"apache" rest apache_bundle);
    [discriminate | reflexivity].
Qed.

Theorem run_routing_cargo (fuel : nat) (w : bytes) (rest : list bytes) :
  generated_run fuel w ($"cargo" :: rest) =
  bind (G.runEcosystem cargo_Version cargo_VersionRange cargo_Ecosystem_Name cargo_Ecosystem_NewVersion
          cargo_Ecosystem_NewVersionRange cargo_VersionRange_Contains cargo_Version_Compare cargo_Version_String sort_by
          cargo_Ecosystem_error_text_runEcosystem_1 cargo_Ecosystem_error_text_runEcosystem_2
          cargo_Ecosystem_error_text_runEcosystem_3 fuel rest)
       (fun r => Done (w ++ (fst r ++ [chr 10]), snd r)).
Proof.
  rewrite run_is_run_src.
  apply (run_src_routing vers_Contains sort_by error_text_runVers_1 bundles fuel w $"cargo" rest cargo_bundle);
    [discriminate | reflexivity].
Qed.

Theorem run_routing_conan (fuel : nat) (w : bytes) (rest : list bytes) :
  generated_run fuel w ($"conan" :: rest) =
  bind (G.runEcosystem conan_Version conan_VersionRange conan_Ecosystem_Name conan_Ecosystem_NewVersion
          conan_Ecosystem_NewVersionRange conan_VersionRange_Contains conan_Version_Compare conan_Version_String sort_by
          conan_Ecosystem_error_text_runEcosystem_1 conan_Ecosystem_error_text_runEcosystem_2
          conan_Ecosystem_error_text_runEcosystem_3 fuel rest)
       (fun r => Done (w ++ (fst r ++ [chr 10]), snd r)).
Proof.
  rewrite run_is_run_src.
  apply (run_src_routing vers_Contains sort_by error_text_runVers_1 bundles fuel w $"conan" rest conan_bundle);
    [discriminate | reflexivity].
Qed.

Theorem run_routing_composer (fuel : nat) (w : bytes) (rest : list bytes) :
  generated_run fuel w ($"composer" :: rest) =
  bind (G.runEcosystem composer_Version composer_VersionRange composer_Ecosystem_Name composer_Ecosystem_NewVersion
          composer_Ecosystem_NewVersionRange composer_VersionRange_Contains composer_Version_Compare composer_Version_String sort_by
          composer_Ecosystem_error_text_runEcosystem_1 composer_Ecosystem_error_text_runEcosystem_2
          composer_Ecosystem_error_text_runEcosystem_3 fuel rest)
       (fun r => Done (w ++ (fst r ++ [chr 10]), snd r)).
Proof.
  rewrite run_is_run_src.
  apply (run_src_routing vers_Contains sort_by error_text_runVers_1 bundles fuel w $"composer" rest composer_bundle);
    [discriminate | reflexivity].
Qed.

Theorem run_routing_cran (fuel : nat) (w : bytes) (rest : list bytes) :
  generated_run fuel w ($"cran" :: rest) =
  bind (G.runEcosystem cran_Version cran_VersionRange cran_Ecosystem_Name cran_Ecosystem_NewVersion
          cran_Ecosystem_NewVersionRange cran_VersionRange_Contains cran_Version_Compare cran_Version_String sort_by
          cran_Ecosystem_error_text_runEcosystem_1 cran_Ecosystem_error_text_runEcosystem_2
          cran_Ecosystem_error_text_runEcosystem_3 fuel rest)
       (fun r => Done (w ++ (fst r ++ [chr 10]), snd r)).
Proof.
  rewrite run_is_run_src.
  apply (run_src_routing vers_Contains sort_by error_text_runVers_1 bundles fuel w $"cran" rest cran_bundle);
    [discriminate | reflexivity].
Qed.

Theorem run_routing_debian (fuel : nat) (w : bytes) (rest : list bytes) :
  generated_run fuel w ($"debian" :: rest) =
  bind (G.runEcosystem debian_Version debian_VersionRange debian_Ecosystem_Name debian_Ecosystem_NewVersion
          debian_Ecosystem_NewVersionRange debian_VersionRange_Contains debian_Version_Compare debian_Version_String sort_by
          debian_Ecosystem_error_text_runEcosystem_1 debian_Ecosystem_error_text_runEcosystem_2
          debian_Ecosystem_error_text_runEcosystem_3 fuel rest)
       (fun r => Done (w ++ (fst r ++ [chr 10]), snd r)).
Proof.
  rewrite run_is_run_src.
  apply (run_src_routing vers_Contains sort_by error_text_runVers_1 bundles fuel w $"debian" rest debian_bundle);
    [discriminate | reflexivity].
Qed.

Theorem run_routing_gem (fuel : nat) (w : bytes) (rest : list bytes) :
  generated_run fuel w ($"gem" :: rest) =
  bind (G.runEcosystem gem_Version gem_VersionRange gem_Ecosystem_Name gem_Ecosystem_NewVersion
          gem_Ecosystem_NewVersionRange gem_VersionRange_Contains gem_Version_Compare gem_Version_String sort_by
          gem_Ecosystem_error_text_runEcosystem_1 gem_Ecosystem_error_text_runEcosystem_2
          gem_Ecosystem_error_text_runEcosystem_3 fuel rest)
       (fun r => Done (w ++ (fst r ++ [chr 10]), snd r)).
Proof.
  rewrite run_is_run_src.
  apply (run_src_routing vers_Contains sort_by error_text_runVers_1 bundles fuel w $"gem" rest gem_bundle);
    [discriminate | reflexivity].
Qed.

Theorem run_routing_gentoo (fuel : nat) (w : bytes) (rest : list bytes) :
  generated_run fuel w ($"gentoo" :: rest) =
  bind (G.runEcosystem gentoo_Version gentoo_VersionRange gentoo_Ecosystem_Name gentoo_Ecosystem_NewVersion
          gentoo_Ecosystem_NewVersionRange gentoo_VersionRange_Contains gentoo_Version_Compare gentoo_Version_String sort_by
          gentoo_Ecosystem_error_text_runEcosystem_1 gentoo_Ecosystem_error_text_runEcosystem_2
          gentoo_Ecosystem_error_text_runEcosystem_3 fuel rest)
       (fun r => Done (w ++ (fst r ++ [chr 10]), snd r)).
Proof.
  rewrite run_is_run_src.
  apply (run_src_routing vers_Contains sort_by error_text_runVers_1 bundles fuel w $"gentoo" rest gentoo_bundle);
    [discriminate | reflexivity].
Qed.

Theorem run_routing_github (fuel : nat) (w : bytes) (rest : list bytes) :
  generated_run fuel w ($"github" :: rest) =
  bind (G.runEcosystem github_Version github_VersionRange github_Ecosystem_Name github_Ecosystem_NewVersion
          github_Ecosystem_NewVersionRange github_VersionRange_Contains github_Version_Compare github_Version_String sort_by
          github_Ecosystem_error_text_runEcosystem_1 github_Ecosystem_error_text_runEcosystem_2
          github_Ecosystem_error_text_runEcosystem_3 fuel rest)
       (fun r => Done (w ++ (fst r ++ [chr 10]), snd r)).
Proof.
  rewrite run_is_run_src.
  apply (run_src_routing vers_Contains sort_by error_text_runVers_1 bundles fuel w $"github" rest github_bundle);
    [discriminate | reflexivity].
Qed.

Theorem run_routing_golang (fuel : nat) (w : bytes) (rest : list bytes) :
  generated_run fuel w ($"golang" :: rest) =
  bind (G.runEcosystem golang_Version golang_VersionRange golang_Ecosystem_Name golang_Ecosystem_NewVersion
          golang_Ecosystem_NewVersionRange golang_VersionRange_Contains golang_Version_Compare golang_Version_String sort_by
          golang_Ecosystem_error_text_runEcosystem_1 golang_Ecosystem_error_text_runEcosystem_2
          golang_Ecosystem_error_text_runEcosystem_3 fuel rest)
       (fun r => Done (w ++ (fst r ++ [chr 10]), snd r)).
Proof.
  rewrite run_is_run_src.
  apply (run_src_routing vers_Contains sort_by error_text_runVers_1 bundles fuel w $"golang" rest golang_bundle);
    [discriminate | reflexivity].
Qed.

Theorem run_routing_hex (fuel : nat) (w : bytes) (rest : list bytes) :
  generated_run fuel w ($"hex" :: rest) =
  bind (G.runEcosystem hex_Version hex_VersionRange hex_Ecosystem_Name hex_Ecosystem_NewVersion
          hex_Ecosystem_NewVersionRange hex_VersionRange_Contains hex_Version_Compare hex_Version_String sort_by
          hex_Ecosystem_error_text_runEcosystem_1 hex_Ecosystem_error_text_runEcosystem_2
          hex_Ecosystem_error_text_runEcosystem_3 fuel rest)
       (fun r => Done (w ++ (fst r ++ [chr 10]), snd r)).
Proof.
  rewrite run_is_run_src.
  apply (run_src_routing vers_Contains sort_by error_text_runVers_1 bundles fuel w $"hex" rest hex_bundle);
    [discriminate | reflexivity].
Qed.

Theorem run_routing_mattermost (fuel : nat) (w : bytes) (rest : list bytes) :
  generated_run fuel w ($"mattermost" :: rest) =
  bind (G.runEcosystem mattermost_Version mattermost_VersionRange mattermost_Ecosystem_Name mattermost_Ecosystem_NewVersion
          mattermost_Ecosystem_NewVersionRange mattermost_VersionRange_Contains mattermost_Version_Compare mattermost_Version_String sort_by
          mattermost_Ecosystem_error_text_runEcosystem_1 mattermost_Ecosystem_error_text_runEcosystem_2
          mattermost_Ecosystem_error_text_runEcosystem_3 fuel rest)
       (fun r => Done (w ++ (fst r ++ [chr 10]), snd r)).
Proof.
  rewrite run_is_run_src.
  apply (run_src_routing vers_Contains sort_by error_text_runVers_1 bundles fuel w $"mattermost" rest mattermost_bundle);
    [discriminate | reflexivity].
Qed.

Theorem run_routing_maven (fuel : nat) (w : bytes) (rest : list bytes) :
  generated_run fuel w ($"maven" :: rest) =
  bind (G.runEcosystem maven_Version maven_VersionRange maven_Ecosystem_Name maven_Ecosystem_NewVersion
          maven_Ecosystem_NewVersionRange maven_VersionRange_Contains maven_Version_Compare maven_Version_String sort_by
          maven_Ecosystem_error_text_runEcosystem_1 maven_Ecosystem_error_text_runEcosystem_2
          maven_Ecosystem_error_text_runEcosystem_3 fuel rest)
       (fun r => Done (w ++ (fst r ++ [chr 10]), snd r)).
Proof.
  rewrite run_is_run_src.
  apply (run_src_routing vers_Contains sort_by error_text_runVers_1 bundles fuel w $"maven" rest maven_bundle);
    [discriminate | reflexivity].
Qed.

Theorem run_routing_npm (fuel : nat) (w : bytes) (rest : list bytes) :
  generated_run fuel w ($"npm" :: rest) =
  bind (G.runEcosystem npm_Version npm_VersionRange npm_Ecosystem_Name npm_Ecosystem_NewVersion
          npm_Ecosystem_NewVersionRange npm_VersionRange_Contains npm_Version_Compare npm_Version_String sort_by
          npm_Ecosystem_error_text_runEcosystem_1 npm_Ecosystem_error_text_runEcosystem_2
          npm_Ecosystem_error_text_runEcosystem_3 fuel rest)
       (fun r => Done (w ++ (fst r ++ [chr 10]), snd r)).
Proof.
  rewrite run_is_run_src.
  apply (run_src_routing vers_Contains sort_by error_text_runVers_1 bundles fuel w $"npm" rest npm_bundle);
    [discriminate | reflexivity].
Qed.

Theorem run_routing_nuget (fuel : nat) (w : bytes) (rest : list bytes) :
  generated_run fuel w ($"nuget" :: rest) =
  bind (G.runEcosystem nuget_Version nuget_VersionRange nuget_Ecosystem_Name nuget_Ecosystem_NewVersion
          nuget_Ecosystem_NewVersionRange nuget_VersionRange_Contains nuget_Version_Compare nuget_Version_String sort_by
          nuget_Ecosystem_error_text_runEcosystem_1 nuget_Ecosystem_error_text_runEcosystem_2
          nuget_Ecosystem_error_text_runEcosystem_3 fuel rest)
       (fun r => Done (w ++ (fst r ++ [chr 10]), snd r)).
Proof.
  rewrite run_is_run_src.
  apply (run_src_routing vers_Contains sort_by error_text_runVers_1 bundles fuel w $"nuget" rest nuget_bundle);
    [discriminate | reflexivity].
Qed.

Theorem run_routing_pypi (fuel : nat) (w : bytes) (rest : list bytes) :
  generated_run fuel w ($"pypi" :: rest) =
  bind (G.runEcosystem pypi_Version pypi_VersionRange pypi_Ecosystem_Name pypi_Ecosystem_NewVersion
          pypi_Ecosystem_NewVersionRange pypi_VersionRange_Contains pypi_Version_Compare pypi_Version_String sort_by
          pypi_Ecosystem_error_text_runEcosystem_1 pypi_Ecosystem_error_text_runEcosystem_2
          pypi_Ecosystem_error_text_runEcosystem_3 fuel rest)
       (fun r => Done (w ++ (fst r ++ [chr 10]), snd r)).
Proof.
  rewrite run_is_run_src.
  apply (run_src_routing vers_Contains sort_by error_text_runVers_1 bundles fuel w $"pypi" rest pypi_bundle);
    [discriminate | reflexivity].
Qed.

Theorem run_routing_rpm (fuel : nat) (w : bytes) (rest : list bytes) :
  generated_run fuel w ($"rpm" :: rest) =
  bind (G.runEcosystem rpm_Version rpm_VersionRange rpm_Ecosystem_Name rpm_Ecosystem_NewVersion
          rpm_Ecosystem_NewVersionRange rpm_VersionRange_Contains rpm_Version_Compare rpm_Version_String sort_by
          rpm_Ecosystem_error_text_runEcosystem_1 rpm_Ecosystem_error_text_runEcosystem_2
          rpm_Ecosystem_error_text_runEcosystem_3 fuel rest)
       (fun r => Done (w ++ (fst r ++ [chr 10]), snd r)).
Proof.
  rewrite run_is_run_src.
  apply (run_src_routing vers_Contains sort_by error_text_runVers_1 bundles fuel w $"rpm" rest rpm_bundle);
    [discriminate | reflexivity].
Qed.

Theorem run_routing_semver (fuel : nat) (w : bytes) (rest : list bytes) :
  generated_run fuel w ($"semver" :: rest) =
  bind (G.runEcosystem semver_Version semver_VersionRange semver_Ecosystem_Name semver_Ecosystem_NewVersion
          semver_Ecosystem_NewVersionRange semver_VersionRange_Contains semver_Version_Compare semver_Version_String sort_by
          semver_Ecosystem_error_text_runEcosystem_1 semver_Ecosystem_error_text_runEcosystem_2
          semver_Ecosystem_error_text_runEcosystem_3 fuel rest)
       (fun r => Done (w ++ (fst r ++ [chr 10]), snd r)).
Proof.
  rewrite run_is_run_src.
  apply (run_src_routing vers_Contains sort_by error_text_runVers_1 bundles fuel w $"semver" rest semver_bundle);
    [discriminate | reflexivity].
Qed.

Theorem run_routing_vers (fuel : nat) (w : bytes) (rest : list bytes) :
  generated_run fuel w ($"vers" :: rest) =
  bind (G.runVers vers_Contains error_text_runVers_1 fuel rest) (fun r => Done (w ++ (fst r ++ [chr 10]), snd r)).
Proof. rewrite run_is_run_src. apply run_src_routing_vers. Qed.

Theorem run_routing_unknown (fuel : nat) (w : bytes) (name : bytes) (rest : list bytes) :
  name <> $"vers" -> lookup name bundles = None ->
  generated_run fuel w (name :: rest) = Done (w ++ (($"Unknown ecosystem: " ++ name) ++ [chr 10]), 1).
Proof. intros Nv Lk. rewrite run_is_run_src. apply run_src_unknown; assumption. Qed.

(* the (key, Name) pairs of the table are the generated registry as soon as every ecosystem value
   answers Name() with the Name constant of its package *)
Definition names_ok : Prop :=
  alpine_Ecosystem_Name = $"alpine" /\
  alpm_Ecosystem_Name = $"alpm" /\
  apache_Ecosystem_Name = $"apache" /\
  cargo_Ecosystem_Name = $"cargo" /\
  conan_Ecosystem_Name = $"conan" /\
  composer_Ecosystem_Name = $"composer" /\
  cran_Ecosystem_Name = $"cran" /\
  debian_Ecosystem_Name = $"debian" /\
  gem_Ecosystem_Name = $"gem" /\
  gentoo_Ecosystem_Name = $"gentoo" /\
  github_Ecosystem_Name = $"github" /\
  golang_Ecosystem_Name = $"golang" /\
  hex_Ecosystem_Name = $"hex" /\
  mattermost_Ecosystem_Name = $"mattermost" /\
  maven_Ecosystem_Name = $"maven" /\
  npm_Ecosystem_Name = $"npm" /\
  nuget_Ecosystem_Name = $"nuget" /\
  pypi_Ecosystem_Name = $"pypi" /\
  rpm_Ecosystem_Name = $"rpm" /\
  semver_Ecosystem_Name = $"semver".

Lemma registry_of_bundles : names_ok -> registry_of bundles = cli_registry.
Proof.
  unfold names_ok. intros H. unfold registry_of, bundles. cbn [map fst snd].
  unfold alpine_bundle; cbn [b_Name].
  unfold alpm_bundle; cbn [b_Name].
  unfold apache_bundle; cbn [b_Name].
  unfold cargo_bundle; cbn [b_Name].
  unfold conan_bundle; cbn [b_Name].
  unfold composer_bundle; cbn [b_Name].
  unfold cran_bundle; cbn [b_Name].
  unfold debian_bundle; cbn [b_Name].
  unfold gem_bundle; cbn [b_Name].
  unfold gentoo_bundle; cbn [b_Name].
  unfold github_bundle; cbn [b_Name].
  unfold golang_bundle; cbn [b_Name].
  unfold hex_bundle; cbn [b_Name].
  unfold mattermost_bundle; cbn [b_Name].
  unfold maven_bundle; cbn [b_Name].
  unfold npm_bundle; cbn [b_Name].
  unfold nuget_bundle; cbn [b_Name].
  unfold pypi_bundle; cbn [b_Name].
  unfold rpm_bundle; cbn [b_Name].
  unfold semver_bundle; cbn [b_Name].
  repeat match goal with H : _ /\ _ |- _ => destruct H as [?E H] end.
  repeat match goal with E : _ = _ |- _ => rewrite E; clear E end.
  reflexivity.
Qed.

(* ---------- no panic ---------- *)

Theorem run_no_panic (fuel : nat) (w : bytes) (args : list bytes) :
  (forall k B, In (k, B) bundles -> bundle_sort_perm sort_by B) ->
  (forall c r v, args = [$"vers"; c; r; v] -> finished (vers_Contains fuel r v)) ->
  fits args -> (length args < fuel)%nat ->
  finished (generated_run fuel w args).
Proof. intros SP VC F Hf. rewrite run_is_run_src. apply run_src_no_panic; assumption. Qed.

(* ---------- the tie ---------- *)

Theorem run_tie (lib : bytes -> lib_ops) (vers : bytes -> bytes -> vres) (good : bytes -> bytes -> Prop)
        (fuel : nat) (w : bytes) (args : list bytes) :
  names_ok ->
  (forall k B, In (k, B) bundles -> bundle_ties sort_by B (lib (b_Name B)) (good (b_Name B))) ->
  (forall c r v, args = [$"vers"; c; r; v] -> vers_Contains fuel r v = Done (opt_of_vres (vers r v))) ->
  sort_args_ok lib good args ->
  fits args -> (length args < fuel)%nat ->
  exists text status,
    generated_run fuel w args = Done (w ++ (text ++ [chr 10]), status) /\
    shown (Verif.Cli.Model.run cli_specs cli_registry lib vers args) (text, status).
Proof.
  intros NO BT VC SR F Hf.
  destruct (run_src_tie vers_Contains sort_by error_text_runVers_1 lib vers good bundles fuel w args
              (registry_of_bundles NO) BT VC SR F Hf) as (text & status & E & S).
  exists text, status. split; [rewrite run_is_run_src; exact E | exact S].
Qed.

Corollary run_tie_model_cli (good : bytes -> bytes -> Prop) (fuel : nat) (w : bytes) (args : list bytes) :
  names_ok ->
  (forall k B, In (k, B) bundles -> bundle_ties sort_by B (Top.model_lib (b_Name B)) (good (b_Name B))) ->
  (forall c r v, args = [$"vers"; c; r; v] ->
     vers_Contains fuel r v = Done (opt_of_vres (Top.model_vers r v))) ->
  sort_args_ok Top.model_lib good args ->
  fits args -> (length args < fuel)%nat ->
  exists text status,
    generated_run fuel w args = Done (w ++ (text ++ [chr 10]), status) /\
    shown (Top.model_cli args) (text, status).
Proof. intros NO BT VC SR F Hf. apply (run_tie Top.model_lib Top.model_vers good); assumption. Qed.

End RunInst.

Print Assumptions run_is_run_src.
Print Assumptions run_routing_alpine.
Print Assumptions run_routing_alpm.
Print Assumptions run_routing_apache.
Print Assumptions run_routing_cargo.
Print Assumptions run_routing_conan.
Print Assumptions run_routing_composer.
Print Assumptions run_routing_cran.
Print Assumptions run_routing_debian.
Print Assumptions run_routing_gem.
Print Assumptions run_routing_gentoo.
Print Assumptions run_routing_github.
Print Assumptions run_routing_golang.
Print Assumptions run_routing_hex.
Print Assumptions run_routing_mattermost.
Print Assumptions run_routing_maven.
Print Assumptions run_routing_npm.
Print Assumptions run_routing_nuget.
Print Assumptions run_routing_pypi.
Print Assumptions run_routing_rpm.
Print Assumptions run_routing_semver.
Print Assumptions run_routing_vers.
Print Assumptions run_routing_unknown.
Print Assumptions registry_of_bundles.
Print Assumptions run_no_panic.
Print Assumptions run_tie.
Print Assumptions run_tie_model_cli.
