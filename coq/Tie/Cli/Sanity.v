(* Tie/Cli/Sanity.v — the hypotheses of the CLI ties are jointly satisfiable: a toy ecosystem (versions
   = non-empty byte strings ordered bytewise, String() = the text, a range contains exactly the version
   of the same text, slices.SortFunc = an insertion sort) satisfies [lib_ties] and [sort_ok], and
   [runEcosystem_generated_tie] then yields a closed theorem about the generated runEcosystem at this
   bundle, with no hypothesis left except the size of the input. *)
From Coq Require Import ZArith List Ascii Bool Lia Permutation Sorted.
From Verif.Base Require Import Bytes GoNum Ord Sorting Imp ImpFacts ImpErr ImpCore BytesFacts.
From Verif.Vers Require Import Model.
From Verif.Cli Require Import Model.
From Verif.Tie Require Import Tactics.
From Verif.Tie.Loops Require Import Common.
From Verif.Tie.Cli Require Import Common Spec Ties.
Import ListNotations.
Local Open Scope Z_scope.

Definition toy_new (s : bytes) : option bytes := if beq s [] then None else Some s.
Definition toy_cmp (a b : bytes) : Z := Z_of_cmp (bytes_cmp a b).
Definition toy_sort : forall A : Type, (A -> A -> Z) -> list A -> list A :=
  fun A c l => isort (fun a b => cmp_of_Z (c a b)) l.

Definition toy_lib : lib_ops := {|
  l_name := $"toy";
  l_vok := fun s => negb (beq s []);
  l_vshow := fun s => s;
  l_vcmp := bytes_cmp;
  l_rok := fun s => negb (beq s []);
  l_rcontains := beq
|}.

Lemma toy_ties : lib_ties bytes bytes $"toy" toy_new toy_new beq toy_cmp (fun v => v) toy_lib.
Proof.
  constructor; cbn [toy_lib l_name l_vok l_rok l_vcmp l_vshow l_rcontains]; unfold toy_new.
  - reflexivity.
  - intros s. destruct (beq s []); reflexivity.
  - intros s. destruct (beq s []); reflexivity.
  - intros a b x y. destruct (beq a []); [discriminate|]. destruct (beq b []); [discriminate|].
    intros Ha Hb. injection Ha as <-. injection Hb as <-. reflexivity.
  - intros a x. destruct (beq a []); [discriminate|]. intros H. injection H as <-. reflexivity.
  - intros r v x y. destruct (beq r []); [discriminate|]. destruct (beq v []); [discriminate|].
    intros Hr Hv. injection Hr as <-. injection Hv as <-. reflexivity.
Qed.

Lemma toy_cmp_ext : forall a b : bytes, cmp_of_Z (toy_cmp a b) = bytes_cmp a b.
Proof. intros a b. unfold toy_cmp. apply cmp_of_Z_of_cmp. Qed.

Lemma toy_tp : TotalPreorderOn (fun _ : bytes => True) (fun a b => cmp_of_Z (toy_cmp a b)).
Proof.
  apply (TPO_ext bytes _ _ bytes_cmp); [intros a b _ _; apply toy_cmp_ext|].
  apply TPO_of_TP, TP_bytes_cmp.
Qed.

Lemma toy_sort_ok : sort_ok bytes toy_new toy_cmp toy_sort (fun _ => True).
Proof.
  constructor; unfold toy_sort.
  - intros l. apply isort_perm.
  - intros l _.
    assert (S : Sorted (cle (fun a b => cmp_of_Z (toy_cmp a b))) (isort (fun a b => cmp_of_Z (toy_cmp a b)) l)).
    { apply (isort_sorted_on bytes (fun _ => True) _ toy_tp). apply Forall_forall. intros; exact I. }
    revert S. generalize (isort (fun a b => cmp_of_Z (toy_cmp a b)) l). intros l'.
    induction 1 as [|a l0 S IH Hd]; constructor; [exact IH|].
    destruct Hd as [|b l1 Hab]; constructor.
    unfold cle in Hab. rewrite toy_cmp_ext in Hab. unfold toy_cmp.
    destruct (bytes_cmp a b); cbv; congruence.
Qed.

Theorem toy_runEcosystem (e1 e2 e3 : list bytes -> bytes) (fuel : nat) (args : list bytes) :
  fits args -> (length args < fuel)%nat ->
  exists r,
    G.runEcosystem bytes bytes $"toy" toy_new toy_new beq toy_cmp (fun v => v) toy_sort e1 e2 e3 fuel args
      = Done r /\
    shown (run_ecosystem toy_lib args) r.
Proof.
  intros F Hf.
  apply (runEcosystem_generated_tie bytes bytes $"toy" toy_new toy_new beq toy_cmp (fun v => v) toy_sort
           e1 e2 e3 toy_lib toy_ties (fun _ => True) toy_sort_ok
           (TPO_of_TP bytes _ bytes_cmp TP_bytes_cmp) fuel args F Hf).
  intros rest _ _. split; [apply Forall_forall; intros; exact I|].
  apply show_respects_of_distinct. intros a b _ _ E. apply bytes_cmp_eq. exact E.
Qed.

Print Assumptions toy_runEcosystem.

(* and it computes: `toy sort b "" a` fails with status 1, `toy sort b a` prints "a" "b" *)
Example toy_sort_run :
  G.runEcosystem bytes bytes $"toy" toy_new toy_new beq toy_cmp (fun v => v) toy_sort
                 (fun _ => $"E1") (fun _ => $"E2") (fun _ => $"E3") 5 [$"sort"; $"b"; $"a"]
  = Done ($"""a"" ""b""", 0).
Proof. vm_compute. reflexivity. Qed.

Example toy_sort_bad :
  G.runEcosystem bytes bytes $"toy" toy_new toy_new beq toy_cmp (fun v => v) toy_sort
                 (fun _ => $"E1") (fun _ => $"E2") (fun _ => $"E3") 5 [$"sort"; $"b"; []; $"a"]
  = Done ($"Error running command 'sort': E2", 1).
Proof. vm_compute. reflexivity. Qed.
