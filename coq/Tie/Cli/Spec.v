(* Tie/Cli/Spec.v — the generated CLI functions of Gen/Parse/CmdCore.v (translation of /repo/cmd/commands.go
   and cli.go) never panic and terminate with LINEAR fuel: each one is proved EQUAL to [Done] of a pure
   function of its arguments and of the bundle (no [res], no fuel, no loop), for every fuel above the
   number of arguments.

     compare_eq, contains_eq          no hypothesis at all (no loop; args[0], args[1] are guarded by len(args) == 2)
     sort_eq                          fits args, length args < fuel, [sort_by] preserves the length
                                      (a consequence of "returns a permutation": [sort_len_of_perm])
     versContains_eq                  no hypothesis: the call of vers.Contains is passed through
     runEcosystem_eq                  fits args, length args < fuel, [sort_by] preserves the length
     runVers_eq                       vers.Contains finishes on the two arguments of `vers contains r v`

   Corollaries [.._no_panic] in the form [finished (f fuel ..)].  The pure functions [.._spec] are what
   Tie/Cli/Ties.v relates to Cli/Model.v. *)
From Coq Require Import ZArith List Ascii Bool Lia Permutation.
From Verif.Base Require Import Bytes GoNum Imp ImpFacts ImpErr ImpCore.
From Verif.Gen.Parse Require CmdCore.
From Verif.Tie.Loops Require Import Common.
From Verif.Tie.Cli Require Import Common.
Import ListNotations.
Local Open Scope Z_scope.

Module G := Verif.Gen.Parse.CmdCore.

Lemma bind_ret {A} (r : res A) : bind r (fun x => Done x) = r.
Proof. destruct r; reflexivity. Qed.

Section Spec.
  Variable V VR : Type.
  Variable E_Name : bytes.
  Variable E_NewVersion : bytes -> option V.
  Variable E_NewVersionRange : bytes -> option VR.
  Variable VR_Contains : VR -> V -> bool.
  Variable V_Compare : V -> V -> Z.
  Variable V_String : V -> bytes.
  Variable sort_by : forall A : Type, (A -> A -> Z) -> list A -> list A.
  Variable e1 e2 e3 : list bytes -> bytes.

  (* ---------- compare ---------- *)

  Definition compare_spec (args : list bytes) : option Z :=
    match args with
    | [a; b] =>
        match E_NewVersion a with
        | None => None
        | Some x => match E_NewVersion b with None => None | Some y => Some (V_Compare x y) end
        end
    | _ => None
    end.

  Theorem compare_eq (args : list bytes) :
    G.compare V E_NewVersion V_Compare args = Done (compare_spec args).
  Proof.
    unfold G.compare, compare_spec. rewrite len_eqb_2.
    destruct args as [|a [|b [|c r]]]; cbn [negb]; cbv iota; try reflexivity.
    rewrite idx_cons_0, idx_cons_1. cbn [bind].
    destruct (E_NewVersion a); [|reflexivity]. destruct (E_NewVersion b); reflexivity.
  Qed.

  (* ---------- contains ---------- *)

  Definition contains_spec (args : list bytes) : option bool :=
    match args with
    | [r; v] =>
        match E_NewVersionRange r with
        | None => None
        | Some x => match E_NewVersion v with None => None | Some y => Some (VR_Contains x y) end
        end
    | _ => None
    end.

  Theorem contains_eq (args : list bytes) :
    G.contains V VR E_NewVersion E_NewVersionRange VR_Contains args = Done (contains_spec args).
  Proof.
    unfold G.contains, contains_spec. rewrite len_eqb_2.
    destruct args as [|a [|b [|c r]]]; cbn [negb]; cbv iota; try reflexivity.
    rewrite idx_cons_0, idx_cons_1. cbn [bind].
    destruct (E_NewVersionRange a); [|reflexivity]. destruct (E_NewVersion b); reflexivity.
  Qed.

  (* ---------- sort ---------- *)

  Definition sort_spec (args : list bytes) : option (list bytes) :=
    match args with
    | [] => None
    | _ =>
        match parse_all E_NewVersion args with
        | None => None
        | Some vs => Some (map V_String (sort_by V V_Compare vs))
        end
    end.

  Definition sort_len : Prop := forall l, length (sort_by V V_Compare l) = length l.

  Lemma sort_len_of_perm : (forall l, Permutation (sort_by V V_Compare l) l) -> sort_len.
  Proof. intros H l. apply Permutation_length, H. Qed.

  Theorem sort_eq (fuel : nat) (args : list bytes) :
    sort_len -> fits args -> (length args < fuel)%nat ->
    G.sort V E_NewVersion V_Compare V_String sort_by fuel args = Done (sort_spec args).
  Proof.
    intros SL F Hf. unfold G.sort, sort_spec. rewrite len_eqb_0.
    destruct args as [|a0 r0]; [reflexivity|]. cbv iota zeta.
    set (xs := a0 :: r0) in *.
    erewrite (range_while xs
                (fun x acc => match E_NewVersion x with None => inl None | Some y => inr (acc ++ [y]) end)).
    2:{ intros k acc. cbv beta iota. destruct (Z.ltb k (Z.of_nat (length xs))); [|reflexivity].
        destruct (idx xs k) as [x| |]; cbn [bind]; try reflexivity.
        destruct (E_NewVersion x); reflexivity. }
    2: exact F.
    2: exact Hf.
    rewrite frun_parse_all. cbn [bind].
    destruct (parse_all E_NewVersion xs) as [vs|] eqn:P; [|reflexivity]. cbn [app].
    set (sv := sort_by V V_Compare vs).
    assert (Lsv : length sv = length xs).
    { unfold sv. rewrite SL. eapply parse_all_length; exact P. }
    erewrite (range_while sv (fun x acc => inr (acc ++ [V_String x]))).
    2:{ intros k acc. cbv beta iota. destruct (Z.ltb k (Z.of_nat (length sv))); [|reflexivity].
        destruct (idx sv k) as [x| |]; reflexivity. }
    2:{ unfold fits in *. rewrite Lsv. exact F. }
    2:{ rewrite Lsv. exact Hf. }
    rewrite frun_map. reflexivity.
  Qed.

  Lemma sort_spec_length args out : sort_len -> sort_spec args = Some out -> length out = length args.
  Proof.
    intros SL. unfold sort_spec. destruct args as [|a r]; [discriminate|].
    destruct (parse_all E_NewVersion (a :: r)) as [vs|] eqn:P; [|discriminate].
    intros H. injection H as <-. rewrite map_length, SL. eapply parse_all_length; exact P.
  Qed.

  (* ---------- runEcosystem ---------- *)

  Definition cmd_error (command text : bytes) : bytes :=
    $"Error running command '" ++ command ++ $"': " ++ text.

  Definition sort_line (out : list bytes) : bytes :=
    trim_space (concat (map (fun v => fmt_quote v ++ $" ") out)).

  Definition runEcosystem_spec (args : list bytes) : bytes * Z :=
    match args with
    | [] => ($"No command specified for " ++ E_Name, 1)
    | command :: rest =>
        if beq command $"compare" then
          match compare_spec rest with
          | None => (cmd_error command (e1 args), 1)
          | Some out => (dec_z out, 0)
          end
        else if beq command $"sort" then
          match sort_spec rest with
          | None => (cmd_error command (e2 args), 1)
          | Some out => (sort_line out, 0)
          end
        else if beq command $"contains" then
          match contains_spec rest with
          | None => (cmd_error command (e3 args), 1)
          | Some out => (fmt_bool out, 0)
          end
        else ($"Unknown " ++ E_Name ++ $" command: " ++ command, 1)
    end.

  Theorem runEcosystem_eq (fuel : nat) (args : list bytes) :
    sort_len -> fits args -> (length args < fuel)%nat ->
    G.runEcosystem V VR E_Name E_NewVersion E_NewVersionRange VR_Contains V_Compare V_String sort_by
                   e1 e2 e3 fuel args = Done (runEcosystem_spec args).
  Proof.
    intros SL F Hf. unfold G.runEcosystem, runEcosystem_spec. rewrite len_eqb_0.
    destruct args as [|command rest]; [reflexivity|]. cbv iota.
    rewrite idx_cons_0, slice_from_cons_1. cbn [bind]. cbv zeta.
    assert (Fr : fits rest) by (unfold fits in *; cbn [length] in F; lia).
    assert (Hr : (length rest < fuel)%nat) by (cbn [length] in Hf; lia).
    destruct (beq command $"compare").
    { rewrite compare_eq. cbn [bind]. destruct (compare_spec rest); reflexivity. }
    destruct (beq command $"sort").
    { rewrite (sort_eq fuel rest SL Fr Hr). cbn [bind].
      destruct (sort_spec rest) as [out|] eqn:S.
      - pose proof (sort_spec_length rest out SL S) as Lo.
        erewrite (range_while out (fun v acc => inr (acc ++ (fmt_quote v ++ $" ")))).
        2:{ intros k acc. cbv beta iota. destruct (Z.ltb k (Z.of_nat (length out))); [|reflexivity].
            destruct (idx out k) as [x| |]; reflexivity. }
        2:{ unfold fits in *. rewrite Lo. exact Fr. }
        2:{ rewrite Lo. exact Hr. }
        rewrite (frun_concat (fun v => fmt_quote v ++ $" ")). reflexivity.
      - erewrite (range_while ([] : list bytes) (fun v acc => inr (acc ++ (fmt_quote v ++ $" ")))).
        2:{ intros k acc. cbv beta iota.
            destruct (Z.ltb k (Z.of_nat (length (@nil bytes)))); [|reflexivity].
            destruct (idx [] k) as [x| |]; reflexivity. }
        2:{ unfold fits. cbn [length]. lia. }
        2:{ cbn [length]. lia. }
        reflexivity. }
    destruct (beq command $"contains").
    { rewrite contains_eq. cbn [bind]. destruct (contains_spec rest); reflexivity. }
    reflexivity.
  Qed.

  (* ---------- the [finished] form ---------- *)

  Corollary compare_no_panic args : finished (G.compare V E_NewVersion V_Compare args).
  Proof. rewrite compare_eq. apply finished_Done. Qed.

  Corollary contains_no_panic args :
    finished (G.contains V VR E_NewVersion E_NewVersionRange VR_Contains args).
  Proof. rewrite contains_eq. apply finished_Done. Qed.

  Corollary sort_no_panic fuel args :
    (forall l, Permutation (sort_by V V_Compare l) l) -> fits args -> (length args < fuel)%nat ->
    finished (G.sort V E_NewVersion V_Compare V_String sort_by fuel args).
  Proof. intros P F Hf. rewrite (sort_eq fuel args (sort_len_of_perm P) F Hf). apply finished_Done. Qed.

  Corollary runEcosystem_no_panic fuel args :
    (forall l, Permutation (sort_by V V_Compare l) l) -> fits args -> (length args < fuel)%nat ->
    finished (G.runEcosystem V VR E_Name E_NewVersion E_NewVersionRange VR_Contains V_Compare V_String
                             sort_by e1 e2 e3 fuel args).
  Proof.
    intros P F Hf. rewrite (runEcosystem_eq fuel args (sort_len_of_perm P) F Hf). apply finished_Done.
  Qed.
End Spec.

(* ---------- vers ---------- *)

Section Vers.
  Variable vers_Contains : nat -> bytes -> bytes -> res (option bool).
  Variable ev : list bytes -> bytes.

  Theorem versContains_eq (fuel : nat) (args : list bytes) :
    G.versContains vers_Contains fuel args =
    match args with [r; v] => vers_Contains fuel r v | _ => Done None end.
  Proof.
    unfold G.versContains. rewrite len_eqb_2.
    destruct args as [|a [|b [|c r]]]; cbn [negb]; cbv iota; try reflexivity.
    rewrite idx_cons_0, idx_cons_1. cbn [bind]. apply bind_ret.
  Qed.

  Corollary versContains_no_panic fuel args :
    (forall r v, args = [r; v] -> finished (vers_Contains fuel r v)) ->
    finished (G.versContains vers_Contains fuel args).
  Proof.
    intros H. rewrite versContains_eq.
    destruct args as [|a [|b [|c r]]]; try apply finished_Done. apply H. reflexivity.
  Qed.

  (* [vc r v]: the result of vers.Contains(r, v) *)
  Definition runVers_spec (vc : bytes -> bytes -> option bool) (args : list bytes) : bytes * Z :=
    match args with
    | [] => ($"Usage: univers vers <command> [args]", 1)
    | command :: rest =>
        if beq command $"contains" then
          match match rest with [r; v] => vc r v | _ => None end with
          | None => ($"Error running command 'vers " ++ command ++ $"': " ++ ev args, 1)
          | Some out => (fmt_bool out, 0)
          end
        else ($"Unknown vers command: " ++ command ++ $". Supported commands: contains", 1)
    end.

  Theorem runVers_eq (vc : bytes -> bytes -> option bool) (fuel : nat) (args : list bytes) :
    (forall c r v, args = [c; r; v] -> vers_Contains fuel r v = Done (vc r v)) ->
    G.runVers vers_Contains ev fuel args = Done (runVers_spec vc args).
  Proof.
    intros H. unfold G.runVers, runVers_spec. rewrite len_eqb_0.
    destruct args as [|command rest]; [reflexivity|]. cbv iota.
    rewrite idx_cons_0, slice_from_cons_1. cbn [bind].
    destruct (beq command $"contains"); [|reflexivity].
    rewrite versContains_eq.
    destruct rest as [|a [|b [|c r]]]; cbn [bind]; try reflexivity.
    rewrite (H command a b eq_refl). cbn [bind]. destruct (vc a b); reflexivity.
  Qed.

  Corollary runVers_no_panic fuel args :
    (forall c r v, args = [c; r; v] -> finished (vers_Contains fuel r v)) ->
    finished (G.runVers vers_Contains ev fuel args).
  Proof.
    intros H. unfold G.runVers. rewrite len_eqb_0.
    destruct args as [|command rest]; [apply finished_Done|]. cbv iota.
    rewrite idx_cons_0, slice_from_cons_1. cbn [bind].
    destruct (beq command $"contains"); [|apply finished_Done].
    rewrite versContains_eq.
    destruct rest as [|a [|b [|c r]]]; cbn [bind]; try apply finished_Done.
    destruct (H command a b eq_refl) as (x & E). rewrite E. cbn [bind].
    destruct x; apply finished_Done.
  Qed.
End Vers.

Print Assumptions compare_eq.
Print Assumptions contains_eq.
Print Assumptions sort_eq.
Print Assumptions runEcosystem_eq.
Print Assumptions versContains_eq.
Print Assumptions runVers_eq.
Print Assumptions compare_no_panic.
Print Assumptions contains_no_panic.
Print Assumptions sort_no_panic.
Print Assumptions runEcosystem_no_panic.
Print Assumptions versContains_no_panic.
Print Assumptions runVers_no_panic.
