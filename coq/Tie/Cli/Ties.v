(* Tie/Cli/Ties.v — the generic CLI runners of /repo/cmd (through their pure forms of Tie/Cli/Spec.v)
   against Cli/Model.v, for ONE ecosystem bundle tied to the library record [L : lib_ops] by
   [lib_ties] (Tie/Cli/Common.v: Name, acceptance of NewVersion / NewVersionRange, Compare through
   [Z_of_cmp], String, Contains).

     compare_tie, contains_tie   Some out <-> the model prints exactly that line; None <-> the model fails with
                                 "Error running command '<cmd>': .."
     sort_tie_upto               slices.SortFunc is UNSTABLE, the model sorts with a stable insertion sort: the
                                 output is [map l_vshow args'] for a sorted permutation args' of the arguments
                                 that agrees with the model's [isort] class by class ([Forall2 (ceq ..)]);
                                 hypotheses: [sort_ok] (a sorted permutation on versions parsed from texts in
                                 P) and the model's comparison is a total preorder on P, all arguments in P
                                 (P is arbitrary: [fun _ => True], or the class outside a known order defect)
     sort_tie                    exact equality with the model's line when Compare-equal arguments have the
                                 same String() ([show_respects]: in particular for pairwise non-equivalent
                                 arguments, [show_respects_of_distinct])
     versContains_tie,           versContains is the arity check followed by vers.Contains (an oracle of this file:
     runVers_generated_tie       hypothesis "vers.Contains fuel r v = Done (opt_of_vres (vers r v))"); runVers
                                 against the model's run_vers
     runEcosystem_tie            [shown (run_ecosystem L args) (runEcosystem_spec .. args)], hence with
                                 Spec.runEcosystem_eq the theorem about the generated function:
                                 [runEcosystem_generated_tie]; exit status: [runEcosystem_exit_code] (needs
                                 neither [sort_ok] nor [show_respects]) *)
From Coq Require Import ZArith List Ascii Bool Lia Permutation Sorted.
From Verif.Base Require Import Bytes GoNum Ord Sorting Imp ImpFacts ImpErr ImpCore BytesFacts.
From Verif.Vers Require Import Model.
From Verif.Cli Require Import Model Facts.
From Verif.Tie Require Import Tactics.
From Verif.Tie.Loops Require Import Common.
From Verif.Tie.Cli Require Import Common Spec.
Import ListNotations.
Local Open Scope Z_scope.

(* ---------- lists ---------- *)

Lemma Forall2_flip' {A B} (R : A -> B -> Prop) l1 l2 :
  Forall2 R l1 l2 -> Forall2 (fun b a => R a b) l2 l1.
Proof. induction 1; constructor; assumption. Qed.

Lemma Sorted_transfer {A B} (R : A -> B -> Prop) (S1 : A -> A -> Prop) (S2 : B -> B -> Prop) :
  (forall a b x y, R a x -> R b y -> S2 x y -> S1 a b) ->
  forall l1 l2, Forall2 R l1 l2 -> Sorted S2 l2 -> Sorted S1 l1.
Proof.
  intros H l1 l2 F. induction F as [|a x l1 l2 Rax F IH]; intros S; [constructor|].
  inversion S as [|? ? S' Hd]; subst. constructor; [apply IH; exact S'|].
  destruct F as [|b y l1 l2 Rby F]; [constructor|].
  inversion Hd; subst. constructor. eapply H; eassumption.
Qed.

Lemma Forall2_map_eq {A C} (R : A -> A -> Prop) (f : A -> C) l1 l2 :
  Forall2 R l1 l2 -> (forall a b, In a l1 -> In b l2 -> R a b -> f a = f b) -> map f l1 = map f l2.
Proof.
  induction 1 as [|a b l1 l2 Rab F IH]; intros H; [reflexivity|]. cbn [map]. f_equal.
  - apply H; [left; reflexivity | left; reflexivity | exact Rab].
  - apply IH. intros x y Hx Hy. apply H; right; assumption.
Qed.

Lemma Forall2_map_r {A B C} (R : A -> B -> Prop) (f : A -> C) (g : B -> C) l1 l2 :
  Forall2 R l1 l2 -> (forall a b, R a b -> g b = f a) -> map g l2 = map f l1.
Proof. intros F H. induction F as [|a b l1 l2 Rab _ IH]; [reflexivity|]. cbn [map]. f_equal; auto. Qed.

(* Compare-equal arguments print the same: what the model's sort line is insensitive to *)
Definition show_respects (L : lib_ops) (args : list bytes) : Prop :=
  forall a b, In a args -> In b args -> l_vcmp L a b = Eq -> l_vshow L a = l_vshow L b.

Lemma show_respects_of_distinct L args :
  (forall a b, In a args -> In b args -> l_vcmp L a b = Eq -> a = b) -> show_respects L args.
Proof. intros H a b Ha Hb E. rewrite (H a b Ha Hb E). reflexivity. Qed.

Section Ties.
  Variable V VR : Type.
  Variable E_Name : bytes.
  Variable E_NewVersion : bytes -> option V.
  Variable E_NewVersionRange : bytes -> option VR.
  Variable VR_Contains : VR -> V -> bool.
  Variable V_Compare : V -> V -> Z.
  Variable V_String : V -> bytes.
  Variable sort_by : forall A : Type, (A -> A -> Z) -> list A -> list A.
  Variable e1 e2 e3 : list bytes -> bytes.
  Variable L : lib_ops.

  Hypothesis T : lib_ties V VR E_Name E_NewVersion E_NewVersionRange VR_Contains V_Compare V_String L.

  Local Notation compare_spec := (compare_spec V E_NewVersion V_Compare).
  Local Notation contains_spec := (contains_spec V VR E_NewVersion E_NewVersionRange VR_Contains).
  Local Notation sort_spec := (sort_spec V E_NewVersion V_Compare V_String sort_by).
  Local Notation runEcosystem_spec :=
    (runEcosystem_spec V VR E_Name E_NewVersion E_NewVersionRange VR_Contains V_Compare V_String sort_by e1 e2 e3).

  (* ---------- compare ---------- *)

  Theorem compare_tie (rest : list bytes) :
    match compare_spec rest with
    | Some out => cmd_compare L rest = Ok (dec_z out)
    | None => exists text, cmd_compare L rest = err_prefix $"compare" text
    end.
  Proof.
    unfold Spec.compare_spec, cmd_compare.
    destruct rest as [|a [|b [|c r]]]; try (eexists; reflexivity).
    rewrite (t_vok _ _ _ _ _ _ _ _ _ T a), (t_vok _ _ _ _ _ _ _ _ _ T b).
    destruct (E_NewVersion a) as [x|] eqn:Ea; cbn [is_some negb]; [|eexists; reflexivity].
    destruct (E_NewVersion b) as [y|] eqn:Eb; cbn [is_some negb]; [|eexists; reflexivity].
    rewrite (t_cmp _ _ _ _ _ _ _ _ _ T a b x y Ea Eb). reflexivity.
  Qed.

  (* ---------- contains ---------- *)

  Theorem contains_tie (rest : list bytes) :
    match contains_spec rest with
    | Some out => cmd_contains L rest = Ok (fmt_bool out)
    | None => exists text, cmd_contains L rest = err_prefix $"contains" text
    end.
  Proof.
    unfold Spec.contains_spec, cmd_contains.
    destruct rest as [|a [|b [|c r]]]; try (eexists; reflexivity).
    rewrite (t_rok _ _ _ _ _ _ _ _ _ T a), (t_vok _ _ _ _ _ _ _ _ _ T b).
    destruct (E_NewVersionRange a) as [x|] eqn:Ea; cbn [is_some negb]; [|eexists; reflexivity].
    destruct (E_NewVersion b) as [y|] eqn:Eb; cbn [is_some negb]; [|eexists; reflexivity].
    rewrite (t_contains _ _ _ _ _ _ _ _ _ T a b x y Ea Eb). reflexivity.
  Qed.

  (* ---------- sort ---------- *)

  Local Notation vokP := (fun a : bytes => l_vok L a = true).

  Lemma parse_all_vok rest vs :
    parse_all E_NewVersion rest = Some vs -> Forall vokP rest.
  Proof.
    intros P. apply parse_all_Forall2 in P.
    induction P as [|a x l1 l2 E _ IH]; constructor; [|exact IH].
    rewrite (t_vok _ _ _ _ _ _ _ _ _ T a), E. reflexivity.
  Qed.

  Theorem sort_tie_none (rest : list bytes) :
    sort_spec rest = None -> exists text, cmd_sort L rest = err_prefix $"sort" text.
  Proof.
    unfold Spec.sort_spec, cmd_sort. destruct rest as [|a r]; [intros _; eexists; reflexivity|].
    destruct (parse_all E_NewVersion (a :: r)) as [vs|] eqn:P; [discriminate|]. intros _.
    destruct (first_invalid L (a :: r)) as [bad|] eqn:FI; [eexists; reflexivity|].
    exfalso. apply first_invalid_none in FI. apply parse_all_None in P.
    destruct P as (x & Hx & Px). rewrite Forall_forall in FI. specialize (FI x Hx).
    rewrite (t_vok _ _ _ _ _ _ _ _ _ T x), Px in FI. discriminate.
  Qed.

  (* the accepted texts on which the order laws hold (everything: [fun _ => True]) *)
  Variable P : bytes -> Prop.
  Hypothesis SO : sort_ok V E_NewVersion V_Compare sort_by P.
  Hypothesis TP : TotalPreorderOn P (l_vcmp L).

  (* what a `sort` needs of its arguments: when all are accepted they are in P, and Compare-equal ones
     print the same *)
  Definition sort_hyp (rest : list bytes) : Prop :=
    Forall vokP rest -> Forall P rest /\ show_respects L rest.

  Theorem sort_tie_upto (rest out : list bytes) :
    Forall P rest ->
    sort_spec rest = Some out ->
    rest <> [] /\ first_invalid L rest = None /\
    exists args',
      Permutation args' rest /\ Sorted (cle (l_vcmp L)) args' /\
      Forall2 (ceq (l_vcmp L)) args' (isort (l_vcmp L) rest) /\
      out = map (l_vshow L) args'.
  Proof.
    intros HP. unfold Spec.sort_spec. destruct rest as [|a0 r0]; [discriminate|].
    set (rest := a0 :: r0) in *.
    destruct (parse_all E_NewVersion rest) as [vs|] eqn:P0; [|discriminate].
    intros H. injection H as <-.
    pose proof (parse_all_vok rest vs P0) as OK. rename P0 into PA.
    split; [discriminate|]. split; [apply first_invalid_none; exact OK|].
    apply parse_all_Forall2 in PA.
    set (sv := sort_by V V_Compare vs).
    assert (Pv : Forall (parsed_in V E_NewVersion P) vs).
    { clear - PA HP. induction PA as [|a x l1 l2 E _ IH]; [constructor|].
      inversion HP; subst. constructor; [exists a; split; assumption | apply IH; assumption]. }
    pose proof (s_perm _ _ _ _ _ SO vs) as Perm. fold sv in Perm.
    pose proof (s_sorted _ _ _ _ _ SO vs Pv) as Srt. fold sv in Srt.
    destruct (Permutation_Forall2 (Permutation_sym Perm) (Forall2_flip' _ _ _ PA)) as (args' & Pa & Fa).
    apply Forall2_flip' in Fa. cbv beta in Fa.
    exists args'. split; [apply Permutation_sym; exact Pa|].
    assert (S' : Sorted (cle (l_vcmp L)) args').
    { refine (Sorted_transfer (fun a x => E_NewVersion a = Some x) _ _ _ args' sv Fa Srt).
      intros a b x y Ea Eb Le. rewrite (t_cmp _ _ _ _ _ _ _ _ _ T a b x y Ea Eb) in Le.
      unfold cle. destruct (l_vcmp L a b); cbv in Le; congruence. }
    split; [exact S'|]. split.
    - apply (any_sort_agrees_with_isort_on bytes P (l_vcmp L) TP rest args' HP);
        [apply Permutation_sym; exact Pa | exact S'].
    - apply (Forall2_map_r (fun a x => E_NewVersion a = Some x)); [exact Fa|].
      intros a x E. apply (t_show _ _ _ _ _ _ _ _ _ T a x E).
  Qed.

  Theorem sort_tie (rest : list bytes) :
    sort_hyp rest ->
    match sort_spec rest with
    | Some out => cmd_sort L rest = Ok (join $" " (map quote out))
    | None => exists text, cmd_sort L rest = err_prefix $"sort" text
    end.
  Proof.
    intros SH. destruct (sort_spec rest) as [out|] eqn:S; [|apply sort_tie_none; exact S].
    assert (OK : Forall vokP rest).
    { unfold Spec.sort_spec in S. destruct rest as [|a r]; [discriminate|].
      destruct (parse_all E_NewVersion (a :: r)) as [vs|] eqn:PA; [|discriminate].
      apply (parse_all_vok _ _ PA). }
    destruct (SH OK) as (HP & SR).
    destruct (sort_tie_upto rest out HP S) as (Ne & FI & args' & Pa & _ & F2 & ->).
    unfold cmd_sort. rewrite FI. destruct rest as [|a r]; [congruence|].
    f_equal. rewrite map_map. f_equal. symmetry.
    assert (M : map (l_vshow L) args' = map (l_vshow L) (isort (l_vcmp L) (a :: r))).
    { apply (Forall2_map_eq (ceq (l_vcmp L))); [exact F2|].
      intros x y Hx Hy E. apply SR; [| |exact E].
      - eapply Permutation_in; [exact Pa | exact Hx].
      - apply isort_in in Hy. exact Hy. }
    rewrite <- (map_map (l_vshow L) quote), <- (map_map (l_vshow L) quote (isort _ _)), M. reflexivity.
  Qed.

  (* ---------- runEcosystem ---------- *)

  Lemma shown_err cmd text txt :
    shown (err_prefix cmd text) (cmd_error cmd txt, 1).
  Proof. unfold err_prefix, cmd_error. apply shown_cmd. Qed.

  Theorem runEcosystem_tie (args : list bytes) :
    (forall rest, args = $"sort" :: rest -> sort_hyp rest) ->
    shown (run_ecosystem L args) (runEcosystem_spec args).
  Proof.
    intros SR. unfold Spec.runEcosystem_spec, run_ecosystem.
    destruct args as [|command rest].
    { rewrite (t_name _ _ _ _ _ _ _ _ _ T). apply shown_fixed. }
    destruct (beq command $"compare") eqn:B1.
    { apply beq_eq in B1. subst command. pose proof (compare_tie rest) as H.
      destruct (compare_spec rest) as [out|].
      - rewrite H. apply shown_ok.
      - destruct H as (text & ->). apply shown_err. }
    destruct (beq command $"sort") eqn:B2.
    { apply beq_eq in B2. subst command. pose proof (sort_tie rest (SR rest eq_refl)) as H.
      destruct (sort_spec rest) as [out|].
      - rewrite H. unfold sort_line. rewrite trim_space_quoted. apply shown_ok.
      - destruct H as (text & ->). apply shown_err. }
    destruct (beq command $"contains") eqn:B3.
    { apply beq_eq in B3. subst command. pose proof (contains_tie rest) as H.
      destruct (contains_spec rest) as [out|].
      - rewrite H. apply shown_ok.
      - destruct H as (text & ->). apply shown_err. }
    rewrite (t_name _ _ _ _ _ _ _ _ _ T). apply shown_fixed.
  Qed.

  (* a successful sort without [show_respects]: the line of a sorted permutation that agrees with the
     model's sorted list class by class *)
  Theorem runEcosystem_sort_upto (rest : list bytes) (line : bytes) :
    (Forall vokP rest -> Forall P rest) ->
    runEcosystem_spec ($"sort" :: rest) = (line, 0) ->
    exists args',
      Permutation args' rest /\ Sorted (cle (l_vcmp L)) args' /\
      Forall2 (ceq (l_vcmp L)) args' (isort (l_vcmp L) rest) /\
      line = join $" " (map (fun a => quote (l_vshow L a)) args') /\
      exists line', run_ecosystem L ($"sort" :: rest) = Ok line'.
  Proof.
    intros HP0. unfold Spec.runEcosystem_spec.
    change (beq $"sort" $"compare") with false. change (beq $"sort" $"sort") with true. cbv iota.
    destruct (sort_spec rest) as [out|] eqn:S; [|intros H; discriminate].
    intros H. injection H as <-.
    assert (OK : Forall vokP rest).
    { unfold Spec.sort_spec in S. destruct rest as [|a r]; [discriminate|].
      destruct (parse_all E_NewVersion (a :: r)) as [vs|] eqn:PA; [|discriminate].
      apply (parse_all_vok _ _ PA). }
    destruct (sort_tie_upto rest out (HP0 OK) S) as (Ne & FI & args' & Pa & Sa & F2 & ->).
    exists args'. repeat split; try assumption.
    - unfold sort_line. rewrite trim_space_quoted, map_map. reflexivity.
    - cbn [run_ecosystem]. change (beq $"sort" $"compare") with false.
      change (beq $"sort" $"sort") with true. cbv iota.
      unfold cmd_sort. rewrite FI. destruct rest; [congruence|]. eexists; reflexivity.
  Qed.
End Ties.

(* the exit status needs neither the sort hypotheses nor [show_respects] *)
Section ExitCode.
  Variable V VR : Type.
  Variable E_Name : bytes.
  Variable E_NewVersion : bytes -> option V.
  Variable E_NewVersionRange : bytes -> option VR.
  Variable VR_Contains : VR -> V -> bool.
  Variable V_Compare : V -> V -> Z.
  Variable V_String : V -> bytes.
  Variable sort_by : forall A : Type, (A -> A -> Z) -> list A -> list A.
  Variable e1 e2 e3 : list bytes -> bytes.
  Variable L : lib_ops.
  Hypothesis T : lib_ties V VR E_Name E_NewVersion E_NewVersionRange VR_Contains V_Compare V_String L.

  Theorem runEcosystem_exit_code (args : list bytes) :
    snd (runEcosystem_spec V VR E_Name E_NewVersion E_NewVersionRange VR_Contains V_Compare V_String
                           sort_by e1 e2 e3 args) = exit_code (run_ecosystem L args).
  Proof.
    unfold runEcosystem_spec, run_ecosystem.
    destruct args as [|command rest]; [reflexivity|].
    destruct (beq command $"compare").
    { pose proof (compare_tie V VR E_Name E_NewVersion E_NewVersionRange VR_Contains V_Compare V_String L T rest) as H.
      destruct (compare_spec V E_NewVersion V_Compare rest); [rewrite H; reflexivity|].
      destruct H as (text & ->). reflexivity. }
    destruct (beq command $"sort").
    { destruct (sort_spec V E_NewVersion V_Compare V_String sort_by rest) as [out|] eqn:S.
      - unfold sort_spec in S. destruct rest as [|a r]; [discriminate|].
        destruct (parse_all E_NewVersion (a :: r)) as [vs|] eqn:P; [|discriminate].
        pose proof (parse_all_vok V VR E_Name E_NewVersion E_NewVersionRange VR_Contains V_Compare V_String L T _ _ P) as OK.
        apply first_invalid_none in OK. unfold cmd_sort. rewrite OK. reflexivity.
      - destruct (sort_tie_none V VR E_Name E_NewVersion E_NewVersionRange VR_Contains V_Compare V_String
                                sort_by L T rest S) as (text & ->). reflexivity. }
    destruct (beq command $"contains").
    { pose proof (contains_tie V VR E_Name E_NewVersion E_NewVersionRange VR_Contains V_Compare V_String L T rest) as H.
      destruct (contains_spec V VR E_NewVersion E_NewVersionRange VR_Contains rest); [rewrite H; reflexivity|].
      destruct H as (text & ->). reflexivity. }
    reflexivity.
  Qed.
End ExitCode.

(* ---------- the theorems about the generated functions ---------- *)

Section Generated.
  Variable V VR : Type.
  Variable E_Name : bytes.
  Variable E_NewVersion : bytes -> option V.
  Variable E_NewVersionRange : bytes -> option VR.
  Variable VR_Contains : VR -> V -> bool.
  Variable V_Compare : V -> V -> Z.
  Variable V_String : V -> bytes.
  Variable sort_by : forall A : Type, (A -> A -> Z) -> list A -> list A.
  Variable e1 e2 e3 : list bytes -> bytes.
  Variable L : lib_ops.
  Hypothesis T : lib_ties V VR E_Name E_NewVersion E_NewVersionRange VR_Contains V_Compare V_String L.

  Theorem compare_generated_tie (args : list bytes) :
    exists r, G.compare V E_NewVersion V_Compare args = Done r /\
      match r with
      | Some out => cmd_compare L args = Ok (dec_z out)
      | None => exists text, cmd_compare L args = err_prefix $"compare" text
      end.
  Proof.
    eexists. split; [apply compare_eq|].
    apply (compare_tie V VR E_Name E_NewVersion E_NewVersionRange VR_Contains V_Compare V_String L T).
  Qed.

  Theorem contains_generated_tie (args : list bytes) :
    exists r, G.contains V VR E_NewVersion E_NewVersionRange VR_Contains args = Done r /\
      match r with
      | Some out => cmd_contains L args = Ok (fmt_bool out)
      | None => exists text, cmd_contains L args = err_prefix $"contains" text
      end.
  Proof.
    eexists. split; [apply contains_eq|].
    apply (contains_tie V VR E_Name E_NewVersion E_NewVersionRange VR_Contains V_Compare V_String L T).
  Qed.

  Variable P : bytes -> Prop.
  Hypothesis SO : sort_ok V E_NewVersion V_Compare sort_by P.
  Hypothesis TP : TotalPreorderOn P (l_vcmp L).

  Theorem sort_generated_tie (fuel : nat) (args : list bytes) :
    fits args -> (length args < fuel)%nat -> Forall P args ->
    exists r, G.sort V E_NewVersion V_Compare V_String sort_by fuel args = Done r /\
      match r with
      | Some out =>
          (exists args',
             Permutation args' args /\ Sorted (cle (l_vcmp L)) args' /\
             Forall2 (ceq (l_vcmp L)) args' (isort (l_vcmp L) args) /\
             out = map (l_vshow L) args') /\
          (show_respects L args -> cmd_sort L args = Ok (join $" " (map quote out)))
      | None => exists text, cmd_sort L args = err_prefix $"sort" text
      end.
  Proof.
    intros F Hf HP. eexists. split.
    { apply sort_eq; [apply sort_len_of_perm, (s_perm _ _ _ _ _ SO) | exact F | exact Hf]. }
    destruct (sort_spec V E_NewVersion V_Compare V_String sort_by args) as [out|] eqn:S.
    - split.
      + destruct (sort_tie_upto V VR E_Name E_NewVersion E_NewVersionRange VR_Contains V_Compare V_String
                                sort_by L T P SO TP args out HP S) as (_ & _ & H). exact H.
      + intros SR.
        pose proof (sort_tie V VR E_Name E_NewVersion E_NewVersionRange VR_Contains V_Compare V_String
                             sort_by L T P SO TP args (fun _ => conj HP SR)) as H.
        rewrite S in H. exact H.
    - apply (sort_tie_none V VR E_Name E_NewVersion E_NewVersionRange VR_Contains V_Compare V_String
                           sort_by L T args S).
  Qed.

  Theorem runEcosystem_generated_tie (fuel : nat) (args : list bytes) :
    fits args -> (length args < fuel)%nat ->
    (forall rest, args = $"sort" :: rest ->
       Forall (fun a => l_vok L a = true) rest -> Forall P rest /\ show_respects L rest) ->
    exists r,
      G.runEcosystem V VR E_Name E_NewVersion E_NewVersionRange VR_Contains V_Compare V_String sort_by
                     e1 e2 e3 fuel args = Done r /\
      shown (run_ecosystem L args) r.
  Proof.
    intros F Hf SR. eexists. split.
    { apply runEcosystem_eq; [apply sort_len_of_perm, (s_perm _ _ _ _ _ SO) | exact F | exact Hf]. }
    apply (runEcosystem_tie V VR E_Name E_NewVersion E_NewVersionRange VR_Contains V_Compare V_String
                            sort_by e1 e2 e3 L T P SO TP args SR).
  Qed.
End Generated.

(* ---------- vers ---------- *)

Section VersTies.
  Variable vers_Contains : nat -> bytes -> bytes -> res (option bool).
  Variable ev : list bytes -> bytes.
  Variable vers : bytes -> bytes -> vres.

  (* versContains: the arity check, then vers.Contains passed through *)
  Theorem versContains_tie (fuel : nat) (args : list bytes) :
    (forall r v, args = [r; v] -> vers_Contains fuel r v = Done (opt_of_vres (vers r v))) ->
    G.versContains vers_Contains fuel args =
    Done (match args with [r; v] => opt_of_vres (vers r v) | _ => None end).
  Proof.
    intros H. rewrite versContains_eq.
    destruct args as [|a [|b [|c r]]]; try reflexivity. apply H. reflexivity.
  Qed.

  Theorem runVers_spec_tie (args : list bytes) :
    shown (run_vers vers args) (runVers_spec ev (fun r v => opt_of_vres (vers r v)) args).
  Proof.
    unfold run_vers, runVers_spec. destruct args as [|command rest]; [apply shown_fixed|].
    destruct (beq command $"contains") eqn:Bc; [|apply shown_fixed].
    apply beq_eq in Bc. subst command.
    destruct rest as [|r [|v [|c t]]];
      try (change ($"Error running command 'vers contains': contains requires exactly 2 arguments: <vers-range> <version>")
             with ($"Error running command '" ++ $"vers contains" ++ $"': " ++
                   $"contains requires exactly 2 arguments: <vers-range> <version>");
           apply (shown_cmd $"vers contains")).
    destruct (vers r v); cbn [opt_of_vres fmt_bool]; try apply shown_ok.
    change ($"Error running command 'vers contains': ")
      with ($"Error running command '" ++ $"vers contains" ++ $"': " ++ []).
    apply (shown_cmd $"vers contains").
  Qed.

  Theorem runVers_generated_tie (fuel : nat) (args : list bytes) :
    (forall c r v, args = [c; r; v] -> vers_Contains fuel r v = Done (opt_of_vres (vers r v))) ->
    exists r, G.runVers vers_Contains ev fuel args = Done r /\ shown (run_vers vers args) r.
  Proof.
    intros H. eexists. split; [apply (runVers_eq vers_Contains ev _ fuel args H)|].
    apply runVers_spec_tie.
  Qed.
End VersTies.

Print Assumptions versContains_tie.
Print Assumptions runVers_spec_tie.
Print Assumptions runVers_generated_tie.
Print Assumptions compare_tie.
Print Assumptions contains_tie.
Print Assumptions sort_tie_none.
Print Assumptions sort_tie_upto.
Print Assumptions sort_tie.
Print Assumptions runEcosystem_tie.
Print Assumptions runEcosystem_sort_upto.
Print Assumptions runEcosystem_exit_code.
Print Assumptions compare_generated_tie.
Print Assumptions contains_generated_tie.
Print Assumptions sort_generated_tie.
Print Assumptions runEcosystem_generated_tie.
