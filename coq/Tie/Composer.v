(* Tie/Composer.v — the generated translation of pkg/ecosystem/composer (Gen/Code/Composer.v)
   against the model (Eco/Composer): Version.Compare (loop-free, fully translated). *)
From Coq Require Import ZArith List Bool Lia.
From Verif.Base Require Import Bytes GoNum GoOps Ord.
From Verif.Eco.Composer Require Version.
From Verif.Gen.Code Require Composer.
From Verif.Tie Require Import Tactics.
Import ListNotations.

Module G := Verif.Gen.Code.Composer.
Module M := Verif.Eco.Composer.Version.

(* a dev branch keeps only its name; a release its six numbers *)
Definition abs (v : G.Version) : M.core :=
  if G.Version_isDev v then M.CDev (G.Version_devBranch v)
  else M.CRel (G.Version_major v) (G.Version_minor v) (G.Version_patch v) (G.Version_extra v)
              (G.Version_stability v) (G.Version_stabilityNum v).

Theorem tie_composer_compareInt : forall a b, G.compareInt a b = Z_of_cmp (Z.compare a b).
Proof. tie_solve. Qed.
Print Assumptions tie_composer_compareInt.

Theorem tie_composer_compare : forall a b, G.Version_Compare a b = Z_of_cmp (M.cmp_core (abs a) (abs b)).
Proof. tie_solve. Qed.
Print Assumptions tie_composer_compare.

Theorem tie_composer_string : forall v, G.Version_String v = G.Version_original v.
Proof. tie_solve. Qed.
Print Assumptions tie_composer_string.
