(* Tie/Conan.v — the generated translation of pkg/ecosystem/conan (Gen/Code/Conan.v) against the
   model (Eco/Conan), version level.  compareVersionParts (index loop) and comparePrerelease
   (strings.Split + loop) are outside the translated fragment: Version.Compare is tied
   generically in them.

   Representation: the Go struct keeps the pre-release as one text, "" meaning none; the model
   keeps [option (list bytes)], the dot-separated identifiers.  [abs] splits the text
   ([opt_pre]); comparePrerelease is specified at [opt_pre] of its arguments, with no
   well-formedness hypothesis (the Go function tests "" itself).  The build field has no
   counterpart in the model's core (Compare never looks at it). *)
From Coq Require Import ZArith List Bool Lia.
From Verif.Base Require Import Bytes GoNum GoOps Ord.
From Verif.Eco Require Import VLayer.
From Verif.Eco.Conan Require Version.
From Verif.Gen.Code Require Conan.
From Verif.Tie Require Import Tactics.
Import ListNotations.

Module G := Verif.Gen.Code.Conan.
Module M := Verif.Eco.Conan.Version.

(* "" = no pre-release; otherwise strings.Split(p, ".") *)
Definition opt_pre (p : bytes) : option (list bytes) :=
  if beq p [] then None else Some (split_c "."%char p).

Definition abs (v : G.Version) : M.core :=
  {| M.c_parts := G.Version_parts v; M.c_pre := opt_pre (G.Version_prerelease v) |}.

(* the version value of the model: the core and the text String() returns *)
Definition abs_ver (v : G.Version) : M.ver :=
  {| v_core := abs v; v_orig := G.Version_original v |}.

Theorem tie_conan_compareInt : forall a b, G.compareInt a b = Z_of_cmp (Z.compare a b).
Proof. tie_solve. Qed.
Print Assumptions tie_conan_compareInt.

Theorem tie_conan_Version_String : forall v, G.Version_String v = M.show (abs_ver v).
Proof. tie_solve. Qed.
Print Assumptions tie_conan_Version_String.

(* the models of the Section variables stay folded *)
Local Opaque M.parts_cmp M.pre_cmp split_c.

Section Compare.
  Variable compareVersionParts : list bytes -> list bytes -> Z.
  Variable comparePrerelease : bytes -> bytes -> Z.
  Hypothesis compareVersionParts_model : forall p q,
    compareVersionParts p q = Z_of_cmp (M.parts_cmp p q).
  Hypothesis comparePrerelease_model : forall p q,
    comparePrerelease p q = Z_of_cmp (M.pre_cmp (opt_pre p) (opt_pre q)).

  Theorem tie_conan_Version_Compare : forall a b,
    G.Version_Compare compareVersionParts comparePrerelease a b = Z_of_cmp (M.cmp_core (abs a) (abs b)).
  Proof. tie_solve_with2 compareVersionParts_model comparePrerelease_model. Qed.
End Compare.
Print Assumptions tie_conan_Version_Compare.
