(* Tie/ConanRange.v — the generated translation of pkg/ecosystem/conan (Gen/Code/Conan.v) against
   the model (Eco/Conan/Range.v), range level.  tildeMatch / caretMatch (index expressions) and
   the callees of Version.Compare are outside the translated fragment: the switch
   constraintSatisfied, groupSatisfied and Contains are tied generically in them.

   Representation: a Go constraint carries the PARSED bound (a Version struct), and Contains
   takes a parsed version; the model's constraint carries the bound TEXT and Contains takes the
   text of the probed version, with an oracle [vcmp] for Compare on texts and
   Version.parse_core (through [parts_of]) for the main parts.  Section Model therefore assumes
   a function [txt] giving, for every Version value, a text it was parsed from:
     txt_cmp   : the oracle on the texts is the model's comparison of the abstracted structs,
     txt_parts : the model's parser recovers the parts field from the text.
   Both hold for every value NewVersion returns (with txt = original); they are the minimal link
   between "parsed struct" and "text + oracle". *)
From Coq Require Import ZArith List Bool Lia.
From Verif.Base Require Import Bytes GoNum GoOps Ord.
From Verif.Eco Require Import RangeCore.
From Verif.Eco.Conan Require Version Range.
From Verif.Gen.Code Require Conan.
From Verif.Tie Require Import Tactics.
From Verif.Tie Require Conan.
Import ListNotations.

Module G := Verif.Gen.Code.Conan.
Module M := Verif.Eco.Conan.Version.
Module R := Verif.Eco.Conan.Range.
Module T := Verif.Tie.Conan.

(* isOperator: the switch is membership in the generated operator list of the model *)
Theorem tie_conan_isOperator : forall s, G.isOperator s = R.is_operator s.
Proof.
  (* existsb over the (closed) operator list is kept folded by tie_solve: unroll it first *)
  intros s. unfold R.is_operator, mem, R.conan_ops. cbn [existsb]. tie_solve.
Qed.
Print Assumptions tie_conan_isOperator.

Section Switch.
  Variable tildeMatch caretMatch : G.VersionRange -> G.Version -> G.Version -> bool.
  Variable compareVersionParts : list bytes -> list bytes -> Z.
  Variable comparePrerelease : bytes -> bytes -> Z.

  Local Notation compare := (G.Version_Compare compareVersionParts comparePrerelease).
  Local Notation constraintSatisfied :=
    (G.VersionRange_constraintSatisfied tildeMatch caretMatch compareVersionParts comparePrerelease).
  Local Notation groupSatisfied :=
    (G.VersionRange_groupSatisfied tildeMatch caretMatch compareVersionParts comparePrerelease).
  Local Notation Contains :=
    (G.VersionRange_Contains tildeMatch caretMatch compareVersionParts comparePrerelease).

  (* the operator switch, for any Compare / tildeMatch / caretMatch (they stay folded) *)
  Local Opaque G.Version_Compare.
  Theorem tie_conan_VersionRange_constraintSatisfied : forall r c v,
    constraintSatisfied r c v =
    if beq (G.constraint_operator c) $"~" then tildeMatch r v (G.constraint_version c)
    else if beq (G.constraint_operator c) $"^" then caretMatch r v (G.constraint_version c)
    else sat (sem6 (G.constraint_operator c)) (cmp_of_Z (compare v (G.constraint_version c))).
  Proof. tie_solve. Qed.

  (* ---- against the model's sat_constraint / contains ---- *)
  Section Model.
    Hypothesis compareVersionParts_model : forall p q,
      compareVersionParts p q = Z_of_cmp (M.parts_cmp p q).
    Hypothesis comparePrerelease_model : forall p q,
      comparePrerelease p q = Z_of_cmp (M.pre_cmp (T.opt_pre p) (T.opt_pre q)).
    (* tildeMatch / caretMatch: "version >= bound", then the test on the main parts *)
    Hypothesis tildeMatch_model : forall r v c,
      tildeMatch r v c =
      R.ge_c (cmp_of_Z (compare v c)) && R.tilde_parts (G.Version_parts v) (G.Version_parts c).
    Hypothesis caretMatch_model : forall r v c,
      caretMatch r v c =
      R.ge_c (cmp_of_Z (compare v c)) && R.caret_parts (G.Version_parts v) (G.Version_parts c).

    Variable vcmp : bytes -> bytes -> comparison.
    Variable txt : G.Version -> bytes.
    Hypothesis txt_cmp : forall a b, vcmp (txt a) (txt b) = M.cmp_core (T.abs a) (T.abs b).
    Hypothesis txt_parts : forall a, R.parts_of (txt a) = Some (G.Version_parts a).

    Definition abs_c (c : G.constraint) : R.constraint :=
      (G.constraint_operator c, txt (G.constraint_version c)).
    Definition abs_r (r : G.VersionRange) : R.range :=
      {| R.r_groups := map (map abs_c) (G.VersionRange_orGroups r);
         R.r_orig := G.VersionRange_original r |}.

    Lemma compare_model : forall a b, cmp_of_Z (compare a b) = vcmp (txt a) (txt b).
    Proof.
      intros a b.
      rewrite (T.tie_conan_Version_Compare _ _ compareVersionParts_model comparePrerelease_model).
      rewrite cmp_of_Z_of_cmp, txt_cmp. reflexivity.
    Qed.

    Theorem tie_conan_VersionRange_constraintSatisfied_model : forall r c v,
      constraintSatisfied r c v = R.sat_constraint vcmp (txt v) (abs_c c).
    Proof.
      intros r c v. rewrite tie_conan_VersionRange_constraintSatisfied.
      unfold R.sat_constraint, abs_c.
      rewrite tildeMatch_model, caretMatch_model, !compare_model, !txt_parts. reflexivity.
    Qed.

    Theorem tie_conan_VersionRange_groupSatisfied : forall r g v,
      groupSatisfied r g v = forallb (R.sat_constraint vcmp (txt v)) (map abs_c g).
    Proof.
      intros r g v. unfold G.VersionRange_groupSatisfied.
      apply forallb_map_eq. intros c. apply tie_conan_VersionRange_constraintSatisfied_model.
    Qed.

    (* the len(orGroups) == 0 test is subsumed by the disjunction *)
    Theorem tie_conan_VersionRange_Contains : forall r v,
      Contains r v = R.contains vcmp (abs_r r) (txt v).
    Proof.
      intros r v. unfold G.VersionRange_Contains, R.contains, abs_r. cbn [R.r_groups].
      destruct (G.VersionRange_orGroups r) as [|g gs]; [reflexivity|].
      replace (Z.of_nat (length (g :: gs)) =? 0)%Z with false by (cbn [length]; lia).
      apply existsb_map_eq. intros x. apply tie_conan_VersionRange_groupSatisfied.
    Qed.

    Theorem tie_conan_VersionRange_String : forall r, G.VersionRange_String r = R.show (abs_r r).
    Proof. tie_solve. Qed.
  End Model.
End Switch.
Print Assumptions tie_conan_VersionRange_constraintSatisfied.
Print Assumptions tie_conan_VersionRange_constraintSatisfied_model.
Print Assumptions tie_conan_VersionRange_groupSatisfied.
Print Assumptions tie_conan_VersionRange_Contains.
Print Assumptions tie_conan_VersionRange_String.
