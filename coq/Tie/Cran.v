(* Tie/Cran.v — VERSION level: the generated translation of pkg/ecosystem/cran
   (Gen/Code/Cran.v) against the model (Eco/Cran/Version).  Version.Compare has a loop and is outside
   the translated fragment: only its helpers and String are tied here.  The range-level ties are in
   Tie/CranRange.v (which depends on this file, never the other way round). *)
From Coq Require Import ZArith List Bool Lia.
From Verif.Base Require Import Bytes GoNum GoOps Ord.
From Verif.Eco.Cran Require Version.
From Verif.Gen.Code Require Cran.
From Verif.Tie Require Import Tactics.
Import ListNotations.

Module G := Verif.Gen.Code.Cran.
Module M := Verif.Eco.Cran.Version.

Definition abs (v : G.Version) : M.core := G.Version_components v.

Theorem tie_cran_compareInt : forall a b, G.compareInt a b = Z_of_cmp (Z.compare a b).
Proof. tie_solve. Qed.
Print Assumptions tie_cran_compareInt.

Theorem tie_cran_string : forall v, G.Version_String v = G.Version_original v.
Proof. tie_solve. Qed.
Print Assumptions tie_cran_string.
