(* Tie/CranRange.v — RANGE level: the generated translation of pkg/ecosystem/cran
   (Gen/Code/Cran.v) against the model (Eco/Cran/Range).  Version.Compare has a loop and is outside the
   translated fragment: the range functions are tied generically in it (a Section variable of the
   generated code).  Reuses [abs] of Tie/Cran.v. *)
From Coq Require Import ZArith List Bool Lia.
From Verif.Base Require Import Bytes GoNum GoOps Ord.
From Verif.Eco Require Import RangeCore.
From Verif.Eco.Cran Require Version Range.
From Verif.Gen.Code Require Cran.
From Verif.Tie Require Import Tactics.
From Verif.Tie Require Import Cran.
Import ListNotations.

Section Range.
  (* any Compare (the Go method is outside the fragment) *)
  Variable compare : G.Version -> G.Version -> Z.

  Theorem tie_cran_satisfiesConstraint : forall v c,
    G.satisfiesConstraint compare v c =
    sat (rc_sem Range.cfg (G.constraint_operator c)) (cmp_of_Z (compare v (G.constraint_version c))).
  Proof. tie_solve. Qed.

  Theorem tie_cran_contains : forall r v,
    G.VersionRange_Contains compare r v =
    forallb (fun c => sat (rc_sem Range.cfg (G.constraint_operator c)) (cmp_of_Z (compare v (G.constraint_version c))))
            (G.VersionRange_constraints r).
  Proof.
    intros. unfold G.VersionRange_Contains. apply forallb_ext_in. intros c _. apply tie_cran_satisfiesConstraint.
  Qed.

  (* with a Compare that has the sign of the model's comparison *)
  Hypothesis compare_model : forall a b, compare a b = Z_of_cmp (M.cmp_core (abs a) (abs b)).

  Corollary tie_cran_contains_model : forall r v,
    G.VersionRange_Contains compare r v =
    forallb (fun c => sat (rc_sem Range.cfg (G.constraint_operator c)) (M.cmp_core (abs v) (abs (G.constraint_version c))))
            (G.VersionRange_constraints r).
  Proof.
    intros. rewrite tie_cran_contains. apply forallb_ext_in. intros c _.
    rewrite compare_model, cmp_of_Z_of_cmp. reflexivity.
  Qed.
End Range.
Print Assumptions tie_cran_satisfiesConstraint.
Print Assumptions tie_cran_contains.
Print Assumptions tie_cran_contains_model.
