(* Tie/Debian.v — VERSION level: the generated translation of pkg/ecosystem/debian
   (Gen/Code/Debian.v) against the model (Eco/Debian/Version).  compareDebianVersionString (loop) is outside the
   translated fragment: Compare is tied generically in it.  The range-level ties are in
   Tie/DebianRange.v (which depends on this file, never the other way round). *)
From Coq Require Import ZArith List Bool Lia.
From Verif.Base Require Import Bytes GoNum GoOps Ord.
From Verif.Eco.Debian Require Version.
From Verif.Gen.Code Require Debian.
From Verif.Tie Require Import Tactics.
Import ListNotations.

Module G := Verif.Gen.Code.Debian.
Module M := Verif.Eco.Debian.Version.

Definition abs (v : G.Version) : M.core :=
  {| M.epoch := G.Version_epoch v; M.upstream := G.Version_upstream v; M.revision := G.Version_revision v |}.

Theorem tie_debian_string : forall v, G.Version_String v = G.Version_original v.
Proof. tie_solve. Qed.
Print Assumptions tie_debian_string.

(* the model of the Section variable stays folded *)
Local Opaque M.vstring_cmp.

Section Compare.
  Variable compareDebianVersionString : bytes -> bytes -> Z.
  Hypothesis compareDebianVersionString_model : forall p q, compareDebianVersionString p q = Z_of_cmp (M.vstring_cmp p q).

  Theorem tie_debian_compare : forall a b,
    G.Version_Compare compareDebianVersionString a b = Z_of_cmp (M.cmp_core (abs a) (abs b)).
  Proof. tie_solve_with compareDebianVersionString_model. Qed.
End Compare.
Print Assumptions tie_debian_compare.
