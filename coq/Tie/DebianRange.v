(* Tie/DebianRange.v — RANGE level: the generated translation of pkg/ecosystem/debian
   (Gen/Code/Debian.v) against the range model of Eco/Debian.  The operator switch and Contains are tied
   generically in compareDebianVersionString (outside the translated fragment).  Reuses [abs] and
   tie_debian_compare of Tie/Debian.v. *)
From Coq Require Import ZArith List Bool Lia.
From Verif.Base Require Import Bytes GoNum GoOps Ord.
From Verif.Eco Require Import RangeCore.
From Verif.Eco.Debian Require Version Range.
From Verif.Gen.Code Require Debian.
From Verif.Tie Require Import Tactics.
From Verif.Tie Require Import Debian.
Import ListNotations.

(* the model of the Section variable stays folded *)
Local Opaque M.vstring_cmp.

Section Compare.
  Variable compareDebianVersionString : bytes -> bytes -> Z.
  Hypothesis compareDebianVersionString_model : forall p q, compareDebianVersionString p q = Z_of_cmp (M.vstring_cmp p q).

  (* range: the operator switch, for any Compare (it stays folded) *)
  Local Opaque G.Version_Compare.
  Theorem tie_debian_satisfiesConstraint : forall c v,
    G.satisfiesConstraint compareDebianVersionString v c =
    sat (rc_sem Range.cfg (G.constraint_operator c)) (cmp_of_Z (G.Version_Compare compareDebianVersionString v (G.constraint_version c))).
  Proof. tie_solve. Qed.

  Corollary tie_debian_satisfiesConstraint_model : forall c v,
    G.satisfiesConstraint compareDebianVersionString v c =
    sat (rc_sem Range.cfg (G.constraint_operator c)) (M.cmp_core (abs v) (abs (G.constraint_version c))).
  Proof. intros. rewrite tie_debian_satisfiesConstraint, (tie_debian_compare _ compareDebianVersionString_model), cmp_of_Z_of_cmp. reflexivity. Qed.

  Theorem tie_debian_contains : forall r v,
    G.VersionRange_Contains compareDebianVersionString r v =
    forallb (fun c => sat (rc_sem Range.cfg (G.constraint_operator c)) (M.cmp_core (abs v) (abs (G.constraint_version c))))
            (G.VersionRange_constraints r).
  Proof.
    intros. unfold G.VersionRange_Contains. apply forallb_ext_in. intros c _. apply tie_debian_satisfiesConstraint_model.
  Qed.
End Compare.
Print Assumptions tie_debian_satisfiesConstraint.
Print Assumptions tie_debian_satisfiesConstraint_model.
Print Assumptions tie_debian_contains.
