(* Tie/E2E/Alpine.v — END TO END for alpine: the bundle of the CLI section (Gen/Parse/CmdCore.v) built out
   of the functions generated from pkg/ecosystem/alpine, tied to [Top.model_lib $"alpine"].

     Name             Gen.Code.Alpine.Ecosystem_Name
     NewVersion       NOT translated by the generator (nil at version.go:72): the oracle field [nv]
     NewVersionRange  Gen.Parse.Alpine.Ecosystem_NewVersionRange, fuel length s + 7, made total
                      (it does not call NewVersion: the bounds are kept as text)
     Compare          NOT translated by the generator (operator == on []numericComponent at
                      version.go:210; a Section variable of Gen/Parse/Alpine.v): the oracle field [vcmp]
     String           Gen.Code.Alpine.Version_String
     Contains         Gen.Code.Alpine.VersionRange_Contains at Gen.Parse.Alpine.satisfiesConstraint at
                      [nv] and [vcmp]

   The range model of alpine is a RangeCore [range_cfg] with rc_eager = FALSE (the bound texts are parsed
   in Contains only): the generic construction is [lazy_lib_ties_on] of Tie/E2E/Golang.v (the lazy
   counterpart of [simple_lib_ties_on] of Common.v).

   Hypotheses: TWO oracle agreements,
     nv_agrees   : forall e s, nv e s = option_map (conc s) (M.parse_core (trim_space s))
        NewVersion accepts what the model's parse_core accepts on the trimmed text and returns [conc s c]:
        for a core [Valid v] the struct with the model's fields and original = s, for [Invalid _] the
        "string-only" struct (numeric = nil, read as the empty list) with original = s
     vcmp_agrees : forall e a b x y, nv e a = Some x -> nv e b = Some y ->
                   vcmp x y = Z_of_cmp (M.cmp_core (TV.abs x) (TV.abs y))
        on two values returned by NewVersion, Version.Compare returns the sign of the model's cmp_core
        ([TV.abs] of Tie/Alpine.v reads an empty numeric slice as nil; a value returned by NewVersion has
        numeric == nil or non-empty: [abs_conc])
   The translated helpers of Compare (compareInt, compareLetters, hasLeadingZero,
   compareNumericArraysNumeric, compareSuffixArrays, compareSuffixes) are tied to the model in
   Tie/Alpine.v and Tie/Loops/Alpine.v, but Version.Compare, which calls them, is not translated, so they
   do not enter the bundle.

   Which field of [lib_ties_on] depends on what:
     name      nothing (computation)
     vok       nv_agrees
     rok       nothing about the oracles (Tie/Parse/AlpineRange; closed statement: [alpine_rok_closed])
     cmp       nv_agrees + vcmp_agrees
     show      nv_agrees
     contains  nv_agrees + vcmp_agrees + Tie/Parse/AlpineRange (satisfiesConstraint is the generated one)

   [alpine_lib_ties_on]: all six fields of [lib_ties] on the texts of length < 2^63 - 64 ([short]);
   [alpine_lib_ties]: the record itself for the guarded bundle; [alpine_runEcosystem_e2e],
   [alpine_cli_e2e], [alpine_cli_e2e_exit]: the generated runEcosystem at this bundle against the CLI model. *)
From Coq Require Import ZArith List Ascii Bool Lia ZifyBool Permutation Sorted.
From Verif.Base Require Import Bytes GoNum GoOps Ord Sorting Imp ImpFacts ImpErr ImpCore BytesFacts.
From Verif.Cli Require Import Model.
From Verif.Eco Require Import RangeCore Iface VLayer.
From Verif.Eco.Alpine Require Version VersionFacts Range Entry.
From Verif.Gen.Code Require Alpine.
From Verif.Gen.Parse Require Alpine CmdCore.
From Verif.Tie Require Import Tactics.
From Verif.Tie Require Alpine AlpineRange.
From Verif.Tie.Loops Require Import Common Idents.
From Verif.Tie.Parse Require Import Common RangeCommon RangeTie RangeLazyTie.
From Verif.Tie.Parse Require AlpineRange.
From Verif.Tie.Cli Require Import Common Spec Ties.
From Verif.Tie.E2E Require Import Common.
From Verif.Tie.E2E Require Golang.
From Verif Require Top.
Import ListNotations.
Local Open Scope Z_scope.

Module G := Verif.Gen.Code.Alpine.
Module P := Verif.Gen.Parse.Alpine.
Module M := Verif.Eco.Alpine.Version.
Module MF := Verif.Eco.Alpine.VersionFacts.
Module RM := Verif.Eco.Alpine.Range.
Module TV := Verif.Tie.Alpine.
Module TR := Verif.Tie.AlpineRange.
Module PR := Verif.Tie.Parse.AlpineRange.

(* ---------- the Go value of a parsed core ---------- *)

Definition conc_numcomp (n : M.numcomp) : G.numericComponent :=
  G.mk_numericComponent (M.nc_value n) (M.nc_orig n).
Definition conc_suffix (x : M.suffix) : G.suffix := G.mk_suffix (M.sf_name x) (M.sf_number x).

(* &Version{numeric, letter, suffixes, hash, build, original: s}; the string-only version has
   numeric == nil (the empty list of the translation) and zero values elsewhere *)
Definition conc (s : bytes) (c : M.core) : G.Version :=
  match c with
  | M.Valid v => G.mk_Version (map conc_numcomp (M.vc_numeric v)) (M.vc_letter v)
                              (map conc_suffix (M.vc_suffixes v)) (M.vc_hash v) (M.vc_build v) s
  | M.Invalid _ => G.mk_Version [] [] [] [] 0 s
  end.

Lemma abs_conc_numcomps l : map TV.abs_numcomp (map conc_numcomp l) = l.
Proof. induction l as [|n l IH]; [reflexivity|]. cbn [map]. rewrite IH. destruct n. reflexivity. Qed.

Lemma abs_conc_suffixes l : map TV.abs_suffix (map conc_suffix l) = l.
Proof. induction l as [|n l IH]; [reflexivity|]. cbn [map]. rewrite IH. destruct n. reflexivity. Qed.

Lemma map_opt_nil {A B} (f : A -> option B) l : M.map_opt f l = Some [] -> l = [].
Proof.
  destruct l as [|x r]; [reflexivity|]. cbn [M.map_opt].
  destruct (f x); [|discriminate]. destruct (M.map_opt f r); discriminate.
Qed.

(* what the parser returns: a non-empty numeric slice, or the string-only version of the text itself *)
Lemma parse_core_shape t c : M.parse_core t = Some c ->
  match c with M.Valid v => M.vc_numeric v <> [] | M.Invalid u => u = t end.
Proof.
  unfold M.parse_core. destruct t as [|c0 t0]; [discriminate|].
  set (t := c0 :: t0).
  destruct (M.match_pattern t) as [g|].
  - unfold M.parse_numeric_components.
    destruct (M.g_numeric g) as [|n0 nr]; [discriminate|].
    destruct (M.map_opt M.parse_numcomp (split_c "."%char (n0 :: nr))) as [numeric|] eqn:E; [|discriminate].
    destruct (M.parse_suffixes (M.g_suffix g)) as [suffixes|]; [|discriminate].
    destruct (M.parse_build (M.g_build g)) as [build|]; [|discriminate].
    intros H. injection H as <-. cbn [M.vc_numeric]. intros ->.
    apply map_opt_nil in E. pose proof (split_c_length "."%char (n0 :: nr)) as SL.
    rewrite E in SL. cbn [length] in SL. lia.
  - destruct (any_b is_digit t); [|discriminate].
    intros H. injection H as <-. reflexivity.
Qed.

Lemma abs_conc s c : M.parse_core (trim_space s) = Some c -> TV.abs (conc s c) = c.
Proof.
  intros H. apply parse_core_shape in H. destruct c as [v|u].
  - destruct v as [num lt suf hs bd]. cbn [M.vc_numeric] in H.
    unfold TV.abs, conc.
    cbn [G.Version_numeric G.Version_letter G.Version_suffixes G.Version_hash G.Version_build
         M.vc_numeric M.vc_letter M.vc_suffixes M.vc_hash M.vc_build].
    rewrite abs_conc_numcomps, abs_conc_suffixes.
    destruct num as [|n l]; [contradiction|]. reflexivity.
  - subst u. reflexivity.
Qed.

(* ---------- the oracles: the functions of version.go outside the translated fragments ---------- *)

Record oracles : Type := {
  nv : G.Ecosystem -> bytes -> option G.Version;   (* Ecosystem.NewVersion, not translated *)
  vcmp : G.Version -> G.Version -> Z;              (* Version.Compare, not translated *)
  nv_agrees : forall e s, nv e s = option_map (conc s) (M.parse_core (trim_space s));
  vcmp_agrees : forall e a b x y, nv e a = Some x -> nv e b = Some y ->
    vcmp x y = Z_of_cmp (M.cmp_core (TV.abs x) (TV.abs y))
}.

Section E2E.
  Variable O : oracles.

  (* ---------- the concrete bundle ---------- *)
  Definition Name : bytes := G.Ecosystem_Name G.mk_Ecosystem.
  Definition NV (s : bytes) : option G.Version := nv O G.mk_Ecosystem s.
  (* NewVersionRange uses no oracle; [let _ := O] only keeps the argument O after the Section is closed,
     so that every parser of the bundle is applied to O (NV O, NVR O) *)
  Definition NVR (s : bytes) : option G.VersionRange :=
    let _ := O in total None (P.Ecosystem_NewVersionRange (length s + 7) G.mk_Ecosystem s).
  Definition Compare : G.Version -> G.Version -> Z := vcmp O.
  Definition Contains : G.VersionRange -> G.Version -> bool :=
    G.VersionRange_Contains (P.satisfiesConstraint (nv O) (vcmp O)).

  Lemma NV_eq s : NV s = option_map (conc s) (M.parse_core (trim_space s)).
  Proof. apply (nv_agrees O). Qed.

  Lemma NVR_eq s : short s = true ->
    NVR s = option_map (fun rg => G.mk_VersionRange (map (mkc G.mk_constraint) (r_cs rg)) (r_orig rg))
                       (parse_range G.Version NV RM.cfg s).
  Proof.
    intros Hs. apply short_lt in Hs. unfold NVR. cbv zeta.
    rewrite (PR.tie_parse_alpine_newversionrange G.Version NV) by lia. reflexivity.
  Qed.

  (* satisfiesConstraint: the bound text parsed by NewVersion, then the switch on Compare *)
  Lemma satisfies_eq c y :
    P.satisfiesConstraint (nv O) (vcmp O) y c G.mk_Ecosystem =
    match NV (G.constraint_version c) with
    | Some w => sat (rc_sem RM.cfg (G.constraint_operator c)) (cmp_of_Z (Compare y w))
    | None => false
    end.
  Proof.
    unfold P.satisfiesConstraint, NV. cbv zeta.
    destruct (nv O G.mk_Ecosystem (G.constraint_version c)) as [w|]; [|reflexivity].
    fold (Compare y w). set (z := Compare y w). clearbody z.
    change (rc_sem RM.cfg) with sem6. unfold sem6, cmp_of_Z.
    set (tag := G.constraint_operator c). clearbody tag.
    destruct (beq tag $"=").
    { destruct (Z.compare_spec z 0); cbn [sat]; lia. }
    destruct (beq tag $"!=").
    { destruct (Z.compare_spec z 0); cbn [sat]; lia. }
    destruct (beq tag $">").
    { destruct (Z.compare_spec z 0); cbn [sat]; lia. }
    destruct (beq tag $">=").
    { destruct (Z.compare_spec z 0); cbn [sat]; lia. }
    destruct (beq tag $"<").
    { destruct (Z.compare_spec z 0); cbn [sat]; lia. }
    destruct (beq tag $"<=").
    { destruct (Z.compare_spec z 0); cbn [sat]; lia. }
    destruct (z ?= 0); reflexivity.
  Qed.

  Lemma eco_found :
    Top.eco_or_none $"alpine" =
    Some {| e_name := $"alpine"; e_v := mk_vops M.parse_core M.cmp_core M.raw_orig;
            e_r := mk_simple_rops RM.cfg |}.
  Proof. reflexivity. Qed.

  (* ---------- lib_ties ---------- *)

  Theorem alpine_lib_ties_on :
    lib_ties_on G.Version G.VersionRange Name NV NVR Contains Compare G.Version_String
                (Top.model_lib $"alpine") short.
  Proof.
    apply (Verif.Tie.E2E.Golang.lazy_lib_ties_on
             M.core M.parse_core M.cmp_core M.raw_orig RM.cfg $"alpine" eco_found eq_refl
             G.Version G.constraint G.VersionRange Name NV NVR Contains Compare
             G.Version_String G.mk_constraint (fun o cs => G.mk_VersionRange cs o)
             G.constraint_operator G.constraint_version TV.abs short).
    - reflexivity.
    - intros s _. rewrite (NV_eq s). destruct (M.parse_core (trim_space s)) as [c|] eqn:E; [|reflexivity].
      cbn [option_map]. rewrite (abs_conc s c E). reflexivity.
    - intros a b x y _ _ Ea Eb. unfold Compare. apply (vcmp_agrees O G.mk_Ecosystem a b x y Ea Eb).
    - intros a x _ E. rewrite (NV_eq a) in E. destruct (M.parse_core (trim_space a)) as [c|]; [|discriminate].
      injection E as <-. destruct c; reflexivity.
    - exact NVR_eq.
    - intros o cs y. unfold Contains, G.VersionRange_Contains. cbv zeta. cbn [G.VersionRange_constraints].
      apply forallb_ext_in. intros c _. apply satisfies_eq.
    - reflexivity.
    - reflexivity.
    - apply split_le_short. intros t p Hp. change (rc_split RM.cfg t) with (split_fields t) in Hp.
      apply split_fields_le. exact Hp.
  Qed.

  (* acceptance of a range text does not depend on any oracle *)
  Theorem alpine_rok_closed s : short s = true ->
    l_rok (Top.model_lib $"alpine") s =
    is_some (total None (P.Ecosystem_NewVersionRange (length s + 7) G.mk_Ecosystem s)).
  Proof. intros Hs. apply (o_rok _ _ _ _ _ _ _ _ _ _ alpine_lib_ties_on s Hs). Qed.

  (* the record of Tie/Cli/Common.v, for the bundle guarded by the length bound *)
  Corollary alpine_lib_ties :
    lib_ties G.Version G.VersionRange Name (guard short NV) (guard short NVR) Contains Compare
             G.Version_String (restrict (Top.model_lib $"alpine") short).
  Proof. apply lib_ties_guard, alpine_lib_ties_on. Qed.

  Theorem alpine_name_ok : Name = $"alpine".
  Proof. reflexivity. Qed.

  Theorem alpine_model_tpo :
    TotalPreorderOn (fun s => l_vok (Top.model_lib $"alpine") s = true) (l_vcmp (Top.model_lib $"alpine")).
  Proof. apply (model_lib_tpo_on _ _ _ _ _ _ MF.wf_core eco_found MF.cmp_core_tp MF.parse_core_wf). Qed.

  (* ---------- the CLI ---------- *)

  Variable sort_by : forall A : Type, (A -> A -> Z) -> list A -> list A.
  Variable e1 e2 e3 : list bytes -> bytes.

  Definition runEcosystem : nat -> list bytes -> res (bytes * Z) :=
    CmdCore.runEcosystem G.Version G.VersionRange Name NV NVR Contains Compare G.Version_String sort_by e1 e2 e3.

  Local Notation L := (Top.model_lib $"alpine").
  Local Notation accepted := (fun s : bytes => l_vok L s = true).

  (* `univers alpine <args>` as computed by the source-derived code is the CLI model's outcome *)
  Theorem alpine_runEcosystem_e2e (fuel : nat) (args : list bytes) :
    sort_ok G.Version NV Compare sort_by accepted ->
    fits args -> (length args < fuel)%nat -> Forall (fun a => short a = true) args ->
    (forall rest, args = $"sort" :: rest -> Forall accepted rest -> show_respects L rest) ->
    exists r, runEcosystem fuel args = Done r /\ shown (run_ecosystem L args) r.
  Proof.
    apply (eco_runEcosystem_e2e _ _ _ _ _ _ _ _ ($"alpine" : bytes) alpine_lib_ties_on alpine_model_tpo).
  Qed.

  Corollary alpine_cli_e2e (fuel : nat) (args : list bytes) :
    sort_ok G.Version NV Compare sort_by accepted ->
    fits args -> (length args < fuel)%nat -> Forall (fun a => short a = true) args ->
    (forall rest, args = $"sort" :: rest -> Forall accepted rest -> show_respects L rest) ->
    exists r, runEcosystem fuel args = Done r /\ shown (Top.model_cli (($"alpine" : bytes) :: args)) r.
  Proof.
    apply (eco_cli_e2e _ _ _ _ _ _ _ _ ($"alpine" : bytes) alpine_lib_ties_on alpine_model_tpo eq_refl eq_refl).
  Qed.

  (* the exit status: no hypothesis on the order, the sort oracle only has to return a permutation *)
  Theorem alpine_cli_e2e_exit (fuel : nat) (args : list bytes) :
    (forall l, Permutation (sort_by G.Version Compare l) l) ->
    fits args -> (length args < fuel)%nat -> Forall (fun a => short a = true) args ->
    exists r, runEcosystem fuel args = Done r /\ snd r = exit_code (Top.model_cli (($"alpine" : bytes) :: args)).
  Proof.
    apply (eco_cli_e2e_exit _ _ _ _ _ _ _ _ ($"alpine" : bytes) alpine_lib_ties_on eq_refl eq_refl).
  Qed.
End E2E.

Print Assumptions alpine_lib_ties_on.
Print Assumptions alpine_rok_closed.
Print Assumptions alpine_lib_ties.
Print Assumptions alpine_name_ok.
Print Assumptions alpine_model_tpo.
Print Assumptions alpine_runEcosystem_e2e.
Print Assumptions alpine_cli_e2e.
Print Assumptions alpine_cli_e2e_exit.
Print Assumptions abs_conc_numcomps.
Print Assumptions abs_conc_suffixes.
Print Assumptions map_opt_nil.
Print Assumptions parse_core_shape.
Print Assumptions abs_conc.
Print Assumptions NV_eq.
Print Assumptions NVR_eq.
Print Assumptions satisfies_eq.
Print Assumptions eco_found.
Check (NVR : oracles -> bytes -> option G.VersionRange).
Check (Compare : oracles -> G.Version -> G.Version -> Z).
Check (Contains : oracles -> G.VersionRange -> G.Version -> bool).
